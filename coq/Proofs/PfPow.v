(* Proofs/PfPow.v — (1) the specification-side power functions of Run/RunC13.v are Z.pow;
   (2) Uint-level multiplication (local copy in Model/Pow.v); (3) the square-and-multiply
   loops of src/pow.rs. *)
From Coq Require Import ZArith List Bool Lia Zpow_facts.
From RV.Model Require Import Base Word Limbs Add Pow.
From RV.Model Require Bits Shift.
From RV.Proofs Require Import BaseFacts PfLimbs PfAdd PfShift PfBits.
From RV.Proofs Require PfC01.
From RV.Run Require Import RunC13.
Import ListNotations.
Local Open Scope Z_scope.

(* ================= 1. spec-side arithmetic ================= *)
Lemma pow_pos_xO b p : b ^ Zpos (xO p) = b ^ Zpos p * b ^ Zpos p.
Proof. rewrite Pos2Z.inj_xO, Z.mul_comm, Z.pow_mul_r, Z.pow_2_r by lia. reflexivity. Qed.
Lemma pow_pos_xI b p : b ^ Zpos (xI p) = b * (b ^ Zpos p * b ^ Zpos p).
Proof.
  rewrite Pos2Z.inj_xI, Z.pow_add_r, Z.pow_1_r, (Z.mul_comm 2), Z.pow_mul_r, Z.pow_2_r by lia. ring.
Qed.

Lemma powmod_pos_spec bits b p : 0 <= bits -> powmod_pos bits b p = (b ^ Zpos p) mod 2 ^ bits.
Proof.
  intros Hb. induction p as [p IH|p IH|]; cbn [powmod_pos].
  - rewrite !modp2_spec, IH, pow_pos_xI by lia.
    rewrite <- Z.mul_mod by (apply Z.pow_nonzero; lia).
    rewrite Z.mul_mod_idemp_r by (apply Z.pow_nonzero; lia). reflexivity.
  - rewrite !modp2_spec, IH, pow_pos_xO by lia.
    rewrite <- Z.mul_mod by (apply Z.pow_nonzero; lia). reflexivity.
  - rewrite modp2_spec, Z.pow_1_r by lia. reflexivity.
Qed.

Lemma powmod_spec bits b e : 0 <= bits -> 0 <= e -> powmod bits b e = (b ^ e) mod 2 ^ bits.
Proof.
  intros Hb He. destruct e as [|p|p]; [|apply powmod_pos_spec; lia|lia].
  cbn [powmod]. rewrite modp2_spec, Z.pow_0_r by lia. reflexivity.
Qed.

Definition sat (m x : Z) : Z := Z.min x (m + 1).
Lemma satm_sat m x : satm m x = sat m x.
Proof. unfold satm, sat. destruct (Z.ltb_spec m x); lia. Qed.
Lemma sat_mul_r m x y : 0 <= m -> 0 <= x -> 0 <= y -> sat m (x * sat m y) = sat m (x * y).
Proof.
  intros Hm Hx Hy. unfold sat.
  destruct (Z.min_spec y (m + 1)) as [[H1 ->]|[H1 ->]]; [reflexivity|].
  destruct (Z.eq_dec x 0) as [->|Hx0]; [rewrite !Z.mul_0_l; reflexivity|].
  rewrite !Z.min_r by nia. reflexivity.
Qed.
Lemma sat_mul m x y : 0 <= m -> 0 <= x -> 0 <= y -> sat m (sat m x * sat m y) = sat m (x * y).
Proof.
  intros Hm Hx Hy. rewrite sat_mul_r by (unfold sat; lia).
  rewrite (Z.mul_comm (sat m x)), sat_mul_r by lia. now rewrite Z.mul_comm.
Qed.
Lemma sat_idem m x : sat m (sat m x) = sat m x.
Proof. unfold sat. lia. Qed.

Lemma powsat_pos_spec m b p : 0 <= m -> 0 <= b -> powsat_pos m b p = sat m (b ^ Zpos p).
Proof.
  intros Hm Hb. induction p as [p IH|p IH|]; cbn [powsat_pos].
  - rewrite pow_pos_xI, IH. set (h := b ^ Z.pos p) in *.
    assert (0 <= h) by (apply Z.pow_nonneg; lia).
    destruct (Z.ltb_spec m (sat m h)) as [Hl|Hl].
    + (* h > m: then b >= 1 (else h = 0) and the product exceeds m *)
      assert (m < h) by (unfold sat in Hl; lia).
      assert (1 <= b).
      { destruct (Z.eq_dec b 0) as [->|]; [|lia]. unfold h in *. rewrite Z.pow_0_l in * by lia. lia. }
      unfold sat. nia.
    + rewrite !satm_sat. rewrite sat_mul by lia. rewrite sat_mul_r by nia. reflexivity.
  - rewrite pow_pos_xO, IH. set (h := b ^ Z.pos p) in *.
    assert (0 <= h) by (apply Z.pow_nonneg; lia).
    destruct (Z.ltb_spec m (sat m h)) as [Hl|Hl].
    + assert (m < h) by (unfold sat in Hl; lia). unfold sat. nia.
    + rewrite satm_sat, sat_mul by lia. reflexivity.
  - rewrite satm_sat, Z.pow_1_r. reflexivity.
Qed.

Lemma powsat_spec m b e : 0 <= m -> 0 <= b -> 0 <= e -> powsat m b e = Z.min (b ^ e) (m + 1).
Proof.
  intros Hm Hb He. destruct e as [|p|p]; [|apply powsat_pos_spec; lia|lia].
  cbn [powsat]. rewrite satm_sat, Z.pow_0_r. reflexivity.
Qed.

Lemma pow_le_spec b e m : 0 <= m -> 0 <= b -> 0 <= e -> pow_le b e m = (b ^ e <=? m).
Proof.
  intros. unfold pow_le. rewrite powsat_spec by lia.
  destruct (Z.leb_spec (Z.min (b ^ e) (m + 1)) m), (Z.leb_spec (b ^ e) m); try reflexivity; lia.
Qed.
Lemma pow_gt_spec b e m : 0 <= m -> 0 <= b -> 0 <= e -> pow_gt b e m = (m <? b ^ e).
Proof.
  intros. unfold pow_gt. rewrite powsat_spec by lia.
  destruct (Z.ltb_spec m (Z.min (b ^ e) (m + 1))), (Z.ltb_spec m (b ^ e)); try reflexivity; lia.
Qed.

Lemma M_pos bits : 0 <= bits -> 0 < M bits.
Proof. intros. unfold M. apply Z.pow_pos_nonneg; lia. Qed.

Lemma overflows_spec bits a e : 0 <= bits -> 0 <= a -> 0 <= e ->
  overflows bits a e = (0 <? bits) && (2 ^ bits <=? a ^ e).
Proof.
  intros Hb Ha He. unfold overflows. pose proof (M_pos bits Hb). rewrite pow_gt_spec by lia.
  f_equal. unfold M in *.
  destruct (Z.ltb_spec (2 ^ bits - 1) (a ^ e)), (Z.leb_spec (2 ^ bits) (a ^ e)); try reflexivity; lia.
Qed.

(* ================= 2. Uint-level multiplication ================= *)
Lemma inW0 : inW 0. Proof. unfold inW. pose proof B_pos. lia. Qed.
#[local] Hint Resolve inW0 : core.

Lemma mac_ex l a b c : inW l -> inW a -> inW b -> inW c ->
  exists r k, mac l a b c = (r, k) /\ inW r /\ inW k /\ r + B * k = a * b + c + l.
Proof.
  unfold inW. intros Hl Ha Hb Hc. unfold mac, muladd2.
  destruct (lo_hi_split (a * b + c + l)) as (H1 & H2 & H3); [nia|].
  eexists _, _. split; [reflexivity|]. auto.
Qed.

Ltac mac_step l a b c x k Q :=
  let E := fresh "E" in let Wx := fresh "W" x in let Wk := fresh "W" k in
  destruct (mac_ex l a b c) as (x & k & E & Wx & Wk & Q); auto; rewrite E; clear E.

Ltac inv_words :=
  repeat match goal with
         | H : Forall inW (_ :: _) |- _ => inversion H; subst; clear H
         | H : Forall inW [] |- _ => clear H
         end.

Lemma mod_unique_pos T R N K : 0 <= R < N -> T = R + N * K -> R = T mod N.
Proof. intros HR ->. apply Z.mod_unique with (q := K); [left; lia | ring]. Qed.

Lemma B4 : B ^ Z.of_nat 4 = B * (B * (B * B)). Proof. change (Z.of_nat 4) with 4. ring. Qed.
Lemma B3 : B ^ Z.of_nat 3 = B * (B * B). Proof. change (Z.of_nat 3) with 3. ring. Qed.
Lemma B2 : B ^ Z.of_nat 2 = B * B. Proof. change (Z.of_nat 2) with 2. ring. Qed.
Lemma B1 : B ^ Z.of_nat 1 = B. Proof. change (Z.of_nat 1) with 1. ring. Qed.

Lemma addmul_1_spec l0 a0 b0 : inW l0 -> inW a0 -> inW b0 ->
  exists r, addmul_1 [l0] [a0] [b0] = r /\ length r = 1%nat /\ Forall inW r /\
            eval r = (eval [l0] + eval [a0] * eval [b0]) mod B ^ Z.of_nat 1.
Proof.
  intros. cbn [addmul_1].
  mac_step l0 a0 b0 0 x0 d1 Q1.
  eexists. split; [reflexivity|]. split; [reflexivity|].
  assert (Hw : Forall inW [x0]) by (repeat (apply Forall_cons; [assumption|]); apply Forall_nil).
  split; [exact Hw|]. pose proof (eval_bound _ Hw) as Hb. cbn [length] in Hb.
  apply mod_unique_pos with (K := d1); [exact Hb|].
  rewrite B1. cbn [eval].
  assert (l0 = x0 + B * d1 - a0 * b0) by lia; subst l0. ring.
Qed.

Lemma addmul_2_spec l0 l1 a0 a1 b0 b1 :
  Forall inW [l0; l1] -> Forall inW [a0; a1] -> Forall inW [b0; b1] ->
  exists r, addmul_2 [l0; l1] [a0; a1] [b0; b1] = r /\ length r = 2%nat /\ Forall inW r /\
            eval r = (eval [l0; l1] + eval [a0; a1] * eval [b0; b1]) mod B ^ Z.of_nat 2.
Proof.
  intros Hl Ha Hb. inv_words. cbn [addmul_2].
  mac_step l0 a0 b0 0 x0 c1 Q1.
  mac_step l1 a0 b1 c1 x1 d2 Q2.
  mac_step x1 a1 b0 0 y1 d3 Q3.
  eexists. split; [reflexivity|]. split; [reflexivity|].
  assert (Hw : Forall inW [x0; y1]) by (repeat (apply Forall_cons; [assumption|]); apply Forall_nil).
  split; [exact Hw|]. pose proof (eval_bound _ Hw) as Hbd. cbn [length] in Hbd.
  apply mod_unique_pos with (K := d2 + d3 + a1 * b1); [exact Hbd|].
  rewrite B2. cbn [eval].
  assert (l0 = x0 + B * c1 - a0 * b0) by lia; subst l0.
  assert (l1 = x1 + B * d2 - a0 * b1 - c1) by lia; subst l1.
  assert (x1 = y1 + B * d3 - a1 * b0) by lia; subst x1. ring.
Qed.

Lemma addmul_3_spec l0 l1 l2 a0 a1 a2 b0 b1 b2 :
  Forall inW [l0; l1; l2] -> Forall inW [a0; a1; a2] -> Forall inW [b0; b1; b2] ->
  exists r, addmul_3 [l0; l1; l2] [a0; a1; a2] [b0; b1; b2] = r /\ length r = 3%nat /\
            Forall inW r /\
            eval r = (eval [l0; l1; l2] + eval [a0; a1; a2] * eval [b0; b1; b2]) mod B ^ Z.of_nat 3.
Proof.
  intros Hl Ha Hb. inv_words. cbn [addmul_3].
  mac_step l0 a0 b0 0 x0 c1 Q1.
  mac_step l1 a0 b1 c1 x1 c2 Q2.
  mac_step l2 a0 b2 c2 x2 d3 Q3.
  mac_step x1 a1 b0 0 y1 c4 Q4.
  mac_step x2 a1 b1 c4 y2 d5 Q5.
  mac_step y2 a2 b0 0 z2 d6 Q6.
  eexists. split; [reflexivity|]. split; [reflexivity|].
  assert (Hw : Forall inW [x0; y1; z2]) by (repeat (apply Forall_cons; [assumption|]); apply Forall_nil).
  split; [exact Hw|]. pose proof (eval_bound _ Hw) as Hbd. cbn [length] in Hbd.
  apply mod_unique_pos with (K := d3 + d5 + d6 + a1 * b2 + a2 * b1 + B * (a2 * b2)); [exact Hbd|].
  rewrite B3. cbn [eval].
  assert (l0 = x0 + B * c1 - a0 * b0) by lia; subst l0.
  assert (l1 = x1 + B * c2 - a0 * b1 - c1) by lia; subst l1.
  assert (l2 = x2 + B * d3 - a0 * b2 - c2) by lia; subst l2.
  assert (x1 = y1 + B * c4 - a1 * b0) by lia; subst x1.
  assert (x2 = y2 + B * d5 - a1 * b1 - c4) by lia; subst x2.
  assert (y2 = z2 + B * d6 - a2 * b0) by lia; subst y2. ring.
Qed.

Lemma addmul_4_spec l0 l1 l2 l3 a0 a1 a2 a3 b0 b1 b2 b3 :
  Forall inW [l0; l1; l2; l3] -> Forall inW [a0; a1; a2; a3] -> Forall inW [b0; b1; b2; b3] ->
  exists r, addmul_4 [l0; l1; l2; l3] [a0; a1; a2; a3] [b0; b1; b2; b3] = r /\ length r = 4%nat /\
            Forall inW r /\
            eval r = (eval [l0; l1; l2; l3] + eval [a0; a1; a2; a3] * eval [b0; b1; b2; b3])
                     mod B ^ Z.of_nat 4.
Proof.
  intros Hl Ha Hb. inv_words. cbn [addmul_4].
  mac_step l0 a0 b0 0 x0 c1 Q1.
  mac_step l1 a0 b1 c1 x1 c2 Q2.
  mac_step l2 a0 b2 c2 x2 c3 Q3.
  mac_step l3 a0 b3 c3 x3 d4 Q4.
  mac_step x1 a1 b0 0 y1 c5 Q5.
  mac_step x2 a1 b1 c5 y2 c6 Q6.
  mac_step x3 a1 b2 c6 y3 d7 Q7.
  mac_step y2 a2 b0 0 z2 c8 Q8.
  mac_step y3 a2 b1 c8 z3 d9 Q9.
  mac_step z3 a3 b0 0 w3 d10 Q10.
  eexists. split; [reflexivity|]. split; [reflexivity|].
  assert (Hw : Forall inW [x0; y1; z2; w3]) by (repeat (apply Forall_cons; [assumption|]); apply Forall_nil).
  split; [exact Hw|]. pose proof (eval_bound _ Hw) as Hbd. cbn [length] in Hbd.
  apply mod_unique_pos with
    (K := d4 + d7 + d9 + d10 + a1 * b3 + a2 * b2 + a3 * b1 + B * (a2 * b3 + a3 * b2) + B * B * (a3 * b3));
    [exact Hbd|].
  rewrite B4. cbn [eval].
  assert (l0 = x0 + B * c1 - a0 * b0) by lia; subst l0.
  assert (l1 = x1 + B * c2 - a0 * b1 - c1) by lia; subst l1.
  assert (l2 = x2 + B * c3 - a0 * b2 - c2) by lia; subst l2.
  assert (l3 = x3 + B * d4 - a0 * b3 - c3) by lia; subst l3.
  assert (x1 = y1 + B * c5 - a1 * b0) by lia; subst x1.
  assert (x2 = y2 + B * c6 - a1 * b1 - c5) by lia; subst x2.
  assert (x3 = y3 + B * d7 - a1 * b2 - c6) by lia; subst x3.
  assert (y2 = z2 + B * c8 - a2 * b0) by lia; subst y2.
  assert (y3 = z3 + B * d9 - a2 * b1 - c8) by lia; subst y3.
  assert (z3 = w3 + B * d10 - a3 * b0) by lia; subst z3. ring.
Qed.

Lemma addmul_n_spec lhs a b :
  length a = length lhs -> length b = length lhs ->
  Forall inW lhs -> Forall inW a -> Forall inW b ->
  exists r, addmul_n lhs a b = Val r /\ length r = length lhs /\ Forall inW r /\
            eval r = (eval lhs + eval a * eval b) mod B ^ Z.of_nat (length lhs).
Proof.
  intros Hla Hlb Hwl Hwa Hwb. unfold addmul_n.
  rewrite Hla, Hlb, !Nat.eqb_refl. cbn [negb orb].
  destruct lhs as [|l0 [|l1 [|l2 [|l3 [|l4 lhs]]]]].
  - destruct a; [|discriminate]. destruct b; [|discriminate].
    exists []. cbn. repeat split; auto.
  - destruct a as [|a0 [|]]; try discriminate. destruct b as [|b0 [|]]; try discriminate.
    inv_words. destruct (addmul_1_spec l0 a0 b0) as (r & E & Hl & Hw & He); auto.
    exists r. cbn [length]. rewrite E. auto.
  - destruct a as [|a0 [|a1 [|]]]; try discriminate. destruct b as [|b0 [|b1 [|]]]; try discriminate.
    destruct (addmul_2_spec l0 l1 a0 a1 b0 b1) as (r & E & Hl & Hw & He); auto.
    exists r. cbn [length]. rewrite E. auto.
  - destruct a as [|a0 [|a1 [|a2 [|]]]]; try discriminate.
    destruct b as [|b0 [|b1 [|b2 [|]]]]; try discriminate.
    destruct (addmul_3_spec l0 l1 l2 a0 a1 a2 b0 b1 b2) as (r & E & Hl & Hw & He); auto.
    exists r. cbn [length]. rewrite E. auto.
  - destruct a as [|a0 [|a1 [|a2 [|a3 [|]]]]]; try discriminate.
    destruct b as [|b0 [|b1 [|b2 [|b3 [|]]]]]; try discriminate.
    destruct (addmul_4_spec l0 l1 l2 l3 a0 a1 a2 a3 b0 b1 b2 b3) as (r & E & Hl & Hw & He); auto.
    exists r. cbn [length]. rewrite E. auto.
  - set (L := l0 :: l1 :: l2 :: l3 :: l4 :: lhs) in *.
    pose proof (addmul_spec L a b Hwl Hwa Hwb) as S.
    destruct (addmul L a b) as [l' f]. cbn zeta in S. destruct S as (S1 & S2 & S3 & _).
    exists l'. cbn [fst length]. repeat split; auto.
Qed.

Lemma mod_Bn_mod_bits bits x :
  0 < bits -> (x mod B ^ nlimbs bits) mod 2 ^ bits = x mod 2 ^ bits.
Proof.
  intros H. destruct (PfAdd.Bn_multiple bits H) as (k & Hk & HBk).
  assert (0 < 2 ^ bits) by (apply Z.pow_pos_nonneg; lia).
  rewrite HBk, Z.rem_mul_r by lia.
  rewrite Z.mul_comm, Z.mod_add by lia. apply Z.mod_mod. lia.
Qed.

Theorem overflowing_mul_spec bits a b :
  0 <= bits -> canon bits a -> canon bits b ->
  let '(r, f) := overflowing_mul bits a b in
  canon bits r /\ eval r = (eval a * eval b) mod 2 ^ bits /\
  f = (2 ^ bits <=? eval a * eval b).
Proof.
  intros Hb Ha Hc. unfold overflowing_mul.
  destruct (Z.eq_dec bits 0) as [->|N].
  - apply canon_zero_width in Ha, Hc. subst. cbn. unfold canon. cbn. repeat split; auto.
  - assert (Hpos : 0 < bits) by lia.
    pose proof (canon_range bits a Hb Ha) as Hra. pose proof (canon_range bits b Hb Hc) as Hrb.
    destruct Ha as (Hla & Hwa & _), Hc as (Hlb & Hwb & _).
    destruct (canon_uZERO bits Hb) as [(Hlz & Hwz & _) Hez].
    pose proof (addmul_spec (uZERO bits) a b Hwz Hwa Hwb) as S.
    destruct (addmul (uZERO bits) a b) as [l' f0]. cbn zeta in S.
    destruct S as (S1 & S2 & S3 & S4). rewrite Hez, Z.add_0_l in S3, S4.
    rewrite Hlz, nlimbsN_Z in * by lia.
    destruct (Z.ltb_spec 0 bits); [|lia].
    destruct (masked_spec bits l' Hpos S1 S2) as [Hcan Hev].
    rewrite (last_gt_mask bits l' Hpos S1 S2).
    split; [exact Hcan|]. split.
    + rewrite Hev, S3. apply mod_Bn_mod_bits; lia.
    + subst f0. rewrite S3.
      destruct (PfAdd.Bn_multiple bits Hpos) as (k & Hk & HBk).
      assert (0 < 2 ^ bits) by (apply Z.pow_pos_nonneg; lia).
      assert (0 <= eval a * eval b) by nia.
      destruct (Z.leb_spec (B ^ nlimbs bits) (eval a * eval b)) as [Hge|Hlt]; cbn [orb].
      * symmetry. apply Z.leb_le. nia.
      * rewrite Z.mod_small by lia. reflexivity.
Qed.

Theorem wrapping_mul_spec bits a b :
  0 <= bits -> canon bits a -> canon bits b ->
  exists r, wrapping_mul bits a b = Val r /\ canon bits r /\
            eval r = (eval a * eval b) mod 2 ^ bits.
Proof.
  intros Hb Ha Hc. unfold wrapping_mul.
  destruct (Z.eq_dec bits 0) as [->|N].
  - apply canon_zero_width in Ha, Hc. subst. cbn. exists []. unfold canon. cbn. repeat split; auto.
  - assert (Hpos : 0 < bits) by lia.
    destruct Ha as (Hla & Hwa & _), Hc as (Hlb & Hwb & _).
    destruct (canon_uZERO bits Hb) as [(Hlz & Hwz & _) Hez].
    destruct (addmul_n_spec (uZERO bits) a b) as (l' & E & S1 & S2 & S3); try congruence; auto.
    rewrite E. cbn [obind]. rewrite Hez, Z.add_0_l in S3.
    rewrite Hlz in S1. rewrite Hlz, nlimbsN_Z in S3 by lia.
    destruct (Z.ltb_spec 0 bits); [|lia].
    destruct (masked_spec bits l' Hpos S1 S2) as [Hcan Hev].
    eexists. split; [reflexivity|]. split; [exact Hcan|].
    rewrite Hev, S3. apply mod_Bn_mod_bits; lia.
Qed.

(* ================= 3. src/pow.rs ================= *)
Lemma is_zero_spec bits a : canon bits a -> is_zero bits a = (eval a =? 0).
Proof.
  intros Hc. pose proof (ne_zero_spec bits a Hc) as H. unfold Shift.ne_zero in H. unfold is_zero.
  destruct (list_eqb Z.eqb a (uZERO bits)), (eval a =? 0); cbn in H; congruence.
Qed.

Lemma uONE_spec bits : 0 < bits -> canon bits (Bits.uONE bits) /\ eval (Bits.uONE bits) = 1.
Proof.
  intros Hb. unfold Bits.uONE. destruct (Z.eqb_spec bits 0) as [?|_]; [lia|].
  pose proof (nlimbs_pos bits Hb). pose proof (nlimbsN_Z bits ltac:(lia)) as HN.
  unfold uZERO, zero_limbs. destruct (nlimbsN bits) as [|k] eqn:E; [lia|].
  cbn [repeat eval]. rewrite eval_repeat0. split; [|lia].
  unfold canon. rewrite E. cbn [length eval]. rewrite repeat_length, eval_repeat0.
  split; [reflexivity|]. split.
  - constructor; [unfold inW; rewrite B_val; lia | apply Forall_inW_repeat0].
  - assert (2 ^ 1 <= 2 ^ bits) by (apply Z.pow_le_mono_r; lia). lia.
Qed.

Lemma bit0_spec bits x : 0 < bits -> canon bits x -> Bits.bit bits x 0 = Val (Z.odd (eval x)).
Proof.
  intros Hb Hc. rewrite bit_spec by (auto; lia). destruct (Z.ltb_spec 0 bits); [|lia].
  now rewrite Z.bit0_odd.
Qed.

Lemma shr1_spec bits x : 0 <= bits -> canon bits x ->
  canon bits (Shift.wrapping_shr bits x 1) /\ eval (Shift.wrapping_shr bits x 1) = eval x / 2.
Proof.
  intros Hb Hc. destruct (wrapping_shr_spec bits x 1 Hb Hc ltac:(lia)) as [H1 H2].
  split; [exact H1|]. rewrite H2. reflexivity.
Qed.

Lemma pow_half S x : 0 <= x -> S ^ x = (S * S) ^ (x / 2) * (if Z.odd x then S else 1).
Proof.
  intros Hx. pose proof (Zdiv2_odd_eqn x) as E. rewrite Z.div2_div in E.
  assert (Hq : 0 <= x / 2) by (apply Z.div_pos; lia).
  set (q := x / 2) in *. rewrite E at 1.
  assert (Hb : 0 <= (if Z.odd x then 1 else 0)) by (destruct (Z.odd x); lia).
  rewrite Z.pow_add_r by lia. rewrite Z.pow_mul_r by lia. rewrite Z.pow_2_r.
  destruct (Z.odd x); rewrite ?Z.pow_1_r, ?Z.pow_0_r; reflexivity.
Qed.

(* the overflow bookkeeping of one multiplication *)
Lemma pow_flag_step m S R :
  2 <= m -> ((1 <= S /\ 1 <= R) \/ (S = 0 /\ 0 <= R <= 1)) ->
  ((m <=? R) || ((m <=? (R mod m) * (S mod m)) || (m <=? S))) = (m <=? R * S).
Proof.
  intros Hm [[HS HR]|[-> HR]].
  - destruct (Z.leb_spec m R); cbn [orb]; [symmetry; apply Z.leb_le; nia|].
    destruct (Z.leb_spec m S); [rewrite orb_true_r; symmetry; apply Z.leb_le; nia|].
    rewrite orb_false_r. rewrite !Z.mod_small by lia. reflexivity.
  - rewrite Z.mod_0_l, !Z.mul_0_r by lia.
    destruct (Z.leb_spec m R), (Z.leb_spec m 0); try lia; reflexivity.
Qed.

Lemma opow_loop_S fuel bits self exp result overflow base_overflow :
  opow_loop (Datatypes.S fuel) bits self exp result overflow base_overflow =
  if is_zero bits exp then Val (result, overflow)
  else
    do b0 <- Bits.bit bits exp 0 ;
    let '(result, overflow) :=
      if (b0 : bool) then
        let '(r, o) := overflowing_mul bits result self in
        (r, overflow || (o || base_overflow))
      else (result, overflow) in
    let '(s, o) := overflowing_mul bits self self in
    opow_loop fuel bits s (Shift.wrapping_shr bits exp 1) result overflow (base_overflow || o).
Proof. reflexivity. Qed.

Lemma wpow_loop_S fuel bits self exp result :
  wpow_loop (Datatypes.S fuel) bits self exp result =
  if is_zero bits exp then Val result
  else
    do b0 <- Bits.bit bits exp 0 ;
    do result <- (if (b0 : bool) then wrapping_mul bits result self else Val result) ;
    do s <- wrapping_mul bits self self ;
    wpow_loop fuel bits s (Shift.wrapping_shr bits exp 1) result.
Proof. reflexivity. Qed.

Lemma opow_loop_spec bits : 0 < bits -> forall n s x r ov bov S R,
  canon bits s -> canon bits x -> canon bits r ->
  eval s = S mod 2 ^ bits -> bov = (2 ^ bits <=? S) ->
  eval r = R mod 2 ^ bits -> ov = (2 ^ bits <=? R) ->
  ((1 <= S /\ 1 <= R) \/ (S = 0 /\ 0 <= R <= 1)) ->
  eval x < 2 ^ Z.of_nat n ->
  exists res f, opow_loop (Datatypes.S n) bits s x r ov bov = Val (res, f) /\ canon bits res /\
                eval res = (R * S ^ eval x) mod 2 ^ bits /\ f = (2 ^ bits <=? R * S ^ eval x).
Proof.
  intros Hb. assert (Hb0 : 0 <= bits) by lia.
  assert (Hm : 2 <= 2 ^ bits).
  { change 2 with (2 ^ 1) at 1. apply Z.pow_le_mono_r; lia. }
  induction n as [|n IH]; intros s x r ov bov S R Hs Hx Hr Es Ebov Er Eov Hinv Hlt;
    pose proof (canon_range bits x Hb0 Hx) as Hxr.
  - rewrite opow_loop_S. rewrite is_zero_spec by auto.
    assert (eval x = 0) as -> by (cbn in Hlt; lia). cbn [Z.eqb].
    exists r, ov. rewrite Z.pow_0_r, Z.mul_1_r. auto.
  - rewrite opow_loop_S. rewrite is_zero_spec by auto.
    destruct (Z.eqb_spec (eval x) 0) as [E0|N0].
    { exists r, ov. rewrite E0, Z.pow_0_r, Z.mul_1_r. auto. }
    rewrite bit0_spec by auto. cbn [obind].
    (* squaring *)
    pose proof (overflowing_mul_spec bits s s Hb0 Hs Hs) as Sq.
    (* optional multiplication *)
    pose proof (overflowing_mul_spec bits r s Hb0 Hr Hs) as Mu.
    destruct (shr1_spec bits x Hb0 Hx) as [Hx' Ex'].
    assert (Hlt' : eval (Shift.wrapping_shr bits x 1) < 2 ^ Z.of_nat n).
    { rewrite Ex'. rewrite Nat2Z.inj_succ, Z.pow_succ_r in Hlt by lia.
      apply Z.div_lt_upper_bound; lia. }
    assert (HSS : 0 <= S) by lia.
    assert (Hsq_inv : forall R', ((1 <= S /\ 1 <= R') \/ (S = 0 /\ 0 <= R' <= 1)) ->
                      ((1 <= S * S /\ 1 <= R') \/ (S * S = 0 /\ 0 <= R' <= 1))).
    { intros R' [[? ?]|[-> ?]]; [left; nia | right; lia]. }
    rewrite (pow_half S (eval x)) by lia.
    destruct (overflowing_mul bits s s) as [s2 o2]. destruct Sq as (Hs2 & Es2 & Eo2).
    assert (Es2' : eval s2 = (S * S) mod 2 ^ bits).
    { rewrite Es2, Es, <- Z.mul_mod by lia. reflexivity. }
    assert (Ebov' : (bov || o2) = (2 ^ bits <=? S * S)).
    { subst bov o2. rewrite Es. destruct (Z.leb_spec (2 ^ bits) S); cbn [orb].
      - symmetry. apply Z.leb_le. nia.
      - rewrite Z.mod_small by lia. reflexivity. }
    destruct (Z.odd (eval x)).
    + destruct (overflowing_mul bits r s) as [r2 o1]. destruct Mu as (Hr2 & Er2 & Eo1).
      assert (Er2' : eval r2 = (R * S) mod 2 ^ bits).
      { rewrite Er2, Er, Es, <- Z.mul_mod by lia. reflexivity. }
      assert (Eov' : (ov || (o1 || bov)) = (2 ^ bits <=? R * S)).
      { subst ov o1 bov. rewrite Er, Es. apply pow_flag_step; auto. }
      destruct (IH s2 (Shift.wrapping_shr bits x 1) r2 (ov || (o1 || bov)) (bov || o2) (S * S) (R * S))
        as (res & f & E & Hc & Ev & Ef); auto.
      { apply Hsq_inv. destruct Hinv as [[? ?]|[-> ?]]; [left; nia | right; lia]. }
      exists res, f. cbv beta iota zeta. rewrite E. rewrite Ex' in Ev, Ef. split; [reflexivity|]. split; [exact Hc|].
      replace (R * ((S * S) ^ (eval x / 2) * S)) with (R * S * (S * S) ^ (eval x / 2)) by ring. auto.
    + destruct (IH s2 (Shift.wrapping_shr bits x 1) r ov (bov || o2) (S * S) R)
        as (res & f & E & Hc & Ev & Ef); auto.
      exists res, f. cbv beta iota zeta. rewrite E. rewrite Ex' in Ev, Ef. split; [reflexivity|]. split; [exact Hc|].
      rewrite Z.mul_1_r. auto.
Qed.

Theorem overflowing_pow_spec bits a e :
  0 < bits -> canon bits a -> canon bits e ->
  exists res, Pow.overflowing_pow bits a e = Val (res, 2 ^ bits <=? eval a ^ eval e) /\
              canon bits res /\ eval res = (eval a ^ eval e) mod 2 ^ bits.
Proof.
  intros Hb Ha He. assert (Hb0 : 0 <= bits) by lia.
  unfold Pow.overflowing_pow. destruct (Z.eqb_spec bits 0); [lia|].
  destruct (uONE_spec bits Hb) as [H1 E1].
  pose proof (canon_range bits a Hb0 Ha) as Hra. pose proof (canon_range bits e Hb0 He) as Hre.
  assert (Hm : 2 <= 2 ^ bits).
  { change 2 with (2 ^ 1) at 1. apply Z.pow_le_mono_r; lia. }
  destruct (opow_loop_spec bits Hb (Z.to_nat bits) a e (Bits.uONE bits) false false (eval a) 1)
    as (res & f & E & Hc & Ev & Ef); auto.
  - rewrite Z.mod_small; lia.
  - symmetry. apply Z.leb_gt. lia.
  - rewrite E1, Z.mod_small; lia.
  - symmetry. apply Z.leb_gt. lia.
  - destruct (Z.eq_dec (eval a) 0); [right | left]; lia.
  - rewrite Z2Nat.id by lia. lia.
  - unfold pow_fuel. rewrite E. rewrite Z.mul_1_l in *. subst f. exists res. auto.
Qed.

Lemma overflowing_pow_zero a e : Pow.overflowing_pow 0 a e = Val (a, false).
Proof. reflexivity. Qed.

Lemma wpow_loop_spec bits : 0 < bits -> forall n s x r,
  canon bits s -> canon bits x -> canon bits r -> eval x < 2 ^ Z.of_nat n ->
  exists res, wpow_loop (Datatypes.S n) bits s x r = Val res /\ canon bits res /\
              eval res = (eval r * eval s ^ eval x) mod 2 ^ bits.
Proof.
  intros Hb. assert (Hb0 : 0 <= bits) by lia.
  assert (Hm : 0 < 2 ^ bits) by (apply Z.pow_pos_nonneg; lia).
  induction n as [|n IH]; intros s x r Hs Hx Hr Hlt;
    pose proof (canon_range bits x Hb0 Hx) as Hxr; pose proof (canon_range bits r Hb0 Hr) as Hrr.
  - rewrite wpow_loop_S. rewrite is_zero_spec by auto.
    assert (eval x = 0) as -> by (cbn in Hlt; lia). cbn [Z.eqb].
    exists r. rewrite Z.pow_0_r, Z.mul_1_r, Z.mod_small by lia. auto.
  - rewrite wpow_loop_S. rewrite is_zero_spec by auto.
    destruct (Z.eqb_spec (eval x) 0) as [E0|N0].
    { exists r. rewrite E0, Z.pow_0_r, Z.mul_1_r, Z.mod_small by lia. auto. }
    rewrite bit0_spec by auto. cbn [obind].
    destruct (wrapping_mul_spec bits s s Hb0 Hs Hs) as (s2 & Esq & Hs2 & Es2).
    destruct (wrapping_mul_spec bits r s Hb0 Hr Hs) as (r2 & Emu & Hr2 & Er2).
    destruct (shr1_spec bits x Hb0 Hx) as [Hx' Ex'].
    assert (Hlt' : eval (Shift.wrapping_shr bits x 1) < 2 ^ Z.of_nat n).
    { rewrite Ex'. rewrite Nat2Z.inj_succ, Z.pow_succ_r in Hlt by lia.
      apply Z.div_lt_upper_bound; lia. }
    rewrite (pow_half (eval s) (eval x)) by lia.
    assert (Hpm : forall k, 0 <= k -> (eval s2 ^ k) mod 2 ^ bits = ((eval s * eval s) ^ k) mod 2 ^ bits).
    { intros k Hk. rewrite Es2. symmetry. apply Zpow_facts.Zpower_mod. lia. }
    assert (0 <= eval x / 2) by (apply Z.div_pos; lia).
    destruct (Z.odd (eval x)).
    + rewrite Emu. cbn [obind]. rewrite Esq. cbn [obind].
      destruct (IH s2 (Shift.wrapping_shr bits x 1) r2) as (res & E & Hc & Ev); auto.
      exists res. rewrite E. split; [reflexivity|]. split; [exact Hc|].
      rewrite Ev, Ex', Er2.
      rewrite Z.mul_mod_idemp_l by lia. rewrite <- Z.mul_mod_idemp_r, Hpm, Z.mul_mod_idemp_r by lia.
      f_equal. ring.
    + cbn [obind]. rewrite Esq. cbn [obind].
      destruct (IH s2 (Shift.wrapping_shr bits x 1) r) as (res & E & Hc & Ev); auto.
      exists res. rewrite E. split; [reflexivity|]. split; [exact Hc|].
      rewrite Ev, Ex'. rewrite <- Z.mul_mod_idemp_r, Hpm, Z.mul_mod_idemp_r by lia.
      f_equal. ring.
Qed.

Theorem wrapping_pow_spec bits a e :
  0 < bits -> canon bits a -> canon bits e ->
  exists res, Pow.wrapping_pow bits a e = Val res /\ canon bits res /\
              eval res = (eval a ^ eval e) mod 2 ^ bits.
Proof.
  intros Hb Ha He. assert (Hb0 : 0 <= bits) by lia.
  unfold Pow.wrapping_pow. destruct (Z.eqb_spec bits 0); [lia|].
  destruct (uONE_spec bits Hb) as [H1 E1].
  pose proof (canon_range bits e Hb0 He) as Hre.
  destruct (wpow_loop_spec bits Hb (Z.to_nat bits) a e (Bits.uONE bits)) as (res & E & Hc & Ev); auto.
  - rewrite Z2Nat.id by lia. lia.
  - unfold pow_fuel. rewrite E. exists res. rewrite E1, Z.mul_1_l in Ev. auto.
Qed.

(* Pow.checked_pow: Some exactly when the power fits *)
Theorem checked_pow_spec bits a e :
  0 < bits -> canon bits a -> canon bits e ->
  exists res, canon bits res /\ eval res = (eval a ^ eval e) mod 2 ^ bits /\
    Pow.checked_pow bits a e = Val (if 2 ^ bits <=? eval a ^ eval e then None else Some res).
Proof.
  intros Hb Ha He. destruct (overflowing_pow_spec bits a e Hb Ha He) as (res & E & Hc & Ev).
  exists res. split; [exact Hc|]. split; [exact Ev|].
  unfold Pow.checked_pow. rewrite E. cbn [obind]. destruct (2 ^ bits <=? eval a ^ eval e); reflexivity.
Qed.

(* ================= 4. helpers shared by PfLog / PfRoot ================= *)
Lemma uint_of_small bits v : 0 <= bits -> 0 <= v < 2 ^ bits ->
  canon bits (uint_of bits v) /\ eval (uint_of bits v) = v.
Proof.
  intros Hb Hv. unfold uint_of.
  assert (E : eval (to_limbs (nlimbsN bits) v) = v).
  { rewrite eval_to_limbs. apply Z.mod_small. rewrite nlimbsN_Z by lia.
    destruct (Z.eq_dec bits 0) as [->|N]; [cbn in *; lia|].
    destruct (PfAdd.Bn_multiple bits ltac:(lia)) as (k & Hk & ->). nia. }
  split; [|exact E]. unfold canon. rewrite to_limbs_length, E.
  split; [reflexivity|]. split; [apply to_limbs_inW | lia].
Qed.

Lemma list_eqb_eq (a b : list Z) : list_eqb Z.eqb a b = true <-> a = b.
Proof.
  revert b. induction a as [|x a IH]; intros [|y b]; cbn [list_eqb]; split; try discriminate; auto.
  - rewrite andb_true_iff, Z.eqb_eq, IH. intros [-> ->]. reflexivity.
  - intros E. inversion E; subst. rewrite Z.eqb_refl. cbn. apply IH. reflexivity.
Qed.

Lemma ueq_spec bits a b : canon bits a -> canon bits b -> ueq a b = (eval a =? eval b).
Proof.
  intros (Hla & Hwa & _) (Hlb & Hwb & _). unfold ueq.
  destruct (Z.eqb_spec (eval a) (eval b)) as [E|N].
  - apply list_eqb_eq. apply eval_inj; auto; congruence.
  - destruct (list_eqb Z.eqb a b) eqn:E; [|reflexivity].
    apply list_eqb_eq in E. subst. congruence.
Qed.

Lemma limbs_cmp_eval bits a b : canon bits a -> canon bits b ->
  limbs_cmp a b = (eval a ?= eval b).
Proof.
  intros (Hla & Hwa & _) (Hlb & Hwb & _). apply PfC01.limbs_cmp_spec; auto; congruence.
Qed.
Lemma ult_spec bits a b : canon bits a -> canon bits b -> ult a b = (eval a <? eval b).
Proof. apply PfC01.ult_spec. Qed.
Lemma ule_spec bits a b : canon bits a -> canon bits b -> ule a b = (eval a <=? eval b).
Proof.
  intros Ha Hb. unfold ule. rewrite (limbs_cmp_eval bits) by auto. unfold Z.leb.
  destruct (eval a ?= eval b); reflexivity.
Qed.

(* ---------- iter2: 2^n rounds ---------- *)
Section Iter2.
  Context {St R : Type}.
  Variable f : St -> step_res St R.
  Variable Inv : St -> Prop.
  Variable Post : outcome R -> Prop.
  Variable mu : St -> Z.
  Hypothesis Hstep : forall s, Inv s ->
    match f s with
    | Done r => Post r
    | More s' => Inv s' /\ 0 <= mu s' < mu s
    end.

  Lemma iter2_progress n : forall s, Inv s ->
    (exists r, iter2 n f s = Done r /\ Post r) \/
    (exists s', iter2 n f s = More s' /\ Inv s' /\ 0 <= mu s' /\ mu s' + 2 ^ Z.of_nat n <= mu s).
  Proof.
    induction n as [|n IH]; intros s Hs.
    - cbn [iter2]. pose proof (Hstep s Hs) as H. destruct (f s) as [s'|r].
      + right. exists s'. change (2 ^ Z.of_nat 0) with 1. split; [reflexivity|]. split; [tauto|]. lia.
      + left. exists r. auto.
    - cbn [iter2]. destruct (IH s Hs) as [(r & E & Hp)|(s' & E & Hi & H0 & Hm)]; rewrite E.
      + left. exists r. auto.
      + destruct (IH s' Hi) as [(r & E' & Hp)|(s'' & E' & Hi' & H0' & Hm')]; rewrite E'.
        * left. exists r. auto.
        * right. exists s''. split; [reflexivity|]. split; [exact Hi'|]. split; [exact H0'|].
          rewrite Nat2Z.inj_succ, Z.pow_succ_r by lia. lia.
  Qed.

  Theorem run_loop_spec n s : Inv s -> mu s < 2 ^ Z.of_nat n -> Post (run_loop n f s).
  Proof.
    intros Hs Hm. unfold run_loop.
    destruct (iter2_progress n s Hs) as [(r & E & Hp)|(s' & E & Hi & H0 & Hm')]; rewrite E.
    - exact Hp.
    - lia.
  Qed.
End Iter2.

Lemma sbind_val {A St R} (a : A) (k : A -> step_res St R) : sbind (Val a) k = k a.
Proof. reflexivity. Qed.

Lemma pow_gt_self k : 0 <= k -> k < 2 ^ k.
Proof.
  intros H. pattern k. apply natlike_ind; [cbn; lia | | exact H].
  intros x Hx IH. rewrite Z.pow_succ_r by lia. lia.
Qed.

Lemma pow_mono_base a b k : 0 <= a <= b -> 0 <= k -> a ^ k <= b ^ k.
Proof. intros. apply Z.pow_le_mono_l. lia. Qed.
