(* Proofs/PfC17A.v — C17, group A: the decoders of rlp, alloy-rlp, fastrlp 0.3/0.4, serde_json and
   bincode never panic on any input; Ok(v) implies v canonical and denoted by the input (for the
   canonical-form enforcing ones: the consumed prefix IS the reference encoding); Err implies the
   input is not the reference encoding of an in-range value. *)
From Coq Require Import ZArith List Bool Lia.
From RV.Model Require Import Base Word Bytes BaseConv CodecA.
From RV.Spec Require Import FmtA.
From RV.Proofs Require Import BaseFacts PfBytes PfCodecA.
From RV.Proofs Require PfC08.
From RV.Run Require Import RunC17A.
Import ListNotations.
Local Open Scope Z_scope.

Lemma Forall_isbyte_b l : forallb isbyteb l = true <-> Forall isbyte l.
Proof. apply PfC08.Forall_isbyte_iff. Qed.

Lemma canonb_true bits l : canon bits l -> canonb bits l = true.
Proof. apply canonb_iff. Qed.

Lemma bytes_eqb_refl l : bytes_eqb l l = true.
Proof. apply list_eqb_eq. reflexivity. Qed.

Lemma Forall_app_r {A} (P : A -> Prop) a b : Forall P (a ++ b) -> Forall P b.
Proof. intros H. apply Forall_app in H. tauto. Qed.

(* ---------- canonical-form enforcing decoders ---------- *)
Lemma strict_ok bits inp : okbits bits -> Forall isbyte inp ->
  spec_rlp_strict bits inp (do r <- CodecA.alloy_rlp_decode bits inp; Val (arlp_toks r)) = true.
Proof.
  intros Hb Hin. destruct (alloy_rlp_decode_sound bits inp ltac:(unfold okbits in Hb; lia) Hin) as (r & Er & Hr).
  rewrite Er. cbn [obind]. destruct r as [[l m]|e]; cbn [arlp_toks spec_rlp_strict].
  - destruct Hr as (Hc & Hm & Ef). rewrite canonb_true by assumption.
    destruct (Z.leb_spec 0 m); [|lia]. destruct (Z.leb_spec m (lenZ inp)); [|lia]. cbn [andb].
    rewrite Ef. apply bytes_eqb_refl.
  - apply negb_true_iff. unfold rlp_ref_fits.
    destruct (rlp_uint_prefix inp) as [[v m]|] eqn:Ep; [|reflexivity].
    destruct (Z.ltb_spec v (2 ^ bits)) as [Hv|]; [|reflexivity]. exfalso.
    destruct (rlp_uint_prefix_inv inp v m Hin Ep) as (rest & Einp & Hv0 & Hk & _).
    rewrite Einp in Er. rewrite alloy_rlp_decode_complete in Er by (unfold okbits in Hb; lia).
    discriminate.
Qed.

(* ---------- rlp 0.5, Uint ---------- *)
Lemma lax_ok bits inp : okbits bits -> Forall isbyte inp ->
  spec_rlp_lax bits inp (do r <- CodecA.rlp_decode bits inp; Val (rlpd_toks r)) = true.
Proof.
  intros Hb Hin. assert (Hb0 : 0 <= bits) by (unfold okbits in Hb; lia).
  destruct (rlp_decode_sound bits inp Hb0 Hin) as (r & Er & Hr).
  rewrite Er. cbn [obind]. destruct r as [l|e]; cbn [rlpd_toks spec_rlp_lax].
  - destruct Hr as (Hc & p & c & Ei & Ev). rewrite canonb_true by assumption. cbn [andb].
    rewrite Ei. now apply Z.eqb_eq.
  - apply negb_true_iff. unfold rlp_ref_fits.
    destruct (rlp_uint_prefix inp) as [[v m]|] eqn:Ep; [|reflexivity].
    destruct (Z.ltb_spec v (2 ^ bits)) as [Hv|]; [|reflexivity]. exfalso.
    destruct (rlp_uint_prefix_inv inp v m Hin Ep) as (rest & Einp & Hv0 & Hk & _).
    rewrite Einp in Er, Hin. rewrite rlp_decode_complete in Er by (try lia; now apply Forall_app_r in Hin).
    discriminate.
Qed.

(* ---------- rlp 0.5, Bits ---------- *)
Lemma bits_ok bits inp : okbits bits -> Forall isbyte inp ->
  spec_rlp_bits bits inp (do r <- CodecA.bits_rlp_decode bits inp; Val (rlpd_toks r)) = true.
Proof.
  intros Hb Hin. assert (Hb0 : 0 <= bits) by (unfold okbits in Hb; lia).
  rewrite bits_rlp_decode_spec by assumption. cbn [obind]. unfold spec_rlp_bits. rewrite !SBYTES_nbytes by assumption.
  assert (Hn64 : nbytes bits < 2 ^ 64 - 9) by (unfold okbits, nbytes in *; Z.div_mod_to_equations; lia).
  destruct (dv_fn inp) as [e|d] eqn:Ed.
  - cbn [rlpd_toks].
    destruct (rlp_str_item inp) as [[p c]|] eqn:Ei; [|reflexivity].
    apply negb_true_iff. apply not_true_iff_false. intros H.
    apply andb_true_iff in H. destruct H as [H Hpre]. apply andb_true_iff in H. destruct H as [Hl _].
    apply Z.eqb_eq in Hl. apply prefixb_iff in Hpre. destruct Hpre as (rest & Einp).
    destruct (rlp_str_item_inv inp p c Hin Ei) as (Hp & _).
    rewrite Einp, dv_fn_complete in Ed by (try assumption; lia). discriminate.
  - destruct (dv_fn_sound inp d Ed) as (c & Ei).
    destruct (rlp_str_item_inv inp d c Hin Ei) as (Hd & _).
    pose proof (be_val_bound d Hd) as Hdv.
    destruct (Z.ltb_spec (lenZ d) (nbytes bits)) as [H1|H1].
    { cbn [rlpd_toks]. rewrite Ei. destruct (Z.eqb_spec (lenZ d) (nbytes bits)); [lia|reflexivity]. }
    destruct (Z.ltb_spec (nbytes bits) (lenZ d)) as [H2|H2].
    { cbn [rlpd_toks]. rewrite Ei. destruct (Z.eqb_spec (lenZ d) (nbytes bits)); [lia|reflexivity]. }
    destruct (Z.ltb_spec (be_val d) (2 ^ bits)) as [H3|H3]; cbn [rlpd_toks]; rewrite Ei.
    + destruct (canon_uint_of_small bits (be_val d) Hb0 ltac:(lia)) as (Hc & Ee).
      rewrite canonb_true, Ee by assumption. rewrite Z.eqb_refl.
      destruct (Z.eqb_spec (lenZ d) (nbytes bits)); [reflexivity|lia].
    + destruct (Z.ltb_spec (be_val d) (2 ^ bits)); [lia|]. now rewrite andb_false_r.
Qed.

(* ---------- serde_json ---------- *)
Lemma json_digits_nonneg l : forall acc, 0 <= acc -> Forall isbyte l -> 0 <= fst (json_digits l acc).
Proof.
  induction l as [|c t IH]; intros acc Ha Hl; [exact Ha|]. cbn [json_digits].
  inversion Hl; subst.
  destruct ((48 <=? c) && (c <=? 57)) eqn:E; [|exact Ha].
  apply andb_true_iff in E. destruct E as [E1 E2]. apply Z.leb_le in E1, E2. apply IH; [lia|assumption].
Qed.

Lemma json_end_u64 v rest n : json_end v rest = JU64 n -> v = JU64 n.
Proof. unfold json_end. destruct (skip_ws rest); [auto|discriminate]. Qed.

Lemma skip_ws_isbyte l : Forall isbyte l -> Forall isbyte (skip_ws l).
Proof.
  induction 1 as [|c t Hc Ht IH]; [constructor|]. cbn [skip_ws]. destruct (is_ws c); [exact IH|].
  now constructor.
Qed.

Lemma json_read_u64_range text n : Forall isbyte text -> json_read text = JU64 n -> 0 <= n < 2 ^ 64.
Proof.
  intros Hin. apply skip_ws_isbyte in Hin. unfold json_read.
  destruct (skip_ws text) as [|c t]; [discriminate|].
  inversion Hin as [|? ? Hc Ht]; subst.
  destruct (c =? 34).
  { destruct (json_str_body _ _ _) as [[bs rest]|]; [|discriminate].
    destruct (Str.utf8_decode bs); [|discriminate]. intros E. apply json_end_u64 in E. discriminate. }
  destruct ((48 <=? c) && (c <=? 57)) eqn:Ec; [|discriminate].
  apply andb_true_iff in Ec. destruct Ec as [E1 E2]. apply Z.leb_le in E1, E2.
  assert (G : forall m rest, 0 <= m ->
     match rest with
     | [] => if m <? 2 ^ 64 then JU64 m else JOther
     | d :: _ => if (48 <=? d) && (d <=? 57) then JBad
                 else if (d =? 46) || (d =? 101) || (d =? 69) then JOther
                 else json_end (if m <? 2 ^ 64 then JU64 m else JOther) rest
     end = JU64 n -> 0 <= n < 2 ^ 64).
  { intros m rest Hm. destruct rest as [|d rest'].
    - destruct (Z.ltb_spec m (2 ^ 64)); [|discriminate]. intros E; inversion E; subst; lia.
    - destruct ((48 <=? d) && (d <=? 57)); [discriminate|].
      destruct ((d =? 46) || (d =? 101) || (d =? 69)); [discriminate|].
      intros E. apply json_end_u64 in E. destruct (Z.ltb_spec m (2 ^ 64)); [|discriminate].
      inversion E; subst; lia. }
  destruct (c =? 48).
  - apply (G 0 t). lia.
  - pose proof (json_digits_nonneg t (c - 48) ltac:(lia) Ht) as Hd.
    destruct (json_digits t (c - 48)) as [m rest]. cbn [fst] in Hd. now apply G.
Qed.

Lemma json_ok bits text : okbits bits -> Forall isbyte text ->
  spec_json bits text (do r <- CodecA.serde_json_de bits text; Val (serde_toks r)) = true.
Proof.
  intros Hb Hin. assert (Hb0 : 0 <= bits) by (unfold okbits in Hb; lia).
  unfold CodecA.serde_json_de. destruct (json_read text) as [cs|n| |] eqn:Ej.
  - destruct (visit_str_spec bits cs Hb0) as (o & Eo & Ho). rewrite Eo. cbn [obind].
    destruct o as [l|]; cbn [serde_toks spec_json]; rewrite Ej.
    + destruct Ho as (Hc & El). rewrite canonb_true, El by assumption. now rewrite Z.eqb_refl.
    + destruct (lenient_number cs) as [v|] eqn:El; [|reflexivity].
      apply negb_true_iff. apply not_true_iff_false. intros H.
      apply andb_true_iff in H. destruct H as [Hv Ht]. apply Z.ltb_lt in Hv. apply list_eqb_eq in Ht.
      pose proof (lenient_number_nonneg cs v El) as Hv0.
      destruct Ho as [(E0 & Hne)|[Hn|(v' & E & Hge)]].
      * subst bits. assert (v = 0) by (cbn in Hv; lia). subst v. subst text.
        unfold json_quantity in Ej. rewrite json_read_string in Ej by apply quantity_plain.
        inversion Ej; subst. now apply Hne.
      * discriminate.
      * inversion E; subst. lia.
  - pose proof (json_read_u64_range text n Hin Ej) as Hn.
    rewrite visit_u64_spec by assumption. cbn [obind].
    destruct (Z.ltb_spec n (2 ^ bits)); cbn [serde_toks spec_json]; rewrite Ej; [|reflexivity].
    destruct (canon_uint_of_small bits n Hb0 ltac:(lia)) as (Hc & Ee).
    rewrite canonb_true, Ee by assumption. now rewrite Z.eqb_refl.
  - cbn [obind serde_toks spec_json]. now rewrite Ej.
  - cbn [obind serde_toks spec_json]. now rewrite Ej.
Qed.

(* ---------- bincode ---------- *)
Lemma bincode_ok bits inp : okbits bits -> Forall isbyte inp ->
  spec_bincode bits inp (do r <- CodecA.bincode_de bits inp; Val (serde_toks r)) = true.
Proof.
  intros Hb Hin. assert (Hb0 : 0 <= bits) by (unfold okbits in Hb; lia).
  destruct (bincode_de_sound bits inp Hb0 Hin) as (o & Eo & Ho). rewrite Eo. cbn [obind].
  destruct o as [l|]; cbn [serde_toks spec_bincode].
  - destruct Ho as (Hc & Hp). now rewrite canonb_true, Hp by assumption.
  - set (v := be_val (firstn (Z.to_nat (SBYTES bits)) (skipn 8 inp))).
    apply negb_true_iff. apply not_true_iff_false. intros H.
    apply andb_true_iff in H. destruct H as [Hv Hp]. apply Z.ltb_lt in Hv. apply prefixb_iff in Hp.
    destruct Hp as (rest & Einp).
    assert (Hv0 : 0 <= v).
    { pose proof (be_val_bound (firstn (Z.to_nat (SBYTES bits)) (skipn 8 inp))
                    ltac:(now apply Forall_firstn', Forall_skipn')). unfold v. lia. }
    rewrite Einp, bincode_de_complete in Eo by (unfold okbits in Hb; lia). discriminate.
Qed.

(* ---------- the visitor's integer entry points ---------- *)
Lemma prim_ok bits n : okbits bits -> 0 <= n ->
  spec_prim bits n (Val (serde_toks (if n <? 2 ^ bits then Some (uint_of bits n) else None))) = true.
Proof.
  intros Hb Hn. unfold spec_prim. destruct (n <? 2 ^ bits); cbn [serde_toks]; [apply PfC08.expect_refl|reflexivity].
Qed.

Theorem C17A_all c : wf c -> spec c (run c) = true.
Proof.
  destruct c as [bits inp|bits inp|bits inp|bits inp|bits inp|bits text|bits inp|bits n|bits n];
    cbn [wf spec run]; intros (Hb & Hin).
  - now apply lax_ok.
  - now apply bits_ok.
  - now apply strict_ok.
  - rewrite fastrlp_decode_eq by assumption. now apply strict_ok.
  - rewrite fastrlp_decode_eq by assumption. now apply strict_ok.
  - now apply json_ok.
  - now apply bincode_ok.
  - rewrite visit_u64_spec by (unfold okbits in Hb; lia). cbn [obind]. apply prim_ok; [assumption|lia].
  - rewrite visit_u128_spec by (unfold okbits in Hb; lia). cbn [obind]. apply prim_ok; [assumption|lia].
Qed.

(* regression of the repaired defect: a list is not an integer *)
Example rlp_decode_rejects_list : run (rlp_decode 64 [193; 5]) = Val [TErr 4].
Proof. vm_compute. reflexivity. Qed.

(* Prop-level restatements of the strict decoders' contract *)
Theorem alloy_rlp_accepts_iff bits inp l m : okbits bits -> Forall isbyte inp ->
  (CodecA.alloy_rlp_decode bits inp = Val (Ok (l, m))
   <-> canon bits l /\ m = lenZ (rlp_uint (eval l)) /\ exists rest, inp = rlp_uint (eval l) ++ rest).
Proof.
  intros Hb Hin. assert (Hb0 : 0 <= bits) by (unfold okbits in Hb; lia). split.
  - intros E. destruct (alloy_rlp_decode_sound bits inp Hb0 Hin) as (r & Er & Hr).
    rewrite E in Er. inversion Er; subst r. destruct Hr as (Hc & Hm & Ef). split; [exact Hc|].
    assert (El : lenZ (firstn (Z.to_nat m) inp) = m) by (apply lenZ_firstn; lia).
    rewrite Ef in El. split; [lia|]. exists (skipn (Z.to_nat m) inp). rewrite <- Ef. now rewrite firstn_skipn.
  - intros (Hc & -> & rest & ->). pose proof (canon_range bits l Hb0 Hc) as Hv.
    rewrite alloy_rlp_decode_complete; try assumption.
    + now rewrite canon_uint_of.
    + pose proof (bytelen_fits bits (eval l) Hb0 Hv).
      assert (nbytes bits < 2 ^ 64) by (unfold okbits, nbytes in *; Z.div_mod_to_equations; lia). lia.
Qed.
