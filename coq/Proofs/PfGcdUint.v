(* Proofs/PfGcdUint.v — characterising lemmas for the Uint-level helpers of Model/GcdMatrix.v
   (umul, uovmul, usub, uadd, udiv_rem under DivKernelOK, conversions, comparisons) and for
   LehmerMatrix::{apply, apply_u128, compose}. *)
From Coq Require Import ZArith List Bool Lia.
From RV.Model Require Import Base Word Limbs GcdMatrix.
From RV.Model Require Add Conv Shift Div.
From RV.Proofs Require Import BaseFacts PfLimbs PfAdd PfC01 PfConv PfShift PfMulN.
From RV.Run Require Import RunC12.
Import ListNotations.
Local Open Scope Z_scope.

(* ---------- small facts ---------- *)
Lemma pow2_pos' k : 0 <= k -> 0 < 2 ^ k.
Proof. intros. apply Z.pow_pos_nonneg; lia. Qed.

Lemma uZERO_words bits :
  length (uZERO bits) = nlimbsN bits /\ Forall inW (uZERO bits) /\ eval (uZERO bits) = 0.
Proof.
  unfold uZERO, zero_limbs. rewrite repeat_length, eval_repeat0.
  auto using Forall_inW_repeat0.
Qed.

Lemma mod_Bn_mod_bits bits x :
  0 < bits -> (x mod B ^ nlimbs bits) mod 2 ^ bits = x mod 2 ^ bits.
Proof.
  intros H. pose proof (nlimbs_bounds bits H). rewrite Bn_pow2Z by lia.
  apply mod_mod_pow2. lia.
Qed.

Lemma canon_uint_of_val bits v :
  0 <= bits -> 0 <= v < 2 ^ bits -> canon bits (uint_of bits v) /\ eval (uint_of bits v) = v.
Proof.
  intros H Hv. unfold uint_of.
  assert (He : eval (to_limbs (nlimbsN bits) v) = v).
  { rewrite eval_to_limbs, nlimbsN_Z by lia. apply Z.mod_small.
    destruct (Z.eq_dec bits 0) as [->|N]; [cbn in *; lia|].
    rewrite (pow_bits_divides_Bn bits) by lia.
    pose proof (nlimbs_bounds bits ltac:(lia)).
    pose proof (pow2_pos' (64 * nlimbs bits - bits) ltac:(lia)). nia. }
  split; [|exact He]. unfold canon. rewrite to_limbs_length, He.
  split; [reflexivity|]. split; [apply to_limbs_inW | lia].
Qed.

Lemma canon_0_nil : canon 0 [].
Proof. unfold canon. cbn. split; [reflexivity|]. split; [constructor | lia]. Qed.

Lemma canon_eq bits a b : canon bits a -> canon bits b -> eval a = eval b -> a = b.
Proof.
  intros Ha Hb E. rewrite <- (canon_uint_of bits a Ha), <- (canon_uint_of bits b Hb). now rewrite E.
Qed.

Lemma list_eqb_Z_spec (a b : list Z) : list_eqb Z.eqb a b = true <-> a = b.
Proof.
  revert b. induction a as [|x a IH]; intros [|y b]; cbn [list_eqb]; try (split; congruence).
  rewrite andb_true_iff, Z.eqb_eq, IH. split; [intros [-> ->]; reflexivity | intros E; inversion E; auto].
Qed.

Lemma list_eqb_canon bits a b :
  canon bits a -> canon bits b -> list_eqb Z.eqb a b = (eval a =? eval b).
Proof.
  intros Ha Hb. destruct (Z.eqb_spec (eval a) (eval b)) as [E|E].
  - apply list_eqb_Z_spec. eapply canon_eq; eauto.
  - destruct (list_eqb Z.eqb a b) eqn:L; [|reflexivity].
    apply list_eqb_Z_spec in L. subst. congruence.
Qed.

Lemma is_zero_spec bits a : 0 <= bits -> canon bits a -> is_zero bits a = (eval a =? 0).
Proof.
  intros H Ha. unfold is_zero. destruct (canon_uZERO bits H) as [Hz Ez].
  rewrite (list_eqb_canon bits) by auto. now rewrite Ez.
Qed.

Lemma uge_spec bits a b : canon bits a -> canon bits b -> uge a b = (eval b <=? eval a).
Proof.
  intros Ha Hb. unfold uge. rewrite (ult_spec bits) by auto.
  destruct (Z.ltb_spec (eval a) (eval b)); destruct (Z.leb_spec (eval b) (eval a)); auto; lia.
Qed.

Lemma uONE_spec bits : 0 < bits -> canon bits (uONE bits) /\ eval (uONE bits) = 1.
Proof.
  intros H. unfold uONE. destruct (Z.eqb_spec bits 0); [lia|].
  pose proof (nlimbs_pos bits H) as Hn. pose proof (nlimbsN_Z bits ltac:(lia)) as HnZ.
  unfold uZERO, zero_limbs. destruct (nlimbsN bits) as [|k] eqn:Ek; [lia|].
  cbn [repeat]. assert (He : eval (1 :: repeat 0 k) = 1) by (cbn [eval]; rewrite eval_repeat0; lia).
  split; [|exact He]. unfold canon. rewrite Ek, He. cbn [length]. rewrite repeat_length.
  split; [reflexivity|]. split.
  - constructor; [unfold inW; pose proof B_pos; rewrite B_val; lia | apply Forall_inW_repeat0].
  - replace 1 with (2 ^ 0) at 1 by reflexivity. apply Z.pow_lt_mono_r; lia.
Qed.

(* ---------- arithmetic ---------- *)
Lemma umul_spec bits a b :
  0 <= bits -> canon bits a -> canon bits b ->
  exists r, umul bits a b = Val r /\ canon bits r /\ eval r = (eval a * eval b) mod 2 ^ bits.
Proof.
  intros H (Hla & Hwa & _) (Hlb & Hwb & _). unfold umul.
  destruct (uZERO_words bits) as (Hlz & Hwz & Hez).
  destruct (addmul_n_spec (uZERO bits) a b ltac:(congruence) ltac:(congruence) Hwz Hwa Hwb)
    as (r0 & -> & Hlr & Hwr & Her).
  cbn [obind]. rewrite Hez, Z.add_0_l, Hlz in Her. rewrite Hlz in Hlr.
  destruct (Z.ltb_spec 0 bits) as [Hpos|Hz].
  - destruct (masked_spec bits r0 Hpos Hlr Hwr) as [Hc Hev].
    exists (masked bits r0). split; [reflexivity|]. split; [exact Hc|].
    rewrite Hev, Her, nlimbsN_Z by lia. now apply mod_Bn_mod_bits.
  - assert (bits = 0) by lia. subst bits. change (nlimbsN 0) with 0%nat in Hlr.
    destruct r0; [|discriminate]. exists []. split; [reflexivity|].
    split; [apply canon_0_nil|]. cbn [eval]. now rewrite Z.pow_0_r, Z.mod_1_r.
Qed.

Lemma flag_split M k T :
  0 < M -> 0 < k -> 0 <= T ->
  ((M * k <=? T) || (M <=? T mod (M * k))) = (M <=? T).
Proof.
  intros HM Hk HT.
  destruct (Z.leb_spec (M * k) T) as [H1|H1]; cbn [orb].
  - symmetry. apply Z.leb_le. nia.
  - rewrite Z.mod_small by lia. reflexivity.
Qed.

Lemma uovmul_spec bits a b :
  0 <= bits -> canon bits a -> canon bits b ->
  let '(r, f) := uovmul bits a b in
  canon bits r /\ eval r = (eval a * eval b) mod 2 ^ bits /\
  f = (2 ^ bits <=? eval a * eval b).
Proof.
  intros H Ha Hb. unfold uovmul.
  destruct (Z.ltb_spec 0 bits) as [Hpos|Hz].
  - destruct Ha as (Hla & Hwa & _), Hb as (Hlb & Hwb & _).
    destruct (uZERO_words bits) as (Hlz & Hwz & Hez).
    pose proof (addmul_spec (uZERO bits) a b Hwz Hwa Hwb) as S.
    destruct (addmul (uZERO bits) a b) as [l' f0]. cbv zeta in S.
    destruct S as (Hll & Hwl & Hel & Hf).
    rewrite Hez, Z.add_0_l, Hlz, nlimbsN_Z in * by lia.
    destruct (masked_spec bits l' Hpos Hll Hwl) as [Hc Hev].
    split; [exact Hc|]. split.
    + rewrite Hev, Hel. now apply mod_Bn_mod_bits.
    + rewrite (last_gt_mask bits l' Hpos Hll Hwl), Hel, Hf.
      rewrite (pow_bits_divides_Bn bits Hpos).
      pose proof (nlimbs_bounds bits Hpos).
      pose proof (eval_bound a Hwa). pose proof (eval_bound b Hwb).
      apply flag_split; [apply pow2_pos'; lia | apply pow2_pos'; lia | nia].
  - assert (bits = 0) by lia. subst bits.
    apply canon_zero_width in Ha, Hb. subst. cbn. split; [apply canon_0_nil|]. split; reflexivity.
Qed.

Lemma uchecked_mul_spec bits a b :
  0 <= bits -> canon bits a -> canon bits b ->
  uchecked_mul bits a b =
  if eval a * eval b <? 2 ^ bits then Some (uint_of bits (eval a * eval b)) else None.
Proof.
  intros H Ha Hb. unfold uchecked_mul. pose proof (uovmul_spec bits a b H Ha Hb) as S.
  destruct (uovmul bits a b) as [r f]. destruct S as (Hc & He & ->).
  pose proof (canon_range bits a H Ha). pose proof (canon_range bits b H Hb).
  destruct (Z.leb_spec (2 ^ bits) (eval a * eval b)); destruct (Z.ltb_spec (eval a * eval b) (2 ^ bits));
    try lia; [reflexivity|].
  f_equal. rewrite Z.mod_small in He by nia. now apply uint_of_unique.
Qed.

Lemma usub_spec bits a b :
  0 <= bits -> canon bits a -> canon bits b ->
  canon bits (usub bits a b) /\ eval (usub bits a b) = (eval a - eval b) mod 2 ^ bits.
Proof.
  intros H Ha Hb. unfold usub, Add.wrapping_sub.
  pose proof (overflowing_sub_spec bits a b H Ha Hb) as S.
  destruct (Add.overflowing_sub bits a b) as [r f]. cbn [fst]. tauto.
Qed.

Lemma uadd_spec bits a b :
  0 <= bits -> canon bits a -> canon bits b ->
  canon bits (uadd bits a b) /\ eval (uadd bits a b) = (eval a + eval b) mod 2 ^ bits.
Proof.
  intros H Ha Hb. unfold uadd, Add.wrapping_add.
  pose proof (overflowing_add_spec bits a b H Ha Hb) as S.
  destruct (Add.overflowing_add bits a b) as [r f]. cbn [fst]. tauto.
Qed.

(* ---------- conversions ---------- *)
Lemma uint_from_u64_ok bits v :
  0 <= bits -> 0 <= v < B -> v < 2 ^ bits ->
  uint_from_u64 bits v = Val (uint_of bits v).
Proof.
  intros H Hv Hf. unfold uint_from_u64. rewrite try_from_u64_spec by auto. unfold res_of.
  destruct (Z.ltb_spec v (2 ^ bits)); [reflexivity | lia].
Qed.
Lemma uint_from_u64_panic bits v :
  0 <= bits -> 0 <= v < B -> 2 ^ bits <= v -> uint_from_u64 bits v = Panic.
Proof.
  intros H Hv Hf. unfold uint_from_u64. rewrite try_from_u64_spec by auto. unfold res_of.
  destruct (Z.ltb_spec v (2 ^ bits)); [lia | reflexivity].
Qed.

Lemma to_u64_spec bits a :
  0 <= bits -> canon bits a -> eval a < B -> to_u64 bits a = Val (eval a).
Proof.
  intros H Ha Hv. unfold to_u64. rewrite try_to_int_spec by (auto; cbn; lia).
  unfold Conv.prim_max, u64p. cbn [Conv.psigned Conv.pw]. rewrite <- B_pow.
  destruct (Z.leb_spec (eval a) (B - 1)); [reflexivity | lia].
Qed.
Lemma to_u128_spec bits a :
  0 <= bits -> canon bits a -> eval a < BB -> to_u128 bits a = Val (eval a).
Proof.
  intros H Ha Hv. unfold to_u128. rewrite try_to_128_spec by (auto; reflexivity).
  unfold Conv.prim_max, u128p. cbn [Conv.psigned Conv.pw]. change (2 ^ 128) with BB.
  destruct (Z.leb_spec (eval a) (BB - 1)); [reflexivity | lia].
Qed.

(* ---------- division (over the kernel's contract) ---------- *)
Definition DivKernelOK : Prop := forall n d, Forall inW n -> Forall inW d -> eval d <> 0 ->
  exists q r, Div.div_kernel n d = Val (q, r) /\ length q = length n /\ length r = length d /\
    Forall inW q /\ Forall inW r /\ eval q = eval n / eval d /\ eval r = eval n mod eval d.

Lemma udiv_rem_spec (HD : DivKernelOK) bits a b :
  0 <= bits -> canon bits a -> canon bits b -> eval b <> 0 ->
  exists q r, udiv_rem a b = Val (q, r) /\ canon bits q /\ canon bits r /\
              eval q = eval a / eval b /\ eval r = eval a mod eval b.
Proof.
  intros H Ha Hb Hnz. pose proof (canon_range bits a H Ha) as Ra. pose proof (canon_range bits b H Hb) as Rb.
  destruct Ha as (Hla & Hwa & Hva), Hb as (Hlb & Hwb & Hvb).
  destruct (HD a b Hwa Hwb Hnz) as (q & r & E & Lq & Lr & Wq & Wr & Eq & Er).
  exists q, r. unfold udiv_rem. split; [exact E|].
  assert (0 < eval b) by lia.
  pose proof (Z.mod_pos_bound (eval a) (eval b) ltac:(lia)).
  assert (eval a / eval b <= eval a) by (apply Z.div_le_upper_bound; nia).
  repeat split; auto; try congruence; lia.
Qed.

(* ---------- apply ---------- *)
Lemma lin_spec bits x a y b :
  0 <= bits -> 0 <= x < B -> 0 <= y < B -> x < 2 ^ bits -> y < 2 ^ bits ->
  canon bits a -> canon bits b ->
  exists r, lin bits x a y b = Val r /\ canon bits r /\
            eval r = (x * eval a - y * eval b) mod 2 ^ bits.
Proof.
  intros H Hx Hy Fx Fy Ha Hb. unfold lin.
  rewrite (uint_from_u64_ok bits x) by auto. cbn [obind].
  destruct (canon_uint_of_val bits x H ltac:(lia)) as [Cx Ex].
  destruct (umul_spec bits _ a H Cx Ha) as (p & -> & Cp & Ep). cbn [obind].
  rewrite (uint_from_u64_ok bits y) by auto. cbn [obind].
  destruct (canon_uint_of_val bits y H ltac:(lia)) as [Cy Ey].
  destruct (umul_spec bits _ b H Cy Hb) as (q & -> & Cq & Eq). cbn [obind].
  destruct (usub_spec bits p q H Cp Cq) as [Cr Er].
  eexists; split; [reflexivity|]. split; [exact Cr|].
  rewrite Er, Ep, Eq, Ex, Ey. pose proof (pow2_pos' bits H).
  rewrite <- Zminus_mod. reflexivity.
Qed.

Lemma lin_panic bits x a y b :
  0 <= bits -> 0 <= x < B -> 0 <= y < B -> (2 ^ bits <= x \/ 2 ^ bits <= y) ->
  canon bits a -> canon bits b -> lin bits x a y b = Panic.
Proof.
  intros H Hx Hy F Ha Hb. unfold lin.
  destruct (Z_lt_le_dec x (2 ^ bits)) as [Fx|Fx].
  - rewrite (uint_from_u64_ok bits x) by auto. cbn [obind].
    destruct (canon_uint_of_val bits x H ltac:(lia)) as [Cx Ex].
    destruct (umul_spec bits _ a H Cx Ha) as (p & -> & Cp & Ep). cbn [obind].
    rewrite (uint_from_u64_panic bits y) by (auto; lia). reflexivity.
  - rewrite (uint_from_u64_panic bits x) by auto. reflexivity.
Qed.

Definition fitsP (bits : Z) (m : mat) : Prop :=
  m0 m < 2 ^ bits /\ m1 m < 2 ^ bits /\ m2 m < 2 ^ bits /\ m3 m < 2 ^ bits.
Definition wordsP (m : mat) : Prop := inW (m0 m) /\ inW (m1 m) /\ inW (m2 m) /\ inW (m3 m).

Lemma fits_iff bits m : fits bits m = true <-> fitsP bits m.
Proof. unfold fits, fitsP. rewrite !andb_true_iff, !Z.ltb_lt. tauto. Qed.
Lemma mat_words_iff m : mat_words m = true <-> wordsP m.
Proof. unfold mat_words, wordsP. rewrite !andb_true_iff, !inWb_iff. tauto. Qed.

Lemma apply_spec bits m a b :
  0 < bits -> wordsP m -> fitsP bits m -> canon bits a -> canon bits b ->
  exists c d, apply bits m a b = Val (c, d) /\ canon bits c /\ canon bits d /\
    eval c = fst (zmap m (eval a) (eval b)) mod 2 ^ bits /\
    eval d = snd (zmap m (eval a) (eval b)) mod 2 ^ bits.
Proof.
  intros H (W0 & W1 & W2 & W3) (F0 & F1 & F2 & F3) Ha Hb. unfold apply, zmap, inW in *.
  destruct (Z.eqb_spec bits 0); [lia|].
  destruct (m4 m).
  - destruct (lin_spec bits (m0 m) a (m1 m) b) as (c & -> & Cc & Ec); auto; try lia. cbn [obind].
    destruct (lin_spec bits (m3 m) b (m2 m) a) as (d & -> & Cd & Ed); auto; try lia. cbn [obind].
    exists c, d. cbn [fst snd]. auto.
  - destruct (lin_spec bits (m1 m) b (m0 m) a) as (c & -> & Cc & Ec); auto; try lia. cbn [obind].
    destruct (lin_spec bits (m2 m) a (m3 m) b) as (d & -> & Cd & Ed); auto; try lia. cbn [obind].
    exists c, d. cbn [fst snd]. auto.
Qed.

Lemma apply_panic bits m a b :
  0 < bits -> wordsP m -> ~ fitsP bits m -> canon bits a -> canon bits b ->
  apply bits m a b = Panic.
Proof.
  intros H (W0 & W1 & W2 & W3) NF Ha Hb. unfold apply, fitsP, inW in *.
  destruct (Z.eqb_spec bits 0); [lia|].
  destruct (m4 m).
  - destruct (Z_lt_le_dec (m0 m) (2 ^ bits)) as [F0|F0];
      [destruct (Z_lt_le_dec (m1 m) (2 ^ bits)) as [F1|F1]|].
    + destruct (lin_spec bits (m0 m) a (m1 m) b) as (c & -> & Cc & Ec); auto; try lia. cbn [obind].
      rewrite lin_panic; auto; lia.
    + rewrite lin_panic; auto; lia.
    + rewrite lin_panic; auto; lia.
  - destruct (Z_lt_le_dec (m0 m) (2 ^ bits)) as [F0|F0];
      [destruct (Z_lt_le_dec (m1 m) (2 ^ bits)) as [F1|F1]|].
    + destruct (lin_spec bits (m1 m) b (m0 m) a) as (c & -> & Cc & Ec); auto; try lia. cbn [obind].
      rewrite lin_panic; auto; lia.
    + rewrite lin_panic; auto; lia.
    + rewrite lin_panic; auto; lia.
Qed.

(* ---------- apply_u128 / compose ---------- *)
Lemma wlin128_spec x a y b : wlin128 x a y b = (x * a - y * b) mod BB.
Proof.
  unfold wlin128, wrap128. rewrite <- Zminus_mod. reflexivity.
Qed.

Lemma apply_u128_spec m a b :
  apply_u128 m a b = (fst (zmap m a b) mod BB, snd (zmap m a b) mod BB).
Proof. unfold apply_u128, zmap. destruct (m4 m); cbn [fst snd]; now rewrite !wlin128_spec. Qed.

Lemma dot_spec a b c d :
  0 <= a -> 0 <= b -> 0 <= c -> 0 <= d -> a * b + c * d < B -> dot a b c d = Val (a * b + c * d).
Proof.
  intros. unfold dot, cmul, cadd.
  destruct (Z.ltb_spec (a * b) B); [|nia]. cbn [obind].
  destruct (Z.ltb_spec (c * d) B); [|nia]. cbn [obind].
  destruct (Z.ltb_spec (a * b + c * d) B); [reflexivity | lia].
Qed.
