(* Proofs/PfGenSpecial.v — the translated checked_next_multiple_of / next_multiple_of of
   src/special.rs equal the functions of Model/UDiv.v on canonical operands. *)
From Coq Require Import Lia ZifyBool.
From RV.Model Require Import Base Word Add Div UDiv.
From RV.Model Require Mul.
From RV.Gen Require Import Prim Scalar.
From RV.Proofs Require Import BaseFacts PfAdd PfDiv PfUDiv PfGenScalar PfGenAdd PfGenMul PfGenDiv.

Lemma canon_len bits l : canon bits l -> length l = nlimbsN bits.
Proof. intros (H & _). exact H. Qed.
Lemma canon_inW bits l : canon bits l -> Forall inW l.
Proof. intros (_ & H & _). exact H. Qed.

Lemma canon_uone bits : 0 <= bits -> canon bits (uone bits).
Proof.
  intros H0. destruct (Z.eq_dec bits 0) as [->|N].
  - unfold uone. cbn. apply (proj1 (canon_uMAX 0 ltac:(lia))).
  - apply uone_spec. lia.
Qed.

Lemma mul_checked_agree bits a b : Mul.checked_mul bits a b = UDiv.checked_mul bits a b.
Proof. reflexivity. Qed.

Lemma g_checked_next_multiple_of_eq bits a b :
  0 <= bits -> nlimbs bits <= B -> canon bits a -> canon bits b ->
  g_checked_next_multiple_of bits (nlimbs bits) a b = checked_next_multiple_of bits a b.
Proof.
  intros H0 HB Ca Cb. unfold g_checked_next_multiple_of, checked_next_multiple_of.
  rewrite g_is_zero_eq. destruct (is_zero bits b); [reflexivity|].
  rewrite g_div_rem_eq. unfold div_rem.
  pose proof (canon_inW _ _ Ca) as Wa. pose proof (canon_inW _ _ Cb) as Wb.
  destruct (Z.eq_dec (eval b) 0) as [Ez|Enz].
  { rewrite (div_kernel_zero a b Wb Ez). reflexivity. }
  rewrite (div_kernel_val a b Wa Wb Enz). cbn [obind].
  rewrite g_is_zero_eq.
  destruct (is_zero bits (to_limbs (length b) (eval a mod eval b))); [reflexivity|].
  rewrite (canon_len _ _ Ca). fold (uint_of bits (eval a / eval b)).
  pose proof (canon_range bits a H0 Ca) as Ra. pose proof (canon_range bits b H0 Cb) as Rb.
  assert (Rq : 0 <= eval a / eval b < 2 ^ bits).
  { split; [apply Z.div_pos; lia|]. apply Z.le_lt_trans with (eval a); [|lia].
    apply Z.div_le_upper_bound; nia. }
  destruct (uint_of_ok bits (eval a / eval b) H0 Rq) as (Cq & _).
  set (q := uint_of bits (eval a / eval b)) in *.
  rewrite g_checked_add_eq by (try assumption; try apply (canon_len _ _ Cq); apply (canon_len _ _ (canon_uone bits H0))).
  cbn [obind].
  pose proof (overflowing_add_spec bits q (uone bits) H0 Cq (canon_uone bits H0)) as S.
  unfold checked_add, checked_of. destruct (overflowing_add bits q (uone bits)) as [q1 [|]]; [reflexivity|].
  destruct S as (C1 & _).
  rewrite g_checked_mul_eq by (try assumption; first [apply (canon_len _ _ C1) | apply (canon_len _ _ Cb) | apply (canon_inW _ _ C1)]).
  cbn [obind]. rewrite mul_checked_agree. reflexivity.
Qed.

Lemma g_next_multiple_of_eq bits a b :
  0 <= bits -> nlimbs bits <= B -> canon bits a -> canon bits b ->
  g_next_multiple_of bits (nlimbs bits) a b = next_multiple_of bits a b.
Proof.
  intros H0 HB Ca Cb. unfold g_next_multiple_of, next_multiple_of.
  rewrite g_checked_next_multiple_of_eq by assumption.
  destruct (checked_next_multiple_of bits a b) as [[v|]| | | |]; reflexivity.
Qed.
