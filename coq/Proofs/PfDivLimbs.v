(* Proofs/PfDivLimbs.v — the two limb kernels used by the Knuth loop: submul_nx1 and adc_n. *)
From Coq Require Import ZArith List Bool Lia.
From RV.Model Require Import Base Word Limbs.
From RV.Proofs Require Import BaseFacts PfDivBase.
Import ListNotations.
Local Open Scope Z_scope.

Lemma lo_range x : 0 <= lo x < B.
Proof. unfold lo. apply Z.mod_pos_bound, B_pos. Qed.
Lemma hi_lo_small x : 0 <= x < B * B -> x = hi x * B + lo x /\ 0 <= hi x < B.
Proof.
  intros H. unfold hi, lo. pose proof B_pos.
  assert (0 <= x / B < B).
  { split; [apply Z.div_pos; lia | apply Z.div_lt_upper_bound; lia]. }
  rewrite (Z.mod_small (x / B)) by lia. split; [|lia].
  rewrite Z.mul_comm. apply Z.div_mod. lia.
Qed.

(* ops::sbb on words with a 0/1.. borrow: r - B*bo = x - y - b *)
Lemma sbb_spec x y b :
  inW x -> inW y -> 0 <= b <= 1 ->
  let '(r, bo) := sbb x y b in inW r /\ 0 <= bo <= 1 /\ r - B * bo = x - y - b.
Proof.
  unfold inW, sbb, wrap128, wrap, lo, hi. rewrite BB_val, B_val. intros Hx Hy Hb.
  rewrite Zminus_mod_idemp_l.
  Z.div_mod_to_equations. lia.
Qed.

Lemma adc_spec x y c :
  inW x -> inW y -> 0 <= c <= 1 ->
  let '(r, co) := adc x y c in inW r /\ 0 <= co <= 1 /\ r + B * co = x + y + c.
Proof.
  unfold inW, adc, lo, hi. rewrite B_val. intros Hx Hy Hc.
  assert (Hq : 0 <= (x + y + c) / 18446744073709551616 <= 1) by (Z.div_mod_to_equations; lia).
  rewrite (Z.mod_small ((x + y + c) / 18446744073709551616)) by lia.
  Z.div_mod_to_equations. lia.
Qed.

Lemma adc_n_spec lhs : forall rhs c,
  length lhs = length rhs -> Forall inW lhs -> Forall inW rhs -> 0 <= c <= 1 ->
  exists r c', adc_n lhs rhs c = Val (r, c') /\ length r = length lhs /\ Forall inW r /\
    0 <= c' <= 1 /\ eval r + B ^ Z.of_nat (length lhs) * c' = eval lhs + eval rhs + c.
Proof.
  induction lhs as [|x lhs IH]; intros [|y rhs] c Hl Ha Hb Hc; cbn [length] in Hl; try discriminate.
  - exists [], c. cbn [adc_n eval length Z.of_nat]. rewrite Z.pow_0_r. repeat split; auto; lia.
  - inversion Ha as [|? ? Hx Ha']; inversion Hb as [|? ? Hy Hb']; subst.
    cbn [adc_n]. pose proof (adc_spec x y c Hx Hy Hc) as S.
    destruct (adc x y c) as [r co]. destruct S as (Hr & Hco & Hs).
    destruct (IH rhs co ltac:(lia) Ha' Hb' Hco) as (rs & c' & E & Hlen & Hin & Hc' & Hv).
    rewrite E. cbn [obind fst snd]. exists (r :: rs), c'.
    repeat split; try lia.
    + cbn [length]. lia.
    + constructor; assumption.
    + cbn [eval length]. rewrite Bn_S. nia.
Qed.

(* one row of submul: carry in [0,B), borrow in {0,1} *)
Lemma submul_loop_spec lhs : forall a b carry borrow,
  length lhs = length a -> Forall inW lhs -> Forall inW a -> inW b ->
  0 <= carry < B -> 0 <= borrow <= 1 ->
  let '(r, c, bw) := submul_nx1_loop lhs a b carry borrow in
  length r = length lhs /\ Forall inW r /\ 0 <= c < B /\ 0 <= bw <= 1 /\
  eval r - B ^ Z.of_nat (length lhs) * (c + bw) = eval lhs - eval a * b - carry - borrow.
Proof.
  induction lhs as [|x lhs IH]; intros [|y a] b carry borrow Hl Ha Hb Hbb Hc Hbw;
    cbn [length] in Hl; try discriminate.
  - cbn [submul_nx1_loop eval length Z.of_nat]. rewrite Z.pow_0_r. repeat split; auto; lia.
  - inversion Ha as [|? ? Hx Ha']; inversion Hb as [|? ? Hy Hb']; subst.
    cbn [submul_nx1_loop]. unfold muladd.
    assert (Hp : 0 <= y * b + carry < B * B).
    { unfold inW in *. assert (0 <= y * b) by (apply Z.mul_nonneg_nonneg; lia).
      assert (y * b <= (B - 1) * (B - 1)) by (apply Z.mul_le_mono_nonneg; lia). nia. }
    destruct (hi_lo_small _ Hp) as [Hsplit Hhi]. pose proof (lo_range (y * b + carry)) as Hlo.
    set (p := y * b + carry) in *.
    pose proof (sbb_spec x (lo p) borrow Hx Hlo Hbw) as S.
    destruct (sbb x (lo p) borrow) as [r bo]. destruct S as (Hr & Hbo & Hs).
    specialize (IH a b (hi p) bo ltac:(lia) Ha' Hb' Hbb Hhi Hbo).
    destruct (submul_nx1_loop lhs a b (hi p) bo) as [[rs c] bw].
    destruct IH as (Hlen & Hin & Hc' & Hbw' & Hv).
    repeat split; try lia.
    + cbn [length]. lia.
    + constructor; assumption.
    + cbn [eval length]. rewrite Bn_S.
      replace (x + B * eval lhs - (y + B * eval a) * b - carry - borrow)
        with (x - p - borrow + B * (eval lhs - eval a * b)) by (subst p; ring).
      rewrite Hsplit at 1.
      replace (eval lhs - eval a * b)
        with (eval rs - B ^ Z.of_nat (length lhs) * (c + bw) + hi p + bo) by lia.
      rewrite <- Hlen. ring_simplify. lia.
Qed.

Lemma submul_nx1_spec lhs a b :
  length lhs = length a -> Forall inW lhs -> Forall inW a -> inW b ->
  exists r c, submul_nx1 lhs a b = Val (r, c) /\ length r = length lhs /\ Forall inW r /\
    0 <= c < B /\ eval r - B ^ Z.of_nat (length lhs) * c = eval lhs - eval a * b.
Proof.
  intros Hl Ha Hb Hbb. unfold submul_nx1. rewrite Hl, Nat.eqb_refl.
  pose proof (submul_loop_spec lhs a b 0 0 Hl Ha Hb Hbb) as S.
  pose proof B_pos as HB. specialize (S ltac:(lia) ltac:(lia)).
  destruct (submul_nx1_loop lhs a b 0 0) as [[r c] bw].
  destruct S as (Hlen & Hin & Hc & Hbw & Hv).
  (* the returned borrow + carry is below B: it is ceil((a*b - lhs)/B^n) *)
  pose proof (eval_bound lhs Ha) as Bl. pose proof (eval_bound a Hb) as Ba.
  pose proof (eval_bound r Hin) as Br. rewrite Hlen in Br. rewrite <- Hl in Ba.
  set (P := B ^ Z.of_nat (length lhs)) in *.
  assert (HP : 0 < P) by apply Bn_pos.
  assert (Hlt : bw + c < B).
  { unfold inW in Hbb.
    assert (eval a * b <= (P - 1) * (B - 1)) by (apply Z.mul_le_mono_nonneg; lia).
    assert (P * (c + bw) < P * B) by nia.
    apply (Z.mul_lt_mono_pos_l P); lia. }
  destruct (Z.ltb_spec (bw + c) B) as [_|Hc']; [|lia].
  exists r, (bw + c). repeat split; try assumption; try lia; try congruence.
  rewrite <- Hl. fold P. replace (bw + c) with (c + bw) by ring. lia.
Qed.
