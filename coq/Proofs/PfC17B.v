(* Proofs/PfC17B.v — C17, group B: every decoder call of RunC17B meets its specification, for
   every width and every input byte string. *)
From Coq Require Import ZArith List Bool Lia.
From RV.Model Require Import Base Word Bytes.
From RV.Model Require Bits Conv CodecB.
From RV.Spec Require Import FmtB.
From RV.Proofs Require Import BaseFacts PfBytes PfCodecB.
From RV.Proofs Require PfC01.
From RV.Run Require Import RunC17B.
Import ListNotations.
Import CodecB.
Local Open Scope Z_scope.

(* the shape of every case: the answer is an error, or the tokens of the denoted value; and an
   error is never the answer to a canonical encoding of an in-range value *)
Lemma spec_dec_gen bits den canonical ok (toks : list tok) :
  (is_err (Val toks) = true \/
   exists v used, den = Some (v, used) /\ v < 2 ^ bits /\ toks = ok v used) ->
  (is_err (Val toks) = true -> forall v used, den = Some (v, used) -> v < 2 ^ bits ->
   canonical v used = false) ->
  spec_dec bits den canonical ok (Val toks) = true.
Proof.
  intros H1 H2. unfold spec_dec. destruct den as [[v used]|].
  - destruct H1 as [He | (v' & used' & E & Hlt & ->)].
    + destruct (Z.ltb_spec v (2 ^ bits)) as [L|L]; [|exact He].
      rewrite (H2 He v used eq_refl L). rewrite He. reflexivity.
    + injection E as -> ->. destruct (Z.ltb_spec v' (2 ^ bits)); [|lia].
      destruct (canonical v' used'); [apply PfC01.expect_refl|].
      rewrite PfC01.expect_refl. apply orb_true_r.
  - destruct H1 as [He | (v' & used' & E & _)]; [exact He|discriminate].
Qed.

Lemma prefix_is_split inp ref used : prefix_is inp ref used = true ->
  inp = ref ++ skipn (Z.to_nat used) inp.
Proof.
  unfold prefix_is. intros H. apply list_eqb_Z_eq in H. rewrite <- H. symmetry. apply firstn_skipn.
Qed.

Lemma is_err_err c p : is_err (Val (err_toks c p)) = true.
Proof. reflexivity. Qed.

Lemma scale_bytes_denote_some inp bs used : Forall isbyte inp ->
  scale_bytes_denote inp = Some (bs, used) -> 0 <= used <= lenZ inp /\ Forall isbyte bs.
Proof.
  intros Hi. unfold scale_bytes_denote.
  destruct (compact_denote inp) as [[n u0]|] eqn:ED; [|discriminate].
  destruct (compact_denote_some inp n u0 Hi ED) as (Hn & Hu).
  destruct (take n (skipn (Z.to_nat u0) inp)) as [l|] eqn:ET; [|discriminate]. cbn [option_map].
  intros [= <- <-]. apply take_some in ET; [|lia]. destruct ET as (-> & _ & Hle).
  rewrite lenZ_skipn in Hle by lia. split; [lia|]. auto using Forall_firstn', Forall_skipn'.
Qed.

Theorem C17B_all c : wf c -> spec c (run c) = true.
Proof.
  destruct c as [bits inp|bits inp|bits inp|bits shape inp|bits inp|bits inp|bits inp|bits inp];
    cbn [wf spec run].
  - (* scale_decode *)
    intros (Hb & Hi). destruct (scale_decode_eq bits inp ltac:(lia) Hi) as (c & E). rewrite E. cbn [obind].
    apply spec_dec_gen.
    + unfold scale_uint_denote.
      destruct (scale_bytes_denote inp) as [[bs used]|] eqn:ED; [|left; reflexivity].
      destruct (scale_bytes_denote_some inp bs used Hi ED) as (Hu & Hbs).
      destruct (u32accept (hd 0 inp) (lenZ bs) && (lenZ bs <=? nbytes bits) && (le_value bs <? 2 ^ bits)) eqn:EA;
        [|left; reflexivity].
      right. apply andb_true_iff in EA. destruct EA as [_ Hlt]. apply Z.ltb_lt in Hlt.
      exists (le_value bs), used. cbn [option_map fst snd]. change le_val with le_value.
      split; [reflexivity|]. split; [exact Hlt|]. cbn [dec_toks]. unfold streamed, U.
      rewrite lenZ_skipn by lia. do 3 f_equal. lia.
    + intros Herr v used ED Hlt. destruct (prefix_is inp (scale_uint bits v) used) eqn:EC; [|reflexivity].
      exfalso. apply prefix_is_split in EC.
      assert (Hv0 : 0 <= v).
      { unfold scale_uint_denote in ED. destruct (scale_bytes_denote inp) as [[bs u]|] eqn:EB; [|discriminate].
        cbn [option_map fst snd] in ED. injection ED as <- <-.
        destruct (scale_bytes_denote_some inp bs u Hi EB) as (_ & Hbs). change le_val with le_value.
        pose proof (le_value_range bs Hbs). lia. }
      pose proof (scale_decode_canonical bits v (skipn (Z.to_nat used) inp) Hb ltac:(lia)
                    ltac:(auto using Forall_skipn')) as HC.
      rewrite <- EC, E in HC. injection HC as HC. rewrite HC in Herr. discriminate.
  - (* scale_compact_decode *)
    intros (Hb & Hi). destruct (Z.leb_spec COMPACT_MAX_BITS bits) as [Hp|Hp].
    { rewrite compact_decode_panics by assumption. reflexivity. }
    unfold COMPACT_MAX_BITS in Hp.
    destruct (compact_decode_eq bits inp ltac:(lia) Hi) as (c & E). rewrite E. cbn [obind].
    apply spec_dec_gen.
    + destruct (compact_denote inp) as [[v used]|] eqn:ED; [|left; reflexivity].
      destruct (compact_denote_some inp v used Hi ED) as (Hv0 & Hu).
      destruct (caccept bits (hd 0 inp) v && (v <? 2 ^ bits)) eqn:EA; [|left; reflexivity].
      right. apply andb_true_iff in EA. destruct EA as [_ Hlt]. apply Z.ltb_lt in Hlt.
      exists v, used. split; [reflexivity|]. split; [exact Hlt|]. cbn [dec_toks]. unfold streamed, U.
      rewrite lenZ_skipn by lia. do 3 f_equal. lia.
    + intros Herr v used ED Hlt. destruct (prefix_is inp (compact v) used) eqn:EC; [|reflexivity].
      exfalso. apply prefix_is_split in EC.
      destruct (compact_denote_some inp v used Hi ED) as (Hv0 & Hu).
      pose proof (compact_decode_canonical bits v (skipn (Z.to_nat used) inp) ltac:(lia) ltac:(lia)
                    ltac:(auto using Forall_skipn')) as HC.
      rewrite <- EC, E in HC. injection HC as HC. rewrite HC in Herr. discriminate.
  - (* ssz_decode *)
    intros (Hb & Hi). rewrite ssz_decode_spec by assumption. cbn [obind].
    unfold ssz_denote. rewrite SBYTES_nbytes by assumption. change le_val with le_value.
    apply spec_dec_gen.
    + destruct (lenZ inp =? nbytes bits); [|left; reflexivity].
      destruct (Z.ltb_spec (le_value inp) (2 ^ bits)); [|left; reflexivity].
      right. exists (le_value inp), (lenZ inp). repeat split; assumption.
    + intros Herr v used ED Hlt. exfalso.
      destruct (lenZ inp =? nbytes bits); [|discriminate]. injection ED as <- <-.
      destruct (Z.ltb_spec (le_value inp) (2 ^ bits)); [discriminate|lia].
  - (* borsh_de *)
    intros (Hb & Hi & _). rewrite borsh_de_spec by assumption. cbn [obind].
    unfold borsh_denote, take. rewrite SBYTES_nbytes by assumption. change le_val with le_value.
    pose proof (nbytes_nonneg bits Hb) as Hn0.
    apply spec_dec_gen.
    + destruct (Z.ltb_spec (lenZ inp) (nbytes bits)); [left; reflexivity|]. cbv zeta. cbn [option_map].
      fold (nbytesN bits).
      destruct (Z.ltb_spec (le_value (firstn (nbytesN bits) inp)) (2 ^ bits)); [|left; reflexivity].
      right. eexists _, _. split; [reflexivity|]. split; [assumption|]. cbn [dec_toks]. unfold streamed, U.
      unfold nbytesN. rewrite lenZ_skipn by lia. do 3 f_equal. lia.
    + intros Herr v used ED Hlt. exfalso.
      destruct (Z.ltb_spec (lenZ inp) (nbytes bits)); [discriminate|]. cbn [option_map] in ED.
      injection ED as <- <-. cbv zeta in Herr. fold (nbytesN bits) in Hlt.
      destruct (Z.ltb_spec (le_value (firstn (nbytesN bits) inp)) (2 ^ bits)); [discriminate|lia].
  - (* der_decode *)
    intros (Hb & Hi). destruct (der_decode_eq bits inp Hb Hi) as (c & E). rewrite E. cbn [obind].
    apply spec_dec_gen.
    + destruct (der_parse inp) as [v|]; [|left; reflexivity]. cbn [option_map].
      destruct (Z.ltb_spec v (2 ^ bits)); [|left; reflexivity].
      right. exists v, (lenZ inp). repeat split; assumption.
    + intros Herr v used ED Hlt. exfalso.
      destruct (der_parse inp) as [v'|]; [|discriminate]. injection ED as <- <-.
      destruct (Z.ltb_spec v' (2 ^ bits)); [discriminate|lia].
  - (* der_from_int *)
    intros (Hb & Hi). destruct (der_from_int_eq bits inp Hb Hi) as (c & E). rewrite E. cbn [obind].
    apply spec_dec_gen.
    + destruct (der_parse_content inp) as [v|]; [|left; reflexivity]. cbn [option_map].
      destruct (Z.ltb_spec v (2 ^ bits)); [|left; reflexivity].
      right. exists v, 0. repeat split; assumption.
    + intros Herr v used ED Hlt. exfalso.
      destruct (der_parse_content inp) as [v'|]; [|discriminate]. injection ED as <- <-.
      destruct (Z.ltb_spec v' (2 ^ bits)); [discriminate|lia].
  - (* der_from_uint *)
    intros (Hb & Hi). rewrite der_from_uint_spec by assumption. cbn [obind]. change be_val with bev.
    apply spec_dec_gen.
    + destruct inp as [|b rest]; [left; reflexivity|].
      destruct (Z.ltb_spec (bev (b :: rest)) (2 ^ bits)); [|left; reflexivity].
      right. exists (bev (b :: rest)), 0. repeat split; assumption.
    + intros Herr v used ED Hlt. exfalso. destruct inp as [|b rest]; [discriminate|].
      injection ED as <- <-. destruct (Z.ltb_spec (bev (b :: rest)) (2 ^ bits)); [discriminate|lia].
  - (* der_from_any *)
    intros (Hb & Hi). destruct (der_from_any_eq bits inp Hb Hi) as (c & E). rewrite E. cbn [obind].
    apply spec_dec_gen.
    + destruct (der_parse_content inp) as [v|]; [|left; reflexivity]. cbn [option_map].
      destruct (Z.ltb_spec v (2 ^ bits)); [|left; reflexivity].
      right. exists v, 0. repeat split; assumption.
    + intros Herr v used ED Hlt. exfalso.
      destruct (der_parse_content inp) as [v'|]; [|discriminate]. injection ED as <- <-.
      destruct (Z.ltb_spec v' (2 ^ bits)); [discriminate|lia].
Qed.
