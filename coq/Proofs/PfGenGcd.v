(* Proofs/PfGenGcd.v — the generated definitions of src/algorithms/gcd/mod.rs (gcd, gcd_extended, inv_mod;
   tools_rs2v.py, Gen/Scalar.v) are the model functions of Model/Gcd.v.  The `while b != ZERO` loops run on
   Prim.while_rounds with the bound 2*BITS + 2 of the translator's table, which is the model's gcd_fuel.
   The loop invariant "every Uint variable is canonical" is what the generated code needs for the ties of
   the functions it calls to apply; it is maintained by the step theorems of PfGcd / PfGcdUint. *)
From Coq Require Import ZArith List Bool Lia.
From RV.Model Require Import Base Word GcdMatrix Gcd.
From RV.Model Require Add UDiv Mul Bits.
From RV.Gen Require Import Prim Scalar.
From RV.Proofs Require Import BaseFacts PfGenScalar PfGenAdd PfGenMul PfGenDiv PfGenMatrix.
From RV.Proofs Require PfGcdUint PfGcd PfGcdMatrix PfC12Closed PfC01 PfModelsAgree.
From RV.Run Require RunC12.
Import ListNotations.

Section G.
  Variable bits : Z.
  Hypothesis H0 : 0 <= bits.
  Hypothesis HbB : bits + 7 < B.
  Hypothesis HB : 64 * nlimbs bits < B.

  Let HL : 0 <= nlimbs bits. Proof. apply nlimbs_nonneg; exact H0. Qed.
  Let HB1 : nlimbs bits < B. Proof. lia. Qed.
  Let HB' : nlimbs bits <= B. Proof. lia. Qed.

  Lemma mat_eqb_tuple m : Prim.mat_eqb (mat_tuple m) (1, 0, 0, 1, true) = GcdMatrix.mat_eqb m IDENTITY.
  Proof. reflexivity. Qed.

  Lemma ult_false_le a b : canon bits a -> canon bits b -> Add.ult a b = false -> eval b <= eval a.
  Proof.
    intros (La & Wa & _) (Lb & Wb & _). unfold Add.ult.
    rewrite PfC01.limbs_cmp_spec by (auto; congruence).
    destruct (Z.compare_spec (eval a) (eval b)); [lia|discriminate|lia].
  Qed.

  Lemma words_of_wordsP m : PfGcdUint.wordsP m -> words_mat m.
  Proof. exact (fun H => H). Qed.

  (* the part of a round every loop shares: assertion, matrix, and (for a matrix step) apply on (a, b) *)
  Lemma gen_from_eq {T} a b (K : Z * Z * Z * Z * bool -> outcome T) (K' : mat -> outcome T) :
    canon bits a -> canon bits b ->
    (forall m, PfGcdUint.wordsP m -> K (mat_tuple m) = K' m) ->
    (if negb (match g_cmp bits (nlimbs bits) a b with Lt => false | _ => true end) then DebugPanic else
     do t <- g_mat_from bits (nlimbs bits) a b ; K t)
    = (if Add.ult a b then DebugPanic else do m <- from bits a b ; K' m).
  Proof.
    intros Ca Cb HK. unfold g_cmp. destruct (Add.ult a b) eqn:Eu; unfold Add.ult in Eu.
    - destruct (Add.limbs_cmp a b); try discriminate. reflexivity.
    - replace (negb match Add.limbs_cmp a b with Lt => false | _ => true end) with false
        by (destruct (Add.limbs_cmp a b); try discriminate; reflexivity).
      rewrite (g_mat_from_eq bits a b H0 HbB HB Ca Cb).
      destruct (PfGcdMatrix.LehmerStepOK_holds bits a b H0 Ca Cb (ult_false_le a b Ca Cb Eu)) as (m & Em & Wm & _).
      rewrite Em. cbn [omap obind]. apply HK. exact Wm.
  Qed.

  Lemma apply_canon m a b : PfGcdUint.wordsP m -> canon bits a -> canon bits b ->
    match apply bits m a b with Val (c, d) => canon bits c /\ canon bits d | _ => True end.
  Proof.
    intros Wm Ca Cb. destruct (Z.eq_dec bits 0) as [E|N].
    - unfold apply. rewrite E. cbn. subst bits. auto.
    - destruct (RunC12.fits bits m) eqn:F.
      + apply PfGcdUint.fits_iff in F.
        destruct (PfGcdUint.apply_spec bits m a b ltac:(lia) Wm F Ca Cb) as (c & d & -> & Cc & Cd & _). auto.
      + assert (NF : ~ PfGcdUint.fitsP bits m) by (intros X; apply PfGcdUint.fits_iff in X; congruence).
        rewrite (PfGcdUint.apply_panic bits m a b ltac:(lia) Wm NF Ca Cb). exact I.
  Qed.

  Lemma urem_canon a b : canon bits a -> canon bits b -> is_zero bits b = false ->
    match urem a b with Val r => canon bits r | _ => True end.
  Proof.
    intros Ca Cb Ez. rewrite (PfGcdUint.is_zero_spec bits b H0 Cb) in Ez. apply Z.eqb_neq in Ez.
    destruct (PfGcdUint.udiv_rem_spec PfC12Closed.DivKernelOK_holds bits a b H0 Ca Cb Ez) as (q & r & E & Cq & Cr & _).
    unfold urem. rewrite E. cbn [obind snd]. exact Cr.
  Qed.

  (* ---------------- gcd ---------------- *)
  Lemma wr_gcd_loop cond body :
    (forall a b, cond (a, b) = Val (negb (is_zero bits b))) ->
    (forall a b, canon bits a -> canon bits b -> body (a, b) =
       if Add.ult a b then DebugPanic else
       do m <- from bits a b ;
       if GcdMatrix.mat_eqb m IDENTITY then do r <- urem a b ; Val (b, r)
       else do p <- apply bits m a b ; Val (fst p, snd p)) ->
    forall fuel a b, canon bits a -> canon bits b ->
    (do t <- while_rounds fuel (a, b) cond body ; let '(a', _) := t in Val a') = gcd_loop fuel bits a b.
  Proof.
    intros Hc Hb. induction fuel as [|fuel IH]; intros a b Ca Cb.
    - cbn [while_rounds gcd_loop]. rewrite Hc. cbn [obind]. destruct (is_zero bits b); reflexivity.
    - cbn [while_rounds gcd_loop]. rewrite Hc. cbn [obind].
      destruct (is_zero bits b) eqn:Ez; cbn [negb]; [reflexivity|].
      rewrite (Hb a b Ca Cb). destruct (Add.ult a b) eqn:Eu; [reflexivity|].
      destruct (PfGcdMatrix.LehmerStepOK_holds bits a b H0 Ca Cb (ult_false_le a b Ca Cb Eu)) as (m & Em & Wm & _).
      rewrite Em. cbn [obind].
      destruct (GcdMatrix.mat_eqb m IDENTITY).
      + pose proof (urem_canon a b Ca Cb Ez) as Cr.
        destruct (urem a b) as [r| | | |]; try reflexivity. cbn [obind]. apply IH; assumption.
      + pose proof (apply_canon m a b Wm Ca Cb) as Cp.
        destruct (apply bits m a b) as [[c d]| | | |]; try reflexivity. cbn [obind fst snd].
        apply IH; tauto.
  Qed.

  Theorem g_alg_gcd_eq a b : canon bits a -> canon bits b ->
    g_alg_gcd bits (nlimbs bits) a b = gcd bits a b.
  Proof.
    intros Ca Cb. unfold g_alg_gcd, gcd, g_cmp.
    pose proof Ca as (La & Wa & _). pose proof Cb as (Lb & Wb & _).
    assert (Esw : (match Add.limbs_cmp b a with Gt => true | _ => false end) = Add.ult a b).
    { unfold Add.ult. rewrite !PfC01.limbs_cmp_spec by (auto; congruence).
      rewrite (Z.compare_antisym (eval a) (eval b)). destruct (eval a ?= eval b); reflexivity. }
    rewrite Esw.
    assert (forall x y, canon bits x -> canon bits y ->
      (do t_8 <- while_rounds (Z.to_nat (2 * bits + 2)) (x, y)
         (fun t_9 => let '(a, b) := t_9 in Val (negb (list_eqb Z.eqb b (uZERO bits))))
         (fun t_9 => let '(a, b) := t_9 in
            if negb (match g_cmp bits (nlimbs bits) a b with Lt => false | _ => true end) then DebugPanic else
            do t_2 <- g_mat_from bits (nlimbs bits) a b ; let m := t_2 in
            do t_7 <- (if Prim.mat_eqb m (1, 0, 0, 1, true) then
                         (do t_3 <- g_wrapping_rem bits (nlimbs bits) a b ; let a := t_3 in
                          let '(a, b) := (b, a) in Val (a, b))
                       else (do t_4 <- g_mat_apply bits (nlimbs bits) m a b ; let '(t_5, t_6) := t_4 in
                             let a := t_5 in let b := t_6 in Val (a, b))) ;
            let '(a, b) := t_7 in Val (a, b)) ;
       let '(a, b) := t_8 in Val a) = gcd_loop (gcd_fuel bits) bits x y) as Hloop.
    { intros x y Cx Cy. unfold gcd_fuel. apply wr_gcd_loop; try assumption.
      - intros a' b'. reflexivity.
      - intros a' b' Ca' Cb'. cbv beta iota.
        apply gen_from_eq; try assumption. intros m Wm. cbv zeta. rewrite mat_eqb_tuple.
        destruct (GcdMatrix.mat_eqb m IDENTITY).
        + rewrite g_wrapping_rem_eq, <- PfModelsAgree.agree_gcdmatrix_urem.
          destruct (urem a' b'); reflexivity.
        + rewrite (g_mat_apply_eq bits H0 HB1 m a' b' (words_of_wordsP m Wm) Ca' Cb').
          destruct (apply bits m a' b') as [[c d]| | | |]; reflexivity. }
    destruct (Add.ult a b); cbn [obind]; apply Hloop; assumption.
  Qed.

  (* ---------------- shared: one Euclidean update, division ---------------- *)
  Lemma gen_upd_eq {T} q x0 x1 (K : list Z -> outcome T) :
    canon bits q -> canon bits x0 -> canon bits x1 ->
    (do t <- g_wrapping_mul bits (nlimbs bits) q x1 ; do t' <- g_wrapping_sub bits (nlimbs bits) x0 t ; K t')
    = (do p <- euclid_upd bits q x0 x1 ; K (snd p)).
  Proof.
    intros Cq C0 C1. unfold euclid_upd. rewrite (g_wmul_umul bits H0 HB1 q x1 Cq C1).
    destruct (PfGcdUint.umul_spec bits q x1 H0 Cq C1) as (p & Ep & Cp & _). rewrite Ep. cbn [obind snd].
    destruct C0 as (L0 & _), Cp as (Lp & _).
    rewrite (g_wrapping_sub_eq bits x0 p H0 HB' L0 Lp). reflexivity.
  Qed.
  Lemma upd_fst q x0 x1 p : euclid_upd bits q x0 x1 = Val p -> fst p = x1.
  Proof. unfold euclid_upd. destruct (umul bits q x1); try discriminate. cbn [obind]. intros [= <-]. reflexivity. Qed.
  Lemma upd_canon q x0 x1 : canon bits q -> canon bits x0 -> canon bits x1 ->
    match euclid_upd bits q x0 x1 with Val p => canon bits (fst p) /\ canon bits (snd p) | _ => True end.
  Proof.
    intros Cq C0 C1. unfold euclid_upd.
    destruct (PfGcdUint.umul_spec bits q x1 H0 Cq C1) as (p & Ep & Cp & _). rewrite Ep. cbn [obind fst snd].
    split; [exact C1|]. apply (PfGcdUint.usub_spec bits x0 p H0 C0 Cp).
  Qed.
  Lemma udiv_canon a b : canon bits a -> canon bits b -> is_zero bits b = false ->
    match udiv a b with Val q => canon bits q | _ => True end.
  Proof.
    intros Ca Cb Ez. rewrite (PfGcdUint.is_zero_spec bits b H0 Cb) in Ez. apply Z.eqb_neq in Ez.
    destruct (PfGcdUint.udiv_rem_spec PfC12Closed.DivKernelOK_holds bits a b H0 Ca Cb Ez) as (q & r & E & Cq & Cr & _).
    unfold udiv. rewrite E. cbn [obind fst]. exact Cq.
  Qed.
  Lemma g_udiv a b : g_wrapping_div bits (nlimbs bits) a b = udiv a b.
  Proof. rewrite g_wrapping_div_eq, <- PfModelsAgree.agree_gcdmatrix_udiv. reflexivity. Qed.

  (* ---------------- inv_mod ---------------- *)
  Definition is_tuple (s : istate) := (ia s, ib s, it0 s, it1 s, ieven s).
  Definition canonI (s : istate) : Prop :=
    canon bits (ia s) /\ canon bits (ib s) /\ canon bits (it0 s) /\ canon bits (it1 s).
  Definition inv_step (s : istate) (m : mat) : outcome istate :=
    if GcdMatrix.mat_eqb m IDENTITY then
      do q <- udiv (ia s) (ib s) ;
      do ab <- euclid_upd bits q (ia s) (ib s) ;
      do tp <- euclid_upd bits q (it0 s) (it1 s) ;
      Val (IS (fst ab) (snd ab) (fst tp) (snd tp) (negb (ieven s)))
    else
      do ab <- apply bits m (ia s) (ib s) ;
      do tp <- apply bits m (it0 s) (it1 s) ;
      Val (IS (fst ab) (snd ab) (fst tp) (snd tp) (xorb (ieven s) (negb (m4 m)))).

  Lemma inv_loop_S fuel s : inv_loop (S fuel) bits s =
    if is_zero bits (ib s) then Val s else
    if Add.ult (ia s) (ib s) then DebugPanic else
    do m <- from bits (ia s) (ib s) ; do s' <- inv_step s m ; inv_loop fuel bits s'.
  Proof.
    cbn [inv_loop]. destruct (is_zero bits (ib s)); [reflexivity|].
    destruct (Add.ult (ia s) (ib s)); [reflexivity|].
    destruct (from bits (ia s) (ib s)) as [m| | | |]; try reflexivity. cbn [obind]. unfold inv_step.
    destruct (GcdMatrix.mat_eqb m IDENTITY).
    - destruct (udiv (ia s) (ib s)); try reflexivity. cbn [obind].
      destruct (euclid_upd bits _ (ia s) (ib s)); try reflexivity. cbn [obind].
      destruct (euclid_upd bits _ (it0 s) (it1 s)); reflexivity.
    - destruct (apply bits m (ia s) (ib s)); try reflexivity. cbn [obind].
      destruct (apply bits m (it0 s) (it1 s)); reflexivity.
  Qed.

  Lemma inv_step_canon s m : canonI s -> is_zero bits (ib s) = false -> PfGcdUint.wordsP m ->
    match inv_step s m with Val s' => canonI s' | _ => True end.
  Proof.
    intros (Ca & Cb & C0 & C1) Ez Wm. unfold inv_step. destruct (GcdMatrix.mat_eqb m IDENTITY).
    - pose proof (udiv_canon _ _ Ca Cb Ez) as Cq. destruct (udiv (ia s) (ib s)) as [q| | | |]; try exact I. cbn [obind].
      pose proof (upd_canon q _ _ Cq Ca Cb) as U1. destruct (euclid_upd bits q (ia s) (ib s)) as [ab| | | |]; try exact I. cbn [obind].
      pose proof (upd_canon q _ _ Cq C0 C1) as U2. destruct (euclid_upd bits q (it0 s) (it1 s)) as [tp| | | |]; try exact I.
      unfold canonI. cbn. tauto.
    - pose proof (apply_canon m _ _ Wm Ca Cb) as U1. destruct (apply bits m (ia s) (ib s)) as [[c d]| | | |]; try exact I. cbn [obind].
      pose proof (apply_canon m _ _ Wm C0 C1) as U2. destruct (apply bits m (it0 s) (it1 s)) as [[c' d']| | | |]; try exact I.
      unfold canonI. cbn. tauto.
  Qed.

  Lemma wr_inv_loop cond body :
    (forall s, cond (is_tuple s) = Val (negb (is_zero bits (ib s)))) ->
    (forall s, canonI s -> is_zero bits (ib s) = false -> body (is_tuple s) =
       if Add.ult (ia s) (ib s) then DebugPanic else
       do m <- from bits (ia s) (ib s) ; omap is_tuple (inv_step s m)) ->
    forall fuel s, canonI s ->
    while_rounds fuel (is_tuple s) cond body = omap is_tuple (inv_loop fuel bits s) /\
    (forall s', inv_loop fuel bits s = Val s' -> canonI s').
  Proof.
    intros Hc Hb. induction fuel as [|fuel IH]; intros s Cs.
    - cbn [while_rounds inv_loop]. rewrite Hc. cbn [obind].
      destruct (is_zero bits (ib s)); cbn [negb]; split; try reflexivity; try discriminate. intros s' [= <-]. exact Cs.
    - rewrite inv_loop_S. cbn [while_rounds]. rewrite Hc. cbn [obind].
      destruct (is_zero bits (ib s)) eqn:Ez; cbn [negb].
      { split; [reflexivity|]. intros s' [= <-]. exact Cs. }
      rewrite (Hb s Cs Ez). destruct (Add.ult (ia s) (ib s)) eqn:Eu; [split; [reflexivity|discriminate]|].
      destruct Cs as (Ca & Cb & C0 & C1).
      destruct (PfGcdMatrix.LehmerStepOK_holds bits _ _ H0 Ca Cb (ult_false_le _ _ Ca Cb Eu)) as (m & Em & Wm & _).
      rewrite Em. cbn [obind].
      pose proof (inv_step_canon s m (conj Ca (conj Cb (conj C0 C1))) Ez Wm) as Cs'.
      destruct (inv_step s m) as [s1| | | |]; cbn [omap obind]; try (split; [reflexivity|discriminate]).
      apply IH. exact Cs'.
  Qed.

  Theorem g_alg_inv_mod_eq num modulus : canon bits num -> canon bits modulus ->
    g_alg_inv_mod bits (nlimbs bits) num modulus = inv_mod bits num modulus.
  Proof.
    intros Cn Cm. unfold g_alg_inv_mod, inv_mod.
    rewrite !g_is_zero_eq, <- !PfModelsAgree.agree_gcdmatrix_is_zero.
    destruct (Z.eqb_spec bits 0) as [E0|N0]; cbn [orb]; [reflexivity|].
    destruct (is_zero bits modulus) eqn:Ezm; [reflexivity|]. cbv zeta.
    unfold g_cmp, uge, Add.ult.
    assert (Eb : (if match Add.limbs_cmp num modulus with Lt => false | _ => true end
                  then do t_1 <- g_wrapping_rem bits (nlimbs bits) num modulus ; Val t_1 else Val num)
                 = (if negb match Add.limbs_cmp num modulus with Lt => true | _ => false end
                    then urem num modulus else Val num)).
    { destruct (Add.limbs_cmp num modulus); cbn [negb]; try reflexivity;
        rewrite g_wrapping_rem_eq, <- PfModelsAgree.agree_gcdmatrix_urem; destruct (urem num modulus); reflexivity. }
    rewrite Eb. clear Eb.
    assert (Cb : match (if negb match Add.limbs_cmp num modulus with Lt => true | _ => false end
                        then urem num modulus else Val num) with Val b => canon bits b | _ => True end).
    { destruct (negb match Add.limbs_cmp num modulus with Lt => true | _ => false end); [|exact Cn].
      apply urem_canon; assumption. }
    destruct (if negb match Add.limbs_cmp num modulus with Lt => true | _ => false end
              then urem num modulus else Val num) as [b| | | |]; try reflexivity. cbn [obind].
    rewrite g_is_zero_eq, <- PfModelsAgree.agree_gcdmatrix_is_zero.
    destruct (is_zero bits b) eqn:Ezb; [reflexivity|].
    rewrite PfModelsAgree.agree_udiv_uone, <- PfModelsAgree.agree_gcdmatrix_uONE.
    destruct (PfGcdUint.uONE_spec bits ltac:(lia)) as [C1 _].
    destruct (canon_uZERO bits H0) as [Cz _].
    set (s0 := IS modulus b (uZERO bits) (uONE bits) true).
    assert (Cs0 : canonI s0) by (unfold canonI, s0; cbn; auto).
    change (modulus, b, uZERO bits, uONE bits, true) with (is_tuple s0).
    match goal with |- context [while_rounds _ (is_tuple s0) ?c ?bd] => pose proof (wr_inv_loop c bd) as HW end.
    destruct HW with (fuel := gcd_fuel bits) (s := s0) as [EL CL]; [| |exact Cs0|].
    3:{ change (Z.to_nat (2 * bits + 2)) with (gcd_fuel bits). rewrite EL. clear EL.
        destruct (inv_loop (gcd_fuel bits) bits s0) as [s| | | |] eqn:E; try reflexivity. cbn [omap obind].
        specialize (CL s eq_refl). destruct CL as (Ca & _ & Ct0 & _). unfold is_tuple.
        destruct (list_eqb Z.eqb (ia s) (uONE bits)); [|reflexivity].
        destruct (ieven s); [|reflexivity].
        destruct Cm as (Lm & _), Ct0 as (Lt & _).
        rewrite (g_wrapping_add_eq bits modulus (it0 s) H0 HB' Lm Lt). reflexivity. }
    - intros [a' b' t0' t1' e']. reflexivity.
    - intros [a' b' t0' t1' e'] (Ca & Cb' & C0 & C1') Ez. cbn [ia ib it0 it1 ieven] in *. unfold is_tuple. cbn [ia ib it0 it1 ieven].
      apply gen_from_eq; try assumption. intros m Wm. cbv zeta. rewrite mat_eqb_tuple. unfold inv_step. cbn [ia ib it0 it1 ieven].
      destruct (GcdMatrix.mat_eqb m IDENTITY).
      + rewrite g_udiv. pose proof (udiv_canon _ _ Ca Cb' Ez) as Cq.
        destruct (udiv a' b') as [q| | | |]; try reflexivity. cbn [obind].
        rewrite (gen_upd_eq q a' b') by assumption.
        destruct (euclid_upd bits q a' b') as [ab| | | |] eqn:E1; try reflexivity. cbn [obind].
        rewrite (gen_upd_eq q t0' t1') by assumption.
        destruct (euclid_upd bits q t0' t1') as [tp| | | |] eqn:E2; try reflexivity. cbn [obind omap].
        rewrite (upd_fst _ _ _ _ E1), (upd_fst _ _ _ _ E2). reflexivity.
      + rewrite (g_mat_apply_eq bits H0 HB1 m a' b' (words_of_wordsP m Wm) Ca Cb').
        destruct (apply bits m a' b') as [[c d]| | | |]; try reflexivity. cbn [obind].
        rewrite (g_mat_apply_eq bits H0 HB1 m t0' t1' (words_of_wordsP m Wm) C0 C1').
        destruct (apply bits m t0' t1') as [[c' d']| | | |]; reflexivity.
  Qed.

  (* ---------------- gcd_extended ---------------- *)
  Definition xs_tuple (s : xstate) := (xa s, xb s, xs0 s, xs1 s, xt0 s, xt1 s, xeven s).
  Definition canonX (s : xstate) : Prop :=
    canon bits (xa s) /\ canon bits (xb s) /\ canon bits (xs0 s) /\ canon bits (xs1 s) /\
    canon bits (xt0 s) /\ canon bits (xt1 s).
  Definition gcdx_step (s : xstate) (m : mat) : outcome xstate :=
    if GcdMatrix.mat_eqb m IDENTITY then
      do q <- udiv (xa s) (xb s) ;
      do ab <- euclid_upd bits q (xa s) (xb s) ;
      do ss <- euclid_upd bits q (xs0 s) (xs1 s) ;
      do tp <- euclid_upd bits q (xt0 s) (xt1 s) ;
      Val (XS (fst ab) (snd ab) (fst ss) (snd ss) (fst tp) (snd tp) (negb (xeven s)))
    else
      do ab <- apply bits m (xa s) (xb s) ;
      do ss <- apply bits m (xs0 s) (xs1 s) ;
      do tp <- apply bits m (xt0 s) (xt1 s) ;
      Val (XS (fst ab) (snd ab) (fst ss) (snd ss) (fst tp) (snd tp) (xorb (xeven s) (negb (m4 m)))).

  Lemma gcdx_loop_S fuel s : gcdx_loop (S fuel) bits s =
    if is_zero bits (xb s) then Val s else
    if Add.ult (xa s) (xb s) then DebugPanic else
    do m <- from bits (xa s) (xb s) ; do s' <- gcdx_step s m ; gcdx_loop fuel bits s'.
  Proof.
    cbn [gcdx_loop]. destruct (is_zero bits (xb s)); [reflexivity|].
    destruct (Add.ult (xa s) (xb s)); [reflexivity|].
    destruct (from bits (xa s) (xb s)) as [m| | | |]; try reflexivity. cbn [obind]. unfold gcdx_step.
    destruct (GcdMatrix.mat_eqb m IDENTITY).
    - destruct (udiv (xa s) (xb s)); try reflexivity. cbn [obind].
      destruct (euclid_upd bits _ (xa s) (xb s)); try reflexivity. cbn [obind].
      destruct (euclid_upd bits _ (xs0 s) (xs1 s)); try reflexivity. cbn [obind].
      destruct (euclid_upd bits _ (xt0 s) (xt1 s)); reflexivity.
    - destruct (apply bits m (xa s) (xb s)); try reflexivity. cbn [obind].
      destruct (apply bits m (xs0 s) (xs1 s)); try reflexivity. cbn [obind].
      destruct (apply bits m (xt0 s) (xt1 s)); reflexivity.
  Qed.

  Lemma gcdx_step_canon s m : canonX s -> is_zero bits (xb s) = false -> PfGcdUint.wordsP m ->
    match gcdx_step s m with Val s' => canonX s' | _ => True end.
  Proof.
    intros (Ca & Cb & S0 & S1 & T0 & T1) Ez Wm. unfold gcdx_step. destruct (GcdMatrix.mat_eqb m IDENTITY).
    - pose proof (udiv_canon _ _ Ca Cb Ez) as Cq. destruct (udiv (xa s) (xb s)) as [q| | | |]; try exact I. cbn [obind].
      pose proof (upd_canon q _ _ Cq Ca Cb) as U1. destruct (euclid_upd bits q (xa s) (xb s)) as [ab| | | |]; try exact I. cbn [obind].
      pose proof (upd_canon q _ _ Cq S0 S1) as U2. destruct (euclid_upd bits q (xs0 s) (xs1 s)) as [ss| | | |]; try exact I. cbn [obind].
      pose proof (upd_canon q _ _ Cq T0 T1) as U3. destruct (euclid_upd bits q (xt0 s) (xt1 s)) as [tp| | | |]; try exact I.
      unfold canonX. cbn. tauto.
    - pose proof (apply_canon m _ _ Wm Ca Cb) as U1. destruct (apply bits m (xa s) (xb s)) as [[c d]| | | |]; try exact I. cbn [obind].
      pose proof (apply_canon m _ _ Wm S0 S1) as U2. destruct (apply bits m (xs0 s) (xs1 s)) as [[c1 d1]| | | |]; try exact I. cbn [obind].
      pose proof (apply_canon m _ _ Wm T0 T1) as U3. destruct (apply bits m (xt0 s) (xt1 s)) as [[c2 d2]| | | |]; try exact I.
      unfold canonX. cbn. tauto.
  Qed.

  Lemma wr_gcdx_loop cond body :
    (forall s, cond (xs_tuple s) = Val (negb (is_zero bits (xb s)))) ->
    (forall s, canonX s -> is_zero bits (xb s) = false -> body (xs_tuple s) =
       if Add.ult (xa s) (xb s) then DebugPanic else
       do m <- from bits (xa s) (xb s) ; omap xs_tuple (gcdx_step s m)) ->
    forall fuel s, canonX s ->
    while_rounds fuel (xs_tuple s) cond body = omap xs_tuple (gcdx_loop fuel bits s) /\
    (forall s', gcdx_loop fuel bits s = Val s' -> canonX s').
  Proof.
    intros Hc Hb. induction fuel as [|fuel IH]; intros s Cs.
    - cbn [while_rounds gcdx_loop]. rewrite Hc. cbn [obind].
      destruct (is_zero bits (xb s)); cbn [negb]; split; try reflexivity; try discriminate. intros s' [= <-]. exact Cs.
    - rewrite gcdx_loop_S. cbn [while_rounds]. rewrite Hc. cbn [obind].
      destruct (is_zero bits (xb s)) eqn:Ez; cbn [negb].
      { split; [reflexivity|]. intros s' [= <-]. exact Cs. }
      rewrite (Hb s Cs Ez). destruct (Add.ult (xa s) (xb s)) eqn:Eu; [split; [reflexivity|discriminate]|].
      pose proof Cs as (Ca & Cb & _).
      destruct (PfGcdMatrix.LehmerStepOK_holds bits _ _ H0 Ca Cb (ult_false_le _ _ Ca Cb Eu)) as (m & Em & Wm & _).
      rewrite Em. cbn [obind].
      pose proof (gcdx_step_canon s m Cs Ez Wm) as Cs'.
      destruct (gcdx_step s m) as [s1| | | |]; cbn [omap obind]; try (split; [reflexivity|discriminate]).
      apply IH. exact Cs'.
  Qed.

  Theorem g_alg_gcd_extended_eq a b : canon bits a -> canon bits b ->
    g_alg_gcd_extended bits (nlimbs bits) a b = gcd_extended bits a b.
  Proof.
    intros Ca Cb. unfold g_alg_gcd_extended, gcd_extended.
    destruct (Z.eqb_spec bits 0) as [E0|N0]; [reflexivity|]. cbv zeta.
    change (match g_cmp bits (nlimbs bits) a b with Lt => true | _ => false end) with (Add.ult a b).
    rewrite PfModelsAgree.agree_udiv_uone, <- PfModelsAgree.agree_gcdmatrix_uONE.
    destruct (PfGcdUint.uONE_spec bits ltac:(lia)) as [C1 _].
    destruct (canon_uZERO bits H0) as [Cz _].
    assert (Hmain : forall x y sw, canon bits x -> canon bits y ->
      (do t_20 <- while_rounds (Z.to_nat (2 * bits + 2)) (x, y, uONE bits, uZERO bits, uZERO bits, uONE bits, true)
         (fun t_21 => let '(a, b, s0, s1, t0, t1, even) := t_21 in Val (negb (list_eqb Z.eqb b (uZERO bits))))
         (fun t_21 => let '(a, b, s0, s1, t0, t1, even) := t_21 in
            if negb (match g_cmp bits (nlimbs bits) a b with Lt => false | _ => true end) then DebugPanic else
            do t_2 <- g_mat_from bits (nlimbs bits) a b ; let m := t_2 in
            do t_19 <- (if Prim.mat_eqb m (1, 0, 0, 1, true) then
               (do t_3 <- g_wrapping_div bits (nlimbs bits) a b ; let q := t_3 in
                do t_4 <- g_wrapping_mul bits (nlimbs bits) q b ; do t_5 <- g_wrapping_sub bits (nlimbs bits) a t_4 ; let a := t_5 in
                let '(a, b) := (b, a) in
                do t_6 <- g_wrapping_mul bits (nlimbs bits) q s1 ; do t_7 <- g_wrapping_sub bits (nlimbs bits) s0 t_6 ; let s0 := t_7 in
                let '(s0, s1) := (s1, s0) in
                do t_8 <- g_wrapping_mul bits (nlimbs bits) q t1 ; do t_9 <- g_wrapping_sub bits (nlimbs bits) t0 t_8 ; let t0 := t_9 in
                let '(t0, t1) := (t1, t0) in
                let even := negb even in
                Val (a, b, s0, s1, t0, t1, even))
             else
               (do t_10 <- g_mat_apply bits (nlimbs bits) m a b ; let '(t_11, t_12) := t_10 in let a := t_11 in let b := t_12 in
                do t_13 <- g_mat_apply bits (nlimbs bits) m s0 s1 ; let '(t_14, t_15) := t_13 in let s0 := t_14 in let s1 := t_15 in
                do t_16 <- g_mat_apply bits (nlimbs bits) m t0 t1 ; let '(t_17, t_18) := t_16 in let t0 := t_17 in let t1 := t_18 in
                let even := xorb even (negb (mat_4 m)) in
                Val (a, b, s0, s1, t0, t1, even))) ;
            let '(a, b, s0, s1, t0, t1, even) := t_19 in
            Val (a, b, s0, s1, t0, t1, even)) ;
       let '(a, b, s0, s1, t0, t1, even) := t_20 in
       do t_24 <- (if even then (do t_22 <- g_wrapping_sub bits (nlimbs bits) (uZERO bits) t0 ; let t0 := t_22 in Val (t0, s0))
                   else (do t_23 <- g_wrapping_sub bits (nlimbs bits) (uZERO bits) s0 ; let s0 := t_23 in Val (t0, s0))) ;
       let '(t0, s0) := t_24 in
       do t_25 <- (if (sw : bool) then (let '(s0, t0) := (t0, s0) in let even := negb even in Val (s0, t0, even))
                   else Val (s0, t0, even)) ;
       let '(s0, t0, even) := t_25 in
       Val (a, s0, t0, even))
      = (do s <- gcdx_loop (gcd_fuel bits) bits (XS x y (uONE bits) (uZERO bits) (uZERO bits) (uONE bits) true) ;
         let even := xeven s in
         let t0 := if even then usub bits (uZERO bits) (xt0 s) else xt0 s in
         let s0 := if even then xs0 s else usub bits (uZERO bits) (xs0 s) in
         if sw then Val (xa s, t0, s0, negb even) else Val (xa s, s0, t0, even))).
    { intros x y sw Cx Cy.
      set (st := XS x y (uONE bits) (uZERO bits) (uZERO bits) (uONE bits) true).
      assert (Cst : canonX st) by (unfold canonX, st; cbn; auto 10).
      change (x, y, uONE bits, uZERO bits, uZERO bits, uONE bits, true) with (xs_tuple st).
      change (Z.to_nat (2 * bits + 2)) with (gcd_fuel bits).
      match goal with |- context [while_rounds _ (xs_tuple st) ?c ?bd] => pose proof (wr_gcdx_loop c bd) as HW end.
      destruct HW with (fuel := gcd_fuel bits) (s := st) as [EL CL]; [| |exact Cst|].
      3:{ rewrite EL. clear EL.
          destruct (gcdx_loop (gcd_fuel bits) bits st) as [s| | | |] eqn:E; try reflexivity. cbn [omap obind].
          specialize (CL s eq_refl). destruct CL as (_ & _ & S0 & _ & T0 & _). unfold xs_tuple. cbv zeta.
          destruct Cz as (Lz & _). pose proof S0 as (Ls & _). pose proof T0 as (Lt & _).
          destruct (xeven s).
          - rewrite (g_wrapping_sub_eq bits (uZERO bits) (xt0 s) H0 HB' Lz Lt). cbn [obind].
            destruct sw; reflexivity.
          - rewrite (g_wrapping_sub_eq bits (uZERO bits) (xs0 s) H0 HB' Lz Ls). cbn [obind].
            destruct sw; reflexivity. }
      - intros [a' b' s0' s1' t0' t1' e']. reflexivity.
      - intros [a' b' s0' s1' t0' t1' e'] (Ca' & Cb' & S0 & S1 & T0 & T1) Ez. cbn [xa xb xs0 xs1 xt0 xt1 xeven] in *.
        unfold xs_tuple. cbn [xa xb xs0 xs1 xt0 xt1 xeven].
        apply gen_from_eq; try assumption. intros m Wm. cbv zeta. rewrite mat_eqb_tuple. unfold gcdx_step. cbn [xa xb xs0 xs1 xt0 xt1 xeven].
        destruct (GcdMatrix.mat_eqb m IDENTITY).
        + rewrite g_udiv. pose proof (udiv_canon _ _ Ca' Cb' Ez) as Cq.
          destruct (udiv a' b') as [q| | | |]; try reflexivity. cbn [obind].
          rewrite (gen_upd_eq q a' b') by assumption.
          destruct (euclid_upd bits q a' b') as [ab| | | |] eqn:E1; try reflexivity. cbn [obind].
          rewrite (gen_upd_eq q s0' s1') by assumption.
          destruct (euclid_upd bits q s0' s1') as [ss| | | |] eqn:E2; try reflexivity. cbn [obind].
          rewrite (gen_upd_eq q t0' t1') by assumption.
          destruct (euclid_upd bits q t0' t1') as [tp| | | |] eqn:E3; try reflexivity. cbn [obind omap].
          rewrite (upd_fst _ _ _ _ E1), (upd_fst _ _ _ _ E2), (upd_fst _ _ _ _ E3). reflexivity.
        + rewrite (g_mat_apply_eq bits H0 HB1 m a' b' (words_of_wordsP m Wm) Ca' Cb').
          destruct (apply bits m a' b') as [[c d]| | | |]; try reflexivity. cbn [obind].
          rewrite (g_mat_apply_eq bits H0 HB1 m s0' s1' (words_of_wordsP m Wm) S0 S1).
          destruct (apply bits m s0' s1') as [[c1 d1]| | | |]; try reflexivity. cbn [obind].
          rewrite (g_mat_apply_eq bits H0 HB1 m t0' t1' (words_of_wordsP m Wm) T0 T1).
          destruct (apply bits m t0' t1') as [[c2 d2]| | | |]; reflexivity. }
    destruct (Add.ult a b); [exact (Hmain b a true Cb Ca) | exact (Hmain a b false Ca Cb)].
  Qed.

  (* ---------------- src/gcd.rs and Uint::inv_mod: the Uint-level wrappers ---------------- *)
  Lemma bind_val_id {A} (o : outcome A) : (do x <- o ; Val x) = o.
  Proof. destruct o; reflexivity. Qed.

  Theorem g_u_wrappers_eq a b : canon bits a -> canon bits b ->
    g_u_gcd bits (nlimbs bits) a b = uint_gcd bits a b /\
    g_u_gcd_extended bits (nlimbs bits) a b = uint_gcd_extended bits a b /\
    g_u_inv_mod bits (nlimbs bits) a b = inv_mod bits a b /\
    g_u_lcm bits (nlimbs bits) a b = lcm bits a b.
  Proof.
    intros Ca Cb.
    assert (Eg : g_u_gcd bits (nlimbs bits) a b = gcd bits a b).
    { unfold g_u_gcd. rewrite bind_val_id. apply g_alg_gcd_eq; assumption. }
    split; [exact Eg|]. split; [|split].
    - unfold g_u_gcd_extended, uint_gcd_extended. rewrite bind_val_id. apply g_alg_gcd_extended_eq; assumption.
    - unfold g_u_inv_mod. rewrite bind_val_id. apply g_alg_inv_mod_eq; assumption.
    - unfold g_u_lcm, lcm. rewrite Eg.
      rewrite (PfGcd.gcd_spec PfC12Closed.DivKernelOK_holds PfGcdMatrix.LehmerStepOK_holds bits a b H0 Ca Cb).
      cbn [obind].
      pose proof (canon_range bits a H0 Ca) as Ra. pose proof (canon_range bits b H0 Cb) as Rb.
      assert (Hg : 0 <= Z.gcd (eval a) (eval b) < 2 ^ bits).
      { split; [apply Z.gcd_nonneg|].
        destruct (Z.eq_dec (eval a) 0) as [Ea|Na].
        - rewrite Ea, Z.gcd_0_l, Z.abs_eq by lia. lia.
        - assert (Z.gcd (eval a) (eval b) <= eval a); [|lia].
          apply Z.divide_pos_le; [lia | apply Z.gcd_divide_l]. }
      destruct (PfGcdUint.canon_uint_of_val bits _ H0 Hg) as [Cg _].
      set (g := uint_of bits (Z.gcd (eval a) (eval b))) in *.
      rewrite g_checked_div_eq. unfold UDiv.checked_div, UDiv.op_div_.
      rewrite <- PfModelsAgree.agree_gcdmatrix_is_zero, <- PfModelsAgree.agree_gcdmatrix_udiv.
      destruct (is_zero bits g) eqn:Ez; cbn [obind].
      + destruct (canon_uZERO bits H0) as [(Lz & Wz & _) _]. destruct Ca as (La & Wa & _).
        rewrite (g_checked_mul_eq bits a (uZERO bits) H0 HB' La Lz Wa Wz), <- PfModelsAgree.agree_gcdmatrix_uchecked_mul.
        reflexivity.
      + pose proof (udiv_canon b g Cb Cg Ez) as Cq.
        destruct (udiv b g) as [q| | | |]; try reflexivity. cbn [obind].
        destruct Cq as (Lq & Wq & _). destruct Ca as (La & Wa & _).
        rewrite (g_checked_mul_eq bits a q H0 HB' La Lq Wa Wq), <- PfModelsAgree.agree_gcdmatrix_uchecked_mul.
        reflexivity.
  Qed.
End G.
