(* Proofs/PfGenGcd.v — the generated definitions of src/algorithms/gcd/mod.rs (gcd, gcd_extended, inv_mod;
   tools_rs2v.py, Gen/Scalar.v) are the model functions of Model/Gcd.v.  The `while b != ZERO` loops run on
   Prim.while_rounds with the bound 2*BITS + 2 of the translator's table, which is the model's gcd_fuel.
   The loop invariant "every Uint variable is canonical" is what the generated code needs for the ties of
   the functions it calls to apply; it is maintained by the step theorems of PfGcd / PfGcdUint. *)
From Coq Require Import ZArith List Bool Lia.
From RV.Model Require Import Base Word GcdMatrix Gcd.
From RV.Model Require Add UDiv Mul Bits.
From RV.Gen Require Import Prim Scalar.
From RV.Proofs Require Import BaseFacts PfGenScalar PfGenAdd PfGenMul PfGenDiv PfGenMatrix.
From RV.Proofs Require PfGcdUint PfGcd PfGcdMatrix PfC12Closed PfC01 PfModelsAgree.
From RV.Run Require RunC12.
Import ListNotations.

Section G.
  Variable bits : Z.
  Hypothesis H0 : 0 <= bits.
  Hypothesis HbB : bits + 7 < B.
  Hypothesis HB : 64 * nlimbs bits < B.

  Let HL : 0 <= nlimbs bits. Proof. apply nlimbs_nonneg; exact H0. Qed.
  Let HB1 : nlimbs bits < B. Proof. lia. Qed.
  Let HB' : nlimbs bits <= B. Proof. lia. Qed.

  Lemma mat_eqb_tuple m : Prim.mat_eqb (mat_tuple m) (1, 0, 0, 1, true) = GcdMatrix.mat_eqb m IDENTITY.
  Proof. reflexivity. Qed.

  Lemma ult_false_le a b : canon bits a -> canon bits b -> Add.ult a b = false -> eval b <= eval a.
  Proof.
    intros (La & Wa & _) (Lb & Wb & _). unfold Add.ult.
    rewrite PfC01.limbs_cmp_spec by (auto; congruence).
    destruct (Z.compare_spec (eval a) (eval b)); [lia|discriminate|lia].
  Qed.

  Lemma words_of_wordsP m : PfGcdUint.wordsP m -> words_mat m.
  Proof. exact (fun H => H). Qed.

  (* the part of a round every loop shares: assertion, matrix, and (for a matrix step) apply on (a, b) *)
  Lemma gen_from_eq {T} a b (K : Z * Z * Z * Z * bool -> outcome T) (K' : mat -> outcome T) :
    canon bits a -> canon bits b ->
    (forall m, PfGcdUint.wordsP m -> K (mat_tuple m) = K' m) ->
    (if negb (match g_cmp bits (nlimbs bits) a b with Lt => false | _ => true end) then DebugPanic else
     do t <- g_mat_from bits (nlimbs bits) a b ; K t)
    = (if Add.ult a b then DebugPanic else do m <- from bits a b ; K' m).
  Proof.
    intros Ca Cb HK. unfold g_cmp. destruct (Add.ult a b) eqn:Eu; unfold Add.ult in Eu.
    - destruct (Add.limbs_cmp a b); try discriminate. reflexivity.
    - replace (negb match Add.limbs_cmp a b with Lt => false | _ => true end) with false
        by (destruct (Add.limbs_cmp a b); try discriminate; reflexivity).
      rewrite (g_mat_from_eq bits a b H0 HbB HB Ca Cb).
      destruct (PfGcdMatrix.LehmerStepOK_holds bits a b H0 Ca Cb (ult_false_le a b Ca Cb Eu)) as (m & Em & Wm & _).
      rewrite Em. cbn [omap obind]. apply HK. exact Wm.
  Qed.

  Lemma apply_canon m a b : PfGcdUint.wordsP m -> canon bits a -> canon bits b ->
    match apply bits m a b with Val (c, d) => canon bits c /\ canon bits d | _ => True end.
  Proof.
    intros Wm Ca Cb. destruct (Z.eq_dec bits 0) as [E|N].
    - unfold apply. rewrite E. cbn. subst bits. auto.
    - destruct (RunC12.fits bits m) eqn:F.
      + apply PfGcdUint.fits_iff in F.
        destruct (PfGcdUint.apply_spec bits m a b ltac:(lia) Wm F Ca Cb) as (c & d & -> & Cc & Cd & _). auto.
      + assert (NF : ~ PfGcdUint.fitsP bits m) by (intros X; apply PfGcdUint.fits_iff in X; congruence).
        rewrite (PfGcdUint.apply_panic bits m a b ltac:(lia) Wm NF Ca Cb). exact I.
  Qed.

  Lemma urem_canon a b : canon bits a -> canon bits b -> is_zero bits b = false ->
    match urem a b with Val r => canon bits r | _ => True end.
  Proof.
    intros Ca Cb Ez. rewrite (PfGcdUint.is_zero_spec bits b H0 Cb) in Ez. apply Z.eqb_neq in Ez.
    destruct (PfGcdUint.udiv_rem_spec PfC12Closed.DivKernelOK_holds bits a b H0 Ca Cb Ez) as (q & r & E & Cq & Cr & _).
    unfold urem. rewrite E. cbn [obind snd]. exact Cr.
  Qed.

  (* ---------------- gcd ---------------- *)
  Lemma wr_gcd_loop cond body :
    (forall a b, cond (a, b) = Val (negb (is_zero bits b))) ->
    (forall a b, canon bits a -> canon bits b -> body (a, b) =
       if Add.ult a b then DebugPanic else
       do m <- from bits a b ;
       if GcdMatrix.mat_eqb m IDENTITY then do r <- urem a b ; Val (b, r)
       else do p <- apply bits m a b ; Val (fst p, snd p)) ->
    forall fuel a b, canon bits a -> canon bits b ->
    (do t <- while_rounds fuel (a, b) cond body ; let '(a', _) := t in Val a') = gcd_loop fuel bits a b.
  Proof.
    intros Hc Hb. induction fuel as [|fuel IH]; intros a b Ca Cb.
    - cbn [while_rounds gcd_loop]. rewrite Hc. cbn [obind]. destruct (is_zero bits b); reflexivity.
    - cbn [while_rounds gcd_loop]. rewrite Hc. cbn [obind].
      destruct (is_zero bits b) eqn:Ez; cbn [negb]; [reflexivity|].
      rewrite (Hb a b Ca Cb). destruct (Add.ult a b) eqn:Eu; [reflexivity|].
      destruct (PfGcdMatrix.LehmerStepOK_holds bits a b H0 Ca Cb (ult_false_le a b Ca Cb Eu)) as (m & Em & Wm & _).
      rewrite Em. cbn [obind].
      destruct (GcdMatrix.mat_eqb m IDENTITY).
      + pose proof (urem_canon a b Ca Cb Ez) as Cr.
        destruct (urem a b) as [r| | | |]; try reflexivity. cbn [obind]. apply IH; assumption.
      + pose proof (apply_canon m a b Wm Ca Cb) as Cp.
        destruct (apply bits m a b) as [[c d]| | | |]; try reflexivity. cbn [obind fst snd].
        apply IH; tauto.
  Qed.

  Theorem g_alg_gcd_eq a b : canon bits a -> canon bits b ->
    g_alg_gcd bits (nlimbs bits) a b = gcd bits a b.
  Proof.
    intros Ca Cb. unfold g_alg_gcd, gcd, g_cmp.
    pose proof Ca as (La & Wa & _). pose proof Cb as (Lb & Wb & _).
    assert (Esw : (match Add.limbs_cmp b a with Gt => true | _ => false end) = Add.ult a b).
    { unfold Add.ult. rewrite !PfC01.limbs_cmp_spec by (auto; congruence).
      rewrite (Z.compare_antisym (eval a) (eval b)). destruct (eval a ?= eval b); reflexivity. }
    rewrite Esw.
    assert (forall x y, canon bits x -> canon bits y ->
      (do t_8 <- while_rounds (Z.to_nat (2 * bits + 2)) (x, y)
         (fun t_9 => let '(a, b) := t_9 in Val (negb (list_eqb Z.eqb b (uZERO bits))))
         (fun t_9 => let '(a, b) := t_9 in
            if negb (match g_cmp bits (nlimbs bits) a b with Lt => false | _ => true end) then DebugPanic else
            do t_2 <- g_mat_from bits (nlimbs bits) a b ; let m := t_2 in
            do t_7 <- (if Prim.mat_eqb m (1, 0, 0, 1, true) then
                         (do t_3 <- g_wrapping_rem bits (nlimbs bits) a b ; let a := t_3 in
                          let '(a, b) := (b, a) in Val (a, b))
                       else (do t_4 <- g_mat_apply bits (nlimbs bits) m a b ; let '(t_5, t_6) := t_4 in
                             let a := t_5 in let b := t_6 in Val (a, b))) ;
            let '(a, b) := t_7 in Val (a, b)) ;
       let '(a, b) := t_8 in Val a) = gcd_loop (gcd_fuel bits) bits x y) as Hloop.
    { intros x y Cx Cy. unfold gcd_fuel. apply wr_gcd_loop; try assumption.
      - intros a' b'. reflexivity.
      - intros a' b' Ca' Cb'. cbv beta iota.
        apply gen_from_eq; try assumption. intros m Wm. cbv zeta. rewrite mat_eqb_tuple.
        destruct (GcdMatrix.mat_eqb m IDENTITY).
        + rewrite g_wrapping_rem_eq, <- PfModelsAgree.agree_gcdmatrix_urem.
          destruct (urem a' b'); reflexivity.
        + rewrite (g_mat_apply_eq bits H0 HB1 m a' b' (words_of_wordsP m Wm) Ca' Cb').
          destruct (apply bits m a' b') as [[c d]| | | |]; reflexivity. }
    destruct (Add.ult a b); cbn [obind]; apply Hloop; assumption.
  Qed.

  (* ---------------- shared: one Euclidean update, division ---------------- *)
  Lemma gen_upd_eq {T} q x0 x1 (K : list Z -> outcome T) :
    canon bits q -> canon bits x0 -> canon bits x1 ->
    (do t <- g_wrapping_mul bits (nlimbs bits) q x1 ; do t' <- g_wrapping_sub bits (nlimbs bits) x0 t ; K t')
    = (do p <- euclid_upd bits q x0 x1 ; K (snd p)).
  Proof.
    intros Cq C0 C1. unfold euclid_upd. rewrite (g_wmul_umul bits H0 HB1 q x1 Cq C1).
    destruct (PfGcdUint.umul_spec bits q x1 H0 Cq C1) as (p & Ep & Cp & _). rewrite Ep. cbn [obind snd].
    destruct C0 as (L0 & _), Cp as (Lp & _).
    rewrite (g_wrapping_sub_eq bits x0 p H0 HB' L0 Lp). reflexivity.
  Qed.
  Lemma upd_fst q x0 x1 p : euclid_upd bits q x0 x1 = Val p -> fst p = x1.
  Proof. unfold euclid_upd. destruct (umul bits q x1); try discriminate. cbn [obind]. intros [= <-]. reflexivity. Qed.
  Lemma upd_canon q x0 x1 : canon bits q -> canon bits x0 -> canon bits x1 ->
    match euclid_upd bits q x0 x1 with Val p => canon bits (fst p) /\ canon bits (snd p) | _ => True end.
  Proof.
    intros Cq C0 C1. unfold euclid_upd.
    destruct (PfGcdUint.umul_spec bits q x1 H0 Cq C1) as (p & Ep & Cp & _). rewrite Ep. cbn [obind fst snd].
    split; [exact C1|]. apply (PfGcdUint.usub_spec bits x0 p H0 C0 Cp).
  Qed.
  Lemma udiv_canon a b : canon bits a -> canon bits b -> is_zero bits b = false ->
    match udiv a b with Val q => canon bits q | _ => True end.
  Proof.
    intros Ca Cb Ez. rewrite (PfGcdUint.is_zero_spec bits b H0 Cb) in Ez. apply Z.eqb_neq in Ez.
    destruct (PfGcdUint.udiv_rem_spec PfC12Closed.DivKernelOK_holds bits a b H0 Ca Cb Ez) as (q & r & E & Cq & Cr & _).
    unfold udiv. rewrite E. cbn [obind fst]. exact Cq.
  Qed.
  Lemma g_udiv a b : g_wrapping_div bits (nlimbs bits) a b = udiv a b.
  Proof. rewrite g_wrapping_div_eq, <- PfModelsAgree.agree_gcdmatrix_udiv. reflexivity. Qed.

  (* ---------------- inv_mod ---------------- *)
  Definition is_tuple (s : istate) := (ia s, ib s, it0 s, it1 s, ieven s).
  Definition canonI (s : istate) : Prop :=
    canon bits (ia s) /\ canon bits (ib s) /\ canon bits (it0 s) /\ canon bits (it1 s).
  Definition inv_step (s : istate) (m : mat) : outcome istate :=
    if GcdMatrix.mat_eqb m IDENTITY then
      do q <- udiv (ia s) (ib s) ;
      do ab <- euclid_upd bits q (ia s) (ib s) ;
      do tp <- euclid_upd bits q (it0 s) (it1 s) ;
      Val (IS (fst ab) (snd ab) (fst tp) (snd tp) (negb (ieven s)))
    else
      do ab <- apply bits m (ia s) (ib s) ;
      do tp <- apply bits m (it0 s) (it1 s) ;
      Val (IS (fst ab) (snd ab) (fst tp) (snd tp) (xorb (ieven s) (negb (m4 m)))).

  Lemma inv_loop_S fuel s : inv_loop (S fuel) bits s =
    if is_zero bits (ib s) then Val s else
    if Add.ult (ia s) (ib s) then DebugPanic else
    do m <- from bits (ia s) (ib s) ; do s' <- inv_step s m ; inv_loop fuel bits s'.
  Proof.
    cbn [inv_loop]. destruct (is_zero bits (ib s)); [reflexivity|].
    destruct (Add.ult (ia s) (ib s)); [reflexivity|].
    destruct (from bits (ia s) (ib s)) as [m| | | |]; try reflexivity. cbn [obind]. unfold inv_step.
    destruct (GcdMatrix.mat_eqb m IDENTITY).
    - destruct (udiv (ia s) (ib s)); try reflexivity. cbn [obind].
      destruct (euclid_upd bits _ (ia s) (ib s)); try reflexivity. cbn [obind].
      destruct (euclid_upd bits _ (it0 s) (it1 s)); reflexivity.
    - destruct (apply bits m (ia s) (ib s)); try reflexivity. cbn [obind].
      destruct (apply bits m (it0 s) (it1 s)); reflexivity.
  Qed.

  Lemma inv_step_canon s m : canonI s -> is_zero bits (ib s) = false -> PfGcdUint.wordsP m ->
    match inv_step s m with Val s' => canonI s' | _ => True end.
  Proof.
    intros (Ca & Cb & C0 & C1) Ez Wm. unfold inv_step. destruct (GcdMatrix.mat_eqb m IDENTITY).
    - pose proof (udiv_canon _ _ Ca Cb Ez) as Cq. destruct (udiv (ia s) (ib s)) as [q| | | |]; try exact I. cbn [obind].
      pose proof (upd_canon q _ _ Cq Ca Cb) as U1. destruct (euclid_upd bits q (ia s) (ib s)) as [ab| | | |]; try exact I. cbn [obind].
      pose proof (upd_canon q _ _ Cq C0 C1) as U2. destruct (euclid_upd bits q (it0 s) (it1 s)) as [tp| | | |]; try exact I.
      unfold canonI. cbn. tauto.
    - pose proof (apply_canon m _ _ Wm Ca Cb) as U1. destruct (apply bits m (ia s) (ib s)) as [[c d]| | | |]; try exact I. cbn [obind].
      pose proof (apply_canon m _ _ Wm C0 C1) as U2. destruct (apply bits m (it0 s) (it1 s)) as [[c' d']| | | |]; try exact I.
      unfold canonI. cbn. tauto.
  Qed.

  Lemma wr_inv_loop cond body :
    (forall s, cond (is_tuple s) = Val (negb (is_zero bits (ib s)))) ->
    (forall s, canonI s -> is_zero bits (ib s) = false -> body (is_tuple s) =
       if Add.ult (ia s) (ib s) then DebugPanic else
       do m <- from bits (ia s) (ib s) ; omap is_tuple (inv_step s m)) ->
    forall fuel s, canonI s ->
    while_rounds fuel (is_tuple s) cond body = omap is_tuple (inv_loop fuel bits s) /\
    (forall s', inv_loop fuel bits s = Val s' -> canonI s').
  Proof.
    intros Hc Hb. induction fuel as [|fuel IH]; intros s Cs.
    - cbn [while_rounds inv_loop]. rewrite Hc. cbn [obind].
      destruct (is_zero bits (ib s)); cbn [negb]; split; try reflexivity; try discriminate. intros s' [= <-]. exact Cs.
    - rewrite inv_loop_S. cbn [while_rounds]. rewrite Hc. cbn [obind].
      destruct (is_zero bits (ib s)) eqn:Ez; cbn [negb].
      { split; [reflexivity|]. intros s' [= <-]. exact Cs. }
      rewrite (Hb s Cs Ez). destruct (Add.ult (ia s) (ib s)) eqn:Eu; [split; [reflexivity|discriminate]|].
      destruct Cs as (Ca & Cb & C0 & C1).
      destruct (PfGcdMatrix.LehmerStepOK_holds bits _ _ H0 Ca Cb (ult_false_le _ _ Ca Cb Eu)) as (m & Em & Wm & _).
      rewrite Em. cbn [obind].
      pose proof (inv_step_canon s m (conj Ca (conj Cb (conj C0 C1))) Ez Wm) as Cs'.
      destruct (inv_step s m) as [s1| | | |]; cbn [omap obind]; try (split; [reflexivity|discriminate]).
      apply IH. exact Cs'.
  Qed.

  Theorem g_alg_inv_mod_eq num modulus : canon bits num -> canon bits modulus ->
    g_alg_inv_mod bits (nlimbs bits) num modulus = inv_mod bits num modulus.
  Proof.
    intros Cn Cm. unfold g_alg_inv_mod, inv_mod.
    rewrite !g_is_zero_eq, <- !PfModelsAgree.agree_gcdmatrix_is_zero.
    destruct (Z.eqb_spec bits 0) as [E0|N0]; cbn [orb]; [reflexivity|].
    destruct (is_zero bits modulus) eqn:Ezm; [reflexivity|]. cbv zeta.
    unfold g_cmp, uge, Add.ult.
    assert (Eb : (if match Add.limbs_cmp num modulus with Lt => false | _ => true end
                  then do t_1 <- g_wrapping_rem bits (nlimbs bits) num modulus ; Val t_1 else Val num)
                 = (if negb match Add.limbs_cmp num modulus with Lt => true | _ => false end
                    then urem num modulus else Val num)).
    { destruct (Add.limbs_cmp num modulus); cbn [negb]; try reflexivity;
        rewrite g_wrapping_rem_eq, <- PfModelsAgree.agree_gcdmatrix_urem; destruct (urem num modulus); reflexivity. }
    rewrite Eb. clear Eb.
    assert (Cb : match (if negb match Add.limbs_cmp num modulus with Lt => true | _ => false end
                        then urem num modulus else Val num) with Val b => canon bits b | _ => True end).
    { destruct (negb match Add.limbs_cmp num modulus with Lt => true | _ => false end); [|exact Cn].
      apply urem_canon; assumption. }
    destruct (if negb match Add.limbs_cmp num modulus with Lt => true | _ => false end
              then urem num modulus else Val num) as [b| | | |]; try reflexivity. cbn [obind].
    rewrite g_is_zero_eq, <- PfModelsAgree.agree_gcdmatrix_is_zero.
    destruct (is_zero bits b) eqn:Ezb; [reflexivity|].
    rewrite PfModelsAgree.agree_udiv_uone, <- PfModelsAgree.agree_gcdmatrix_uONE.
    destruct (PfGcdUint.uONE_spec bits ltac:(lia)) as [C1 _].
    destruct (canon_uZERO bits H0) as [Cz _].
    set (s0 := IS modulus b (uZERO bits) (uONE bits) true).
    assert (Cs0 : canonI s0) by (unfold canonI, s0; cbn; auto).
    change (modulus, b, uZERO bits, uONE bits, true) with (is_tuple s0).
    match goal with |- context [while_rounds _ (is_tuple s0) ?c ?bd] => pose proof (wr_inv_loop c bd) as HW end.
    destruct HW with (fuel := gcd_fuel bits) (s := s0) as [EL CL]; [| |exact Cs0|].
    3:{ change (Z.to_nat (2 * bits + 2)) with (gcd_fuel bits). rewrite EL. clear EL.
        destruct (inv_loop (gcd_fuel bits) bits s0) as [s| | | |] eqn:E; try reflexivity. cbn [omap obind].
        specialize (CL s eq_refl). destruct CL as (Ca & _ & Ct0 & _). unfold is_tuple.
        destruct (list_eqb Z.eqb (ia s) (uONE bits)); [|reflexivity].
        destruct (ieven s); [|reflexivity].
        destruct Cm as (Lm & _), Ct0 as (Lt & _).
        rewrite (g_wrapping_add_eq bits modulus (it0 s) H0 HB' Lm Lt). reflexivity. }
    - intros [a' b' t0' t1' e']. reflexivity.
    - intros [a' b' t0' t1' e'] (Ca & Cb' & C0 & C1') Ez. cbn [ia ib it0 it1 ieven] in *. unfold is_tuple. cbn [ia ib it0 it1 ieven].
      apply gen_from_eq; try assumption. intros m Wm. cbv zeta. rewrite mat_eqb_tuple. unfold inv_step. cbn [ia ib it0 it1 ieven].
      destruct (GcdMatrix.mat_eqb m IDENTITY).
      + rewrite g_udiv. pose proof (udiv_canon _ _ Ca Cb' Ez) as Cq.
        destruct (udiv a' b') as [q| | | |]; try reflexivity. cbn [obind].
        rewrite (gen_upd_eq q a' b') by assumption.
        destruct (euclid_upd bits q a' b') as [ab| | | |] eqn:E1; try reflexivity. cbn [obind].
        rewrite (gen_upd_eq q t0' t1') by assumption.
        destruct (euclid_upd bits q t0' t1') as [tp| | | |] eqn:E2; try reflexivity. cbn [obind omap].
        rewrite (upd_fst _ _ _ _ E1), (upd_fst _ _ _ _ E2). reflexivity.
      + rewrite (g_mat_apply_eq bits H0 HB1 m a' b' (words_of_wordsP m Wm) Ca Cb').
        destruct (apply bits m a' b') as [[c d]| | | |]; try reflexivity. cbn [obind].
        rewrite (g_mat_apply_eq bits H0 HB1 m t0' t1' (words_of_wordsP m Wm) C0 C1').
        destruct (apply bits m t0' t1') as [[c' d']| | | |]; reflexivity.
  Qed.
End G.
