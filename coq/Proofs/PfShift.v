(* Proofs/PfShift.v — bits.rs shifts/rotations: carry chains of the two shift loops and the
   Uint-level theorems (value, canonicity, lost-bits flag). *)
From Coq Require Import ZArith List Bool Lia.
From RV.Model Require Import Base Word Shift.
From RV.Proofs Require Import BaseFacts.
Import ListNotations.
Local Open Scope Z_scope.

(* ---------- bit-level facts ---------- *)
Lemma pow2_pos k : 0 <= k -> 0 < 2 ^ k.
Proof. intros. apply Z.pow_pos_nonneg; lia. Qed.

Lemma lor_disjoint b a k :
  0 <= k -> 0 <= a < 2 ^ k -> Z.lor (b * 2 ^ k) a = b * 2 ^ k + a.
Proof.
  intros Hk Ha.
  assert (HL : Z.land (b * 2 ^ k) a = 0).
  { apply Z.bits_inj'. intros n Hn. rewrite Z.land_spec, Z.bits_0.
    destruct (Z.ltb_spec n k).
    - rewrite Z.mul_pow2_bits_low by lia. reflexivity.
    - rewrite <- (Z.mod_small a (2 ^ k)) by lia.
      rewrite Z.mod_pow2_bits_high by lia. apply andb_false_r. }
  rewrite <- Z.lxor_lor by exact HL. symmetry. apply Z.add_nocarry_lxor. exact HL.
Qed.

Lemma lor_lt_pow2 x y k :
  0 <= k -> 0 <= x < 2 ^ k -> 0 <= y < 2 ^ k -> 0 <= Z.lor x y < 2 ^ k.
Proof.
  intros Hk Hx Hy.
  rewrite <- (Z.mod_small x (2 ^ k)), <- (Z.mod_small y (2 ^ k)) by lia.
  rewrite <- !Z.land_ones, <- Z.land_lor_distr_l, Z.land_ones by lia.
  apply Z.mod_pos_bound. now apply pow2_pos.
Qed.

Lemma lor_limbs x y X Y :
  inW x -> inW y -> 0 <= X -> 0 <= Y ->
  Z.lor (x + B * X) (y + B * Y) = Z.lor x y + B * Z.lor X Y.
Proof.
  unfold inW. rewrite B_pow. intros Hx Hy HX HY.
  replace (x + 2 ^ 64 * X) with (X * 2 ^ 64 + x) by ring.
  replace (y + 2 ^ 64 * Y) with (Y * 2 ^ 64 + y) by ring.
  rewrite <- !lor_disjoint by lia.
  replace (Z.lor (Z.lor (X * 2 ^ 64) x) (Z.lor (Y * 2 ^ 64) y))
    with (Z.lor (Z.lor (X * 2 ^ 64) (Y * 2 ^ 64)) (Z.lor x y)).
  2:{ rewrite !Z.lor_assoc. f_equal. rewrite <- !Z.lor_assoc. f_equal. apply Z.lor_comm. }
  rewrite <- !Z.shiftl_mul_pow2, <- Z.shiftl_lor, Z.shiftl_mul_pow2 by lia.
  rewrite lor_disjoint by (try apply lor_lt_pow2; lia). ring.
Qed.

Lemma lor_nonneg' x y : 0 <= x -> 0 <= y -> 0 <= Z.lor x y.
Proof. intros. apply Z.lor_nonneg. split; assumption. Qed.

Lemma bitor_spec a : forall b,
  length a = length b -> Forall inW a -> Forall inW b ->
  length (bitor a b) = length a /\ Forall inW (bitor a b) /\
  eval (bitor a b) = Z.lor (eval a) (eval b).
Proof.
  induction a as [|x a IH]; intros [|y b] Hl Ha Hb; cbn [length] in Hl; try discriminate.
  - cbn. repeat split; constructor.
  - inversion Ha as [|? ? Hx Ha']; inversion Hb as [|? ? Hy Hb']; subst.
    destruct (IH b ltac:(lia) Ha' Hb') as (IHl & IHw & IHe).
    cbn [bitor length eval]. split; [lia|]. split.
    + constructor; [|exact IHw]. unfold inW in *. rewrite B_pow in *. apply lor_lt_pow2; lia.
    + rewrite IHe. symmetry. apply lor_limbs; auto.
      * pose proof (eval_bound a Ha'). lia.
      * pose proof (eval_bound b Hb'). lia.
Qed.

(* ---------- zero tests ---------- *)
Lemma any_nz_spec l : Forall inW l -> any_nz l = negb (eval l =? 0).
Proof.
  induction 1 as [|x l Hx Hl IH]; [reflexivity|].
  unfold any_nz in *. cbn [existsb eval]. rewrite IH. unfold nz.
  pose proof (eval_bound l Hl). pose proof B_pos. unfold inW in Hx.
  destruct (Z.eqb_spec x 0), (Z.eqb_spec (eval l) 0), (Z.eqb_spec (x + B * eval l) 0);
    cbn; try reflexivity; nia.
Qed.

Lemma list_eqb_zero l :
  Forall inW l -> list_eqb Z.eqb l (repeat 0 (length l)) = (eval l =? 0).
Proof.
  induction 1 as [|x l Hx Hl IH]; [reflexivity|].
  cbn [length repeat list_eqb eval]. rewrite IH.
  pose proof (eval_bound l Hl). pose proof B_pos. unfold inW in Hx.
  destruct (Z.eqb_spec x 0), (Z.eqb_spec (eval l) 0), (Z.eqb_spec (x + B * eval l) 0);
    cbn; try reflexivity; nia.
Qed.

Lemma ne_zero_spec bits a : canon bits a -> ne_zero bits a = negb (eval a =? 0).
Proof.
  intros (Hl & Hw & _). unfold ne_zero, uZERO, zero_limbs. rewrite <- Hl.
  now rewrite list_eqb_zero.
Qed.

(* ---------- word level: one step of each loop ---------- *)
Lemma shl_step x r cin :
  inW x -> 0 <= r < 64 -> 0 <= cin < 2 ^ r ->
  let v := Z.lor (shl64 x r) cin in
  let c := shr64 (shr64 x (64 - r - 1)) 1 in
  inW v /\ 0 <= c < 2 ^ r /\ v + B * c = x * 2 ^ r + cin.
Proof.
  unfold inW. intros Hx Hr Hc. cbv zeta. unfold shl64, shr64.
  assert (HB : B = 2 ^ (64 - r) * 2 ^ r) by (rewrite B_pow, <- Z.pow_add_r by lia; f_equal; lia).
  pose proof (pow2_pos r ltac:(lia)) as Hp. pose proof (pow2_pos (64 - r) ltac:(lia)) as Ht.
  set (p := 2 ^ r) in *. set (t := 2 ^ (64 - r)) in *.
  assert (E1 : (x * p) mod B = (x mod t) * p) by (rewrite HB; apply Z.mul_mod_distr_r; lia).
  assert (E2 : x / 2 ^ (64 - r - 1) / 2 ^ 1 = x / t).
  { rewrite Z.div_div by (try apply pow2_pos; lia). rewrite <- Z.pow_add_r by lia.
    unfold t. do 2 f_equal. lia. }
  rewrite E1, E2.
  assert (EL : Z.lor (x mod t * p) cin = x mod t * p + cin) by (apply lor_disjoint; lia).
  rewrite EL.
  pose proof (Z.div_mod x t ltac:(lia)) as Hdm. pose proof (Z.mod_pos_bound x t Ht) as Hm.
  assert (0 <= x / t) by (apply Z.div_pos; lia).
  assert (x / t < p) by (apply Z.div_lt_upper_bound; lia).
  repeat split; try lia; rewrite HB; nia.
Qed.

Lemma shr_step x r h :
  inW x -> 0 <= r < 64 -> 0 <= h < 2 ^ r ->
  let v := Z.lor (shr64 x r) (h * 2 ^ (64 - r)) in
  let c := shl64 (shl64 x (64 - r - 1)) 1 in
  inW v /\ exists h', c = h' * 2 ^ (64 - r) /\ 0 <= h' < 2 ^ r /\ v * 2 ^ r + h' = x + B * h.
Proof.
  unfold inW. intros Hx Hr Hh. cbv zeta. unfold shl64, shr64.
  assert (HB : B = 2 ^ r * 2 ^ (64 - r)) by (rewrite B_pow, <- Z.pow_add_r by lia; f_equal; lia).
  pose proof (pow2_pos r ltac:(lia)) as Hp. pose proof (pow2_pos (64 - r) ltac:(lia)) as Ht.
  pose proof B_pos as HBp.
  assert (E1 : ((x * 2 ^ (64 - r - 1)) mod B * 2 ^ 1) mod B = (x mod 2 ^ r) * 2 ^ (64 - r)).
  { rewrite Z.mul_mod_idemp_l by lia. rewrite <- Z.mul_assoc, <- Z.pow_add_r by lia.
    replace (64 - r - 1 + 1) with (64 - r) by lia. rewrite HB. apply Z.mul_mod_distr_r; lia. }
  rewrite E1. rewrite Z.lor_comm, lor_disjoint.
  2: lia.
  2:{ split; [apply Z.div_pos; lia|]. apply Z.div_lt_upper_bound; [lia|]. rewrite <- HB. lia. }
  set (p := 2 ^ r) in *. set (t := 2 ^ (64 - r)) in *.
  pose proof (Z.div_mod x p ltac:(lia)) as Hdm. pose proof (Z.mod_pos_bound x p Hp) as Hm.
  assert (0 <= x / p) by (apply Z.div_pos; lia).
  assert (x / p < t) by (apply Z.div_lt_upper_bound; lia).
  split; [rewrite HB; nia|].
  exists (x mod p). repeat split; try lia; try (rewrite HB; nia).
Qed.

(* ---------- the carry chains ---------- *)
Lemma shl_loop_spec xs : forall r cin,
  0 <= r < 64 -> Forall inW xs -> 0 <= cin < 2 ^ r ->
  let '(out, c) := shl_loop xs r cin in
  length out = length xs /\ Forall inW out /\ 0 <= c < 2 ^ r /\
  eval out + B ^ Z.of_nat (length xs) * c = eval xs * 2 ^ r + cin.
Proof.
  induction xs as [|x xs IH]; intros r cin Hr Hw Hc.
  - cbn [shl_loop length eval]. rewrite Z.pow_0_r. repeat split; auto; lia.
  - inversion Hw as [|? ? Hx Hw']; subst. cbn [shl_loop].
    destruct (shl_step x r cin Hx Hr Hc) as (Hv & Hc1 & He).
    specialize (IH r _ Hr Hw' Hc1).
    destruct (shl_loop xs r (shr64 (shr64 x (64 - r - 1)) 1)) as [rs c2].
    destruct IH as (IHl & IHw & IHc & IHe).
    cbn [length eval]. rewrite Bn_S. repeat split; [lia | constructor; auto | lia | lia | nia].
Qed.

(* xs most significant limb first; the incoming carry is h * 2^(64-r) *)
Lemma shr_loop_spec xs : forall r h,
  0 <= r < 64 -> Forall inW xs -> 0 <= h < 2 ^ r ->
  let '(out, c) := shr_loop xs r (h * 2 ^ (64 - r)) in
  length out = length xs /\ Forall inW out /\
  exists h', c = h' * 2 ^ (64 - r) /\ 0 <= h' < 2 ^ r /\
    eval (rev out) * 2 ^ r + h' = eval (rev xs) + B ^ Z.of_nat (length xs) * h.
Proof.
  induction xs as [|x xs IH]; intros r h Hr Hw Hh.
  - cbn [shr_loop length eval rev]. rewrite Z.pow_0_r. repeat split; auto.
    exists h. repeat split; lia.
  - inversion Hw as [|? ? Hx Hw']; subst. cbn [shr_loop].
    destruct (shr_step x r h Hx Hr Hh) as (Hv & h1 & Hc1 & Hh1 & He).
    rewrite Hc1. specialize (IH r h1 Hr Hw' Hh1).
    destruct (shr_loop xs r (h1 * 2 ^ (64 - r))) as [rs c2].
    destruct IH as (IHl & IHw & h2 & Hc2 & Hh2 & IHe).
    cbn [length]. split; [lia|]. split; [constructor; auto|].
    exists h2. split; [exact Hc2|]. split; [exact Hh2|].
    cbn [rev]. rewrite !eval_app, !rev_length, IHl. cbn [eval]. rewrite Bn_S.
    pose proof (Bn_pos (length xs)). nia.
Qed.

(* ---------- Uint level ---------- *)
Lemma pow2_split s : 0 <= s -> 2 ^ s = B ^ (s / 64) * 2 ^ (s mod 64).
Proof.
  intros Hs. pose proof (Z.div_pos s 64 Hs ltac:(lia)). pose proof (Z.mod_pos_bound s 64 ltac:(lia)).
  rewrite B_pow, <- Z.pow_mul_r, <- Z.pow_add_r by lia. f_equal. apply Z.div_mod; lia.
Qed.

Lemma Bn_multiple bits :
  0 < bits -> exists k, 0 < k /\ B ^ nlimbs bits = 2 ^ bits * k.
Proof.
  intros H. pose proof (nlimbs_bounds bits H).
  exists (2 ^ (64 * nlimbs bits - bits)). split; [apply Z.pow_pos_nonneg; lia|].
  rewrite B_pow, <- Z.pow_mul_r, <- Z.pow_add_r by lia. f_equal. lia.
Qed.

(* an amount of at least 64*LIMBS bits is at least BITS *)
Lemma all_limbs_out bits s : 0 <= bits -> 0 <= s -> nlimbs bits <= s / 64 -> bits <= s.
Proof.
  intros H Hs Hq. destruct (Z.eq_dec bits 0); [lia|].
  pose proof (nlimbs_bounds bits ltac:(lia)). pose proof (Z.div_mod s 64 ltac:(lia)).
  pose proof (Z.mod_pos_bound s 64 ltac:(lia)). lia.
Qed.

Lemma mul_ge1 a b : 1 <= a -> 1 <= b -> 1 <= a * b.
Proof. intros. nia. Qed.
Lemma ge_of_multiple M R k K : 0 < M -> 0 <= R -> 1 <= k -> 1 <= K -> M <= R + M * k * K.
Proof. intros. pose proof (mul_ge1 k K). assert (M * 1 <= M * (k * K)) by (apply Z.mul_le_mono_nonneg_l; lia). lia. Qed.

Theorem overflowing_shl_spec bits a s :
  0 <= bits -> canon bits a -> 0 <= s ->
  let '(r, f) := overflowing_shl bits a s in
  canon bits r /\ eval r = (eval a * 2 ^ s) mod 2 ^ bits /\ f = (2 ^ bits <=? eval a * 2 ^ s).
Proof.
  intros H Ha Hs. pose proof (canon_range bits a H Ha) as Hv.
  pose proof (pow2_pos bits H) as HM.
  pose proof (Z.div_pos s 64 Hs ltac:(lia)) as Hq.
  pose proof (Z.mod_pos_bound s 64 ltac:(lia)) as Hr.
  pose proof (pow2_split s Hs) as H2s.
  unfold overflowing_shl.
  destruct (Z.leb_spec (nlimbs bits) (s / 64)) as [Hge|Hlt].
  - (* every limb leaves *)
    destruct (canon_uZERO bits H) as [Hz Hz0]. split; [exact Hz|].
    rewrite Hz0, ne_zero_spec by exact Ha.
    pose proof (all_limbs_out bits s H Hs Hge) as Hbs.
    assert (E : eval a * 2 ^ s = (eval a * 2 ^ (s - bits)) * 2 ^ bits).
    { rewrite <- Z.mul_assoc, <- Z.pow_add_r by lia. do 2 f_equal. lia. }
    pose proof (pow2_pos (s - bits) ltac:(lia)) as Hp.
    split.
    + rewrite E, Z.mod_mul by lia. reflexivity.
    + destruct (Z.eqb_spec (eval a) 0) as [E0|E0]; cbn [negb]; symmetry.
      * rewrite E0. apply Z.leb_gt. lia.
      * apply Z.leb_le. rewrite E.
        assert (1 <= eval a * 2 ^ (s - bits)) by nia.
        generalize dependent (eval a * 2 ^ (s - bits)). intros; nia.
  - set (q := s / 64) in *. set (r := s mod 64) in *.
    assert (Hb : 0 < bits).
    { destruct (Z.eq_dec bits 0) as [E0|]; [rewrite E0, nlimbs_0 in Hlt; lia | lia]. }
    destruct Ha as (Hl & Hw & _).
    set (nl := nlimbs bits) in *.
    assert (HlZ : Z.of_nat (length a) = nl) by (rewrite Hl; apply nlimbsN_Z; lia).
    set (n := Z.to_nat (nl - q)).
    assert (Hn : Z.of_nat n = nl - q) by (unfold n; lia).
    pose proof (firstn_skipn n a) as Hsplit.
    assert (Hlo : length (firstn n a) = n) by (apply firstn_length_le; lia).
    set (lo := firstn n a) in *. set (hi := skipn n a) in *.
    assert (Hwlh : Forall inW lo /\ Forall inW hi) by (apply Forall_app; rewrite Hsplit; exact Hw).
    destruct Hwlh as [Hwlo Hwhi].
    assert (Hea : eval a = eval lo + B ^ (nl - q) * eval hi)
      by (rewrite <- Hsplit, eval_app, Hlo, Hn; reflexivity).
    pose proof (pow2_pos r ltac:(lia)) as H2r.
    pose proof (shl_loop_spec lo r 0 Hr Hwlo ltac:(lia)) as L.
    destruct (shl_loop lo r 0) as [out c]. destruct L as (Lo & Lw & Lc & Le).
    rewrite Hlo, Hn in Le.
    set (R := repeat 0 (Z.to_nat q) ++ out).
    assert (HRl : length R = nlimbsN bits).
    { unfold R. rewrite app_length, repeat_length, Lo, Hlo. apply Nat2Z.inj.
      rewrite Nat2Z.inj_add, Hn, nlimbsN_Z by lia. fold nl. lia. }
    assert (HRw : Forall inW R) by (apply Forall_app; split; [apply Forall_inW_repeat0 | exact Lw]).
    assert (HRe : eval R = B ^ q * eval out).
    { unfold R. rewrite eval_app, eval_repeat0, repeat_length, Z2Nat.id by lia. ring. }
    pose proof (eval_bound hi Hwhi) as Hhi.
    assert (HBq : 0 < B ^ q) by (apply Z.pow_pos_nonneg; [apply B_pos | lia]).
    assert (HBnq : 0 < B ^ (nl - q)) by (apply Z.pow_pos_nonneg; [apply B_pos | lia]).
    assert (HBn : B ^ nl = B ^ q * B ^ (nl - q)) by (rewrite <- Z.pow_add_r by lia; f_equal; lia).
    set (K := c + 2 ^ r * eval hi).
    assert (HK : eval a * 2 ^ s = eval R + B ^ nl * K).
    { rewrite Hea, H2s, HRe, HBn. unfold K.
      replace (eval out) with (eval lo * 2 ^ r - B ^ (nl - q) * c) by lia. ring. }
    assert (HK0 : 0 <= K) by (unfold K; assert (0 <= 2 ^ r * eval hi) by (apply Z.mul_nonneg_nonneg; lia); lia).
    destruct (Bn_multiple bits Hb) as (k & Hk & HBk). fold nl in HBk.
    destruct (masked_spec bits R Hb HRl HRw) as [Mc Me].
    pose proof (last_gt_mask bits R Hb HRl HRw) as Lg.
    pose proof (eval_bound R HRw) as HRb. rewrite HRl, nlimbsN_Z in HRb by lia. fold nl in HRb.
    split; [exact Mc|]. split.
    + rewrite Me, HK, HBk.
      replace (eval R + 2 ^ bits * k * K) with (eval R + (k * K) * 2 ^ bits) by ring.
      rewrite Z.mod_add by lia. reflexivity.
    + rewrite Lg, (any_nz_spec hi Hwhi). unfold nz. rewrite HK.
      destruct (Z.eqb_spec c 0) as [Ec|Ec]; cbn [negb orb].
      * destruct (Z.eqb_spec (eval hi) 0) as [Eh|Eh]; cbn [negb orb].
        -- assert (EK : K = 0) by (unfold K; rewrite Ec, Eh; lia).
           rewrite EK, Z.mul_0_r, Z.add_0_r. reflexivity.
        -- symmetry. apply Z.leb_le.
           assert (1 <= K) by (unfold K; pose proof (mul_ge1 (2 ^ r) (eval hi)); lia).
           rewrite HBk. apply ge_of_multiple; lia.
      * symmetry. apply Z.leb_le.
        assert (0 <= 2 ^ r * eval hi) by (apply Z.mul_nonneg_nonneg; lia).
        assert (1 <= K) by (unfold K; lia).
        rewrite HBk. apply ge_of_multiple; lia.
Qed.

Theorem overflowing_shr_spec bits a s :
  0 <= bits -> canon bits a -> 0 <= s ->
  let '(r, f) := overflowing_shr bits a s in
  canon bits r /\ eval r = eval a / 2 ^ s /\ f = negb (eval a mod 2 ^ s =? 0).
Proof.
  intros H Ha Hs. pose proof (canon_range bits a H Ha) as Hv.
  pose proof (pow2_pos bits H) as HM.
  pose proof (Z.div_pos s 64 Hs ltac:(lia)) as Hq.
  pose proof (Z.mod_pos_bound s 64 ltac:(lia)) as Hr.
  pose proof (pow2_split s Hs) as H2s.
  unfold overflowing_shr.
  destruct (Z.leb_spec (nlimbs bits) (s / 64)) as [Hge|Hlt].
  - destruct (canon_uZERO bits H) as [Hz Hz0]. split; [exact Hz|].
    rewrite Hz0, ne_zero_spec by exact Ha.
    pose proof (all_limbs_out bits s H Hs Hge) as Hbs.
    assert (2 ^ bits <= 2 ^ s) by (apply Z.pow_le_mono_r; lia).
    rewrite Z.div_small, Z.mod_small by lia. split; reflexivity.
  - set (q := s / 64) in *. set (r := s mod 64) in *.
    assert (Hb : 0 < bits).
    { destruct (Z.eq_dec bits 0) as [E0|]; [rewrite E0, nlimbs_0 in Hlt; lia | lia]. }
    destruct Ha as (Hl & Hw & _).
    set (nl := nlimbs bits) in *.
    assert (HlZ : Z.of_nat (length a) = nl) by (rewrite Hl; apply nlimbsN_Z; lia).
    set (qn := Z.to_nat q).
    assert (Hqn : Z.of_nat qn = q) by (unfold qn; lia).
    pose proof (firstn_skipn qn a) as Hsplit.
    assert (Hlo : length (firstn qn a) = qn) by (apply firstn_length_le; lia).
    assert (Hhil : length (skipn qn a) = (length a - qn)%nat) by apply skipn_length.
    set (lo := firstn qn a) in *. set (hi := skipn qn a) in *.
    assert (Hwlh : Forall inW lo /\ Forall inW hi) by (apply Forall_app; rewrite Hsplit; exact Hw).
    destruct Hwlh as [Hwlo Hwhi].
    assert (Hea : eval a = eval lo + B ^ q * eval hi)
      by (rewrite <- Hsplit, eval_app, Hlo, Hqn; reflexivity).
    pose proof (pow2_pos r ltac:(lia)) as H2r.
    pose proof (pow2_pos (64 - r) ltac:(lia)) as H2t.
    pose proof (shr_loop_spec (rev hi) r 0 Hr ltac:(now apply Forall_rev) ltac:(lia)) as L.
    rewrite Z.mul_0_l in L.
    destruct (shr_loop (rev hi) r 0) as [out c].
    destruct L as (Lo & Lw & h' & Lc & Lh & Le).
    rewrite rev_involutive, Z.mul_0_r, Z.add_0_r in Le. rewrite rev_length in Lo.
    set (R := rev out ++ repeat 0 qn).
    assert (HRl : length R = nlimbsN bits).
    { unfold R. rewrite app_length, repeat_length, rev_length, Lo, Hhil. lia. }
    assert (HRw : Forall inW R)
      by (apply Forall_app; split; [now apply Forall_rev | apply Forall_inW_repeat0]).
    assert (HRe : eval R = eval (rev out)).
    { unfold R. rewrite eval_app, eval_repeat0. ring. }
    pose proof (eval_bound lo Hwlo) as Hlob. rewrite Hlo, Hqn in Hlob.
    pose proof (eval_bound (rev out) ltac:(now apply Forall_rev)) as Houtb.
    assert (HBq : 0 < B ^ q) by (apply Z.pow_pos_nonneg; [apply B_pos | lia]).
    set (rem := eval lo + B ^ q * h').
    assert (Hrem : 0 <= rem < 2 ^ s) by (unfold rem; rewrite H2s; nia).
    assert (HK : eval a = rem + 2 ^ s * eval (rev out)).
    { rewrite Hea, H2s, <- Le. unfold rem. ring. }
    destruct (div_mod_lin rem (eval (rev out)) (2 ^ s) Hrem) as [Em Ed].
    rewrite <- HK in Em, Ed.
    split; [|split].
    + unfold canon. split; [exact HRl|]. split; [exact HRw|]. rewrite HRe. nia.
    + rewrite HRe, Ed. reflexivity.
    + rewrite Em, (any_nz_spec lo Hwlo). unfold nz, rem. rewrite Lc.
      destruct (Z.eqb_spec (h' * 2 ^ (64 - r)) 0), (Z.eqb_spec (eval lo) 0),
        (Z.eqb_spec (eval lo + B ^ q * h') 0); cbn [negb orb]; try reflexivity; nia.
Qed.

(* ---------- corollaries: wrapping forms ---------- *)
Lemma wrapping_shl_spec bits a s :
  0 <= bits -> canon bits a -> 0 <= s ->
  canon bits (wrapping_shl bits a s) /\
  eval (wrapping_shl bits a s) = (eval a * 2 ^ s) mod 2 ^ bits.
Proof.
  intros H Ha Hs. unfold wrapping_shl. pose proof (overflowing_shl_spec bits a s H Ha Hs) as S.
  destruct (overflowing_shl bits a s) as [r f]. cbn [fst]. tauto.
Qed.
Lemma wrapping_shr_spec bits a s :
  0 <= bits -> canon bits a -> 0 <= s ->
  canon bits (wrapping_shr bits a s) /\ eval (wrapping_shr bits a s) = eval a / 2 ^ s.
Proof.
  intros H Ha Hs. unfold wrapping_shr. pose proof (overflowing_shr_spec bits a s H Ha Hs) as S.
  destruct (overflowing_shr bits a s) as [r f]. cbn [fst]. tauto.
Qed.

(* ---------- pure arithmetic used by several callers ---------- *)
Lemma shl_all_out v bits s : 0 <= bits <= s -> (v * 2 ^ s) mod 2 ^ bits = 0.
Proof.
  intros H. replace (v * 2 ^ s) with ((v * 2 ^ (s - bits)) * 2 ^ bits).
  - apply Z.mod_mul. pose proof (pow2_pos bits); lia.
  - rewrite <- Z.mul_assoc, <- Z.pow_add_r by lia. do 2 f_equal. lia.
Qed.

Lemma shr_all_out v bits s : 0 <= bits <= s -> 0 <= v < 2 ^ bits -> v / 2 ^ s = 0 /\ v mod 2 ^ s = v.
Proof.
  intros H Hv. assert (2 ^ bits <= 2 ^ s) by (apply Z.pow_le_mono_r; lia).
  split; [apply Z.div_small | apply Z.mod_small]; lia.
Qed.

Lemma pow2_add a b : 0 <= a -> 0 <= b -> 2 ^ (a + b) = 2 ^ a * 2 ^ b.
Proof. intros. apply Z.pow_add_r; lia. Qed.

(* sign fill: floor((v - M) / 2^s) mod M = M - 2^u + v / 2^s with u = max 0 (bits - s) *)
Lemma ashr_fill v bits s :
  0 <= bits -> 0 <= s -> 0 <= v < 2 ^ bits ->
  let u := Z.max 0 (bits - s) in
  0 <= v / 2 ^ s < 2 ^ u /\
  ((v - 2 ^ bits) / 2 ^ s) mod 2 ^ bits = 2 ^ bits - 2 ^ u + v / 2 ^ s.
Proof.
  intros H Hs Hv. cbv zeta. pose proof (pow2_pos bits H) as HM. pose proof (pow2_pos s Hs) as HS.
  destruct (Z.le_gt_cases s bits) as [Hle|Hgt].
  - replace (Z.max 0 (bits - s)) with (bits - s) by lia.
    pose proof (pow2_pos (bits - s) ltac:(lia)) as HU.
    assert (EM : 2 ^ bits = 2 ^ (bits - s) * 2 ^ s) by (rewrite <- pow2_add by lia; f_equal; lia).
    assert (Hd : 0 <= v / 2 ^ s < 2 ^ (bits - s)).
    { split; [apply Z.div_pos; lia|]. apply Z.div_lt_upper_bound; lia. }
    split; [exact Hd|].
    replace (v - 2 ^ bits) with (v + (- 2 ^ (bits - s)) * 2 ^ s) by (rewrite EM; ring).
    rewrite Z.div_add by lia.
    assert (2 ^ (bits - s) <= 2 ^ bits) by (apply Z.pow_le_mono_r; lia).
    symmetry. apply Z.mod_unique with (q := -1); lia.
  - replace (Z.max 0 (bits - s)) with 0 by lia. rewrite Z.pow_0_r.
    destruct (shr_all_out v bits s ltac:(lia) Hv) as [E0 _]. rewrite E0.
    assert (2 ^ bits <= 2 ^ s) by (apply Z.pow_le_mono_r; lia).
    split; [lia|].
    assert (E1 : (v - 2 ^ bits) / 2 ^ s = -1).
    { symmetry. apply Z.div_unique with (r := v - 2 ^ bits + 2 ^ s); lia. }
    rewrite E1. symmetry. apply Z.mod_unique with (q := -1); lia.
Qed.

(* rotation: the two halves do not overlap *)
Lemma rot_disjoint v bits r :
  0 <= r <= bits -> 0 <= v < 2 ^ bits ->
  let A := (v * 2 ^ r) mod 2 ^ bits in
  let C := v / 2 ^ (bits - r) in
  Z.lor A C = A + C /\ 0 <= A + C < 2 ^ bits.
Proof.
  intros Hr Hv. cbv zeta.
  pose proof (pow2_pos r ltac:(lia)) as HR. pose proof (pow2_pos (bits - r) ltac:(lia)) as HT.
  assert (EM : 2 ^ bits = 2 ^ (bits - r) * 2 ^ r) by (rewrite <- pow2_add by lia; f_equal; lia).
  assert (EA : (v * 2 ^ r) mod 2 ^ bits = (v mod 2 ^ (bits - r)) * 2 ^ r)
    by (rewrite EM; apply Z.mul_mod_distr_r; lia).
  assert (HC : 0 <= v / 2 ^ (bits - r) < 2 ^ r).
  { split; [apply Z.div_pos; lia|]. apply Z.div_lt_upper_bound; lia. }
  pose proof (Z.mod_pos_bound v (2 ^ (bits - r)) HT) as Hm.
  rewrite EA. split; [apply lor_disjoint; lia|].
  rewrite EM. set (t := 2 ^ (bits - r)) in *. set (p := 2 ^ r) in *.
  generalize dependent (v mod t). generalize dependent (v / t). intros; nia.
Qed.

(* ---------- the sign bit ---------- *)
Lemma land_pow2_testbit x j : 0 <= j -> nz (Z.land x (2 ^ j)) = Z.testbit x j.
Proof.
  intros Hj. unfold nz. destruct (Z.testbit x j) eqn:T.
  - assert (E : Z.land x (2 ^ j) = 2 ^ j).
    { apply Z.bits_inj'. intros n Hn. rewrite Z.land_spec, Z.pow2_bits_eqb by lia.
      destruct (Z.eqb_spec j n) as [<-|]; [now rewrite T | apply andb_false_r]. }
    rewrite E. pose proof (pow2_pos j Hj). destruct (Z.eqb_spec (2 ^ j) 0); [lia | reflexivity].
  - assert (E : Z.land x (2 ^ j) = 0).
    { apply Z.bits_inj'. intros n Hn. rewrite Z.land_spec, Z.pow2_bits_eqb, Z.bits_0 by lia.
      destruct (Z.eqb_spec j n) as [<-|]; [now rewrite T | apply andb_false_r]. }
    rewrite E. reflexivity.
Qed.

Lemma bit_top bits a :
  0 < bits -> canon bits a -> bit bits a (bits - 1) = Z.testbit (eval a) (bits - 1).
Proof.
  intros Hb (Hl & Hw & _). unfold bit.
  destruct (Z.leb_spec bits (bits - 1)); [lia|].
  destruct (canon_len_split bits a Hb Hl) as (i & x & -> & Hi).
  apply Forall_app in Hw. destruct Hw as [Hwi Hwx]. inversion Hwx as [|? ? Hx _]; subst.
  pose proof (nlimbs_pos bits Hb) as Hn.
  assert (Eq : (bits - 1) / 64 = nlimbs bits - 1).
  { unfold nlimbs. replace (bits + 63) with (bits - 1 + 1 * 64) by lia.
    rewrite Z.div_add by lia. lia. }
  pose proof (Z.mod_pos_bound (bits - 1) 64 ltac:(lia)) as Hj.
  pose proof (Z.div_mod (bits - 1) 64 ltac:(lia)) as Hdm. rewrite Eq in Hdm.
  set (j := (bits - 1) mod 64) in *.
  rewrite Eq, <- Hi, Nat2Z.id, app_nth2, Nat.sub_diag by lia. cbn [nth].
  assert (E1 : shl64 1 j = 2 ^ j).
  { unfold shl64. rewrite Z.mul_1_l, B_pow. apply Z.mod_small. split; [pose proof (pow2_pos j); lia|].
    apply Z.pow_lt_mono_r; lia. }
  rewrite E1, land_pow2_testbit by lia.
  rewrite eval_app. cbn [eval]. rewrite Z.mul_0_r, Z.add_0_r.
  replace (bits - 1) with (j + 64 * Z.of_nat (length i)) by lia.
  rewrite <- Z.div_pow2_bits by lia. rewrite <- Bn_pow2.
  pose proof (eval_bound i Hwi) as Hbi.
  destruct (div_mod_lin (eval i) x (B ^ Z.of_nat (length i)) Hbi) as [_ ->]. reflexivity.
Qed.

(* ---------- arithmetic_shr, rotations ---------- *)
Theorem arithmetic_shr_spec bits a s :
  0 < bits -> canon bits a -> 0 <= s ->
  canon bits (arithmetic_shr bits a s) /\
  eval (arithmetic_shr bits a s) =
    if Z.testbit (eval a) (bits - 1) then ((eval a - 2 ^ bits) / 2 ^ s) mod 2 ^ bits
    else eval a / 2 ^ s.
Proof.
  intros Hb Ha Hs. unfold arithmetic_shr, shr_prim, shl_prim.
  destruct (Z.eqb_spec bits 0); [lia|]. rewrite bit_top by auto.
  pose proof (canon_range bits a ltac:(lia) Ha) as Hv.
  destruct (wrapping_shr_spec bits a s ltac:(lia) Ha Hs) as [Rc Re].
  destruct (Z.testbit (eval a) (bits - 1)); [|split; assumption].
  destruct (canon_uMAX bits ltac:(lia)) as [Mc Me].
  set (u := Z.max 0 (bits - s)).
  destruct (wrapping_shl_spec bits (uMAX bits) u ltac:(lia) Mc ltac:(lia)) as [Fc Fe].
  rewrite Me in Fe.
  destruct Rc as (Rl & Rw & Rlt). destruct Fc as (Fl & Fw & Flt).
  destruct (bitor_spec (wrapping_shr bits a s) (wrapping_shl bits (uMAX bits) u)
              ltac:(congruence) Rw Fw) as (Ol & Ow & Oe).
  destruct (ashr_fill (eval a) bits s ltac:(lia) Hs Hv) as [Hd Hfill]. fold u in Hd, Hfill.
  pose proof (pow2_pos u ltac:(lia)) as HU. pose proof (pow2_pos bits ltac:(lia)) as HM.
  assert (EM : 2 ^ bits = 2 ^ (bits - u) * 2 ^ u) by (rewrite <- pow2_add by lia; f_equal; lia).
  pose proof (pow2_pos (bits - u) ltac:(lia)) as HMu.
  assert (EF : ((2 ^ bits - 1) * 2 ^ u) mod 2 ^ bits = (2 ^ (bits - u) - 1) * 2 ^ u).
  { symmetry. apply Z.mod_unique with (q := 2 ^ u - 1); [left; nia | rewrite EM; ring]. }
  assert (EV : eval (bitor (wrapping_shr bits a s) (wrapping_shl bits (uMAX bits) u))
               = 2 ^ bits - 2 ^ u + eval a / 2 ^ s).
  { rewrite Oe, Re, Fe, EF, Z.lor_comm, lor_disjoint by lia. rewrite EM. ring. }
  split.
  - unfold canon. split; [congruence|]. split; [exact Ow|]. rewrite EV. lia.
  - rewrite EV, Hfill. reflexivity.
Qed.

Theorem rotate_left_spec bits a s :
  0 < bits -> canon bits a -> 0 <= s ->
  let r := s mod bits in
  canon bits (rotate_left bits a s) /\
  eval (rotate_left bits a s) = (eval a * 2 ^ r) mod 2 ^ bits + eval a / 2 ^ (bits - r).
Proof.
  intros Hb Ha Hs. cbv zeta. unfold rotate_left, shr_prim, shl_prim.
  destruct (Z.eqb_spec bits 0); [lia|].
  pose proof (Z.mod_pos_bound s bits Hb) as Hr. set (r := s mod bits) in *.
  pose proof (canon_range bits a ltac:(lia) Ha) as Hv.
  destruct (wrapping_shl_spec bits a r ltac:(lia) Ha ltac:(lia)) as [(Ll & Lw & _) Le].
  destruct (wrapping_shr_spec bits a (bits - r) ltac:(lia) Ha ltac:(lia)) as [(Rl & Rw & _) Re].
  destruct (bitor_spec (wrapping_shl bits a r) (wrapping_shr bits a (bits - r))
              ltac:(congruence) Lw Rw) as (Ol & Ow & Oe).
  destruct (rot_disjoint (eval a) bits r ltac:(lia) Hv) as [Ed Er].
  rewrite Oe, Le, Re, Ed. split; [|reflexivity].
  unfold canon. split; [congruence|]. split; [exact Ow|]. rewrite Oe, Le, Re, Ed. lia.
Qed.

Theorem rotate_right_spec bits a s :
  0 < bits -> canon bits a -> 0 <= s ->
  let r := s mod bits in
  canon bits (rotate_right bits a s) /\
  eval (rotate_right bits a s) = eval a / 2 ^ r + (eval a * 2 ^ (bits - r)) mod 2 ^ bits.
Proof.
  intros Hb Ha Hs. cbv zeta. unfold rotate_right.
  destruct (Z.eqb_spec bits 0); [lia|].
  pose proof (Z.mod_pos_bound s bits Hb) as Hr. set (r := s mod bits) in *.
  pose proof (canon_range bits a ltac:(lia) Ha) as Hv.
  destruct (rotate_left_spec bits a (bits - r) Hb Ha ltac:(lia)) as [Lc Le].
  split; [exact Lc|]. rewrite Le.
  destruct (Z.eq_dec r 0) as [E0|N0].
  - rewrite E0, Z.sub_0_r, Z.mod_same, Z.pow_0_r, Z.sub_0_r, Z.mul_1_r, Z.div_1_r by lia.
    rewrite Z.mod_mul by (pose proof (pow2_pos bits); lia).
    rewrite Z.mod_small, Z.div_small by lia. ring.
  - rewrite (Z.mod_small (bits - r) bits) by lia.
    replace (bits - (bits - r)) with r by lia. ring.
Qed.

(* ---------- Uint-typed amounts (BITS is a usize: bits < 2^64) ---------- *)
Lemma uint_amount bits k :
  0 < bits < 2 ^ 64 -> canon bits k ->
  (any_nz (skipn 1 k) = true /\ bits <= eval k) \/
  (any_nz (skipn 1 k) = false /\ eval k = nth 0 k 0 /\ 0 <= eval k).
Proof.
  intros Hb (Hl & Hw & _). destruct k as [|k0 kt].
  - exfalso. pose proof (nlimbs_pos bits ltac:(lia)). unfold nlimbsN in Hl. cbn [length] in Hl. lia.
  - cbn [skipn nth eval]. inversion Hw as [|? ? H0 Ht]; subst.
    rewrite (any_nz_spec kt Ht). pose proof (eval_bound kt Ht) as Hk. unfold inW in H0.
    rewrite <- B_pow in Hb. pose proof B_pos.
    destruct (Z.eqb_spec (eval kt) 0) as [E|E]; cbn [negb]; [right | left]; split; auto.
    + rewrite E. lia.
    + nia.
Qed.

Theorem shl_uint_spec bits a k :
  0 <= bits < 2 ^ 64 -> canon bits a -> canon bits k ->
  canon bits (shl_uint bits a k) /\
  eval (shl_uint bits a k) = (eval a * 2 ^ eval k) mod 2 ^ bits.
Proof.
  intros Hb Ha Hk. unfold shl_uint. destruct (Z.eqb_spec bits 0) as [E0|N0].
  - split; [exact Ha|]. subst bits. rewrite (canon_zero_width a Ha). cbn [eval].
    now rewrite Z.pow_0_r, Z.mod_1_r.
  - destruct (uint_amount bits k ltac:(lia) Hk) as [[-> Hbig]|[-> [E Hk0]]].
    + destruct (canon_uZERO bits ltac:(lia)) as [Hz Hz0]. split; [exact Hz|].
      rewrite Hz0, shl_all_out by lia. reflexivity.
    + rewrite <- E. apply wrapping_shl_spec; auto; lia.
Qed.

Theorem shr_uint_spec bits a k :
  0 <= bits < 2 ^ 64 -> canon bits a -> canon bits k ->
  canon bits (shr_uint bits a k) /\ eval (shr_uint bits a k) = eval a / 2 ^ eval k.
Proof.
  intros Hb Ha Hk. unfold shr_uint. destruct (Z.eqb_spec bits 0) as [E0|N0].
  - split; [exact Ha|]. subst bits. rewrite (canon_zero_width a Ha). cbn [eval]. reflexivity.
  - pose proof (canon_range bits a ltac:(lia) Ha) as Hv.
    destruct (uint_amount bits k ltac:(lia) Hk) as [[-> Hbig]|[-> [E Hk0]]].
    + destruct (canon_uZERO bits ltac:(lia)) as [Hz Hz0]. split; [exact Hz|].
      destruct (shr_all_out (eval a) bits (eval k) ltac:(lia) Hv) as [-> _]. exact Hz0.
    + rewrite <- E. apply wrapping_shr_spec; auto; lia.
Qed.
