(* Proofs/PfC17C.v — C17, group C: every decoder call of RunC17C meets its specification:
   no panic on any input, Ok exactly the integer the input denotes when it is < 2^BITS,
   an error otherwise. *)
From Coq Require Import ZArith List Bool Lia.
From RV.Model Require Import Base Word.
From RV.Model Require Bytes Conv BaseConv Str Fmt Float CodecC.
From RV.Spec Require FmtC.
From RV.Run Require RunC09 RunC18 RunC16C RunC17C.
From RV.Proofs Require Import BaseFacts.
From RV.Proofs Require PfBytes PfConv PfPositional PfBaseConv PfStr PfFmt PfC09 PfFloat PfFloatUint.
From RV.Proofs Require Import PfCodecC PfCodecCBits PfCodecCNum PfCodecCText.
Import BaseConv(res, Ok, Err).
Import RunC17C.

Definition T := RunC16C.fsres_toks.

(* ---------- integers ---------- *)
Lemma lift_uint_spec bits x o :
  0 <= bits ->
  o = Val (if x <? 0 then Conv.RNegative bits (uint_of bits ((x mod 2 ^ 64) mod 2 ^ bits))
           else PfConv.res_of bits x) \/
  (exists y, o = Val (if x <? 0 then Conv.RNegative bits y else PfConv.res_of bits x)) ->
  exists r, CodecC.lift_uint o = Val r
    /\ spec_value bits (if x <? 0 then None else Some x) (Val (T r)) = true.
Proof.
  intros Hb Ho.
  assert (Ho' : exists y, o = Val (if x <? 0 then Conv.RNegative bits y else PfConv.res_of bits x)).
  { destruct Ho as [->|H]; [eexists; reflexivity|exact H]. }
  destruct Ho' as (y & ->). unfold CodecC.lift_uint. cbn [obind].
  destruct (Z.ltb_spec x 0).
  - eexists. split; reflexivity.
  - unfold PfConv.res_of, spec_value. destruct (Z.ltb_spec x (2 ^ bits)); cbn [CodecC.of_to_res].
    + eexists. split; [reflexivity|]. apply expect_refl.
    + eexists. split; reflexivity.
Qed.

Section IntTypes.
  Variables (bits w : Z) (sgn : bool).
  Hypothesis Hb : 0 <= bits.
  Hypothesis Hw : w = 16 \/ w = 32 \/ w = 64.
  Let p := {| Conv.pw := w; Conv.psigned := sgn |}.

  Lemma int_value raw : Forall Bytes.isbyte raw -> lenZ raw = w / 8 ->
    let u := FmtC.be_value raw in
    0 <= u < 2 ^ w /\ Conv.cast p (CodecC.be_uval raw) = (if sgn then FmtC.signed w u else u).
  Proof.
    intros Hby Hl u. pose proof (be_value_range raw Hby) as Hu. fold u in Hu. rewrite Hl in Hu.
    assert (E : 256 ^ (w / 8) = 2 ^ w) by (destruct Hw as [->|[->| ->]]; reflexivity).
    rewrite E in Hu. split; [exact Hu|]. rewrite be_uval_spec. fold u. unfold p.
    destruct sgn; [apply cast_signed|apply cast_unsigned]; lia.
  Qed.

  Lemma signed_range u : 0 <= u < 2 ^ w -> - 2 ^ (w - 1) <= FmtC.signed w u < 2 ^ (w - 1).
  Proof.
    intros Hu. unfold FmtC.signed.
    assert (E : 2 ^ w = 2 * 2 ^ (w - 1)).
    { replace w with (Z.succ (w - 1)) at 1 by lia. rewrite Z.pow_succ_r; lia. }
    destruct (Z.ltb_spec u (2 ^ (w - 1))); lia.
  Qed.

  (* an integer column: fixed length, two's complement; the map f is applied to the raw value
     (identity, or the floor division by 100 of MONEY) *)
  Lemma int_from_sql raw (f : Z -> Z) :
    Forall Bytes.isbyte raw ->
    (forall x, Conv.prim_min p <= x <= Conv.prim_max p ->
               Conv.prim_min p <= f x <= Conv.prim_max p /\ (f x < 0 <-> x < 0)) ->
    exists r,
      match CodecC.int_from_be p raw with
      | Ok x => CodecC.lift_uint (Conv.try_from_prim bits p (f x))
      | Err e => Val (Err e)
      end = Val r
      /\ spec_value bits
           (if lenZ raw =? w / 8 then
              let u := FmtC.be_value raw in
              let s := if sgn then FmtC.signed w u else u in
              if s <? 0 then None else Some (f s)
            else None) (Val (T r)) = true.
  Proof.
    intros Hby Hf. unfold CodecC.int_from_be. cbn [Conv.pw p].
    destruct (Z.eqb_spec (lenZ raw) (w / 8)) as [Hl|Hl].
    2: { eexists. split; reflexivity. }
    destruct (int_value raw Hby Hl) as [Hu Hc]. cbn zeta in *. rewrite Hc.
    set (s := if sgn then FmtC.signed w (FmtC.be_value raw) else FmtC.be_value raw).
    assert (Hs : Conv.prim_min p <= s <= Conv.prim_max p).
    { unfold Conv.prim_min, Conv.prim_max, s, p. cbn [Conv.pw Conv.psigned].
      destruct sgn; [pose proof (signed_range _ Hu); lia|lia]. }
    destruct (Hf s Hs) as [Hfr Hfs].
    destruct (lift_uint_spec bits (f s) (Conv.try_from_prim bits p (f s)) Hb) as (r & E & S).
    { right. rewrite PfConv.try_from_prim_spec; [eexists; reflexivity|lia|cbn; lia|cbn; lia|exact Hfr]. }
    exists r. split; [exact E|].
    destruct (Z.ltb_spec s 0), (Z.ltb_spec (f s) 0); try lia; exact S.
  Qed.
End IntTypes.

Lemma id_ok (p : Conv.prim) : forall x, Conv.prim_min p <= x <= Conv.prim_max p ->
  Conv.prim_min p <= (fun y => y) x <= Conv.prim_max p /\ ((fun y => y) x < 0 <-> x < 0).
Proof. intros. cbn beta. lia. Qed.

(* ---------- floats ---------- *)
Lemma float_from_sql bits prec emax x o :
  0 <= bits -> o = Val (PfFloat.res_of_class bits (RunC18.classify prec emax x)) ->
  exists r, CodecC.lift_float o = Val r
    /\ spec_value bits (match RunC18.classify prec emax x with RunC18.FPos v => Some v | _ => None end)
         (Val (T r)) = true.
Proof.
  intros Hb ->. unfold CodecC.lift_float. cbn [obind].
  destruct (RunC18.classify prec emax x) as [|n| |n|]; cbn [PfFloat.res_of_class CodecC.of_float_res];
    try (eexists; split; reflexivity).
  unfold spec_value. destruct (Z.ltb_spec n (2 ^ bits)); cbn [CodecC.of_float_res].
  - eexists. split; [reflexivity|]. apply expect_refl.
  - eexists. split; reflexivity.
Qed.

(* ---------- byte strings ---------- *)
Lemma be_slice_from_sql bits raw :
  0 <= bits -> Forall Bytes.isbyte raw ->
  exists r,
    (do o <- Bytes.try_from_be_slice bits raw ;
     match o with Some v => Val (Ok v) | None => Val (Err CodecC.FSOverflow) end) = Val r
    /\ spec_value bits (if lenZ raw <=? FmtC.SBYTES bits then Some (FmtC.be_value raw) else None)
         (Val (T r)) = true.
Proof.
  intros Hb Hby. rewrite PfBytes.try_from_be_slice_spec by assumption. cbn [obind].
  rewrite <- be_value_spec. change (FmtC.SBYTES bits) with (Bytes.nbytes bits).
  destruct (Z.leb_spec (lenZ raw) (Bytes.nbytes bits)); cbn [andb].
  - unfold spec_value. destruct (Z.ltb_spec (FmtC.be_value raw) (2 ^ bits)).
    + eexists. split; [reflexivity|]. apply expect_refl.
    + eexists. split; reflexivity.
  - eexists. split; reflexivity.
Qed.

Lemma slice_to_firstn l n : 0 <= n <= lenZ l -> Bytes.slice_to l n = Val (firstn (Z.to_nat n) l).
Proof.
  intros H. unfold Bytes.slice_to. destruct (Z.leb_spec 0 n); [|lia].
  destruct (Z.leb_spec n (lenZ l)); [reflexivity|lia].
Qed.
Lemma slice_from_skipn l n : 0 <= n <= lenZ l -> Bytes.slice_from l n = Val (skipn (Z.to_nat n) l).
Proof.
  intros H. unfold Bytes.slice_from. destruct (Z.leb_spec 0 n); [|lia].
  destruct (Z.leb_spec n (lenZ l)); [reflexivity|lia].
Qed.

Lemma bit_from_sql bits raw :
  0 <= bits -> Forall Bytes.isbyte raw ->
  exists r,
    (if lenZ raw <? 4 then Val (Err CodecC.FSParse)
     else
      do h <- Bytes.slice_to raw 4 ;
      let len := Conv.cast CodecC.p_i32 (CodecC.be_uval h) in
      if len <? 0 then Val (Err CodecC.FSInt)
      else
        do raw <- Bytes.slice_from raw 4 ;
        if negb (lenZ raw =? (len + 7) / 8) then Val (Err CodecC.FSParse)
        else
          do r <- CodecC.rem_up len 8 ;
          do padding <- Bytes.usub 8 r ;
          do raw <- (if 0 <? padding then
                       do raw <- CodecC.unshift_loop (length raw - 1) raw padding ;
                       do r0 <- Bytes.idx raw 0 ;
                       do r0 <- CodecC.shr8 r0 padding ;
                       Bytes.upd raw 0 r0
                     else Val raw) ;
          do o <- Bytes.try_from_be_slice bits raw ;
          match o with Some v => Val (Ok v) | None => Val (Err CodecC.FSOverflow) end) = Val r
    /\ spec_value bits (FmtC.bit_denotes bits raw) (Val (T r)) = true.
Proof.
  intros Hb Hby. unfold FmtC.bit_denotes.
  destruct (Z.ltb_spec (lenZ raw) 4) as [|Hlen]; [eexists; split; reflexivity|].
  rewrite slice_to_firstn by lia. cbn [obind]. change (Z.to_nat 4) with 4%nat.
  set (h := firstn 4 raw). set (payload := skipn 4 raw).
  assert (Hh : Forall Bytes.isbyte h) by (apply PfBytes.Forall_firstn'; assumption).
  assert (Hp : Forall Bytes.isbyte payload) by (apply PfBytes.Forall_skipn'; assumption).
  assert (Hlh : lenZ h = 4).
  { unfold h, lenZ in *. rewrite firstn_length. lia. }
  pose proof (be_value_range h Hh) as Hu. rewrite Hlh in Hu. change (256 ^ 4) with (2 ^ 32) in Hu.
  assert (EL : Conv.cast CodecC.p_i32 (CodecC.be_uval h) = FmtC.signed 32 (FmtC.be_value h)).
  { rewrite be_uval_spec. apply (cast_signed 32); lia. }
  cbn zeta. rewrite EL. set (L := FmtC.signed 32 (FmtC.be_value h)).
  destruct (Z.ltb_spec L 0) as [|HL]; [eexists; split; reflexivity|].
  rewrite slice_from_skipn by lia. cbn [obind]. change (Z.to_nat 4) with 4%nat. fold payload.
  destruct (Z.eqb_spec (lenZ payload) ((L + 7) / 8)) as [Hpl|]; cbn [negb];
    [|eexists; split; reflexivity].
  (* padding = 8 * payload length - L *)
  set (pad := 8 * lenZ payload - L).
  assert (Hpad : 0 <= pad < 8) by (unfold pad; rewrite Hpl; Z.div_mod_to_equations; lia).
  assert (Er : (do r <- CodecC.rem_up L 8 ; Bytes.usub 8 r) = Val pad).
  { unfold CodecC.rem_up. cbn [Z.eqb]. unfold pad. rewrite Hpl.
    destruct (Z.ltb_spec 0 (L mod 8)); cbn [obind]; unfold Bytes.usub.
    - destruct (Z.ltb_spec 8 (L mod 8)); [Z.div_mod_to_equations; lia|]. f_equal.
      Z.div_mod_to_equations; lia.
    - cbn [Z.ltb Z.compare Pos.compare Pos.compare_cont]. f_equal. Z.div_mod_to_equations; lia. }
  destruct (CodecC.rem_up L 8) as [r0| | | |] eqn:Eru; cbn [obind] in Er; try discriminate.
  cbn [obind]. rewrite Er. cbn [obind].
  destruct (unshift_spec pad payload Hpad Hp) as (raw' & E' & Hl' & Hb' & Hv').
  { intros Hpos Hnil. unfold pad in Hpos. rewrite Hnil in *. unfold lenZ in *. cbn in *.
    revert Hpos Hpl. Z.div_mod_to_equations. lia. }
  rewrite E'. cbn [obind].
  destruct (be_slice_from_sql bits raw' Hb Hb') as (r & E & S). exists r. split; [exact E|].
  assert (Hll : lenZ raw' = lenZ payload) by (unfold lenZ; now rewrite Hl').
  rewrite Hll, Hv' in S. fold pad. rewrite Z.shiftr_div_pow2 by lia.
  destruct (Z.leb_spec (lenZ payload) (FmtC.SBYTES bits)); cbn [negb]; exact S.
Qed.

(* ---------- text ---------- *)
Lemma text_from_sql bits raw (quoted : bool) :
  0 <= bits ->
  exists r,
    match Str.utf8_decode raw with
    | None => Val (Err CodecC.FSUtf8)
    | Some cs => if quoted then (do cs <- CodecC.strip_quotes cs ; CodecC.from_str_res bits cs)
                 else CodecC.from_str_res bits cs
    end = Val r
    /\ spec_utf8 bits raw quoted (Val (T r)) = true.
Proof.
  intros Hb. unfold spec_utf8. destruct (Str.utf8_decode raw) as [cs|].
  2: { eexists. split; reflexivity. }
  destruct quoted.
  - rewrite strip_quotes_spec. cbn [obind]. apply from_str_res_spec, Hb.
  - apply from_str_res_spec, Hb.
Qed.

(* ---------- FromSql::from_sql, every column type ---------- *)
Theorem pg_from_sql_ok bits ty raw :
  0 <= bits -> Forall Bytes.isbyte raw ->
  exists r, CodecC.pg_from_sql bits ty raw = Val r /\ spec_pg bits ty raw (Val (T r)) = true.
Proof.
  intros Hb Hby.
  destruct (Z.eq_dec ty 16) as [->|N16].
  { destruct (numeric_from_sql bits raw Hb Hby) as (r & E & S). exists r. split; [exact E|exact S]. }
  unfold CodecC.pg_from_sql, spec_pg, FmtC.is_text.
  unfold CodecC.ty_BOOL, CodecC.ty_INT2, CodecC.ty_INT4, CodecC.ty_OID, CodecC.ty_INT8,
    CodecC.ty_FLOAT4, CodecC.ty_FLOAT8, CodecC.ty_MONEY, CodecC.ty_BYTEA, CodecC.ty_BIT,
    CodecC.ty_VARBIT, CodecC.ty_CHAR, CodecC.ty_TEXT, CodecC.ty_VARCHAR, CodecC.ty_JSON,
    CodecC.ty_JSONB, CodecC.ty_NUMERIC,
    FmtC.BOOL, FmtC.INT2, FmtC.INT4, FmtC.OID, FmtC.INT8, FmtC.FLOAT4, FmtC.FLOAT8, FmtC.MONEY,
    FmtC.BYTEA, FmtC.BIT, FmtC.VARBIT, FmtC.CHAR, FmtC.TEXT, FmtC.VARCHAR, FmtC.JSON, FmtC.JSONB,
    FmtC.NUMERIC.
  destruct (Z.eqb_spec ty 0) as [->|N0].
  { (* BOOL *)
    destruct raw as [|b t]; [eexists; split; reflexivity|].
    destruct b as [|[q|q|]|q]; destruct t; try (eexists; split; reflexivity).
    - eexists. split; [reflexivity|]. cbn [spec_value T RunC16C.fsres_toks].
      assert (0 < 2 ^ bits) by (apply Z.pow_pos_nonneg; lia).
      destruct (Z.ltb_spec 0 (2 ^ bits)); [|lia]. unfold U. rewrite PfFloatUint.uint_of_0 by lia.
      apply expect_refl.
    - destruct (lift_uint_spec bits 1 (Conv.try_from_prim bits CodecC.p_i32 1) Hb) as (r & E & S).
      { right. rewrite PfConv.try_from_prim_spec; [eexists; reflexivity|lia|cbn; lia|cbn; lia|cbn; lia]. }
      exists r. split; [exact E|exact S]. }
  destruct (Z.eqb_spec ty 1) as [->|N1].
  { destruct (int_from_sql bits 16 true Hb ltac:(lia) raw (fun y => y) Hby (id_ok _)) as (r & E & S).
    exists r. split; [exact E|]. unfold FmtC.int_denotes. exact S. }
  destruct (Z.eqb_spec ty 2) as [->|N2].
  { destruct (int_from_sql bits 32 true Hb ltac:(lia) raw (fun y => y) Hby (id_ok _)) as (r & E & S).
    exists r. split; [exact E|]. unfold FmtC.int_denotes. exact S. }
  destruct (Z.eqb_spec ty 3) as [->|N3].
  { destruct (int_from_sql bits 32 false Hb ltac:(lia) raw (fun y => y) Hby (id_ok _)) as (r & E & S).
    exists r. split; [exact E|]. unfold FmtC.int_denotes. exact S. }
  destruct (Z.eqb_spec ty 4) as [->|N4].
  { destruct (int_from_sql bits 64 true Hb ltac:(lia) raw (fun y => y) Hby (id_ok _)) as (r & E & S).
    exists r. split; [exact E|]. unfold FmtC.int_denotes. exact S. }
  destruct (Z.eqb_spec ty 5) as [->|N5].
  { unfold FmtC.float_denotes. destruct (Z.eqb_spec (lenZ raw) 4); [|eexists; split; reflexivity].
    rewrite be_uval_spec. apply float_from_sql; [exact Hb|].
    apply PfFloat.uint_try_from_f32_spec; [exact Hb|]. apply be_value_range, Hby. }
  destruct (Z.eqb_spec ty 6) as [->|N6].
  { unfold FmtC.float_denotes. destruct (Z.eqb_spec (lenZ raw) 8); [|eexists; split; reflexivity].
    rewrite be_uval_spec. apply float_from_sql; [exact Hb|].
    apply PfFloat.uint_try_from_f64_spec; [exact Hb|]. apply be_value_range, Hby. }
  destruct (Z.eqb_spec ty 7) as [->|N7].
  { (* MONEY: floor division by 100 *)
    destruct (int_from_sql bits 64 true Hb ltac:(lia) raw (fun y => y / 100) Hby) as (r & E & S).
    { intros x. unfold Conv.prim_min, Conv.prim_max. cbn [Conv.pw Conv.psigned]. intros Hx. cbn beta.
      Z.div_mod_to_equations. lia. }
    exists r. split; [exact E|]. unfold FmtC.money_denotes.
    change (64 / 8) with 8 in S. destruct (lenZ raw =? 8); [|exact S]. cbn zeta in S.
    destruct (Z.ltb_spec (FmtC.signed 64 (FmtC.be_value raw)) 0),
             (Z.leb_spec 0 (FmtC.signed 64 (FmtC.be_value raw))); try lia; exact S. }
  destruct (Z.eqb_spec ty 8) as [->|N8].
  { unfold FmtC.bytea_denotes. apply be_slice_from_sql; assumption. }
  destruct ((ty =? 9) || (ty =? 10)) eqn:Ebit.
  { apply bit_from_sql; assumption. }
  destruct ((ty =? 11) || (ty =? 12) || (ty =? 13)) eqn:Etext.
  { apply (text_from_sql bits raw false Hb). }
  destruct (Z.eqb_spec ty 14) as [->|N14].
  { cbn [orb Z.eqb Pos.eqb CodecC.strip_jsonb]. unfold CodecC.strip_jsonb. cbn [Z.eqb Pos.eqb].
    apply (text_from_sql bits raw true Hb). }
  destruct (Z.eqb_spec ty 15) as [->|N15].
  { cbn [orb]. unfold CodecC.strip_jsonb. cbn [Z.eqb Pos.eqb].
    destruct raw as [|b rest]; [eexists; split; reflexivity|].
    destruct b as [|[q|q|]|q]; try (eexists; split; reflexivity).
    apply (text_from_sql bits rest true Hb). }
  cbn [orb]. destruct (Z.eqb_spec ty 16); [contradiction|]. eexists. split; reflexivity.
Qed.

(* ---------- widths whose top limb is full ---------- *)
Lemma aligned_pow bits : 0 <= bits -> bits mod 64 = 0 -> B ^ nlimbs bits = 2 ^ bits.
Proof.
  intros Hb Hm. rewrite B_pow, <- Z.pow_mul_r by (try apply nlimbs_nonneg; lia). f_equal.
  unfold nlimbs. Z.div_mod_to_equations. lia.
Qed.
Lemma aligned_limbs bits l : 0 <= bits -> bits mod 64 = 0 ->
  RunC16C.limbsb bits l = true -> length l = nlimbsN bits /\ Forall inW l /\ eval l < 2 ^ bits.
Proof.
  intros Hb Hm H. unfold RunC16C.limbsb in H. apply andb_true_iff in H. destruct H as [Hl Hw].
  apply Nat.eqb_eq in Hl. rewrite forallb_forall in Hw.
  assert (Hw' : Forall inW l) by (apply Forall_forall; intros x Hx; apply inWb_iff, Hw, Hx).
  split; [exact Hl|]. split; [exact Hw'|].
  pose proof (eval_bound l Hw') as He. rewrite Hl, nlimbsN_Z, aligned_pow in He by assumption. lia.
Qed.
Lemma from_limbs_aligned bits l : 0 <= bits -> bits mod 64 = 0 -> RunC16C.limbsb bits l = true ->
  Conv.from_limbs bits l = Val (uint_of bits (eval l)).
Proof.
  intros Hb Hm H. destruct (aligned_limbs bits l Hb Hm H) as (Hl & Hw & He).
  rewrite from_limbs_spec by assumption. destruct (Z.ltb_spec (eval l) (2 ^ bits)); [|lia].
  f_equal. now apply from_limbs_uint_of.
Qed.
Lemma inb_cases x l : RunC16C.inb x l = true -> In x l.
Proof.
  unfold RunC16C.inb. intros H. apply existsb_exists in H. destruct H as (y & Hy & E).
  apply Z.eqb_eq in E. now subst.
Qed.
Lemma forallb_bytes bs : bytesb bs = true -> Forall Bytes.isbyte bs.
Proof.
  unfold bytesb. rewrite forallb_forall. intros H. apply Forall_forall. intros x Hx.
  specialize (H x Hx). unfold Bytes.isbyteb in H. apply andb_true_iff in H. destruct H as [H1 H2].
  apply Z.leb_le in H1. apply Z.ltb_lt in H2. unfold Bytes.isbyte. lia.
Qed.

Theorem C17C_all c : wf c -> spec c (run c) = true.
Proof.
  unfold wf. destruct c as [bits kind v|bits l|bits bytes|bits bytes|bits l|bits ty raw];
    cbn [wfb spec run]; intros H.
  - (* bigint_from *)
    repeat (apply andb_true_iff in H; destruct H as [H ?]).
    apply Z.leb_le in H. unfold RunC16C.run_bigint_from.
    assert (E : (if kind <? 2 then CodecC.try_from_biguint bits v else CodecC.try_from_bigint bits v)
                = Val (big_res bits v)).
    { destruct (Z.ltb_spec kind 2).
      - apply try_from_biguint_spec; [lia|].
        match goal with Hk : (_ || _) = true |- _ =>
          apply orb_true_iff in Hk; destruct Hk as [Hk1|Hk1]; apply Z.leb_le in Hk1; lia end.
      - apply try_from_bigint_spec; lia. }
    rewrite E. cbn [obind]. unfold big_res, U.
    destruct (Z.ltb_spec v 0).
    + cbn [RunC16C.ures_toks RunC16C.uerr_toks Z.add Pos.add]. rewrite modp2_spec by lia. apply expect_refl.
    + destruct (Z.leb_spec (2 ^ bits) v), (Z.ltb_spec v (2 ^ bits)); try lia.
      * cbn [RunC16C.ures_toks RunC16C.uerr_toks]. rewrite modp2_spec by lia. apply expect_refl.
      * apply expect_refl.
  - (* pt_from *)
    apply andb_true_iff in H. destruct H as [Hw Hl]. apply inb_cases in Hw.
    assert (Hb : 0 <= bits /\ bits mod 64 = 0).
    { cbn in Hw. destruct Hw as [<-|[<-|[<-|[]]]]; split; reflexivity || lia. }
    unfold CodecC.pt_from. rewrite from_limbs_aligned by tauto. apply expect_refl.
  - (* pth_from *)
    repeat (apply andb_true_iff in H; destruct H as [H ?]).
    apply inb_cases in H.
    assert (Hb : 0 <= bits /\ bits mod 8 = 0).
    { cbn in H. destruct H as [<-|[<-|[<-|[<-|[]]]]]; split; reflexivity || lia. }
    destruct Hb as [Hb Hm].
    match goal with Hy : bytesb _ = true |- _ => apply forallb_bytes in Hy; rename Hy into Hby end.
    match goal with Hy : (lenZ _ =? _) = true |- _ => apply Z.eqb_eq in Hy; rename Hy into Hlen end.
    unfold CodecC.pth_from. rewrite PfBytes.from_be_bytes_spec by assumption.
    assert (Hnb : Bytes.nbytes bits = bits / 8) by (unfold Bytes.nbytes; Z.div_mod_to_equations; lia).
    rewrite Hnb, Hlen, Z.eqb_refl. rewrite <- be_value_spec.
    pose proof (be_value_range bytes Hby) as Hr. rewrite Hlen in Hr.
    assert (E : 256 ^ (bits / 8) = 2 ^ bits).
    { change 256 with (2 ^ 8). rewrite <- Z.pow_mul_r by (try apply Z.div_pos; lia). f_equal.
      Z.div_mod_to_equations. lia. }
    rewrite E in Hr. destruct (Z.ltb_spec (FmtC.be_value bytes) (2 ^ bits)); [|lia].
    cbn [andb obind]. apply expect_refl.
  - (* bm_read *)
    apply andb_true_iff in H. destruct H as [Hw Hby]. apply forallb_bytes in Hby.
    unfold RunC16C.pod_width in Hw. repeat (apply andb_true_iff in Hw; destruct Hw as [Hw ?]).
    apply Z.eqb_eq in Hw.
    assert (Hb : 0 <= bits) by (match goal with Hx : (64 <=? bits) = true |- _ => apply Z.leb_le in Hx end; lia).
    unfold CodecC.bm_read. change (FmtC.SLIMBS bits) with (nlimbs bits).
    destruct (Z.eqb_spec (lenZ bytes) (8 * nlimbs bits)) as [Hl|Hl]; [|apply expect_refl].
    rewrite PfBytes.le_fast_loop_spec; [|lia|exact Hby|rewrite nlimbsN_Z by lia; lia].
    cbn [Z.mul Z.to_nat skipn]. rewrite le_value_spec. apply expect_refl.
  - (* bm_cast_from *)
    apply andb_true_iff in H. destruct H as [Hw Hl].
    unfold RunC16C.pod_width in Hw. repeat (apply andb_true_iff in Hw; destruct Hw as [Hw ?]).
    apply Z.eqb_eq in Hw.
    assert (Hb : 0 <= bits) by (match goal with Hx : (64 <=? bits) = true |- _ => apply Z.leb_le in Hx end; lia).
    destruct (aligned_limbs bits l Hb Hw Hl) as (Hlen & Hwl & He).
    unfold CodecC.bm_cast, U. rewrite <- from_limbs_uint_of by assumption. apply expect_refl.
  - (* pg_from_sql *)
    repeat (apply andb_true_iff in H; destruct H as [H ?]).
    apply Z.leb_le in H.
    match goal with Hy : bytesb _ = true |- _ => apply forallb_bytes in Hy; rename Hy into Hby end.
    destruct (pg_from_sql_ok bits ty raw H Hby) as (r & E & S). rewrite E. cbn [obind]. exact S.
Qed.
