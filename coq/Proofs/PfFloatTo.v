(* Proofs/PfFloatTo.v — Uint -> float: From<&Uint> for f64 / f32 of Model/Float.v.
   The model's result pattern is fenc (Fv v): the format's encoding of the integer
   Fv v = rne(top 64 bits of v) * 2^exponent; Fv v is one of the two neighbours of v, it is
   +inf exactly from the rounding threshold on, and Fv is monotone. *)
From Coq Require Import ZArith List Bool Lia.
From Coq.Floats Require Import FloatClass SpecFloat.
From RV.Model Require Import Base Word Add Float.
From RV.Proofs Require Import BaseFacts PfAdd PfSpecFloat PfFloatUint.
From RV.Run Require Import RunC18.
Import ListNotations.
Local Open Scope Z_scope.

(* ---------- arithmetic reading of rne_shift ---------- *)
Lemma rne_shift_arith m sh : 0 <= m -> 1 <= sh ->
  rne_shift m sh =
  let q := m / 2 ^ sh in let t := m mod 2 ^ sh in let h := 2 ^ (sh - 1) in
  if (h <? t) || ((t =? h) && Z.odd q) then q + 1 else q.
Proof.
  intros Hm Hsh. unfold rne_shift. cbv zeta.
  assert (Ht : m mod 2 ^ sh = m mod 2 ^ (sh - 1) + 2 ^ (sh - 1) * Z.b2z (Z.testbit m (sh - 1))).
  { rewrite <- (mod_pow2_succ m (sh - 1)) by lia. f_equal. f_equal. lia. }
  rewrite Ht. clear Ht.
  pose proof (pow2_pos (sh - 1) ltac:(lia)) as Hh.
  pose proof (Z.mod_pos_bound m (2 ^ (sh - 1)) Hh) as Hl.
  set (l := m mod 2 ^ (sh - 1)) in *. set (h := 2 ^ (sh - 1)) in *.
  destruct (Z.testbit m (sh - 1)); cbn [Z.b2z andb].
  - rewrite Z.mul_1_r.
    destruct (Z.eqb_spec l 0) as [E|E]; cbn [negb orb].
    + rewrite E, Z.add_0_l. rewrite Z.ltb_irrefl, Z.eqb_refl. reflexivity.
    + destruct (Z.ltb_spec h (l + h)); [reflexivity|lia].
  - rewrite Z.mul_0_r, Z.add_0_r.
    destruct (Z.ltb_spec h l); [lia|]. destruct (Z.eqb_spec l h); [lia|]. reflexivity.
Qed.

Lemma rne_shift_bounds m sh : 0 <= m -> 1 <= sh ->
  m / 2 ^ sh <= rne_shift m sh <= m / 2 ^ sh + 1.
Proof. intros. unfold rne_shift. destruct (_ && _); lia. Qed.

Lemma rne_shift_exact m sh : 0 <= m -> 1 <= sh -> m mod 2 ^ sh = 0 -> rne_shift m sh = m / 2 ^ sh.
Proof.
  intros Hm Hsh H0. rewrite rne_shift_arith by lia. cbv zeta. rewrite H0.
  pose proof (pow2_pos (sh - 1) ltac:(lia)).
  destruct (Z.ltb_spec (2 ^ (sh - 1)) 0); [lia|]. destruct (Z.eqb_spec 0 (2 ^ (sh - 1))); [lia|].
  reflexivity.
Qed.

Lemma rne_shift_up m sh : 0 <= m -> 1 <= sh ->
  rne_shift m sh = m / 2 ^ sh + 1 -> 2 ^ (sh - 1) <= m mod 2 ^ sh.
Proof.
  intros Hm Hsh. rewrite rne_shift_arith by lia. cbv zeta.
  destruct (Z.ltb_spec (2 ^ (sh - 1)) (m mod 2 ^ sh)); cbn [orb]; [lia|].
  destruct (Z.eqb_spec (m mod 2 ^ sh) (2 ^ (sh - 1))); cbn [andb]; [lia|]. lia.
Qed.

Lemma rne_shift_mono m1 m2 sh : 0 <= m1 <= m2 -> 1 <= sh -> rne_shift m1 sh <= rne_shift m2 sh.
Proof.
  intros Hm Hsh.
  pose proof (pow2_pos sh ltac:(lia)) as Hp.
  assert (Hq : m1 / 2 ^ sh <= m2 / 2 ^ sh) by (apply Z.div_le_mono; lia).
  pose proof (rne_shift_bounds m1 sh ltac:(lia) Hsh) as B1.
  pose proof (rne_shift_bounds m2 sh ltac:(lia) Hsh) as B2.
  destruct (Z.eq_dec (m1 / 2 ^ sh) (m2 / 2 ^ sh)) as [E|E];
    [|generalize dependent (m1 / 2 ^ sh); generalize dependent (m2 / 2 ^ sh); intros; lia].
  (* same quotient: the decision is monotone in the remainder *)
  assert (Ht : m1 mod 2 ^ sh <= m2 mod 2 ^ sh).
  { pose proof (Z.div_mod m1 (2 ^ sh) ltac:(lia)). pose proof (Z.div_mod m2 (2 ^ sh) ltac:(lia)). nia. }
  rewrite !rne_shift_arith by lia. cbv zeta. rewrite E.
  set (t1 := m1 mod 2 ^ sh) in *. set (t2 := m2 mod 2 ^ sh) in *. set (h := 2 ^ (sh - 1)).
  destruct (Z.ltb_spec h t1); destruct (Z.ltb_spec h t2); cbn [orb]; try lia.
  - destruct (Z.eqb_spec t1 h); destruct (Z.odd (m2 / 2 ^ sh)); cbn [andb]; lia.
  - destruct (Z.eqb_spec t1 h); destruct (Z.eqb_spec t2 h); destruct (Z.odd (m2 / 2 ^ sh));
      cbn [andb]; lia.
Qed.

Section ToFloat.
  Variables prec emax : Z.
  Hypothesis Hprec : 1 < prec < 64.
  Hypothesis Hemax : 65 <= emax.

  (* the integer value of `b as float` for b : u64 *)
  Definition Rb (b : Z) : Z :=
    if b <? 2 ^ prec then b
    else let sh := Z.log2 b + 1 - prec in rne_shift b sh * 2 ^ sh.
  (* the integer value of the product before overflow *)
  Definition Fv (v : Z) : Z := Rb (msb_bits v) * 2 ^ msb_exp v.

  (* M * 2^T = x for an integer x, with M a full prec-bit mantissa *)
  Definition dy (M T x : Z) : Prop :=
    2 ^ (prec - 1) <= M < 2 ^ prec /\ ((0 <= T /\ x = M * 2 ^ T) \/ (T < 0 /\ M = x * 2 ^ (- T))).

  Lemma pow_prec : 2 ^ prec = 2 * 2 ^ (prec - 1).
  Proof. replace prec with (1 + (prec - 1)) at 1 by lia. rewrite Z.pow_add_r by lia. reflexivity. Qed.

  Lemma u64_as_float_spec b : 0 < b < 2 ^ 64 ->
    exists M E, u64_as_float prec emax b = S754_finite false (Z.to_pos M) E /\
                dy M E (Rb b) /\ 1 - prec <= E <= 65 - prec /\
                (E < 0 -> b < 2 ^ prec).
  Proof.
    intros Hb. destruct b as [|p|p]; try lia. unfold u64_as_float. cbn [binary_normalize].
    set (d := Z.log2 (Zpos p) + 1).
    pose proof (log2_bounds (Zpos p) ltac:(lia)) as Hl. fold d in Hl.
    assert (Hd : 1 <= d <= 64).
    { unfold d. pose proof (Z.log2_nonneg (Zpos p)). split; [lia|].
      assert (Z.log2 (Zpos p) < 64); [|lia]. apply Z.log2_lt_pow2; lia. }
    pose proof (pow2_pos (prec - 1) ltac:(lia)) as Hpp. pose proof pow_prec as Hpw.
    destruct (Z_le_gt_dec d prec) as [G|G].
    - (* short: exact *)
      rewrite binary_round_exact by (cbv zeta; fold d; lia). fold d. unfold mkfin.
      destruct (Z.leb_spec (0 - (prec - d)) (emax - prec)); [|lia].
      exists (Zpos p * 2 ^ (prec - d)), (d - prec).
      assert (Hlt : Zpos p < 2 ^ prec).
      { assert (2 ^ d <= 2 ^ prec) by (apply Z.pow_le_mono_r; lia). lia. }
      assert (HR : Rb (Zpos p) = Zpos p).
      { unfold Rb. destruct (Z.ltb_spec (Zpos p) (2 ^ prec)); [reflexivity|lia]. }
      split; [f_equal; lia|]. split; [|split; [lia|intros; exact Hlt]].
      unfold dy. rewrite HR. split.
      + assert (E1 : 2 ^ (prec - 1) = 2 ^ (d - 1) * 2 ^ (prec - d)) by (rewrite <- Z.pow_add_r by lia; f_equal; lia).
        assert (E2 : 2 ^ prec = 2 ^ d * 2 ^ (prec - d)) by (rewrite <- Z.pow_add_r by lia; f_equal; lia).
        rewrite E1, E2. replace (d - 1 + 1) with d in Hl by lia.
        replace (Z.log2 (Zpos p)) with (d - 1) in Hl by (unfold d; lia).
        assert (0 < 2 ^ (prec - d)) by (apply pow2_pos; lia). nia.
      + destruct (Z.eq_dec d prec) as [E|E].
        * left. split; [lia|]. replace (prec - d) with 0 by lia. replace (d - prec) with 0 by lia. lia.
        * right. split; [lia|]. f_equal. f_equal. lia.
    - (* long: one rounding to nearest even *)
      rewrite binary_round_long by (cbv zeta; fold d; lia).
      rewrite bra_shift by (try (cbv zeta; fold d); lia). fold d. cbv zeta.
      set (sh := d - prec). replace (0 + sh) with sh by lia.
      assert (Hge : 2 ^ prec <= Zpos p).
      { assert (2 ^ prec <= 2 ^ (d - 1)) by (apply Z.pow_le_mono_r; lia).
        replace (Z.log2 (Zpos p)) with (d - 1) in Hl by (unfold d; lia). lia. }
      assert (HR : Rb (Zpos p) = rne_shift (Zpos p) sh * 2 ^ sh).
      { unfold Rb. destruct (Z.ltb_spec (Zpos p) (2 ^ prec)); [lia|]. reflexivity. }
      pose proof (rne_shift_range prec ltac:(lia) (Zpos p) sh ltac:(lia) ltac:(unfold sh; lia)
                    ltac:(unfold sh, d; lia)) as Hr.
      set (m2 := rne_shift (Zpos p) sh) in *.
      pose proof (pow2_pos sh ltac:(unfold sh; lia)) as Hsh.
      destruct (Z.eqb_spec m2 (2 ^ prec)) as [E|E].
      + exists (2 ^ (prec - 1)), (sh + 1). unfold mkfin.
        destruct (Z.leb_spec (sh + 1) (emax - prec)); [|unfold sh in *; lia].
        split; [reflexivity|]. split; [|split; [unfold sh; lia|unfold sh; lia]].
        unfold dy. split; [lia|]. left. split; [unfold sh; lia|].
        rewrite HR, E, Hpw, Z.pow_add_r by (unfold sh; lia). ring.
      + exists m2, sh. unfold mkfin.
        destruct (Z.leb_spec sh (emax - prec)); [|unfold sh in *; lia].
        split; [reflexivity|]. split; [|split; [unfold sh; lia|unfold sh; lia]].
        unfold dy. split; [lia|]. left. split; [unfold sh; lia|]. exact HR.
  Qed.

  Lemma SFmul_exp2 M E k :
    2 ^ (prec - 1) <= M < 2 ^ prec -> 1 - prec <= E -> 0 <= k ->
    SFmul prec emax (S754_finite false (Z.to_pos M) E) (exp2_int prec emax k)
    = if k <? emax then mkfin prec emax false M (E + k) else S754_infinity false.
  Proof.
    intros HM HE Hk. unfold exp2_int. destruct (Z.ltb_spec k emax) as [G|G]; [|reflexivity].
    cbn [SFmul xorb].
    pose proof (pow2_pos (prec - 1) ltac:(lia)) as Hpp.
    assert (Hprod : Zpos (Z.to_pos M * Z.to_pos (2 ^ (prec - 1))) = M * 2 ^ (prec - 1)).
    { rewrite Pos2Z.inj_mul, !Z2Pos.id by lia. reflexivity. }
    assert (Hlog : Z.log2 (M * 2 ^ (prec - 1)) = 2 * prec - 2).
    { rewrite <- Z.shiftl_mul_pow2, Z.log2_shiftl by lia.
      rewrite (log2_eq M (prec - 1)) by (try replace (prec - 1 + 1) with prec by lia; lia). lia. }
    rewrite bra_shift by (rewrite ?Hprod, ?Hlog; lia).
    rewrite Hprod, Hlog. cbv zeta.
    replace (2 * prec - 2 + 1 - prec) with (prec - 1) by lia.
    assert (Hr : rne_shift (M * 2 ^ (prec - 1)) (prec - 1) = M).
    { rewrite rne_shift_exact; [apply Z.div_mul; lia| nia | lia | apply Z.mod_mul; lia]. }
    rewrite Hr. destruct (Z.eqb_spec M (2 ^ prec)); [lia|].
    f_equal. lia.
  Qed.

  (* ---------- bit patterns of representable integers ---------- *)
  Lemma encode_mkfin M T :
    2 ^ (prec - 1) <= M < 2 ^ prec ->
    encode prec emax (mkfin prec emax false M T)
    = if T <=? emax - prec then (T + emax + prec - 2) * 2 ^ (prec - 1) + (M - 2 ^ (prec - 1))
      else finf prec emax.
  Proof.
    intros HM. unfold mkfin. destruct (Z.leb_spec T (emax - prec)).
    - unfold encode, sbit. rewrite Z2Pos.id by lia.
      destruct (Z.ltb_spec M (2 ^ (prec - 1))); [lia|]. lia.
    - unfold encode, sbit, finf. lia.
  Qed.

  Lemma fenc_dy M T F : dy M T F -> 1 - prec <= T ->
    fenc prec emax F
    = if T <=? emax - prec then (T + emax + prec - 2) * 2 ^ (prec - 1) + (M - 2 ^ (prec - 1))
      else finf prec emax.
  Proof.
    intros [HM HF] HT. pose proof (pow2_pos (prec - 1) ltac:(lia)) as Hpp. pose proof pow_prec as Hpw.
    assert (HlM : Z.log2 M = prec - 1).
    { apply log2_eq; [lia|]. replace (prec - 1 + 1) with prec by lia. lia. }
    assert (Hlog : Z.log2 F = prec - 1 + T /\ 0 < F).
    { destruct HF as [[H0 ->]|[H0 HMF]].
      - rewrite <- Z.shiftl_mul_pow2, Z.log2_shiftl by lia.
        pose proof (pow2_pos T H0). split; [lia|rewrite Z.shiftl_mul_pow2 by lia; apply Z.mul_pos_pos; lia].
      - assert (0 < F). { pose proof (pow2_pos (- T) ltac:(lia)). nia. }
        rewrite HMF, <- Z.shiftl_mul_pow2, Z.log2_shiftl in HlM by lia. split; lia. }
    destruct Hlog as [Hlog HFpos].
    unfold fenc. destruct (Z.eqb_spec F 0); [lia|]. rewrite Hlog.
    destruct (Z.leb_spec emax (prec - 1 + T)); destruct (Z.leb_spec T (emax - prec)); try (reflexivity || lia).
    f_equal; [f_equal; lia|]. f_equal.
    destruct HF as [[HT0 ->]|[HT0 HMF]].
    - destruct (Z.ltb_spec (prec - 1 + T) (prec - 1)); [lia|].
      rewrite Z.shiftr_div_pow2 by lia. replace (prec - 1 + T - (prec - 1)) with T by lia.
      apply Z.div_mul. apply Z.pow_nonzero; lia.
    - destruct (Z.ltb_spec (prec - 1 + T) (prec - 1)); [|lia].
      rewrite Z.shiftl_mul_pow2 by lia. rewrite HMF. f_equal. f_equal. lia.
  Qed.

  (* ---------- the model's answer ---------- *)
  Lemma msb_range v : 0 < v -> 0 < msb_bits v < 2 ^ 64 /\ 0 <= msb_exp v.
  Proof.
    intros Hv. unfold msb_bits, msb_exp.
    destruct (Z.ltb_spec v (2 ^ 64)) as [G|G].
    - rewrite Z.pow_0_r, Z.div_1_r. lia.
    - pose proof (log2_bounds v Hv) as Hl.
      assert (64 <= Z.log2 v) by (apply Z.log2_le_pow2; lia).
      set (e := Z.log2 v - 63) in *.
      assert (E1 : 2 ^ Z.log2 v = 2 ^ 63 * 2 ^ e) by (rewrite <- Z.pow_add_r by (unfold e; lia); f_equal; unfold e; lia).
      assert (E2 : 2 ^ (Z.log2 v + 1) = 2 ^ 64 * 2 ^ e) by (rewrite <- Z.pow_add_r by (unfold e; lia); f_equal; unfold e; lia).
      pose proof (pow2_pos e ltac:(unfold e; lia)).
      split; [|unfold e; lia]. split.
      + apply Z.div_str_pos. nia.
      + apply Z.div_lt_upper_bound; lia.
  Qed.

  Theorem run_to_fenc a : Forall inW a ->
    run_to prec emax a = Val (fenc prec emax (Fv (eval a))).
  Proof.
    intros Hw. unfold run_to, to_float. rewrite msb_spec by exact Hw. cbn [obind fst snd].
    pose proof (eval_bound a Hw) as Hva. set (v := eval a) in *.
    destruct (Z.eq_dec v 0) as [V0|V0].
    - rewrite V0. unfold Fv. change (msb_bits 0) with 0. change (msb_exp 0) with 0.
      unfold Rb. pose proof (pow2_pos prec ltac:(lia)).
      destruct (Z.ltb_spec 0 (2 ^ prec)); [|lia].
      unfold u64_as_float, binary_normalize, exp2_int.
      destruct (Z.ltb_spec 0 emax); [|lia]. reflexivity.
    - destruct (msb_range v ltac:(lia)) as [Hb Hk].
      destruct (u64_as_float_spec (msb_bits v) Hb) as (M & E & -> & Hdy & HE & Hneg).
      pose proof Hdy as [HM HF].
      rewrite SFmul_exp2 by lia. f_equal.
      set (k := msb_exp v) in *. set (x := Rb (msb_bits v)) in *.
      assert (Hxpos : 0 < x).
      { destruct HF as [[H0 ->]|[H0 HMF]].
        - pose proof (pow2_pos E H0). pose proof (pow2_pos (prec - 1) ltac:(lia)). nia.
        - pose proof (pow2_pos (- E) ltac:(lia)). pose proof (pow2_pos (prec - 1) ltac:(lia)). nia. }
      pose proof (pow2_pos k Hk) as H2k.
      destruct (Z.ltb_spec k emax) as [G|G].
      + (* finite scale *)
        assert (Hdy' : dy M (E + k) (x * 2 ^ k)).
        { split; [exact HM|]. destruct HF as [[H0 Hx]|[H0 HMF]].
          - left. split; [lia|]. rewrite Hx, Z.pow_add_r by lia. ring.
          - (* negative exponent: the value is below 2^prec, hence exponent 0 *)
            assert (Hk0 : k = 0).
            { unfold k, msb_exp. specialize (Hneg H0). unfold msb_bits, msb_exp in Hneg.
              destruct (Z.ltb_spec v (2 ^ 64)); [reflexivity|].
              exfalso. pose proof (log2_bounds v ltac:(lia)) as Hl.
              assert (64 <= Z.log2 v) by (apply Z.log2_le_pow2; lia).
              set (e := Z.log2 v - 63) in *.
              assert (E1 : 2 ^ Z.log2 v = 2 ^ 63 * 2 ^ e)
                by (rewrite <- Z.pow_add_r by (unfold e; lia); f_equal; unfold e; lia).
              pose proof (pow2_pos e ltac:(unfold e; lia)).
              assert (2 ^ 63 <= v / 2 ^ e) by (apply Z.div_le_lower_bound; lia).
              assert (2 ^ prec <= 2 ^ 63) by (apply Z.pow_le_mono_r; lia). lia. }
            right. rewrite Hk0, Z.pow_0_r, Z.mul_1_r, Z.add_0_r. auto. }
        rewrite encode_mkfin by exact HM. unfold Fv. fold k x.
        symmetry. apply fenc_dy; [exact Hdy'|lia].
      + (* the scale itself overflows *)
        cbn [encode sbit]. rewrite Z.add_0_l. unfold Fv. fold k x.
        unfold fenc. destruct (Z.eqb_spec (x * 2 ^ k) 0); [nia|].
        assert (emax <= Z.log2 (x * 2 ^ k)).
        { apply Z.log2_le_pow2; [nia|].
          assert (2 ^ emax <= 2 ^ k) by (apply Z.pow_le_mono_r; lia). nia. }
        destruct (Z.leb_spec emax (Z.log2 (x * 2 ^ k))); [reflexivity|lia].
  Qed.

  (* ---------- the value Fv v relative to v ---------- *)
  Lemma Rb_small b : 0 <= b < 2 ^ prec -> Rb b = b.
  Proof. intros H. unfold Rb. destruct (Z.ltb_spec b (2 ^ prec)); [reflexivity|lia]. Qed.

  Lemma msb_small v : 0 <= v < 2 ^ 64 -> msb_exp v = 0 /\ msb_bits v = v.
  Proof.
    intros H. unfold msb_bits, msb_exp. destruct (Z.ltb_spec v (2 ^ 64)); [|lia].
    now rewrite Z.pow_0_r, Z.div_1_r.
  Qed.

  Lemma Fv_small v : 0 <= v < 2 ^ prec -> Fv v = v.
  Proof.
    intros H. assert (2 ^ prec < 2 ^ 64) by (apply Z.pow_lt_mono_r; lia).
    destruct (msb_small v ltac:(lia)) as [He Hb]. unfold Fv. rewrite He, Hb, Rb_small by lia.
    now rewrite Z.pow_0_r, Z.mul_1_r.
  Qed.

  (* the shape of Fv for larger values: the rounding acts on b = v / 2^e at position sh,
     with sh + e = log2 v - (prec - 1) *)
  Lemma Fv_form v : 2 ^ prec <= v ->
    let s := Z.log2 v - (prec - 1) in
    exists e sh, 0 <= e /\ 1 <= sh /\ sh + e = s /\
                 Fv v = rne_shift (v / 2 ^ e) sh * 2 ^ s /\
                 Z.log2 (v / 2 ^ e) = prec - 1 + sh.
  Proof.
    intros Hv s. pose proof (pow2_pos prec ltac:(lia)) as Hpp.
    pose proof (log2_bounds v ltac:(lia)) as Hl.
    assert (Hk : prec <= Z.log2 v) by (apply Z.log2_le_pow2; lia).
    unfold Fv, msb_bits, msb_exp. destruct (Z.ltb_spec v (2 ^ 64)) as [G|G].
    - exists 0, s. rewrite Z.pow_0_r, Z.div_1_r, Z.mul_1_r.
      unfold Rb. destruct (Z.ltb_spec v (2 ^ prec)); [lia|]. cbv zeta.
      replace (Z.log2 v + 1 - prec) with s by (unfold s; lia).
      repeat split; try reflexivity; unfold s; lia.
    - assert (H64 : 64 <= Z.log2 v) by (apply Z.log2_le_pow2; lia).
      set (e := Z.log2 v - 63) in *.
      assert (E1 : 2 ^ Z.log2 v = 2 ^ 63 * 2 ^ e) by (rewrite <- Z.pow_add_r by (unfold e; lia); f_equal; unfold e; lia).
      assert (E2 : 2 ^ (Z.log2 v + 1) = 2 ^ 64 * 2 ^ e) by (rewrite <- Z.pow_add_r by (unfold e; lia); f_equal; unfold e; lia).
      pose proof (pow2_pos e ltac:(unfold e; lia)) as H2e.
      assert (Hb : 2 ^ 63 <= v / 2 ^ e < 2 ^ 64).
      { split; [apply Z.div_le_lower_bound; lia|apply Z.div_lt_upper_bound; lia]. }
      assert (Hlb : Z.log2 (v / 2 ^ e) = 63) by (apply log2_eq; lia).
      exists e, (64 - prec).
      unfold Rb. assert (2 ^ prec <= 2 ^ 63) by (apply Z.pow_le_mono_r; lia).
      destruct (Z.ltb_spec (v / 2 ^ e) (2 ^ prec)); [lia|]. cbv zeta. rewrite Hlb.
      replace (63 + 1 - prec) with (64 - prec) by lia.
      split; [unfold e; lia|]. split; [lia|]. split; [unfold s, e; lia|]. split; [|lia].
      rewrite <- Z.mul_assoc, <- Z.pow_add_r by (unfold e; lia). f_equal. f_equal. unfold s, e. lia.
  Qed.

  (* quotient and remainder of v at position sh + e, read through b = v / 2^e *)
  Lemma split_div v e sh : 0 <= v -> 0 <= e -> 0 <= sh ->
    (v / 2 ^ e) / 2 ^ sh = v / 2 ^ (sh + e) /\
    2 ^ e * ((v / 2 ^ e) mod 2 ^ sh) <= v mod 2 ^ (sh + e) < 2 ^ e * ((v / 2 ^ e) mod 2 ^ sh + 1).
  Proof.
    intros Hv He Hsh. pose proof (pow2_pos e He) as H2e. pose proof (pow2_pos sh Hsh) as H2s.
    rewrite Z.add_comm, Z.pow_add_r by lia.
    split; [apply Z.div_div; lia|].
    rewrite Z.rem_mul_r by lia.
    pose proof (Z.mod_pos_bound v (2 ^ e) H2e). nia.
  Qed.

  Lemma odd_pow_prec_m1 : Z.odd (2 ^ prec - 1) = true.
  Proof.
    rewrite pow_prec. replace (2 * 2 ^ (prec - 1) - 1) with (1 + 2 * (2 ^ (prec - 1) - 1)) by ring.
    rewrite Z.odd_add_mul_2. reflexivity.
  Qed.

  Lemma fenc_big F : 2 ^ emax <= F -> fenc prec emax F = finf prec emax.
  Proof.
    intros HF. pose proof (pow2_pos emax ltac:(lia)). unfold fenc.
    destruct (Z.eqb_spec F 0); [lia|].
    assert (emax <= Z.log2 F) by (apply Z.log2_le_pow2; lia).
    destruct (Z.leb_spec emax (Z.log2 F)); [reflexivity|lia].
  Qed.

  Lemma fenc_range F : 0 <= F -> 0 <= fenc prec emax F <= finf prec emax /\
                                 (F < 2 ^ emax -> fenc prec emax F < finf prec emax).
  Proof.
    intros HF. pose proof (pow2_pos (prec - 1) ltac:(lia)) as HP. pose proof pow_prec as Hpw.
    unfold fenc, finf. destruct (Z.eqb_spec F 0); [nia|].
    pose proof (log2_bounds F ltac:(lia)) as Hl. pose proof (Z.log2_nonneg F) as Hk.
    set (k := Z.log2 F) in *.
    destruct (Z.leb_spec emax k) as [G|G].
    - split; [nia|]. intros Hlt. assert (2 ^ emax <= 2 ^ k) by (apply Z.pow_le_mono_r; lia). lia.
    - set (mant := if k <? prec - 1 then Z.shiftl F (prec - 1 - k) else Z.shiftr F (k - (prec - 1))).
      assert (Hm : 0 <= mant < 2 ^ prec).
      { unfold mant. destruct (Z.ltb_spec k (prec - 1)).
        - rewrite Z.shiftl_mul_pow2 by lia.
          assert (E : 2 ^ prec = 2 ^ (k + 1) * 2 ^ (prec - 1 - k)) by (rewrite <- Z.pow_add_r by lia; f_equal; lia).
          pose proof (pow2_pos (prec - 1 - k) ltac:(lia)). rewrite E. nia.
        - rewrite Z.shiftr_div_pow2 by lia.
          pose proof (pow2_pos (k - (prec - 1)) ltac:(lia)).
          split; [apply Z.div_pos; lia|]. apply Z.div_lt_upper_bound; [lia|].
          assert (E : 2 ^ (k + 1) = 2 ^ (k - (prec - 1)) * 2 ^ prec) by (rewrite <- Z.pow_add_r by lia; f_equal; lia).
          lia. }
      assert (Hlt : (k + emax - 1) * 2 ^ (prec - 1) + (mant - 2 ^ (prec - 1)) < (2 * emax - 1) * 2 ^ (prec - 1)) by nia.
      split; [split; [nia|lia]|intros; exact Hlt].
  Qed.

  Lemma thr_split v : let s := emax - prec in
    Z.log2 v = emax - 1 -> 0 < v ->
    (fthr prec emax <= v <-> v / 2 ^ s = 2 ^ prec - 1 /\ 2 ^ (s - 1) <= v mod 2 ^ s).
  Proof.
    intros s Hk Hv. pose proof (log2_bounds v Hv) as Hl. rewrite Hk in Hl.
    replace (emax - 1 + 1) with emax in Hl by lia.
    pose proof (pow2_pos s ltac:(unfold s; lia)) as H2s.
    pose proof (pow2_pos (s - 1) ltac:(unfold s; lia)) as H2s1.
    assert (Es : 2 ^ s = 2 * 2 ^ (s - 1)).
    { replace s with (1 + (s - 1)) at 1 by lia. rewrite Z.pow_add_r by (unfold s; lia). reflexivity. }
    assert (Ee : 2 ^ emax = 2 ^ prec * 2 ^ s) by (rewrite <- Z.pow_add_r by (unfold s; lia); f_equal; unfold s; lia).
    unfold fthr. replace (emax - prec - 1) with (s - 1) by (unfold s; lia).
    pose proof (Z.div_mod v (2 ^ s) ltac:(lia)) as Hdm.
    pose proof (Z.mod_pos_bound v (2 ^ s) H2s) as Hmb.
    set (q := v / 2 ^ s) in *. set (t := v mod 2 ^ s) in *.
    pose proof (pow2_pos prec ltac:(lia)).
    split.
    - intros Hge. assert (q < 2 ^ prec) by nia. assert (2 ^ prec - 1 <= q) by nia. split; [lia|nia].
    - intros [Hq Ht]. rewrite Hq in Hdm. nia.
  Qed.

  Theorem spec_to_Fv v : 0 <= v -> spec_to prec emax v (fenc prec emax (Fv v)) = true.
  Proof.
    intros Hv. unfold spec_to.
    pose proof (pow2_pos prec ltac:(lia)) as Hpp. pose proof pow_prec as Hpw.
    pose proof (pow2_pos (prec - 1) ltac:(lia)) as HP.
    assert (Hpe : 2 ^ prec < 2 ^ (emax - 1)) by (apply Z.pow_lt_mono_r; lia).
    assert (Ee1 : 2 ^ emax = 2 * 2 ^ (emax - 1)).
    { replace emax with (1 + (emax - 1)) at 1 by lia. rewrite Z.pow_add_r by lia. reflexivity. }
    assert (Hthr : 2 ^ (emax - 1) <= fthr prec emax < 2 ^ emax).
    { unfold fthr. pose proof (pow2_pos (emax - prec - 1) ltac:(lia)).
      assert (2 ^ (emax - prec - 1) < 2 ^ (emax - 1)) by (apply Z.pow_lt_mono_r; lia). lia. }
    destruct (Z_lt_le_dec v (2 ^ prec)) as [Hsm|Hbig].
    - (* exactly representable *)
      rewrite Fv_small by lia.
      destruct (Z.leb_spec (fthr prec emax) v); [lia|].
      destruct (fenc_range v Hv) as [_ Hlt]. specialize (Hlt ltac:(lia)).
      destruct (Z.ltb_spec (fenc prec emax v) (finf prec emax)); [|lia]. cbn [andb].
      unfold lower. destruct (Z.ltb_spec v (2 ^ prec)); [|lia]. now rewrite Z.eqb_refl.
    - destruct (Fv_form v Hbig) as (e & sh & He & Hsh & Hs & HF & Hlb).
      set (k := Z.log2 v) in *. set (s := k - (prec - 1)) in *.
      assert (Hk : prec <= k) by (apply Z.log2_le_pow2; lia).
      destruct (split_div v e sh Hv He ltac:(lia)) as [Hq Ht]. rewrite Hs in Hq, Ht.
      pose proof (log2_bounds v ltac:(lia)) as Hl. fold k in Hl.
      pose proof (pow2_pos s ltac:(unfold s; lia)) as H2s.
      pose proof (pow2_pos e He) as H2e. pose proof (pow2_pos (sh - 1) ltac:(lia)) as H2h.
      assert (Ek : 2 ^ k = 2 ^ (prec - 1) * 2 ^ s) by (rewrite <- Z.pow_add_r by (unfold s; lia); f_equal; unfold s; lia).
      assert (Ek1 : 2 ^ (k + 1) = 2 ^ prec * 2 ^ s) by (rewrite <- Z.pow_add_r by (unfold s; lia); f_equal; unfold s; lia).
      assert (Es1 : 2 ^ (s - 1) = 2 ^ e * 2 ^ (sh - 1)) by (rewrite <- Z.pow_add_r by lia; f_equal; lia).
      set (b := v / 2 ^ e) in *. set (q := v / 2 ^ s) in *. set (t := v mod 2 ^ s) in *.
      assert (Hb0 : 0 <= b) by (apply Z.div_pos; lia).
      pose proof (Z.div_mod v (2 ^ s) ltac:(lia)) as Hdm. fold q t in Hdm.
      pose proof (Z.mod_pos_bound v (2 ^ s) H2s) as Htb. fold t in Htb.
      assert (Hqr : 2 ^ (prec - 1) <= q < 2 ^ prec).
      { unfold q. split; [apply Z.div_le_lower_bound; lia|apply Z.div_lt_upper_bound; lia]. }
      pose proof (rne_shift_bounds b sh Hb0 Hsh) as Hrb. rewrite Hq in Hrb.
      set (r := rne_shift b sh) in *.
      (* lower / upper of the specification *)
      assert (Hlow : lower prec v = q * 2 ^ s).
      { unfold lower. destruct (Z.ltb_spec v (2 ^ prec)); [lia|]. fold k. fold s.
        rewrite Z.shiftl_mul_pow2, Z.shiftr_div_pow2 by (unfold s; lia). reflexivity. }
      assert (Hupp : t <> 0 -> upper prec v = (q + 1) * 2 ^ s).
      { intros Hne. unfold upper. rewrite Hlow. fold k. fold s.
        destruct (Z.eqb_spec (q * 2 ^ s) v); [lia|]. ring. }
      (* rounding up needs a non-zero tail *)
      assert (Hup : r = q + 1 -> t <> 0).
      { intros Hr. pose proof (rne_shift_up b sh Hb0 Hsh) as Hu. fold r in Hu. rewrite Hq in Hu.
        specialize (Hu Hr). nia. }
      destruct (Z.leb_spec (fthr prec emax) v) as [Hge|Hlt].
      + (* at or above the threshold: +inf *)
        apply Z.eqb_eq. apply fenc_big. rewrite HF. fold r.
        assert (Hke : emax - 1 <= k).
        { apply Z.log2_le_pow2; lia. }
        destruct (Z_lt_le_dec k emax) as [Hk1|Hk1].
        * assert (Hkk : k = emax - 1) by lia.
          destruct (thr_split v Hkk ltac:(lia)) as [Hth _]. specialize (Hth Hge).
          replace (emax - prec) with s in Hth by (unfold s; lia). fold q t in Hth.
          destruct Hth as [Hq1 Ht1].
          (* the round bit is set and q is odd: the mantissa carries into 2^prec *)
          assert (Hr : r = q + 1).
          { unfold r. rewrite rne_shift_arith by lia. cbv zeta. rewrite Hq.
            assert (2 ^ (sh - 1) <= b mod 2 ^ sh) by nia.
            rewrite Hq1, odd_pow_prec_m1.
            destruct (Z.ltb_spec (2 ^ (sh - 1)) (b mod 2 ^ sh)); cbn [orb]; [lia|].
            destruct (Z.eqb_spec (b mod 2 ^ sh) (2 ^ (sh - 1))); cbn [andb]; lia. }
          rewrite Hr, Hq1. replace (2 ^ prec - 1 + 1) with (2 ^ prec) by lia.
          rewrite <- Ek1. replace (k + 1) with emax by lia. lia.
        * assert (2 ^ emax <= 2 ^ k) by (apply Z.pow_le_mono_r; lia). nia.
      + (* below the threshold: a finite neighbour *)
        assert (HFlt : r * 2 ^ s < 2 ^ emax).
        { assert (Hk1 : k <= emax - 1).
          { assert (k < emax); [|lia]. apply Z.log2_lt_pow2; lia. }
          destruct (Z_lt_le_dec k (emax - 1)) as [Hk2|Hk2].
          - assert (2 ^ (k + 1) <= 2 ^ (emax - 1)) by (apply Z.pow_le_mono_r; lia). nia.
          - assert (Hkk : k = emax - 1) by lia.
            destruct (Z.eq_dec q (2 ^ prec - 1)) as [Hq1|Hq1].
            + destruct (thr_split v Hkk ltac:(lia)) as [_ Hth].
              replace (emax - prec) with s in Hth by (unfold s; lia). fold q t in Hth.
              assert (Ht1 : t < 2 ^ (s - 1)).
              { destruct (Z_lt_le_dec t (2 ^ (s - 1))); [assumption|]. specialize (Hth ltac:(split; lia)). lia. }
              assert (Hr : r = q).
              { unfold r. rewrite rne_shift_arith by lia. cbv zeta. rewrite Hq.
                assert (b mod 2 ^ sh < 2 ^ (sh - 1)) by nia.
                destruct (Z.ltb_spec (2 ^ (sh - 1)) (b mod 2 ^ sh)); cbn [orb]; [lia|].
                destruct (Z.eqb_spec (b mod 2 ^ sh) (2 ^ (sh - 1))); cbn [andb]; lia. }
              rewrite Hr. replace emax with (k + 1) by lia. rewrite Ek1. nia.
            + replace emax with (k + 1) by lia. rewrite Ek1. nia. }
        rewrite HF. fold r.
        assert (Hr0 : 0 <= r * 2 ^ s) by nia.
        destruct (fenc_range (r * 2 ^ s) Hr0) as [_ Hfl]. specialize (Hfl HFlt).
        destruct (Z.ltb_spec (fenc prec emax (r * 2 ^ s)) (finf prec emax)); [|lia]. cbn [andb].
        apply orb_true_iff.
        destruct (Z.eq_dec r q) as [Hr|Hr].
        * left. apply Z.eqb_eq. rewrite Hlow, Hr. reflexivity.
        * right. apply Z.eqb_eq. assert (Hr1 : r = q + 1) by lia.
          rewrite Hupp by auto. rewrite Hr1. reflexivity.
  Qed.

  (* ---------- monotonicity ---------- *)
  Lemma Rb_bounds b : 0 < b < 2 ^ 64 -> 2 ^ Z.log2 b <= Rb b <= 2 ^ (Z.log2 b + 1).
  Proof.
    intros Hb. pose proof (log2_bounds b ltac:(lia)) as Hl. unfold Rb.
    destruct (Z.ltb_spec b (2 ^ prec)) as [G|G]; [lia|].
    pose proof (pow2_pos prec ltac:(lia)).
    assert (Hk : prec <= Z.log2 b) by (apply Z.log2_le_pow2; lia).
    cbv zeta. set (sh := Z.log2 b + 1 - prec).
    pose proof (rne_shift_range prec ltac:(lia) b sh ltac:(lia) ltac:(unfold sh; lia) ltac:(unfold sh; lia)) as Hr.
    pose proof (pow2_pos sh ltac:(unfold sh; lia)).
    assert (E1 : 2 ^ Z.log2 b = 2 ^ (prec - 1) * 2 ^ sh) by (rewrite <- Z.pow_add_r by (unfold sh; lia); f_equal; unfold sh; lia).
    assert (E2 : 2 ^ (Z.log2 b + 1) = 2 ^ prec * 2 ^ sh) by (rewrite <- Z.pow_add_r by (unfold sh; lia); f_equal; unfold sh; lia).
    rewrite E1, E2. nia.
  Qed.

  Lemma Rb_mono b1 b2 : 0 <= b1 <= b2 -> b2 < 2 ^ 64 -> Rb b1 <= Rb b2.
  Proof.
    intros Hb H2. pose proof (pow2_pos prec ltac:(lia)) as Hpp.
    destruct (Z.eq_dec b1 0) as [Z0|Z0].
    { subst. rewrite Rb_small by lia. destruct (Z.eq_dec b2 0); [subst; rewrite Rb_small; lia|].
      pose proof (Rb_bounds b2 ltac:(lia)). pose proof (pow2_pos (Z.log2 b2) (Z.log2_nonneg b2)). lia. }
    pose proof (Rb_bounds b1 ltac:(lia)) as B1. pose proof (Rb_bounds b2 ltac:(lia)) as B2.
    assert (Hll : Z.log2 b1 <= Z.log2 b2) by (apply Z.log2_le_mono; lia).
    destruct (Z.eq_dec (Z.log2 b1) (Z.log2 b2)) as [E|E].
    - unfold Rb. pose proof (log2_bounds b1 ltac:(lia)) as L1. pose proof (log2_bounds b2 ltac:(lia)) as L2.
      destruct (Z.ltb_spec b1 (2 ^ prec)) as [G1|G1]; destruct (Z.ltb_spec b2 (2 ^ prec)) as [G2|G2].
      + lia.
      + (* b1 < 2^prec <= b2 in the same binade: impossible *)
        assert (prec <= Z.log2 b2) by (apply Z.log2_le_pow2; lia).
        assert (2 ^ prec <= 2 ^ Z.log2 b1) by (apply Z.pow_le_mono_r; lia). lia.
      + lia.
      + cbv zeta. rewrite E. set (sh := Z.log2 b2 + 1 - prec).
        assert (prec <= Z.log2 b2) by (apply Z.log2_le_pow2; lia).
        pose proof (pow2_pos sh ltac:(unfold sh; lia)).
        pose proof (rne_shift_mono b1 b2 sh ltac:(lia) ltac:(unfold sh; lia)). nia.
    - assert (2 ^ (Z.log2 b1 + 1) <= 2 ^ Z.log2 b2) by (apply Z.pow_le_mono_r; lia). lia.
  Qed.

  Theorem Fv_mono v1 v2 : 0 <= v1 <= v2 -> Fv v1 <= Fv v2.
  Proof.
    intros Hv. unfold Fv.
    destruct (Z_lt_le_dec v2 (2 ^ 64)) as [G2|G2].
    - destruct (msb_small v1 ltac:(lia)) as [-> ->]. destruct (msb_small v2 ltac:(lia)) as [-> ->].
      rewrite Z.pow_0_r, !Z.mul_1_r. apply Rb_mono; lia.
    - (* v2 >= 2^64 *)
      destruct (msb_range v2 ltac:(lia)) as [Hb2 He2].
      pose proof (Rb_bounds (msb_bits v2) Hb2) as B2.
      assert (Hl2 : Z.log2 (msb_bits v2) = 63 /\ msb_exp v2 = Z.log2 v2 - 63 /\ 64 <= Z.log2 v2).
      { unfold msb_bits, msb_exp. destruct (Z.ltb_spec v2 (2 ^ 64)); [lia|].
        pose proof (log2_bounds v2 ltac:(lia)) as Hl.
        assert (H64 : 64 <= Z.log2 v2) by (apply Z.log2_le_pow2; lia).
        set (e := Z.log2 v2 - 63) in *.
        assert (E1 : 2 ^ Z.log2 v2 = 2 ^ 63 * 2 ^ e) by (rewrite <- Z.pow_add_r by (unfold e; lia); f_equal; unfold e; lia).
        assert (E2 : 2 ^ (Z.log2 v2 + 1) = 2 ^ 64 * 2 ^ e) by (rewrite <- Z.pow_add_r by (unfold e; lia); f_equal; unfold e; lia).
        pose proof (pow2_pos e ltac:(unfold e; lia)).
        split; [|split; [reflexivity|lia]]. apply log2_eq; [lia|].
        split; [apply Z.div_le_lower_bound; lia|apply Z.div_lt_upper_bound; lia]. }
      destruct Hl2 as (Hl2 & He2' & H64). rewrite Hl2 in B2.
      pose proof (pow2_pos (msb_exp v2) He2) as H2e2.
      destruct (Z_lt_le_dec v1 (2 ^ 64)) as [G1|G1].
      + destruct (msb_small v1 ltac:(lia)) as [-> ->]. rewrite Z.pow_0_r, Z.mul_1_r.
        assert (Rb v1 <= 2 ^ 64).
        { destruct (Z.eq_dec v1 0); [subst; rewrite Rb_small; [lia|pose proof (pow2_pos prec); lia]|].
          pose proof (Rb_bounds v1 ltac:(lia)) as B1.
          assert (Z.log2 v1 < 64) by (apply Z.log2_lt_pow2; lia).
          assert (2 ^ (Z.log2 v1 + 1) <= 2 ^ 64) by (apply Z.pow_le_mono_r; lia). lia. }
        assert (2 <= 2 ^ msb_exp v2).
        { rewrite He2'. replace (Z.log2 v2 - 63) with (1 + (Z.log2 v2 - 64)) by lia.
          rewrite Z.pow_add_r by lia. pose proof (pow2_pos (Z.log2 v2 - 64) ltac:(lia)). lia. }
        nia.
      + destruct (msb_range v1 ltac:(lia)) as [Hb1 He1].
        pose proof (Rb_bounds (msb_bits v1) Hb1) as B1.
        assert (Hl1 : Z.log2 (msb_bits v1) = 63 /\ msb_exp v1 = Z.log2 v1 - 63 /\ 64 <= Z.log2 v1).
        { unfold msb_bits, msb_exp. destruct (Z.ltb_spec v1 (2 ^ 64)); [lia|].
          pose proof (log2_bounds v1 ltac:(lia)) as Hl.
          assert (H64' : 64 <= Z.log2 v1) by (apply Z.log2_le_pow2; lia).
          set (e := Z.log2 v1 - 63) in *.
          assert (E1 : 2 ^ Z.log2 v1 = 2 ^ 63 * 2 ^ e) by (rewrite <- Z.pow_add_r by (unfold e; lia); f_equal; unfold e; lia).
          assert (E2 : 2 ^ (Z.log2 v1 + 1) = 2 ^ 64 * 2 ^ e) by (rewrite <- Z.pow_add_r by (unfold e; lia); f_equal; unfold e; lia).
          pose proof (pow2_pos e ltac:(unfold e; lia)).
          split; [|split; [reflexivity|lia]]. apply log2_eq; [lia|].
          split; [apply Z.div_le_lower_bound; lia|apply Z.div_lt_upper_bound; lia]. }
        destruct Hl1 as (Hl1 & He1' & H64'). rewrite Hl1 in B1.
        pose proof (pow2_pos (msb_exp v1) He1) as H2e1.
        assert (Hll : Z.log2 v1 <= Z.log2 v2) by (apply Z.log2_le_mono; lia).
        destruct (Z.eq_dec (Z.log2 v1) (Z.log2 v2)) as [E|E].
        * assert (Hee : msb_exp v1 = msb_exp v2) by lia.
          assert (Hbb : msb_bits v1 <= msb_bits v2).
          { unfold msb_bits. rewrite Hee. apply Z.div_le_mono; lia. }
          rewrite Hee. pose proof (Rb_mono (msb_bits v1) (msb_bits v2) ltac:(lia) ltac:(lia)). nia.
        * assert (2 * 2 ^ msb_exp v1 <= 2 ^ msb_exp v2).
          { replace (msb_exp v2) with (1 + msb_exp v1 + (msb_exp v2 - msb_exp v1 - 1)) by lia.
            rewrite !Z.pow_add_r by lia. pose proof (pow2_pos (msb_exp v2 - msb_exp v1 - 1) ltac:(lia)). nia. }
          nia.
  Qed.
End ToFloat.

(* ---------- order of the result patterns ---------- *)
Section Order.
  Variables prec emax : Z.
  Hypothesis Hprec : 1 < prec < 64.
  Hypothesis Hemax : 65 <= emax.

  Lemma Fv_repr v : 0 < v -> exists M T, dy prec M T (Fv prec v) /\ 1 - prec <= T.
  Proof.
    intros Hv. destruct (msb_range v Hv) as [Hb Hk].
    destruct (u64_as_float_spec prec emax Hprec Hemax (msb_bits v) Hb) as (M & E & _ & Hdy & HE & Hneg).
    destruct Hdy as [HM HF]. exists M, (E + msb_exp v). split; [|lia].
    split; [exact HM|]. unfold Fv.
    destruct HF as [[H0 Hx]|[H0 HMF]].
    - left. split; [lia|]. rewrite Hx, Z.pow_add_r by lia. ring.
    - assert (Hk0 : msb_exp v = 0).
      { specialize (Hneg H0). unfold msb_bits, msb_exp in *.
        destruct (Z.ltb_spec v (2 ^ 64)); [reflexivity|].
        exfalso. pose proof (log2_bounds v ltac:(lia)) as Hl.
        assert (64 <= Z.log2 v) by (apply Z.log2_le_pow2; lia).
        set (e := Z.log2 v - 63) in *.
        assert (E1 : 2 ^ Z.log2 v = 2 ^ 63 * 2 ^ e)
          by (rewrite <- Z.pow_add_r by (unfold e; lia); f_equal; unfold e; lia).
        pose proof (pow2_pos e ltac:(unfold e; lia)).
        assert (2 ^ 63 <= v / 2 ^ e) by (apply Z.div_le_lower_bound; lia).
        assert (2 ^ prec <= 2 ^ 63) by (apply Z.pow_le_mono_r; lia). lia. }
      right. rewrite Hk0, Z.pow_0_r, Z.mul_1_r, Z.add_0_r. auto.
  Qed.

  Lemma fields_of_pattern BE fr : 0 <= BE < 2 * emax -> 0 <= fr < 2 ^ (prec - 1) ->
    fexpo prec emax (BE * 2 ^ (prec - 1) + fr) = BE /\ ffrac prec (BE * 2 ^ (prec - 1) + fr) = fr.
  Proof.
    intros HBE Hfr. pose proof (pow2_pos (prec - 1) ltac:(lia)) as HP. unfold fexpo, ffrac.
    assert (E : (BE * 2 ^ (prec - 1) + fr) / 2 ^ (prec - 1) = BE).
    { symmetry. apply Z.div_unique with (r := fr); [lia|ring]. }
    rewrite E. split; [apply Z.mod_small; lia|].
    rewrite Z.add_comm, Z.mod_add by lia. apply Z.mod_small. lia.
  Qed.

  Lemma fscaled_fenc F M T : dy prec M T F -> 1 - prec <= T ->
    fscaled prec emax (fenc prec emax F) = Z.min F (2 ^ emax) * 2 ^ (emax + prec - 3).
  Proof.
    intros Hdy HT. rewrite (fenc_dy prec emax Hprec Hemax M T F Hdy HT).
    destruct Hdy as [HM HF].
    pose proof (pow2_pos (prec - 1) ltac:(lia)) as HP. pose proof (pow_prec prec Hprec) as Hpw.
    set (c := emax + prec - 3).
    destruct (Z.leb_spec T (emax - prec)) as [G|G].
    - destruct (fields_of_pattern (T + emax + prec - 2) (M - 2 ^ (prec - 1)) ltac:(lia) ltac:(lia)) as [Hfe Hff].
      unfold fscaled. rewrite Hfe, Hff.
      destruct (Z.eqb_spec (T + emax + prec - 2) 0); [lia|].
      replace (2 ^ (prec - 1) + (M - 2 ^ (prec - 1))) with M by lia.
      replace (T + emax + prec - 2 - 1) with (T + c) by (unfold c; lia).
      assert (Hlt : F < 2 ^ emax).
      { destruct HF as [[H0 ->]|[H0 HMF]].
        - assert (E : 2 ^ emax = 2 ^ prec * 2 ^ (emax - prec)) by (rewrite <- Z.pow_add_r by lia; f_equal; lia).
          assert (2 ^ T <= 2 ^ (emax - prec)) by (apply Z.pow_le_mono_r; lia).
          pose proof (pow2_pos T H0). rewrite E. nia.
        - pose proof (pow2_pos (- T) ltac:(lia)).
          assert (2 ^ prec < 2 ^ emax) by (apply Z.pow_lt_mono_r; lia). nia. }
      rewrite Z.min_l by lia.
      destruct HF as [[H0 ->]|[H0 HMF]].
      + rewrite <- Z.mul_assoc, <- Z.pow_add_r by (unfold c; lia). reflexivity.
      + rewrite HMF, <- Z.mul_assoc, <- Z.pow_add_r by (unfold c; lia). f_equal. f_equal. lia.
    - destruct (fields_of_pattern (2 * emax - 1) 0 ltac:(lia) ltac:(lia)) as [Hfe Hff].
      unfold finf. rewrite <- (Z.add_0_r ((2 * emax - 1) * 2 ^ (prec - 1))).
      unfold fscaled. rewrite Hfe, Hff.
      destruct (Z.eqb_spec (2 * emax - 1) 0); [lia|]. rewrite Z.add_0_r.
      destruct HF as [[H0 ->]|[H0 HMF]]; [|lia].
      assert (Hge : 2 ^ emax <= M * 2 ^ T).
      { assert (E : 2 ^ emax = 2 ^ (prec - 1) * 2 ^ (emax - prec + 1)) by (rewrite <- Z.pow_add_r by lia; f_equal; lia).
        assert (2 ^ (emax - prec + 1) <= 2 ^ T) by (apply Z.pow_le_mono_r; lia).
        pose proof (pow2_pos (emax - prec + 1) ltac:(lia)). rewrite E. nia. }
      rewrite Z.min_r by lia. rewrite <- !Z.pow_add_r by (unfold c; lia). f_equal. unfold c. lia.
  Qed.

  Lemma fscaled_Fv v : 0 <= v ->
    fscaled prec emax (fenc prec emax (Fv prec v)) = Z.min (Fv prec v) (2 ^ emax) * 2 ^ (emax + prec - 3).
  Proof.
    intros Hv. destruct (Z.eq_dec v 0) as [->|N].
    - pose proof (pow2_pos prec ltac:(lia)). rewrite (Fv_small prec Hprec 0) by lia.
      pose proof (pow2_pos emax ltac:(lia)). rewrite Z.min_l by lia.
      unfold fenc. cbn [Z.eqb]. unfold fscaled, fexpo, ffrac.
      rewrite !Z.div_0_l, !Z.mod_0_l by (try apply Z.pow_nonzero; lia). reflexivity.
    - destruct (Fv_repr v ltac:(lia)) as (M & T & Hdy & HT). eapply fscaled_fenc; eauto.
  Qed.

  Theorem fle_Fv v1 v2 : 0 <= v1 <= v2 ->
    fle prec emax (fenc prec emax (Fv prec v1)) (fenc prec emax (Fv prec v2)) = true.
  Proof.
    intros Hv. unfold fle.
    assert (HF1 : 0 <= Fv prec v1).
    { pose proof (Fv_mono prec Hprec 0 v1 ltac:(lia)) as H. pose proof (pow2_pos prec ltac:(lia)).
      rewrite (Fv_small prec Hprec 0) in H by lia. exact H. }
    pose proof (Fv_mono prec Hprec v1 v2 Hv) as Hm.
    destruct (fenc_range prec emax Hprec Hemax (Fv prec v1) HF1) as [R1 _].
    destruct (fenc_range prec emax Hprec Hemax (Fv prec v2) ltac:(lia)) as [R2 _].
    rewrite !fscaled_Fv by lia.
    pose proof (pow2_pos (emax + prec - 3) ltac:(lia)).
    repeat (apply andb_true_iff; split); apply Z.leb_le; try lia.
    apply Z.mul_le_mono_nonneg_r; [lia|]. apply Z.min_le_compat_r. exact Hm.
  Qed.
End Order.
