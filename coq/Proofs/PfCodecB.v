(* Proofs/PfCodecB.v — characterising lemmas for Model/CodecB.v and the coherence of the
   reference grammars of Spec/FmtB.v (encoder <-> recogniser).  One lemma per model function. *)
From Coq Require Import ZArith List Bool Lia.
From RV.Model Require Import Base Word Bytes.
From RV.Model Require Bits Conv Shift Add CodecB.
From RV.Spec Require Import FmtB.
From RV.Proofs Require Import BaseFacts PfBytes.
From RV.Proofs Require PfBits PfConv PfShift PfC01.
From RV.Run Require RunC06.
Import ListNotations.
Import CodecB.
Local Open Scope Z_scope.

(* ================================================================ vocabulary bridges *)
Lemma le_fixed_digits n : forall v, le_fixed n v = le_digits n v.
Proof. induction n as [|n IH]; intros v; cbn [le_fixed le_digits]; [reflexivity|]. now rewrite IH. Qed.

Ltac digits :=
  repeat match goal with |- context [le_fixed ?n ?x] => rewrite (le_fixed_digits n x) end.

Lemma le_val_value bs : le_val bs = le_value bs.
Proof. induction bs as [|b t IH]; cbn [le_val le_value]; [reflexivity|]. now rewrite IH. Qed.

Lemma min_len_bytelen v : 0 <= v -> min_len v = bytelen v.
Proof.
  intros H. unfold min_len, bytelen.
  destruct (Z.leb_spec v 0); destruct (Z.eqb_spec v 0); try lia; reflexivity.
Qed.

Lemma SBYTES_nbytes bits : 0 <= bits -> SBYTES bits = nbytes bits.
Proof.
  intros H. unfold SBYTES, nbytes. destruct (Z.eqb_spec (bits mod 8) 0); Z.div_mod_to_equations; lia.
Qed.

Lemma le_min_digits v : 0 <= v -> le_min v = le_digits (Z.to_nat (bytelen v)) v.
Proof. intros H. unfold le_min. digits. now rewrite min_len_bytelen. Qed.

Lemma fixed_le_digits bits v : 0 <= bits -> fixed_le bits v = le_digits (nbytesN bits) v.
Proof. intros H. unfold fixed_le. digits. now rewrite SBYTES_nbytes. Qed.

(* bit length thresholds *)
Lemma bitlen_leb v k : 0 <= v -> 0 <= k -> (RunC06.bitlen v <=? k) = (v <? 2 ^ k).
Proof.
  intros Hv Hk. pose proof (PfBits.bitlen_bound v Hv) as Hb. pose proof (PfBits.bitlen_nonneg v) as Hn.
  destruct (Z.leb_spec (RunC06.bitlen v) k) as [L|L]; destruct (Z.ltb_spec v (2 ^ k)) as [M|M]; try reflexivity.
  - assert (2 ^ RunC06.bitlen v <= 2 ^ k) by (apply Z.pow_le_mono_r; lia). lia.
  - pose proof (PfBits.bitlen_le v k ltac:(lia) Hk). lia.
Qed.

Lemma bytelen_bitlen v : 0 <= v -> (RunC06.bitlen v + 7) / 8 = bytelen v.
Proof.
  intros Hv. unfold RunC06.bitlen, bytelen. destruct (Z.eqb_spec v 0); [reflexivity|].
  pose proof (Z.log2_nonneg v). Z.div_mod_to_equations. lia.
Qed.

Lemma bytelen_ge v k : 0 <= k -> 256 ^ k <= v -> k + 1 <= bytelen v.
Proof.
  intros Hk Hv. assert (0 < 256 ^ k) by (apply Z.pow_pos_nonneg; lia).
  destruct (bytelen_spec v ltac:(lia)) as (H1 & Hlo & Hhi).
  destruct (Z.lt_ge_cases (bytelen v) (k + 1)) as [L|L]; [|lia].
  assert (256 ^ bytelen v <= 256 ^ k) by (apply Z.pow_le_mono_r; lia). lia.
Qed.

Lemma bytelen_lt_pow v bits : 0 <= bits -> 0 <= v < 2 ^ bits -> bytelen v <= nbytes bits.
Proof.
  intros Hb Hv. apply bytelen_le; [now apply nbytes_nonneg|].
  pose proof (pow_bits_le_bytes bits Hb). lia.
Qed.

Lemma lenZ_le_digits n v : lenZ (le_digits n v) = Z.of_nat n.
Proof. unfold lenZ. now rewrite le_digits_length. Qed.

Lemma lor_low x k y : 0 <= y < 2 ^ k -> 0 <= k -> Z.lor (x * 2 ^ k) y = x * 2 ^ k + y.
Proof. intros Hy Hk. rewrite Z.lor_comm, (Z.mul_comm x), PfBits.lor_disjoint by lia. lia. Qed.

(* a canonical value as a non-negative number below 2^bits *)
Lemma canon_val bits a : 0 <= bits -> canon bits a -> 0 <= eval a < 2 ^ bits.
Proof. apply canon_range. Qed.

(* ================================================================ to::<T>() *)
Lemma to_prim_small bits p a :
  0 <= bits -> canon bits a -> 1 <= Conv.pw p -> (Conv.pw p <= 64 \/ Conv.pw p = 128) ->
  Conv.psigned p = false -> eval a < 2 ^ Conv.pw p ->
  to_prim bits p a = Val (eval a).
Proof.
  intros Hb Hc Hw Hww Hs Hv. unfold to_prim. rewrite PfConv.try_to_prim_spec by assumption.
  unfold Conv.prim_max. rewrite Hs. destruct (Z.leb_spec (eval a) (2 ^ Conv.pw p - 1)); [reflexivity|lia].
Qed.

(* ================================================================ SSZ, borsh *)
Lemma ssz_encode_spec bits a : 0 <= bits -> canon bits a ->
  CodecB.ssz_encode bits a = fixed_le bits (eval a).
Proof. intros. unfold CodecB.ssz_encode. now rewrite as_le_bytes_spec, fixed_le_digits. Qed.

Lemma borsh_ser_spec bits a : 0 <= bits -> canon bits a ->
  CodecB.borsh_ser bits a = fixed_le bits (eval a).
Proof. intros. unfold CodecB.borsh_ser. now rewrite as_le_slice_spec, fixed_le_digits. Qed.

Lemma lenZ_fixed_le bits v : 0 <= bits -> lenZ (fixed_le bits v) = nbytes bits.
Proof. intros H. rewrite fixed_le_digits, lenZ_le_digits by assumption. now apply nbytesN_Z. Qed.

(* the decoders, in terms of the denoted value *)
Lemma ssz_decode_spec bits inp : 0 <= bits -> Forall isbyte inp ->
  CodecB.ssz_decode bits inp =
    Val (if lenZ inp =? nbytes bits then
           if le_value inp <? 2 ^ bits then Ok (uint_of bits (le_value inp)) else Err 2 []
         else Err 1 [lenZ inp; nbytes bits]).
Proof.
  intros Hb Hi. unfold CodecB.ssz_decode. destruct (Z.eqb_spec (lenZ inp) (nbytes bits)) as [E|E]; cbn [negb]; [|reflexivity].
  rewrite try_from_le_slice_spec by assumption. cbn [obind].
  destruct (Z.leb_spec (lenZ inp) (nbytes bits)); [|lia]. cbn [andb].
  destruct (le_value inp <? 2 ^ bits); reflexivity.
Qed.

Lemma borsh_de_spec bits inp : 0 <= bits -> Forall isbyte inp ->
  CodecB.borsh_de bits inp =
    Val (if lenZ inp <? nbytes bits then Err 1 []
         else let t := firstn (nbytesN bits) inp in
              if le_value t <? 2 ^ bits then Ok (uint_of bits (le_value t), skipn (nbytesN bits) inp)
              else Err 2 []).
Proof.
  intros Hb Hi. unfold CodecB.borsh_de. destruct (Z.ltb_spec (lenZ inp) (nbytes bits)) as [L|L]; [reflexivity|].
  rewrite try_from_le_slice_spec by (auto using Forall_firstn'). cbn [obind].
  assert (Hl : lenZ (firstn (nbytesN bits) inp) = nbytes bits).
  { unfold lenZ in *. rewrite firstn_length. pose proof (nbytesN_Z bits Hb). lia. }
  rewrite Hl, Z.leb_refl. cbn [andb]. cbv zeta.
  destruct (le_value (firstn (nbytesN bits) inp) <? 2 ^ bits); reflexivity.
Qed.

(* ================================================================ SCALE: third-party pieces *)
Lemma compact_u32_encode_spec v : 0 <= v < 2 ^ 32 -> compact_u32_encode v = compact v.
Proof.
  intros Hv. unfold compact_u32_encode, compact.
  destruct (Z.leb_spec v 63); destruct (Z.ltb_spec v (2 ^ 6)); try lia.
  - rewrite Z.mod_small by lia. f_equal. lia.
  - destruct (Z.leb_spec v 16383); destruct (Z.ltb_spec v (2 ^ 14)); try lia.
    + rewrite Z.mod_small by lia. change 4 with (2 ^ 2) at 1. rewrite lor_low by lia.
      digits. f_equal. lia.
    + destruct (Z.leb_spec v 1073741823); destruct (Z.ltb_spec v (2 ^ 30)); try lia.
      * rewrite Z.mod_small by lia. change 4 with (2 ^ 2) at 1. rewrite lor_low by lia.
        digits. f_equal. lia.
      * assert (Hb : bytelen v = 4).
        { apply bytelen_unique; [lia|]. change (256 ^ (4 - 1)) with (2 ^ 24). change (256 ^ 4) with (2 ^ 32). lia. }
        rewrite le_min_digits, min_len_bytelen, Hb by lia. reflexivity.
Qed.

Lemma compact_len_u32_spec v : 0 <= v < 2 ^ 32 -> compact_len_u32 v = lenZ (compact v).
Proof.
  intros Hv. unfold compact_len_u32, compact.
  destruct (Z.leb_spec v 63); destruct (Z.ltb_spec v (2 ^ 6)); try lia; [reflexivity|].
  destruct (Z.leb_spec v 16383); destruct (Z.ltb_spec v (2 ^ 14)); try lia; [reflexivity|].
  destruct (Z.leb_spec v 1073741823); destruct (Z.ltb_spec v (2 ^ 30)); try lia; [reflexivity|].
  assert (Hb : bytelen v = 4).
  { apply bytelen_unique; [lia|]. change (256 ^ (4 - 1)) with (2 ^ 24). change (256 ^ 4) with (2 ^ 32). lia. }
  rewrite le_min_digits by lia. rewrite Hb. reflexivity.
Qed.

(* ================================================================ SCALE plain encode *)
Lemma nbytes_lt32 bits : 0 <= bits < 2 ^ 32 -> 0 <= nbytes bits < 2 ^ 30.
Proof. intros H. unfold nbytes. change (2 ^ 32) with 4294967296 in H. change (2 ^ 30) with 1073741824. Z.div_mod_to_equations. lia. Qed.

Lemma scale_encode_spec bits a : 0 <= bits < 2 ^ 32 -> canon bits a ->
  CodecB.scale_encode bits a = Val (scale_uint bits (eval a)).
Proof.
  intros Hb Hc. unfold CodecB.scale_encode, vec_u8_encode, scale_uint, scale_bytes.
  rewrite as_le_bytes_spec by (assumption || lia).
  digits. rewrite SBYTES_nbytes by lia. fold (nbytesN bits).
  rewrite lenZ_le_digits, nbytesN_Z by lia. pose proof (nbytes_lt32 bits Hb).
  destruct (Z.ltb_spec (2 ^ 32 - 1) (nbytes bits)); [change (2 ^ 32) with 4294967296 in *; change (2 ^ 30) with 1073741824 in *; lia|].
  rewrite compact_u32_encode_spec by (change (2 ^ 32) with 4294967296 in *; change (2 ^ 30) with 1073741824 in *; lia).
  reflexivity.
Qed.

Lemma lenZ_scale_uint bits v : 0 <= bits < 2 ^ 32 ->
  lenZ (scale_uint bits v) = compact_len_u32 (nbytes bits) + nbytes bits.
Proof.
  intros Hb. unfold scale_uint, scale_bytes. pose proof (nbytes_lt32 bits Hb).
  rewrite lenZ_app. digits. rewrite SBYTES_nbytes by lia. fold (nbytesN bits).
  rewrite lenZ_le_digits, nbytesN_Z by lia.
  rewrite compact_len_u32_spec by (change (2 ^ 32) with 4294967296 in *; change (2 ^ 30) with 1073741824 in *; lia).
  reflexivity.
Qed.

Lemma compact_len_u32_le4 n : 0 <= n < 2 ^ 30 -> 1 <= compact_len_u32 n <= 4.
Proof.
  intros H. unfold compact_len_u32. change (2 ^ 30) with 1073741824 in H.
  destruct (n <=? 63); [lia|]. destruct (n <=? 16383); [lia|]. destruct (Z.leb_spec n 1073741823); lia.
Qed.

(* ================================================================ SCALE compact: encoder *)
Lemma nbytes_le67 bits : 0 <= bits < 536 -> nbytes bits <= 67.
Proof. intros H. unfold nbytes. Z.div_mod_to_equations. lia. Qed.

Lemma lenZ_compact v : 0 <= v ->
  lenZ (compact v) = if v <? 2 ^ 6 then 1 else if v <? 2 ^ 14 then 2 else if v <? 2 ^ 30 then 4
                     else bytelen v + 1.
Proof.
  intros Hv. unfold compact. destruct (v <? 2 ^ 6); [reflexivity|]. destruct (v <? 2 ^ 14); [reflexivity|].
  destruct (v <? 2 ^ 30); [reflexivity|]. rewrite lenZ_cons, le_min_digits, lenZ_le_digits by lia.
  pose proof (bytelen_nonneg v Hv). lia.
Qed.

Lemma compact_size_hint_spec bits a : 0 <= bits -> canon bits a ->
  CodecB.compact_size_hint bits a = Val (lenZ (compact (eval a))).
Proof.
  intros Hb Hc. pose proof (canon_val bits a Hb Hc) as Hv.
  unfold CodecB.compact_size_hint. rewrite PfBits.bit_len_spec by assumption. cbn [obind].
  rewrite !bitlen_leb, lenZ_compact by lia.
  destruct (eval a <? 2 ^ 6); [reflexivity|]. destruct (eval a <? 2 ^ 14); [reflexivity|].
  destruct (eval a <? 2 ^ 30); [reflexivity|].
  rewrite PfBits.byte_len_spec by assumption. cbn [obind]. now rewrite bytelen_bitlen by lia.
Qed.

Lemma compact_encode_panics bits a : COMPACT_MAX_BITS <= bits -> CodecB.compact_encode bits a = Panic.
Proof.
  intros H. unfold CodecB.compact_encode, assert_compact_supported, COMPACT_BITS_LIMIT, COMPACT_MAX_BITS in *.
  destruct (Z.ltb_spec bits 536); [lia|reflexivity].
Qed.

Lemma compact_encode_spec bits a : 0 <= bits < COMPACT_MAX_BITS -> canon bits a ->
  CodecB.compact_encode bits a = Val (compact (eval a)).
Proof.
  intros Hb Hc. unfold COMPACT_MAX_BITS in Hb. pose proof (canon_val bits a ltac:(lia) Hc) as Hv.
  unfold CodecB.compact_encode, assert_compact_supported, COMPACT_BITS_LIMIT.
  destruct (Z.ltb_spec bits 536); [|lia]. cbn [obind].
  rewrite PfBits.bit_len_spec by (assumption || lia). cbn [obind].
  rewrite !bitlen_leb by lia. unfold compact.
  destruct (Z.ltb_spec (eval a) (2 ^ 6)) as [H6|H6].
  { rewrite to_prim_small; try (assumption || lia || reflexivity); cbn [U8 Conv.pw]; try lia.
    cbn [obind]. rewrite Z.mod_small by lia. do 2 f_equal. lia. }
  destruct (Z.ltb_spec (eval a) (2 ^ 14)) as [H14|H14].
  { rewrite to_prim_small; try (assumption || lia || reflexivity); cbn [U16 Conv.pw]; try lia.
    cbn [obind]. rewrite Z.mod_small by lia. change 4 with (2 ^ 2) at 1. rewrite lor_low by lia.
    digits. do 2 f_equal. lia. }
  destruct (Z.ltb_spec (eval a) (2 ^ 30)) as [H30|H30].
  { rewrite to_prim_small; try (assumption || lia || reflexivity); cbn [U32 Conv.pw]; try lia.
    cbn [obind]. rewrite Z.mod_small by lia. change 4 with (2 ^ 2) at 1. rewrite lor_low by lia.
    digits. do 2 f_equal. lia. }
  rewrite PfBits.byte_len_spec by (assumption || lia). cbn [obind]. rewrite bytelen_bitlen by lia.
  pose proof (bytelen_ge (eval a) 3 ltac:(lia) ltac:(change (256 ^ 3) with (2 ^ 24); lia)) as Hge.
  pose proof (bytelen_lt_pow (eval a) bits ltac:(lia) Hv) as Hle.
  pose proof (nbytes_le67 bits ltac:(lia)) as H67.
  destruct (Z.ltb_spec (bytelen (eval a)) 4); [lia|].
  change (2 ^ 8) with 256. rewrite Z.mod_small by lia.
  destruct (Z.ltb_spec (3 + (bytelen (eval a) - 4) * 4) 256); [|lia]. cbn [obind].
  rewrite as_le_bytes_trimmed_spec by (assumption || lia). cbn [obind].
  rewrite le_min_digits, min_len_bytelen by lia. do 2 f_equal. lia.
Qed.

(* ================================================================ DER: encoder *)
Lemma le_digits_1 x : le_digits 1 x = [x mod 256].
Proof. now rewrite le_digits_S. Qed.

(* the big-endian minimal digits start with the top digit *)
Lemma be_min_head v : 0 < v ->
  exists t, be_min v = (v / 256 ^ (bytelen v - 1)) :: t /\ lenZ t = bytelen v - 1.
Proof.
  intros Hv. destruct (bytelen_spec v Hv) as (H1 & Hlo & Hhi).
  unfold be_min. rewrite le_min_digits by lia.
  replace (Z.to_nat (bytelen v)) with (Z.to_nat (bytelen v - 1) + 1)%nat by lia.
  rewrite le_digits_app, rev_app_distr, le_digits_1. cbn [rev app].
  rewrite Z2Nat.id by lia. eexists. split.
  - f_equal. apply Z.mod_small. split; [apply Z.div_pos; lia|].
    apply Z.div_lt_upper_bound; [lia|]. replace (bytelen v) with (Z.succ (bytelen v - 1)) in Hhi at 1 by lia.
    rewrite Z.pow_succ_r in Hhi by lia. lia.
  - rewrite lenZ_rev, lenZ_le_digits. lia.
Qed.

Lemma be_min_0 : be_min 0 = [].
Proof. reflexivity. Qed.

Lemma lenZ_der_content v : 0 <= v -> lenZ (der_content v) = 1 + RunC06.bitlen v / 8.
Proof.
  intros Hv. unfold der_content. destruct (Z.eq_dec v 0) as [->|Hnz]; [reflexivity|].
  destruct (be_min_head v ltac:(lia)) as (t & E & Ht). rewrite E.
  destruct (bytelen_spec v ltac:(lia)) as (H1 & Hlo & Hhi).
  set (n := bytelen v) in *. set (T := v / 256 ^ (n - 1)).
  assert (Hp : 0 < 256 ^ (n - 1)) by (apply Z.pow_pos_nonneg; lia).
  assert (HT : T * 256 ^ (n - 1) <= v < (T + 1) * 256 ^ (n - 1)).
  { unfold T. pose proof (Z.div_mod v (256 ^ (n - 1)) ltac:(lia)). pose proof (Z.mod_pos_bound v (256 ^ (n - 1)) Hp). nia. }
  assert (E256 : 256 ^ n = 256 * 256 ^ (n - 1)).
  { replace n with (Z.succ (n - 1)) at 1 by lia. now rewrite Z.pow_succ_r by lia. }
  rewrite p256_pow2 in * by lia.
  pose proof (PfBits.bitlen_bound v Hv) as Hbb. pose proof (PfBits.bitlen_nonneg v) as Hbn.
  pose proof (PfBits.bitlen_le v (8 * n) ltac:(lia) ltac:(lia)) as Hble.
  destruct (Z.leb_spec 128 T) as [Htop|Htop].
  - (* top bit set: bit length = 8 n *)
    assert (2 ^ (8 * n - 1) <= v).
    { replace (8 * n - 1) with (7 + 8 * (n - 1)) by lia. rewrite Z.pow_add_r by lia. change (2 ^ 7) with 128. nia. }
    assert (8 * n - 1 < RunC06.bitlen v).
    { apply (Z.pow_lt_mono_r_iff 2); lia. }
    rewrite !lenZ_cons, Ht. replace (RunC06.bitlen v) with (8 * n) by lia.
    rewrite Z.mul_comm, Z.div_mul by lia. lia.
  - assert (v < 2 ^ (8 * n - 1)).
    { replace (8 * n - 1) with (7 + 8 * (n - 1)) by lia. rewrite Z.pow_add_r by lia. change (2 ^ 7) with 128. nia. }
    pose proof (PfBits.bitlen_le v (8 * n - 1) ltac:(lia) ltac:(lia)).
    assert (8 * (n - 1) < RunC06.bitlen v).
    { apply (Z.pow_lt_mono_r_iff 2); lia. }
    rewrite lenZ_cons, Ht. Z.div_mod_to_equations. lia.
Qed.

Lemma der_value_len_spec bits a : 0 <= bits < 2 ^ 30 -> canon bits a ->
  CodecB.der_value_len bits a = Val (Ok (lenZ (der_content (eval a)))).
Proof.
  intros Hb Hc. pose proof (canon_val bits a ltac:(lia) Hc) as Hv.
  unfold CodecB.der_value_len. rewrite PfBits.bit_len_spec by (assumption || lia). cbn [obind].
  rewrite lenZ_der_content by lia. unfold length_try_from, LENGTH_MAX.
  pose proof (PfBits.bitlen_le (eval a) bits Hv ltac:(lia)). pose proof (PfBits.bitlen_nonneg (eval a)).
  change (2 ^ 30) with 1073741824 in Hb.
  destruct (Z.leb_spec (1 + RunC06.bitlen (eval a) / 8) 268435455); [reflexivity|].
  Z.div_mod_to_equations. lia.
Qed.

Lemma der_encode_value_spec bits a : 0 <= bits -> canon bits a ->
  CodecB.der_encode_value bits a = Val (der_content (eval a)).
Proof.
  intros Hb Hc. pose proof (canon_val bits a Hb Hc) as Hv.
  unfold CodecB.der_encode_value. rewrite to_be_bytes_trimmed_vec_spec by assumption. cbn [obind].
  unfold der_content, be_min. rewrite le_min_digits by lia.
  destruct (rev (le_digits (Z.to_nat (bytelen (eval a))) (eval a))) as [|b t]; [reflexivity|].
  destruct (128 <=? b); reflexivity.
Qed.

Lemma length_encode_spec n : 0 <= n < 2 ^ 32 -> length_encode n = der_len n.
Proof.
  intros Hn. unfold length_encode, der_len. destruct (Z.ltb_spec n 128); [reflexivity|].
  assert (forall k, 1 <= k -> 256 ^ (k - 1) <= n < 256 ^ k ->
            (128 + min_len n) :: be_min n = (128 + k) :: rev (le_digits (Z.to_nat k) n)) as Hk.
  { intros k Hk1 Hr. pose proof (bytelen_unique n k Hk1 Hr) as E.
    unfold be_min. rewrite le_min_digits, min_len_bytelen, E by lia. reflexivity. }
  destruct (Z.ltb_spec n (2 ^ 8)).
  { rewrite (Hk 1) by (cbn; lia). reflexivity. }
  destruct (Z.ltb_spec n (2 ^ 16)).
  { rewrite (Hk 2) by (cbn; lia). reflexivity. }
  destruct (Z.ltb_spec n (2 ^ 24)).
  { rewrite (Hk 3) by (cbn; lia). reflexivity. }
  rewrite (Hk 4) by (cbn; lia). reflexivity.
Qed.

Lemma lenZ_length_encode n : 0 <= n -> 1 <= lenZ (length_encode n) <= 5.
Proof.
  intros Hn. unfold length_encode.
  repeat match goal with |- context [if ?c then _ else _] => destruct c end;
    rewrite ?lenZ_cons, ?lenZ_rev, ?lenZ_le_digits; cbn; lia.
Qed.

Lemma lenZ_der_content_bound bits v : 0 <= bits -> 0 <= v < 2 ^ bits -> 1 <= lenZ (der_content v) <= nbytes bits + 1.
Proof.
  intros Hb Hv. rewrite lenZ_der_content by lia.
  pose proof (PfBits.bitlen_le v bits Hv Hb). pose proof (PfBits.bitlen_nonneg v).
  unfold nbytes. Z.div_mod_to_equations. lia.
Qed.

Lemma nbytes_lt30 bits : 0 <= bits < 2 ^ 30 -> 0 <= nbytes bits <= 2 ^ 27.
Proof. intros H. unfold nbytes. change (2 ^ 30) with 1073741824 in H. change (2 ^ 27) with 134217728. Z.div_mod_to_equations. lia. Qed.

Lemma der_encode_spec bits a : 0 <= bits < 2 ^ 30 -> canon bits a ->
  CodecB.der_encode bits a = Val (Ok (der_integer (eval a))).
Proof.
  intros Hb Hc. pose proof (canon_val bits a ltac:(lia) Hc) as Hv.
  unfold CodecB.der_encode. rewrite der_value_len_spec by assumption. cbn [obind].
  set (c := der_content (eval a)).
  pose proof (lenZ_der_content_bound bits (eval a) ltac:(lia) Hv) as Hcl. fold c in Hcl.
  pose proof (nbytes_lt30 bits Hb) as Hn. change (2 ^ 27) with 134217728 in Hn.
  pose proof (lenZ_length_encode (lenZ c) ltac:(lia)).
  unfold length_try_from, LENGTH_MAX.
  destruct (Z.leb_spec (1 + lenZ (length_encode (lenZ c)) + lenZ c) 268435455); [|lia].
  rewrite der_encode_value_spec by (assumption || lia). cbn [obind]. fold c.
  rewrite Z.ltb_irrefl. rewrite length_encode_spec by (change (2 ^ 32) with 4294967296; lia).
  reflexivity.
Qed.

Lemma der_encoded_len_spec bits a : 0 <= bits < 2 ^ 30 -> canon bits a ->
  CodecB.der_encoded_len bits a = Val (Ok (lenZ (der_integer (eval a)))).
Proof.
  intros Hb Hc. pose proof (canon_val bits a ltac:(lia) Hc) as Hv.
  unfold CodecB.der_encoded_len. rewrite der_value_len_spec by assumption. cbn [obind].
  set (c := der_content (eval a)).
  pose proof (lenZ_der_content_bound bits (eval a) ltac:(lia) Hv) as Hcl. fold c in Hcl.
  pose proof (nbytes_lt30 bits Hb) as Hn. change (2 ^ 27) with 134217728 in Hn.
  pose proof (lenZ_length_encode (lenZ c) ltac:(lia)).
  unfold length_try_from, LENGTH_MAX, der_integer. fold c.
  destruct (Z.leb_spec (1 + lenZ (length_encode (lenZ c)) + lenZ c) 268435455); [|lia].
  rewrite lenZ_cons, lenZ_app, length_encode_spec by (change (2 ^ 32) with 4294967296; lia).
  do 2 f_equal. lia.
Qed.

(* ================================================================ list plumbing *)
Lemma firstn_app_exact {A} (l tl : list A) n : n = length l -> firstn n (l ++ tl) = l.
Proof. intros ->. rewrite firstn_app, Nat.sub_diag, firstn_O, app_nil_r. apply firstn_all. Qed.
Lemma skipn_app_exact {A} (l tl : list A) n : n = length l -> skipn n (l ++ tl) = tl.
Proof. intros ->. rewrite skipn_app, Nat.sub_diag, skipn_all. reflexivity. Qed.

Lemma take_app l tl n : lenZ l = n -> take n (l ++ tl) = Some l.
Proof.
  intros E. unfold take. rewrite lenZ_app. pose proof (lenZ_nonneg tl).
  destruct (Z.ltb_spec (lenZ l + lenZ tl) n); [lia|]. f_equal. apply firstn_app_exact. unfold lenZ in E. lia.
Qed.
Lemma take_some n l bs : take n l = Some bs -> 0 <= n ->
  bs = firstn (Z.to_nat n) l /\ lenZ bs = n /\ n <= lenZ l.
Proof.
  unfold take. destruct (Z.ltb_spec (lenZ l) n); [discriminate|]. intros [= <-] Hn.
  split; [reflexivity|]. split; [|lia]. unfold lenZ in *. rewrite firstn_length. lia.
Qed.
Lemma lenZ_firstn {A} (l : list A) n : 0 <= n <= lenZ l -> lenZ (firstn (Z.to_nat n) l) = n.
Proof. intros H. unfold lenZ in *. rewrite firstn_length. lia. Qed.
Lemma lenZ_skipn {A} (l : list A) n : 0 <= n <= lenZ l -> lenZ (skipn (Z.to_nat n) l) = lenZ l - n.
Proof. intros H. unfold lenZ in *. rewrite skipn_length. lia. Qed.

Lemma in_read_spec n inp : 0 <= n ->
  in_read n inp = match take n inp with
                  | Some bs => Ok (bs, skipn (Z.to_nat n) inp)
                  | None => Err S_EOF []
                  end.
Proof. intros Hn. unfold in_read, take. destruct (lenZ inp <? n); reflexivity. Qed.

Lemma read_bytes_spec k : forall inp, read_bytes k inp = in_read (Z.of_nat k) inp.
Proof.
  induction k as [|k IH]; intros inp.
  - unfold in_read. cbn [read_bytes]. pose proof (lenZ_nonneg inp).
    destruct (Z.ltb_spec (lenZ inp) (Z.of_nat 0)); [lia|]. reflexivity.
  - cbn [read_bytes]. destruct inp as [|b rest]; cbn [in_read_byte].
    + unfold in_read. rewrite lenZ_nil. destruct (Z.ltb_spec 0 (Z.of_nat (S k))); [reflexivity|lia].
    + rewrite IH. unfold in_read. rewrite lenZ_cons, !Nat2Z.id.
      destruct (Z.ltb_spec (lenZ rest) (Z.of_nat k)); destruct (Z.ltb_spec (1 + lenZ rest) (Z.of_nat (S k))); try lia; reflexivity.
Qed.

(* bytes denote numbers below 256^len *)
Lemma le_value_range bs : Forall isbyte bs -> 0 <= le_value bs < 256 ^ lenZ bs.
Proof. intros H. exact (le_value_bound bs H). Qed.

Lemma le_value_digits_small n v : 0 <= v < 256 ^ Z.of_nat n -> le_value (le_digits n v) = v.
Proof. intros H. rewrite le_value_le_digits. apply Z.mod_small. lia. Qed.

(* ================================================================ compact: grammar coherence *)
Lemma compact_isbyte v : 0 <= v < 2 ^ 536 -> Forall isbyte (compact v).
Proof.
  intros Hv. unfold compact.
  destruct (Z.ltb_spec v (2 ^ 6)). { repeat constructor; unfold isbyte; lia. }
  destruct (Z.ltb_spec v (2 ^ 14)). { digits. apply le_digits_isbyte. }
  destruct (Z.ltb_spec v (2 ^ 30)). { digits. apply le_digits_isbyte. }
  constructor; [|rewrite le_min_digits by lia; apply le_digits_isbyte].
  rewrite min_len_bytelen by lia.
  pose proof (bytelen_ge v 3 ltac:(lia) ltac:(change (256 ^ 3) with (2 ^ 24); lia)).
  pose proof (bytelen_le v 67 ltac:(lia) ltac:(change (256 ^ 67) with (2 ^ 536); lia)).
  unfold isbyte. lia.
Qed.

Theorem compact_denote_compact v tl : 0 <= v < 2 ^ 536 ->
  compact_denote (compact v ++ tl) = Some (v, lenZ (compact v)).
Proof.
  intros Hv. unfold compact.
  destruct (Z.ltb_spec v (2 ^ 6)) as [H6|H6].
  { cbn [app compact_denote]. replace ((4 * v) mod 4) with 0 by (Z.div_mod_to_equations; lia).
    cbn [Z.eqb Pos.eqb]. do 2 f_equal. Z.div_mod_to_equations; lia. }
  destruct (Z.ltb_spec v (2 ^ 14)) as [H14|H14].
  { digits. set (w := 4 * v + 1).
    assert (Hb0 : exists b0 t, le_digits 2 w = b0 :: t /\ b0 mod 4 = 1).
    { rewrite le_digits_S. eexists _, _. split; [reflexivity|]. unfold w. Z.div_mod_to_equations; lia. }
    destruct Hb0 as (b0 & t & E & Hm).
    assert (Hlen : lenZ (le_digits 2 w) = 2) by apply lenZ_le_digits.
    assert (Hval : le_value (le_digits 2 w) = w).
    { apply le_value_digits_small. change (256 ^ Z.of_nat 2) with (2 ^ 16). unfold w. lia. }
    pose proof (take_app (le_digits 2 w) tl 2 Hlen) as HT.
    rewrite E in *. cbn [app compact_denote]. rewrite Hm. cbn [Z.eqb Pos.eqb].
    cbn [app] in HT. rewrite HT. cbn [option_map]. rewrite le_val_value, Hval, Hlen.
    do 2 f_equal. unfold w. Z.div_mod_to_equations; lia. }
  destruct (Z.ltb_spec v (2 ^ 30)) as [H30|H30].
  { digits. set (w := 4 * v + 2).
    assert (Hb0 : exists b0 t, le_digits 4 w = b0 :: t /\ b0 mod 4 = 2).
    { rewrite le_digits_S. eexists _, _. split; [reflexivity|]. unfold w. Z.div_mod_to_equations; lia. }
    destruct Hb0 as (b0 & t & E & Hm). 
    assert (Hlen : lenZ (le_digits 4 w) = 4) by apply lenZ_le_digits.
    assert (Hval : le_value (le_digits 4 w) = w).
    { apply le_value_digits_small. change (256 ^ Z.of_nat 4) with (2 ^ 32). unfold w. lia. }
    pose proof (take_app (le_digits 4 w) tl 4 Hlen) as HT.
    rewrite E in *. cbn [app compact_denote]. rewrite Hm. cbn [Z.eqb Pos.eqb].
    cbn [app] in HT. rewrite HT. cbn [option_map]. rewrite le_val_value, Hval, Hlen.
    do 2 f_equal. unfold w. Z.div_mod_to_equations; lia. }
  rewrite min_len_bytelen, le_min_digits by lia.
  pose proof (bytelen_ge v 3 ltac:(lia) ltac:(change (256 ^ 3) with (2 ^ 24); lia)) as Hge.
  pose proof (bytelen_le v 67 ltac:(lia) ltac:(change (256 ^ 67) with (2 ^ 536); lia)) as Hle.
  pose proof (bytelen_bound v ltac:(lia)) as Hbd.
  set (n := bytelen v) in *. cbn [app compact_denote].
  replace ((4 * (n - 4) + 3) mod 4) with 3 by (Z.div_mod_to_equations; lia). cbn [Z.eqb Pos.eqb].
  replace ((4 * (n - 4) + 3) / 4 + 4) with n by (Z.div_mod_to_equations; lia).
  rewrite take_app by (rewrite lenZ_le_digits; lia). cbn [option_map].
  rewrite le_val_value, le_value_digits_small by (rewrite Z2Nat.id by lia; lia).
  rewrite lenZ_cons, lenZ_le_digits, Z2Nat.id by lia. reflexivity.
Qed.

(* what compact_denote returns is well-formed *)
Lemma compact_denote_some inp v used : Forall isbyte inp -> compact_denote inp = Some (v, used) ->
  0 <= v /\ 1 <= used <= lenZ inp.
Proof.
  intros Hi. destruct inp as [|b0 rest]; [discriminate|]. cbn [compact_denote].
  inversion Hi as [|? ? Hb0 Hrest]; subst. unfold isbyte in Hb0. rewrite lenZ_cons. pose proof (lenZ_nonneg rest).
  destruct (b0 mod 4 =? 0).
  { intros [= <- <-]. split; [apply Z.div_pos; lia|lia]. }
  destruct (b0 mod 4 =? 1).
  { destruct (take 2 (b0 :: rest)) as [bs|] eqn:ET; [|discriminate]. cbn [option_map]. intros [= <- <-].
    apply take_some in ET; [|lia]. destruct ET as (-> & _ & Hl). rewrite lenZ_cons in Hl.
    rewrite le_val_value. pose proof (le_value_range _ (Forall_firstn' isbyte (Z.to_nat 2) _ Hi)).
    split; [apply Z.div_pos; lia|lia]. }
  destruct (b0 mod 4 =? 2).
  { destruct (take 4 (b0 :: rest)) as [bs|] eqn:ET; [|discriminate]. cbn [option_map]. intros [= <- <-].
    apply take_some in ET; [|lia]. destruct ET as (-> & _ & Hl). rewrite lenZ_cons in Hl.
    rewrite le_val_value. pose proof (le_value_range _ (Forall_firstn' isbyte (Z.to_nat 4) _ Hi)).
    split; [apply Z.div_pos; lia|lia]. }
  assert (0 <= b0 / 4) by (apply Z.div_pos; lia).
  destruct (take (b0 / 4 + 4) rest) as [bs|] eqn:ET; [|discriminate]. unfold option_map.
  remember (1 + (b0 / 4 + 4)) as u eqn:Eu. intros [= <- <-].
  apply take_some in ET; [|lia]. destruct ET as (-> & _ & Hl).
  rewrite le_val_value. pose proof (le_value_range _ (Forall_firstn' isbyte (Z.to_nat (b0 / 4 + 4)) _ Hrest)).
  lia.
Qed.

(* ================================================================ compact: decoder *)
Lemma uint_of_canon bits v : 0 <= bits -> 0 <= v < 2 ^ bits ->
  canon bits (uint_of bits v) /\ eval (uint_of bits v) = v.
Proof.
  intros Hb Hv. unfold uint_of.
  assert (He : eval (to_limbs (nlimbsN bits) v) = v).
  { rewrite eval_to_limbs, Bn_pow2, nlimbsN_Z by lia. apply Z.mod_small.
    destruct (Z.eq_dec bits 0) as [->|N]; [change (2 ^ 0) with 1 in Hv; change (nlimbs 0) with 0; cbn; lia|].
    pose proof (nlimbs_bounds bits ltac:(lia)).
    assert (2 ^ bits <= 2 ^ (64 * nlimbs bits)) by (apply Z.pow_le_mono_r; lia). lia. }
  split; [|exact He]. unfold canon. rewrite to_limbs_length, He.
  split; [reflexivity|]. split; [apply to_limbs_inW|lia].
Qed.

Lemma uint_of_0 bits : 0 <= bits -> uint_of bits 0 = uZERO bits.
Proof.
  intros H. symmetry. destruct (canon_uZERO bits H) as [Hc He]. apply uint_of_unique; auto.
Qed.

Definition is_uprim (p : Conv.prim) : Prop :=
  1 <= Conv.pw p /\ (Conv.pw p <= 64 \/ Conv.pw p = 128) /\ Conv.psigned p = false.

Lemma prim_into_spec bits p x rest : 0 <= bits -> is_uprim p -> 0 <= x < 2 ^ Conv.pw p ->
  prim_into bits p x rest = Val (if x <? 2 ^ bits then Ok (uint_of bits x, rest) else Err S_RANGE []).
Proof.
  intros Hb (Hw & Hww & Hs) Hx. unfold prim_into.
  rewrite PfConv.try_from_prim_spec; try assumption.
  2:{ unfold Conv.prim_min, Conv.prim_max. rewrite Hs. lia. }
  destruct (Z.ltb_spec x 0); [lia|]. cbn [obind]. unfold PfConv.res_of.
  destruct (x <? 2 ^ bits); reflexivity.
Qed.

Lemma uprim_U8 : is_uprim U8. Proof. repeat split; cbn; lia. Qed.
Lemma uprim_U16 : is_uprim U16. Proof. repeat split; cbn; lia. Qed.
Lemma uprim_U32 : is_uprim U32. Proof. repeat split; cbn; lia. Qed.
Lemma uprim_U64 : is_uprim U64. Proof. repeat split; cbn; lia. Qed.
Lemma uprim_U128 : is_uprim U128. Proof. repeat split; cbn; lia. Qed.

(* the all-ones bound built in the big-integer arm: vec![u64::MAX; limbs] with the top limb masked *)
Lemma land_max_ones k : 0 <= k < 64 -> Z.land (B - 1) (2 ^ k - 1) = 2 ^ k - 1.
Proof.
  intros Hk. rewrite land_ones_mod by lia. rewrite B_pow.
  assert (0 < 2 ^ k) by (apply Z.pow_pos_nonneg; lia).
  replace (2 ^ 64) with (2 ^ k * 2 ^ (64 - k)) by (rewrite <- Z.pow_add_r by lia; f_equal; lia).
  assert (0 < 2 ^ (64 - k)) by (apply Z.pow_pos_nonneg; lia).
  symmetry. apply Z.mod_unique with (q := 2 ^ (64 - k) - 1); lia.
Qed.

Lemma mask_limbs_spec n : 1 <= n ->
  let bits8 := n * 8 in
  let limbs := (bits8 + 64 - 1) / 64 in
  let new_limbs := repeat (B - 1) (Z.to_nat limbs) in
  exists l,
    (if 0 <? bits8 then
       do top <- idx new_limbs (limbs - 1);
       upd new_limbs (limbs - 1) (top_and bits8 top)
     else Val new_limbs) = Val l /\ Forall inW l /\ eval l = 2 ^ (8 * n) - 1.
Proof.
  intros Hn bits8 limbs new_limbs.
  assert (Hl1 : 1 <= limbs) by (unfold limbs, bits8; Z.div_mod_to_equations; lia).
  destruct (Z.ltb_spec 0 bits8); [|unfold bits8 in *; lia].
  set (m := Z.to_nat (limbs - 1)).
  assert (Enl : new_limbs = repeat (B - 1) m ++ [B - 1]).
  { unfold new_limbs. replace (Z.to_nat limbs) with (S m) by (unfold m; lia).
    cbn [repeat]. apply repeat_cons. }
  assert (Hpre : lenZ (repeat (B - 1) m) = limbs - 1).
  { unfold lenZ. rewrite repeat_length. unfold m. lia. }
  rewrite Enl, idx_app_mid by exact Hpre. cbn [obind]. rewrite upd_app_mid by exact Hpre.
  pose proof B_pos as HB.
  assert (HinW : Forall inW (repeat (B - 1) m)).
  { apply Forall_forall. intros x Hx. apply repeat_spec in Hx. subst x. unfold inW. lia. }
  eexists. split; [reflexivity|].
  rewrite eval_app, repeat_length, eval_repeat_max. cbn [eval]. rewrite Z.mul_0_r, Z.add_0_r.
  rewrite Bn_pow2. unfold top_and.
  assert (HmZ : Z.of_nat m = limbs - 1) by (unfold m; lia).
  destruct (Z.eqb_spec (bits8 mod 64) 0) as [E0|E0].
  - rewrite Z.land_diag. split.
    + apply Forall_app. split; [exact HinW|]. repeat constructor; lia.
    + rewrite B_pow. replace (8 * n) with (64 * Z.of_nat m + 64)
        by (rewrite HmZ; unfold limbs, bits8 in *; Z.div_mod_to_equations; lia).
      rewrite Z.pow_add_r by lia. lia.
  - pose proof (Z.mod_pos_bound bits8 64 ltac:(lia)) as Hk.
    assert (Hp : 0 < 2 ^ (bits8 mod 64)) by (apply Z.pow_pos_nonneg; lia).
    assert (Hlt : 2 ^ (bits8 mod 64) < B).
    { rewrite B_pow. apply Z.pow_lt_mono_r; lia. }
    rewrite (Z.mod_small (2 ^ (bits8 mod 64)) B) by lia.
    rewrite land_max_ones by lia. split.
    + apply Forall_app. split; [exact HinW|]. repeat constructor; lia.
    + replace (8 * n) with (64 * Z.of_nat m + bits8 mod 64)
        by (rewrite HmZ; unfold limbs, bits8 in *; Z.div_mod_to_equations; lia).
      rewrite Z.pow_add_r by lia. lia.
Qed.

(* acceptance threshold of the big-integer arm *)
Definition big_threshold (n : Z) : Z := (2 ^ (8 * n) - 1) / 2 ^ ((68 - n + 1) * 8).

Lemma compact_decode_big_spec bits n inp :
  0 <= bits < 536 -> 1 <= n <= 67 -> Forall isbyte inp ->
  compact_decode_big bits n inp =
    Val (match take n inp with
         | None => Err S_EOF []
         | Some bs =>
             let v := le_value bs in
             if (n <=? nbytes bits) && (v <? 2 ^ bits) then
               if big_threshold n <? v then Ok (uint_of bits v, skipn (Z.to_nat n) inp)
               else Err S_RANGE []
             else Err S_FIT []
         end).
Proof.
  intros Hb Hn Hi. unfold compact_decode_big.
  rewrite read_bytes_spec, Z2Nat.id, in_read_spec by lia.
  destruct (take n inp) as [bs|] eqn:ET; [|reflexivity]. cbn [rbind].
  apply take_some in ET; [|lia]. destruct ET as (Ebs & Hlen & Hle).
  assert (Hbs : Forall isbyte bs) by (subst bs; auto using Forall_firstn').
  rewrite try_from_le_slice_spec by (assumption || lia). cbn [obind]. rewrite Hlen. cbv zeta.
  destruct ((n <=? nbytes bits) && (le_value bs <? 2 ^ bits)) eqn:Efit; [|reflexivity].
  apply andb_true_iff in Efit. destruct Efit as [_ Hv]. apply Z.ltb_lt in Hv.
  pose proof (le_value_range bs Hbs) as Hr.
  destruct (mask_limbs_spec n ltac:(lia)) as (l & El & Hlw & Hle').
  cbv zeta in El. rewrite El. cbn [obind].
  destruct (uint_of_canon bits (le_value bs) ltac:(lia) ltac:(lia)) as [Hc He].
  pose proof Hc as (_ & Hcw & _).
  assert (Hpow : 2 ^ bits <= 2 ^ 536) by (apply Z.pow_le_mono_r; lia).
  (* Uint::<536, 9>::from(x) *)
  unfold Conv.uint_try_from_uint, COMPACT_BITS_LIMIT.
  rewrite PfConv.overflowing_from_limbs_slice_spec by (assumption || lia). cbn [obind Conv.from_of].
  rewrite He. destruct (Z.leb_spec (2 ^ 536) (le_value bs)); [lia|]. cbn [obind Conv.from_of].
  rewrite Z.mod_small by lia.
  (* Uint::from_limbs_slice(&new_limbs) *)
  rewrite PfConv.from_limbs_slice_spec by (assumption || lia). rewrite Hle'.
  assert (H8n : 2 ^ (8 * n) <= 2 ^ 536) by (apply Z.pow_le_mono_r; lia).
  destruct (Z.ltb_spec (2 ^ (8 * n) - 1) (2 ^ 536)); [|lia]. cbn [obind].
  unfold usub. destruct (Z.ltb_spec 68 n); [lia|]. cbn [obind].
  assert (H8p : 0 < 2 ^ (8 * n)) by (apply Z.pow_pos_nonneg; lia).
  destruct (uint_of_canon 536 (2 ^ (8 * n) - 1) ltac:(lia) ltac:(lia)) as [Hbc Hbe].
  destruct (PfShift.wrapping_shr_spec 536 (uint_of 536 (2 ^ (8 * n) - 1)) ((68 - n + 1) * 8) ltac:(lia) Hbc ltac:(lia))
    as [Hsc Hse].
  destruct (uint_of_canon 536 (le_value bs) ltac:(lia) ltac:(lia)) as [Hwc Hwe].
  rewrite PfC01.limbs_cmp_spec.
  2:{ destruct Hwc as (L1 & _ & _). destruct Hsc as (L2 & _ & _). congruence. }
  2:{ apply Hwc. }
  2:{ apply Hsc. }
  rewrite Hwe, Hse, Hbe. fold (big_threshold n).
  destruct (Z.ltb_spec (big_threshold n) (le_value bs)) as [G|G].
  - apply Z.compare_gt_iff in G. rewrite G. reflexivity.
  - destruct (Z.compare_spec (le_value bs) (big_threshold n)); try reflexivity; lia.
Qed.

Lemma take_cons n b l : 1 <= n -> take n (b :: l) = option_map (cons b) (take (n - 1) l).
Proof.
  intros Hn. unfold take. rewrite lenZ_cons.
  destruct (Z.ltb_spec (1 + lenZ l) n); destruct (Z.ltb_spec (lenZ l) (n - 1)); try lia; [reflexivity|].
  cbn [option_map]. f_equal. replace (Z.to_nat n) with (S (Z.to_nat (n - 1))) by lia. reflexivity.
Qed.
Lemma skipn_cons_Z n (b : Z) l : 1 <= n -> skipn (Z.to_nat n) (b :: l) = skipn (Z.to_nat (n - 1)) l.
Proof. intros Hn. replace (Z.to_nat n) with (S (Z.to_nat (n - 1))) by lia. reflexivity. Qed.

(* which denoted values ruint's compact decoder lets through (before the range test) *)
Definition caccept (bits b0 v : Z) : bool :=
  let m := b0 mod 4 in
  if m =? 0 then true
  else if m =? 1 then 63 <=? v
  else if m =? 2 then 16383 <=? v
  else
    let n := b0 / 4 + 4 in
    if n =? 4 then 1073741823 <? v
    else if n =? 8 then 2 ^ 56 - 1 <? v
    else if n =? 16 then 2 ^ 120 - 1 <? v
    else (n <=? nbytes bits) && (big_threshold n <? v).

Lemma compact_decode_panics bits inp : COMPACT_MAX_BITS <= bits -> CodecB.compact_decode bits inp = Panic.
Proof.
  intros H. unfold CodecB.compact_decode, assert_compact_supported, COMPACT_BITS_LIMIT, COMPACT_MAX_BITS in *.
  destruct (Z.ltb_spec bits 536); [lia|reflexivity].
Qed.

Lemma compact_decode_eq bits inp : 0 <= bits < 536 -> Forall isbyte inp ->
  exists c,
  CodecB.compact_decode bits inp =
    Val (match compact_denote inp with
         | None => Err S_EOF []
         | Some (v, used) =>
             if caccept bits (hd 0 inp) v && (v <? 2 ^ bits)
             then Ok (uint_of bits v, skipn (Z.to_nat used) inp) else Err c []
         end).
Proof.
  intros Hb Hi. unfold CodecB.compact_decode, assert_compact_supported, COMPACT_BITS_LIMIT.
  destruct (Z.ltb_spec bits 536); [|lia]. cbn [obind].
  destruct inp as [|b0 rest]; [exists 0; reflexivity|].
  inversion Hi as [|? ? Hb0 Hrest]; subst. unfold isbyte in Hb0.
  cbn [in_read_byte rbind compact_denote hd]. unfold caccept.
  assert (Hq : 0 <= b0 / 4 < 64) by (Z.div_mod_to_equations; lia).
  destruct (Z.eqb_spec (b0 mod 4) 0) as [M0|M0].
  { exists S_RANGE. rewrite prim_into_spec by (try apply uprim_U8; cbn [U8 Conv.pw]; lia).
    cbn [andb skipn Z.to_nat Pos.to_nat Pos.iter_op Nat.add]. reflexivity. }
  destruct (Z.eqb_spec (b0 mod 4) 1) as [M1|M1].
  { exists S_RANGE. unfold prefix_read. rewrite in_read_spec, take_cons by lia. change (2 - 1) with 1.
    destruct (take 1 rest) as [bs|] eqn:ET; [|reflexivity].
    cbn [int_of_read rbind option_map].
    apply take_some in ET; [|lia]. destruct ET as (Ebs & Hlen & Hle).
    assert (Hbs : Forall isbyte (b0 :: bs)) by (constructor; [exact Hb0|subst bs; auto using Forall_firstn']).
    pose proof (le_value_range _ Hbs) as Hr. rewrite lenZ_cons, Hlen in Hr. change (256 ^ (1 + 1)) with 65536 in Hr.
    change le_val with le_value. set (w := le_value (b0 :: bs)) in *.
    assert (Hx : 0 <= w / 4 <= 16383) by (Z.div_mod_to_equations; lia).
    destruct (Z.leb_spec (w / 4) 16383); [|lia]. rewrite andb_true_r.
    destruct (Z.leb_spec 63 (w / 4)); cbn [andb]; [|reflexivity].
    rewrite prim_into_spec by (try apply uprim_U16; cbn [U16 Conv.pw]; lia).
    rewrite (skipn_cons_Z 2) by lia. reflexivity. }
  destruct (Z.eqb_spec (b0 mod 4) 2) as [M2|M2].
  { exists S_RANGE. unfold prefix_read. rewrite in_read_spec, take_cons by lia. change (4 - 1) with 3.
    destruct (take 3 rest) as [bs|] eqn:ET; [|reflexivity].
    cbn [int_of_read rbind option_map].
    apply take_some in ET; [|lia]. destruct ET as (Ebs & Hlen & Hle).
    assert (Hbs : Forall isbyte (b0 :: bs)) by (constructor; [exact Hb0|subst bs; auto using Forall_firstn']).
    pose proof (le_value_range _ Hbs) as Hr. rewrite lenZ_cons, Hlen in Hr. change (256 ^ (1 + 3)) with 4294967296 in Hr.
    change le_val with le_value. set (w := le_value (b0 :: bs)) in *.
    assert (Hx : 0 <= w / 4 <= 1073741823) by (Z.div_mod_to_equations; lia).
    destruct (Z.leb_spec (w / 4) 1073741823); [|lia]. rewrite andb_true_r.
    destruct (Z.leb_spec 16383 (w / 4)); cbn [andb]; [|reflexivity].
    rewrite prim_into_spec by (try apply uprim_U32; cbn [U32 Conv.pw]; lia).
    rewrite (skipn_cons_Z 4) by lia. reflexivity. }
  set (n := b0 / 4 + 4). assert (Hn : 4 <= n <= 67) by (unfold n; lia).
  assert (Hsk : skipn (Z.to_nat (1 + n)) (b0 :: rest) = skipn (Z.to_nat n) rest).
  { rewrite skipn_cons_Z by lia. f_equal. f_equal. lia. }
  destruct (Z.eqb_spec n 4) as [N4|N4].
  { exists S_RANGE. rewrite N4 in *. rewrite in_read_spec by lia.
    destruct (take 4 rest) as [bs|] eqn:ET; [|reflexivity].
    cbn [int_of_read rbind option_map].
    apply take_some in ET; [|lia]. destruct ET as (Ebs & Hlen & Hle).
    assert (Hbs : Forall isbyte bs) by (subst bs; auto using Forall_firstn').
    pose proof (le_value_range _ Hbs) as Hr. rewrite Hlen in Hr. change (256 ^ 4) with 4294967296 in Hr.
    change le_val with le_value. destruct (Z.ltb_spec 1073741823 (le_value bs)); cbn [andb]; [|reflexivity].
    rewrite prim_into_spec by (try apply uprim_U32; cbn [U32 Conv.pw]; lia). rewrite Hsk. reflexivity. }
  destruct (Z.eqb_spec n 8) as [N8|N8].
  { exists S_RANGE. rewrite N8 in *. rewrite in_read_spec by lia.
    destruct (take 8 rest) as [bs|] eqn:ET; [|reflexivity].
    cbn [int_of_read rbind option_map].
    apply take_some in ET; [|lia]. destruct ET as (Ebs & Hlen & Hle).
    assert (Hbs : Forall isbyte bs) by (subst bs; auto using Forall_firstn').
    pose proof (le_value_range _ Hbs) as Hr. rewrite Hlen in Hr. change (256 ^ 8) with (2 ^ 64) in Hr.
    change le_val with le_value. destruct (Z.ltb_spec (2 ^ 56 - 1) (le_value bs)); cbn [andb]; [|reflexivity].
    rewrite prim_into_spec by (try apply uprim_U64; cbn [U64 Conv.pw]; lia). rewrite Hsk. reflexivity. }
  destruct (Z.eqb_spec n 16) as [N16|N16].
  { exists S_RANGE. rewrite N16 in *. rewrite in_read_spec by lia.
    destruct (take 16 rest) as [bs|] eqn:ET; [|reflexivity].
    cbn [int_of_read rbind option_map].
    apply take_some in ET; [|lia]. destruct ET as (Ebs & Hlen & Hle).
    assert (Hbs : Forall isbyte bs) by (subst bs; auto using Forall_firstn').
    pose proof (le_value_range _ Hbs) as Hr. rewrite Hlen in Hr. change (256 ^ 16) with (2 ^ 128) in Hr.
    change le_val with le_value. destruct (Z.ltb_spec (2 ^ 120 - 1) (le_value bs)); cbn [andb]; [|reflexivity].
    rewrite prim_into_spec by (try apply uprim_U128; cbn [U128 Conv.pw]; lia). rewrite Hsk. reflexivity. }
  rewrite compact_decode_big_spec by (assumption || lia).
  destruct (take n rest) as [bs|] eqn:ET; [|exists 0; reflexivity].
  cbn [option_map]. cbv zeta. change le_val with le_value. rewrite Hsk.
  destruct (Z.leb_spec n (nbytes bits)); cbn [andb].
  - destruct (Z.ltb_spec (le_value bs) (2 ^ bits)); cbn [andb].
    + exists S_RANGE. rewrite andb_true_r. reflexivity.
    + exists S_FIT. rewrite andb_false_r. reflexivity.
  - exists S_FIT. reflexivity.
Qed.

Lemma big_threshold_lt n v : 4 <= n <= 67 -> 256 ^ (n - 1) <= v -> big_threshold n < v.
Proof.
  intros Hn Hv. unfold big_threshold. rewrite p256_pow2 in Hv by lia.
  assert (0 < 2 ^ ((68 - n + 1) * 8)) by (apply Z.pow_pos_nonneg; lia).
  assert (0 < 2 ^ (8 * (n - 1))) by (apply Z.pow_pos_nonneg; lia).
  apply Z.lt_le_trans with (2 ^ (8 * (n - 1))); [|exact Hv].
  apply Z.div_lt_upper_bound; [lia|]. rewrite <- Z.pow_add_r by lia.
  assert (2 ^ (8 * n) <= 2 ^ ((68 - n + 1) * 8 + 8 * (n - 1))) by (apply Z.pow_le_mono_r; lia). lia.
Qed.

Lemma hd_app_cons {A} (d x : A) l tl : hd d ((x :: l) ++ tl) = x.
Proof. reflexivity. Qed.

Lemma caccept_canonical bits v tl : 0 <= bits < 536 -> 0 <= v < 2 ^ bits ->
  caccept bits (hd 0 (compact v ++ tl)) v = true.
Proof.
  intros Hb Hv. unfold compact, caccept.
  destruct (Z.ltb_spec v (2 ^ 6)) as [H6|H6].
  { cbn [app hd]. replace ((4 * v) mod 4) with 0 by (Z.div_mod_to_equations; lia). reflexivity. }
  destruct (Z.ltb_spec v (2 ^ 14)) as [H14|H14].
  { digits. rewrite le_digits_S. cbn [app hd].
    replace (((4 * v + 1) mod 256) mod 4) with 1 by (Z.div_mod_to_equations; lia).
    cbn [Z.eqb Pos.eqb]. apply Z.leb_le. lia. }
  destruct (Z.ltb_spec v (2 ^ 30)) as [H30|H30].
  { digits. rewrite le_digits_S. cbn [app hd].
    replace (((4 * v + 2) mod 256) mod 4) with 2 by (Z.div_mod_to_equations; lia).
    cbn [Z.eqb Pos.eqb]. apply Z.leb_le. lia. }
  cbn [app hd]. rewrite min_len_bytelen by lia.
  pose proof (bytelen_ge v 3 ltac:(lia) ltac:(change (256 ^ 3) with (2 ^ 24); lia)) as Hge.
  pose proof (bytelen_lt_pow v bits ltac:(lia) Hv) as Hle.
  pose proof (nbytes_le67 bits Hb) as H67.
  destruct (bytelen_spec v ltac:(lia)) as (_ & Hlo & _).
  set (n := bytelen v) in *.
  replace ((4 * (n - 4) + 3) mod 4) with 3 by (Z.div_mod_to_equations; lia). cbn [Z.eqb Pos.eqb].
  replace ((4 * (n - 4) + 3) / 4 + 4) with n by (Z.div_mod_to_equations; lia).
  destruct (Z.eqb_spec n 4) as [E|E]; [apply Z.ltb_lt; lia|].
  destruct (Z.eqb_spec n 8) as [E8|E8].
  { apply Z.ltb_lt. rewrite E8 in Hlo. change (256 ^ (8 - 1)) with (2 ^ 56) in Hlo. lia. }
  destruct (Z.eqb_spec n 16) as [E16|E16].
  { apply Z.ltb_lt. rewrite E16 in Hlo. change (256 ^ (16 - 1)) with (2 ^ 120) in Hlo. lia. }
  apply andb_true_iff. split; [apply Z.leb_le; lia|]. apply Z.ltb_lt. apply big_threshold_lt; lia.
Qed.

Lemma pow_bits_le536 bits : 0 <= bits < 536 -> 2 ^ bits <= 2 ^ 536.
Proof. intros. apply Z.pow_le_mono_r; lia. Qed.

(* decoding the reference encoding, whatever follows it *)
Theorem compact_decode_canonical bits v tl :
  0 <= bits < 536 -> 0 <= v < 2 ^ bits -> Forall isbyte tl ->
  CodecB.compact_decode bits (compact v ++ tl) = Val (Ok (uint_of bits v, tl)).
Proof.
  intros Hb Hv Htl. pose proof (pow_bits_le536 bits Hb).
  destruct (compact_decode_eq bits (compact v ++ tl) Hb) as (c & E).
  { apply Forall_app. split; [apply compact_isbyte; lia|exact Htl]. }
  rewrite E, compact_denote_compact by lia. rewrite caccept_canonical by assumption.
  destruct (Z.ltb_spec v (2 ^ bits)); [|lia]. cbn [andb].
  rewrite skipn_app_exact; [reflexivity|]. unfold lenZ. now rewrite Nat2Z.id.
Qed.

(* an accepted input denotes the value returned *)
Lemma compact_decode_sound bits inp : 0 <= bits < 536 -> Forall isbyte inp ->
  exists r, CodecB.compact_decode bits inp = Val r /\
    match r with
    | Ok (x, rest) => exists v used, compact_denote inp = Some (v, used) /\ x = uint_of bits v /\
                                     v < 2 ^ bits /\ lenZ rest = lenZ inp - used
    | Err _ p => p = []
    end.
Proof.
  intros Hb Hi. destruct (compact_decode_eq bits inp Hb Hi) as (c & E). rewrite E.
  eexists. split; [reflexivity|].
  destruct (compact_denote inp) as [[v used]|] eqn:ED; [|reflexivity].
  destruct (compact_denote_some inp v used Hi ED) as (Hv0 & Hu).
  destruct (caccept bits (hd 0 inp) v && (v <? 2 ^ bits)) eqn:EA; [|reflexivity].
  apply andb_true_iff in EA. destruct EA as [_ Hlt]. apply Z.ltb_lt in Hlt.
  exists v, used. repeat split; try assumption. apply lenZ_skipn. lia.
Qed.

(* ================================================================ SCALE plain: decoder *)
Definition u32accept (b0 v : Z) : bool :=
  let m := b0 mod 4 in
  if m =? 0 then true
  else if m =? 1 then 63 <? v
  else if m =? 2 then 16383 <? v
  else (b0 / 4 =? 0) && (1073741823 <? v).

Lemma compact_u32_decode_eq inp : Forall isbyte inp ->
  exists c,
  compact_u32_decode inp =
    match compact_denote inp with
    | None => Err c []
    | Some (v, used) =>
        if u32accept (hd 0 inp) v then Ok (v, skipn (Z.to_nat used) inp) else Err c []
    end.
Proof.
  intros Hi. unfold compact_u32_decode.
  destruct inp as [|b0 rest]; [exists S_EOF; reflexivity|].
  inversion Hi as [|? ? Hb0 Hrest]; subst. unfold isbyte in Hb0.
  cbn [in_read_byte compact_denote hd]. unfold u32accept.
  assert (Hq : 0 <= b0 / 4 < 64) by (Z.div_mod_to_equations; lia).
  destruct (Z.eqb_spec (b0 mod 4) 0) as [M0|M0]; [exists 0; reflexivity|].
  destruct (Z.eqb_spec (b0 mod 4) 1) as [M1|M1].
  { unfold prefix_read. rewrite in_read_spec, take_cons by lia. change (2 - 1) with 1.
    destruct (take 1 rest) as [bs|] eqn:ET; [|exists S_EOF; reflexivity].
    cbn [int_of_read option_map]. exists S_RANGE.
    apply take_some in ET; [|lia]. destruct ET as (Ebs & Hlen & Hle).
    assert (Hbs : Forall isbyte (b0 :: bs)) by (constructor; [exact Hb0|subst bs; auto using Forall_firstn']).
    pose proof (le_value_range _ Hbs) as Hr. rewrite lenZ_cons, Hlen in Hr. change (256 ^ (1 + 1)) with 65536 in Hr.
    change le_val with le_value. set (w := le_value (b0 :: bs)) in *.
    assert (Hx : 0 <= w / 4 <= 16383) by (Z.div_mod_to_equations; lia).
    destruct (Z.leb_spec (w / 4) 16383); [|lia]. rewrite andb_true_r.
    rewrite (skipn_cons_Z 2) by lia. destruct (63 <? w / 4); reflexivity. }
  destruct (Z.eqb_spec (b0 mod 4) 2) as [M2|M2].
  { unfold prefix_read. rewrite in_read_spec, take_cons by lia. change (4 - 1) with 3.
    destruct (take 3 rest) as [bs|] eqn:ET; [|exists S_EOF; reflexivity].
    cbn [int_of_read option_map]. exists S_RANGE.
    apply take_some in ET; [|lia]. destruct ET as (Ebs & Hlen & Hle).
    assert (Hbs : Forall isbyte (b0 :: bs)) by (constructor; [exact Hb0|subst bs; auto using Forall_firstn']).
    pose proof (le_value_range _ Hbs) as Hr. rewrite lenZ_cons, Hlen in Hr. change (256 ^ (1 + 3)) with 4294967296 in Hr.
    change le_val with le_value. set (w := le_value (b0 :: bs)) in *.
    assert (Hx : 0 <= w / 4 <= 1073741823) by (Z.div_mod_to_equations; lia).
    destruct (Z.leb_spec (w / 4) 1073741823); [|lia]. rewrite andb_true_r.
    rewrite (skipn_cons_Z 4) by lia. destruct (16383 <? w / 4); reflexivity. }
  destruct (Z.eqb_spec (b0 / 4) 0) as [Q0|Q0].
  - rewrite Q0. change (0 + 4) with 4. rewrite in_read_spec by lia.
    destruct (take 4 rest) as [bs|] eqn:ET; [|exists S_EOF; reflexivity].
    cbn [int_of_read option_map andb]. exists S_RANGE. change le_val with le_value.
    rewrite (skipn_cons_Z (1 + 4)) by lia. change (1 + 4 - 1) with 4.
    destruct (1073741823 <? le_value bs); reflexivity.
  - exists S_RANGE. destruct (take (b0 / 4 + 4) rest); reflexivity.
Qed.

Lemma u32accept_canonical n tl : 0 <= n < 2 ^ 32 -> u32accept (hd 0 (compact n ++ tl)) n = true.
Proof.
  intros Hn. unfold compact, u32accept.
  destruct (Z.ltb_spec n (2 ^ 6)) as [H6|H6].
  { cbn [app hd]. replace ((4 * n) mod 4) with 0 by (Z.div_mod_to_equations; lia). reflexivity. }
  destruct (Z.ltb_spec n (2 ^ 14)) as [H14|H14].
  { digits. rewrite le_digits_S. cbn [app hd].
    replace (((4 * n + 1) mod 256) mod 4) with 1 by (Z.div_mod_to_equations; lia).
    cbn [Z.eqb Pos.eqb]. apply Z.ltb_lt. lia. }
  destruct (Z.ltb_spec n (2 ^ 30)) as [H30|H30].
  { digits. rewrite le_digits_S. cbn [app hd].
    replace (((4 * n + 2) mod 256) mod 4) with 2 by (Z.div_mod_to_equations; lia).
    cbn [Z.eqb Pos.eqb]. apply Z.ltb_lt. lia. }
  cbn [app hd]. rewrite min_len_bytelen by lia.
  assert (Hb : bytelen n = 4).
  { apply bytelen_unique; [lia|]. change (256 ^ (4 - 1)) with (2 ^ 24). change (256 ^ 4) with (2 ^ 32). lia. }
  rewrite Hb. cbn. apply Z.ltb_lt. lia.
Qed.

Lemma compact_u32_decode_canonical n tl : 0 <= n < 2 ^ 32 -> Forall isbyte tl ->
  compact_u32_decode (compact n ++ tl) = Ok (n, tl).
Proof.
  intros Hn Htl. assert (n < 2 ^ 536) by (assert (2 ^ 32 <= 2 ^ 536) by (apply Z.pow_le_mono_r; lia); lia).
  destruct (compact_u32_decode_eq (compact n ++ tl)) as (c & E).
  { apply Forall_app. split; [apply compact_isbyte; lia|exact Htl]. }
  rewrite E, compact_denote_compact, u32accept_canonical by lia.
  rewrite skipn_app_exact; [reflexivity|]. unfold lenZ. now rewrite Nat2Z.id.
Qed.

Lemma skipn_skipn_Z {A} (l : list A) a b : 0 <= a -> 0 <= b ->
  skipn (Z.to_nat b) (skipn (Z.to_nat a) l) = skipn (Z.to_nat (a + b)) l.
Proof. intros Ha Hb'. rewrite skipn_skipn'. f_equal. lia. Qed.

(* the plain decoder against the byte-vector denotation *)
Lemma scale_decode_eq bits inp : 0 <= bits -> Forall isbyte inp ->
  exists c,
  CodecB.scale_decode bits inp =
    Val (match scale_bytes_denote inp with
         | None => Err c []
         | Some (bs, used) =>
             if u32accept (hd 0 inp) (lenZ bs) && (lenZ bs <=? nbytes bits) && (le_value bs <? 2 ^ bits)
             then Ok (uint_of bits (le_value bs), skipn (Z.to_nat used) inp) else Err c []
         end).
Proof.
  intros Hb Hi. unfold CodecB.scale_decode, vec_u8_decode, scale_bytes_denote.
  destruct (compact_u32_decode_eq inp Hi) as (c & E). rewrite E.
  destruct (compact_denote inp) as [[n used]|] eqn:ED; [|exists c; reflexivity].
  destruct (compact_denote_some inp n used Hi ED) as (Hn0 & Hu).
  unfold take.
  destruct (Z.ltb_spec (lenZ (skipn (Z.to_nat used) inp)) n) as [Hshort|Hlong]; cbn [option_map].
  { destruct (u32accept (hd 0 inp) n); cbn [rbind]; [|exists c; reflexivity].
    destruct (Z.ltb_spec (lenZ (skipn (Z.to_nat used) inp)) n); [|lia]. exists S_EOF. reflexivity. }
  assert (Hlen : lenZ (firstn (Z.to_nat n) (skipn (Z.to_nat used) inp)) = n) by (apply lenZ_firstn; lia).
  rewrite Hlen.
  destruct (u32accept (hd 0 inp) n); cbn [andb rbind]; [|exists c; reflexivity].
  destruct (Z.ltb_spec (lenZ (skipn (Z.to_nat used) inp)) n); [lia|]. cbn [rbind].
  rewrite try_from_le_slice_spec by (auto using Forall_firstn', Forall_skipn'). cbn [obind]. rewrite Hlen.
  exists S_FIT. rewrite skipn_skipn_Z by lia.
  destruct ((n <=? nbytes bits) && (le_value (firstn (Z.to_nat n) (skipn (Z.to_nat used) inp)) <? 2 ^ bits)); reflexivity.
Qed.

Lemma scale_uint_isbyte bits v : 0 <= bits < 2 ^ 32 -> Forall isbyte (scale_uint bits v).
Proof.
  intros Hb. unfold scale_uint, scale_bytes. pose proof (nbytes_lt32 bits Hb) as Hn.
  digits. apply Forall_app. split; [|apply le_digits_isbyte].
  apply compact_isbyte. rewrite lenZ_le_digits, SBYTES_nbytes, Z2Nat.id by lia.
  assert (2 ^ 30 <= 2 ^ 536) by (apply Z.pow_le_mono_r; lia). lia.
Qed.

Theorem scale_decode_canonical bits v tl :
  0 <= bits < 2 ^ 32 -> 0 <= v < 2 ^ bits -> Forall isbyte tl ->
  CodecB.scale_decode bits (scale_uint bits v ++ tl) = Val (Ok (uint_of bits v, tl)).
Proof.
  intros Hb Hv Htl. pose proof (nbytes_lt32 bits Hb) as Hn.
  unfold CodecB.scale_decode, vec_u8_decode, scale_uint, scale_bytes. digits.
  rewrite SBYTES_nbytes by lia. fold (nbytesN bits). rewrite lenZ_le_digits, nbytesN_Z by lia.
  rewrite <- app_assoc.
  rewrite compact_u32_decode_canonical.
  2:{ change (2 ^ 32) with 4294967296. change (2 ^ 30) with 1073741824 in Hn. lia. }
  2:{ apply Forall_app. split; [apply le_digits_isbyte|exact Htl]. }
  rewrite lenZ_app, lenZ_le_digits, nbytesN_Z by lia. pose proof (lenZ_nonneg tl).
  destruct (Z.ltb_spec (nbytes bits + lenZ tl) (nbytes bits)); [lia|]. cbn [rbind].
  fold (nbytesN bits). rewrite firstn_app_exact, skipn_app_exact by (now rewrite le_digits_length).
  rewrite try_from_le_slice_spec by (apply le_digits_isbyte || lia). cbn [obind].
  rewrite lenZ_le_digits, nbytesN_Z, Z.leb_refl by lia.
  pose proof (pow_bits_le_bytes bits ltac:(lia)).
  rewrite le_value_digits_small by (rewrite nbytesN_Z by lia; lia).
  destruct (Z.ltb_spec v (2 ^ bits)); [|lia]. reflexivity.
Qed.

Lemma scale_uint_denote_canonical bits v tl : 0 <= bits < 2 ^ 32 -> 0 <= v < 2 ^ bits ->
  scale_uint_denote (scale_uint bits v ++ tl) = Some (v, lenZ (scale_uint bits v)).
Proof.
  intros Hb Hv. pose proof (nbytes_lt32 bits Hb) as Hn.
  unfold scale_uint_denote, scale_bytes_denote, scale_uint, scale_bytes. digits.
  rewrite SBYTES_nbytes by lia. fold (nbytesN bits). rewrite lenZ_le_digits, nbytesN_Z by lia.
  rewrite <- app_assoc, compact_denote_compact.
  2:{ assert (2 ^ 30 <= 2 ^ 536) by (apply Z.pow_le_mono_r; lia). lia. }
  rewrite skipn_app_exact by (unfold lenZ; now rewrite Nat2Z.id).
  rewrite take_app by (rewrite lenZ_le_digits, nbytesN_Z; lia). cbn [option_map fst snd].
  change le_val with le_value. pose proof (pow_bits_le_bytes bits ltac:(lia)).
  rewrite le_value_digits_small by (rewrite nbytesN_Z by lia; lia).
  rewrite lenZ_app, lenZ_le_digits, nbytesN_Z by lia. reflexivity.
Qed.

(* ================================================================ DER: big-endian facts *)
Definition bev (l : list Z) : Z := le_value (rev l).
Lemma be_val_bev l : be_val l = bev l.
Proof. reflexivity. Qed.
Lemma bev_cons h t : bev (h :: t) = h * 256 ^ lenZ t + bev t.
Proof. unfold bev. cbn [rev]. rewrite le_value_snoc, lenZ_rev. lia. Qed.
Lemma bev_range l : Forall isbyte l -> 0 <= bev l < 256 ^ lenZ l.
Proof. intros H. unfold bev. rewrite <- (lenZ_rev l). apply le_value_range. now apply Forall_rev. Qed.
Lemma bev_nil : bev [] = 0.
Proof. reflexivity. Qed.

Lemma p256_pos_Z k : 0 <= k -> 0 < 256 ^ k.
Proof. intros. apply Z.pow_pos_nonneg; lia. Qed.

(* a big-endian string with a non-zero first octet is minimal *)
Lemma bev_head_bounds h t : Forall isbyte (h :: t) ->
  h * 256 ^ lenZ t <= bev (h :: t) < (h + 1) * 256 ^ lenZ t.
Proof.
  intros H. inversion H as [|? ? Hh Ht]; subst. rewrite bev_cons. pose proof (bev_range t Ht). nia.
Qed.

Lemma bytelen_bev h t : Forall isbyte (h :: t) -> h <> 0 -> bytelen (bev (h :: t)) = lenZ (h :: t).
Proof.
  intros H Hnz. pose proof (bev_head_bounds h t H) as Hb. inversion H as [|? ? Hh Ht]; subst.
  unfold isbyte in Hh. pose proof (lenZ_nonneg t). pose proof (p256_pos_Z (lenZ t) ltac:(lia)).
  rewrite lenZ_cons. apply bytelen_unique; [lia|].
  replace (1 + lenZ t - 1) with (lenZ t) by lia.
  replace (1 + lenZ t) with (Z.succ (lenZ t)) by lia. rewrite Z.pow_succ_r by lia. nia.
Qed.

Lemma be_min_bev h t : Forall isbyte (h :: t) -> h <> 0 -> be_min (bev (h :: t)) = h :: t.
Proof.
  intros H Hnz. pose proof (bev_range (h :: t) H).
  unfold be_min. rewrite le_min_digits by lia. rewrite bytelen_bev by assumption.
  unfold lenZ. rewrite Nat2Z.id. unfold bev. rewrite <- (rev_length (h :: t)).
  rewrite le_digits_le_value by (now apply Forall_rev). apply rev_involutive.
Qed.

Lemma bev_be_min v : 0 <= v -> bev (be_min v) = v.
Proof.
  intros Hv. unfold bev, be_min. rewrite rev_involutive, le_min_digits by lia.
  apply le_value_digits_small. pose proof (bytelen_nonneg v Hv). pose proof (bytelen_bound v Hv).
  rewrite Z2Nat.id by lia. lia.
Qed.

(* ================================================================ DER: grammar coherence *)
Lemma der_parse_content_complete v : 0 <= v -> der_parse_content (der_content v) = Some v.
Proof.
  intros Hv. unfold der_content. destruct (Z.eq_dec v 0) as [->|Hnz]; [reflexivity|].
  destruct (be_min_head v ltac:(lia)) as (t & E & Ht). 
  pose proof (bev_be_min v Hv) as Hbv. rewrite E in *.
  destruct (bytelen_spec v ltac:(lia)) as (H1 & Hlo & Hhi).
  set (T := v / 256 ^ (bytelen v - 1)) in *.
  assert (HT : 1 <= T < 256).
  { unfold T. pose proof (p256_pos_Z (bytelen v - 1) ltac:(lia)). split.
    - apply Z.div_le_lower_bound; lia.
    - apply Z.div_lt_upper_bound; [lia|]. replace (bytelen v) with (Z.succ (bytelen v - 1)) in Hhi at 1 by lia.
      rewrite Z.pow_succ_r in Hhi by lia. lia. }
  destruct (Z.leb_spec 128 T) as [Htop|Htop].
  - cbn [der_parse_content]. destruct (Z.leb_spec 128 0); [lia|].
    destruct (Z.ltb_spec T 128); [lia|]. cbn [Z.eqb andb].
    rewrite be_val_bev, bev_cons, Hbv. f_equal; lia.
  - destruct t as [|b1 t'].
    + cbn [der_parse_content]. destruct (Z.ltb_spec T 128); [|lia]. f_equal.
      rewrite bev_cons, bev_nil, lenZ_nil in Hbv. lia.
    + cbn [der_parse_content]. destruct (Z.leb_spec 128 T); [lia|].
      destruct (Z.eqb_spec T 0); [lia|]. cbn [andb]. now rewrite be_val_bev, Hbv.
Qed.

Lemma der_parse_len_complete n body : 0 <= n -> der_parse_len (der_len n ++ body) = Some (n, body).
Proof.
  intros Hn. unfold der_len. destruct (Z.ltb_spec n 128) as [Hs|Hl].
  { cbn [app der_parse_len]. destruct (Z.ltb_spec n 128); [reflexivity|lia]. }
  rewrite min_len_bytelen by lia.
  destruct (bytelen_spec n ltac:(lia)) as (H1 & Hlo & Hhi).
  cbn [app der_parse_len]. destruct (Z.ltb_spec (128 + bytelen n) 128); [lia|].
  replace (128 + bytelen n - 128) with (bytelen n) by lia.
  destruct (Z.eqb_spec (bytelen n) 0); [lia|].
  destruct (be_min_head n ltac:(lia)) as (t & E & Ht).
  assert (Hlen : lenZ (be_min n) = bytelen n) by (rewrite E, lenZ_cons; lia).
  rewrite take_app by exact Hlen. rewrite be_val_bev, bev_be_min by lia.
  destruct (Z.leb_spec 128 n); [|lia]. rewrite E. cbn [hd].
  assert (n / 256 ^ (bytelen n - 1) <> 0).
  { pose proof (p256_pos_Z (bytelen n - 1) ltac:(lia)).
    assert (1 <= n / 256 ^ (bytelen n - 1)) by (apply Z.div_le_lower_bound; lia). lia. }
  destruct (Z.eqb_spec (n / 256 ^ (bytelen n - 1)) 0); [lia|]. cbn [negb andb].
  rewrite <- E. rewrite skipn_app_exact; [reflexivity|]. unfold lenZ in Hlen. lia.
Qed.

Theorem der_parse_complete v : 0 <= v -> der_parse (der_integer v) = Some v.
Proof.
  intros Hv. unfold der_integer, der_parse.
  rewrite der_parse_len_complete by apply lenZ_nonneg. rewrite Z.eqb_refl.
  now apply der_parse_content_complete.
Qed.

Lemma der_parse_content_sound c v : Forall isbyte c -> der_parse_content c = Some v ->
  c = der_content v /\ 0 <= v.
Proof.
  intros Hc. destruct c as [|b0 [|b1 t]]; cbn [der_parse_content]; [discriminate| |].
  - inversion Hc as [|? ? Hb0 _]; subst. unfold isbyte in Hb0.
    destruct (Z.ltb_spec b0 128); [|discriminate]. intros [= <-]. split; [|lia].
    unfold der_content. destruct (Z.eq_dec b0 0) as [->|Hnz]; [reflexivity|].
    assert (E : be_min b0 = [b0]).
    { assert (Eb : bev [b0] = b0) by (rewrite bev_cons, bev_nil, lenZ_nil; lia).
      rewrite <- Eb at 1. now apply be_min_bev. }
    rewrite E. destruct (Z.leb_spec 128 b0); [lia|reflexivity].
  - inversion Hc as [|? ? Hb0 Hc']; subst. inversion Hc' as [|? ? Hb1 Ht]; subst. unfold isbyte in Hb0, Hb1.
    destruct (Z.leb_spec 128 b0); [discriminate|].
    destruct (Z.eqb_spec b0 0) as [->|Hnz]; cbn [andb].
    + destruct (Z.ltb_spec b1 128); [discriminate|]. intros [= <-].
      rewrite be_val_bev, bev_cons, Z.mul_0_l, Z.add_0_l. pose proof (bev_range _ Hc').
      split; [|lia]. unfold der_content. rewrite be_min_bev by (assumption || lia).
      destruct (Z.leb_spec 128 b1); [reflexivity|lia].
    + intros [= <-]. rewrite be_val_bev. pose proof (bev_range _ Hc). split; [|lia].
      unfold der_content. rewrite be_min_bev by assumption.
      destruct (Z.leb_spec 128 b0); [lia|reflexivity].
Qed.

Lemma der_parse_len_sound inp n body : Forall isbyte inp -> der_parse_len inp = Some (n, body) ->
  inp = der_len n ++ body /\ 0 <= n.
Proof.
  intros Hi. destruct inp as [|b rest]; cbn [der_parse_len]; [discriminate|].
  inversion Hi as [|? ? Hb Hrest]; subst. unfold isbyte in Hb.
  destruct (Z.ltb_spec b 128) as [Hs|Hl].
  { intros [= <- <-]. unfold der_len. destruct (Z.ltb_spec b 128); [|lia]. split; [reflexivity|lia]. }
  destruct (Z.eqb_spec (b - 128) 0); [discriminate|].
  destruct (take (b - 128) rest) as [lb|] eqn:ET; [|discriminate].
  apply take_some in ET; [|lia]. destruct ET as (Elb & Hlen & Hle).
  destruct (Z.leb_spec 128 (be_val lb)) as [H128|]; [|discriminate].
  destruct lb as [|h t]; [rewrite lenZ_nil in Hlen; lia|]. cbn [hd].
  destruct (Z.eqb_spec h 0); [discriminate|]. cbn [negb andb]. intros [= <- <-].
  assert (Hlb : Forall isbyte (h :: t)) by (rewrite Elb; auto using Forall_firstn').
  rewrite be_val_bev in *. pose proof (bev_range _ Hlb). split; [|lia].
  unfold der_len. destruct (Z.ltb_spec (bev (h :: t)) 128); [lia|].
  rewrite min_len_bytelen, bytelen_bev, be_min_bev by (assumption || lia).
  rewrite Hlen. replace (128 + (b - 128)) with b by lia.
  change ((b :: h :: t) ++ skipn (Z.to_nat (b - 128)) rest)
    with (b :: ((h :: t) ++ skipn (Z.to_nat (b - 128)) rest)).
  f_equal. rewrite Elb. symmetry. apply firstn_skipn.
Qed.

Theorem der_parse_sound inp v : Forall isbyte inp -> der_parse inp = Some v ->
  inp = der_integer v /\ 0 <= v.
Proof.
  intros Hi. destruct inp as [|t rest]; cbn [der_parse]; [discriminate|].
  inversion Hi as [|? ? _ Hrest]; subst.
  destruct (Z.eq_dec t 2) as [->|Hn].
  2:{ destruct t as [|p|p]; try discriminate. destruct p as [p|p|]; try discriminate.
      destruct p; try discriminate. lia. }
  destruct (der_parse_len rest) as [[n body]|] eqn:EL; [|discriminate].
  destruct (der_parse_len_sound rest n body Hrest EL) as (-> & Hn).
  destruct (Z.eqb_spec (lenZ body) n) as [<-|]; [|discriminate]. intros EC.
  apply der_parse_content_sound in EC; [|apply Forall_app in Hrest; tauto].
  destruct EC as (-> & Hv). split; [reflexivity|exact Hv].
Qed.

(* ================================================================ DER: decoder *)
Lemma try_from_be_slice_bev bits bs : 0 <= bits -> Forall isbyte bs ->
  try_from_be_slice bits bs =
    Val (if (lenZ bs <=? nbytes bits) && (bev bs <? 2 ^ bits) then Some (uint_of bits (bev bs)) else None).
Proof. intros. now apply try_from_be_slice_spec. Qed.

Lemma fit_nonzero_head bits h t : 0 <= bits -> Forall isbyte (h :: t) -> h <> 0 ->
  (lenZ (h :: t) <=? nbytes bits) && (bev (h :: t) <? 2 ^ bits) = (bev (h :: t) <? 2 ^ bits).
Proof.
  intros Hb H Hnz. destruct (Z.ltb_spec (bev (h :: t)) (2 ^ bits)) as [L|L]; [|apply andb_false_r].
  rewrite andb_true_r. apply Z.leb_le. rewrite <- (bytelen_bev h t H Hnz).
  apply bytelen_lt_pow; [exact Hb|]. pose proof (bev_range _ H). lia.
Qed.

Lemma from_der_slice_eq bits body : 0 <= bits -> Forall isbyte body ->
  exists c,
  from_der_slice bits body =
    Val (match der_parse_content body with
         | Some v => if v <? 2 ^ bits then Ok (uint_of bits v) else Err c []
         | None => Err c []
         end).
Proof.
  intros Hb Hi. unfold from_der_slice.
  assert (Hp : 0 < 2 ^ bits) by (apply Z.pow_pos_nonneg; lia).
  destruct body as [|b0 [|b1 t]]; cbn [der_parse_content rbind].
  - exists D_LENGTH. reflexivity.
  - inversion Hi as [|? ? Hb0 _]; subst. unfold isbyte in Hb0.
    destruct (Z.eqb_spec b0 0) as [->|Hnz].
    + cbn [rbind]. rewrite try_from_be_slice_bev by (assumption || constructor). cbn [obind].
      rewrite bev_nil, lenZ_nil. pose proof (nbytes_nonneg bits Hb).
      destruct (Z.leb_spec 0 (nbytes bits)); [|lia]. destruct (Z.ltb_spec 0 (2 ^ bits)); [|lia].
      cbn [andb]. exists 0. change (0 <? 128) with true. cbv iota.
      destruct (Z.ltb_spec 0 (2 ^ bits)); [reflexivity|lia].
    + destruct (Z.leb_spec 128 b0); destruct (Z.ltb_spec b0 128); try lia; cbn [rbind].
      * exists D_VALUE. reflexivity.
      * rewrite try_from_be_slice_bev by assumption. cbn [obind].
        rewrite fit_nonzero_head by assumption.
        replace (bev [b0]) with b0 by (rewrite bev_cons, bev_nil, lenZ_nil; lia).
        exists D_NONCANONICAL. destruct (b0 <? 2 ^ bits); reflexivity.
  - inversion Hi as [|? ? Hb0 Hc']; subst. inversion Hc' as [|? ? Hb1 Ht]; subst. unfold isbyte in Hb0, Hb1.
    destruct (Z.eqb_spec b0 0) as [->|Hnz].
    + destruct (Z.leb_spec 128 0); [lia|]. cbn [andb].
      destruct (Z.ltb_spec b1 128); cbn [rbind]; [exists D_NONCANONICAL; reflexivity|].
      rewrite try_from_be_slice_bev by assumption. cbn [obind].
      rewrite fit_nonzero_head by (assumption || lia).
      change be_val with bev. rewrite (bev_cons 0), Z.mul_0_l, Z.add_0_l.
      exists D_NONCANONICAL. destruct (bev (b1 :: t) <? 2 ^ bits); reflexivity.
    + destruct (Z.leb_spec 128 b0); cbn [rbind andb]; [exists D_VALUE; reflexivity|].
      rewrite try_from_be_slice_bev by assumption. cbn [obind].
      rewrite fit_nonzero_head by assumption. change be_val with bev.
      exists D_NONCANONICAL. destruct (bev (b0 :: b1 :: t) <? 2 ^ bits); reflexivity.
Qed.

(* a value whose DER content has n octets is at least 256^(n-2) *)
Lemma der_parse_content_lower c v : Forall isbyte c -> der_parse_content c = Some v ->
  2 <= lenZ c -> 256 ^ (lenZ c - 2) <= v.
Proof.
  intros Hc EP Hl. destruct c as [|b0 [|b1 t]]; cbn [der_parse_content] in EP; try discriminate.
  { rewrite lenZ_cons, lenZ_nil in Hl. lia. }
  inversion Hc as [|? ? Hb0 Hc']; subst. inversion Hc' as [|? ? Hb1 Ht]; subst. unfold isbyte in Hb0, Hb1.
  rewrite !lenZ_cons. pose proof (lenZ_nonneg t). replace (1 + (1 + lenZ t) - 2) with (lenZ t) by lia.
  pose proof (p256_pos_Z (lenZ t) ltac:(lia)).
  destruct (Z.leb_spec 128 b0); [discriminate|].
  destruct (Z.eqb_spec b0 0) as [->|Hnz]; cbn [andb] in EP.
  - destruct (Z.ltb_spec b1 128); [discriminate|]. injection EP as <-.
    change be_val with bev. rewrite bev_cons, Z.mul_0_l, Z.add_0_l.
    pose proof (bev_head_bounds b1 t Hc'). nia.
  - injection EP as <-. change be_val with bev. pose proof (bev_head_bounds b0 (b1 :: t) Hc).
    rewrite lenZ_cons in *. replace (1 + lenZ t) with (Z.succ (lenZ t)) in * by lia.
    rewrite Z.pow_succ_r in * by lia. nia.
Qed.

Lemma length_decode_eq rest : Forall isbyte rest ->
  exists c,
  length_decode rest =
    match der_parse_len rest with
    | Some (n, body) => if n <=? LENGTH_MAX then Ok (n, body) else Err c []
    | None => Err c []
    end.
Proof.
  intros Hi. unfold length_decode, LENGTH_MAX.
  destruct rest as [|b r]; [exists D_INCOMPLETE; reflexivity|].
  inversion Hi as [|? ? Hb Hr]; subst. unfold isbyte in Hb. cbn [der_parse_len].
  destruct (Z.ltb_spec b 128) as [Hs|Hl].
  { exists 0. destruct (Z.leb_spec b 268435455); [reflexivity|lia]. }
  destruct (Z.eqb_spec b 128) as [->|H128]; [exists D_INDEFINITE; reflexivity|].
  destruct (Z.eqb_spec (b - 128) 0); [lia|].
  unfold take. destruct (Z.leb_spec b 132) as [H132|H132].
  - destruct (Z.ltb_spec (lenZ r) (b - 128)) as [Hshort|Hlong]; [exists D_INCOMPLETE; reflexivity|].
    set (lb := firstn (Z.to_nat (b - 128)) r).
    assert (Hlb : Forall isbyte lb) by (unfold lb; auto using Forall_firstn').
    assert (Hlen : lenZ lb = b - 128) by (unfold lb; apply lenZ_firstn; lia).
    change (le_value (rev lb)) with (bev lb). change be_val with bev.
    destruct (Z.ltb_spec 268435455 (bev lb)) as [Hov|Hov].
    { exists D_OVERFLOW. destruct ((128 <=? bev lb) && negb (hd 0 lb =? 0)); [|reflexivity].
      destruct (Z.leb_spec (bev lb) 268435455); [lia|reflexivity]. }
    destruct lb as [|h t]; [rewrite lenZ_nil in Hlen; lia|]. cbn [hd].
    pose proof (bev_head_bounds h t Hlb) as Hbd. inversion Hlb as [|? ? Hh Ht]; subst. unfold isbyte in Hh.
    rewrite lenZ_cons in Hlen.
    exists D_LENGTH.
    assert (Hk : lenZ t = 0 \/ lenZ t = 1 \/ lenZ t = 2 \/ lenZ t = 3) by (pose proof (lenZ_nonneg t); lia).
    destruct (Z.leb_spec (bev (h :: t)) 268435455); [|lia].
    destruct Hk as [Hk|[Hk|[Hk|Hk]]]; rewrite Hk in *;
      [change (256 ^ 0) with 1 in Hbd | change (256 ^ 1) with 256 in Hbd
       | change (256 ^ 2) with 65536 in Hbd | change (256 ^ 3) with 16777216 in Hbd];
      change (2 ^ 8) with 256; change (2 ^ 16) with 65536; change (2 ^ 24) with 16777216;
      assert (b = 129 + lenZ t) as Eb by lia; rewrite Hk in Eb; subst b;
      repeat match goal with
             | |- context [Z.ltb ?x ?y] => destruct (Z.ltb_spec x y)
             | |- context [Z.leb ?x ?y] => destruct (Z.leb_spec x y)
             | |- context [Z.eqb ?x ?y] => destruct (Z.eqb_spec x y)
             end; cbn [negb andb]; try reflexivity; try lia;
      try (destruct (Z.leb_spec (bev (h :: t)) 268435455); [reflexivity|lia]).
  - exists D_LENGTH.
    destruct (Z.ltb_spec (lenZ r) (b - 128)) as [Hshort|Hlong]; [reflexivity|].
    set (lb := firstn (Z.to_nat (b - 128)) r).
    assert (Hlb : Forall isbyte lb) by (unfold lb; auto using Forall_firstn').
    assert (Hlen : lenZ lb = b - 128) by (unfold lb; apply lenZ_firstn; lia).
    change be_val with bev. destruct lb as [|h t]; [rewrite lenZ_nil in Hlen; lia|]. cbn [hd].
    destruct (Z.eqb_spec h 0); [rewrite andb_false_r; reflexivity|]. cbn [negb]. rewrite andb_true_r.
    destruct (Z.leb_spec 128 (bev (h :: t))); [|reflexivity].
    pose proof (bev_head_bounds h t Hlb) as Hbd. inversion Hlb as [|? ? Hh Ht]; subst. unfold isbyte in Hh.
    rewrite lenZ_cons in Hlen.
    assert (256 ^ 4 <= 256 ^ lenZ t) by (apply Z.pow_le_mono_r; lia). change (256 ^ 4) with 4294967296 in *.
    destruct (Z.leb_spec (bev (h :: t)) 268435455); [nia|reflexivity].
Qed.

Lemma tag_class_0 t : tag_class t = 0 -> t = 2.
Proof.
  unfold tag_class, D_TAGNUMBER, D_TAGUNEXPECTED, D_TAGUNKNOWN.
  destruct (Z.land t 31 =? 31); [discriminate|]. destruct (Z.eqb_spec t 2); [auto|].
  destruct (existsb (Z.eqb t) universal_tags); [discriminate|].
  destruct ((64 <=? t) && (t <=? 126)); [discriminate|].
  destruct ((128 <=? t) && (t <=? 190)); [discriminate|].
  destruct ((192 <=? t) && (t <=? 254)); discriminate.
Qed.

Lemma der_parse_not2 t rest : t <> 2 -> der_parse (t :: rest) = None.
Proof.
  intros Hn. cbn [der_parse]. destruct t as [|p|p]; try reflexivity.
  destruct p as [p|p|]; try reflexivity. destruct p; try reflexivity. lia.
Qed.

Lemma nbytes_pow bits : 0 <= bits -> 2 ^ bits <= 256 ^ nbytes bits.
Proof. apply pow_bits_le_bytes. Qed.

(* decode_value on a reader holding exactly / more than / less than `len` octets *)
Lemma der_decode_value_eq bits len body : 0 <= bits < 2 ^ 30 -> 0 <= len -> Forall isbyte body ->
  exists c,
  (do r <- der_decode_value bits len body;
   match r with
   | Err c' pl => Val (Err c' pl)
   | Ok (v, remaining) => if 0 <? lenZ remaining then Val (Err D_TRAILING []) else Val (Ok v)
   end) =
  Val (match (if lenZ body =? len then der_parse_content body else None) with
       | Some v => if v <? 2 ^ bits then Ok (uint_of bits v) else Err c []
       | None => Err c []
       end).
Proof.
  intros Hb Hlen Hi. unfold der_decode_value, length_try_from, LENGTH_MAX.
  pose proof (nbytes_lt30 bits Hb) as Hn. change (2 ^ 27) with 134217728 in Hn.
  destruct (Z.leb_spec (nbytes bits + 1) 268435455); [|lia]. cbn [rbind].
  destruct (Z.ltb_spec (nbytes bits + 1) len) as [Hbig|Hsmall].
  { (* longer than any canonical encoding of a value below 2^bits *)
    exists D_NONCANONICAL. cbn [obind].
    destruct (Z.eqb_spec (lenZ body) len) as [E|E]; [|reflexivity].
    destruct (der_parse_content body) as [v|] eqn:EP; [|reflexivity].
    pose proof (der_parse_content_lower body v Hi EP ltac:(lia)) as Hlow.
    pose proof (nbytes_pow bits ltac:(lia)).
    assert (256 ^ nbytes bits <= 256 ^ (lenZ body - 2)) by (apply Z.pow_le_mono_r; lia).
    destruct (Z.ltb_spec v (2 ^ bits)); [lia|reflexivity]. }
  destruct (Z.ltb_spec (lenZ body) len) as [Hshort|Hlong].
  { exists D_INCOMPLETE. cbn [obind]. destruct (Z.eqb_spec (lenZ body) len); [lia|reflexivity]. }
  destruct (from_der_slice_eq bits (firstn (Z.to_nat len) body) ltac:(lia) ltac:(auto using Forall_firstn')) as (c & E).
  rewrite E. cbn [obind].
  destruct (Z.eqb_spec (lenZ body) len) as [El|El].
  - assert (Ef : firstn (Z.to_nat len) body = body) by (apply firstn_all2; unfold lenZ in El; lia).
    assert (Es : skipn (Z.to_nat len) body = []) by (apply skipn_all2; unfold lenZ in El; lia).
    rewrite Ef, Es. exists c. destruct (der_parse_content body) as [v|]; [|reflexivity].
    destruct (v <? 2 ^ bits); reflexivity.
  - assert (0 < lenZ (skipn (Z.to_nat len) body)) by (rewrite lenZ_skipn by lia; lia).
    destruct (der_parse_content (firstn (Z.to_nat len) body)) as [v|]; [|exists c; reflexivity].
    destruct (v <? 2 ^ bits); [|exists c; reflexivity]. exists D_TRAILING. cbn [obind].
    destruct (Z.ltb_spec 0 (lenZ (skipn (Z.to_nat len) body))); [reflexivity|lia].
Qed.

Lemma lenZ_der_len n : 0 <= n < 2 ^ 32 -> 1 <= lenZ (der_len n) <= 5.
Proof. intros Hn. rewrite <- length_encode_spec by assumption. apply lenZ_length_encode. lia. Qed.

Lemma der_integer_short bits v : 0 <= bits < 2 ^ 30 -> 0 <= v < 2 ^ bits ->
  lenZ (der_integer v) <= LENGTH_MAX.
Proof.
  intros Hb Hv. unfold der_integer, LENGTH_MAX.
  pose proof (lenZ_der_content_bound bits v ltac:(lia) Hv) as Hc.
  pose proof (nbytes_lt30 bits Hb) as Hn. change (2 ^ 27) with 134217728 in Hn.
  pose proof (lenZ_der_len (lenZ (der_content v)) ltac:(change (2 ^ 32) with 4294967296; lia)).
  rewrite lenZ_cons, lenZ_app. lia.
Qed.

Lemma length_encode_isbyte n : 0 <= n -> Forall isbyte (length_encode n).
Proof.
  intros Hn. unfold length_encode.
  destruct (Z.ltb_spec n 128); [repeat constructor; unfold isbyte; lia|].
  repeat match goal with |- context [Z.ltb ?x ?y] => destruct (Z.ltb_spec x y) end;
    (constructor; [unfold isbyte; lia|apply Forall_rev, le_digits_isbyte]).
Qed.

Lemma tag_class_2 : tag_class 2 = 0.
Proof. reflexivity. Qed.

Lemma der_decode_eq bits inp : 0 <= bits < 2 ^ 30 -> Forall isbyte inp ->
  exists c,
  CodecB.der_decode bits inp =
    Val (match der_parse inp with
         | Some v => if v <? 2 ^ bits then Ok (uint_of bits v) else Err c []
         | None => Err c []
         end).
Proof.
  intros Hb Hi. unfold CodecB.der_decode.
  destruct (Z.ltb_spec LENGTH_MAX (lenZ inp)) as [Hhuge|Hlen].
  { exists D_OVERFLOW. destruct (der_parse inp) as [v|] eqn:EP; [|reflexivity].
    destruct (der_parse_sound inp v Hi EP) as (-> & Hv0).
    destruct (Z.ltb_spec v (2 ^ bits)); [|reflexivity].
    pose proof (der_integer_short bits v Hb ltac:(lia)). lia. }
  destruct inp as [|t rest]; [exists D_INCOMPLETE; reflexivity|].
  inversion Hi as [|? ? Ht Hrest]; subst.
  destruct (Z.eq_dec t 2) as [->|Hn2].
  2:{ rewrite der_parse_not2 by assumption.
      destruct ((tag_class t =? D_TAGNUMBER) || (tag_class t =? D_TAGUNKNOWN)); [eexists; reflexivity|].
      destruct (length_decode_eq rest Hrest) as (c1 & EL). rewrite EL.
      destruct (der_parse_len rest) as [[n body]|]; cbn [rbind]; [|eexists; reflexivity].
      destruct (n <=? LENGTH_MAX); cbn [rbind]; [|eexists; reflexivity].
      destruct (Z.eqb_spec (tag_class t) 0) as [E0|E0]; [apply tag_class_0 in E0; lia|].
      cbn [negb]. eexists; reflexivity. }
  rewrite tag_class_2. cbn [Z.eqb orb negb D_TAGNUMBER D_TAGUNKNOWN].
  destruct (length_decode_eq rest Hrest) as (c1 & EL). rewrite EL. cbn [der_parse].
  destruct (der_parse_len rest) as [[n body]|] eqn:EPL; cbn [rbind]; [|exists c1; reflexivity].
  destruct (der_parse_len_sound rest n body Hrest EPL) as (Erest & Hn0).
  assert (Hbody : Forall isbyte body) by (rewrite Erest in Hrest; apply Forall_app in Hrest; tauto).
  destruct (Z.leb_spec n LENGTH_MAX) as [Hnm|Hnm]; cbn [rbind].
  - apply der_decode_value_eq; assumption.
  - exists c1. destruct (Z.eqb_spec (lenZ body) n) as [E|E]; [|reflexivity].
    rewrite Erest, lenZ_cons, lenZ_app in Hlen. pose proof (lenZ_nonneg (der_len n)). lia.
Qed.

Theorem der_decode_canonical bits v : 0 <= bits < 2 ^ 30 -> 0 <= v < 2 ^ bits ->
  CodecB.der_decode bits (der_integer v) = Val (Ok (uint_of bits v)).
Proof.
  intros Hb Hv. destruct (der_decode_eq bits (der_integer v) Hb) as (c & E).
  { unfold der_integer.
    pose proof (lenZ_der_content_bound bits v ltac:(lia) Hv) as Hc.
    pose proof (nbytes_lt30 bits Hb) as Hn. change (2 ^ 27) with 134217728 in Hn.
    constructor; [unfold isbyte; lia|]. apply Forall_app. split.
    - rewrite <- length_encode_spec by (change (2 ^ 32) with 4294967296; lia).
      apply length_encode_isbyte. lia.
    - unfold der_content. destruct (be_min v) as [|b t] eqn:EB; [repeat constructor; unfold isbyte; lia|].
      assert (Forall isbyte (b :: t)).
      { rewrite <- EB. unfold be_min. rewrite le_min_digits by lia. apply Forall_rev, le_digits_isbyte. }
      destruct (128 <=? b); [constructor; [unfold isbyte; lia|]|]; assumption. }
  rewrite E, der_parse_complete by lia. destruct (Z.ltb_spec v (2 ^ bits)); [reflexivity|lia].
Qed.

(* ---- DER object conversions ---- *)
Lemma der_from_any_eq bits inp : 0 <= bits < 2 ^ 30 -> Forall isbyte inp ->
  exists c,
  CodecB.der_from_any bits inp =
    Val (match der_parse_content inp with
         | Some v => if v <? 2 ^ bits then Ok (uint_of bits v) else Err c []
         | None => Err c []
         end).
Proof.
  intros Hb Hi. unfold CodecB.der_from_any.
  destruct (der_decode_value_eq bits (lenZ inp) inp Hb (lenZ_nonneg inp) Hi) as (c & E).
  rewrite Z.eqb_refl in E. exists c. exact E.
Qed.

Lemma strip_leading_ones_nonneg bs : (match bs with b :: _ => b <? 128 | [] => true end) = true ->
  strip_leading_ones bs = bs.
Proof.
  destruct bs as [|b rest]; [reflexivity|]. intros H. apply Z.ltb_lt in H. cbn [strip_leading_ones].
  destruct (Z.eqb_spec b 255); [lia|]. reflexivity.
Qed.

(* leading 0xff octets are only dropped in front of an octet >= 0x80: the result is still negative *)
Lemma strip_leading_ones_neg bs : forall b rest, bs = b :: rest -> 128 <= b ->
  exists b' rest', strip_leading_ones bs = b' :: rest' /\ 128 <= b'.
Proof.
  induction bs as [|x l IH]; intros b rest E Hb; [discriminate|]. injection E as -> ->.
  cbn [strip_leading_ones]. destruct (Z.eqb_spec b 255) as [->|Hn]; cbn [andb].
  - destruct rest as [|r0 rest']; [eexists _, _; split; [reflexivity|lia]|].
    destruct (Z.leb_spec 128 r0) as [Hr|Hr].
    + apply (IH r0 rest' eq_refl Hr).
    + eexists _, _; split; [reflexivity|lia].
  - eexists _, _; split; [reflexivity|exact Hb].
Qed.

Lemma strip_leading_ones_isbyte bs : Forall isbyte bs -> Forall isbyte (strip_leading_ones bs).
Proof.
  induction 1 as [|b rest Hb Hr IH]; [constructor|]. cbn [strip_leading_ones].
  destruct ((b =? 255) && match rest with r0 :: _ => 128 <=? r0 | [] => false end); [exact IH|].
  now constructor.
Qed.

Lemma der_from_int_eq bits inp : 0 <= bits -> Forall isbyte inp ->
  exists c,
  CodecB.der_from_int bits inp =
    Val (match der_parse_content inp with
         | Some v => if v <? 2 ^ bits then Ok (uint_of bits v) else Err c []
         | None => Err c []
         end).
Proof.
  intros Hb Hi. unfold CodecB.der_from_int.
  destruct inp as [|b rest]; [apply (from_der_slice_eq bits [] Hb Hi)|].
  inversion Hi as [|? ? Hbb Hrest]; subst. unfold isbyte in Hbb.
  destruct (Z.ltb_spec b 128) as [Hs|Hl].
  - rewrite strip_leading_ones_nonneg by (now apply Z.ltb_lt). now apply from_der_slice_eq.
  - destruct (strip_leading_ones_neg (b :: rest) b rest eq_refl Hl) as (b' & rest' & ES & Hb').
    rewrite ES. exists D_VALUE.
    assert (EP : der_parse_content (b :: rest) = None).
    { destruct rest as [|r0 r']; cbn [der_parse_content].
      - destruct (Z.ltb_spec b 128); [lia|reflexivity].
      - destruct (Z.leb_spec 128 b); [reflexivity|lia]. }
    rewrite EP. unfold from_der_slice.
    assert (Hi' : Forall isbyte (b' :: rest')) by (rewrite <- ES; now apply strip_leading_ones_isbyte).
    inversion Hi' as [|? ? Hbb' _]; subst. unfold isbyte in Hbb'.
    destruct (Z.eqb_spec b' 0); [lia|]. destruct (Z.leb_spec 128 b'); [reflexivity|lia].
Qed.

Lemma strip_leading_zeroes_spec bs : Forall isbyte bs -> bs <> [] ->
  exists h t, strip_leading_zeroes bs = h :: t /\ Forall isbyte (h :: t) /\ bev (h :: t) = bev bs /\
              (h = 0 -> t = []).
Proof.
  induction 1 as [|b rest Hb Hr IH]; intros Hne; [congruence|].
  cbn [strip_leading_zeroes]. destruct (Z.eqb_spec b 0) as [->|Hn]; cbn [andb].
  - destruct rest as [|r0 r'].
    + exists 0, []. split; [reflexivity|]. split; [now constructor|]. split; [reflexivity|auto].
    + destruct (IH ltac:(discriminate)) as (h & t & E & Hf & Hv & Hz).
      exists h, t. repeat split; try assumption. rewrite Hv, (bev_cons 0). lia.
  - exists b, rest. repeat split; try reflexivity; [now constructor|lia].
Qed.

Lemma der_from_uint_spec bits inp : 0 <= bits -> Forall isbyte inp ->
  CodecB.der_from_uint bits inp =
    Val (match inp with
         | [] => Err D_LENGTH []
         | _ => if bev inp <? 2 ^ bits then Ok (uint_of bits (bev inp)) else Err D_NONCANONICAL []
         end).
Proof.
  intros Hb Hi. unfold CodecB.der_from_uint. destruct inp as [|b rest]; [reflexivity|].
  destruct (strip_leading_zeroes_spec (b :: rest) Hi ltac:(discriminate)) as (h & t & E & Hf & Hv & Hz).
  rewrite E, <- Hv. unfold from_der_uint_slice.
  assert (Hp : 0 < 2 ^ bits) by (apply Z.pow_pos_nonneg; lia).
  destruct (Z.eqb_spec h 0) as [->|Hn].
  - rewrite (Hz eq_refl). cbn [andb]. rewrite bev_cons, bev_nil.
    destruct (Z.ltb_spec (0 * 256 ^ lenZ (@nil Z) + 0) (2 ^ bits)); [|lia].
    rewrite uint_of_0 by assumption. reflexivity.
  - cbn [andb]. rewrite try_from_be_slice_bev by assumption. cbn [obind].
    rewrite fit_nonzero_head by assumption. destruct (bev (h :: t) <? 2 ^ bits); reflexivity.
Qed.

(* ---- From<&Uint> for Int / DerUint / Any ---- *)
Lemma list_eqb_Z_eq a b : list_eqb Z.eqb a b = true <-> a = b.
Proof.
  revert b. induction a as [|x a IH]; intros [|y b]; cbn [list_eqb]; split; try discriminate; try reflexivity.
  - intros H. apply andb_true_iff in H. destruct H as [H1 H2]. apply Z.eqb_eq in H1. apply IH in H2. congruence.
  - intros [= -> ->]. rewrite Z.eqb_refl. cbn [andb]. now apply IH.
Qed.

Lemma is_zero_spec bits a : 0 <= bits -> canon bits a ->
  list_eqb Z.eqb a (uZERO bits) = (eval a =? 0).
Proof.
  intros Hb Hc. destruct (canon_uZERO bits Hb) as [Hz He].
  destruct (Z.eqb_spec (eval a) 0) as [E|E].
  - apply list_eqb_Z_eq. rewrite <- (canon_uint_of bits a Hc), E. now apply uint_of_0.
  - destruct (list_eqb Z.eqb a (uZERO bits)) eqn:EL; [|reflexivity].
    apply list_eqb_Z_eq in EL. subst a. lia.
Qed.

Lemma der_int_bytes_spec bits a : 0 <= bits -> canon bits a ->
  der_int_bytes bits a = Val (der_content (eval a)).
Proof.
  intros Hb Hc. pose proof (canon_val bits a Hb Hc) as Hv. unfold der_int_bytes.
  rewrite is_zero_spec by assumption. destruct (Z.eqb_spec (eval a) 0) as [E|E]; [now rewrite E|].
  rewrite to_be_bytes_trimmed_vec_spec by assumption. cbn [obind].
  destruct (be_min_head (eval a) ltac:(lia)) as (t & EB & _).
  unfold der_content. unfold be_min in *. rewrite le_min_digits in * by lia. rewrite EB.
  cbn [idx Z.ltb Z.compare Z.to_nat nth_error obind].
  destruct (128 <=? eval a / 256 ^ (bytelen (eval a) - 1)); reflexivity.
Qed.

Lemma der_content_head v : 0 <= v ->
  (match der_content v with b :: _ => b <? 128 | [] => true end) = true.
Proof.
  intros Hv. unfold der_content. destruct (be_min v) as [|b t]; [reflexivity|].
  destruct (Z.leb_spec 128 b); [reflexivity|]. apply Z.ltb_lt. lia.
Qed.

Lemma der_to_int_spec bits a : 0 <= bits -> canon bits a ->
  CodecB.der_to_int bits a = Val (der_content (eval a)).
Proof.
  intros Hb Hc. pose proof (canon_val bits a Hb Hc) as Hv. unfold CodecB.der_to_int.
  rewrite der_int_bytes_spec by assumption. cbn [obind].
  rewrite strip_leading_ones_nonneg; [reflexivity|]. apply der_content_head. lia.
Qed.

Lemma der_to_any_spec bits a : 0 <= bits -> canon bits a ->
  CodecB.der_to_any bits a = Val (der_content (eval a)).
Proof. intros. unfold CodecB.der_to_any. now apply der_int_bytes_spec. Qed.

Lemma der_to_uint_spec bits a : 0 <= bits -> canon bits a ->
  CodecB.der_to_uint bits a = Val (if eval a =? 0 then [0] else be_min (eval a)).
Proof.
  intros Hb Hc. pose proof (canon_val bits a Hb Hc) as Hv. unfold CodecB.der_to_uint, der_uint_bytes.
  rewrite is_zero_spec by assumption. destruct (Z.eqb_spec (eval a) 0) as [E|E]; [reflexivity|].
  rewrite to_be_bytes_trimmed_vec_spec by assumption. cbn [obind].
  destruct (be_min_head (eval a) ltac:(lia)) as (t & EB & _).
  unfold be_min in *. rewrite le_min_digits in * by lia. rewrite EB. cbn [strip_leading_zeroes].
  destruct (bytelen_spec (eval a) ltac:(lia)) as (H1 & Hlo & _).
  pose proof (p256_pos_Z (bytelen (eval a) - 1) ltac:(lia)).
  assert (1 <= eval a / 256 ^ (bytelen (eval a) - 1)) by (apply Z.div_le_lower_bound; lia).
  destruct (Z.eqb_spec (eval a / 256 ^ (bytelen (eval a) - 1)) 0); [lia|]. reflexivity.
Qed.
