(* Proofs/PfDiv.v — mod.rs: the top-level `div` (trim, trivial cases, dispatch). *)
From Coq Require Import ZArith List Bool Lia Arith.
From RV.Model Require Import Base Word Limbs DivRecip DivSmall DivKnuth Div.
From RV.Proofs Require Import BaseFacts PfDivBase PfDiv2x1 PfDivSmall PfDivKnuthArith PfDivKnuthList
  PfDivKnuth.
Import ListNotations.
Local Open Scope Z_scope.

(* ---------- trimming ---------- *)
Lemma rpos_none l : rposition_nz l = None -> l = repeat 0 (length l).
Proof.
  induction l as [|x t IH]; [reflexivity|]. cbn [rposition_nz length repeat].
  destruct (rposition_nz t); [discriminate|].
  destruct (Z.eqb_spec x 0); [|discriminate]. intros _. subst. f_equal. apply IH. reflexivity.
Qed.

Lemma rpos_some l : forall i, rposition_nz l = Some i ->
  exists t z, l = t ++ repeat 0 z /\ length t = S i /\ last t 0 <> 0.
Proof.
  induction l as [|x l IH]; intros i; [discriminate|]. cbn [rposition_nz].
  destruct (rposition_nz l) as [j|] eqn:E.
  - intros [= <-]. destruct (IH j eq_refl) as (t & z & -> & Hl & Hlast).
    exists (x :: t), z. repeat split; [cbn [length]; lia|].
    destruct t; [discriminate|]. exact Hlast.
  - destruct (Z.eqb_spec x 0); [discriminate|]. intros [= <-].
    exists [x], (length l). repeat split; [|assumption].
    cbn [app]. f_equal. apply rpos_none, E.
Qed.

Lemma firstn_skipn_trim (t : list Z) z :
  firstn (length t) (t ++ repeat 0 z) = t /\ skipn (length t) (t ++ repeat 0 z) = repeat 0 z.
Proof.
  split.
  - rewrite firstn_app, firstn_all, Nat.sub_diag. cbn [firstn]. apply app_nil_r.
  - rewrite skipn_app, skipn_all, Nat.sub_diag. reflexivity.
Qed.

Lemma eval_trim t z : eval (t ++ repeat 0 z) = eval t.
Proof. rewrite eval_app, eval_repeat0. ring. Qed.

Lemma pad_ok q z len v :
  (length q + z = len)%nat -> Forall inW q -> eval q = v -> q ++ repeat 0 z = to_limbs len v.
Proof.
  intros Hl Hq Hv. symmetry. apply to_limbs_unique.
  - rewrite app_length, repeat_length. exact Hl.
  - apply Forall_app. split; [exact Hq | apply Forall_inW_repeat0].
  - rewrite eval_trim. exact Hv.
Qed.

(* a trimmed list is at least B^(len-1) *)
Lemma trimmed_lower t : Forall inW t -> t <> [] -> last t 0 <> 0 ->
  B ^ Z.of_nat (length t - 1) <= eval t.
Proof.
  intros Ht Hne Hl. destruct (list_snoc_inv t Hne) as (i & x & ->).
  rewrite last_snoc in Hl. apply Forall_app in Ht. destruct Ht as [Hi Hx].
  inversion Hx as [|? ? Hx' _]; subst. unfold inW in Hx'.
  rewrite eval_app, app_length. cbn [length eval].
  replace (length i + 1 - 1)%nat with (length i) by lia.
  pose proof (eval_bound i Hi). pose proof (Bn_pos (length i)). nia.
Qed.

Theorem div_kernel_val n d : Forall inW n -> Forall inW d -> eval d <> 0 ->
  div_kernel n d =
  Val (to_limbs (length n) (eval n / eval d), to_limbs (length d) (eval n mod eval d)).
Proof.
  intros Hn Hd Hnz. pose proof B_pos as HB. unfold div_kernel.
  destruct (rposition_nz d) as [i|] eqn:Ed.
  2:{ exfalso. apply Hnz. rewrite (rpos_none d Ed). apply eval_repeat0. }
  destruct (rpos_some d i Ed) as (dt & dz & -> & Hdl & Hdlast).
  rewrite <- Hdl. destruct (firstn_skipn_trim dt dz) as [-> ->].
  apply Forall_app in Hd. destruct Hd as [Hdt _].
  rewrite eval_trim in *. rewrite app_length, repeat_length.
  assert (Hdne : dt <> []) by (destruct dt; [discriminate|congruence]).
  pose proof (trimmed_lower dt Hdt Hdne Hdlast) as HDlow.
  pose proof (eval_bound dt Hdt) as HDb.
  set (D := eval dt) in *.
  assert (HDpos : 0 < D) by (pose proof (Bn_pos (length dt - 1)); lia).
  destruct (rposition_nz n) as [k|] eqn:En.
  2:{ (* numerator is zero *)
      assert (E0 : eval n = 0) by (rewrite (rpos_none n En); apply eval_repeat0).
      rewrite E0, Z.div_0_l, Z.mod_0_l by lia. f_equal. f_equal.
      - symmetry. apply to_limbs_unique; auto.
      - rewrite <- repeat_app. symmetry. apply to_limbs_unique.
        + apply repeat_length. + apply Forall_inW_repeat0. + apply eval_repeat0. }
  destruct (rpos_some n k En) as (nt & nz & -> & Hnl & Hnlast).
  rewrite <- Hnl. destruct (firstn_skipn_trim nt nz) as [-> ->].
  apply Forall_app in Hn. destruct Hn as [Hnt _].
  rewrite eval_trim in *. rewrite app_length, repeat_length.
  assert (Hnne : nt <> []) by (destruct nt; [discriminate|congruence]).
  pose proof (eval_bound nt Hnt) as HNb.
  set (N := eval nt) in *.
  destruct (Nat.ltb_spec (length nt) (length dt)) as [Hshort|Hlong].
  - (* numerator shorter: q = 0, r = numerator *)
    assert (HND : N < D).
    { assert (B ^ Z.of_nat (length nt) <= B ^ Z.of_nat (length dt - 1))
        by (apply Z.pow_le_mono_r; lia). lia. }
    rewrite Z.div_small, Z.mod_small by lia. f_equal. f_equal.
    + rewrite <- repeat_app. symmetry. apply to_limbs_unique.
      * apply repeat_length. * apply Forall_inW_repeat0. * apply eval_repeat0.
    + rewrite <- repeat_app.
      apply pad_ok; auto. lia.
  - destruct (Nat.leb_spec (length dt) 2) as [Hd2|Hd3].
    + destruct (Nat.eqb_spec (length dt) 1) as [Hd1|Hd1].
      * (* one-limb divisor *)
        destruct dt as [|d0 [|? ?]]; try discriminate. cbn [nth].
        inversion Hdt as [|? ? Hd0 _]; subst. cbn [eval] in D. 
        assert (ED : D = d0) by (subst D; lia). rewrite ED in *. clear ED D.
        destruct (Nat.eqb_spec (length nt) 1) as [Hn1|Hn1].
        -- destruct nt as [|n0 [|? ?]]; try discriminate. cbn [nth].
           inversion Hnt as [|? ? Hn0 _]; subst. cbn [eval] in N.
           assert (EN : N = n0) by (subst N; lia). rewrite EN in *. unfold inW in Hn0, Hd0.
           f_equal. f_equal.
           ++ change ([n0 / d0] ++ repeat 0 nz) with ([n0 / d0] ++ repeat 0 nz).
              apply pad_ok; [reflexivity| |cbn [eval]; lia].
              constructor; [|constructor]. unfold inW. split; [apply Z.div_pos; lia|].
              apply Z.div_lt_upper_bound; nia.
           ++ apply pad_ok; [reflexivity| |cbn [eval]; lia].
              constructor; [|constructor]. unfold inW.
              pose proof (Z.mod_pos_bound n0 d0 ltac:(lia)). lia.
        -- cbn [last] in Hdlast. unfold inW in Hd0.
           rewrite (div_nx1_spec nt d0 Hnt ltac:(lia) Hnne Hnlast). cbn [obind fst snd].
           f_equal. f_equal.
           ++ unfold LQ. apply pad_ok; [rewrite to_limbs_length; reflexivity | apply to_limbs_inW |].
              rewrite eval_to_limbs. apply Z.mod_small. fold N. split; [apply Z.div_pos; lia|].
              apply Z.div_lt_upper_bound; nia.
           ++ apply pad_ok; [reflexivity| |cbn [eval]; fold N; lia].
              constructor; [|constructor]. unfold inW. fold N.
              pose proof (Z.mod_pos_bound N d0 ltac:(lia)). lia.
      * (* two-limb divisor *)
        destruct dt as [|d0 [|d1 [|? ?]]]; cbn [length] in *; try lia. cbn [nth].
        inversion Hdt as [|? ? Hd0 Hdt']; subst. inversion Hdt' as [|? ? Hd1' _]; subst.
        cbn [last] in Hdlast. unfold inW in Hd0, Hd1'.
        assert (ED : D = join d1 d0) by (subst D; cbn [eval]; unfold join; ring).
        assert (HdB : B <= join d1 d0 < B * B) by (unfold join; nia).
        rewrite (div_nx2_spec nt (join d1 d0) Hnt HdB Hnne Hnlast). cbn [obind fst snd].
        rewrite <- ED. fold N.
        pose proof (Z.mod_pos_bound N D ltac:(lia)) as Hm.
        f_equal. f_equal.
        -- unfold LQ. fold N.
           apply pad_ok; [rewrite to_limbs_length; reflexivity | apply to_limbs_inW |].
           rewrite eval_to_limbs. apply Z.mod_small. split; [apply Z.div_pos; lia|].
           apply Z.div_lt_upper_bound; [lia|].
           assert (B ^ Z.of_nat (length nt) * 1 <= D * B ^ Z.of_nat (length nt)) by nia. lia.
        -- change ([lo128 (N mod D); hi128 (N mod D)] ++ repeat 0 dz)
             with ([lo128 (N mod D); hi128 (N mod D)] ++ repeat 0 dz).
           assert (Hr : 0 <= N mod D < B * B) by lia.
           destruct (lo_hi_inW _ Hr) as (H1 & H2 & H3).
           apply pad_ok; [reflexivity | apply Forall_inW2; assumption | cbn [eval]; lia].
    + (* Knuth *)
      rewrite (div_nxm_spec nt dt Hnt Hdt ltac:(lia) Hlong Hdlast). cbn [obind fst snd].
      fold N D. pose proof (Z.mod_pos_bound N D ltac:(lia)) as Hm.
      f_equal. f_equal.
      * apply pad_ok; [rewrite to_limbs_length; reflexivity | apply to_limbs_inW |].
        rewrite eval_to_limbs. apply Z.mod_small. split; [apply Z.div_pos; lia|].
        apply Z.div_lt_upper_bound; [lia|].
        assert (B ^ Z.of_nat (length nt) * 1 <= D * B ^ Z.of_nat (length nt)) by nia. lia.
      * apply pad_ok; [rewrite to_limbs_length; reflexivity | apply to_limbs_inW |].
        rewrite eval_to_limbs. apply Z.mod_small. lia.
Qed.

Theorem div_kernel_zero n d : Forall inW d -> eval d = 0 -> div_kernel n d = Panic.
Proof.
  intros Hd E. unfold div_kernel. destruct (rposition_nz d) as [i|] eqn:Ed; [|reflexivity].
  exfalso. destruct (rpos_some d i Ed) as (dt & dz & -> & Hdl & Hdlast).
  apply Forall_app in Hd. destruct Hd as [Hdt _]. rewrite eval_trim in E.
  assert (Hdne : dt <> []) by (destruct dt; [discriminate|congruence]).
  pose proof (trimmed_lower dt Hdt Hdne Hdlast). pose proof (Bn_pos (length dt - 1)). lia.
Qed.

(* the form asked for by the dependants (C03, C10, C12, C13) *)
Corollary div_kernel_spec n d : Forall inW n -> Forall inW d -> eval d <> 0 ->
  exists q r, div_kernel n d = Val (q, r) /\ length q = length n /\ length r = length d /\
    Forall inW q /\ Forall inW r /\ eval q = eval n / eval d /\ eval r = eval n mod eval d.
Proof.
  intros Hn Hd Hnz. rewrite (div_kernel_val n d Hn Hd Hnz).
  pose proof (eval_bound n Hn) as Bn. pose proof (eval_bound d Hd) as Bd.
  assert (HD : 0 < eval d) by lia.
  pose proof (Z.mod_pos_bound (eval n) (eval d) HD) as Hm.
  eexists _, _. split; [reflexivity|].
  rewrite !to_limbs_length, !eval_to_limbs. repeat split; try apply to_limbs_inW.
  - apply Z.mod_small. split; [apply Z.div_pos; lia|].
    apply Z.div_lt_upper_bound; [lia|]. nia.
  - apply Z.mod_small. lia.
Qed.
Print Assumptions div_kernel_spec.
