(* Proofs/PfC13.v — every C13 call: the model's answer meets the executable specification.
   The pow and log families are closed unconditionally; `root` divides and therefore carries the
   hypothesis PfRoot.DivKernelOK (the statement property C14 is to deliver). *)
From Coq Require Import ZArith List Bool Lia.
From RV.Model Require Import Base Word.
From RV.Model Require Pow Log Root Bits.
From RV.Proofs Require Import BaseFacts PfPow PfLog PfRoot.
From RV.Proofs Require PfC01.
From RV.Run Require RunC06.
From RV.Run Require Import RunC13.
Import ListNotations.
Local Open Scope Z_scope.

Lemma U_of bits res v : canon bits res -> eval res = v -> TL res = U bits v.
Proof. intros Hc Ev. unfold U. f_equal. now apply uint_of_unique. Qed.

Lemma canon0 a : canon 0 a -> a = [].
Proof. apply canon_zero_width. Qed.

Definition is_pow_call (c : call) : bool :=
  match c with
  | pow _ _ _ | wrapping_pow _ _ _ | overflowing_pow _ _ _ | checked_pow _ _ _
  | saturating_pow _ _ _ => true
  | _ => false
  end.
Definition uses_div (c : call) : bool := match c with root _ _ _ _ => true | _ => false end.

(* ---------- pow family ---------- *)
Lemma pow_calls c : is_pow_call c = true -> wf c -> spec c (run c) = true.
Proof.
  destruct c as [bits a e|bits a e|bits a e|bits a e|bits a e| | | | | | | ]; try discriminate;
    intros _; unfold wf; cbn [wfb]; rewrite !andb_true_iff, Z.leb_le, !canonb_iff;
    intros [[Hb Ha] He];
    pose proof (canon_range bits a Hb Ha) as Hra; pose proof (canon_range bits e Hb He) as Hre;
    (destruct (Z.eq_dec bits 0) as [Hz|Hnz];
     [subst bits; apply canon0 in Ha, He; subst a e; vm_compute; reflexivity|]);
    assert (Hpos : 0 < bits) by lia; cbn [spec run];
    rewrite ?powmod_spec, ?overflows_spec by lia;
    (destruct (Z.ltb_spec 0 bits) as [_|?]; [|lia]); cbn [andb].
  - (* pow *)
    destruct (wrapping_pow_spec bits a e Hpos Ha He) as (res & E & Hc & Ev).
    unfold Pow.pow. rewrite E. cbn [omap obind]. unfold l_toks. rewrite (U_of bits res _ Hc Ev).
    apply PfC01.expect_refl.
  - destruct (wrapping_pow_spec bits a e Hpos Ha He) as (res & E & Hc & Ev).
    rewrite E. cbn [omap obind]. unfold l_toks. rewrite (U_of bits res _ Hc Ev). apply PfC01.expect_refl.
  - destruct (overflowing_pow_spec bits a e Hpos Ha He) as (res & E & Hc & Ev).
    rewrite E. cbn [omap obind]. unfold pair_toks. cbn [fst snd]. rewrite (U_of bits res _ Hc Ev).
    apply PfC01.expect_refl.
  - destruct (checked_pow_spec bits a e Hpos Ha He) as (res & Hc & Ev & E).
    rewrite E. cbn [omap obind].
    destruct (2 ^ bits <=? eval a ^ eval e); cbn [opt_toks].
    + apply PfC01.expect_refl.
    + rewrite (U_of bits res _ Hc Ev). apply PfC01.expect_refl.
  - destruct (overflowing_pow_spec bits a e Hpos Ha He) as (res & E & Hc & Ev).
    unfold Pow.saturating_pow. rewrite E. cbn [omap obind]. unfold l_toks.
    destruct (2 ^ bits <=? eval a ^ eval e).
    + destruct (canon_uMAX bits Hb) as [Hm Em]. unfold M. rewrite (U_of bits _ _ Hm Em).
      apply PfC01.expect_refl.
    + rewrite (U_of bits res _ Hc Ev). apply PfC01.expect_refl.
Qed.

(* ---------- log family ---------- *)
Lemma is_floor_log_true n b k : 0 <= n -> 0 <= b -> floor_log n b k -> is_floor_log n b k = true.
Proof.
  intros Hn Hb (Hk & Hlo & Hhi). unfold is_floor_log.
  rewrite pow_le_spec, pow_gt_spec by lia.
  rewrite !andb_true_iff, Z.leb_le, Z.leb_le, Z.ltb_lt. auto.
Qed.

Lemma spec_log_ok n b (o : outcome Z) :
  0 <= n -> 0 <= b ->
  (if (n =? 0) || (b <? 2) then o = Panic else exists k, o = Val k /\ floor_log n b k) ->
  spec_log n b (omap z_toks o) = true.
Proof.
  intros Hn Hb H. unfold spec_log. destruct ((n =? 0) || (b <? 2)).
  - subst o. reflexivity.
  - destruct H as (k & -> & F). cbn [omap obind]. unfold z_toks. now apply is_floor_log_true.
Qed.

Lemma spec_checked_log_ok n b (o : outcome (option Z)) :
  0 <= n -> 0 <= b ->
  (if (n =? 0) || (b <? 2) then o = Val None else exists k, o = Val (Some k) /\ floor_log n b k) ->
  spec_checked_log n b (omap optz_toks o) = true.
Proof.
  intros Hn Hb H. unfold spec_checked_log. destruct ((n =? 0) || (b <? 2)).
  - subst o. reflexivity.
  - destruct H as (k & -> & F). cbn [omap obind optz_toks]. now apply is_floor_log_true.
Qed.

Lemma expect_opt_of {A} (o : outcome (option A)) (P : A -> Prop) (c : bool) :
  (if c then o = Val None else exists k, o = Val (Some k) /\ P k) ->
  if c then Log.expect_opt o = Panic else exists k, Log.expect_opt o = Val k /\ P k.
Proof.
  destruct c.
  - intros ->. reflexivity.
  - intros (k & -> & Hk). exists k. auto.
Qed.

Lemma log_calls c : is_pow_call c = false -> uses_div c = false -> wf c -> spec c (run c) = true.
Proof.
  destruct c as [| | | | |bits v b est|bits v b est|bits v|bits v|bits v est|bits v est| ];
    try discriminate; intros _ _; unfold wf; cbn [wfb];
    rewrite !andb_true_iff, ?Z.leb_le, ?Z.ltb_lt, !canonb_iff; cbn [spec run].
  - (* log *)
    intros [[[[Hb HbB] Hv] Hbase] Hest].
    pose proof (canon_range bits v Hb Hv). pose proof (canon_range bits b Hb Hbase).
    apply spec_log_ok; try lia. apply log_spec; auto.
  - intros [[[[Hb HbB] Hv] Hbase] Hest].
    pose proof (canon_range bits v Hb Hv). pose proof (canon_range bits b Hb Hbase).
    apply spec_checked_log_ok; try lia. apply checked_log_spec; auto.
  - (* log2 *)
    intros [Hb Hv]. pose proof (canon_range bits v Hb Hv).
    apply spec_log_ok; try lia. unfold Log.log2.
    change ((eval v =? 0) || (2 <? 2)) with ((eval v =? 0) || false). rewrite orb_false_r.
    apply (expect_opt_of _ (floor_log (eval v) 2)).
    pose proof (checked_log2_spec bits v Hb Hv) as L.
    destruct (eval v =? 0); [exact L|]. destruct L as [E F]. eexists. split; [exact E | exact F].
  - intros [Hb Hv]. pose proof (canon_range bits v Hb Hv).
    apply spec_checked_log_ok; try lia.
    change ((eval v =? 0) || (2 <? 2)) with ((eval v =? 0) || false). rewrite orb_false_r.
    pose proof (checked_log2_spec bits v Hb Hv) as L.
    destruct (eval v =? 0); [exact L|]. destruct L as [E F]. eexists. split; [exact E | exact F].
  - (* log10 *)
    intros [[[Hb HbB] Hv] Hest]. pose proof (canon_range bits v Hb Hv).
    apply spec_log_ok; try lia. unfold Log.log10.
    change ((eval v =? 0) || (10 <? 2)) with ((eval v =? 0) || false). rewrite orb_false_r.
    apply (expect_opt_of _ (floor_log (eval v) 10)). apply checked_log10_spec; auto.
  - intros [[[Hb HbB] Hv] Hest]. pose proof (canon_range bits v Hb Hv).
    apply spec_checked_log_ok; try lia.
    change ((eval v =? 0) || (10 <? 2)) with ((eval v =? 0) || false). rewrite orb_false_r.
    apply checked_log10_spec; auto.
Qed.

(* ---------- root ---------- *)
Lemma root_calls : DivKernelOK -> forall c, uses_div c = true -> wf c -> spec c (run c) = true.
Proof.
  intros HDiv c. destruct c as [| | | | | | | | | | |bits v degree est]; try discriminate.
  intros _. unfold wf. cbn [wfb].
  rewrite !andb_true_iff, !Z.leb_le, Z.ltb_lt, canonb_iff. intros [[[[Hb Hv] Hd0] HdB] Hest].
  cbn [spec run]. pose proof (root_spec HDiv bits v degree est Hb Hv ltac:(lia) Hest) as R.
  pose proof (canon_range bits v Hb Hv).
  destruct (Z.leb_spec degree 0).
  - rewrite R. reflexivity.
  - destruct R as (y & E & Hy & (Hy0 & Hlo & Hhi)). rewrite E. cbn [omap obind]. unfold l_toks.
    apply canonb_iff in Hy. rewrite Hy. cbn [andb]. unfold is_floor_root.
    rewrite pow_le_spec, pow_gt_spec by lia.
    rewrite !andb_true_iff, !Z.leb_le, Z.ltb_lt. auto.
Qed.

(* ---------- the theorems ---------- *)
(* every entry point that does not divide: unconditional *)
Theorem C13_pow_log c : uses_div c = false -> wf c -> spec c (run c) = true.
Proof.
  intros Hu Hw. destruct (is_pow_call c) eqn:Ep.
  - now apply pow_calls.
  - now apply log_calls.
Qed.

(* FULL STATEMENT (target):  Theorem C13_all c : wf c -> spec c (run c) = true.
   Proved here with the explicit hypothesis DivKernelOK, needed by `root` only. *)
Theorem C13_all_partial : DivKernelOK -> forall c, wf c -> spec c (run c) = true.
Proof.
  intros HDiv c Hw. destruct (uses_div c) eqn:Eu.
  - now apply root_calls.
  - now apply C13_pow_log.
Qed.
