(* Proofs/PfC19.v — every C19 program: the model's observable answer meets the executable
   specification (literals, and token trees at any nesting depth). *)
From Coq Require Import ZArith List Bool Lia.
From RV.Model Require Import Base Macro.
From RV.Run Require Import RunC19.
From RV.Proofs Require Import BaseFacts PfMacro.
Import ListNotations.
Local Open Scope Z_scope.

Lemma list_eqb_refl {A} (eqb : A -> A -> bool) (l : list A) :
  (forall x, eqb x x = true) -> list_eqb eqb l l = true.
Proof. intros H. induction l as [|x l IH]; cbn; [reflexivity | now rewrite H, IH]. Qed.
Lemma tok_eqb_refl t : tok_eqb t t = true.
Proof.
  destruct t; cbn; auto using Z.eqb_refl, eqb_reflx;
    apply list_eqb_refl; apply Z.eqb_refl.
Qed.
Lemma expect_refl t : expect (Val t) t = true.
Proof. unfold expect. cbn. apply list_eqb_refl, tok_eqb_refl. Qed.

Lemma transform_tree_group path d s :
  transform_tree path (Group d s) = Group d (map (transform_tree path) s).
Proof. reflexivity. Qed.

(* ---------- one literal node ---------- *)
Lemma transform_lit_node path t :
  existsb has_panic path = false ->
  let n := transform_tree path (Lit t) in
  (has_panic n = true -> spec_literal t = SReject) /\
  (has_panic n = false -> flat_tree n = spec_lit (flat_map flat_tree path) t).
Proof.
  intros Hp. cbn [transform_tree]. unfold spec_lit. pose proof (transform_literal_spec t) as S.
  destruct (spec_literal t) as [|k w limbs|].
  - rewrite S. cbn. split; [discriminate|reflexivity].
  - destruct S as (bt & <- & ->). unfold construct. cbn [has_panic flat_tree Z.eqb Pos.eqb].
    rewrite existsb_app, Hp. cbn [existsb has_panic orb].
    split; [discriminate|]. intros _. rewrite flat_map_app. reflexivity.
  - destruct S as [-> | ->]; cbn; split; auto; discriminate.
Qed.

(* ---------- forests obtained from item lists ---------- *)
Lemma flat_group d s :
  flat_tree (Group d s) = open_toks d ++ flat_map flat_tree s ++ close_toks d.
Proof.
  cbn [flat_tree]. unfold open_toks, close_toks. destruct (d =? 3).
  - now rewrite app_nil_r.
  - reflexivity.
Qed.

Lemma parse_items_spec path fuel :
  existsb has_panic path = false ->
  forall items f rest,
  parse_items fuel items = Some (f, rest) ->
  forallb item_ok items = true ->
  exists consumed,
    items = consumed ++ rest /\
    existsb has_panic f = false /\
    (forall stack tl, walk raw_lit stack (consumed ++ tl) =
                      flat_map flat_tree f ++ walk raw_lit stack tl) /\
    (forall depth tl acc,
        split_group depth (consumed ++ tl) acc = split_group depth tl (rev consumed ++ acc)) /\
    (existsb has_panic (transform_stream path f) = true ->
     existsb item_rejected consumed = true) /\
    (existsb has_panic (transform_stream path f) = false ->
     forall stack tl,
       walk (spec_lit (flat_map flat_tree path)) stack (consumed ++ tl) =
       flat_map flat_tree (transform_stream path f) ++
       walk (spec_lit (flat_map flat_tree path)) stack tl).
Proof.
  intros Hp. induction fuel as [|fuel IH]; intros items f rest HP Hok; [discriminate|].
  cbn [parse_items] in HP. destruct items as [|it items].
  { inversion HP; subst. exists []. cbn. repeat split; auto; discriminate. }
  cbn [forallb] in Hok. apply andb_prop in Hok. destruct Hok as [Hit Hok].
  unfold item_ok in Hit.
  destruct (classify it) eqn:K.
  - (* a group *)
    destruct (parse_items fuel items) as [[inner [|c rest2]]|] eqn:P1; try discriminate.
    destruct (classify c) eqn:Kc; try discriminate.
    destruct (parse_items fuel rest2) as [[sibs rest3]|] eqn:P2; try discriminate.
    inversion HP; subst f rest; clear HP.
    destruct (IH _ _ _ P1 Hok) as (ci & Ei & Npi & Ri & Si & Pi & Fi).
    assert (Hok2 : forallb item_ok rest2 = true).
    { rewrite Ei, forallb_app in Hok. apply andb_prop in Hok. destruct Hok as [_ Hok].
      cbn [forallb] in Hok. apply andb_prop in Hok. tauto. }
    destruct (IH _ _ _ P2 Hok2) as (cs & Es & Nps & Rs & Ss & Ps & Fs).
    exists (it :: ci ++ c :: cs).
    assert (Jit : item_rejected it = false) by (unfold item_rejected; now rewrite K).
    assert (Jc : item_rejected c = false) by (unfold item_rejected; now rewrite Kc).
    split; [|split; [|split; [|split; [|split]]]].
    + rewrite Ei, Es. cbn [app]. rewrite <- app_assoc. reflexivity.
    + cbn [existsb has_panic]. now rewrite Npi, Nps.
    + intros stack tl. cbn [app walk]. rewrite K. rewrite <- app_assoc. rewrite Ri.
      cbn [app walk]. rewrite Kc, Rs. cbn [flat_map]. rewrite flat_group.
      rewrite <- !app_assoc. reflexivity.
    + intros depth tl acc. cbn [app split_group]. rewrite K.
      rewrite <- app_assoc. rewrite Si. cbn [app split_group]. rewrite Kc.
      rewrite Ss. f_equal. cbn [rev]. rewrite rev_app_distr. cbn [rev].
      rewrite <- !app_assoc. reflexivity.
    + unfold transform_stream in *. cbn [map transform_tree existsb has_panic].
      intros H. cbn [existsb]. rewrite Jit. cbn [orb].
      rewrite existsb_app. cbn [existsb]. rewrite Jc. cbn [orb].
      apply orb_prop in H. destruct H as [H|H].
      * rewrite (Pi H). reflexivity.
      * rewrite (Ps H). apply orb_true_r.
    + unfold transform_stream in *. cbn [map transform_tree existsb has_panic].
      intros H stack tl. apply orb_false_elim in H. destruct H as [H1 H2].
      cbn [app walk]. rewrite K. rewrite <- app_assoc. rewrite (Fi H1).
      cbn [app walk]. rewrite Kc, (Fs H2). cbn [flat_map]. rewrite flat_group.
      rewrite <- !app_assoc. reflexivity.
  - (* a closing delimiter: stop *)
    inversion HP; subst. exists []. cbn. repeat split; auto; discriminate.
  - (* a literal *)
    destruct (parse_items fuel items) as [[sibs r]|] eqn:P1; try discriminate.
    inversion HP; subst f rest; clear HP.
    destruct (IH _ _ _ P1 Hok) as (cs & Es & Nps & Rs & Ss & Ps & Fs).
    exists (it :: cs).
    pose proof (transform_lit_node path t Hp) as [L1 L2].
    split; [|split; [|split; [|split; [|split]]]].
    + now rewrite Es.
    + cbn [existsb has_panic]. exact Nps.
    + intros stack tl. cbn [app walk]. rewrite K, Rs. reflexivity.
    + intros depth tl acc. cbn [app split_group]. rewrite K, Ss. cbn [rev].
      rewrite <- app_assoc. reflexivity.
    + unfold transform_stream in *. cbn [map existsb]. intros H.
      unfold item_rejected at 1. rewrite K.
      apply orb_prop in H. destruct H as [H|H].
      * rewrite (L1 H). reflexivity.
      * rewrite (Ps H). apply orb_true_r.
    + unfold transform_stream in *. cbn [map existsb]. intros H stack tl.
      apply orb_false_elim in H. destruct H as [H1 H2].
      cbn [app walk]. rewrite K, (Fs H2). cbn [flat_map]. rewrite (L2 H1).
      rewrite <- app_assoc. reflexivity.
  - (* any other token *)
    destruct (parse_items fuel items) as [[sibs r]|] eqn:P1; try discriminate.
    inversion HP; subst f rest; clear HP.
    destruct (IH _ _ _ P1 Hok) as (cs & Es & Nps & Rs & Ss & Ps & Fs).
    exists (it :: cs).
    split; [|split; [|split; [|split; [|split]]]].
    + now rewrite Es.
    + cbn [existsb has_panic]. exact Nps.
    + intros stack tl. cbn [app walk]. rewrite K, Rs. reflexivity.
    + intros depth tl acc. cbn [app split_group]. rewrite K, Ss. cbn [rev].
      rewrite <- app_assoc. reflexivity.
    + unfold transform_stream in *. cbn [map transform_tree existsb has_panic orb]. intros H.
      unfold item_rejected at 1. rewrite K. cbn [orb]. exact (Ps H).
    + unfold transform_stream in *. cbn [map transform_tree existsb has_panic orb]. intros H stack tl.
      cbn [app walk]. rewrite K, (Fs H). reflexivity.
  - discriminate.
Qed.

(* ---------- the stringify!-wrapped program ---------- *)
Definition wrap (inner : list Macro.tree) : list Macro.tree :=
  [Other t_stringify; Other [33]; Group 0 inner].

Lemma observe_wrapped path f items :
  existsb has_panic path = false ->
  parse_items (S (length items)) items = Some (f, []) ->
  forallb item_ok items = true ->
  spec_tree_with (flat_map flat_tree path) items
    (observe_tree (finish (transform_stream path (wrap f)))) = true.
Proof.
  intros Hp HP Hok.
  destruct (parse_items_spec path _ Hp _ _ _ HP Hok) as (c & E & _ & _ & _ & P & F).
  rewrite app_nil_r in E. subst c.
  unfold wrap, finish, transform_stream in *. cbn [map transform_tree existsb has_panic orb].
  rewrite orb_false_r. unfold spec_tree_with.
  destruct (existsb has_panic (map (transform_tree path) f)) eqn:H.
  - rewrite (P eq_refl). cbn [observe_tree result_eqb andb]. apply orb_true_r.
  - cbn [observe_tree]. specialize (F eq_refl [] []). rewrite !app_nil_r in F. cbn [walk] in F.
    rewrite ?app_nil_r in F. rewrite F, expect_refl. reflexivity.
Qed.

Lemma literal_ok bits entry src :
  entry_ok entry = true -> spec (literal bits entry src) (run (literal bits entry src)) = true.
Proof.
  intros He. cbn [spec run].
  assert (E : entry = 0 \/ entry = 1 \/ entry = 2).
  { unfold entry_ok in He. apply andb_prop in He. destruct He as [H1 H2].
    apply Z.leb_le in H1, H2. lia. }
  assert (G : forall path, existsb has_panic path = false ->
            (forall bt bits limbs, exists g,
                rev (construct path bt bits limbs) = Constructed bt bits ((bits + 63) / 64) limbs :: g) ->
            match spec_literal src with
            | SPass => expect (observe_literal (finish (transform_stream path [Lit src]))) [TZ 0]
            | SExpand kind bits limbs =>
                expect (observe_literal (finish (transform_stream path [Lit src])))
                       [TZ kind; TZ bits; TZ (nlimbs bits); TL limbs]
            | SReject => result_eqb (observe_literal (finish (transform_stream path [Lit src]))) CompileError
            end = true).
  { intros path Hp Hc. unfold transform_stream, finish. cbn [map transform_tree existsb].
    pose proof (transform_literal_spec src) as S.
    destruct (spec_literal src) as [|k w limbs|].
    - rewrite S. cbn. reflexivity.
    - destruct S as (bt & <- & ->). cbn [has_panic orb]. unfold construct at 1.
      rewrite existsb_app, Hp. cbn [existsb has_panic orb observe_literal].
      destruct (Hc bt w limbs) as (g & ->). apply expect_refl.
    - destruct S as [-> | ->]; reflexivity. }
  assert (C : forall path bt bits limbs, exists g,
             rev (construct path bt bits limbs) = Constructed bt bits ((bits + 63) / 64) limbs :: g).
  { intros. unfold construct. rewrite rev_app_distr. cbn [rev app]. eauto. }
  destruct E as [-> | [-> | ->]]; cbn [Z.eqb Pos.eqb entry_fn app];
    unfold uint_wrapper, uint, uint_with_path; apply G; auto.
Qed.

(* the same literal forwarded as an expression fragment (inside a None-delimited group) *)
Lemma observe_fwd_node n :
  observe_fwd (finish [Group 3 [n]]) = observe_literal (finish [n]).
Proof.
  unfold finish. cbn [existsb has_panic]. rewrite !orb_false_r.
  destruct (has_panic n); reflexivity.
Qed.

Lemma fwd_ok bits entry src :
  entry_ok entry = true -> spec (fwd bits entry src) (run (fwd bits entry src)) = true.
Proof.
  intros He. pose proof (literal_ok bits entry src He) as L. cbn [spec run] in *.
  assert (E : entry = 0 \/ entry = 1 \/ entry = 2).
  { unfold entry_ok in He. apply andb_prop in He. destruct He as [H1 H2].
    apply Z.leb_le in H1, H2. lia. }
  destruct E as [-> | [-> | ->]]; cbn [Z.eqb Pos.eqb entry_fn app] in *;
    unfold uint_wrapper, uint, uint_with_path, transform_stream in *;
    cbn [map] in *; rewrite transform_tree_group; cbn [map]; rewrite observe_fwd_node; exact L.
Qed.

Theorem C19_all c : wf c -> spec c (run c) = true.
Proof.
  unfold wf. destruct c as [bits entry src | bits entry src | bits entry items]; cbn [wfb]; intros W.
  - apply andb_prop in W. destruct W as [He _]. exact (literal_ok bits entry src He).
  - apply andb_prop in W. destruct W as [He _]. exact (fwd_ok bits entry src He).
  - apply andb_prop in W. destruct W as [W Hf]. apply andb_prop in W. destruct W as [He Hok].
    cbn [run]. unfold forest_of in *.
    destruct (parse_items (S (length items)) items) as [[f [|x r]]|] eqn:HP; try discriminate.
    assert (E : entry = 0 \/ entry = 1 \/ entry = 2).
    { unfold entry_ok in He. apply andb_prop in He. destruct He as [H1 H2].
      apply Z.leb_le in H1, H2. lia. }
    destruct E as [-> | [-> | ->]]; cbn [Z.eqb Pos.eqb entry_fn spec].
    + unfold uint_wrapper, uint_with_path.
      exact (observe_wrapped [dollar_crate] f items eq_refl HP Hok).
    + unfold uint. exact (observe_wrapped default_crate f items eq_refl HP Hok).
    + (* uint_with_path: the first token tree must be the path group *)
      destruct items as [|it items].
      { cbn in HP. inversion HP; subst. reflexivity. }
      remember (length (it :: items)) as n eqn:Hn. cbn [parse_items] in HP.
      pose proof Hok as Hok0.
      cbn [forallb] in Hok. apply andb_prop in Hok. destruct Hok as [Hit Hok].
      destruct (classify it) eqn:K.
      * destruct (parse_items n items) as [[inner [|cl rest2]]|] eqn:P1; try discriminate.
        destruct (classify cl) eqn:Kc; try discriminate.
        destruct (parse_items n rest2) as [[sibs rest3]|] eqn:P2; try discriminate.
        inversion HP; subst f rest3; clear HP.
        destruct (parse_items_spec [] _ eq_refl _ _ _ P1 Hok) as (ci & Ei & Npi & Ri & Si & _ & _).
        assert (Hok2 : forallb item_ok rest2 = true).
        { rewrite Ei, forallb_app in Hok. apply andb_prop in Hok. destruct Hok as [_ Hok].
          cbn [forallb] in Hok. apply andb_prop in Hok. tauto. }
        rewrite Ei, Si. cbn [split_group]. rewrite Kc, app_nil_r, rev_involutive.
        assert (Rp : walk raw_lit [] ci = flat_map flat_tree inner).
        { specialize (Ri [] []). rewrite ?app_nil_r in Ri. cbn [walk] in Ri.
          rewrite ?app_nil_r in Ri. exact Ri. }
        rewrite Rp. unfold uint_with_path.
        destruct (parse_items_spec inner _ Npi _ _ _ P2 Hok2) as (cs & Es & _ & _ & _ & P & F).
        rewrite app_nil_r in Es. subst cs.
        unfold finish, transform_stream in *. cbn [map transform_tree existsb has_panic orb].
        rewrite orb_false_r. unfold spec_tree_with.
        destruct (existsb has_panic (map (transform_tree inner) sibs)) eqn:H.
        -- rewrite (P eq_refl). cbn [observe_tree result_eqb andb]. apply orb_true_r.
        -- cbn [observe_tree]. specialize (F eq_refl [] []). rewrite ?app_nil_r in F.
           cbn [walk] in F. rewrite ?app_nil_r in F. rewrite F, expect_refl. reflexivity.
      * inversion HP.
      * destruct (parse_items n items) as [[sibs r]|]; try discriminate.
        inversion HP; subst. reflexivity.
      * destruct (parse_items n items) as [[sibs r]|]; try discriminate.
        inversion HP; subst. reflexivity.
      * discriminate.
Qed.

(* ---------- Prop-level restatements for one literal ---------- *)
Lemma pos_fold_nonneg base ds acc :
  0 <= base -> 0 <= acc -> 0 <= fold_left (pos_step base) ds acc.
Proof.
  intros Hb. revert acc. induction ds as [|c ds IH]; intros acc Ha; [exact Ha|].
  cbn [fold_left]. apply IH. unfold pos_step, digit_value.
  repeat match goal with
         | |- context [?a <=? ?b] => destruct (Z.leb_spec a b)
         end; cbn [andb]; nia.
Qed.

Lemma canon_uint_of_small bits v : 0 <= bits -> 0 <= v < 2 ^ bits -> canon bits (uint_of bits v) /\ eval (uint_of bits v) = v.
Proof.
  intros Hb Hv. unfold uint_of.
  assert (E : eval (to_limbs (nlimbsN bits) v) = v).
  { rewrite eval_to_limbs. apply Z.mod_small. pose proof (pow2_le_Bn bits Hb). lia. }
  split; [|exact E]. repeat split.
  - apply to_limbs_length.
  - apply to_limbs_inW.
  - rewrite E. lia.
Qed.

(* an expansion carries the canonical limbs of the positional value of the digits *)
Theorem expand_value src bt bits limbs :
  transform_literal src = LExpand bt bits limbs ->
  exists value, suffix_of src = Some (base_type_code bt, bits, value) /\
    let '(base, ds) := notation value in
    digits_valid base ds = true /\ positional base ds < 2 ^ bits /\
    canon bits limbs /\ eval limbs = positional base ds.
Proof.
  intros H. pose proof (transform_literal_spec src) as S. unfold spec_literal in S.
  pose proof (parse_suffix_spec src) as PS.
  destruct (suffix_of src) as [[[k w] v]|] eqn:Su; [|rewrite H in S; discriminate].
  assert (Hw : 0 <= w).
  { destruct (parse_suffix src) as [[[bt' b'] v']|]; [|discriminate].
    destruct PS as [PS Hb]. inversion PS; subst. exact Hb. }
  pose proof (parse_base_spec v) as PB.
  destruct (notation v) as [base ds] eqn:N.
  destruct (digits_valid base ds) eqn:V; cbn [andb] in S.
  - destruct (Z.ltb_spec (positional base ds) (2 ^ w)) as [L|L].
    + destruct S as (bt' & Hk & S). rewrite H in S. inversion S; subst bt' w limbs. subst k.
      exists v. split; [reflexivity|]. rewrite N. split; [exact V|]. split; [exact L|].
      apply canon_uint_of_small; [exact Hw|]. split; [|exact L].
      apply pos_fold_nonneg; [|lia].
      destruct (parse_base v) as [[b' d']| | | |]; try contradiction.
      * destruct PB as [E Hb]. inversion E; subst. lia.
      * change (forallb (dvalid base) ds) with (digits_valid base ds) in PB. congruence.
    + rewrite H in S. destruct S; discriminate.
  - rewrite H in S. destruct S; discriminate.
Qed.

(* rejection: exactly the literals with a recognised suffix whose digits are invalid in the
   base or whose value does not fit *)
Theorem reject_iff src :
  (transform_literal src = LError \/ transform_literal src = LPanic) <->
  exists kind bits value, suffix_of src = Some (kind, bits, value) /\
    let '(base, ds) := notation value in
    digits_valid base ds = false \/ 2 ^ bits <= positional base ds.
Proof.
  pose proof (transform_literal_spec src) as S. unfold spec_literal in S.
  destruct (suffix_of src) as [[[k w] v]|] eqn:Su.
  - destruct (notation v) as [base ds] eqn:N.
    destruct (digits_valid base ds) eqn:V; cbn [andb] in S.
    + destruct (Z.ltb_spec (positional base ds) (2 ^ w)) as [L|L].
      * destruct S as (bt & _ & S). rewrite S. split.
        -- intros [H|H]; discriminate.
        -- intros (k' & w' & v' & E & H). inversion E; subst. rewrite N in H.
           destruct H; [congruence|lia].
      * split; [|intros _; exact S]. intros _. exists k, w, v. split; [reflexivity|].
        rewrite N. right. exact L.
    + split; [|intros _; exact S]. intros _. exists k, w, v. split; [reflexivity|].
      rewrite N. left. exact V.
  - rewrite S. split.
    + intros [H|H]; discriminate.
    + intros (k' & w' & v' & E & _). discriminate.
Qed.

(* pass-through: exactly the literals without a U<bits> / B<bits> suffix (under the
   hexadecimal-B rule) *)
Theorem passthrough src : transform_literal src = LPass <-> suffix_of src = None.
Proof.
  pose proof (transform_literal_spec src) as S. unfold spec_literal in S.
  destruct (suffix_of src) as [[[k w] v]|].
  - destruct (notation v) as [base ds].
    destruct (digits_valid base ds && (positional base ds <? 2 ^ w)).
    + destruct S as (bt & _ & S). rewrite S. split; discriminate.
    + split; [|discriminate]. intros H. rewrite H in S. destruct S; discriminate.
  - split; auto.
Qed.

(* the token-tree transformer touches nothing but literals: groups keep their delimiter,
   every non-literal leaf is returned as is *)
Theorem transform_tree_other path t : transform_tree path (Other t) = Other t.
Proof. reflexivity. Qed.
