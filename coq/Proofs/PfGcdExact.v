(* Proofs/PfGcdExact.v — gcd_extended returns EXACT Bezout cofactors: read as plain unsigned
   integers, a*x - b*y = gcd (sign) resp. b*y - a*x = gcd (not sign) hold over Z, not only
   modulo 2^BITS.  This pins the `even` bookkeeping, which the congruence of property C12 cannot see.
   Cofactors are tracked by magnitude (S0, S1, T0, T1) with the sign pattern the flag implies:
     a = +-(S0*A0 - T0*B0),  b = -+(S1*A0 - T1*B0),  a*T1 + b*T0 = A0,  a*S1 + b*S0 = B0. *)
From Coq Require Import ZArith Znumtheory List Bool Lia.
From RV.Model Require Import Base Word Limbs GcdMatrix Gcd.
From RV.Proofs Require Import BaseFacts PfC01 PfGcdUint PfGcd PfGcdMatrix PfGcdInv.
From RV.Run Require Import RunC12.
Import ListNotations.
Local Open Scope Z_scope.

(* pure algebra of one matrix step on a signed pair of magnitudes *)
Lemma sign_step m e X0 X1 :
  zmap m (ta e X0) (tb e X1) =
  (ta (xorb e (negb (m4 m))) (m0 m * X0 + m1 m * X1), tb (xorb e (negb (m4 m))) (m2 m * X0 + m3 m * X1)).
Proof.
  unfold zmap, ta, tb. destruct m as [e0 e1 e2 e3 s]. cbn [m0 m1 m2 m3 m4].
  destruct s, e; cbn [xorb negb]; f_equal; ring.
Qed.

Lemma mag_step m a b X0 X1 K :
  unimod m -> a * X1 + b * X0 = K ->
  fst (zmap m a b) * (m2 m * X0 + m3 m * X1) + snd (zmap m a b) * (m0 m * X0 + m1 m * X1) = K.
Proof.
  intros (Det & _ & _) Hm. unfold zmap. destruct m as [e0 e1 e2 e3 s].
  destruct s; cbn [m0 m1 m2 m3 m4 fst snd] in *.
  - transitivity ((e0 * e3 - e1 * e2) * (a * X1 + b * X0)); [ring | rewrite Det, Hm; ring].
  - transitivity (- (e0 * e3 - e1 * e2) * (a * X1 + b * X0)); [ring | rewrite Det, Hm; ring].
Qed.

Lemma mono_step m X0 X1 :
  unimod m -> nonneg m -> 0 <= X0 -> 0 <= X1 ->
  0 <= m0 m * X0 + m1 m * X1 <= m2 m * X0 + m3 m * X1.
Proof.
  intros (_ & R0 & R1) (N0 & N1 & N2 & N3) H0 H1.
  assert (m0 m * X0 <= m2 m * X0) by (apply Z.mul_le_mono_nonneg_r; lia).
  assert (m1 m * X1 <= m3 m * X1) by (apply Z.mul_le_mono_nonneg_r; lia).
  assert (0 <= m0 m * X0) by (apply Z.mul_nonneg_nonneg; lia).
  assert (0 <= m1 m * X1) by (apply Z.mul_nonneg_nonneg; lia). lia.
Qed.

(* the exact invariant; the s-pair carries the opposite sign pattern of the t-pair *)
Record einv (bits A0 B0 : Z) (s : xstate) (S0 S1 T0 T1 : Z) : Prop := {
  ei_canon : canon bits (xa s) /\ canon bits (xb s) /\ canon bits (xs0 s) /\ canon bits (xs1 s) /\
             canon bits (xt0 s) /\ canon bits (xt1 s);
  ei_nn : 0 <= S0 /\ 0 <= S1 /\ 0 <= T0 <= T1;
  ei_smono : S0 <= S1 \/ (S0 = 1 /\ S1 = 0);
  ei_a : eval (xa s) = ta (negb (xeven s)) S0 * A0 + ta (xeven s) T0 * B0;
  ei_b : eval (xb s) = tb (negb (xeven s)) S1 * A0 + tb (xeven s) T1 * B0;
  ei_magT : eval (xa s) * T1 + eval (xb s) * T0 = A0;
  ei_magS : eval (xa s) * S1 + eval (xb s) * S0 = B0;
  ei_s0 : eval (xs0 s) = ta (negb (xeven s)) S0 mod 2 ^ bits;
  ei_s1 : eval (xs1 s) = tb (negb (xeven s)) S1 mod 2 ^ bits;
  ei_t0 : eval (xt0 s) = ta (xeven s) T0 mod 2 ^ bits;
  ei_t1 : eval (xt1 s) = tb (xeven s) T1 mod 2 ^ bits;
  ei_gcd : Z.gcd (eval (xa s)) (eval (xb s)) = Z.gcd A0 B0;
  ei_zero : eval (xa s) = 0 -> T0 = 0 /\ S0 = 1
}.

Lemma negb_xorb_l e x : negb (xorb e x) = xorb (negb e) x.
Proof. destruct e, x; reflexivity. Qed.

Lemma einv_step bits A0 B0 s S0 S1 T0 T1 m a' b' s0' s1' t0' t1' :
  0 < bits -> unimod m -> nonneg m -> einv bits A0 B0 s S0 S1 T0 T1 ->
  canon bits a' -> canon bits b' -> canon bits s0' -> canon bits s1' -> canon bits t0' -> canon bits t1' ->
  eval a' = fst (zmap m (eval (xa s)) (eval (xb s))) ->
  eval b' = snd (zmap m (eval (xa s)) (eval (xb s))) ->
  eval s0' = fst (zmap m (eval (xs0 s)) (eval (xs1 s))) mod 2 ^ bits ->
  eval s1' = snd (zmap m (eval (xs0 s)) (eval (xs1 s))) mod 2 ^ bits ->
  eval t0' = fst (zmap m (eval (xt0 s)) (eval (xt1 s))) mod 2 ^ bits ->
  eval t1' = snd (zmap m (eval (xt0 s)) (eval (xt1 s))) mod 2 ^ bits ->
  Z.gcd (eval a') (eval b') = Z.gcd (eval (xa s)) (eval (xb s)) -> 1 <= eval a' ->
  einv bits A0 B0 (XS a' b' s0' s1' t0' t1' (xorb (xeven s) (negb (m4 m))))
       (m0 m * S0 + m1 m * S1) (m2 m * S0 + m3 m * S1) (m0 m * T0 + m1 m * T1) (m2 m * T0 + m3 m * T1).
Proof.
  intros Hb Um Nn [Cn Nnn Sm Ea Eb MT MS W0 W1 W2 W3 G Zr] Ca' Cb' C0' C1' C2' C3' Ea' Eb' Es0 Es1 Et0 Et1 Eg Hpos.
  pose proof (pow2_pos' bits ltac:(lia)) as HP.
  destruct Nnn as (NS0 & NS1 & NT).
  pose proof (sign_step m (xeven s) T0 T1) as StT.
  pose proof (sign_step m (negb (xeven s)) S0 S1) as StS. rewrite <- negb_xorb_l in StS.
  set (e' := xorb (xeven s) (negb (m4 m))) in *.
  (* exact linear relation *)
  destruct (zmap_combine m (ta (negb (xeven s)) S0) (tb (negb (xeven s)) S1) (ta (xeven s) T0) (tb (xeven s) T1) A0 B0)
    as [K1 K2].
  rewrite <- Ea, <- Eb in K1, K2. rewrite StS, StT in K1, K2. cbn [fst snd] in K1, K2.
  (* words *)
  assert (L : forall w v, w = v mod 2 ^ bits -> w mod 2 ^ bits = v mod 2 ^ bits)
    by (intros w v ->; apply Z.mod_mod; lia).
  destruct (zmap_lin m (2 ^ bits) _ _ _ _ HP (L _ _ W0) (L _ _ W1)) as [Ks0 Ks1].
  destruct (zmap_lin m (2 ^ bits) _ _ _ _ HP (L _ _ W2) (L _ _ W3)) as [Kt0 Kt1].
  rewrite StS in Ks0, Ks1. rewrite StT in Kt0, Kt1. cbn [fst snd] in Ks0, Ks1, Kt0, Kt1.
  pose proof (mono_step m T0 T1 Um Nn ltac:(lia) ltac:(lia)) as MoT.
  constructor; cbn [xa xb xs0 xs1 xt0 xt1 xeven]; fold e'.
  - tauto.
  - destruct Nn as (N0 & N1 & N2 & N3).
    assert (0 <= m0 m * S0) by (apply Z.mul_nonneg_nonneg; lia).
    assert (0 <= m1 m * S1) by (apply Z.mul_nonneg_nonneg; lia).
    assert (0 <= m2 m * S0) by (apply Z.mul_nonneg_nonneg; lia).
    assert (0 <= m3 m * S1) by (apply Z.mul_nonneg_nonneg; lia). lia.
  - left. destruct Sm as [Sm|[-> ->]].
    + pose proof (mono_step m S0 S1 Um Nn NS0 NS1). lia.
    + destruct Um as (_ & R0 & _). lia.
  - rewrite Ea'. exact K1.
  - rewrite Eb'. exact K2.
  - rewrite Ea', Eb'. now apply mag_step.
  - rewrite Ea', Eb'. now apply mag_step.
  - rewrite Es0. exact Ks0.
  - rewrite Es1. exact Ks1.
  - rewrite Et0. exact Kt0.
  - rewrite Et1. exact Kt1.
  - rewrite Eg. exact G.
  - lia.
Qed.

Section Exact.
  Hypothesis HD : DivKernelOK.

  Lemma ex_loop_spec bits A0 B0 : 0 < bits -> forall fuel s S0 S1 T0 T1,
    einv bits A0 B0 s S0 S1 T0 T1 -> eval (xb s) <= eval (xa s) ->
    (eval (xb s) = 0 \/ eval (xa s) * eval (xb s) < 2 ^ (Z.of_nat fuel - 1)) ->
    exists s' S0' S1' T0' T1', gcdx_loop fuel bits s = Val s' /\
      einv bits A0 B0 s' S0' S1' T0' T1' /\ eval (xb s') = 0.
  Proof.
    intros Hb. pose proof (pow2_pos' bits ltac:(lia)) as HM.
    induction fuel as [|fuel IH]; intros s S0 S1 T0 T1 Hinv Hle Hm;
      pose proof (ei_canon _ _ _ _ _ _ _ _ Hinv) as (Ca & Cb & Cs0 & Cs1 & Ct0 & Ct1);
      pose proof (canon_range bits _ ltac:(lia) Ca) as Ra; pose proof (canon_range bits _ ltac:(lia) Cb) as Rb.
    - cbn [gcdx_loop]. rewrite is_zero_spec by (auto; lia).
      destruct (Z.eqb_spec (eval (xb s)) 0) as [E|E].
      + exists s, S0, S1, T0, T1. auto.
      + exfalso. destruct Hm as [Hm|Hm]; [lia|]. cbn in Hm. nia.
    - cbn [gcdx_loop]. rewrite is_zero_spec by (auto; lia).
      destruct (Z.eqb_spec (eval (xb s)) 0) as [E|E].
      + exists s, S0, S1, T0, T1. auto.
      + destruct Hm as [Hm|Hm]; [lia|].
        rewrite (ult_spec bits) by auto. destruct (Z.ltb_spec (eval (xa s)) (eval (xb s))); [lia|].
        assert (Hf1 : 0 <= Z.of_nat fuel - 1).
        { destruct fuel; [|lia]. exfalso. cbn in Hm. nia. }
        assert (Hsplit : 2 ^ (Z.of_nat (S fuel) - 1) = 2 * 2 ^ (Z.of_nat fuel - 1)).
        { replace (Z.of_nat (S fuel) - 1) with (1 + (Z.of_nat fuel - 1)) by lia.
          rewrite Z.pow_add_r by lia. reflexivity. }
        assert (Gpos : 1 <= Z.gcd (eval (xa s)) (eval (xb s))).
        { pose proof (Z.gcd_nonneg (eval (xa s)) (eval (xb s))).
          destruct (Z.eq_dec (Z.gcd (eval (xa s)) (eval (xb s))) 0) as [G0|]; [|lia].
          apply Z.gcd_eq_0 in G0. lia. }
        destruct (LehmerStepOK_holds bits (xa s) (xb s) ltac:(lia) Ca Cb ltac:(lia))
          as (m & -> & Wm & [->|(Hn & Hf & Um & Hg)]).
        * (* Euclidean step = the matrix (0 1; 1 q) with sign false *)
          cbn [obind]. change (mat_eqb IDENTITY IDENTITY) with true. cbv iota.
          destruct (udiv_rem_spec HD bits _ _ ltac:(lia) Ca Cb ltac:(lia)) as (q & r & E' & Cq & Cr & Eq & Er).
          unfold udiv. rewrite E'. cbn [obind fst].
          destruct (euclid_upd_spec bits q _ _ ltac:(lia) Cq Ca Cb) as (b' & -> & Cb' & Eb'). cbn [obind].
          destruct (euclid_upd_spec bits q _ _ ltac:(lia) Cq Cs0 Cs1) as (s1' & -> & Cs1' & Es1'). cbn [obind].
          destruct (euclid_upd_spec bits q _ _ ltac:(lia) Cq Ct0 Ct1) as (t1' & -> & Ct1' & Et1'). cbn [obind fst snd].
          pose proof (Z.mod_pos_bound (eval (xa s)) (eval (xb s)) ltac:(lia)) as Hmb.
          pose proof (Z.div_mod (eval (xa s)) (eval (xb s)) ltac:(lia)) as Hdm.
          assert (Hq1 : 1 <= eval q) by (rewrite Eq; apply Z.div_le_lower_bound; lia).
          assert (Eb'' : eval b' = eval (xa s) mod eval (xb s)).
          { rewrite Eb', Eq. replace (eval (xa s) - eval (xa s) / eval (xb s) * eval (xb s))
              with (eval (xa s) mod eval (xb s)) by lia. apply Z.mod_small. lia. }
          set (Eq_m := Mat 0 1 1 (eval q) false).
          pose proof (canon_range bits _ ltac:(lia) Cs1) as Rs1. pose proof (canon_range bits _ ltac:(lia) Ct1) as Rt1.
          assert (St : einv bits A0 B0 (XS (xb s) b' (xs1 s) s1' (xt1 s) t1' (xorb (xeven s) (negb (m4 Eq_m))))
                         (m0 Eq_m * S0 + m1 Eq_m * S1) (m2 Eq_m * S0 + m3 Eq_m * S1)
                         (m0 Eq_m * T0 + m1 Eq_m * T1) (m2 Eq_m * T0 + m3 Eq_m * T1)).
          { apply (einv_step bits A0 B0 s S0 S1 T0 T1 Eq_m); auto; unfold Eq_m, unimod, nonneg, zmap;
              cbn [m0 m1 m2 m3 m4 fst snd]; try lia.
            all: try (rewrite Eb'', Eq; lia).
            all: try (rewrite Eb''; apply gcd_euclid_step; lia).
            all: try (rewrite Es1'; f_equal; ring).
            all: try (rewrite Et1'; f_equal; ring).
            - replace (1 * eval (xs1 s) - 0 * eval (xs0 s)) with (eval (xs1 s)) by ring.
              symmetry. apply Z.mod_small. lia.
            - replace (1 * eval (xt1 s) - 0 * eval (xt0 s)) with (eval (xt1 s)) by ring.
              symmetry. apply Z.mod_small. lia. }
          unfold Eq_m in St. cbn [m0 m1 m2 m3 m4 negb] in St. rewrite Bool.xorb_true_r in St.
          eapply IH; [exact St | cbn [xa xb]; lia |].
          cbn [xa xb]. right. rewrite Eb''.
          pose proof (euclid_halves (eval (xa s)) (eval (xb s)) ltac:(lia)). lia.
        * (* Lehmer step *)
          cbn [obind]. rewrite (mat_eqb_false _ _ Hn).
          destruct (apply_spec bits m _ _ Hb Wm Hf Ca Cb) as (c & d & -> & Cc & Cd & Ec & Ed). cbn [obind].
          destruct (apply_spec bits m _ _ Hb Wm Hf Cs0 Cs1) as (s0' & s1' & -> & Cs0' & Cs1' & Es0' & Es1'). cbn [obind].
          destruct (apply_spec bits m _ _ Hb Wm Hf Ct0 Ct1) as (t0' & t1' & -> & Ct0' & Ct1' & Et0' & Et1'). cbn [obind fst snd].
          pose proof Hg as Hg'. unfold good_step in Hg'.
          destruct (zmap m (eval (xa s)) (eval (xb s))) as [C D] eqn:EZ. cbn [fst snd] in *.
          destruct Hg' as (G1 & G2 & G3 & G4 & G5).
          assert (EcC : eval c = C) by (rewrite Ec; apply Z.mod_small; lia).
          assert (EdD : eval d = D) by (rewrite Ed; apply Z.mod_small; lia).
          assert (C1 : 1 <= C).
          { destruct (Z.eq_dec C 0) as [C0|]; [|lia]. exfalso.
            assert (D0 : D = 0) by lia. rewrite C0, D0 in G5. change (Z.gcd 0 0) with 0 in G5. lia. }
          assert (St : einv bits A0 B0 (XS c d s0' s1' t0' t1' (xorb (xeven s) (negb (m4 m))))
                         (m0 m * S0 + m1 m * S1) (m2 m * S0 + m3 m * S1)
                         (m0 m * T0 + m1 m * T1) (m2 m * T0 + m3 m * T1)).
          { apply (einv_step bits A0 B0 s S0 S1 T0 T1 m); auto.
            - destruct Wm as (W0 & W1 & W2 & W3). unfold nonneg, inW in *. lia.
            - rewrite EZ. exact EcC.
            - rewrite EZ. exact EdD.
            - rewrite EcC, EdD. exact G5.
            - lia. }
          eapply IH; [exact St | cbn [xa xb]; lia |].
          cbn [xa xb]. right. rewrite EcC, EdD. lia.
  Qed.

  Definition exact_ok (bits A Bv : Z) (r : list Z * list Z * list Z * bool) : Prop :=
    let '(g, x, y, sign) := r in
    g = uint_of bits (Z.gcd A Bv) /\ canon bits x /\ canon bits y /\
    (if sign then A * eval x - Bv * eval y else Bv * eval y - A * eval x) = Z.gcd A Bv.

  Lemma neg_word P v : 0 < P -> 0 <= v < P -> (0 - (- v) mod P) mod P = v.
  Proof.
    intros HP Hv. rewrite Zminus_mod_idemp_r. replace (0 - - v) with v by ring.
    apply Z.mod_small. lia.
  Qed.

  (* the run on an ordered pair, summarised *)
  Lemma ex_main bits a' b' :
    0 < bits -> canon bits a' -> canon bits b' -> eval b' <= eval a' ->
    exists s S0 T0,
      gcdx_loop (gcd_fuel bits) bits (XS a' b' (uONE bits) (uZERO bits) (uZERO bits) (uONE bits) true) = Val s /\
      canon bits (xa s) /\ canon bits (xs0 s) /\ canon bits (xt0 s) /\
      eval (xa s) = Z.gcd (eval a') (eval b') /\
      0 <= S0 < 2 ^ bits /\ 0 <= T0 < 2 ^ bits /\
      eval (xs0 s) = ta (negb (xeven s)) S0 mod 2 ^ bits /\
      eval (xt0 s) = ta (xeven s) T0 mod 2 ^ bits /\
      eval (xa s) = ta (negb (xeven s)) S0 * eval a' + ta (xeven s) T0 * eval b'.
  Proof.
    intros Hpos Ca' Cb' Hle. pose proof (pow2_pos' bits ltac:(lia)) as HP.
    pose proof (canon_range bits a' ltac:(lia) Ca') as Ra'. pose proof (canon_range bits b' ltac:(lia) Cb') as Rb'.
    destruct (uONE_spec bits Hpos) as [C1 E1]. destruct (canon_uZERO bits ltac:(lia)) as [C0 E0].
    assert (P2 : 2 <= 2 ^ bits).
    { assert (2 ^ 1 <= 2 ^ bits) by (apply Z.pow_le_mono_r; lia). change (2 ^ 1) with 2 in *. lia. }
    destruct (ex_loop_spec bits (eval a') (eval b') Hpos (gcd_fuel bits)
                (XS a' b' (uONE bits) (uZERO bits) (uZERO bits) (uONE bits) true) 1 0 0 1)
      as (s & S0 & S1 & T0 & T1 & Es & Ei & Ez).
    - constructor; cbn [xa xb xs0 xs1 xt0 xt1 xeven negb ta tb]; rewrite ?E0, ?E1; try lia.
      + tauto.
      + symmetry. apply Z.mod_small. lia.
      + reflexivity.
      + reflexivity.
      + symmetry. apply Z.mod_small. lia.
    - cbn [xa xb]. lia.
    - cbn [xa xb]. right. apply fuel_enough; auto.
    - destruct Ei as [Cn Nnn Sm Ea Eb MT MS W0 W1 W2 W3 G Zr].
      destruct Cn as (Ca & Cb & Cs0 & Cs1 & Ct0 & Ct1). destruct Nnn as (NS0 & NS1 & NT).
      pose proof (canon_range bits _ ltac:(lia) Ca) as Ra.
      rewrite Ez, Z.gcd_0_r, Z.abs_eq in G by lia.
      rewrite Ez in MT, MS, Eb.
      assert (Bnd : S0 < 2 ^ bits /\ T0 < 2 ^ bits).
      { destruct (Z.eq_dec (eval (xa s)) 0) as [G0|G0].
        - destruct (Zr G0) as [-> ->]. lia.
        - assert (T1 <= eval a') by nia. assert (S1 <= eval b') by nia.
          destruct Sm as [Sm|[-> _]]; lia. }
      exists s, S0, T0. split; [exact Es|]. do 3 (split; [assumption|]). split; [exact G|].
      split; [lia|]. split; [lia|]. split; [exact W0|]. split; [exact W2 | exact Ea].
  Qed.

  Theorem gcd_extended_exact bits a b :
    0 <= bits -> canon bits a -> canon bits b ->
    exists r, Gcd.gcd_extended bits a b = Val r /\ exact_ok bits (eval a) (eval b) r.
  Proof.
    intros H Ha Hb. unfold Gcd.gcd_extended.
    destruct (Z.eqb_spec bits 0) as [->|N].
    - apply canon_zero_width in Ha, Hb. subst. eexists; split; [reflexivity|].
      cbn. repeat split; try apply canon_0_nil.
    - assert (Hpos : 0 < bits) by lia. pose proof (pow2_pos' bits H) as HM.
      destruct (canon_uZERO bits H) as [C0 E0].
      rewrite (ult_spec bits) by auto.
      destruct (Z.ltb_spec (eval a) (eval b)) as [Hlt|Hge].
      + (* swapped: the loop runs on (b, a) *)
        destruct (ex_main bits b a Hpos Hb Ha ltac:(lia))
          as (s & S0 & T0 & -> & Ca' & Cs0 & Ct0 & Eg & BS & BT & W0 & W2 & Ex). cbn [obind].
        assert (Gg : xa s = uint_of bits (Z.gcd (eval a) (eval b))).
        { apply uint_of_unique; [exact Ca'|]. rewrite Eg. apply Z.gcd_comm. }
        assert (Eg' : Z.gcd (eval a) (eval b) = eval (xa s)) by (rewrite Eg; apply Z.gcd_comm).
        destruct (xeven s); cbn [negb ta] in *.
        * destruct (usub_spec bits (uZERO bits) (xt0 s) H C0 Ct0) as [Cn En]. rewrite E0, W2 in En.
          rewrite neg_word in En by lia. rewrite Z.mod_small in W0 by lia.
          eexists; split; [reflexivity|]. cbn [exact_ok]. split; [exact Gg|]. split; [exact Cn|]. split; [exact Cs0|].
          rewrite Eg', En, W0, Ex. ring.
        * destruct (usub_spec bits (uZERO bits) (xs0 s) H C0 Cs0) as [Cn En]. rewrite E0, W0 in En.
          rewrite neg_word in En by lia. rewrite Z.mod_small in W2 by lia.
          eexists; split; [reflexivity|]. cbn [exact_ok]. split; [exact Gg|]. split; [exact Ct0|]. split; [exact Cn|].
          rewrite Eg', En, W2, Ex. ring.
      + destruct (ex_main bits a b Hpos Ha Hb ltac:(lia))
          as (s & S0 & T0 & -> & Ca' & Cs0 & Ct0 & Eg & BS & BT & W0 & W2 & Ex). cbn [obind].
        assert (Gg : xa s = uint_of bits (Z.gcd (eval a) (eval b))).
        { apply uint_of_unique; [exact Ca'|]. exact Eg. }
        assert (Eg' : Z.gcd (eval a) (eval b) = eval (xa s)) by (now rewrite Eg).
        destruct (xeven s); cbn [negb ta] in *.
        * destruct (usub_spec bits (uZERO bits) (xt0 s) H C0 Ct0) as [Cn En]. rewrite E0, W2 in En.
          rewrite neg_word in En by lia. rewrite Z.mod_small in W0 by lia.
          eexists; split; [reflexivity|]. cbn [exact_ok]. split; [exact Gg|]. split; [exact Cs0|]. split; [exact Cn|].
          rewrite Eg', En, W0, Ex. ring.
        * destruct (usub_spec bits (uZERO bits) (xs0 s) H C0 Cs0) as [Cn En]. rewrite E0, W0 in En.
          rewrite neg_word in En by lia. rewrite Z.mod_small in W2 by lia.
          eexists; split; [reflexivity|]. cbn [exact_ok]. split; [exact Gg|]. split; [exact Cn|]. split; [exact Ct0|].
          rewrite Eg', En, W2, Ex. ring.
  Qed.
End Exact.
