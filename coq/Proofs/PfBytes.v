(* Proofs/PfBytes.v — characterising lemmas for Model/Bytes.v.
   Vocabulary: le_digits n v (the n low base-256 digits of v, least significant first) and
   le_value bs (sum of bs[i] * 256^i). Main results (all widths, all inputs):
     as_le_slice_spec, to_le_bytes_spec, to_be_bytes_spec, to_be_bytes_vec_spec,
     as_le_bytes_trimmed_spec, to_be_bytes_trimmed_vec_spec,
     try_from_le_slice_spec, try_from_be_slice_spec, from_*_slice_spec, from_*_bytes_spec,
     copy_*_bytes_to_spec, checked_copy_*_bytes_to_spec, and the round trips. *)
From Coq Require Import ZArith List Bool Lia.
From RV.Model Require Import Base Word Bytes.
From RV.Proofs Require Import BaseFacts.
Import ListNotations.
Local Open Scope Z_scope.

(* ---------- powers of 256 ---------- *)
Lemma p256_pos n : 0 < 256 ^ Z.of_nat n.
Proof. apply Z.pow_pos_nonneg; lia. Qed.
Lemma p256_S n : 256 ^ Z.of_nat (S n) = 256 * 256 ^ Z.of_nat n.
Proof. rewrite Nat2Z.inj_succ, Z.pow_succ_r by lia. reflexivity. Qed.
Lemma p256_add n m : 256 ^ Z.of_nat (n + m) = 256 ^ Z.of_nat n * 256 ^ Z.of_nat m.
Proof. rewrite Nat2Z.inj_add, Z.pow_add_r by lia. reflexivity. Qed.
Lemma p256_8 : 256 ^ 8 = B.
Proof. rewrite B_val. reflexivity. Qed.
Lemma p256_pow2 k : 0 <= k -> 256 ^ k = 2 ^ (8 * k).
Proof. intros. change 256 with (2 ^ 8). rewrite <- Z.pow_mul_r by lia. reflexivity. Qed.
Lemma p256_le n m : (n <= m)%nat -> 256 ^ Z.of_nat n <= 256 ^ Z.of_nat m.
Proof. intros. apply Z.pow_le_mono_r; lia. Qed.
Lemma B_p256 n : B ^ Z.of_nat n = 256 ^ Z.of_nat (8 * n).
Proof.
  rewrite <- p256_8, <- Z.pow_mul_r by lia. f_equal. lia.
Qed.

(* ---------- le_digits / le_value ---------- *)
Lemma le_digits_S n x : le_digits (S n) x = x mod 256 :: le_digits n (x / 256).
Proof.
  cbn [le_digits]. rewrite modp2_spec, divp2_spec by lia. reflexivity.
Qed.

Lemma le_digits_length n x : length (le_digits n x) = n.
Proof. revert x. induction n as [|n IH]; intros x; [reflexivity|]. rewrite le_digits_S. cbn [length]. now rewrite IH. Qed.

Lemma le_digits_isbyte n x : Forall isbyte (le_digits n x).
Proof.
  revert x. induction n as [|n IH]; intros x; [constructor|]. rewrite le_digits_S.
  constructor; [|apply IH]. unfold isbyte. apply Z.mod_pos_bound. lia.
Qed.

Lemma le_value_le_digits n x : le_value (le_digits n x) = x mod 256 ^ Z.of_nat n.
Proof.
  revert x. induction n as [|n IH]; intros x.
  - cbn. now rewrite Z.mod_1_r.
  - rewrite le_digits_S, p256_S. cbn [le_value]. rewrite IH.
    pose proof (p256_pos n). rewrite Z.rem_mul_r by lia. lia.
Qed.

Lemma le_value_bound bs : Forall isbyte bs -> 0 <= le_value bs < 256 ^ Z.of_nat (length bs).
Proof.
  induction 1 as [|b t Hb _ IH]; [cbn; lia|].
  cbn [length]. rewrite p256_S. cbn [le_value]. unfold isbyte in Hb. lia.
Qed.

Lemma le_digits_le_value bs : Forall isbyte bs -> le_digits (length bs) (le_value bs) = bs.
Proof.
  induction 1 as [|b t Hb Ht IH]; [reflexivity|].
  cbn [length]. rewrite le_digits_S. cbn [le_value]. unfold isbyte in Hb.
  destruct (div_mod_lin b (le_value t) 256 Hb) as [-> ->]. now rewrite IH.
Qed.

(* a byte list of the right length IS le_digits of its value *)
Lemma le_digits_unique n bs v :
  length bs = n -> Forall isbyte bs -> le_value bs = v -> le_digits n v = bs.
Proof. intros <- Hb <-. now apply le_digits_le_value. Qed.

Lemma le_value_app a b : le_value (a ++ b) = le_value a + 256 ^ Z.of_nat (length a) * le_value b.
Proof.
  induction a as [|x a IH]; [cbn [app length le_value]; change (Z.of_nat 0) with 0; rewrite Z.pow_0_r; lia|].
  cbn [app length]. rewrite p256_S. cbn [le_value]. rewrite IH. lia.
Qed.

Lemma le_digits_app n m x :
  le_digits (n + m) x = le_digits n x ++ le_digits m (x / 256 ^ Z.of_nat n).
Proof.
  revert x. induction n as [|n IH]; intros x.
  - cbn [Nat.add app le_digits]. now rewrite Z.div_1_r.
  - cbn [Nat.add]. rewrite !le_digits_S, IH, p256_S. cbn [app]. do 2 f_equal.
    rewrite Z.div_div by (pose proof (p256_pos n); lia). reflexivity.
Qed.

Lemma firstn_le_digits n m x : (n <= m)%nat -> firstn n (le_digits m x) = le_digits n x.
Proof.
  intros H. replace m with (n + (m - n))%nat by lia. rewrite le_digits_app.
  rewrite firstn_app, le_digits_length, Nat.sub_diag, firstn_O, app_nil_r.
  apply firstn_all2. rewrite le_digits_length. lia.
Qed.

(* the digits below position m do not see multiples of 256^m *)
Lemma le_digits_add_mul k m x e :
  (k <= m)%nat -> le_digits k (x + 256 ^ Z.of_nat m * e) = le_digits k x.
Proof.
  revert m x e. induction k as [|k IH]; intros m x e H; [reflexivity|].
  destruct m as [|m]; [lia|]. rewrite !le_digits_S, p256_S. f_equal.
  - replace (x + 256 * 256 ^ Z.of_nat m * e) with (x + (256 ^ Z.of_nat m * e) * 256) by lia.
    apply Z.mod_add. lia.
  - replace (x + 256 * 256 ^ Z.of_nat m * e) with (x + (256 ^ Z.of_nat m * e) * 256) by lia.
    rewrite Z.div_add by lia. apply IH. lia.
Qed.

Lemma le_digits_mod n x : le_digits n (x mod 256 ^ Z.of_nat n) = le_digits n x.
Proof.
  pose proof (p256_pos n).
  rewrite (Z.div_mod x (256 ^ Z.of_nat n)) at 2 by lia.
  rewrite Z.add_comm. symmetry. apply le_digits_add_mul. lia.
Qed.

Lemma le_digits_0 n : le_digits n 0 = repeat 0 n.
Proof.
  induction n as [|n IH]; [reflexivity|]. rewrite le_digits_S. cbn [repeat].
  rewrite Z.mod_0_l, Z.div_0_l by lia. now rewrite IH.
Qed.

(* ---------- the limb array as memory ---------- *)
Lemma limb_bytes_cons x t : limb_bytes (x :: t) = le_digits 8 x ++ limb_bytes t.
Proof. reflexivity. Qed.

Lemma limb_bytes_length l : length (limb_bytes l) = (8 * length l)%nat.
Proof.
  induction l as [|x t IH]; [reflexivity|].
  rewrite limb_bytes_cons, app_length, le_digits_length, IH. cbn [length]. lia.
Qed.

Lemma limb_bytes_spec l : Forall inW l -> limb_bytes l = le_digits (8 * length l) (eval l).
Proof.
  intros Hw. symmetry. apply le_digits_unique.
  - apply limb_bytes_length.
  - induction l as [|x t IH]; [constructor|]. rewrite limb_bytes_cons. apply Forall_app. split.
    + apply le_digits_isbyte.
    + apply IH. now inversion Hw.
  - induction Hw as [|x t Hx Ht IH]; [reflexivity|].
    rewrite limb_bytes_cons, le_value_app, le_digits_length, IH, le_value_le_digits.
    change (Z.of_nat 8) with 8. rewrite p256_8. cbn [eval]. unfold inW in Hx.
    rewrite Z.mod_small by lia. reflexivity.
Qed.

(* ---------- nbytes / nlimbs ---------- *)
Lemma nbytes_nonneg bits : 0 <= bits -> 0 <= nbytes bits.
Proof. intros. unfold nbytes. apply Z.div_pos; lia. Qed.
Lemma nbytesN_Z bits : 0 <= bits -> Z.of_nat (nbytesN bits) = nbytes bits.
Proof. intros. unfold nbytesN. rewrite Z2Nat.id; [reflexivity|now apply nbytes_nonneg]. Qed.
Lemma nbytes_bounds bits : 0 <= bits -> 8 * nbytes bits - 8 < bits <= 8 * nbytes bits.
Proof. intros. unfold nbytes. Z.div_mod_to_equations. lia. Qed.
Lemma nbytes_le_limbs bits : 0 <= bits -> nbytes bits <= 8 * nlimbs bits.
Proof. intros. unfold nbytes, nlimbs. Z.div_mod_to_equations. lia. Qed.
Lemma nbytesN_le_limbs bits : 0 <= bits -> (nbytesN bits <= 8 * nlimbsN bits)%nat.
Proof.
  intros H. pose proof (nbytes_le_limbs bits H). pose proof (nbytesN_Z bits H).
  pose proof (nlimbsN_Z bits H). lia.
Qed.
Lemma nbytes_whole_limbs bits :
  0 <= bits -> nbytes bits mod 8 = 0 -> nbytes bits = 8 * nlimbs bits.
Proof. intros H. unfold nbytes, nlimbs. Z.div_mod_to_equations. lia. Qed.
(* a canonical value fits its bytes *)
Lemma pow_bits_le_bytes bits : 0 <= bits -> 2 ^ bits <= 256 ^ nbytes bits.
Proof.
  intros H. pose proof (nbytes_bounds bits H). pose proof (nbytes_nonneg bits H).
  rewrite p256_pow2 by lia. apply Z.pow_le_mono_r; lia.
Qed.

(* ---------- encoders ---------- *)
Lemma as_le_slice_spec bits a :
  0 <= bits -> canon bits a -> as_le_slice bits a = le_digits (nbytesN bits) (eval a).
Proof.
  intros Hb (Hl & Hw & _). unfold as_le_slice. rewrite limb_bytes_spec by exact Hw.
  apply firstn_le_digits. rewrite Hl. now apply nbytesN_le_limbs.
Qed.

Lemma as_le_bytes_spec bits a :
  0 <= bits -> canon bits a -> as_le_bytes bits a = le_digits (nbytesN bits) (eval a).
Proof. exact (as_le_slice_spec bits a). Qed.

Lemma to_le_bytes_vec_spec bits a :
  0 <= bits -> canon bits a -> to_le_bytes_vec bits a = le_digits (nbytesN bits) (eval a).
Proof. exact (as_le_slice_spec bits a). Qed.

Lemma to_be_bytes_vec_spec bits a :
  0 <= bits -> canon bits a -> to_be_bytes_vec bits a = rev (le_digits (nbytesN bits) (eval a)).
Proof. intros. unfold to_be_bytes_vec. now rewrite to_le_bytes_vec_spec. Qed.

Lemma to_le_bytes_spec bits N a :
  0 <= bits -> canon bits a ->
  to_le_bytes bits N a =
    if N =? nbytes bits then Val (le_digits (nbytesN bits) (eval a)) else Panic.
Proof. intros. unfold to_le_bytes. now rewrite as_le_slice_spec. Qed.

(* ---------- list plumbing: lenZ, idx, upd ---------- *)
Lemma lenZ_app {A} (a b : list A) : lenZ (a ++ b) = lenZ a + lenZ b.
Proof. unfold lenZ. rewrite app_length. lia. Qed.
Lemma lenZ_cons {A} (x : A) l : lenZ (x :: l) = 1 + lenZ l.
Proof. unfold lenZ. cbn [length]. lia. Qed.
Lemma lenZ_nil {A} : lenZ (@nil A) = 0.
Proof. reflexivity. Qed.
Lemma lenZ_nonneg {A} (l : list A) : 0 <= lenZ l.
Proof. unfold lenZ. lia. Qed.
Lemma lenZ_rev {A} (l : list A) : lenZ (rev l) = lenZ l.
Proof. unfold lenZ. now rewrite rev_length. Qed.

Lemma idx_app_mid pre x r i : lenZ pre = i -> idx (pre ++ x :: r) i = Val x.
Proof.
  intros <-. unfold idx, lenZ. destruct (Z.ltb_spec (Z.of_nat (length pre)) 0); [lia|].
  rewrite Nat2Z.id, nth_error_app2, Nat.sub_diag by lia. reflexivity.
Qed.
Lemma set_nth_app_mid pre x r y : set_nth (length pre) y (pre ++ x :: r) = pre ++ y :: r.
Proof. induction pre as [|p pre IH]; cbn [length app set_nth]; congruence. Qed.
Lemma upd_app_mid pre x r i y : lenZ pre = i -> upd (pre ++ x :: r) i y = Val (pre ++ y :: r).
Proof.
  intros <-. unfold upd. rewrite lenZ_app, lenZ_cons. pose proof (lenZ_nonneg pre). pose proof (lenZ_nonneg r).
  destruct (Z.leb_spec 0 (lenZ pre)); [|lia].
  destruct (Z.ltb_spec (lenZ pre) (lenZ pre + (1 + lenZ r))); [|lia]. cbn [andb].
  unfold lenZ. rewrite Nat2Z.id, set_nth_app_mid. reflexivity.
Qed.

Lemma set_nth_length k y l : length (set_nth k y l) = length l.
Proof. revert k. induction l as [|x l IH]; intros [|k]; cbn [set_nth length]; auto. Qed.
Lemma Forall_set_nth (P : Z -> Prop) k y l : P y -> Forall P l -> Forall P (set_nth k y l).
Proof.
  intros Hy Hl. revert k. induction Hl as [|x l Hx Hl IH]; intros [|k]; cbn [set_nth]; auto.
Qed.
Lemma eval_set_nth k y l :
  (k < length l)%nat -> eval (set_nth k y l) = eval l + (y - nth k l 0) * B ^ Z.of_nat k.
Proof.
  revert k. induction l as [|x l IH]; intros k Hk; [cbn in Hk; lia|].
  destruct k as [|k]; cbn [set_nth nth eval].
  - change (Z.of_nat 0) with 0. rewrite Z.pow_0_r. lia.
  - cbn [length] in Hk. rewrite IH by lia. rewrite Bn_S. lia.
Qed.

Lemma Forall_firstn' {A} (P : A -> Prop) n l : Forall P l -> Forall P (firstn n l).
Proof. intros H. revert n. induction H; intros [|n]; cbn [firstn]; auto. Qed.
Lemma Forall_skipn' {A} (P : A -> Prop) n l : Forall P l -> Forall P (skipn n l).
Proof. intros H. revert n. induction H; intros [|n]; cbn [skipn]; auto. Qed.
Lemma skipn_skipn' {A} n m (l : list A) : skipn n (skipn m l) = skipn (m + n) l.
Proof.
  revert l. induction m as [|m IH]; intros l; [reflexivity|].
  destruct l as [|x l]; [now rewrite !skipn_nil|]. cbn [Nat.add skipn]. apply IH.
Qed.

(* ---------- the reversal loop of to_be_bytes ---------- *)
Lemma reverse_loop_spec k : forall pre mid post,
  (2 * k <= length mid < 2 * k + 2)%nat -> length pre = length post ->
  reverse_loop k (lenZ pre) (lenZ (pre ++ mid ++ post)) (pre ++ mid ++ post)
  = Val (pre ++ rev mid ++ post).
Proof.
  induction k as [|k IH]; intros pre mid post Hk Hpp.
  - cbn [reverse_loop]. destruct mid as [|x [|y mid]]; cbn [length] in Hk; try lia; reflexivity.
  - destruct mid as [|x mid]; [cbn [length] in Hk; lia|].
    destruct (list_snoc_inv mid) as (m & y & ->).
    { intros ->. cbn [length] in Hk. lia. }
    assert (Hlen : lenZ (pre ++ (x :: m ++ [y]) ++ post) = 2 * lenZ pre + lenZ m + 2).
    { rewrite !lenZ_app, !lenZ_cons, !lenZ_app, !lenZ_cons, lenZ_nil. unfold lenZ. lia. }
    pose proof (lenZ_nonneg pre) as Hp0. pose proof (lenZ_nonneg m) as Hm0.
    cbn [reverse_loop]. rewrite Hlen.
    cbn [app]. rewrite (idx_app_mid pre x _ (lenZ pre) eq_refl). cbn [obind].
    unfold usub at 1. destruct (Z.ltb_spec (2 * lenZ pre + lenZ m + 2) 1); [lia|]. cbn [obind].
    unfold usub at 1. destruct (Z.ltb_spec (2 * lenZ pre + lenZ m + 2 - 1) (lenZ pre)); [lia|]. cbn [obind].
    assert (E1 : pre ++ x :: (m ++ [y]) ++ post = (pre ++ x :: m) ++ y :: post).
    { rewrite <- !app_assoc. reflexivity. }
    rewrite E1 at 1.
    rewrite (idx_app_mid (pre ++ x :: m) y post).
    2:{ rewrite lenZ_app, lenZ_cons. lia. }
    cbn [obind].
    rewrite (upd_app_mid pre x _ (lenZ pre) y eq_refl). cbn [obind].
    assert (E2 : pre ++ y :: (m ++ [y]) ++ post = (pre ++ y :: m) ++ y :: post).
    { rewrite <- !app_assoc. reflexivity. }
    rewrite E2.
    rewrite (upd_app_mid (pre ++ y :: m) y post _ x).
    2:{ rewrite lenZ_app, lenZ_cons. lia. }
    cbn [obind].
    specialize (IH (pre ++ [y]) m (x :: post)).
    assert (E3 : (pre ++ y :: m) ++ x :: post = (pre ++ [y]) ++ m ++ x :: post).
    { rewrite <- !app_assoc. reflexivity. }
    rewrite E3.
    replace (lenZ pre + 1) with (lenZ (pre ++ [y])) by (rewrite lenZ_app, lenZ_cons, lenZ_nil; lia).
    replace (2 * lenZ pre + lenZ m + 2) with (lenZ ((pre ++ [y]) ++ m ++ x :: post)).
    2:{ rewrite !lenZ_app, !lenZ_cons, lenZ_nil. unfold lenZ. lia. }
    rewrite IH.
    + f_equal. cbn [rev]. rewrite rev_app_distr. cbn [rev app]. rewrite <- !app_assoc. reflexivity.
    + cbn [length] in Hk. rewrite app_length in Hk. cbn [length] in Hk. lia.
    + rewrite app_length. cbn [length]. lia.
Qed.

Lemma to_be_bytes_spec bits N a :
  0 <= bits -> canon bits a ->
  to_be_bytes bits N a =
    if N =? nbytes bits then Val (rev (le_digits (nbytesN bits) (eval a))) else Panic.
Proof.
  intros Hb Hc. unfold to_be_bytes. rewrite to_le_bytes_spec by assumption.
  destruct (N =? nbytes bits); [|reflexivity]. cbn [obind].
  set (l := le_digits (nbytesN bits) (eval a)).
  pose proof (reverse_loop_spec (Z.to_nat (lenZ l / 2)) [] l []) as H.
  cbn [app lenZ length] in H. rewrite app_nil_r in H. change (Z.of_nat 0) with 0 in H.
  rewrite app_nil_r in H. apply H; [|reflexivity].
  unfold lenZ. assert (0 <= Z.of_nat (length l) / 2) by (apply Z.div_pos; lia).
  split.
  - apply Nat2Z.inj_le. rewrite Nat2Z.inj_mul, Z2Nat.id by lia. change (Z.of_nat 2) with 2.
    Z.div_mod_to_equations. lia.
  - apply Nat2Z.inj_lt. rewrite Nat2Z.inj_add, Nat2Z.inj_mul, Z2Nat.id by lia. change (Z.of_nat 2) with 2.
    Z.div_mod_to_equations. lia.
Qed.

(* ---------- trimming: utils.rs ---------- *)
(* number of base-256 digits of v; 0 for v = 0 *)
Definition bytelen (v : Z) : Z := if v =? 0 then 0 else Z.log2 v / 8 + 1.

Lemma bytelen_0 : bytelen 0 = 0.
Proof. reflexivity. Qed.

Lemma bytelen_unique v k : 1 <= k -> 256 ^ (k - 1) <= v < 256 ^ k -> bytelen v = k.
Proof.
  intros Hk [Hlo Hhi]. assert (0 < 256 ^ (k - 1)) by (apply Z.pow_pos_nonneg; lia).
  unfold bytelen. destruct (Z.eqb_spec v 0) as [->|Hv]; [lia|].
  assert (0 < v) by lia.
  rewrite p256_pow2 in Hlo, Hhi by lia.
  apply Z.log2_le_pow2 in Hlo; [|lia]. apply Z.log2_lt_pow2 in Hhi; [|lia].
  Z.div_mod_to_equations. lia.
Qed.

Lemma bytelen_spec v : 0 < v -> 1 <= bytelen v /\ 256 ^ (bytelen v - 1) <= v < 256 ^ bytelen v.
Proof.
  intros Hv. unfold bytelen. destruct (Z.eqb_spec v 0); [lia|].
  pose proof (Z.log2_nonneg v) as Hl.
  assert (0 <= Z.log2 v / 8) by (apply Z.div_pos; lia).
  split; [lia|]. rewrite !p256_pow2 by lia. split.
  - apply Z.log2_le_pow2; [lia|]. Z.div_mod_to_equations. lia.
  - apply Z.log2_lt_pow2; [lia|]. Z.div_mod_to_equations. lia.
Qed.

Lemma bytelen_nonneg v : 0 <= v -> 0 <= bytelen v.
Proof.
  intros H. destruct (Z.eq_dec v 0) as [->|]; [rewrite bytelen_0; lia|].
  pose proof (bytelen_spec v). lia.
Qed.

Lemma bytelen_bound v : 0 <= v -> v < 256 ^ bytelen v.
Proof.
  intros H. destruct (Z.eq_dec v 0) as [->|]; [rewrite bytelen_0; cbn; lia|].
  pose proof (bytelen_spec v). lia.
Qed.

Lemma bytelen_le v n : 0 <= n -> 0 <= v < 256 ^ n -> bytelen v <= n.
Proof.
  intros Hn [H0 Hv]. destruct (Z.eq_dec v 0) as [->|]; [rewrite bytelen_0; lia|].
  destruct (bytelen_spec v ltac:(lia)) as (H1 & Hlo & _).
  assert (256 ^ (bytelen v - 1) < 256 ^ n) by lia.
  apply Z.pow_lt_mono_r_iff in H; lia.
Qed.

Lemma last_idx_range l v : 0 <= last_idx l v <= lenZ l.
Proof.
  induction l as [|b t IH]; [cbn; lia|]. rewrite lenZ_cons. cbn [last_idx].
  destruct (Z.ltb_spec 0 (last_idx t v)); [lia|]. destruct (b =? v); pose proof (lenZ_nonneg t); lia.
Qed.

Lemma last_idx_bytelen l : Forall isbyte l -> last_idx l 0 = bytelen (le_value l).
Proof.
  induction 1 as [|b t Hb Ht IH]; [reflexivity|].
  cbn [last_idx le_value]. pose proof (le_value_bound t Ht) as Hvt. unfold isbyte in Hb.
  pose proof (last_idx_range t 0) as Hr.
  destruct (Z.ltb_spec 0 (last_idx t 0)) as [Hpos|Hz].
  - assert (Hnz : le_value t <> 0) by (intros E; rewrite E, bytelen_0 in IH; lia).
    destruct (bytelen_spec (le_value t) ltac:(lia)) as (H1 & Hlo & Hhi).
    rewrite IH. symmetry. apply bytelen_unique; [lia|].
    replace (bytelen (le_value t) + 1 - 1) with (Z.succ (bytelen (le_value t) - 1)) by lia.
    replace (bytelen (le_value t) + 1) with (Z.succ (bytelen (le_value t))) by lia.
    rewrite !Z.pow_succ_r by lia. lia.
  - assert (Hvz : le_value t = 0).
    { destruct (Z.eq_dec (le_value t) 0) as [E|E]; [exact E|].
      pose proof (bytelen_spec (le_value t) ltac:(lia)). lia. }
    rewrite Hvz, Z.mul_0_r, Z.add_0_r.
    destruct (Z.eqb_spec b 0) as [->|Hb0]; [reflexivity|].
    symmetry. apply bytelen_unique; [lia|]. cbn. lia.
Qed.

Lemma trim_end_slice_spec n v :
  0 <= v < 256 ^ Z.of_nat n ->
  trim_end_slice (le_digits n v) 0 = Val (le_digits (Z.to_nat (bytelen v)) v).
Proof.
  intros Hv. unfold trim_end_slice, slice_to.
  pose proof (last_idx_range (le_digits n v) 0) as Hr.
  rewrite last_idx_bytelen, le_value_le_digits, Z.mod_small in * by (auto using le_digits_isbyte; lia).
  unfold lenZ in *. rewrite le_digits_length in *.
  destruct (Z.leb_spec 0 (bytelen v)); [|lia]. destruct (Z.leb_spec (bytelen v) (Z.of_nat n)); [|lia].
  cbn [andb]. rewrite firstn_le_digits by lia. reflexivity.
Qed.

Lemma trim_end_vec_spec n v :
  0 <= v < 256 ^ Z.of_nat n ->
  trim_end_vec (le_digits n v) 0 = le_digits (Z.to_nat (bytelen v)) v.
Proof.
  intros Hv. unfold trim_end_vec.
  pose proof (last_idx_range (le_digits n v) 0) as Hr.
  rewrite last_idx_bytelen, le_value_le_digits, Z.mod_small in * by (auto using le_digits_isbyte; lia).
  unfold lenZ in *. rewrite le_digits_length in *. apply firstn_le_digits. lia.
Qed.

Lemma canon_lt_bytes bits a :
  0 <= bits -> canon bits a -> 0 <= eval a < 256 ^ Z.of_nat (nbytesN bits).
Proof.
  intros Hb Hc. pose proof (canon_range bits a Hb Hc). pose proof (pow_bits_le_bytes bits Hb).
  rewrite nbytesN_Z by lia. lia.
Qed.

Lemma as_le_bytes_trimmed_spec bits a :
  0 <= bits -> canon bits a ->
  as_le_bytes_trimmed bits a = Val (le_digits (Z.to_nat (bytelen (eval a))) (eval a)).
Proof.
  intros Hb Hc. unfold as_le_bytes_trimmed. rewrite as_le_bytes_spec by assumption.
  apply trim_end_slice_spec. now apply canon_lt_bytes.
Qed.

Lemma to_le_bytes_trimmed_vec_spec bits a :
  0 <= bits -> canon bits a ->
  to_le_bytes_trimmed_vec bits a = Val (le_digits (Z.to_nat (bytelen (eval a))) (eval a)).
Proof. exact (as_le_bytes_trimmed_spec bits a). Qed.

Lemma to_be_bytes_trimmed_vec_spec bits a :
  0 <= bits -> canon bits a ->
  to_be_bytes_trimmed_vec bits a = Val (rev (le_digits (Z.to_nat (bytelen (eval a))) (eval a))).
Proof.
  intros. unfold to_be_bytes_trimmed_vec. rewrite to_le_bytes_trimmed_vec_spec by assumption. reflexivity.
Qed.

(* ---------- decoders ---------- *)
Lemma to_limbs_0 n : to_limbs n 0 = repeat 0 n.
Proof.
  induction n as [|n IH]; [reflexivity|]. rewrite to_limbs_S. cbn [repeat].
  rewrite Z.mod_0_l, Z.div_0_l by (pose proof B_pos; lia). now rewrite IH.
Qed.

Lemma nth_error_to_limbs n : forall v k,
  (k < n)%nat -> nth_error (to_limbs n v) k = Some ((v / B ^ Z.of_nat k) mod B).
Proof.
  induction n as [|n IH]; intros v k Hk; [lia|]. rewrite to_limbs_S.
  destruct k as [|k]; cbn [nth_error].
  - change (Z.of_nat 0) with 0. now rewrite Z.pow_0_r, Z.div_1_r.
  - rewrite IH by lia. rewrite Bn_S, Z.div_div by (pose proof B_pos; pose proof (Bn_pos k); lia).
    reflexivity.
Qed.

Lemma eval_to_limbs_small n v : 0 <= v < B ^ Z.of_nat n -> eval (to_limbs n v) = v.
Proof. intros. rewrite eval_to_limbs. now apply Z.mod_small. Qed.

(* one iteration of the accumulation loops: limbs[i / 8] += (b as u64) << (i % 8 * 8) *)
Lemma acc_step L V i b :
  0 <= i -> i < 8 * Z.of_nat L -> 0 <= V < 256 ^ i -> isbyte b ->
  exists x s,
    idx (to_limbs L V) (i / 8) = Val x /\
    uadd64 x (shl64 b (i mod 8 * 8)) = Val s /\
    upd (to_limbs L V) (i / 8) s = Val (to_limbs L (V + 256 ^ i * b)).
Proof.
  intros Hi HiL HV Hb. unfold isbyte in Hb.
  set (q := i / 8). set (r := i mod 8).
  assert (Hqr : i = 8 * q + r /\ 0 <= r < 8 /\ 0 <= q < Z.of_nat L).
  { subst q r. Z.div_mod_to_equations. lia. }
  destruct Hqr as (Ei & Hr & Hq).
  assert (HBq : 0 < B ^ q) by (apply Z.pow_pos_nonneg; [apply B_pos|lia]).
  assert (HP : 0 < 256 ^ r) by (apply Z.pow_pos_nonneg; lia).
  assert (HPB : 256 * 256 ^ r <= B).
  { rewrite <- p256_8, <- Z.pow_succ_r by lia. apply Z.pow_le_mono_r; lia. }
  assert (Hsplit : 256 ^ i = B ^ q * 256 ^ r).
  { rewrite Ei, Z.pow_add_r, Z.pow_mul_r, p256_8 by lia. reflexivity. }
  assert (HVL : V < B ^ Z.of_nat L).
  { rewrite B_p256. apply Z.lt_le_trans with (256 ^ i); [lia|]. apply Z.pow_le_mono_r; lia. }
  set (x := V / B ^ q).
  assert (Hx : 0 <= x < 256 ^ r).
  { subst x. split; [apply Z.div_pos; lia|]. apply Z.div_lt_upper_bound; [lia|]. rewrite <- Hsplit. lia. }
  assert (Hnth : nth_error (to_limbs L V) (Z.to_nat q) = Some x).
  { rewrite nth_error_to_limbs by lia. rewrite Z2Nat.id by lia. fold x. f_equal. apply Z.mod_small. lia. }
  assert (Hshl : shl64 b (r * 8) = b * 256 ^ r).
  { unfold shl64. rewrite p256_pow2 by lia. replace (8 * r) with (r * 8) by lia.
    apply Z.mod_small. rewrite p256_pow2 in HP, HPB by lia. replace (8 * r) with (r * 8) in * by lia. nia. }
  exists x, (x + b * 256 ^ r). repeat split.
  - unfold idx. destruct (Z.ltb_spec q 0); [lia|]. now rewrite Hnth.
  - rewrite Hshl. unfold uadd64. destruct (Z.ltb_spec (x + b * 256 ^ r) B); [reflexivity|nia].
  - unfold upd. unfold lenZ. rewrite to_limbs_length.
    destruct (Z.leb_spec 0 q); [|lia]. destruct (Z.ltb_spec q (Z.of_nat L)); [|lia]. cbn [andb].
    f_equal. symmetry. apply to_limbs_unique.
    + now rewrite set_nth_length, to_limbs_length.
    + apply Forall_set_nth; [|apply to_limbs_inW]. unfold inW. nia.
    + rewrite eval_set_nth by (rewrite to_limbs_length; lia).
      rewrite eval_to_limbs_small by lia.
      rewrite (nth_error_nth _ _ _ Hnth), Z2Nat.id, Hsplit by lia. lia.
Qed.

Lemma le_value_snoc l b : le_value (l ++ [b]) = le_value l + 256 ^ lenZ l * b.
Proof. rewrite le_value_app. cbn [le_value]. unfold lenZ. lia. Qed.

(* generic path, little endian *)
Lemma le_acc_loop_spec L : forall todo dn,
  Forall isbyte (dn ++ todo) -> lenZ (dn ++ todo) <= 8 * Z.of_nat L ->
  le_acc_loop (length todo) (lenZ dn) (dn ++ todo) (to_limbs L (le_value dn))
  = Val (to_limbs L (le_value (dn ++ todo))).
Proof.
  induction todo as [|b t IH]; intros dn Hby Hlen.
  - cbn [length le_acc_loop]. now rewrite app_nil_r.
  - cbn [length le_acc_loop].
    rewrite (idx_app_mid dn b t (lenZ dn) eq_refl). cbn [obind].
    apply Forall_app in Hby as Hby'. destruct Hby' as [Hdn Hbt]. inversion Hbt as [|? ? Hb Ht]; subst.
    rewrite lenZ_app, lenZ_cons in Hlen. pose proof (lenZ_nonneg t). pose proof (lenZ_nonneg dn).
    destruct (acc_step L (le_value dn) (lenZ dn) b) as (x & s & E1 & E2 & E3);
      [lia|lia|apply le_value_bound, Hdn|exact Hb|].
    rewrite E1. cbn [obind]. rewrite E2. cbn [obind]. rewrite E3. cbn [obind].
    rewrite <- le_value_snoc.
    replace (lenZ dn + 1) with (lenZ (dn ++ [b])) by (rewrite lenZ_app, lenZ_cons, lenZ_nil; lia).
    replace (dn ++ b :: t) with ((dn ++ [b]) ++ t) by (rewrite <- app_assoc; reflexivity).
    apply IH.
    + rewrite <- app_assoc. exact Hby.
    + rewrite !lenZ_app, lenZ_cons, lenZ_nil. lia.
Qed.

(* generic path, big endian: bytes = todo ++ dn, c = |todo|, i = |dn| *)
Lemma be_acc_loop_spec L : forall k todo dn,
  length todo = k ->
  Forall isbyte (todo ++ dn) -> lenZ (todo ++ dn) <= 8 * Z.of_nat L ->
  be_acc_loop k (lenZ dn) (lenZ todo) (todo ++ dn) (to_limbs L (le_value (rev dn)))
  = Val (to_limbs L (le_value (rev (todo ++ dn)))).
Proof.
  induction k as [|k IH]; intros todo dn Hk Hby Hlen.
  - destruct todo; [|discriminate]. reflexivity.
  - destruct (list_snoc_inv todo) as (t & b & ->); [intros ->; discriminate|].
    rewrite app_length in Hk. cbn [length] in Hk.
    cbn [be_acc_loop].
    rewrite lenZ_app, lenZ_cons, lenZ_nil.
    pose proof (lenZ_nonneg t). pose proof (lenZ_nonneg dn).
    unfold usub. destruct (Z.ltb_spec (lenZ t + (1 + 0)) 1); [lia|]. cbn [obind].
    rewrite <- app_assoc. cbn [app].
    rewrite (idx_app_mid t b dn) by lia. cbn [obind].
    rewrite <- app_assoc in Hby, Hlen. cbn [app] in Hby, Hlen.
    apply Forall_app in Hby as Hby'. destruct Hby' as [Ht Hbd]. inversion Hbd as [|? ? Hb Hdn]; subst.
    rewrite lenZ_app, lenZ_cons in Hlen.
    destruct (acc_step L (le_value (rev dn)) (lenZ dn) b) as (x & s & E1 & E2 & E3);
      [lia|lia| |exact Hb|].
    { rewrite <- lenZ_rev. apply le_value_bound. now apply Forall_rev. }
    rewrite E1. cbn [obind]. rewrite E2. cbn [obind]. rewrite E3. cbn [obind].
    rewrite <- lenZ_rev, <- le_value_snoc. change (rev dn ++ [b]) with (rev (b :: dn)).
    rewrite lenZ_rev.
    replace (lenZ dn + 1) with (lenZ (b :: dn)) by (rewrite lenZ_cons; lia).
    replace (lenZ t + (1 + 0) - 1) with (lenZ t) by lia.
    apply IH; [lia|exact Hby|]. rewrite lenZ_app, !lenZ_cons. lia.
Qed.

(* whole-limb path *)
Lemma le_fast_loop_spec k : forall i bytes,
  0 <= i -> Forall isbyte bytes -> lenZ bytes = 8 * (i + Z.of_nat k) ->
  le_fast_loop k i bytes = to_limbs k (le_value (skipn (Z.to_nat (i * 8)) bytes)).
Proof.
  induction k as [|k IH]; intros i bytes Hi Hby Hlen; [reflexivity|].
  cbn [le_fast_loop]. rewrite to_limbs_S. unfold read8, u64_from_le_bytes.
  set (rest := skipn (Z.to_nat (i * 8)) bytes).
  assert (Hrl : length rest = (8 + 8 * k)%nat).
  { subst rest. rewrite skipn_length. unfold lenZ in Hlen. lia. }
  assert (Hrb : Forall isbyte rest) by (apply Forall_skipn', Hby).
  assert (Hf : length (firstn 8 rest) = 8%nat) by (rewrite firstn_length; lia).
  pose proof (le_value_bound (firstn 8 rest) (Forall_firstn' _ 8 _ Hrb)) as Hfb.
  rewrite Hf in Hfb. change (Z.of_nat 8) with 8 in Hfb. rewrite p256_8 in Hfb.
  assert (HW : le_value rest = le_value (firstn 8 rest) + B * le_value (skipn 8 rest)).
  { rewrite <- (firstn_skipn 8 rest) at 1. rewrite le_value_app, Hf. change (Z.of_nat 8) with 8.
    now rewrite p256_8. }
  rewrite HW. destruct (div_mod_lin _ (le_value (skipn 8 rest)) B Hfb) as [-> ->]. f_equal.
  rewrite IH by (try assumption; lia). f_equal. f_equal. subst rest.
  rewrite skipn_skipn'. f_equal. lia.
Qed.

Lemma read8_rev bytes i :
  0 <= i -> 8 * (i + 1) <= lenZ bytes ->
  rev (read8 bytes (lenZ bytes - (i + 1) * 8)) = read8 (rev bytes) (i * 8).
Proof.
  intros Hi Hlen. unfold read8, lenZ in *.
  rewrite skipn_rev, firstn_rev, firstn_length. f_equal.
  rewrite skipn_firstn_comm. f_equal; [|f_equal]; lia.
Qed.

Lemma be_fast_loop_le k : forall i bytes,
  0 <= i -> 8 * (i + Z.of_nat k) <= lenZ bytes ->
  be_fast_loop k i bytes = le_fast_loop k i (rev bytes).
Proof.
  induction k as [|k IH]; intros i bytes Hi Hlen; [reflexivity|].
  cbn [be_fast_loop le_fast_loop]. unfold u64_from_be_bytes, u64_from_le_bytes.
  rewrite read8_rev by lia. f_equal. apply IH; lia.
Qed.

Lemma idx_last l : l <> [] -> idx l (lenZ l - 1) = Val (last l 0).
Proof.
  intros H. destruct (list_snoc_inv l H) as (i & x & ->).
  rewrite last_snoc. apply idx_app_mid. rewrite lenZ_app, lenZ_cons, lenZ_nil. lia.
Qed.

(* the tail of both decoders on a word list of the right length *)
Lemma finish_decode_spec bits V :
  0 <= bits -> 0 <= V < B ^ nlimbs bits ->
  finish_decode bits (to_limbs (nlimbsN bits) V)
  = Val (if V <? 2 ^ bits then Some (uint_of bits V) else None).
Proof.
  intros Hb HV. unfold finish_decode, top_exceeds_mask, from_limbs.
  destruct (Z.eq_dec bits 0) as [->|Hnz].
  - cbn in HV. assert (V = 0) by lia. subst V. reflexivity.
  - assert (Hpos : 0 < bits) by lia. pose proof (nlimbs_pos bits Hpos) as Hnl.
    set (l := to_limbs (nlimbsN bits) V).
    assert (Hl : length l = nlimbsN bits) by apply to_limbs_length.
    assert (Hw : Forall inW l) by apply to_limbs_inW.
    assert (He : eval l = V).
    { apply eval_to_limbs_small. rewrite nlimbsN_Z by lia. exact HV. }
    assert (HlZ : lenZ l = nlimbs bits) by (unfold lenZ; rewrite Hl; apply nlimbsN_Z; lia).
    assert (Hne : l <> []) by (intros E; rewrite E in HlZ; cbn in HlZ; lia).
    destruct (Z.ltb_spec 0 (nlimbs bits)); [|lia].
    rewrite <- HlZ, idx_last by exact Hne. cbn [obind].
    rewrite (last_gt_mask bits l Hpos Hl Hw), He.
    destruct (Z.leb_spec (2 ^ bits) V) as [Hge|Hlt].
    + destruct (Z.ltb_spec V (2 ^ bits)); [lia|reflexivity].
    + destruct (Z.ltb_spec V (2 ^ bits)); [|lia].
      assert (Hle : last l 0 <=? mask bits = true).
      { pose proof (last_gt_mask bits l Hpos Hl Hw) as Hm. rewrite He in Hm.
        destruct (Z.leb_spec (2 ^ bits) V); [lia|]. apply Z.ltb_ge in Hm. now apply Z.leb_le. }
      destruct (should_mask bits); cbn [obind]; [rewrite Hle|]; reflexivity.
Qed.

Lemma le_value_lt_limbs bits bs :
  0 <= bits -> Forall isbyte bs -> lenZ bs <= nbytes bits -> 0 <= le_value bs < B ^ nlimbs bits.
Proof.
  intros Hb Hby Hlen. pose proof (le_value_bound bs Hby) as Hv.
  pose proof (nbytes_le_limbs bits Hb). pose proof (nlimbs_nonneg bits Hb).
  split; [lia|]. apply Z.lt_le_trans with (256 ^ Z.of_nat (length bs)); [lia|].
  rewrite <- p256_8, <- Z.pow_mul_r by lia. apply Z.pow_le_mono_r; unfold lenZ in *; lia.
Qed.

Theorem try_from_le_slice_spec bits bs :
  0 <= bits -> Forall isbyte bs ->
  try_from_le_slice bits bs =
    Val (if (lenZ bs <=? nbytes bits) && (le_value bs <? 2 ^ bits)
         then Some (uint_of bits (le_value bs)) else None).
Proof.
  intros Hb Hby. unfold try_from_le_slice.
  destruct (Z.ltb_spec (nbytes bits) (lenZ bs)) as [Hlong|Hlen].
  { destruct (Z.leb_spec (lenZ bs) (nbytes bits)); [lia|reflexivity]. }
  destruct (Z.leb_spec (lenZ bs) (nbytes bits)); [|lia]. cbn [andb].
  pose proof (le_value_lt_limbs bits bs Hb Hby Hlen) as HV.
  destruct ((nbytes bits mod 8 =? 0) && (lenZ bs =? nbytes bits)) eqn:Efast.
  - apply andb_true_iff in Efast. destruct Efast as [E1 E2]. apply Z.eqb_eq in E1, E2.
    pose proof (nbytes_whole_limbs bits Hb E1) as Hwl.
    rewrite le_fast_loop_spec; [|lia|exact Hby|rewrite nlimbsN_Z by lia; lia].
    cbn [Z.mul Z.to_nat skipn]. now apply finish_decode_spec.
  - pose proof (le_acc_loop_spec (nlimbsN bits) bs []) as HL. cbn [app le_value] in HL.
    rewrite lenZ_nil, to_limbs_0 in HL. unfold zero_limbs. rewrite HL.
    + cbn [obind]. now apply finish_decode_spec.
    + exact Hby.
    + rewrite nlimbsN_Z by lia. pose proof (nbytes_le_limbs bits Hb). lia.
Qed.

Theorem try_from_be_slice_spec bits bs :
  0 <= bits -> Forall isbyte bs ->
  try_from_be_slice bits bs =
    Val (if (lenZ bs <=? nbytes bits) && (le_value (rev bs) <? 2 ^ bits)
         then Some (uint_of bits (le_value (rev bs))) else None).
Proof.
  intros Hb Hby. unfold try_from_be_slice.
  destruct (Z.ltb_spec (nbytes bits) (lenZ bs)) as [Hlong|Hlen].
  { destruct (Z.leb_spec (lenZ bs) (nbytes bits)); [lia|reflexivity]. }
  destruct (Z.leb_spec (lenZ bs) (nbytes bits)); [|lia]. cbn [andb].
  assert (Hrb : Forall isbyte (rev bs)) by now apply Forall_rev.
  pose proof (le_value_lt_limbs bits (rev bs) Hb Hrb ltac:(rewrite lenZ_rev; lia)) as HV.
  destruct ((nbytes bits mod 8 =? 0) && (lenZ bs =? nbytes bits)) eqn:Efast.
  - apply andb_true_iff in Efast. destruct Efast as [E1 E2]. apply Z.eqb_eq in E1, E2.
    pose proof (nbytes_whole_limbs bits Hb E1) as Hwl.
    rewrite be_fast_loop_le by (rewrite ?nlimbsN_Z by lia; lia).
    rewrite le_fast_loop_spec; [|lia|exact Hrb|rewrite lenZ_rev, nlimbsN_Z by lia; lia].
    cbn [Z.mul Z.to_nat skipn]. now apply finish_decode_spec.
  - pose proof (be_acc_loop_spec (nlimbsN bits) (length bs) bs [] eq_refl) as HL.
    rewrite app_nil_r in HL. cbn [rev le_value] in HL.
    rewrite lenZ_nil, to_limbs_0 in HL. unfold zero_limbs. rewrite HL.
    + cbn [obind]. now apply finish_decode_spec.
    + exact Hby.
    + rewrite nlimbsN_Z by lia. pose proof (nbytes_le_limbs bits Hb). lia.
Qed.

(* from_*_slice panic exactly when try_from_*_slice returns None *)
Lemma from_le_slice_spec bits bs :
  0 <= bits -> Forall isbyte bs ->
  from_le_slice bits bs =
    if (lenZ bs <=? nbytes bits) && (le_value bs <? 2 ^ bits)
    then Val (uint_of bits (le_value bs)) else Panic.
Proof.
  intros. unfold from_le_slice. rewrite try_from_le_slice_spec by assumption. cbn [obind].
  destruct ((lenZ bs <=? nbytes bits) && (le_value bs <? 2 ^ bits)); reflexivity.
Qed.
Lemma from_be_slice_spec bits bs :
  0 <= bits -> Forall isbyte bs ->
  from_be_slice bits bs =
    if (lenZ bs <=? nbytes bits) && (le_value (rev bs) <? 2 ^ bits)
    then Val (uint_of bits (le_value (rev bs))) else Panic.
Proof.
  intros. unfold from_be_slice. rewrite try_from_be_slice_spec by assumption. cbn [obind].
  destruct ((lenZ bs <=? nbytes bits) && (le_value (rev bs) <? 2 ^ bits)); reflexivity.
Qed.
Lemma from_le_bytes_spec bits bs :
  0 <= bits -> Forall isbyte bs ->
  from_le_bytes bits bs =
    if (lenZ bs =? nbytes bits) && (le_value bs <? 2 ^ bits)
    then Val (uint_of bits (le_value bs)) else Panic.
Proof.
  intros. unfold from_le_bytes. destruct (Z.eqb_spec (lenZ bs) (nbytes bits)) as [E|E]; [|reflexivity].
  rewrite from_le_slice_spec by assumption. destruct (Z.leb_spec (lenZ bs) (nbytes bits)); [reflexivity|lia].
Qed.
Lemma from_be_bytes_spec bits bs :
  0 <= bits -> Forall isbyte bs ->
  from_be_bytes bits bs =
    if (lenZ bs =? nbytes bits) && (le_value (rev bs) <? 2 ^ bits)
    then Val (uint_of bits (le_value (rev bs))) else Panic.
Proof.
  intros. unfold from_be_bytes. destruct (Z.eqb_spec (lenZ bs) (nbytes bits)) as [E|E]; [|reflexivity].
  rewrite from_be_slice_spec by assumption. destruct (Z.leb_spec (lenZ bs) (nbytes bits)); [reflexivity|lia].
Qed.

(* ---------- copy into a buffer ---------- *)
Lemma copy_le_bytes_to_spec bits a buf :
  0 <= bits -> canon bits a ->
  copy_le_bytes_to bits a buf =
    if lenZ buf <? nbytes bits then Panic
    else Val (nbytes bits, le_digits (nbytesN bits) (eval a) ++ skipn (nbytesN bits) buf).
Proof.
  intros Hb Hc. unfold copy_le_bytes_to, debug_assert, slice_to.
  pose proof (nbytes_nonneg bits Hb) as Hn.
  destruct (Z.leb_spec 0 (nbytes bits)); [|lia].
  destruct (Z.ltb_spec (lenZ buf) (nbytes bits)) as [Hs|Hl].
  - destruct (Z.leb_spec (nbytes bits) (lenZ buf)); [lia|]. reflexivity.
  - destruct (Z.leb_spec (nbytes bits) (lenZ buf)); [|lia]. cbn [andb obind].
    unfold copy_from_slice. rewrite as_le_slice_spec by assumption.
    rewrite firstn_length, le_digits_length. fold (nbytesN bits).
    unfold lenZ in *. pose proof (nbytesN_Z bits Hb).
    replace (Nat.min (nbytesN bits) (length buf)) with (nbytesN bits) by lia.
    rewrite Nat.eqb_refl. reflexivity.
Qed.

Lemma checked_copy_le_bytes_to_spec bits a buf :
  0 <= bits -> canon bits a ->
  checked_copy_le_bytes_to bits a buf =
    if lenZ buf <? nbytes bits then Val (None, buf)
    else Val (Some (nbytes bits), le_digits (nbytesN bits) (eval a) ++ skipn (nbytesN bits) buf).
Proof.
  intros. unfold checked_copy_le_bytes_to. rewrite copy_le_bytes_to_spec by assumption.
  destruct (lenZ buf <? nbytes bits); reflexivity.
Qed.

Lemma skipn_rev_le_digits k x :
  (k <= 8)%nat -> skipn (8 - k) (u64_to_be_bytes x) = rev (le_digits k x).
Proof.
  intros Hk. unfold u64_to_be_bytes, u64_to_le_bytes. rewrite skipn_rev, le_digits_length.
  replace (8 - (8 - k))%nat with k by lia. now rewrite firstn_le_digits.
Qed.

Lemma u64_to_be_bytes_lenZ x : lenZ (u64_to_be_bytes x) = 8.
Proof. unfold lenZ, u64_to_be_bytes, u64_to_le_bytes. now rewrite rev_length, le_digits_length. Qed.

(* the rchunks_mut(8) zip: big-endian bytes, most significant (possibly short) chunk first *)
Lemma copy_be_loop_spec : forall l dst,
  Forall inW l -> (length dst <= 8 * length l)%nat ->
  copy_be_loop l dst = Val (rev (le_digits (length dst) (eval l))).
Proof.
  induction l as [|limb rest IH]; intros dst Hw Hlen.
  - cbn [length] in Hlen. destruct dst; [reflexivity|cbn [length] in Hlen; lia].
  - inversion Hw as [|? ? Hx Hr]; subst.
    destruct dst as [|d dst']; [reflexivity|].
    set (dst := d :: dst') in *. cbn [copy_be_loop]. fold dst.
    assert (Hn : (0 < length dst)%nat) by (subst dst; cbn [length]; lia).
    change (match dst with [] => Val [] | _ :: _ => ?k end) with k.
    set (n := length dst) in *. set (k := Nat.min 8 n).
    assert (Hk : (k <= 8 /\ k <= n /\ 0 < k)%nat) by (subst k; lia).
    unfold slice_from. rewrite u64_to_be_bytes_lenZ.
    destruct (Z.leb_spec 0 (8 - Z.of_nat k)); [|lia].
    destruct (Z.leb_spec (8 - Z.of_nat k) 8); [|lia]. cbn [andb obind].
    replace (Z.to_nat (8 - Z.of_nat k)) with (8 - k)%nat by lia.
    rewrite skipn_rev_le_digits by lia.
    unfold copy_from_slice. rewrite skipn_length, rev_length, le_digits_length. fold n.
    replace (n - (n - k))%nat with k by lia. rewrite Nat.eqb_refl. cbn [obind].
    rewrite IH; [|exact Hr|rewrite firstn_length; fold n; cbn [length] in Hlen; lia].
    cbn [obind]. f_equal. rewrite firstn_length. fold n.
    replace (Nat.min (n - k) n) with (n - k)%nat by lia.
    rewrite <- rev_app_distr. f_equal.
    transitivity (le_digits (k + (n - k)) (eval (limb :: rest))); [|f_equal; lia].
    rewrite le_digits_app. cbn [eval].
    assert (HB8 : B = 256 ^ Z.of_nat 8) by (symmetry; exact p256_8).
    f_equal.
    + rewrite HB8. symmetry. apply le_digits_add_mul. lia.
    + destruct (Nat.eq_dec k 8) as [E8|Hk8].
      * rewrite E8, <- HB8. unfold inW in Hx.
        destruct (div_mod_lin limb (eval rest) B Hx) as [_ ->]. reflexivity.
      * replace (n - k)%nat with 0%nat by lia. reflexivity.
Qed.

Lemma copy_be_bytes_to_spec bits a buf :
  0 <= bits -> canon bits a ->
  copy_be_bytes_to bits a buf =
    if lenZ buf <? nbytes bits then Panic
    else Val (nbytes bits, rev (le_digits (nbytesN bits) (eval a)) ++ skipn (nbytesN bits) buf).
Proof.
  intros Hb Hc. unfold copy_be_bytes_to, debug_assert, slice_to.
  pose proof (nbytes_nonneg bits Hb) as Hn. destruct Hc as (Hl & Hw & Hlt).
  destruct (Z.leb_spec 0 (nbytes bits)); [|lia].
  destruct (Z.ltb_spec (lenZ buf) (nbytes bits)) as [Hs|Hlg].
  - destruct (Z.leb_spec (nbytes bits) (lenZ buf)); [lia|]. reflexivity.
  - destruct (Z.leb_spec (nbytes bits) (lenZ buf)); [|lia]. cbn [andb obind].
    fold (nbytesN bits). pose proof (nbytesN_Z bits Hb). pose proof (nbytesN_le_limbs bits Hb).
    assert (Hfl : length (firstn (nbytesN bits) buf) = nbytesN bits).
    { rewrite firstn_length. unfold lenZ in *. lia. }
    rewrite copy_be_loop_spec; [|exact Hw|rewrite Hfl, Hl; lia].
    cbn [obind]. rewrite Hfl. reflexivity.
Qed.

Lemma checked_copy_be_bytes_to_spec bits a buf :
  0 <= bits -> canon bits a ->
  checked_copy_be_bytes_to bits a buf =
    if lenZ buf <? nbytes bits then Val (None, buf)
    else Val (Some (nbytes bits), rev (le_digits (nbytesN bits) (eval a)) ++ skipn (nbytesN bits) buf).
Proof.
  intros. unfold checked_copy_be_bytes_to. rewrite copy_be_bytes_to_spec by assumption.
  destruct (lenZ buf <? nbytes bits); reflexivity.
Qed.

(* ---------- round trips ---------- *)
Lemma decode_le_digits bits a n :
  0 <= bits -> canon bits a -> Z.of_nat n <= nbytes bits -> eval a < 256 ^ Z.of_nat n ->
  try_from_le_slice bits (le_digits n (eval a)) = Val (Some a) /\
  try_from_be_slice bits (rev (le_digits n (eval a))) = Val (Some a).
Proof.
  intros Hb Hc Hn Hv. pose proof (canon_range bits a Hb Hc) as Hr.
  split.
  - rewrite try_from_le_slice_spec by (auto using le_digits_isbyte).
    unfold lenZ. rewrite le_digits_length, le_value_le_digits, Z.mod_small by lia.
    destruct (Z.leb_spec (Z.of_nat n) (nbytes bits)); [|lia].
    destruct (Z.ltb_spec (eval a) (2 ^ bits)); [|lia]. cbn [andb].
    now rewrite canon_uint_of.
  - rewrite try_from_be_slice_spec by (try apply Forall_rev; auto using le_digits_isbyte).
    rewrite rev_involutive. unfold lenZ. rewrite rev_length, le_digits_length, le_value_le_digits, Z.mod_small by lia.
    destruct (Z.leb_spec (Z.of_nat n) (nbytes bits)); [|lia].
    destruct (Z.ltb_spec (eval a) (2 ^ bits)); [|lia]. cbn [andb].
    now rewrite canon_uint_of.
Qed.

Lemma roundtrip_full bits a :
  0 <= bits -> canon bits a ->
  try_from_le_slice bits (as_le_bytes bits a) = Val (Some a) /\
  try_from_be_slice bits (to_be_bytes_vec bits a) = Val (Some a).
Proof.
  intros Hb Hc. rewrite to_be_bytes_vec_spec, as_le_bytes_spec by assumption.
  pose proof (canon_lt_bytes bits a Hb Hc). pose proof (nbytesN_Z bits Hb).
  apply decode_le_digits; try assumption; lia.
Qed.

Lemma roundtrip_trimmed bits a :
  0 <= bits -> canon bits a ->
  (do e <- as_le_bytes_trimmed bits a; try_from_le_slice bits e) = Val (Some a) /\
  (do e <- to_be_bytes_trimmed_vec bits a; try_from_be_slice bits e) = Val (Some a).
Proof.
  intros Hb Hc. rewrite to_be_bytes_trimmed_vec_spec, as_le_bytes_trimmed_spec by assumption.
  cbn [obind]. pose proof (canon_lt_bytes bits a Hb Hc) as Hv. pose proof (nbytesN_Z bits Hb).
  pose proof (bytelen_nonneg (eval a) ltac:(lia)). pose proof (bytelen_bound (eval a) ltac:(lia)).
  pose proof (bytelen_le (eval a) (Z.of_nat (nbytesN bits)) ltac:(lia) Hv).
  apply decode_le_digits; try assumption; rewrite Z2Nat.id by lia; lia.
Qed.

Lemma roundtrip_arrays bits a :
  0 <= bits -> canon bits a ->
  (do e <- to_le_bytes bits (nbytes bits) a; from_le_bytes bits e) = Val a /\
  (do e <- to_be_bytes bits (nbytes bits) a; from_be_bytes bits e) = Val a.
Proof.
  intros Hb Hc. rewrite to_le_bytes_spec, to_be_bytes_spec, Z.eqb_refl by assumption. cbn [obind].
  pose proof (canon_lt_bytes bits a Hb Hc) as Hv. pose proof (nbytesN_Z bits Hb) as Hn.
  pose proof (canon_range bits a Hb Hc) as Hr.
  rewrite from_le_bytes_spec, from_be_bytes_spec by (try apply Forall_rev; auto using le_digits_isbyte).
  rewrite rev_involutive. unfold lenZ. rewrite rev_length, le_digits_length, Hn, Z.eqb_refl.
  rewrite le_value_le_digits, Z.mod_small by lia.
  destruct (Z.ltb_spec (eval a) (2 ^ bits)); [|lia]. cbn [andb].
  now rewrite canon_uint_of.
Qed.
