(* Proofs/PfC13Closed.v — C13 without hypotheses: the kernel contract assumed by PfRoot/PfC13
   is the theorem PfDiv.div_kernel_spec (C14). *)
From Coq Require Import ZArith List.
From RV.Model Require Import Base Div.
From RV.Proofs Require Import PfDiv PfRoot PfC13.
From RV.Run Require Import RunC13.

Lemma DivKernelOK_holds : DivKernelOK.
Proof. unfold DivKernelOK. intros n d Hn Hd Hz. exact (div_kernel_spec n d Hn Hd Hz). Qed.

Theorem C13_all c : wf c -> spec c (run c) = true.
Proof. exact (C13_all_partial DivKernelOK_holds c). Qed.
