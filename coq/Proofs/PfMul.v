(* Proofs/PfMul.v — src/mul.rs: characterising lemmas for overflowing/wrapping/widening
   multiplication, the 2-adic inverse (Hensel lifting) and the iterator product. *)
From Coq Require Import ZArith List Bool Lia.
From RV.Model Require Import Base Word Limbs Add Conv Mul.
From RV.Proofs Require Import BaseFacts PfLimbs PfAdd PfConv PfMulN.
Import ListNotations.
Local Open Scope Z_scope.

(* ---------- helpers ---------- *)
Lemma uZERO_words bits :
  length (uZERO bits) = nlimbsN bits /\ Forall inW (uZERO bits) /\ eval (uZERO bits) = 0.
Proof.
  unfold uZERO, zero_limbs. rewrite repeat_length, eval_repeat0.
  auto using Forall_inW_repeat0.
Qed.

Lemma mod_Bn_mod_bits bits x :
  0 < bits -> (x mod B ^ nlimbs bits) mod 2 ^ bits = x mod 2 ^ bits.
Proof.
  intros H. pose proof (nlimbs_bounds bits H). rewrite Bn_pow2Z by lia.
  apply mod_mod_pow2. lia.
Qed.

Lemma canon_uint_of_val bits v :
  0 <= bits -> 0 <= v < 2 ^ bits -> canon bits (uint_of bits v) /\ eval (uint_of bits v) = v.
Proof.
  intros H Hv. unfold uint_of.
  assert (He : eval (to_limbs (nlimbsN bits) v) = v).
  { rewrite eval_to_limbs, nlimbsN_Z by lia. apply Z.mod_small.
    destruct (Z.eq_dec bits 0) as [->|N]; [cbn in *; lia|].
    rewrite (pow_bits_divides_Bn bits) by lia.
    pose proof (nlimbs_bounds bits ltac:(lia)).
    pose proof (pow2_pos (64 * nlimbs bits - bits) ltac:(lia)). nia. }
  split; [|exact He]. unfold canon. rewrite to_limbs_length, He.
  split; [reflexivity|]. split; [apply to_limbs_inW | lia].
Qed.

Lemma canon_0_nil : canon 0 [].
Proof. unfold canon. cbn. split; [reflexivity|]. split; [constructor | lia]. Qed.

Lemma words_nil_of_len0 (l : list Z) : length l = 0%nat -> l = [].
Proof. destruct l; [reflexivity | discriminate]. Qed.

(* ---------- wrapping_mul ---------- *)
Theorem wrapping_mul_spec bits a b :
  0 <= bits -> length a = nlimbsN bits -> length b = nlimbsN bits ->
  Forall inW a -> Forall inW b ->
  exists r, wrapping_mul bits a b = Val r /\ canon bits r /\
            eval r = (eval a * eval b) mod 2 ^ bits.
Proof.
  intros H Hla Hlb Hwa Hwb. unfold wrapping_mul.
  destruct (uZERO_words bits) as (Hlz & Hwz & Hez).
  destruct (addmul_n_spec (uZERO bits) a b ltac:(congruence) ltac:(congruence) Hwz Hwa Hwb)
    as (r0 & -> & Hlr & Hwr & Her).
  cbn [obind]. rewrite Hez, Z.add_0_l, Hlz in Her. rewrite Hlz in Hlr.
  destruct (Z.ltb_spec 0 bits) as [Hpos|Hz].
  - destruct (masked_spec bits r0 Hpos Hlr Hwr) as [Hc Hev].
    exists (apply_mask bits r0). split; [reflexivity|]. split; [exact Hc|].
    unfold apply_mask. rewrite Hev, Her, nlimbsN_Z by lia. now apply mod_Bn_mod_bits.
  - assert (bits = 0) by lia. subst bits. change (nlimbsN 0) with 0%nat in Hlr.
    apply words_nil_of_len0 in Hlr. subst r0. exists []. split; [reflexivity|].
    split; [apply canon_0_nil|]. cbn [eval]. now rewrite Z.pow_0_r, Z.mod_1_r.
Qed.

(* ---------- overflowing_mul ---------- *)
Lemma flag_split M k T :
  0 < M -> 0 < k -> 0 <= T ->
  ((M * k <=? T) || (M <=? T mod (M * k))) = (M <=? T).
Proof.
  intros HM Hk HT.
  destruct (Z.leb_spec (M * k) T) as [H1|H1]; cbn [orb].
  - symmetry. apply Z.leb_le. nia.
  - rewrite Z.mod_small by lia. reflexivity.
Qed.

Theorem overflowing_mul_spec bits a b :
  0 <= bits -> canon bits a -> canon bits b ->
  let '(r, f) := overflowing_mul bits a b in
  canon bits r /\ eval r = (eval a * eval b) mod 2 ^ bits /\
  f = (2 ^ bits <=? eval a * eval b).
Proof.
  intros H Ha Hb. unfold overflowing_mul.
  destruct (Z.ltb_spec 0 bits) as [Hpos|Hz].
  - destruct Ha as (Hla & Hwa & _), Hb as (Hlb & Hwb & _).
    destruct (uZERO_words bits) as (Hlz & Hwz & Hez).
    pose proof (addmul_spec (uZERO bits) a b Hwz Hwa Hwb) as S.
    destruct (addmul (uZERO bits) a b) as [l' f0]. cbv zeta in S.
    destruct S as (Hll & Hwl & Hel & Hf).
    rewrite Hez, Z.add_0_l, Hlz, nlimbsN_Z in * by lia.
    destruct (masked_spec bits l' Hpos Hll Hwl) as [Hc Hev].
    unfold apply_mask. split; [exact Hc|]. split.
    + rewrite Hev, Hel. now apply mod_Bn_mod_bits.
    + rewrite (last_gt_mask bits l' Hpos Hll Hwl), Hel, Hf.
      rewrite (pow_bits_divides_Bn bits Hpos).
      pose proof (nlimbs_bounds bits Hpos).
      pose proof (eval_bound a Hwa). pose proof (eval_bound b Hwb).
      apply flag_split; [apply pow2_pos; lia | apply pow2_pos; lia | nia].
  - assert (bits = 0) by lia. subst bits.
    apply canon_zero_width in Ha, Hb. subst. cbn. split; [apply canon_0_nil|]. split; reflexivity.
Qed.

(* ---------- widening_mul ---------- *)
Theorem widening_mul_spec bits br a b :
  0 <= bits -> 0 <= br -> canon bits a -> canon br b ->
  widening_mul bits br (bits + br) (nlimbs (bits + br)) a b
  = Val (uint_of (bits + br) (eval a * eval b)).
Proof.
  intros H Hr Ha Hb. unfold widening_mul. rewrite !Z.eqb_refl. cbn [negb].
  set (bo := bits + br).
  pose proof (canon_range bits a H Ha) as Ra. pose proof (canon_range br b Hr Hb) as Rb.
  destruct Ha as (Hla & Hwa & _), Hb as (Hlb & Hwb & _).
  assert (HT : 0 <= eval a * eval b < 2 ^ bo).
  { unfold bo. rewrite Z.pow_add_r by lia. nia. }
  change (zero_limbs (Z.to_nat (nlimbs bo))) with (uZERO bo).
  destruct (uZERO_words bo) as (Hlz & Hwz & Hez).
  pose proof (addmul_spec (uZERO bo) a b Hwz Hwa Hwb) as S.
  destruct (addmul (uZERO bo) a b) as [l' f0]. cbv zeta in S.
  destruct S as (Hll & Hwl & Hel & _).
  rewrite Hez, Z.add_0_l, Hlz in *.
  destruct (Z.eq_dec bo 0) as [E0|N0].
  - rewrite E0 in *. change (nlimbs 0) with 0. cbn [Z.ltb Z.compare].
    change (nlimbsN 0) with 0%nat in Hll. apply words_nil_of_len0 in Hll. subst l'.
    reflexivity.
  - assert (Hpos : 0 < bo) by (unfold bo in *; lia).
    rewrite nlimbsN_Z in Hel by lia.
    assert (Hev : eval l' = eval a * eval b).
    { rewrite Hel. apply Z.mod_small. rewrite (pow_bits_divides_Bn bo Hpos).
      pose proof (nlimbs_bounds bo Hpos).
      pose proof (pow2_pos (64 * nlimbs bo - bo) ltac:(lia)). nia. }
    pose proof (nlimbs_pos bo Hpos).
    destruct (Z.ltb_spec 0 (nlimbs bo)); [|lia].
    pose proof (last_gt_mask bo l' Hpos Hll Hwl) as Hm.
    destruct (Z.leb_spec (2 ^ bo) (eval l')); [lia|].
    apply Z.ltb_ge in Hm. destruct (Z.leb_spec (last l' 0) (mask bo)); [|lia].
    f_equal. apply uint_of_unique; [|exact Hev].
    apply mk_canon; auto.
Qed.

Lemma widening_mul_bad_limbs bits br bres lres a b :
  lres <> nlimbs bres -> widening_mul bits br bres lres a b = CompileError.
Proof. intros N. unfold widening_mul. destruct (Z.eqb_spec lres (nlimbs bres)); [tauto | reflexivity]. Qed.

Lemma widening_mul_bad_bits bits br bres a b :
  bres <> bits + br -> widening_mul bits br bres (nlimbs bres) a b = Panic.
Proof.
  intros N. unfold widening_mul. rewrite Z.eqb_refl. cbn [negb].
  destruct (Z.eqb_spec bres (bits + br)); [tauto | reflexivity].
Qed.

(* ---------- congruence a * x = 1 (mod 2^k) and Hensel lifting ---------- *)
Definition cong1 (k a x : Z) : Prop := (2 ^ k | a * x - 1).

Lemma pow2_divide j k : 0 <= j <= k -> (2 ^ j | 2 ^ k).
Proof. intros H. exists (2 ^ (k - j)). rewrite <- Z.pow_add_r by lia. f_equal. lia. Qed.

Lemma cong1_mono j k a x : 0 <= j <= k -> cong1 k a x -> cong1 j a x.
Proof. intros H Hc. eapply Z.divide_trans; [apply pow2_divide; eassumption | exact Hc]. Qed.

(* the Newton step doubles the number of correct bits *)
Lemma cong1_hensel k a x : 0 <= k -> cong1 k a x -> cong1 (2 * k) a (x * (2 - a * x)).
Proof.
  intros H [t Ht]. exists (- (t * t)). unfold cong1.
  replace (a * (x * (2 - a * x)) - 1) with (- ((a * x - 1) * (a * x - 1))) by ring.
  rewrite Ht. replace (2 * k) with (k + k) by lia. rewrite Z.pow_add_r by lia. ring.
Qed.

Lemma cong1_mod_r k m a x : 0 <= k <= m -> cong1 k a x -> cong1 k a (x mod 2 ^ m).
Proof.
  intros H Hc. unfold cong1 in *. pose proof (pow2_pos m ltac:(lia)).
  rewrite (Z.mod_eq x (2 ^ m)) by lia.
  replace (a * (x - 2 ^ m * (x / 2 ^ m)) - 1) with ((a * x - 1) - 2 ^ m * (a * (x / 2 ^ m))) by ring.
  apply Z.divide_sub_r; [exact Hc|]. apply Z.divide_mul_l, pow2_divide. lia.
Qed.

(* only the low k bits of a matter *)
Lemma cong1_low k m a0 e x : 0 <= k <= m -> cong1 k a0 x -> cong1 k (a0 + 2 ^ m * e) x.
Proof.
  intros H Hc. unfold cong1 in *.
  replace ((a0 + 2 ^ m * e) * x - 1) with ((a0 * x - 1) + 2 ^ m * (e * x)) by ring.
  apply Z.divide_add_r; [exact Hc|]. apply Z.divide_mul_l, pow2_divide. lia.
Qed.

Lemma cong1_of_mod k a x : 0 <= k -> (a * x) mod 2 ^ k = 1 mod 2 ^ k -> cong1 k a x.
Proof.
  intros H He. unfold cong1. pose proof (pow2_pos k H).
  apply Z.mod_divide; [lia|]. rewrite Zminus_mod, He, Z.sub_diag. apply Z.mod_0_l. lia.
Qed.

Lemma cong1_to_mod k a x : 0 < k -> cong1 k a x -> (a * x) mod 2 ^ k = 1.
Proof.
  intros H [t Ht]. assert (1 < 2 ^ k) by (apply Z.pow_gt_1; lia).
  replace (a * x) with (1 + t * 2 ^ k) by lia.
  rewrite Z.mod_add by lia. apply Z.mod_small. lia.
Qed.

(* the modular Newton step, all operations reduced mod M *)
Lemma step_mod M a x :
  0 < M -> (x * ((2 - (a * x) mod M) mod M)) mod M = (x * (2 - a * x)) mod M.
Proof.
  intros H. rewrite Zminus_mod_idemp_r. rewrite Z.mul_mod_idemp_r by lia. reflexivity.
Qed.

(* ---------- the u64 part: seed and four Newton steps ---------- *)
Lemma land_distr_lxor x y m : Z.land (Z.lxor x y) m = Z.lxor (Z.land x m) (Z.land y m).
Proof.
  apply Z.bits_inj'. intros n Hn. rewrite !Z.land_spec, !Z.lxor_spec, !Z.land_spec.
  destruct (Z.testbit x n), (Z.testbit y n), (Z.testbit m n); reflexivity.
Qed.
Lemma lxor_mod_pow2 x y k : 0 <= k -> (Z.lxor x y) mod 2 ^ k = Z.lxor (x mod 2 ^ k) (y mod 2 ^ k).
Proof. intros H. rewrite <- !Z.land_ones by lia. apply land_distr_lxor. Qed.

(* the seed's correctness depends only on n mod 32 ... *)
Definition seed_res (r : Z) : Z := (r * Z.lxor ((r * 3) mod 32) 2) mod 32.

Lemma seed_lift n : (n * inv64_seed n) mod 32 = seed_res (n mod 32).
Proof.
  unfold inv64_seed, wmul, seed_res.
  rewrite Z.mul_mod by lia. f_equal. f_equal.
  change 32 with (2 ^ 5). rewrite lxor_mod_pow2 by lia. rewrite B_pow.
  rewrite mod_mod_pow2 by lia. change (2 mod 2 ^ 5) with 2.
  rewrite Z.mul_mod_idemp_l by lia. reflexivity.
Qed.

(* ... and holds on the 16 odd residues *)
Lemma seed_finite r : 0 <= r < 32 -> Z.odd r = true -> seed_res r = 1.
Proof.
  intros Hr Ho.
  assert (Hall : forallb (fun r => implb (Z.odd r) (seed_res r =? 1))
                         (map Z.of_nat (seq 0 32)) = true) by (vm_compute; reflexivity).
  rewrite forallb_forall in Hall.
  specialize (Hall r). rewrite Ho in Hall. cbn [implb] in Hall.
  apply Z.eqb_eq, Hall. apply in_map_iff. exists (Z.to_nat r). split; [lia|].
  apply in_seq. lia.
Qed.

Lemma odd_mod32 n : Z.odd (n mod 32) = Z.odd n.
Proof.
  rewrite <- !Z.bit0_odd. change 32 with (2 ^ 5). apply Z.mod_pow2_bits_low. lia.
Qed.

Lemma seed_spec n : Z.odd n = true -> cong1 5 n (inv64_seed n).
Proof.
  intros Ho. apply cong1_of_mod; [lia|]. change (2 ^ 5) with 32. rewrite seed_lift.
  rewrite seed_finite; [reflexivity | apply Z.mod_pos_bound; lia | now rewrite odd_mod32].
Qed.

Lemma inv64_step_eq n inv : inv64_step n inv = (inv * (2 - n * inv)) mod B.
Proof. unfold inv64_step, wmul, wsub. apply step_mod, B_pos. Qed.

Lemma inv64_step_spec k j n inv :
  0 <= k -> 0 <= j <= 2 * k -> j <= 64 -> cong1 k n inv -> cong1 j n (inv64_step n inv).
Proof.
  intros Hk Hj Hj64 Hc. rewrite inv64_step_eq, B_pow. apply cong1_mod_r; [lia|].
  apply cong1_mono with (k := 2 * k); [lia|]. now apply cong1_hensel.
Qed.

Theorem inv64_spec n :
  Z.odd n = true -> exists inv, inv64 n = Val inv /\ inW inv /\ cong1 64 n inv.
Proof.
  intros Ho. unfold inv64.
  pose proof (seed_spec n Ho) as H0.
  pose proof (inv64_step_spec 5 10 n _ ltac:(lia) ltac:(lia) ltac:(lia) H0) as H1.
  pose proof (inv64_step_spec 10 20 n _ ltac:(lia) ltac:(lia) ltac:(lia) H1) as H2.
  pose proof (inv64_step_spec 20 40 n _ ltac:(lia) ltac:(lia) ltac:(lia) H2) as H3.
  pose proof (inv64_step_spec 40 64 n _ ltac:(lia) ltac:(lia) ltac:(lia) H3) as H4.
  set (inv := inv64_step n (inv64_step n (inv64_step n (inv64_step n (inv64_seed n))))) in *.
  assert (Hm : wmul n inv = 1).
  { unfold wmul. rewrite B_pow. apply cong1_to_mod; [lia | exact H4]. }
  rewrite Hm. cbn [Z.eqb Pos.eqb]. exists inv. split; [reflexivity|]. split; [|exact H4].
  unfold inv. rewrite inv64_step_eq. unfold inW. apply Z.mod_pos_bound, B_pos.
Qed.

(* ---------- the limb-doubling loop ---------- *)
Lemma from_i32_two bits :
  64 < bits -> from_i32 bits 2 = Val (uint_of bits 2).
Proof.
  intros H. unfold from_i32.
  rewrite try_from_prim_spec; [| lia | cbn; lia | cbn; lia | cbn; lia].
  cbn [Z.ltb Z.compare from_of obind]. unfold res_of.
  assert (2 ^ 1 < 2 ^ bits) by (apply Z.pow_lt_mono_r; lia).
  destruct (Z.ltb_spec 2 (2 ^ bits)); [reflexivity | lia].
Qed.

Lemma inv_ring_loop_spec bits a :
  0 < bits -> length a = nlimbsN bits -> Forall inW a ->
  forall fuel c x,
  1 <= c -> nlimbs bits <= c * 2 ^ Z.of_nat fuel ->
  length x = nlimbsN bits -> Forall inW x ->
  (c < nlimbs bits -> canon bits x) ->
  cong1 (Z.min (64 * c) bits) (eval a) (eval x) ->
  exists r, inv_ring_loop fuel bits a x c = Val r /\
            length r = nlimbsN bits /\ Forall inW r /\ cong1 bits (eval a) (eval r).
Proof.
  intros Hpos Hla Hwa. pose proof (nlimbs_bounds bits Hpos) as Hnb.
  induction fuel as [|fuel IH]; intros c x Hc Hfuel Hlx Hwx Hcx Hcong.
  - (* no fuel left: the loop condition is already false *)
    cbn [Z.of_nat] in Hfuel. rewrite Z.pow_0_r, Z.mul_1_r in Hfuel.
    cbn [inv_ring_loop]. destruct (Z.ltb_spec c (nlimbs bits)); [lia|].
    exists x. rewrite Z.min_r in Hcong by lia. auto.
  - cbn [inv_ring_loop]. destruct (Z.ltb_spec c (nlimbs bits)) as [Hlt|Hge].
    + specialize (Hcx Hlt).
      rewrite from_i32_two by lia. cbn [obind].
      destruct (canon_uint_of_val bits 2 ltac:(lia)) as [Hc2 He2].
      { assert (2 ^ 1 < 2 ^ bits) by (apply Z.pow_lt_mono_r; lia). lia. }
      destruct (wrapping_mul_spec bits a x ltac:(lia) Hla Hlx Hwa Hwx) as (p & -> & Hcp & Hep).
      cbn [obind].
      pose proof (overflowing_sub_spec bits (uint_of bits 2) p ltac:(lia) Hc2 Hcp) as Hs.
      unfold Add.wrapping_sub.
      destruct (Add.overflowing_sub bits (uint_of bits 2) p) as [d fd]. cbn [fst].
      destruct Hs as (Hcd & Hed & _).
      destruct Hcd as (Hld & Hwd & Hrd).
      destruct (wrapping_mul_spec bits x d ltac:(lia) Hlx Hld Hwx Hwd) as (r & -> & Hcr & Her).
      cbn [obind].
      apply IH.
      * lia.
      * rewrite Nat2Z.inj_succ, Z.pow_succ_r in Hfuel by lia. lia.
      * apply Hcr.
      * apply Hcr.
      * intros _. exact Hcr.
      * rewrite Her, Hed, He2, Hep.
        rewrite step_mod by (apply pow2_pos; lia).
        apply cong1_mod_r; [lia|].
        rewrite Z.min_l in Hcong by lia.
        apply cong1_mono with (k := 2 * (64 * c)); [lia|].
        apply cong1_hensel; [lia | exact Hcong].
    + exists x. rewrite Z.min_r in Hcong by lia. auto.
Qed.

(* ---------- inv_ring ---------- *)
Lemma land1_odd x : (Z.land x 1 =? 0) = negb (Z.odd x).
Proof.
  change 1 with (Z.ones 1) at 1. rewrite Z.land_ones by lia. change (2 ^ 1) with 2.
  rewrite Zmod_odd. destruct (Z.odd x); reflexivity.
Qed.

Theorem inv_ring_spec bits a :
  0 <= bits -> canon bits a ->
  if (0 <? bits) && Z.odd (eval a)
  then exists x, inv_ring bits a = Val (Some x) /\ canon bits x /\
                 (eval a * eval x) mod 2 ^ bits = 1
  else inv_ring bits a = Val None.
Proof.
  intros H Ha. unfold inv_ring.
  destruct (Z.ltb_spec 0 bits) as [Hpos|Hz]; cbn [andb].
  2:{ assert (bits = 0) by lia. subst bits. reflexivity. }
  destruct (Z.eqb_spec bits 0); [lia|].
  destruct Ha as (Hla & Hwa & Hra).
  pose proof (nlimbs_pos bits Hpos) as Hn1. pose proof (nlimbsN_Z bits H) as HnZ.
  destruct a as [|a0 at_]; [cbn [length] in Hla; lia|].
  cbn [eval]. rewrite odd_low, land1_odd.
  destruct (Z.odd a0) eqn:Ho; cbn [negb]; [|reflexivity].
  destruct (inv64_spec a0 Ho) as (inv & -> & Hwi & Hci). cbn [obind].
  destruct (uZERO_words bits) as (Hlz & Hwz & Hez).
  destruct (uZERO bits) as [|z0 zt] eqn:Ez; [cbn [length] in Hlz; lia|].
  assert (Hz0 : z0 = 0 /\ eval zt = 0).
  { unfold uZERO, zero_limbs in Ez. destruct (nlimbsN bits); [discriminate|].
    cbn [repeat] in Ez. inversion Ez; subst. split; [reflexivity | apply eval_repeat0]. }
  destruct Hz0 as [-> Hezt]. inversion Hwz as [|? ? _ Hwzt]; subst.
  pose proof (nlimbs_bounds bits Hpos) as Hnb.
  destruct (inv_ring_loop_spec bits (a0 :: at_) Hpos Hla Hwa (nlimbsN bits) 1 (inv :: zt))
    as (r & -> & Hlr & Hwr & Hcr).
  - lia.
  - rewrite Z.mul_1_l, HnZ. pose proof (Z.pow_gt_lin_r 2 (nlimbs bits) ltac:(lia) ltac:(lia)). lia.
  - cbn [length] in *. lia.
  - constructor; assumption.
  - intros Hlt. apply mk_canon; [cbn [length] in *; lia | constructor; assumption|].
    cbn [eval]. rewrite Hezt. unfold inW in Hwi.
    assert (2 ^ 64 < 2 ^ bits) by (apply Z.pow_lt_mono_r; lia). rewrite B_pow in *. lia.
  - cbn [eval]. rewrite Hezt, Z.mul_0_r, Z.add_0_r. rewrite B_pow.
    apply cong1_low; [lia|]. apply cong1_mono with (k := 64); [lia | exact Hci].
  - cbn [obind]. destruct (masked_spec bits r Hpos Hlr Hwr) as [Hc Hev].
    exists (apply_mask bits r). split; [reflexivity|]. split; [exact Hc|].
    unfold apply_mask. rewrite Hev. apply cong1_to_mod; [lia|].
    apply cong1_mod_r; [lia | exact Hcr].
Qed.

(* ---------- Product ---------- *)
Lemma uONE_spec bits :
  0 < bits -> exists one, uONE bits = Val one /\ canon bits one /\ eval one = 1.
Proof.
  intros Hpos. unfold uONE, const_from_u64.
  destruct (Z.eqb_spec bits 0); [lia|]. cbn [orb].
  assert (H2 : 2 ^ 1 <= 2 ^ bits) by (apply Z.pow_le_mono_r; lia).
  destruct (Z.leb_spec (2 ^ bits) 1); [lia|]. rewrite andb_false_r.
  pose proof (nlimbs_pos bits Hpos). pose proof (nlimbsN_Z bits ltac:(lia)) as HnZ.
  destruct (nlimbsN bits) as [|k] eqn:Ek; [lia|]. cbn [zero_limbs repeat].
  assert (Hc : canon bits (1 :: repeat 0 k)).
  { apply mk_canon.
    - rewrite Ek. cbn [length]. now rewrite repeat_length.
    - constructor; [unfold inW; rewrite B_val; lia | apply Forall_inW_repeat0].
    - cbn [eval]. rewrite eval_repeat0. lia. }
  exists (1 :: repeat 0 k). split; [apply from_limbs_canon; [lia | exact Hc]|].
  split; [exact Hc|]. cbn [eval]. rewrite eval_repeat0. lia.
Qed.

Lemma fold_mul_spec bits xs : forall acc,
  0 <= bits -> Forall (canon bits) xs -> canon bits acc ->
  exists r, fold_mul bits xs acc = Val r /\ canon bits r /\
            eval r = (eval acc * fold_right Z.mul 1 (map eval xs)) mod 2 ^ bits.
Proof.
  induction xs as [|x xs IH]; intros acc H Hxs Hacc; cbn [fold_mul map fold_right].
  - exists acc. split; [reflexivity|]. split; [exact Hacc|].
    pose proof (canon_range bits acc H Hacc). rewrite Z.mul_1_r, Z.mod_small; lia.
  - inversion Hxs as [|? ? Hx Hxs']; subst.
    destruct Hacc as (Hla & Hwa & Hra). destruct Hx as (Hlx & Hwx & Hrx).
    destruct (wrapping_mul_spec bits acc x H Hla Hlx Hwa Hwx) as (r & -> & Hcr & Her).
    cbn [obind]. destruct (IH r H Hxs' Hcr) as (r' & -> & Hcr' & Her').
    exists r'. split; [reflexivity|]. split; [exact Hcr'|].
    rewrite Her', Her. pose proof (pow2_pos bits H).
    rewrite Z.mul_mod_idemp_l by lia. f_equal. ring.
Qed.

Theorem product_spec bits xs :
  0 <= bits -> Forall (canon bits) xs ->
  exists r, product bits xs = Val r /\ canon bits r /\
            eval r = (fold_right Z.mul 1 (map eval xs)) mod 2 ^ bits.
Proof.
  intros H Hxs. unfold product. destruct (Z.eqb_spec bits 0) as [->|N].
  - exists (uZERO 0). split; [reflexivity|]. destruct (canon_uZERO 0 ltac:(lia)) as [Hc He].
    split; [exact Hc|]. rewrite He, Z.pow_0_r, Z.mod_1_r. reflexivity.
  - destruct (uONE_spec bits ltac:(lia)) as (one & -> & Hc1 & He1). cbn [obind].
    destruct (fold_mul_spec bits xs one H Hxs Hc1) as (r & Hr & Hcr & Her).
    exists r. split; [exact Hr|]. split; [exact Hcr|]. rewrite Her, He1, Z.mul_1_l. reflexivity.
Qed.
