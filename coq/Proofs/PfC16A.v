(* Proofs/PfC16A.v — C16, group A: every encoder of serde_json, bincode, rlp, alloy-rlp and
   fastrlp 0.3/0.4 emits the reference encoding of Spec/FmtA.v, length() is the byte count,
   and decoding the encoding returns the value.  All widths, all canonical values. *)
From Coq Require Import ZArith List Bool Lia.
From RV.Model Require Import Base Word Bytes BaseConv CodecA.
From RV.Spec Require Import FmtA.
From RV.Proofs Require Import BaseFacts PfBytes PfCodecA.
From RV.Proofs Require PfC08.
From RV.Run Require Import RunC16A.
Import ListNotations.
Local Open Scope Z_scope.

Lemma rlp_string_isbyte p : Forall isbyte p -> lenZ p < 2 ^ 64 -> Forall isbyte (rlp_string p).
Proof.
  intros Hp Hl. rewrite rlp_string_eq.
  destruct ((lenZ p =? 1) && (hd 0 p <? 128)); [assumption|].
  apply Forall_app. split; [|assumption]. unfold rlp_prefix. pose proof (lenZ_nonneg p).
  destruct (Z.ltb_spec (lenZ p) 56).
  - repeat constructor; unfold isbyte; lia.
  - constructor; [|apply be_min_isbyte]. rewrite PfC08.ndigits_bytelen.
    assert (bytelen (lenZ p) <= 8) by (apply bytelen_le; [lia|]; change (256 ^ 8) with (2 ^ 64); lia).
    pose proof (bytelen_nonneg (lenZ p) ltac:(lia)). unfold isbyte. lia.
Qed.

Lemma bytelen_usize bits v : 0 <= bits < 2 ^ 64 -> 0 <= v < 2 ^ bits -> bytelen v < 2 ^ 64.
Proof.
  intros Hb Hv. pose proof (bytelen_fits bits v ltac:(lia) Hv).
  assert (nbytes bits < 2 ^ 64) by (unfold nbytes; Z.div_mod_to_equations; lia). lia.
Qed.

Lemma rlp_uint_isbyte bits v : 0 <= bits < 2 ^ 64 -> 0 <= v < 2 ^ bits -> Forall isbyte (rlp_uint v).
Proof.
  intros Hb Hv. apply rlp_string_isbyte; [apply be_min_isbyte|].
  rewrite lenZ_be_min by lia. now apply (bytelen_usize bits).
Qed.

Lemma alloy_decode_exact bits v : 0 <= bits -> 0 <= v < 2 ^ bits -> bytelen v < 2 ^ 64 ->
  alloy_rlp_decode bits (rlp_uint v) = Val (Ok (uint_of bits v, lenZ (rlp_uint v))).
Proof. intros. rewrite <- (app_nil_r (rlp_uint v)) at 1. now apply alloy_rlp_decode_complete. Qed.
Lemma rlp_decode_exact bits v : 0 <= bits -> 0 <= v < 2 ^ bits -> bytelen v < 2 ^ 64 ->
  CodecA.rlp_decode bits (rlp_uint v) = Val (Ok (uint_of bits v)).
Proof. intros. rewrite <- (app_nil_r (rlp_uint v)). apply rlp_decode_complete; auto. Qed.
Lemma bincode_de_exact bits v : 0 <= bits < 2 ^ 64 -> 0 <= v < 2 ^ bits ->
  CodecA.bincode_de bits (bincode_uint bits v) = Val (Some (uint_of bits v)).
Proof. intros. rewrite <- (app_nil_r (bincode_uint bits v)). now apply bincode_de_complete. Qed.

Lemma prim_tok_ref w a : prim_tok w a = ref_prim w (eval a).
Proof. reflexivity. Qed.

Lemma encode_ok v a : expect (Val [TY (rlp_uint v); prim_tok 64 a; prim_tok 128 a])
                             [TY (rlp_uint v); ref_prim 64 (eval a); ref_prim 128 (eval a)] = true.
Proof. rewrite !prim_tok_ref. apply PfC08.expect_refl. Qed.

Theorem C16A_all c : wf c -> spec c (run c) = true.
Proof.
  destruct c as [bits a|bits a|bits a|bits a|bits a|bits a|bits a|bits a|bits a|bits a|bits a
                 |bits a|bits a|bits a|bits a|bits a|bits a|bits a|bits a|bits a|bits a];
    cbn [wf arg]; intros (Hb & Hc);
    assert (Hb0 : 0 <= bits) by lia;
    pose proof (canon_range bits a Hb0 Hc) as Hv;
    pose proof (bytelen_usize bits (eval a) Hb Hv) as Hk;
    cbn [spec arg run]; unfold run_arlp_encode, run_arlp_length.
  - (* rlp_encode *) rewrite rlp_encode_spec by assumption. cbn [obind]. apply encode_ok.
  - (* rlp_roundtrip *) rewrite rlp_encode_spec by assumption. cbn [obind].
    rewrite rlp_decode_exact by assumption. cbn [obind rlpd_toks].
    rewrite canon_uint_of by assumption. apply PfC08.expect_refl.
  - (* bits_rlp_encode *) rewrite bits_rlp_encode_spec by assumption. apply PfC08.expect_refl.
  - (* bits_rlp_roundtrip *) rewrite PfCodecA.bits_rlp_roundtrip by assumption. apply PfC08.expect_refl.
  - (* alloy_rlp_encode *) rewrite arlp_encode_spec by assumption. cbn [obind]. apply encode_ok.
  - (* alloy_rlp_length *) rewrite arlp_length_spec by assumption. cbn [obind].
    rewrite Z.eqb_refl. cbn [andb]. apply Z.leb_le. unfold max_len. now apply arlp_max_len_spec.
  - (* alloy_rlp_roundtrip *) rewrite arlp_encode_spec by assumption. cbn [obind].
    rewrite alloy_decode_exact by assumption. cbn [obind arlp_toks].
    rewrite canon_uint_of by assumption. apply PfC08.expect_refl.
  - rewrite arlp_encode_spec by assumption. cbn [obind]. apply encode_ok.
  - rewrite arlp_length_spec by assumption. cbn [obind].
    rewrite Z.eqb_refl. cbn [andb]. apply Z.leb_le. unfold max_len. now apply arlp_max_len_spec.
  - rewrite arlp_encode_spec by assumption. cbn [obind].
    rewrite fastrlp_decode_eq by now apply (rlp_uint_isbyte bits).
    rewrite alloy_decode_exact by assumption. cbn [obind arlp_toks].
    rewrite canon_uint_of by assumption. apply PfC08.expect_refl.
  - rewrite arlp_encode_spec by assumption. cbn [obind]. apply encode_ok.
  - rewrite arlp_length_spec by assumption. cbn [obind].
    rewrite Z.eqb_refl. cbn [andb]. apply Z.leb_le. unfold max_len. now apply arlp_max_len_spec.
  - rewrite arlp_encode_spec by assumption. cbn [obind].
    rewrite fastrlp_decode_eq by now apply (rlp_uint_isbyte bits).
    rewrite alloy_decode_exact by assumption. cbn [obind arlp_toks].
    rewrite canon_uint_of by assumption. apply PfC08.expect_refl.
  - (* serde_json_ser *) rewrite serde_json_ser_spec by assumption. apply PfC08.expect_refl.
  - (* serde_json_roundtrip *) rewrite serde_json_ser_spec by assumption. cbn [obind].
    rewrite PfCodecA.serde_json_roundtrip by assumption. apply PfC08.expect_refl.
  - (* bits_serde_json_ser *) unfold CodecA.bits_serde_json_ser.
    rewrite serialize_human_full_spec by assumption. apply PfC08.expect_refl.
  - (* bits_serde_json_roundtrip *) rewrite PfCodecA.bits_serde_json_roundtrip by assumption.
    apply PfC08.expect_refl.
  - (* bincode_ser *) rewrite bincode_ser_spec, lenZ_bincode_uint by assumption. apply PfC08.expect_refl.
  - (* bincode_roundtrip *) rewrite bincode_ser_spec by assumption.
    rewrite bincode_de_exact by assumption. cbn [obind serde_toks].
    rewrite canon_uint_of by assumption. apply PfC08.expect_refl.
  - rewrite bincode_ser_spec by assumption. apply PfC08.expect_refl.
  - rewrite bincode_ser_spec by assumption.
    rewrite bincode_de_exact by assumption. cbn [obind serde_toks].
    rewrite canon_uint_of by assumption. apply PfC08.expect_refl.
Qed.
