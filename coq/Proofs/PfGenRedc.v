(* Proofs/PfGenRedc.v — source tie for algorithms::mul_redc (src/algorithms/mul_redc.rs): the
   definition that tools_rs2v.py generates from the current text (const-generic arrays, the row
   loop `for b in b`, the inner loop `for i in 0..N` that reads index i and writes index i-1,
   `result[N-1] = value`, the carry threshold) equals Model/Redc.v mul_redc, whose loops are
   structural recursions over the limb lists.  reduce1_carry (zip iterators) is not translated:
   the generated code calls the model function. *)
From Coq Require Import ZArith List Bool Lia.
From RV.Model Require Import Base Word Add Redc.
From RV.Gen Require Import Prim Scalar.
From RV.Proofs Require Import BaseFacts PfGenScalar PfGenAdd PfRedc.
Import ListNotations.
Local Open Scope Z_scope.

(* the two loop bodies of the generated code, named (g_mul_redc_unfold checks that they are it) *)
Definition mr_ibody (a b modulus : list Z) (i_b inv : Z)
  : Z -> (Z * Z * Z * list Z) -> outcome (Z * Z * Z * list Z) :=
  fun i t_11 => let '(carry_1, m, carry_2, result) := t_11 in
    do t_2 <- idx a i ; do t_3 <- idx b i_b ; do t_4 <- idx result i ;
    let '(value, next_carry) := (g_carrying_mul_add t_2 t_3 t_4 carry_1) in
    let carry_1 := next_carry in
    do m <- (if (i =? 0) then ( let m := (wrap (value * inv)) in Val m) else (Val m)) ;
    do t_6 <- idx modulus i ; let '(value, next_carry) := (g_carrying_mul_add t_6 m value carry_2) in
    let carry_2 := next_carry in
    do result <- (if (0 <? i) then ( let t_8 := value in do t_7 <- chk64 (i - 1) ; do _ <- idx result t_7 ;
                                     let result := upd result t_7 t_8 in Val result)
                  else ( if negb (value =? 0) then DebugPanic else Val result)) ;
    Val (carry_1, m, carry_2, result).

Definition mr_obody (N : Z) (a b modulus : list Z) (inv : Z)
  : Z -> (list Z * bool) -> outcome (list Z * bool) :=
  fun i_b t_18 => let '(result, carry) := t_18 in let m := 0 in
    let carry_1 := 0 in
    let carry_2 := 0 in
    do t_10 <- for_range 0 N (carry_1, m, carry_2, result) (mr_ibody a b modulus i_b inv) ;
    let '(carry_1, m, carry_2, result) := t_10 in
    let '(value, next_carry) := (g_carrying_add carry_1 carry_2 carry) in
    let t_13 := value in do t_12 <- chk64 (N - 1) ; do _ <- idx result t_12 ; let result := upd result t_12 t_13 in
    do t_14 <- chk64 (N - 1) ; do t_15 <- idx modulus t_14 ;
    do carry <- (if (9223372036854775807 <=? t_15) then ( let carry := next_carry in Val carry)
                 else ( if negb ((negb next_carry)) then DebugPanic else Val carry)) ;
    Val (result, carry).

Lemma g_mul_redc_unfold N a b modulus inv :
  g_mul_redc N a b modulus inv =
  (do t_1 <- idx modulus 0 ; if negb (((wrap (inv * t_1))) =? ((B - 1))) then DebugPanic else
   if negb (match (Add.limbs_cmp a modulus), Lt with Lt, Lt | Eq, Eq | Gt, Gt => true | _, _ => false end) then DebugPanic else
   if negb (match (Add.limbs_cmp b modulus), Lt with Lt, Lt | Eq, Eq | Gt, Gt => true | _, _ => false end) then DebugPanic else
   do t_17 <- for_range 0 (lenZ b) (repeat 0 (Z.to_nat N), false) (mr_obody N a b modulus inv) ;
   let '(result, carry) := t_17 in
   Val (Redc.reduce1_carry result modulus carry)).
Proof. reflexivity. Qed.

Lemma wrap_w64 x : wrap x = w64 x.
Proof. rewrite w64_spec. reflexivity. Qed.

Lemma idx_app_at (pre : list Z) x post i : i = Z.of_nat (length pre) -> idx (pre ++ x :: post) i = Val x.
Proof. intros ->. apply idx_app_mid. Qed.
Lemma upd_app_at (pre : list Z) x post i v : i = Z.of_nat (length pre) ->
  upd (pre ++ x :: post) i v = pre ++ v :: post.
Proof. intros ->. apply upd_app_mid. Qed.

Lemma mr_inner_length a : forall md res bi inv m c1 c2 l x y,
  length a = length md -> length a = length res ->
  mr_inner false a md res bi inv m c1 c2 = Val (l, x, y) -> length l = length a.
Proof.
  induction a as [|a0 a IH]; intros md res bi inv m c1 c2 l x y Hm Hr E.
  - cbn in E. injection E as <- _ _. reflexivity.
  - destruct md as [|m0 md]; [discriminate|]. destruct res as [|r0 res]; [discriminate|].
    cbn [mr_inner] in E.
    destruct (carrying_mul_add a0 bi r0 c1) as [v1 c1'].
    destruct (carrying_mul_add m0 m v1 c2) as [v2 c2'].
    destruct (mr_inner false a md res bi inv m c1' c2') as [[[l' x'] y']| | | |] eqn:E'; cbn [obind] in E; try discriminate.
    injection E as <- _ _. cbn [length]. f_equal.
    apply (IH md res bi inv m c1' c2' l' x' y'); [cbn in Hm; lia | cbn in Hr; lia | exact E'].
Qed.

(* the inner loop from index >= 1 on: it reads index i and overwrites index i-1 *)
Lemma mr_inner_rest bfull i_b bi inv a : forall md res pa pm l x c1 m c2,
  idx bfull i_b = Val bi ->
  length a = length md -> length a = length res ->
  length pa = S (length l) -> length pm = S (length l) ->
  Z.of_nat (length l + length a) < B ->
  for_loop (length a) (Z.of_nat (S (length l))) (c1, m, c2, l ++ x :: res)
           (mr_ibody (pa ++ a) bfull (pm ++ md) i_b inv)
  = (do p <- mr_inner false a md res bi inv m c1 c2 ;
     let '(l', c1', c2') := p in Val (c1', m, c2', l ++ l' ++ [last (x :: res) 0])).
Proof.
  induction a as [|a0 a IH]; intros md res pa pm l x c1 m c2 Hb Hm Hr Hpa Hpm Hlen.
  - destruct md; [|discriminate]. destruct res; [|discriminate].
    cbn [length for_loop mr_inner obind last app]. reflexivity.
  - destruct md as [|m0 md]; [discriminate|]. destruct res as [|r0 res]; [discriminate|].
    cbn [length] in *. cbn [for_loop mr_inner].
    unfold mr_ibody at 1. cbv beta iota.
    rewrite (idx_app_at pa a0 a) by lia. cbn [obind]. rewrite Hb. cbn [obind].
    replace (l ++ x :: r0 :: res) with ((l ++ [x]) ++ r0 :: res) by (rewrite <- app_assoc; reflexivity).
    rewrite (idx_app_at (l ++ [x]) r0 res) by (rewrite app_length; cbn [length]; lia). cbn [obind].
    rewrite g_carrying_mul_add_eq.
    destruct (carrying_mul_add a0 bi r0 c1) as [v1 c1'].
    replace (Z.of_nat (S (length l)) =? 0) with false by lia. cbn [obind].
    rewrite (idx_app_at pm m0 md) by lia. cbn [obind].
    rewrite g_carrying_mul_add_eq.
    destruct (carrying_mul_add m0 m v1 c2) as [v2 c2'].
    replace (0 <? Z.of_nat (S (length l))) with true by lia.
    rewrite chk64_ok by lia. cbn [obind].
    rewrite <- app_assoc. cbn [app].
    rewrite (idx_app_at l x (r0 :: res)) by lia. cbn [obind].
    rewrite (upd_app_at l x (r0 :: res)) by lia.
    replace (l ++ v2 :: r0 :: res) with ((l ++ [v2]) ++ r0 :: res) by (rewrite <- app_assoc; reflexivity).
    replace (pa ++ a0 :: a) with ((pa ++ [a0]) ++ a) by (rewrite <- app_assoc; reflexivity).
    replace (pm ++ m0 :: md) with ((pm ++ [m0]) ++ md) by (rewrite <- app_assoc; reflexivity).
    replace (Z.of_nat (S (length l)) + 1) with (Z.of_nat (S (length (l ++ [v2]))))
      by (rewrite app_length; cbn [length]; lia).
    rewrite (IH md res (pa ++ [a0]) (pm ++ [m0]) (l ++ [v2]) r0 c1' m c2' Hb
               ltac:(lia) ltac:(lia)
               ltac:(rewrite !app_length; cbn [length]; lia) ltac:(rewrite !app_length; cbn [length]; lia)
               ltac:(rewrite app_length; cbn [length]; lia)).
    destruct (mr_inner false a md res bi inv m c1' c2') as [[[l' x'] y']| | | |]; cbn [obind]; try reflexivity.
    rewrite <- !app_assoc. cbn [app]. reflexivity.
Qed.

Lemma last_app_single (l : list Z) v : last (l ++ [v]) 0 = v.
Proof. apply last_last. Qed.

Lemma upd_last_elem (l : list Z) x v : upd (l ++ [x]) (Z.of_nat (length l)) v = l ++ [v].
Proof. apply upd_app_mid. Qed.

(* one row: the generated body of `for b in b` = Redc.mr_row *)
Lemma mr_obody_row N a b md inv k bi res carry :
  (1 <= length a)%nat -> N = Z.of_nat (length a) -> N < B ->
  length md = length a -> length res = length a ->
  idx b (Z.of_nat k) = Val bi ->
  mr_obody N a b md inv (Z.of_nat k) (res, carry) = mr_row a md inv (last md 0) (res, carry) bi.
Proof.
  intros Hn HN HB Hm Hr Hb.
  destruct a as [|a0 a]; [cbn in Hn; lia|]. destruct md as [|m0 md]; [discriminate|].
  destruct res as [|r0 res]; [discriminate|]. cbn [length] in *.
  unfold mr_obody, mr_row. cbv beta iota zeta. unfold for_range.
  replace (Z.to_nat (N - 0)) with (S (length a)) by lia. cbn [for_loop mr_inner].
  unfold mr_ibody at 1. cbv beta iota.
  change (idx (a0 :: a) 0) with (Val a0 : outcome Z). cbn [obind]. rewrite Hb. cbn [obind].
  change (idx (r0 :: res) 0) with (Val r0 : outcome Z). cbn [obind].
  rewrite g_carrying_mul_add_eq.
  destruct (carrying_mul_add a0 bi r0 0) as [v1 c1'].
  change (0 =? 0) with true. cbv beta iota zeta. cbn [obind].
  change (idx (m0 :: md) 0) with (Val m0 : outcome Z). cbn [obind].
  rewrite g_carrying_mul_add_eq. rewrite wrap_w64.
  destruct (carrying_mul_add m0 (w64 (v1 * inv)) v1 0) as [v2 c2'].
  change (0 <? 0) with false. cbv beta iota.
  destruct (v2 =? 0); cbn [negb obind]; [|reflexivity].
  change (0 + 1) with (Z.of_nat (S (length (@nil Z)))).
  change (r0 :: res) with ([] ++ r0 :: res) at 1.
  change (a0 :: a) with ([a0] ++ a). change (m0 :: md) with ([m0] ++ md) at 1.
  rewrite (mr_inner_rest b (Z.of_nat k) bi inv a md res [a0] [m0] [] r0 c1' (w64 (v1 * inv)) c2' Hb
             ltac:(lia) ltac:(lia) eq_refl eq_refl ltac:(cbn [length]; lia)).
  destruct (mr_inner false a md res bi inv (w64 (v1 * inv)) c1' c2') as [[[l' x'] y']| | | |] eqn:Ei;
    cbn [obind app]; try reflexivity.
  pose proof (mr_inner_length a md res bi inv _ _ _ _ _ _ ltac:(lia) ltac:(lia) Ei) as Hl.
  rewrite g_carrying_add_eq.
  destruct (carrying_add x' y' carry) as [value next_carry].
  rewrite chk64_ok by lia. cbn [obind].
  replace (N - 1) with (Z.of_nat (length l')) by lia.
  rewrite idx_app_mid. cbn [obind]. rewrite upd_last_elem.
  (* modulus[N - 1] = last md *)
  cbn [app].
  assert (Hlast : idx (m0 :: md) (Z.of_nat (length l')) = Val (last (m0 :: md) 0)).
  { destruct (exists_last (l := m0 :: md) ltac:(discriminate)) as (md' & ml & E).
    rewrite E. rewrite last_app_single.
    apply idx_app_at. assert (length (m0 :: md) = length (md' ++ [ml])) by (rewrite E; reflexivity).
    rewrite app_length in H. cbn [length] in H. lia. }
  rewrite Hlast. cbn [obind].
  change 9223372036854775807 with REDC_THRESHOLD. cbn [app].
  destruct (REDC_THRESHOLD <=? last (m0 :: md) 0); cbn [obind]; [reflexivity|].
  destruct next_carry; reflexivity.
Qed.

Lemma mr_row_length a md inv top res carry bi res' carry' :
  (1 <= length a)%nat -> length md = length a -> length res = length a ->
  mr_row a md inv top (res, carry) bi = Val (res', carry') -> length res' = length a.
Proof.
  intros Hn Hm Hr E. unfold mr_row in E.
  destruct a as [|a0 a]; [cbn in Hn; lia|]. destruct md as [|m0 md]; [discriminate|].
  destruct res as [|r0 res]; [discriminate|]. cbn [mr_inner length] in *.
  destruct (carrying_mul_add a0 bi r0 0) as [v1 c1'].
  destruct (carrying_mul_add m0 (w64 (v1 * inv)) v1 0) as [v2 c2'].
  destruct (v2 =? 0); [|discriminate].
  destruct (mr_inner false a md res bi inv (w64 (v1 * inv)) c1' c2') as [[[l' x'] y']| | | |] eqn:Ei;
    cbn [obind] in E; try discriminate.
  pose proof (mr_inner_length a md res bi inv _ _ _ _ _ _ ltac:(lia) ltac:(lia) Ei) as Hl.
  destruct (carrying_add x' y' carry) as [value next_carry].
  destruct (REDC_THRESHOLD <=? top).
  - injection E as <- _. rewrite app_length. cbn [length]. lia.
  - destruct next_carry; [discriminate|]. injection E as <- _. rewrite app_length. cbn [length]. lia.
Qed.

(* the row loop `for b in b` = Redc.mr_rows *)
Lemma mr_rows_loop N a bfull md inv bs : forall pre res carry,
  bfull = pre ++ bs ->
  (1 <= length a)%nat -> N = Z.of_nat (length a) -> N < B ->
  length md = length a -> length res = length a ->
  for_loop (length bs) (Z.of_nat (length pre)) (res, carry) (mr_obody N a bfull md inv)
  = mr_rows a md inv (last md 0) bs (res, carry).
Proof.
  induction bs as [|bi bs IH]; intros pre res carry Eb Hn HN HB Hm Hr; [reflexivity|].
  cbn [length for_loop mr_rows].
  rewrite (mr_obody_row N a bfull md inv (length pre) bi res carry Hn HN HB Hm Hr
             ltac:(rewrite Eb; apply idx_app_mid)).
  destruct (mr_row a md inv (last md 0) (res, carry) bi) as [[res' carry']| | | |] eqn:Er; cbn [obind]; try reflexivity.
  pose proof (mr_row_length _ _ _ _ _ _ _ _ _ Hn Hm Hr Er) as Hr'.
  replace (Z.of_nat (length pre) + 1) with (Z.of_nat (length (pre ++ [bi])))
    by (rewrite app_length; cbn [length]; lia).
  apply IH; auto. rewrite <- app_assoc. exact Eb.
Qed.

Theorem g_mul_redc_eq N a b md inv :
  (1 <= length a)%nat -> N = Z.of_nat (length a) -> N < B ->
  length md = length a ->
  g_mul_redc N a b md inv = Redc.mul_redc a b md inv.
Proof.
  intros Hn HN HB Hm. rewrite g_mul_redc_unfold. unfold Redc.mul_redc.
  destruct md as [|m0 md]; [cbn in Hm; lia|].
  change (idx (m0 :: md) 0) with (Val m0 : outcome Z). cbn [obind].
  rewrite wrap_w64.
  destruct (w64 (inv * m0) =? B - 1); cbn [negb]; [|reflexivity].
  unfold is_less.
  destruct (limbs_cmp a (m0 :: md)); cbn [negb]; try reflexivity.
  destruct (limbs_cmp b (m0 :: md)); cbn [negb]; try reflexivity.
  unfold for_range, lenZ. replace (Z.to_nat (Z.of_nat (length b) - 0)) with (length b) by lia.
  replace (Z.to_nat N) with (length (m0 :: md)) by lia.
  pose proof (mr_rows_loop N a b (m0 :: md) inv b [] (repeat 0 (length (m0 :: md))) false eq_refl Hn HN HB Hm
             ltac:(rewrite repeat_length; exact Hm)) as E.
  change (Z.of_nat (length (@nil Z))) with 0 in E. rewrite E.
  destruct (mr_rows a (m0 :: md) inv (last (m0 :: md) 0) b (repeat 0 (length (m0 :: md)), false))
    as [[res carry]| | | |]; reflexivity.
Qed.

(* ====================== square_redc ====================== *)
From RV.Proofs Require PfGenLimbs.

Definition sq_cross_body (a : list Z) (i : Z)
  : Z -> (list Z * Z * bool) -> outcome (list Z * Z * bool) :=
  fun j t_12 => let '(result, carry_lo, carry_hi) := t_12 in
    do t_7 <- idx a i ; do t_8 <- idx a j ; do t_9 <- idx result j ;
    let '(value, next_carry_lo, next_carry_hi) := (g_carrying_double_mul_add t_7 t_8 t_9 carry_lo carry_hi) in
    let t_10 := value in do _ <- idx result j ; let result := upd result j t_10 in
    let carry_lo := next_carry_lo in
    let carry_hi := next_carry_hi in
    Val (result, carry_lo, carry_hi).

Definition sq_reduce_body (modulus : list Z) (m : Z)
  : Z -> (list Z * Z) -> outcome (list Z * Z) :=
  fun j t_21 => let '(result, carry) := t_21 in
    do t_16 <- idx modulus j ; do t_17 <- idx result j ;
    let '(value, next_carry) := (g_carrying_mul_add t_16 m t_17 carry) in
    let t_19 := value in do t_18 <- chk64 (j - 1) ; do _ <- idx result t_18 ; let result := upd result t_18 t_19 in
    let carry := next_carry in
    Val (result, carry).

Definition sq_row_body (N : Z) (a modulus : list Z) (inv : Z)
  : Z -> (list Z * Z) -> outcome (list Z * Z) :=
  fun i t_30 => let '(result, carry_outer) := t_30 in
    do t_2 <- idx a i ; do t_3 <- idx a i ; do t_4 <- idx result i ;
    let '(value, carry_lo) := (g_carrying_mul_add t_2 t_3 t_4 0) in
    let carry_hi := false in
    let t_5 := value in do _ <- idx result i ; let result := upd result i t_5 in
    do t_6 <- chk64 (i + 1) ;
    do t_11 <- for_range t_6 N (result, carry_lo, carry_hi) (sq_cross_body a i) ;
    let '(result, carry_lo, carry_hi) := t_11 in
    do t_13 <- idx result 0 ; let m := (wrap (t_13 * inv)) in
    do t_14 <- idx modulus 0 ; do t_15 <- idx result 0 ;
    let '(value, carry) := (g_carrying_mul_add m t_14 t_15 0) in
    if negb (value =? 0) then DebugPanic else
    do t_20 <- for_range 1 N (result, carry) (sq_reduce_body modulus m) ;
    let '(result, carry) := t_20 in
    do t_22 <- chk64 (N - 1) ; do t_23 <- idx modulus t_22 ;
    do t_28 <- (if (4611686018427387903 <=? t_23) then (
        let wide := (wrap128 (((wrap128 (((wrap128 (carry_outer + carry_lo))) + ((shl128 ((b2z carry_hi)) 64))))) + carry)) in
        let t_25 := (wrap wide) in do t_24 <- chk64 (N - 1) ; do _ <- idx result t_24 ; let result := upd result t_24 t_25 in
        let carry_outer := (wrap ((shr128 wide 64))) in
        if negb ((carry_outer <=? 2)) then DebugPanic else
        Val (result, carry_outer))
      else ( if negb ((negb carry_hi)) then DebugPanic else
        if negb (carry_outer =? 0) then DebugPanic else
        let '(value, carry) := (ov_add carry_lo carry) in
        if negb ((negb carry)) then DebugPanic else
        let t_27 := value in do t_26 <- chk64 (N - 1) ; do _ <- idx result t_26 ; let result := upd result t_26 t_27 in
        Val (result, carry_outer))) ;
    let '(result, carry_outer) := t_28 in
    Val (result, carry_outer).

Lemma g_square_redc_unfold N a modulus inv :
  g_square_redc N a modulus inv =
  (do t_1 <- idx modulus 0 ; if negb (((wrap (inv * t_1))) =? ((B - 1))) then DebugPanic else
   if negb (match (Add.limbs_cmp a modulus), Lt with Lt, Lt | Eq, Eq | Gt, Gt => true | _, _ => false end) then DebugPanic else
   do t_29 <- for_range 0 N (repeat 0 (Z.to_nat N), 0) (sq_row_body N a modulus inv) ;
   let '(result, carry_outer) := t_29 in
   if negb ((carry_outer <=? 1)) then DebugPanic else
   Val (Redc.reduce1_carry result modulus ((0 <? carry_outer)))).
Proof. reflexivity. Qed.

Lemma sq_reduce_length md : forall res m c, length md = length res ->
  length (fst (sq_reduce md res m c)) = length md.
Proof.
  induction md as [|mj md IH]; intros res m c H; [reflexivity|].
  destruct res as [|rj res]; [discriminate|]. cbn [sq_reduce].
  destruct (carrying_mul_add mj m rj c) as [v c'].
  specialize (IH res m c' ltac:(cbn in H; lia)).
  destruct (sq_reduce md res m c') as [l cf]. cbn [fst length] in *. lia.
Qed.

(* `for j in 1..N { .. result[j - 1] = value }` : reads index j, overwrites index j-1 *)
Lemma sq_reduce_loop m md : forall res pm l x c,
  length md = length res -> length pm = S (length l) -> Z.of_nat (length l + length md) < B ->
  for_loop (length md) (Z.of_nat (S (length l))) (l ++ x :: res, c) (sq_reduce_body (pm ++ md) m)
  = Val (l ++ fst (sq_reduce md res m c) ++ [last (x :: res) 0], snd (sq_reduce md res m c)).
Proof.
  induction md as [|mj md IH]; intros res pm l x c Hr Hpm Hlen.
  - destruct res; [|discriminate]. reflexivity.
  - destruct res as [|rj res]; [discriminate|]. cbn [length] in *. cbn [for_loop sq_reduce].
    unfold sq_reduce_body at 1. cbv beta iota.
    rewrite (idx_app_at pm mj md) by lia. cbn [obind].
    replace (l ++ x :: rj :: res) with ((l ++ [x]) ++ rj :: res) by (rewrite <- app_assoc; reflexivity).
    rewrite (idx_app_at (l ++ [x]) rj res) by (rewrite app_length; cbn [length]; lia). cbn [obind].
    rewrite g_carrying_mul_add_eq.
    destruct (carrying_mul_add mj m rj c) as [v c'].
    rewrite chk64_ok by lia. cbn [obind].
    rewrite <- app_assoc. cbn [app].
    rewrite (idx_app_at l x (rj :: res)) by lia. cbn [obind].
    rewrite (upd_app_at l x (rj :: res)) by lia.
    replace (l ++ v :: rj :: res) with ((l ++ [v]) ++ rj :: res) by (rewrite <- app_assoc; reflexivity).
    replace (pm ++ mj :: md) with ((pm ++ [mj]) ++ md) by (rewrite <- app_assoc; reflexivity).
    replace (Z.of_nat (S (length l)) + 1) with (Z.of_nat (S (length (l ++ [v]))))
      by (rewrite app_length; cbn [length]; lia).
    rewrite (IH res (pm ++ [mj]) (l ++ [v]) rj c' ltac:(lia)
               ltac:(rewrite !app_length; cbn [length]; lia) ltac:(rewrite app_length; cbn [length]; lia)).
    destruct (sq_reduce md res m c') as [l' cf]. cbn [fst snd].
    rewrite <- !app_assoc. cbn [app]. reflexivity.
Qed.

(* `for j in (i + 1)..N` : the cross terms, touching only index j *)
Definition sq_cross_step (a : list Z) (ai : Z) (k : nat) (x : Z) (s : Z * bool) : Z * (Z * bool) :=
  let '(v, clo, chi) := carrying_double_mul_add ai (nth k a 0) x (fst s) (snd s) in (v, (clo, chi)).

Lemma sq_cross_iloop a ai l : forall k clo chi, (k + length l <= length a)%nat ->
  PfGenLimbs.iloop (Z * bool) (sq_cross_step a ai) k l (clo, chi)
  = (let '(l', clo', chi') := sq_cross ai (skipn k a) l clo chi in (l', (clo', chi'))).
Proof.
  induction l as [|x l IH]; intros k clo chi H.
  - cbn [PfGenLimbs.iloop sq_cross]. destruct (skipn k a); reflexivity.
  - cbn [length] in H. rewrite PfGenLimbs.skipn_nth_cons by lia. cbn [PfGenLimbs.iloop sq_cross].
    change (sq_cross_step a ai k x (clo, chi))
      with (let '(v, clo', chi') := carrying_double_mul_add ai (nth k a 0) x clo chi in (v, (clo', chi'))).
    destruct (carrying_double_mul_add ai (nth k a 0) x clo chi) as [[v clo'] chi'].
    rewrite (IH (S k)) by lia.
    destruct (sq_cross ai (skipn (S k) a) l clo' chi') as [[l' c1] c2]. reflexivity.
Qed.

Lemma sq_cross_loop a i ai pre post clo chi :
  idx a i = Val ai -> (length pre + length post <= length a)%nat ->
  for_loop (length post) (Z.of_nat (length pre)) (pre ++ post, clo, chi) (sq_cross_body a i)
  = (let '(l', clo', chi') := sq_cross ai (skipn (length pre) a) post clo chi in Val (pre ++ l', clo', chi')).
Proof.
  intros Hai Hlen.
  pose proof (PfGenLimbs.idx_loop (list Z * Z * bool) (Z * bool) (fun l s => (l, fst s, snd s))
                (sq_cross_step a ai) (fun _ => True) (fun _ => True) (length a) (sq_cross_body a i)) as L.
  destruct (L ltac:(
    intros pre0 x post0 s Hk _ _; unfold sq_cross_body; cbv beta iota;
    rewrite Hai; cbn [obind]; rewrite PfGenLimbs.idx_nth by exact Hk; cbn [obind];
    rewrite idx_app_mid; cbn [obind]; rewrite g_carrying_double_mul_add_eq;
    unfold sq_cross_step;
    destruct (carrying_double_mul_add ai (nth (length pre0) a 0) x (fst s) (snd s)) as [[v c1] c2];
    cbv beta iota; rewrite ?idx_app_mid; cbn [obind fst snd]; rewrite upd_app_mid; split; [reflexivity | exact I])
    post pre (clo, chi) Hlen I ltac:(apply Forall_forall; intros; exact I)) as [E _].
  cbn [fst snd] in E. rewrite E. rewrite sq_cross_iloop by exact Hlen.
  destruct (sq_cross ai (skipn (length pre) a) post clo chi) as [[l' c1] c2]. reflexivity.
Qed.

Lemma shl128_b2z chi : shl128 (b2z chi) 64 = w128 (b2z chi * B).
Proof. rewrite w128_spec. unfold shl128. rewrite <- B_pow. reflexivity. Qed.
Lemma wrap128_w128 x : wrap128 x = w128 x.
Proof. rewrite w128_spec. reflexivity. Qed.
Lemma wrap_shr_hi64 x : wrap (shr128 x 64) = hi64 x.
Proof. rewrite hi64_spec. unfold wrap, shr128. rewrite <- B_pow. reflexivity. Qed.

Lemma split_at (l : list Z) i : (i < length l)%nat ->
  exists x post, l = firstn i l ++ x :: post /\ skipn i l = x :: post /\ length (firstn i l) = i.
Proof.
  intros H. destruct (skipn i l) as [|x post] eqn:E.
  - assert (length (skipn i l) = 0%nat) by (rewrite E; reflexivity). rewrite skipn_length in H0. lia.
  - exists x, post. split; [|split].
    + rewrite <- E. symmetry. apply firstn_skipn.
    + reflexivity.
    + apply firstn_length_le. lia.
Qed.

Lemma idx_last_md (md : list Z) : md <> [] -> idx md (Z.of_nat (length md) - 1) = Val (last md 0).
Proof.
  intros H. destruct (exists_last H) as (md' & ml & E). rewrite E, last_app_single.
  apply idx_app_at. rewrite app_length. cbn [length]. lia.
Qed.

(* one iteration of `for i in 0..N` = Redc.sq_row *)
Lemma sq_row_body_eq N a md inv i res co :
  N = Z.of_nat (length a) -> N < B -> length md = length a -> length res = length a ->
  (i < length a)%nat ->
  sq_row_body N a md inv (Z.of_nat i) (res, co) = sq_row i a md inv (last md 0) (res, co).
Proof.
  intros HN HB Hm Hr Hi.
  destruct (split_at a i Hi) as (ai & a' & Ea & Esa & Hla).
  destruct (split_at res i ltac:(lia)) as (ri & post & Er & Esr & Hlr).
  assert (Hpost : length post = (length a - i - 1)%nat).
  { assert (length res = length (firstn i res ++ ri :: post)) by (rewrite <- Er; reflexivity).
    rewrite app_length in H. cbn [length] in H. lia. }
  assert (Ha' : length a' = (length a - i - 1)%nat).
  { assert (length a = length (firstn i a ++ ai :: a')) by (rewrite <- Ea; reflexivity).
    rewrite app_length in H. cbn [length] in H. lia. }
  unfold sq_row_body, sq_row. rewrite Esa, Esr. cbv beta iota zeta.
  assert (Hai : idx a (Z.of_nat i) = Val ai) by (rewrite Ea; apply idx_app_at; lia).
  rewrite Hai. cbn [obind].
  assert (Hri : idx res (Z.of_nat i) = Val ri) by (rewrite Er; apply idx_app_at; lia).
  rewrite Hri. cbn [obind].
  rewrite g_carrying_mul_add_eq.
  destruct (carrying_mul_add ai ai ri 0) as [value carry_lo].
  assert (Hupd : upd res (Z.of_nat i) value = firstn i res ++ value :: post).
  { rewrite <- (upd_app_at (firstn i res) ri post (Z.of_nat i) value) by lia. rewrite <- Er. reflexivity. }
  rewrite Hupd.
  rewrite chk64_ok by lia. cbn [obind].
  unfold for_range at 1.
  replace (Z.to_nat (N - (Z.of_nat i + 1))) with (length post) by lia.
  replace (firstn i res ++ value :: post) with ((firstn i res ++ [value]) ++ post)
    by (rewrite <- app_assoc; reflexivity).
  replace (Z.of_nat i + 1) with (Z.of_nat (length (firstn i res ++ [value])))
    by (rewrite app_length; cbn [length]; lia).
  rewrite (sq_cross_loop a (Z.of_nat i) ai (firstn i res ++ [value]) post carry_lo false Hai
             ltac:(rewrite app_length; cbn [length]; lia)).
  replace (length (firstn i res ++ [value])) with (S i) by (rewrite app_length; cbn [length]; lia).
  replace (skipn (S i) a) with a'.
  2:{ rewrite Ea at 1. replace (S i) with (length (firstn i a ++ [ai])) by (rewrite app_length; cbn [length]; lia).
      replace (firstn i a ++ ai :: a') with ((firstn i a ++ [ai]) ++ a') by (rewrite <- app_assoc; reflexivity).
      rewrite skipn_app, skipn_all, Nat.sub_diag. reflexivity. }
  destruct (sq_cross ai a' post carry_lo false) as [[post' clo] chi] eqn:Ec. cbn [obind].
  rewrite <- app_assoc. cbn [app].
  assert (Hlp : length post' = length post).
  { clear - Ec Ha' Hpost. revert post post' carry_lo clo chi Ec Hpost. generalize false.
    assert (G : forall a' (b0 : bool) post post' c0 clo chi, sq_cross ai a' post c0 b0 = (post', clo, chi) ->
                (length post <= length a')%nat -> length post' = length post).
    { induction a'0 as [|aj a'' IH]; intros b0 post post' c0 clo chi E Hl.
      - destruct post; [|cbn in Hl; lia]. cbn in E. injection E as <- _ _. reflexivity.
      - destruct post as [|rj post]; [cbn in E; injection E as <- _ _; reflexivity|].
        cbn [sq_cross] in E. destruct (carrying_double_mul_add ai aj rj c0 b0) as [[v c1] c2].
        destruct (sq_cross ai a'' post c1 c2) as [[l x] y] eqn:E'. injection E as <- _ _.
        cbn [length]. f_equal. apply (IH c2 post l c1 x y E'). cbn in Hl. lia. }
    intros b0 post post' c0 clo chi E Hp. apply (G a' b0 post post' c0 clo chi E). lia. }
  destruct md as [|m0 mdrest]; [cbn in Hm; lia|].
  destruct (firstn i res ++ value :: post') as [|r0 rest] eqn:Eres1.
  { destruct (firstn i res); discriminate. }
  assert (Hrest : length rest = length mdrest).
  { assert (length (r0 :: rest) = length (firstn i res ++ value :: post')) by (rewrite Eres1; reflexivity).
    rewrite app_length in H. cbn [length] in *. lia. }
  change (idx (r0 :: rest) 0) with (Val r0 : outcome Z). cbn [obind].
  change (idx (m0 :: mdrest) 0) with (Val m0 : outcome Z). cbn [obind].
  rewrite g_carrying_mul_add_eq, wrap_w64.
  destruct (carrying_mul_add (w64 (r0 * inv)) m0 r0 0) as [v carry].
  destruct (v =? 0); cbn [negb]; [|reflexivity].
  unfold for_range. replace (Z.to_nat (N - 1)) with (length mdrest) by (cbn [length] in Hm; lia).
  change 1 with (Z.of_nat (S (length (@nil Z)))) at 1.
  change (r0 :: rest) with ([] ++ r0 :: rest) at 1.
  change (m0 :: mdrest) with ([m0] ++ mdrest) at 1.
  rewrite (sq_reduce_loop (w64 (r0 * inv)) mdrest rest [m0] [] r0 carry ltac:(lia) eq_refl
             ltac:(cbn [length] in *; lia)).
  cbn [obind app].
  pose proof (sq_reduce_length mdrest rest (w64 (r0 * inv)) carry ltac:(lia)) as Hl.
  destruct (sq_reduce mdrest rest (w64 (r0 * inv)) carry) as [l cf]. cbn [fst snd] in *.
  rewrite chk64_ok by (cbn [length] in Hm; lia). cbn [obind].
  replace (N - 1) with (Z.of_nat (length (m0 :: mdrest)) - 1) by lia.
  rewrite idx_last_md by discriminate. cbn [obind].
  change 4611686018427387903 with SQUARE_THRESHOLD.
  replace (Z.of_nat (length (m0 :: mdrest)) - 1) with (Z.of_nat (length l)) by (cbn [length] in *; lia).
  destruct (SQUARE_THRESHOLD <=? last (m0 :: mdrest) 0).
  - cbv zeta. rewrite !wrap128_w128, shl128_b2z, !wrap_shr_hi64, !wrap_w64.
    rewrite ?chk64_ok by (cbn [length] in *; lia). cbn [obind].
    rewrite idx_app_mid. cbn [obind]. rewrite upd_last_elem.
    set (wide := w128 (w128 (w128 (co + clo) + w128 (b2z chi * B)) + cf)).
    destruct (Z.leb_spec (hi64 wide) 2); destruct (Z.ltb_spec 2 (hi64 wide)); try lia; reflexivity.
  - destruct chi; cbn [negb]; [reflexivity|].
    destruct (co =? 0); cbn [negb]; [|reflexivity].
    destruct (ov_add clo cf) as [value2 c]. destruct c; cbn [negb]; [reflexivity|].
    rewrite ?chk64_ok by (cbn [length] in *; lia). cbn [obind].
    rewrite idx_app_mid. cbn [obind]. rewrite upd_last_elem. reflexivity.
Qed.

Lemma sq_cross_length ai a' : forall (b0 : bool) post post' c0 clo chi,
  sq_cross ai a' post c0 b0 = (post', clo, chi) -> (length post <= length a')%nat ->
  length post' = length post.
Proof.
  induction a' as [|aj a'' IH]; intros b0 post post' c0 clo chi E Hl.
  - destruct post; [|cbn in Hl; lia]. cbn in E. injection E as <- _ _. reflexivity.
  - destruct post as [|rj post]; [cbn in E; injection E as <- _ _; reflexivity|].
    cbn [sq_cross] in E. destruct (carrying_double_mul_add ai aj rj c0 b0) as [[v c1] c2].
    destruct (sq_cross ai a'' post c1 c2) as [[l x] y] eqn:E'. injection E as <- _ _.
    cbn [length]. f_equal. apply (IH c2 post l c1 x y E'). cbn in Hl. lia.
Qed.

Lemma sq_row_length i a md inv top res co res' co' :
  length md = length a -> length res = length a -> (i < length a)%nat ->
  sq_row i a md inv top (res, co) = Val (res', co') -> length res' = length a.
Proof.
  intros Hm Hr Hi E. unfold sq_row in E.
  destruct (split_at a i Hi) as (ai & a' & Ea & Esa & Hla).
  destruct (split_at res i ltac:(lia)) as (ri & post & Er & Esr & Hlr).
  assert (Hpost : length post = (length a - i - 1)%nat).
  { assert (length res = length (firstn i res ++ ri :: post)) by (rewrite <- Er; reflexivity).
    rewrite app_length in H. cbn [length] in H. lia. }
  assert (Ha' : length a' = (length a - i - 1)%nat).
  { assert (length a = length (firstn i a ++ ai :: a')) by (rewrite <- Ea; reflexivity).
    rewrite app_length in H. cbn [length] in H. lia. }
  rewrite Esa, Esr in E.
  destruct (carrying_mul_add ai ai ri 0) as [value carry_lo].
  destruct (sq_cross ai a' post carry_lo false) as [[post' clo] chi] eqn:Ec.
  pose proof (sq_cross_length ai a' false post post' carry_lo clo chi Ec ltac:(lia)) as Hlp.
  destruct (firstn i res ++ value :: post') as [|r0 rest] eqn:Eres1; [discriminate|].
  destruct md as [|m0 mdrest]; [discriminate|].
  assert (Hrest : length rest = length mdrest).
  { assert (length (r0 :: rest) = length (firstn i res ++ value :: post')) by (rewrite Eres1; reflexivity).
    rewrite app_length in H. cbn [length] in *. lia. }
  destruct (carrying_mul_add (w64 (r0 * inv)) m0 r0 0) as [v carry].
  destruct (negb (v =? 0)); [discriminate|].
  pose proof (sq_reduce_length mdrest rest (w64 (r0 * inv)) carry ltac:(lia)) as Hl.
  destruct (sq_reduce mdrest rest (w64 (r0 * inv)) carry) as [l cf]. cbn [fst] in Hl.
  destruct (SQUARE_THRESHOLD <=? top).
  - destruct (2 <? hi64 _); [discriminate|]. injection E as <- _.
    rewrite app_length. cbn [length] in *. lia.
  - destruct chi; [discriminate|]. destruct (negb (co =? 0)); [discriminate|].
    destruct (ov_add clo cf) as [v2 c]. destruct c; [discriminate|]. injection E as <- _.
    rewrite app_length. cbn [length] in *. lia.
Qed.

(* the row loop `for i in 0..N` = Redc.sq_rows *)
Lemma sq_rows_loop N a md inv k : forall i res co,
  N = Z.of_nat (length a) -> N < B -> length md = length a -> length res = length a ->
  (i + k = length a)%nat ->
  for_loop k (Z.of_nat i) (res, co) (sq_row_body N a md inv)
  = sq_rows k i a md inv (last md 0) (res, co).
Proof.
  induction k as [|k IH]; intros i res co HN HB Hm Hr Hik; [reflexivity|].
  cbn [for_loop sq_rows].
  rewrite (sq_row_body_eq N a md inv i res co HN HB Hm Hr ltac:(lia)).
  destruct (sq_row i a md inv (last md 0) (res, co)) as [[res' co']| | | |] eqn:Er; cbn [obind]; try reflexivity.
  pose proof (sq_row_length i a md inv (last md 0) res co res' co' Hm Hr ltac:(lia) Er) as Hr'.
  replace (Z.of_nat i + 1) with (Z.of_nat (S i)) by lia.
  apply IH; auto. lia.
Qed.

Theorem g_square_redc_eq N a md inv :
  (1 <= length a)%nat -> N = Z.of_nat (length a) -> N < B -> length md = length a ->
  g_square_redc N a md inv = Redc.square_redc a md inv.
Proof.
  intros Hn HN HB Hm. rewrite g_square_redc_unfold. unfold Redc.square_redc.
  destruct md as [|m0 md]; [cbn in Hm; lia|].
  change (idx (m0 :: md) 0) with (Val m0 : outcome Z). cbn [obind].
  rewrite wrap_w64.
  destruct (w64 (inv * m0) =? B - 1); cbn [negb]; [|reflexivity].
  unfold is_less.
  destruct (limbs_cmp a (m0 :: md)); cbn [negb]; try reflexivity.
  unfold for_range. replace (Z.to_nat (N - 0)) with (length (m0 :: md)) by lia.
  replace (Z.to_nat N) with (length (m0 :: md)) by lia.
  pose proof (sq_rows_loop N a (m0 :: md) inv (length (m0 :: md)) 0 (repeat 0 (length (m0 :: md))) 0 HN HB Hm
             ltac:(rewrite repeat_length; exact Hm) ltac:(lia)) as E.
  change (Z.of_nat 0) with 0 in E. rewrite E.
  destruct (sq_rows (length (m0 :: md)) 0 a (m0 :: md) inv (last (m0 :: md) 0) (repeat 0 (length (m0 :: md)), 0))
    as [[res co]| | | |]; cbn [obind]; try reflexivity.
  destruct (Z.leb_spec co 1); destruct (Z.ltb_spec 1 co); try lia; reflexivity.
Qed.
