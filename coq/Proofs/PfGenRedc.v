(* Proofs/PfGenRedc.v — source tie for algorithms::mul_redc (src/algorithms/mul_redc.rs): the
   definition that tools_rs2v.py generates from the current text (const-generic arrays, the row
   loop `for b in b`, the inner loop `for i in 0..N` that reads index i and writes index i-1,
   `result[N-1] = value`, the carry threshold) equals Model/Redc.v mul_redc, whose loops are
   structural recursions over the limb lists.  reduce1_carry (zip iterators) is not translated:
   the generated code calls the model function. *)
From Coq Require Import ZArith List Bool Lia.
From RV.Model Require Import Base Word Add Redc.
From RV.Gen Require Import Prim Scalar.
From RV.Proofs Require Import BaseFacts PfGenScalar PfGenAdd PfRedc.
Import ListNotations.
Local Open Scope Z_scope.

(* the two loop bodies of the generated code, named (g_mul_redc_unfold checks that they are it) *)
Definition mr_ibody (a b modulus : list Z) (i_b inv : Z)
  : Z -> (Z * Z * Z * list Z) -> outcome (Z * Z * Z * list Z) :=
  fun i t_11 => let '(carry_1, m, carry_2, result) := t_11 in
    do t_2 <- idx a i ; do t_3 <- idx b i_b ; do t_4 <- idx result i ;
    let '(value, next_carry) := (g_carrying_mul_add t_2 t_3 t_4 carry_1) in
    let carry_1 := next_carry in
    do m <- (if (i =? 0) then ( let m := (wrap (value * inv)) in Val m) else (Val m)) ;
    do t_6 <- idx modulus i ; let '(value, next_carry) := (g_carrying_mul_add t_6 m value carry_2) in
    let carry_2 := next_carry in
    do result <- (if (0 <? i) then ( let t_8 := value in do t_7 <- chk64 (i - 1) ; do _ <- idx result t_7 ;
                                     let result := upd result t_7 t_8 in Val result)
                  else ( if negb (value =? 0) then DebugPanic else Val result)) ;
    Val (carry_1, m, carry_2, result).

Definition mr_obody (N : Z) (a b modulus : list Z) (inv : Z)
  : Z -> (list Z * bool) -> outcome (list Z * bool) :=
  fun i_b t_18 => let '(result, carry) := t_18 in let m := 0 in
    let carry_1 := 0 in
    let carry_2 := 0 in
    do t_10 <- for_range 0 N (carry_1, m, carry_2, result) (mr_ibody a b modulus i_b inv) ;
    let '(carry_1, m, carry_2, result) := t_10 in
    let '(value, next_carry) := (g_carrying_add carry_1 carry_2 carry) in
    let t_13 := value in do t_12 <- chk64 (N - 1) ; do _ <- idx result t_12 ; let result := upd result t_12 t_13 in
    do t_14 <- chk64 (N - 1) ; do t_15 <- idx modulus t_14 ;
    do carry <- (if (9223372036854775807 <=? t_15) then ( let carry := next_carry in Val carry)
                 else ( if negb ((negb next_carry)) then DebugPanic else Val carry)) ;
    Val (result, carry).

Lemma g_mul_redc_unfold N a b modulus inv :
  g_mul_redc N a b modulus inv =
  (do t_1 <- idx modulus 0 ; if negb (((wrap (inv * t_1))) =? ((B - 1))) then DebugPanic else
   if negb (match (Add.limbs_cmp a modulus), Lt with Lt, Lt | Eq, Eq | Gt, Gt => true | _, _ => false end) then DebugPanic else
   if negb (match (Add.limbs_cmp b modulus), Lt with Lt, Lt | Eq, Eq | Gt, Gt => true | _, _ => false end) then DebugPanic else
   do t_17 <- for_range 0 (lenZ b) (repeat 0 (Z.to_nat N), false) (mr_obody N a b modulus inv) ;
   let '(result, carry) := t_17 in
   Val (Redc.reduce1_carry result modulus carry)).
Proof. reflexivity. Qed.

Lemma wrap_w64 x : wrap x = w64 x.
Proof. rewrite w64_spec. reflexivity. Qed.

Lemma idx_app_at (pre : list Z) x post i : i = Z.of_nat (length pre) -> idx (pre ++ x :: post) i = Val x.
Proof. intros ->. apply idx_app_mid. Qed.
Lemma upd_app_at (pre : list Z) x post i v : i = Z.of_nat (length pre) ->
  upd (pre ++ x :: post) i v = pre ++ v :: post.
Proof. intros ->. apply upd_app_mid. Qed.

Lemma mr_inner_length a : forall md res bi inv m c1 c2 l x y,
  length a = length md -> length a = length res ->
  mr_inner false a md res bi inv m c1 c2 = Val (l, x, y) -> length l = length a.
Proof.
  induction a as [|a0 a IH]; intros md res bi inv m c1 c2 l x y Hm Hr E.
  - cbn in E. injection E as <- _ _. reflexivity.
  - destruct md as [|m0 md]; [discriminate|]. destruct res as [|r0 res]; [discriminate|].
    cbn [mr_inner] in E.
    destruct (carrying_mul_add a0 bi r0 c1) as [v1 c1'].
    destruct (carrying_mul_add m0 m v1 c2) as [v2 c2'].
    destruct (mr_inner false a md res bi inv m c1' c2') as [[[l' x'] y']| | | |] eqn:E'; cbn [obind] in E; try discriminate.
    injection E as <- _ _. cbn [length]. f_equal.
    apply (IH md res bi inv m c1' c2' l' x' y'); [cbn in Hm; lia | cbn in Hr; lia | exact E'].
Qed.

(* the inner loop from index >= 1 on: it reads index i and overwrites index i-1 *)
Lemma mr_inner_rest bfull i_b bi inv a : forall md res pa pm l x c1 m c2,
  idx bfull i_b = Val bi ->
  length a = length md -> length a = length res ->
  length pa = S (length l) -> length pm = S (length l) ->
  Z.of_nat (length l + length a) < B ->
  for_loop (length a) (Z.of_nat (S (length l))) (c1, m, c2, l ++ x :: res)
           (mr_ibody (pa ++ a) bfull (pm ++ md) i_b inv)
  = (do p <- mr_inner false a md res bi inv m c1 c2 ;
     let '(l', c1', c2') := p in Val (c1', m, c2', l ++ l' ++ [last (x :: res) 0])).
Proof.
  induction a as [|a0 a IH]; intros md res pa pm l x c1 m c2 Hb Hm Hr Hpa Hpm Hlen.
  - destruct md; [|discriminate]. destruct res; [|discriminate].
    cbn [length for_loop mr_inner obind last app]. reflexivity.
  - destruct md as [|m0 md]; [discriminate|]. destruct res as [|r0 res]; [discriminate|].
    cbn [length] in *. cbn [for_loop mr_inner].
    unfold mr_ibody at 1. cbv beta iota.
    rewrite (idx_app_at pa a0 a) by lia. cbn [obind]. rewrite Hb. cbn [obind].
    replace (l ++ x :: r0 :: res) with ((l ++ [x]) ++ r0 :: res) by (rewrite <- app_assoc; reflexivity).
    rewrite (idx_app_at (l ++ [x]) r0 res) by (rewrite app_length; cbn [length]; lia). cbn [obind].
    rewrite g_carrying_mul_add_eq.
    destruct (carrying_mul_add a0 bi r0 c1) as [v1 c1'].
    replace (Z.of_nat (S (length l)) =? 0) with false by lia. cbn [obind].
    rewrite (idx_app_at pm m0 md) by lia. cbn [obind].
    rewrite g_carrying_mul_add_eq.
    destruct (carrying_mul_add m0 m v1 c2) as [v2 c2'].
    replace (0 <? Z.of_nat (S (length l))) with true by lia.
    rewrite chk64_ok by lia. cbn [obind].
    rewrite <- app_assoc. cbn [app].
    rewrite (idx_app_at l x (r0 :: res)) by lia. cbn [obind].
    rewrite (upd_app_at l x (r0 :: res)) by lia.
    replace (l ++ v2 :: r0 :: res) with ((l ++ [v2]) ++ r0 :: res) by (rewrite <- app_assoc; reflexivity).
    replace (pa ++ a0 :: a) with ((pa ++ [a0]) ++ a) by (rewrite <- app_assoc; reflexivity).
    replace (pm ++ m0 :: md) with ((pm ++ [m0]) ++ md) by (rewrite <- app_assoc; reflexivity).
    replace (Z.of_nat (S (length l)) + 1) with (Z.of_nat (S (length (l ++ [v2]))))
      by (rewrite app_length; cbn [length]; lia).
    rewrite (IH md res (pa ++ [a0]) (pm ++ [m0]) (l ++ [v2]) r0 c1' m c2' Hb
               ltac:(lia) ltac:(lia)
               ltac:(rewrite !app_length; cbn [length]; lia) ltac:(rewrite !app_length; cbn [length]; lia)
               ltac:(rewrite app_length; cbn [length]; lia)).
    destruct (mr_inner false a md res bi inv m c1' c2') as [[[l' x'] y']| | | |]; cbn [obind]; try reflexivity.
    rewrite <- !app_assoc. cbn [app]. reflexivity.
Qed.

Lemma last_app_single (l : list Z) v : last (l ++ [v]) 0 = v.
Proof. apply last_last. Qed.

Lemma upd_last_elem (l : list Z) x v : upd (l ++ [x]) (Z.of_nat (length l)) v = l ++ [v].
Proof. apply upd_app_mid. Qed.

(* one row: the generated body of `for b in b` = Redc.mr_row *)
Lemma mr_obody_row N a b md inv k bi res carry :
  (1 <= length a)%nat -> N = Z.of_nat (length a) -> N < B ->
  length md = length a -> length res = length a ->
  idx b (Z.of_nat k) = Val bi ->
  mr_obody N a b md inv (Z.of_nat k) (res, carry) = mr_row a md inv (last md 0) (res, carry) bi.
Proof.
  intros Hn HN HB Hm Hr Hb.
  destruct a as [|a0 a]; [cbn in Hn; lia|]. destruct md as [|m0 md]; [discriminate|].
  destruct res as [|r0 res]; [discriminate|]. cbn [length] in *.
  unfold mr_obody, mr_row. cbv beta iota zeta. unfold for_range.
  replace (Z.to_nat (N - 0)) with (S (length a)) by lia. cbn [for_loop mr_inner].
  unfold mr_ibody at 1. cbv beta iota.
  change (idx (a0 :: a) 0) with (Val a0 : outcome Z). cbn [obind]. rewrite Hb. cbn [obind].
  change (idx (r0 :: res) 0) with (Val r0 : outcome Z). cbn [obind].
  rewrite g_carrying_mul_add_eq.
  destruct (carrying_mul_add a0 bi r0 0) as [v1 c1'].
  change (0 =? 0) with true. cbv beta iota zeta. cbn [obind].
  change (idx (m0 :: md) 0) with (Val m0 : outcome Z). cbn [obind].
  rewrite g_carrying_mul_add_eq. rewrite wrap_w64.
  destruct (carrying_mul_add m0 (w64 (v1 * inv)) v1 0) as [v2 c2'].
  change (0 <? 0) with false. cbv beta iota.
  destruct (v2 =? 0); cbn [negb obind]; [|reflexivity].
  change (0 + 1) with (Z.of_nat (S (length (@nil Z)))).
  change (r0 :: res) with ([] ++ r0 :: res) at 1.
  change (a0 :: a) with ([a0] ++ a). change (m0 :: md) with ([m0] ++ md) at 1.
  rewrite (mr_inner_rest b (Z.of_nat k) bi inv a md res [a0] [m0] [] r0 c1' (w64 (v1 * inv)) c2' Hb
             ltac:(lia) ltac:(lia) eq_refl eq_refl ltac:(cbn [length]; lia)).
  destruct (mr_inner false a md res bi inv (w64 (v1 * inv)) c1' c2') as [[[l' x'] y']| | | |] eqn:Ei;
    cbn [obind app]; try reflexivity.
  pose proof (mr_inner_length a md res bi inv _ _ _ _ _ _ ltac:(lia) ltac:(lia) Ei) as Hl.
  rewrite g_carrying_add_eq.
  destruct (carrying_add x' y' carry) as [value next_carry].
  rewrite chk64_ok by lia. cbn [obind].
  replace (N - 1) with (Z.of_nat (length l')) by lia.
  rewrite idx_app_mid. cbn [obind]. rewrite upd_last_elem.
  (* modulus[N - 1] = last md *)
  cbn [app].
  assert (Hlast : idx (m0 :: md) (Z.of_nat (length l')) = Val (last (m0 :: md) 0)).
  { destruct (exists_last (l := m0 :: md) ltac:(discriminate)) as (md' & ml & E).
    rewrite E. rewrite last_app_single.
    apply idx_app_at. assert (length (m0 :: md) = length (md' ++ [ml])) by (rewrite E; reflexivity).
    rewrite app_length in H. cbn [length] in H. lia. }
  rewrite Hlast. cbn [obind].
  change 9223372036854775807 with REDC_THRESHOLD. cbn [app].
  destruct (REDC_THRESHOLD <=? last (m0 :: md) 0); cbn [obind]; [reflexivity|].
  destruct next_carry; reflexivity.
Qed.

Lemma mr_row_length a md inv top res carry bi res' carry' :
  (1 <= length a)%nat -> length md = length a -> length res = length a ->
  mr_row a md inv top (res, carry) bi = Val (res', carry') -> length res' = length a.
Proof.
  intros Hn Hm Hr E. unfold mr_row in E.
  destruct a as [|a0 a]; [cbn in Hn; lia|]. destruct md as [|m0 md]; [discriminate|].
  destruct res as [|r0 res]; [discriminate|]. cbn [mr_inner length] in *.
  destruct (carrying_mul_add a0 bi r0 0) as [v1 c1'].
  destruct (carrying_mul_add m0 (w64 (v1 * inv)) v1 0) as [v2 c2'].
  destruct (v2 =? 0); [|discriminate].
  destruct (mr_inner false a md res bi inv (w64 (v1 * inv)) c1' c2') as [[[l' x'] y']| | | |] eqn:Ei;
    cbn [obind] in E; try discriminate.
  pose proof (mr_inner_length a md res bi inv _ _ _ _ _ _ ltac:(lia) ltac:(lia) Ei) as Hl.
  destruct (carrying_add x' y' carry) as [value next_carry].
  destruct (REDC_THRESHOLD <=? top).
  - injection E as <- _. rewrite app_length. cbn [length]. lia.
  - destruct next_carry; [discriminate|]. injection E as <- _. rewrite app_length. cbn [length]. lia.
Qed.

(* the row loop `for b in b` = Redc.mr_rows *)
Lemma mr_rows_loop N a bfull md inv bs : forall pre res carry,
  bfull = pre ++ bs ->
  (1 <= length a)%nat -> N = Z.of_nat (length a) -> N < B ->
  length md = length a -> length res = length a ->
  for_loop (length bs) (Z.of_nat (length pre)) (res, carry) (mr_obody N a bfull md inv)
  = mr_rows a md inv (last md 0) bs (res, carry).
Proof.
  induction bs as [|bi bs IH]; intros pre res carry Eb Hn HN HB Hm Hr; [reflexivity|].
  cbn [length for_loop mr_rows].
  rewrite (mr_obody_row N a bfull md inv (length pre) bi res carry Hn HN HB Hm Hr
             ltac:(rewrite Eb; apply idx_app_mid)).
  destruct (mr_row a md inv (last md 0) (res, carry) bi) as [[res' carry']| | | |] eqn:Er; cbn [obind]; try reflexivity.
  pose proof (mr_row_length _ _ _ _ _ _ _ _ _ Hn Hm Hr Er) as Hr'.
  replace (Z.of_nat (length pre) + 1) with (Z.of_nat (length (pre ++ [bi])))
    by (rewrite app_length; cbn [length]; lia).
  apply IH; auto. rewrite <- app_assoc. exact Eb.
Qed.

Theorem g_mul_redc_eq N a b md inv :
  (1 <= length a)%nat -> N = Z.of_nat (length a) -> N < B ->
  length md = length a ->
  g_mul_redc N a b md inv = Redc.mul_redc a b md inv.
Proof.
  intros Hn HN HB Hm. rewrite g_mul_redc_unfold. unfold Redc.mul_redc.
  destruct md as [|m0 md]; [cbn in Hm; lia|].
  change (idx (m0 :: md) 0) with (Val m0 : outcome Z). cbn [obind].
  rewrite wrap_w64.
  destruct (w64 (inv * m0) =? B - 1); cbn [negb]; [|reflexivity].
  unfold is_less.
  destruct (limbs_cmp a (m0 :: md)); cbn [negb]; try reflexivity.
  destruct (limbs_cmp b (m0 :: md)); cbn [negb]; try reflexivity.
  unfold for_range, lenZ. replace (Z.to_nat (Z.of_nat (length b) - 0)) with (length b) by lia.
  replace (Z.to_nat N) with (length (m0 :: md)) by lia.
  pose proof (mr_rows_loop N a b (m0 :: md) inv b [] (repeat 0 (length (m0 :: md))) false eq_refl Hn HN HB Hm
             ltac:(rewrite repeat_length; exact Hm)) as E.
  change (Z.of_nat (length (@nil Z))) with 0 in E. rewrite E.
  destruct (mr_rows a (m0 :: md) inv (last (m0 :: md) 0) b (repeat 0 (length (m0 :: md)), false))
    as [[res carry]| | | |]; reflexivity.
Qed.
