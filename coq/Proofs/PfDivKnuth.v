(* Proofs/PfDivKnuth.v — knuth.rs: one iteration of div_nxm_normalized / div_nxm at window
   level, the loops, and the two entry points. *)
From Coq Require Import ZArith List Bool Lia Arith.
From RV.Model Require Import Base Word Limbs DivRecip DivSmall DivKnuth.
From RV.Proofs Require Import BaseFacts PfDivBase PfDiv2x1 PfDivLimbs PfDivSmall PfDivKnuthArith
  PfDivKnuthList.
From RV.Proofs Require PfC01.   (* limbs_cmp_spec *)
Import ListNotations.
Local Open Scope Z_scope.

Lemma eval_snoc2 lo a b : eval (lo ++ [a; b]) = eval lo + B ^ Z.of_nat (length lo) * (a + B * b).
Proof. rewrite eval_app. cbn [eval]. ring. Qed.
Lemma eval_snoc3 lo a b c :
  eval (lo ++ [a; b; c]) = eval lo + B ^ Z.of_nat (length lo) * (a + B * b + B * B * c).
Proof. rewrite eval_app. cbn [eval]. ring. Qed.
Lemma Bn_SS k : B ^ Z.of_nat (S (S k)) = B ^ Z.of_nat k * (B * B).
Proof. rewrite !Bn_S. ring. Qed.

Lemma wrap128_small x : 0 <= x < B * B -> wrap128 x = x.
Proof. intros H. rewrite wrap128_mod. apply Z.mod_small, H. Qed.
Lemma wrap128_add x : - (B * B) <= x < 0 -> wrap128 x = x + B * B.
Proof.
  intros H. rewrite wrap128_mod. symmetry. apply Z.mod_unique with (q := -1); lia.
Qed.
Lemma lo_hi_inW x : 0 <= x < B * B -> inW (lo128 x) /\ inW (hi128 x) /\ lo128 x + B * hi128 x = x.
Proof.
  intros H. pose proof (lo128_range x). pose proof (hi128_range x H). pose proof (hi_lo_128 x).
  unfold inW. repeat split; lia.
Qed.

Lemma Forall_inW2 a b : inW a -> inW b -> Forall inW [a; b].
Proof. intros. constructor; [assumption|]. constructor; [assumption|constructor]. Qed.
Lemma Forall_inW_snoc2 l a b : Forall inW l -> inW a -> inW b -> Forall inW (l ++ [a; b]).
Proof. intros. apply Forall_app. split; [assumption|apply Forall_inW2; assumption]. Qed.

Lemma top_nonneg n2 n1 n0 : 0 <= n2 -> 0 <= n1 -> 0 <= n0 -> 0 <= (n2 * B + n1) * B + n0.
Proof. intros. pose proof B_pos. assert (0 <= n2 * B) by (apply Z.mul_nonneg_nonneg; lia).
  assert (0 <= (n2 * B + n1) * B) by (apply Z.mul_nonneg_nonneg; lia). lia. Qed.
Lemma top_le n21 n0 d : n21 * B + n0 < (d + 1) * B -> 0 <= n0 -> n21 <= d.
Proof. intros H H0. pose proof B_pos. assert (n21 * B < (d + 1) * B) by lia.
  apply Z.mul_lt_mono_pos_r in H2; lia. Qed.
Lemma top_lt_dB n21 n0 d : n21 < d -> n0 < B -> n21 * B + n0 < d * B.
Proof. intros H H0. pose proof B_pos.
  assert (n21 * B <= (d - 1) * B) by (apply Z.mul_le_mono_nonneg_r; lia). lia. Qed.
Lemma V_neg x P e : 0 < P -> x < P -> e < 0 -> x + P * e < 0.
Proof. intros. assert (P * e <= P * (-1)) by (apply Z.mul_le_mono_nonneg_l; lia). lia. Qed.
Lemma V_pos x P e : 0 < P -> 0 <= x -> 0 <= e -> 0 <= x + P * e.
Proof. intros. assert (0 <= P * e) by (apply Z.mul_nonneg_nonneg; lia). lia. Qed.

Lemma norm_d d0 d1 : inW d0 -> inW d1 -> 2 ^ 63 <= d1 ->
  2 ^ 127 <= join d1 d0 < B * B /\ B <= join d1 d0.
Proof.
  unfold inW, join. intros H0 H1 Hn. rewrite pow127. pose proof pow63. nia.
Qed.

(* ---------- div_nxm_normalized: one iteration at offset 0 ---------- *)
Lemma norm_step_win lo n0 n1 n2 post dl d0 d1 :
  length dl = length lo ->
  Forall inW lo -> inW n0 -> inW n1 -> inW n2 ->
  Forall inW dl -> inW d0 -> inW d1 -> 2 ^ 63 <= d1 ->
  let divisor := dl ++ [d0; d1] in
  let D := eval divisor in
  let d := join d1 d0 in
  let W := eval (lo ++ [n0; n1; n2]) in
  W < D * B ->
  exists wl',
    nxm_norm_step (lo ++ n0 :: n1 :: n2 :: post) divisor (S (S (length lo))) 0 d (recip2 d)
      = Val (wl' ++ (W / D) :: post) /\
    length wl' = S (S (length lo)) /\ Forall inW wl' /\ eval wl' = W mod D.
Proof.
  intros Hlen Hlo Hn0 Hn1 Hn2 Hdl Hd0 Hd1 Hnorm divisor D d W HW.
  pose proof B_pos as HB.
  destruct (norm_d d0 d1 Hd0 Hd1 Hnorm) as [Hd HdB]. fold d in Hd, HdB.
  set (P := B ^ Z.of_nat (length lo)).
  assert (HP : 0 < P) by apply Bn_pos.
  pose proof (eval_bound lo Hlo) as Blo. fold P in Blo.
  pose proof (eval_bound dl Hdl) as Bdl. rewrite Hlen in Bdl. fold P in Bdl.
  assert (ED : D = eval dl + P * d).
  { subst D divisor d. rewrite eval_snoc2, Hlen. unfold join. fold P. ring. }
  set (n21 := join n2 n1). set (T := n21 * B + n0).
  assert (EW : W = eval lo + P * T).
  { subst W T n21. rewrite eval_snoc3. fold P. unfold join. ring. }
  assert (HDb : d * P <= D < (d + 1) * P) by (rewrite ED; lia).
  assert (HWb : T * P <= W < (T + 1) * P) by (rewrite EW; lia).
  assert (HT0 : 0 <= T) by (subst T n21; unfold join; unfold inW in Hn0, Hn1, Hn2; apply top_nonneg; lia).
  assert (Hn21 : 0 <= n21).
  { subst n21; unfold join; unfold inW in Hn1, Hn2.
    assert (0 <= n2 * B) by (apply Z.mul_nonneg_nonneg; lia). lia. }
  assert (HTlt : T < (d + 1) * B) by (apply (top_lt P d D T W); lia).
  assert (Hle : n21 <= d) by (apply (top_le n21 n0 d); [exact HTlt | unfold inW in Hn0; lia]).
  assert (HDpos : 0 < D).
  { assert (0 < d * P) by (apply Z.mul_pos_pos; lia). lia. }
  assert (Hdivlen : length divisor = S (S (length lo))).
  { subst divisor. rewrite app_length, Hlen. cbn [length]. lia. }
  assert (Hdivin : Forall inW divisor).
  { subst divisor. apply Forall_inW_snoc2; assumption. }
  assert (HDn : D < P * (B * B)).
  { pose proof (eval_bound divisor Hdivin) as X. rewrite Hdivlen, Bn_SS in X. fold P in X. exact (proj2 X). }
  unfold nxm_norm_step. cbn [Nat.add Nat.sub]. rewrite !Nat.sub_0_r.
  rewrite get_at2, get_at1, get_at. cbn [obind]. fold n21.
  destruct (Z.ltb_spec d n21) as [Hc|_]; [lia|].
  destruct (Z.eqb_spec n21 d) as [Heq|Hne].
  - (* forced digit *)
    assert (Hfd : 0 <= W - (B - 1) * D < D).
    { apply (forced_digit P d D T W); try lia. subst T. rewrite Heq. unfold inW in Hn0. lia. }
    change (lo ++ n0 :: n1 :: n2 :: post) with (lo ++ [n0; n1] ++ n2 :: post).
    rewrite app_assoc.
    assert (Hwl : length (lo ++ [n0; n1]) = S (S (length lo))) by (rewrite app_length; cbn [length]; lia).
    rewrite slice_prefix by (symmetry; exact Hwl). cbn [obind].
    assert (Hwlin : Forall inW (lo ++ [n0; n1])).
    { apply Forall_inW_snoc2; assumption. }
    destruct (submul_nx1_spec (lo ++ [n0; n1]) divisor (B - 1))
      as (r & c & E & Hrl & Hrin & Hc & Hv); [lia | exact Hwlin | exact Hdivin | unfold inW; lia |].
    rewrite E. cbn [obind fst snd].
    rewrite splice_prefix by exact Hrl.
    replace (S (S (length lo))) with (length r) by lia.
    rewrite set_at. exists r.
    pose proof (eval_bound r Hrin) as Br. rewrite Hrl in Br. rewrite Hwl, Bn_SS in Br, Hv. fold P in Br, Hv.
    assert (EWl : W = eval (lo ++ [n0; n1]) + P * (B * B) * n2).
    { rewrite EW. subst T n21. rewrite eval_snoc2. fold P. unfold join. ring. }
    destruct (split_unique (P * (B * B)) (eval r) (W - (B - 1) * D) (n2 - c) 0) as [Er _]; try lia.
    destruct (divmod_unique W D (B - 1) (W - (B - 1) * D)) as [Eq Em]; [lia|lia|].
    rewrite Eq, Em. repeat split; try assumption; lia.
  - (* 3-by-2 estimate *)
    assert (Hlt : n21 < d) by lia.
    unfold PfDivSmall.LQ in *.
    rewrite (div_3x2_ok n21 n0 d Hd ltac:(lia) Hn0). cbn [obind]. fold T.
    assert (HTdB : 0 <= T < d * B).
    { split; [exact HT0|]. apply top_lt_dB; [lia | unfold inW in Hn0; lia]. }
    destruct (estimate_bounds P d D T W HP HdB HB HDb HWb HTdB HW)
      as [Hq HV].
    set (q := T / d) in *. set (rh := T mod d).
    assert (Hrh : 0 <= rh < d) by (apply Z.mod_pos_bound; lia).
    assert (ET : T = d * q + rh) by (apply Z.div_mod; lia).
    rewrite slice_prefix by reflexivity. cbn [obind].
    subst divisor. rewrite slice_prefix by (symmetry; exact Hlen). cbn [obind].
    destruct (submul_nx1_spec lo dl q) as (lo' & c & E & Hl' & Hin' & Hc & Hv);
      [lia | exact Hlo | exact Hdl | exact Hq |].
    rewrite E. cbn [obind fst snd]. fold P in Hv.
    rewrite splice_prefix by exact Hl'.
    pose proof (eval_bound lo' Hin') as Bl'. rewrite Hl' in Bl'. fold P in Bl'.
    (* V = W - q D = eval lo' + P (rh - c) *)
    assert (EV : W - q * D = eval lo' + P * (rh - c)).
    { rewrite EW, ED, ET. replace (eval lo) with (eval lo' - P * c + eval dl * q) by lia. ring. }
    unfold ov_sub128.
    set (r' := wrap128 (rh - c)).
    assert (Hr' : 0 <= r' < B * B).
    { subst r'. rewrite wrap128_mod. apply Z.mod_pos_bound. apply Z.mul_pos_pos; lia. }
    destruct (lo_hi_inW r' Hr') as (Hlo' & Hhi' & Ehl).
    rewrite <- Hl'. rewrite set_at. cbn [obind]. rewrite (set_at1 lo'). cbn [obind]. rewrite Hl'.
    assert (Hwl2 : length (lo' ++ [lo128 r'; hi128 r']) = S (S (length lo)))
      by (rewrite app_length, Hl'; cbn [length]; lia).
    assert (Hwl2in : Forall inW (lo' ++ [lo128 r'; hi128 r'])).
    { apply Forall_inW_snoc2; assumption. }
    assert (Ewl2 : eval (lo' ++ [lo128 r'; hi128 r']) = eval lo' + P * r').
    { rewrite eval_snoc2, Hl'. fold P. rewrite Ehl. reflexivity. }
    change (lo' ++ lo128 r' :: hi128 r' :: n2 :: post)
      with (lo' ++ [lo128 r'; hi128 r'] ++ n2 :: post).
    rewrite app_assoc.
    destruct (Z.ltb_spec rh c) as [Hbor|Hnb].
    + (* add back *)
      assert (Er' : r' = rh - c + B * B) by (subst r'; apply wrap128_add; lia).
      rewrite slice_prefix by (symmetry; exact Hwl2). cbn [obind].
      rewrite <- Hdivlen. rewrite slice_all by reflexivity. cbn [obind]. rewrite Hdivlen.
      destruct (adc_n_spec (lo' ++ [lo128 r'; hi128 r']) (dl ++ [d0; d1]) 0)
        as (r & c' & Ea & Hrl & Hrin & Hc' & Hva); [lia | exact Hwl2in | exact Hdivin | lia |].
      rewrite Ea. cbn [obind fst snd].
      pose proof (eval_bound r Hrin) as Br. rewrite Hrl in Br. rewrite Hwl2, Bn_SS in Br, Hva. fold P in Br, Hva.
      fold D in Hva. rewrite Ewl2, Er' in Hva.
      assert (HVneg : W - q * D < 0) by (rewrite EV; apply V_neg; lia).
      destruct (split_unique (P * (B * B)) (eval r) (W - q * D + D) c' 1) as [Er Ec]; try lia.
      rewrite Ec, Z.eqb_refl. cbn [obind fst snd].
      rewrite splice_prefix by exact Hrl.
      replace (S (S (length lo))) with (length r) by lia. rewrite set_at.
      assert (Hq1 : 1 <= q).
      { destruct (Z.eq_dec q 0) as [Hq0|Hq0]; [|lia]. rewrite Hq0 in HVneg.
        assert (0 <= T * P) by (apply Z.mul_nonneg_nonneg; lia). lia. }
      rewrite wrap_small by lia.
      destruct (divmod_unique W D (q - 1) (W - q * D + D)) as [Eq Em]; [lia|lia|].
      rewrite Eq, Em. exists r. repeat split; try assumption; lia.
    + assert (Er' : r' = rh - c) by (subst r'; apply wrap128_small; lia).
      cbn [obind fst snd].
      replace (S (S (length lo))) with (length (lo' ++ [lo128 r'; hi128 r'])) by exact Hwl2.
      rewrite set_at.
      assert (HVpos : 0 <= W - q * D) by (rewrite EV; apply V_pos; lia).
      destruct (divmod_unique W D q (W - q * D)) as [Eq Em]; [lia|lia|].
      rewrite Eq, Em. exists (lo' ++ [lo128 r'; hi128 r']).
      repeat split; try assumption. rewrite Ewl2, Er', EV. reflexivity.
Qed.

(* ---------- div_nxm_normalized: the loop ---------- *)
Lemma divmod_step X' W D Pj lowv :
  0 < D -> 0 <= Pj ->
  X' = lowv + Pj * (W mod D) ->
  (lowv + Pj * W) / D = X' / D + Pj * (W / D) /\ (lowv + Pj * W) mod D = X' mod D.
Proof.
  intros HD HP ->. pose proof (Z.div_mod W D ltac:(lia)) as E.
  set (q := W / D) in *. set (r := W mod D) in *.
  replace (lowv + Pj * W) with (lowv + Pj * r + (Pj * q) * D) by (rewrite E; ring).
  split; [apply Z.div_add; lia | apply Z.mod_add; lia].
Qed.

Section NormLoop.
  Variables (dl : list Z) (d0 d1 : Z).
  Hypothesis Hdl : Forall inW dl.
  Hypothesis Hd0 : inW d0.
  Hypothesis Hd1 : inW d1.
  Hypothesis Hnorm : 2 ^ 63 <= d1.
  Let divisor := dl ++ [d0; d1].
  Let n := S (S (length dl)).
  Let D := eval divisor.
  Let d := join d1 d0.

  Lemma norm_loop_spec : forall k low rem qdone,
    length low = k -> length rem = n -> Forall inW low -> Forall inW rem -> eval rem < D ->
    exists r q, nxm_norm_loop k (low ++ rem ++ qdone) divisor n d (recip2 d) = Val (r ++ q ++ qdone) /\
      length r = n /\ length q = k /\ Forall inW r /\ Forall inW q /\
      eval r = eval (low ++ rem) mod D /\ eval q = eval (low ++ rem) / D.
  Proof.
    pose proof B_pos as HB.
    induction k as [|j IH]; intros low rem qdone Hlow Hrem Hinl Hinr Hlt.
    - destruct low; [|discriminate]. cbn [nxm_norm_loop app].
      pose proof (eval_bound rem Hinr) as Br.
      exists rem, []. cbn [app length]. repeat split; auto.
      + rewrite Z.mod_small; lia.
      + rewrite Z.div_small; [reflexivity|lia].
    - destruct (list_snoc_inv low) as (low' & x & ->); [destruct low; discriminate|].
      rewrite app_length in Hlow. cbn [length] in Hlow.
      assert (Hj : j = length low') by lia. subst j. clear Hlow.
      apply Forall_app in Hinl. destruct Hinl as [Hinl' Hx]. inversion Hx as [|? ? Hx' _]; subst.
      destruct (list_top2 rem (length dl) Hrem) as (lor & a & b & -> & Hlor).
      apply Forall_app in Hinr. destruct Hinr as [Hlorin Hab].
      inversion Hab as [|? ? Ha Hb']; subst. inversion Hb' as [|? ? Hb _]; subst.
      destruct (list_snoc_inv (x :: lor)) as (lo & n0 & Elo); [discriminate|].
      assert (Hlolen : length lo = length dl).
      { apply (f_equal (@length Z)) in Elo. rewrite app_length in Elo. cbn [length] in Elo. lia. }
      assert (Hloin : Forall inW lo /\ inW n0).
      { assert (F : Forall inW (x :: lor)) by (constructor; assumption).
        rewrite Elo in F. apply Forall_app in F. destruct F as [F1 F2]. inversion F2; auto. }
      destruct Hloin as [Hloin Hn0].
      (* the numerator seen around the window *)
      assert (Enum : (low' ++ [x]) ++ (lor ++ [a; b]) ++ qdone = low' ++ (lo ++ n0 :: a :: b :: qdone)).
      { rewrite <- !app_assoc. f_equal. change ([x] ++ lor ++ [a; b] ++ qdone) with ((x :: lor) ++ [a; b] ++ qdone).
        rewrite Elo, <- app_assoc. reflexivity. }
      assert (EWx : eval (lo ++ [n0; a; b]) = x + B * eval (lor ++ [a; b])).
      { change (lo ++ [n0; a; b]) with (lo ++ [n0] ++ [a; b]). rewrite app_assoc, <- Elo. reflexivity. }
      set (W := eval (lo ++ [n0; a; b])) in *.
      assert (HW : W < D * B) by (unfold inW in Hx'; nia).
      cbn [nxm_norm_loop]. rewrite Enum.
      rewrite nxm_norm_step_local by (unfold n; lia).
      unfold n. rewrite <- Hlolen.
      destruct (norm_step_win lo n0 a b qdone dl d0 d1 (eq_sym Hlolen) Hloin Hn0 Ha Hb Hdl Hd0 Hd1 Hnorm HW)
        as (wl' & E & Hwl & Hwlin & Hwv).
      fold divisor d W D in E, Hwv. rewrite E. cbn [omap obind].
      assert (HDpos : 0 < D).
      { pose proof (eval_bound (lor ++ [a; b]) ltac:(apply Forall_inW_snoc2; assumption)). lia. }
      assert (Hmod : 0 <= W mod D < D) by (apply Z.mod_pos_bound; lia).
      rewrite Hlolen in Hwl.
      destruct (IH low' wl' (W / D :: qdone) eq_refl Hwl Hinl' Hwlin ltac:(lia))
        as (r & q' & E2 & Hr & Hq' & Hrin & Hq'in & Hrv & Hqv).
      fold n. rewrite Hlolen. fold n. rewrite E2.
      assert (HWq : inW (W / D)).
      { unfold inW. split; [apply Z.div_pos; [|lia] | apply Z.div_lt_upper_bound; lia].
        pose proof (eval_bound (lo ++ [n0; a; b])) as X. unfold W.
        apply X. apply Forall_app. split; [assumption|]. constructor; [assumption|apply Forall_inW2; assumption]. }
      set (j := length low') in *.
      rewrite eval_app in Hrv, Hqv. fold j in Hrv, Hqv.
      destruct (divmod_step (eval low' + B ^ Z.of_nat j * eval wl') W D (B ^ Z.of_nat j) (eval low'))
        as [Q R]; [lia | pose proof (Bn_pos j); lia | rewrite Hwv; reflexivity |].
      assert (EX : eval ((low' ++ [x]) ++ lor ++ [a; b]) = eval low' + B ^ Z.of_nat j * W).
      { rewrite EWx, <- app_assoc, eval_app. fold j. cbn [app eval]. ring. }
      rewrite EX.
      exists r, (q' ++ [W / D]). rewrite <- !app_assoc. cbn [app].
      rewrite !app_length. cbn [length].
      repeat split; auto.
      + lia.
      + apply Forall_app. split; [assumption|]. constructor; [assumption|constructor].
      + rewrite Hrv. symmetry. exact R.
      + rewrite eval_app, Hq'. cbn [eval]. rewrite Hqv, Q. ring.
  Qed.
End NormLoop.

Lemma last_snoc2 (l : list Z) a b : last (l ++ [a; b]) 0 = b.
Proof. change (l ++ [a; b]) with (l ++ [a] ++ [b]). rewrite app_assoc. apply last_snoc. Qed.

Definition LR (len : nat) (v : Z) : list Z := to_limbs len v.

Theorem div_nxm_normalized_spec n d :
  Forall inW n -> Forall inW d ->
  (2 <= length d)%nat -> (length d < length n)%nat -> 2 ^ 63 <= last d 0 ->
  eval (skipn (length n - length d) n) < eval d ->
  div_nxm_normalized n d =
  Val (to_limbs (length d) (eval n mod eval d) ++ to_limbs (length n - length d) (eval n / eval d)).
Proof.
  intros Hn Hd Hl2 Hlt Htop Himp.
  destruct (list_top2 d (length d - 2)) as (dl & d0 & d1 & -> & Hdl); [lia|].
  rewrite last_snoc2 in Htop.
  apply Forall_app in Hd. destruct Hd as [Hdlin Hd01].
  inversion Hd01 as [|? ? Hd0 Hd1']; subst. inversion Hd1' as [|? ? Hd1 _]; subst.
  assert (Hlen : length (dl ++ [d0; d1]) = S (S (length dl))) by (rewrite app_length; cbn [length]; lia).
  unfold div_nxm_normalized.
  assert (Hcmp : RV.Model.Add.limbs_cmp (skipn (length n - length (dl ++ [d0; d1])) n) (dl ++ [d0; d1]) = Lt).
  { rewrite PfC01.limbs_cmp_spec.
    - apply Z.compare_lt_iff. exact Himp.
    - rewrite skipn_length. lia.
    - rewrite <- (firstn_skipn (length n - length (dl ++ [d0; d1])) n) in Hn.
      apply Forall_app in Hn. exact (proj2 Hn).
    - apply Forall_inW_snoc2; assumption. }
  rewrite Hcmp. rewrite Hlen in *.
  destruct (Nat.ltb_spec (S (S (length dl))) 2); [lia|].
  destruct (Nat.ltb_spec (S (S (length dl))) (length n)); [|lia]. cbn [negb].
  rewrite last_snoc2. destruct (Z.ltb_spec d1 (2 ^ 63)); [lia|].
  cbn [Nat.sub]. rewrite Nat.sub_0_r, get_at1, get_at. cbn [obind].
  destruct (norm_d d0 d1 Hd0 Hd1 Htop) as [Hdn _].
  rewrite (reciprocal_2_ok _ Hdn). cbn [obind].
  set (k := (length n - S (S (length dl)))%nat) in *.
  replace (S (k - 1)) with k by lia.
  assert (Hlow : length (firstn k n) = k) by (apply firstn_length_le; lia).
  assert (Hrem : length (skipn k n) = S (S (length dl))) by (rewrite skipn_length; lia).
  assert (Hnin : Forall inW (firstn k n) /\ Forall inW (skipn k n)).
  { rewrite <- (firstn_skipn k n) in Hn. apply Forall_app in Hn. exact Hn. }
  destruct (norm_loop_spec dl d0 d1 Hdlin Hd0 Hd1 Htop k (firstn k n) (skipn k n) []
              Hlow Hrem (proj1 Hnin) (proj2 Hnin) Himp)
    as (r & q & E & Hr & Hq & Hrin & Hqin & Hrv & Hqv).
  rewrite !app_nil_r, firstn_skipn in *. rewrite E. f_equal. f_equal.
  - symmetry. apply to_limbs_unique; auto.
  - symmetry. apply to_limbs_unique; auto.
Qed.

(* ---------- div_nxm: the shifted top limbs as computed by the code ---------- *)
Lemma lor_shl128 s x y : 0 < s < 64 -> 0 <= x -> x * 2 ^ s < B * B -> inW y ->
  Z.lor (shl128 x s) (shr64 y (64 - s)) = x * 2 ^ s + y / 2 ^ (64 - s).
Proof.
  intros Hs Hx Hlt Hy. assert (H1 : 0 < 2 ^ s) by (apply Z.pow_pos_nonneg; lia).
  destruct (shl_shr_split y s Hy Hs) as (_ & Ry & _ & _).
  assert (E : shl128 x s = x * 2 ^ s).
  { unfold shl128. rewrite BB_eq. apply Z.mod_small. split; [apply Z.mul_nonneg_nonneg; lia|lia]. }
  rewrite E. apply (lor_disjoint _ _ s); try lia.
  all: try (apply Z.mod_mul; lia).
  all: try (apply Z.mul_nonneg_nonneg; lia).
Qed.

Lemma tops_code s n21 n0 n3 : 0 < s < 64 -> 0 <= n21 -> n21 * 2 ^ s < B * B -> inW n0 -> inW n3 ->
  let n21' := Z.lor (shl128 n21 s) (shr64 n0 (64 - s)) in
  let n0' := Z.lor (shl64 n0 s) (shr64 n3 (64 - s)) in
  inW n0' /\ 0 <= n21' /\
  n21' * B + n0' = (n21 * B + n0) * 2 ^ s + n3 / 2 ^ (64 - s).
Proof.
  intros Hs Hn21 Hlt Hn0 Hn3 n21' n0'.
  assert (H1 : 0 < 2 ^ s) by (apply Z.pow_pos_nonneg; lia).
  destruct (shl_shr_split n0 s Hn0 Hs) as (S0 & R0 & L0 & M0).
  destruct (shl_shr_split n3 s Hn3 Hs) as (_ & R3 & _ & _).
  assert (E1 : n21' = n21 * 2 ^ s + n0 / 2 ^ (64 - s)) by (apply lor_shl128; assumption).
  assert (E0 : n0' = shl64 n0 s + shr64 n3 (64 - s)) by (apply (lor_disjoint _ _ s); lia).
  unfold shr64 in *. rewrite E1, E0. unfold inW.
  assert (0 <= n21 * 2 ^ s) by (apply Z.mul_nonneg_nonneg; lia).
  repeat split; lia.
Qed.

Lemma get_or0_prefix a post : get_or0 (a ++ post) (length a) = hd 0 post.
Proof. destruct post; [rewrite app_nil_r; apply get_or0_end | apply get_or0_at]. Qed.

Lemma x_div_B x : inW x -> x / 2 ^ (64 - 0) = 0.
Proof. intros H. rewrite Z.sub_0_r, <- B_pow. apply Z.div_small. exact H. Qed.

Lemma succ_shift_le h s : 0 <= s <= 63 -> 0 <= h -> h * 2 ^ s < B -> (h + 1) * 2 ^ s <= B.
Proof.
  intros Hs Hh Hlt. pose proof (B_split s ltac:(lia)) as Bs.
  assert (0 < 2 ^ s) by (apply Z.pow_pos_nonneg; lia).
  rewrite Bs in *.
  assert (h < 2 ^ (64 - s)) by (apply (Z.mul_lt_mono_pos_r (2 ^ s)); lia).
  apply Z.mul_le_mono_nonneg_r; lia.
Qed.

Lemma nxm_store wl' post q qh n : length wl' = n ->
  (if Nat.ltb n (length (wl' ++ post))
   then do num0 <- set (wl' ++ post) n q ; Val (num0, qh)
   else Val (wl' ++ post, q)) =
  Val (wl' ++ match post with [] => [] | _ :: p => q :: p end,
       match post with [] => q | _ => qh end).
Proof.
  intros <-. rewrite app_length. destruct post as [|x p].
  - cbn [length]. destruct (Nat.ltb_spec (length wl') (length wl' + 0)); [lia|]. reflexivity.
  - cbn [length]. destruct (Nat.ltb_spec (length wl') (length wl' + S (length p))); [|lia].
    rewrite set_at. reflexivity.
Qed.

Lemma eval_snoc3' lo a b c :
  eval (lo ++ [a; b; c]) =
  eval lo + B ^ Z.of_nat (length lo) * a + B ^ Z.of_nat (S (length lo)) * (b + B * c).
Proof. rewrite eval_app, Bn_S. cbn [eval]. ring. Qed.
Lemma Bn_SSS k : B ^ Z.of_nat (S (S (S k))) = B ^ Z.of_nat (S k) * (B * B).
Proof. rewrite !Bn_S. ring. Qed.

Lemma Forall_inW3 l a b c : Forall inW l -> inW a -> inW b -> inW c -> Forall inW (l ++ [a; b; c]).
Proof.
  intros. apply Forall_app. split; [assumption|]. constructor; [assumption|apply Forall_inW2; assumption].
Qed.

Lemma hd_inW post : Forall inW post -> inW (hd 0 post).
Proof. intros H. destruct H; cbn [hd]; [unfold inW; pose proof B_pos; lia | assumption]. Qed.

(* ---------- div_nxm: one iteration at offset 0 ---------- *)
Lemma nxm_step_win lo3 n3 n0 n1 post dl3 d3 d0 d1 qh :
  length dl3 = length lo3 ->
  Forall inW lo3 -> inW n3 -> inW n0 -> inW n1 -> Forall inW post ->
  Forall inW dl3 -> inW d3 -> inW d0 -> inW d1 -> 0 < d1 ->
  let divisor := dl3 ++ [d3; d0; d1] in
  let n := S (S (S (length lo3))) in
  let D := eval divisor in
  let s := clz64 d1 in
  let dd := join d1 d0 in
  let d' := if s =? 0 then dd else Z.lor (shl128 dd s) (shr64 d3 (64 - s)) in
  let n2 := hd 0 post in
  let W := eval (lo3 ++ [n3; n0; n1]) + B ^ Z.of_nat n * n2 in
  W < D * B ->
  2 ^ 127 <= d' < B * B /\
  exists wl',
    nxm_step (lo3 ++ n3 :: n0 :: n1 :: post) divisor n 0 d' (recip2 d') s qh
      = Val (wl' ++ match post with [] => [] | _ :: p => W / D :: p end,
             match post with [] => W / D | _ => qh end) /\
    length wl' = n /\ Forall inW wl' /\ eval wl' = W mod D.
Proof.
  intros Hlen Hlo Hn3 Hn0 Hn1 Hpost Hdl Hd3 Hd0 Hd1 Hd1pos divisor n D s dd d' n2 W HW.
  pose proof B_pos as HB.
  pose proof (hd_inW post Hpost) as Hn2. fold n2 in Hn2.
  set (kk := length lo3) in *.
  set (P := B ^ Z.of_nat (S kk)).
  assert (HP : 0 < P) by apply Bn_pos.
  pose proof (eval_bound lo3 Hlo) as Blo. fold kk in Blo.
  pose proof (eval_bound dl3 Hdl) as Bdl. rewrite Hlen in Bdl. fold kk in Bdl.
  set (n21 := join n2 n1). set (T := n21 * B + n0).
  assert (ED : D = eval dl3 + B ^ Z.of_nat kk * d3 + P * dd).
  { subst D divisor dd. rewrite eval_snoc3', Hlen. fold kk P. unfold join. ring. }
  assert (EW : W = eval lo3 + B ^ Z.of_nat kk * n3 + P * T).
  { subst W T n21 n. rewrite eval_snoc3', Bn_SSS. fold kk P. unfold join. ring. }
  assert (Hn21 : 0 <= n21).
  { subst n21. unfold join. unfold inW in Hn1, Hn2.
    assert (0 <= n2 * B) by (apply Z.mul_nonneg_nonneg; lia). lia. }
  assert (HT0 : 0 <= T).
  { subst T. unfold inW in Hn0. assert (0 <= n21 * B) by (apply Z.mul_nonneg_nonneg; lia). lia. }
  (* shift amount *)
  destruct (clz64_spec d1 ltac:(unfold inW in Hd1; lia)) as [Hs Hsd]. fold s in Hs, Hsd.
  assert (H2s : 0 < 2 ^ s) by (apply Z.pow_pos_nonneg; lia).
  (* shifted divisor / window tops *)
  set (d'' := dd * 2 ^ s + d3 / 2 ^ (64 - s)).
  set (T'' := T * 2 ^ s + n3 / 2 ^ (64 - s)).
  pose proof (shifted_top kk (eval dl3) d3 dd s ltac:(lia) Hd3 Bdl) as HDb.
  pose proof (shifted_top kk (eval lo3) n3 T s ltac:(lia) Hn3 Blo) as HWb.
  cbv zeta in HDb, HWb. fold P d'' in HDb. fold P T'' in HWb. rewrite <- ED in HDb. rewrite <- EW in HWb.
  assert (Hd3s : 0 <= d3 / 2 ^ (64 - s) < 2 ^ s).
  { destruct (Z.eq_dec s 0) as [->|Hs0]; [rewrite (x_div_B d3 Hd3); lia|].
    destruct (shl_shr_split d3 s Hd3 ltac:(lia)) as (_ & R & _). exact R. }
  assert (Hn3s : 0 <= n3 / 2 ^ (64 - s) < 2 ^ s).
  { destruct (Z.eq_dec s 0) as [->|Hs0]; [rewrite (x_div_B n3 Hn3); lia|].
    destruct (shl_shr_split n3 s Hn3 ltac:(lia)) as (_ & R & _). exact R. }
  assert (Hdds : 2 ^ 63 * B <= dd * 2 ^ s /\ dd * 2 ^ s <= B * B - 2 ^ s).
  { subst dd. unfold join. unfold inW in Hd0.
    pose proof (succ_shift_le d1 s Hs ltac:(lia) ltac:(lia)) as Hsucc.
    assert (0 <= d0 * 2 ^ s <= (B - 1) * 2 ^ s).
    { split; [apply Z.mul_nonneg_nonneg; lia | apply Z.mul_le_mono_nonneg_r; lia]. }
    assert ((d1 + 1) * 2 ^ s * B <= B * B) by (apply Z.mul_le_mono_nonneg_r; lia).
    assert (2 ^ 63 * B <= d1 * 2 ^ s * B) by (apply Z.mul_le_mono_nonneg_r; lia).
    split; [|]; lia. }
  assert (Hd'' : 2 ^ 127 <= d'' < B * B) by (rewrite pow127; subst d''; lia).
  assert (Ed' : d' = d'').
  { subst d' d''. destruct (Z.eqb_spec s 0) as [Hs0|Hs0].
    - rewrite Hs0, (x_div_B d3 Hd3), Z.pow_0_r. ring.
    - apply lor_shl128; try lia; try assumption. }
  split; [rewrite Ed'; exact Hd''|]. rewrite Ed'. clear Ed' d'.
  assert (HdB : B <= d'') by (pose proof pow63; rewrite pow127 in Hd''; nia).
  assert (HD'W' : W * 2 ^ s < D * 2 ^ s * B).
  { replace (D * 2 ^ s * B) with (D * B * 2 ^ s) by ring. apply Z.mul_lt_mono_pos_r; lia. }
  assert (HTlt : T'' < (d'' + 1) * B) by (apply (top_lt P d'' (D * 2 ^ s) T'' (W * 2 ^ s)); lia).
  assert (HT''0 : 0 <= T'').
  { subst T''. assert (0 <= T * 2 ^ s) by (apply Z.mul_nonneg_nonneg; lia). lia. }
  assert (HDpos : 0 < D).
  { assert (0 < d'' * P) by (apply Z.mul_pos_pos; lia).
    apply (mul_lt_cancel_r 0 D (2 ^ s)); lia. }
  assert (Hdivlen : length divisor = n).
  { subst divisor n. rewrite app_length, Hlen. cbn [length]. fold kk. lia. }
  assert (Hdivin : Forall inW divisor) by (apply Forall_inW3; assumption).
  set (wl := lo3 ++ [n3; n0; n1]).
  assert (Hwllen : length wl = n) by (subst wl n; rewrite app_length; cbn [length]; fold kk; lia).
  assert (Hwlin : Forall inW wl) by (apply Forall_inW3; assumption).
  set (Pn := B ^ Z.of_nat n) in *.
  assert (HPn : 0 < Pn) by apply Bn_pos.
  assert (HDn : D < Pn).
  { pose proof (eval_bound divisor Hdivin) as X. rewrite Hdivlen in X. exact (proj2 X). }
  pose proof (eval_bound wl Hwlin) as Bwl. rewrite Hwllen in Bwl. fold Pn in Bwl.
  assert (EWwl : W = eval wl + Pn * n2) by reflexivity.
  (* the tops as the code computes them *)
  assert (Htops : exists n21c n0c,
     (if s =? 0 then Val (n21, n0)
      else do n3' <- Val n3 ;
           Val (Z.lor (shl128 n21 s) (shr64 n0 (64 - s)),
                Z.lor (shl64 n0 s) (shr64 n3' (64 - s)))) = Val (n21c, n0c) /\
     inW n0c /\ 0 <= n21c /\ n21c * B + n0c = T'').
  { destruct (Z.eqb_spec s 0) as [Hs0|Hs0].
    - exists n21, n0. repeat split; auto; try (unfold inW in Hn0; lia).
      subst T'' T. rewrite Hs0, (x_div_B n3 Hn3), Z.pow_0_r. ring.
    - cbn [obind]. eexists _, _. split; [reflexivity|].
      apply tops_code; try lia; try assumption.
      (* n21 * 2^s < B*B since T'' < B^3 *)
      assert (n21 * B * 2 ^ s <= T * 2 ^ s).
      { apply Z.mul_le_mono_nonneg_r; [lia|]. subst T. unfold inW in Hn0. lia. }
      assert ((d'' + 1) * B <= B * B * B) by (apply Z.mul_le_mono_nonneg_r; lia).
      apply (mul_lt_cancel_r _ _ B HB). lia. }
  destruct Htops as (n21c & n0c & Etops & Hn0c & Hn21c & ET'').
  assert (Hle : n21c <= d'') by (apply (top_le n21c n0c d''); [rewrite ET''; exact HTlt | unfold inW in Hn0c; lia]).
  (* ---- symbolic execution ---- *)
  assert (Enum : lo3 ++ n3 :: n0 :: n1 :: post = wl ++ post).
  { unfold wl. rewrite <- app_assoc. reflexivity. }
  assert (Eg : get_or0 (lo3 ++ n3 :: n0 :: n1 :: post) n = n2).
  { rewrite Enum, <- Hwllen. apply get_or0_prefix. }
  assert (G1 : get (lo3 ++ n3 :: n0 :: n1 :: post) (n - 1) = Val n1) by apply get_at2.
  assert (G2 : get (lo3 ++ n3 :: n0 :: n1 :: post) (n - 2) = Val n0) by apply get_at1.
  assert (G3 : get (lo3 ++ n3 :: n0 :: n1 :: post) (n - 3) = Val n3).
  { replace (n - 3)%nat with (length lo3) by (subst n kk; lia). apply get_at. }
  assert (Esd : slice divisor 0 n = Val divisor) by (apply slice_all; symmetry; exact Hdivlen).
  unfold nxm_step. cbn [Nat.add]. rewrite G1, G2, G3, Eg. cbn [obind]. fold n21.
  cbn [obind] in Etops. rewrite Etops. cbn [obind].
  destruct (Z.ltb_spec d'' n21c) as [Hc|_]; [lia|].
  rewrite Enum.
  destruct (Z.ltb_spec n21c d'') as [Hlt|Hge].
  - (* 3-by-2 estimate *)
    rewrite (div_3x2_ok n21c n0c d'' Hd'' ltac:(lia) Hn0c). cbn [obind]. rewrite ET''.
    assert (HTdB : 0 <= T'' < d'' * B).
    { split; [exact HT''0|]. rewrite <- ET''. apply top_lt_dB; [lia | unfold inW in Hn0c; lia]. }
    destruct (estimate_bounds P d'' (D * 2 ^ s) T'' (W * 2 ^ s) HP HdB HB HDb HWb HTdB HD'W')
      as [Hq HV'].
    set (q := T'' / d'') in *. set (rh := T'' mod d'').
    assert (HV : - D <= W - q * D < D).
    { apply (scale_bounds _ _ s); [lia|].
      replace ((W - q * D) * 2 ^ s) with (W * 2 ^ s - q * (D * 2 ^ s)) by ring. lia. }
    assert (Hrh : 0 <= rh < d'') by (apply Z.mod_pos_bound; lia).
    assert (ET : T'' = d'' * q + rh) by (apply Z.div_mod; lia).
    destruct (Z.eqb_spec q 0) as [Hq0|Hq0]; cbn [negb].
    + (* q = 0: nothing to subtract *)
      rewrite Hq0 in HV.
      assert (Hn20 : n2 = 0).
      { assert (Pn * n2 < Pn * 1) by lia. unfold inW in Hn2.
        apply Z.mul_lt_mono_pos_l in H; lia. }
      cbn [obind]. rewrite (nxm_store wl post q qh n Hwllen).
      destruct (divmod_unique W D 0 W) as [Eq Em]; [lia|lia|].
      rewrite Eq, Em, Hq0. exists wl. repeat split; auto. lia.
    + assert (Hq1 : 1 <= q) by lia.
      destruct (Z.eqb_spec s 0) as [Hs0|Hs0].
      * (* shift = 0 : subtract below the two remainder limbs *)
        assert (Edd : d'' = dd) by (subst d''; rewrite Hs0, (x_div_B d3 Hd3), Z.pow_0_r; ring).
        assert (ETT : T'' = T) by (subst T''; rewrite Hs0, (x_div_B n3 Hn3), Z.pow_0_r; ring).
        set (lo := lo3 ++ [n3]). set (dl := dl3 ++ [d3]).
        assert (Hlolen : length lo = S kk) by (subst lo; rewrite app_length; cbn [length]; fold kk; lia).
        assert (Hdllen : length dl = S kk) by (subst dl; rewrite app_length, Hlen; cbn [length]; fold kk; lia).
        assert (Hloin : Forall inW lo).
        { apply Forall_app. split; [assumption|constructor; [assumption|constructor]]. }
        assert (Hdlin : Forall inW dl).
        { apply Forall_app. split; [assumption|constructor; [assumption|constructor]]. }
        assert (Enum2 : wl ++ post = lo ++ n0 :: n1 :: post).
        { unfold wl, lo. rewrite <- !app_assoc. reflexivity. }
        assert (Ediv2 : divisor = dl ++ [d0; d1]).
        { unfold divisor, dl. rewrite <- app_assoc. reflexivity. }
        assert (Elo : eval lo = eval lo3 + B ^ Z.of_nat kk * n3).
        { unfold lo. rewrite eval_app. fold kk. cbn [eval]. ring. }
        assert (Edl : eval dl = eval dl3 + B ^ Z.of_nat kk * d3).
        { unfold dl. rewrite eval_app, Hlen. fold kk. cbn [eval]. ring. }
        rewrite Enum2.
        change (n - 2)%nat with (S kk). change (n - 1)%nat with (S (S kk)).
        rewrite slice_prefix by (symmetry; exact Hlolen). cbn [obind].
        assert (Esd2 : slice divisor 0 (S kk) = Val dl).
        { rewrite Ediv2. apply slice_prefix. symmetry. exact Hdllen. }
        rewrite Esd2. cbn [obind].
        destruct (submul_nx1_spec lo dl q) as (lo' & c & E & Hl' & Hin' & Hc & Hv);
          [lia | exact Hloin | exact Hdlin | exact Hq |].
        rewrite E. cbn [obind fst snd]. rewrite Hlolen in Hv. fold P in Hv.
        rewrite splice_prefix by exact Hl'.
        pose proof (eval_bound lo' Hin') as Bl'. rewrite Hl', Hlolen in Bl'. fold P in Bl'.
        assert (EV : W - q * D = eval lo' + P * (rh - c)).
        { rewrite EW, ED, <- Edd, <- ETT, ET.
          replace (eval lo3 + B ^ Z.of_nat kk * n3) with (eval lo' - P * c + eval dl * q) by lia.
          rewrite Edl. ring. }
        unfold ov_sub128.
        set (r' := wrap128 (rh - c)).
        assert (Hr' : 0 <= r' < B * B).
        { subst r'. rewrite wrap128_mod. apply Z.mod_pos_bound. apply Z.mul_pos_pos; lia. }
        destruct (lo_hi_inW r' Hr') as (Hlo' & Hhi' & Ehl).
        replace (S kk) with (length lo') by lia.
        rewrite set_at. cbn [obind]. rewrite (set_at1 lo'). cbn [obind].
        set (wl2 := lo' ++ [lo128 r'; hi128 r']).
        assert (Hwl2 : length wl2 = n).
        { subst wl2 n. rewrite app_length, Hl', Hlolen. cbn [length]. lia. }
        assert (Hwl2in : Forall inW wl2) by (apply Forall_inW_snoc2; assumption).
        assert (EPn : Pn = P * (B * B)) by (subst Pn P n; apply Bn_SSS).
        assert (Ewl2 : eval wl2 = eval lo' + P * r').
        { subst wl2. rewrite eval_snoc2, Hl', Hlolen. fold P. rewrite Ehl. reflexivity. }
        assert (Enum3 : lo' ++ lo128 r' :: hi128 r' :: post = wl2 ++ post).
        { subst wl2. rewrite <- app_assoc. reflexivity. }
        rewrite Enum3.
        destruct (Z.ltb_spec rh c) as [Hbor|Hnb]; cbn [obind].
        -- assert (Er' : r' = rh - c + B * B) by (subst r'; apply wrap128_add; lia).
           rewrite slice_prefix by (symmetry; exact Hwl2). cbn [obind].
           rewrite Esd. cbn [obind].
           destruct (adc_n_spec wl2 divisor 0)
             as (r & c' & Ea & Hrl & Hrin & Hc' & Hva); [lia | exact Hwl2in | exact Hdivin | lia |].
           rewrite Ea. cbn [obind fst snd].
           pose proof (eval_bound r Hrin) as Br. rewrite Hrl in Br. rewrite Hwl2 in Br, Hva.
           fold Pn D in Br, Hva. rewrite Ewl2, Er' in Hva.
           assert (HVneg : W - q * D < 0) by (rewrite EV; apply V_neg; lia).
           destruct (split_unique Pn (eval r) (W - q * D + D) c' 1) as [Er Ec]; try lia.
           rewrite Ec, Z.eqb_refl. cbn [obind fst snd].
           rewrite splice_prefix by exact Hrl.
           rewrite (nxm_store r post _ qh n) by lia.
           rewrite wrap_small by lia.
           destruct (divmod_unique W D (q - 1) (W - q * D + D)) as [Eq Em]; [lia|lia|].
           rewrite Eq, Em. exists r. repeat split; try assumption; lia.
        -- assert (Er' : r' = rh - c) by (subst r'; apply wrap128_small; lia).
           rewrite (nxm_store wl2 post q qh n Hwl2).
           assert (HVpos : 0 <= W - q * D) by (rewrite EV; apply V_pos; lia).
           destruct (divmod_unique W D q (W - q * D)) as [Eq Em]; [lia|lia|].
           rewrite Eq, Em. exists wl2.
           repeat split; try assumption. rewrite Ewl2, Er', EV. reflexivity.
      * (* shift <> 0 : subtract over the whole window, compare the borrow with the top limb *)
        rewrite slice_prefix by (symmetry; exact Hwllen). cbn [obind].
        destruct (submul_nx1_spec wl divisor q) as (r & c & E & Hrl & Hrin & Hc & Hv);
          [lia | exact Hwlin | exact Hdivin | exact Hq |].
        rewrite E. cbn [obind fst snd]. rewrite Hwllen in Hv. fold Pn D in Hv.
        rewrite splice_prefix by exact Hrl.
        assert (Eg2 : get_or0 (r ++ post) n = n2).
        { assert (Hn' : n = length r) by lia. rewrite Hn'. apply get_or0_prefix. }
        rewrite Eg2.
        pose proof (eval_bound r Hrin) as Br. rewrite Hrl, Hwllen in Br. fold Pn in Br.
        assert (EV : W - q * D = eval r + Pn * (n2 - c)) by lia.
        destruct (Z.lt_ge_cases (W - q * D) 0) as [HVneg|HVpos].
        -- destruct (split_unique Pn (eval r) (W - q * D + Pn) (n2 - c) (-1)) as [Er Ec]; try lia.
           destruct (Z.eqb_spec c n2) as [Hcn|_]; [lia|]. cbn [negb]. cbn [obind].
           rewrite slice_prefix by lia. cbn [obind]. rewrite Esd. cbn [obind].
           destruct (adc_n_spec r divisor 0)
             as (r2 & c' & Ea & Hr2l & Hr2in & Hc' & Hva); [lia | exact Hrin | exact Hdivin | lia |].
           rewrite Ea. cbn [obind fst snd].
           pose proof (eval_bound r2 Hr2in) as Br2. rewrite Hr2l in Br2. rewrite Hrl, Hwllen in Br2, Hva.
           fold Pn D in Br2, Hva.
           destruct (split_unique Pn (eval r2) (W - q * D + D) c' 1) as [Er2 Ec']; try lia.
           rewrite Ec', Z.eqb_refl. cbn [obind fst snd].
           rewrite splice_prefix by exact Hr2l.
           rewrite (nxm_store r2 post _ qh n) by lia.
           rewrite wrap_small by lia.
           destruct (divmod_unique W D (q - 1) (W - q * D + D)) as [Eq Em]; [lia|lia|].
           rewrite Eq, Em. exists r2. repeat split; try assumption; lia.
        -- destruct (split_unique Pn (eval r) (W - q * D) (n2 - c) 0) as [Er Ec]; try lia.
           destruct (Z.eqb_spec c n2) as [_|Hcn]; [|lia]. cbn [negb]. cbn [obind].
           rewrite (nxm_store r post q qh n) by lia.
           destruct (divmod_unique W D q (W - q * D)) as [Eq Em]; [lia|lia|].
           rewrite Eq, Em. exists r. repeat split; try assumption; lia.
  - (* forced digit *)
    assert (Heq : n21c = d'') by lia.
    assert (Hfd' : 0 <= W * 2 ^ s - (B - 1) * (D * 2 ^ s) < D * 2 ^ s).
    { apply (forced_digit P d'' (D * 2 ^ s) T'' (W * 2 ^ s)); try lia.
      rewrite <- ET'', Heq. unfold inW in Hn0c. lia. }
    assert (Hfd : 0 <= W - (B - 1) * D < D).
    { apply (scale_bounds0 _ _ s); [lia|].
      replace ((W - (B - 1) * D) * 2 ^ s) with (W * 2 ^ s - (B - 1) * (D * 2 ^ s)) by ring. lia. }
    rewrite slice_prefix by (symmetry; exact Hwllen). cbn [obind].
    destruct (submul_nx1_spec wl divisor (B - 1)) as (r & c & E & Hrl & Hrin & Hc & Hv);
      [lia | exact Hwlin | exact Hdivin | unfold inW; lia |].
    rewrite E. cbn [obind fst snd]. rewrite Hwllen in Hv. fold Pn D in Hv.
    rewrite splice_prefix by exact Hrl. cbn [obind].
    rewrite (nxm_store r post (B - 1) qh n) by lia.
    pose proof (eval_bound r Hrin) as Br. rewrite Hrl, Hwllen in Br. fold Pn in Br.
    destruct (split_unique Pn (eval r) (W - (B - 1) * D) (n2 - c) 0) as [Er _]; try lia.
    destruct (divmod_unique W D (B - 1) (W - (B - 1) * D)) as [Eq Em]; [lia|lia|].
    rewrite Eq, Em. exists r. repeat split; try assumption; lia.
Qed.

(* ---------- div_nxm: the loop over real top limbs ---------- *)
Section NxmLoop.
  Variables (dl3 : list Z) (d3 d0 d1 : Z).
  Hypothesis Hdl : Forall inW dl3.
  Hypothesis Hd3 : inW d3.
  Hypothesis Hd0 : inW d0.
  Hypothesis Hd1 : inW d1.
  Hypothesis Hd1pos : 0 < d1.
  Let divisor := dl3 ++ [d3; d0; d1].
  Let n := S (S (S (length dl3))).
  Let D := eval divisor.
  Let s := clz64 d1.
  Let dd := join d1 d0.
  Let d' := if s =? 0 then dd else Z.lor (shl128 dd s) (shr64 d3 (64 - s)).

  Lemma nxm_loop_spec : forall k low rem qdone qh,
    length low = k -> length rem = n -> Forall inW low -> Forall inW rem -> Forall inW qdone ->
    eval rem < D ->
    exists r q, nxm_loop k (low ++ rem ++ qdone) divisor n d' (recip2 d') s qh
                  = Val (r ++ q ++ qdone, qh) /\
      length r = n /\ length q = k /\ Forall inW r /\ Forall inW q /\
      eval r = eval (low ++ rem) mod D /\ eval q = eval (low ++ rem) / D.
  Proof.
    pose proof B_pos as HB.
    induction k as [|j IH]; intros low rem qdone qh Hlow Hrem Hinl Hinr Hinq Hlt.
    - destruct low; [|discriminate]. cbn [nxm_loop app].
      pose proof (eval_bound rem Hinr) as Br.
      exists rem, []. cbn [app length]. repeat split; auto.
      + rewrite Z.mod_small; lia.
      + rewrite Z.div_small; [reflexivity|lia].
    - destruct (list_snoc_inv low) as (low' & x & ->); [destruct low; discriminate|].
      rewrite app_length in Hlow. cbn [length] in Hlow.
      assert (Hj : j = length low') by lia. subst j. clear Hlow.
      apply Forall_app in Hinl. destruct Hinl as [Hinl' Hx]. inversion Hx as [|? ? Hx' _]; subst.
      destruct (list_top3 rem (length dl3) Hrem) as (lor & a & b & c & -> & Hlor).
      apply Forall_app in Hinr. destruct Hinr as [Hlorin Habc].
      inversion Habc as [|? ? Ha Hbc]; subst. inversion Hbc as [|? ? Hb Hc']; subst.
      inversion Hc' as [|? ? Hc _]; subst.
      destruct (list_snoc_inv (x :: lor)) as (lo3 & n3 & Elo); [discriminate|].
      assert (Hlolen : length lo3 = length dl3).
      { apply (f_equal (@length Z)) in Elo. rewrite app_length in Elo. cbn [length] in Elo. lia. }
      assert (Hloin : Forall inW lo3 /\ inW n3).
      { assert (F : Forall inW (x :: lor)) by (constructor; assumption).
        rewrite Elo in F. apply Forall_app in F. destruct F as [F1 F2]. inversion F2; auto. }
      destruct Hloin as [Hloin Hn3].
      assert (Enum : (low' ++ [x]) ++ (lor ++ [a; b; c]) ++ qdone
                     = low' ++ (lo3 ++ n3 :: a :: b :: (c :: qdone))).
      { rewrite <- !app_assoc. f_equal.
        change ([x] ++ lor ++ [a; b; c] ++ qdone) with ((x :: lor) ++ [a; b; c] ++ qdone).
        rewrite Elo, <- app_assoc. reflexivity. }
      assert (Hpost : Forall inW (c :: qdone)) by (constructor; assumption).
      pose proof (nxm_step_win lo3 n3 a b (c :: qdone) dl3 d3 d0 d1 qh (eq_sym Hlolen)
                    Hloin Hn3 Ha Hb Hpost Hdl Hd3 Hd0 Hd1 Hd1pos) as SW.
      cbv zeta in SW. rewrite Hlolen in SW. fold divisor n D s dd d' in SW. cbn [hd] in SW.
      assert (EWx : eval (lo3 ++ [n3; a; b]) + B ^ Z.of_nat n * c = x + B * eval (lor ++ [a; b; c])).
      { assert (E1 : eval (lo3 ++ [n3; a; b; c]) = x + B * eval (lor ++ [a; b; c])).
        { change (lo3 ++ [n3; a; b; c]) with (lo3 ++ [n3] ++ [a; b; c]). rewrite app_assoc, <- Elo. reflexivity. }
        rewrite <- E1.
        change (lo3 ++ [n3; a; b; c]) with (lo3 ++ [n3; a; b] ++ [c]). rewrite app_assoc.
        rewrite (eval_app (lo3 ++ [n3; a; b])), app_length, Hlolen. cbn [length eval].
        replace (length dl3 + 3)%nat with n by (unfold n; lia). ring. }
      set (W := eval (lo3 ++ [n3; a; b]) + B ^ Z.of_nat n * c) in *.
      assert (HW : W < D * B) by (unfold inW in Hx'; nia).
      destruct (SW HW) as (Hd' & wl' & E & Hwl & Hwlin & Hwv).
      cbn [nxm_loop]. rewrite Enum.
      rewrite nxm_step_local by (unfold n; lia).
      rewrite E. cbn [omap obind fst snd].
      assert (HDpos : 0 < D).
      { pose proof (eval_bound (lor ++ [a; b; c]) ltac:(apply Forall_inW3; assumption)). lia. }
      assert (Hmod : 0 <= W mod D < D) by (apply Z.mod_pos_bound; lia).
      assert (HWq : inW (W / D)).
      { unfold inW. split; [apply Z.div_pos; [|lia] | apply Z.div_lt_upper_bound; lia].
        rewrite EWx. pose proof (eval_bound (lor ++ [a; b; c]) ltac:(apply Forall_inW3; assumption)).
        unfold inW in Hx'. lia. }
      destruct (IH low' wl' (W / D :: qdone) qh eq_refl Hwl Hinl' Hwlin
                  ltac:(constructor; assumption) ltac:(lia))
        as (r & q' & E2 & Hr & Hq' & Hrin & Hq'in & Hrv & Hqv).
      rewrite E2.
      set (j := length low') in *.
      rewrite eval_app in Hrv, Hqv. fold j in Hrv, Hqv.
      destruct (divmod_step (eval low' + B ^ Z.of_nat j * eval wl') W D (B ^ Z.of_nat j) (eval low'))
        as [Q R]; [lia | pose proof (Bn_pos j); lia | rewrite Hwv; reflexivity |].
      assert (EX : eval ((low' ++ [x]) ++ lor ++ [a; b; c]) = eval low' + B ^ Z.of_nat j * W).
      { rewrite EWx, <- app_assoc, eval_app. fold j. cbn [app eval]. ring. }
      rewrite EX.
      exists r, (q' ++ [W / D]). rewrite <- !app_assoc. cbn [app].
      rewrite !app_length. cbn [length].
      repeat split; auto.
      + lia.
      + apply Forall_app. split; [assumption|]. constructor; [assumption|constructor].
      + rewrite Hrv. symmetry. exact R.
      + rewrite eval_app, Hq'. cbn [eval]. rewrite Hqv, Q. ring.
  Qed.
End NxmLoop.

Lemma last_snoc3 (l : list Z) a b c : last (l ++ [a; b; c]) 0 = c.
Proof. change (l ++ [a; b; c]) with (l ++ [a; b] ++ [c]). rewrite app_assoc. apply last_snoc. Qed.

Lemma eval_app_zeros q x k : eval (q ++ x :: repeat 0 k) = eval q + B ^ Z.of_nat (length q) * x.
Proof. rewrite eval_app. cbn [eval]. rewrite eval_repeat0. ring. Qed.

Theorem div_nxm_spec n d :
  Forall inW n -> Forall inW d ->
  (3 <= length d)%nat -> (length d <= length n)%nat -> last d 0 <> 0 ->
  div_nxm n d =
  Val (to_limbs (length n) (eval n / eval d), to_limbs (length d) (eval n mod eval d)).
Proof.
  intros Hn Hd Hl3 Hle Htop. pose proof B_pos as HB.
  destruct (list_top3 d (length d - 3)) as (dl3 & d3 & d0 & d1 & -> & Hdl3); [lia|].
  rewrite last_snoc3 in Htop.
  apply Forall_app in Hd. destruct Hd as [Hdlin Hd301].
  inversion Hd301 as [|? ? Hd3 Hd01]; subst. inversion Hd01 as [|? ? Hd0 Hd1']; subst.
  inversion Hd1' as [|? ? Hd1 _]; subst.
  assert (Hd1pos : 0 < d1) by (unfold inW in Hd1; lia).
  set (divisor := dl3 ++ [d3; d0; d1]) in *.
  assert (Hlen : length divisor = S (S (S (length dl3)))) by (unfold divisor; rewrite app_length; cbn [length]; lia).
  unfold div_nxm. rewrite Hlen in *.
  set (nn := S (S (S (length dl3)))) in *.
  destruct (Nat.ltb_spec nn 3); [lia|].
  destruct (Nat.ltb_spec (length n) nn); [lia|].
  unfold divisor at 1. rewrite last_snoc3. destruct (Z.ltb_spec d1 1); [lia|].
  assert (G1 : get divisor (nn - 1) = Val d1) by apply get_at2.
  assert (G0 : get divisor (nn - 2) = Val d0) by apply get_at1.
  assert (G3 : get divisor (nn - 3) = Val d3).
  { replace (nn - 3)%nat with (length dl3) by (subst nn; lia). apply get_at. }
  rewrite G1, G0. cbn [obind]. rewrite hi128_join by exact Hd0.
  set (s := clz64 d1). set (dd := join d1 d0).
  set (d' := if s =? 0 then dd else Z.lor (shl128 dd s) (shr64 d3 (64 - s))).
  assert (Ed' : (if s =? 0 then Val dd
                 else do d4 <- get divisor (nn - 3) ; Val (Z.lor (shl128 dd s) (shr64 d4 (64 - s))))
                = Val d').
  { subst d'. rewrite G3. destruct (s =? 0); reflexivity. }
  rewrite Ed'. cbn [obind].
  (* split the numerator: m low limbs, n top limbs *)
  set (m := (length n - nn)%nat) in *.
  assert (Hlow : length (firstn m n) = m) by (apply firstn_length_le; lia).
  assert (Htopl : length (skipn m n) = nn) by (rewrite skipn_length; lia).
  assert (Hnin : Forall inW (firstn m n) /\ Forall inW (skipn m n)).
  { rewrite <- (firstn_skipn m n) in Hn. apply Forall_app in Hn. exact Hn. }
  destruct Hnin as [Hlowin Htopin].
  set (low := firstn m n) in *. set (top := skipn m n) in *.
  assert (En : n = low ++ top) by (symmetry; apply firstn_skipn).
  assert (Hmn : length n = (m + nn)%nat) by lia.
  clearbody low top m.
  destruct (list_top3 top (length dl3) Htopl) as (lo3 & n3 & n0 & n1 & Etop & Hlo3).
  assert (Hlo3in : Forall inW lo3 /\ inW n3 /\ inW n0 /\ inW n1).
  { rewrite Etop in Htopin. apply Forall_app in Htopin. destruct Htopin as [F1 F2].
    inversion F2 as [|? ? X3 F3]; subst. inversion F3 as [|? ? X0 F4]; subst. inversion F4; subst. auto. }
  destruct Hlo3in as (Hlo3in & Hn3 & Hn0 & Hn1).
  pose proof (nxm_step_win lo3 n3 n0 n1 [] dl3 d3 d0 d1 0 (eq_sym Hlo3)
                Hlo3in Hn3 Hn0 Hn1 (Forall_nil _) Hdlin Hd3 Hd0 Hd1 Hd1pos) as SW.
  cbv zeta in SW. rewrite Hlo3 in SW. fold divisor nn s dd d' in SW. cbn [hd] in SW.
  rewrite Z.mul_0_r, Z.add_0_r, <- Etop in SW.
  set (D := eval divisor) in *.
  pose proof (eval_bound top Htopin) as Btop. rewrite Htopl in Btop.
  assert (HDlow : B ^ Z.of_nat nn <= D * B).
  { unfold D, divisor. change (dl3 ++ [d3; d0; d1]) with (dl3 ++ [d3; d0] ++ [d1]).
    rewrite app_assoc, eval_app, app_length. cbn [length eval].
    replace (length dl3 + 2)%nat with (S (S (length dl3))) by lia.
    pose proof (eval_bound (dl3 ++ [d3; d0]) ltac:(apply Forall_inW_snoc2; assumption)) as X.
    unfold nn. rewrite (Bn_S (S (S (length dl3)))).
    set (Q := B ^ Z.of_nat (S (S (length dl3)))) in *.
    assert (0 < Q) by apply Bn_pos.
    assert (Q * 1 <= Q * (d1 + B * 0)) by (apply Z.mul_le_mono_nonneg_l; lia). nia. }
  destruct (SW ltac:(lia)) as (Hd' & wl' & E & Hwl & Hwlin & Hwv).
  rewrite app_nil_r in E.
  destruct (Z.ltb_spec d' (2 ^ 127)); [lia|].
  rewrite (reciprocal_2_ok _ Hd'). cbn [obind].
  (* first iteration: virtual top limb *)
  cbn [nxm_loop]. rewrite En at 1.
  replace m with (length low) at 1 by exact Hlow.
  rewrite nxm_step_local by (subst nn; lia).
  rewrite E. cbn [omap obind fst snd].
  assert (HDpos : 0 < D) by (pose proof (Bn_pos nn); nia).
  assert (Hmod : 0 <= eval top mod D < D) by (apply Z.mod_pos_bound; lia).
  assert (Hqh : inW (eval top / D)).
  { unfold inW. split; [apply Z.div_pos; lia | apply Z.div_lt_upper_bound; lia]. }
  pose proof (nxm_loop_spec dl3 d3 d0 d1 Hdlin Hd3 Hd0 Hd1 Hd1pos m low wl' [] (eval top / D)
                Hlow Hwl Hlowin Hwlin (Forall_nil _)) as LS.
  cbv zeta in LS. fold divisor nn D s dd d' in LS.
  destruct (LS ltac:(lia)) as (r & q & E2 & Hr & Hq & Hrin & Hqin & Hrv & Hqv).
  rewrite !app_nil_r in E2. rewrite E2. cbn [obind].
  rewrite firstn_app, firstn_all2, Hr, Nat.sub_diag by lia. cbn [firstn]. rewrite app_nil_r.
  rewrite skipn_app, skipn_all2, Hr, Nat.sub_diag by lia. cbn [skipn app].
  rewrite app_length, Hr, Hq.
  rewrite eval_app, Hlow in Hrv, Hqv.
  destruct (divmod_step (eval low + B ^ Z.of_nat m * eval wl') (eval top) D (B ^ Z.of_nat m) (eval low))
    as [Q R]; [lia | pose proof (Bn_pos m); lia | rewrite Hwv; reflexivity |].
  assert (EX : eval n = eval low + B ^ Z.of_nat m * eval top) by (rewrite En, eval_app, Hlow; reflexivity).
  f_equal. f_equal.
  - symmetry. apply to_limbs_unique.
    + rewrite app_length. cbn [length]. rewrite repeat_length, Hq. lia.
    + apply Forall_app. split; [assumption|]. constructor; [assumption|apply Forall_inW_repeat0].
    + rewrite eval_app_zeros, Hq, Hqv, EX, Q. ring.
  - symmetry. apply to_limbs_unique; auto. rewrite Hrv, EX. symmetry. exact R.
Qed.
