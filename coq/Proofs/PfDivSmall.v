(* Proofs/PfDivSmall.v — small.rs: the wrappers div_2x1_mg10 / div_3x2_mg10 / reciprocal_2_mg10
   under their preconditions, and the n-by-1 / n-by-2 schoolbook loops (normalised and with
   on-the-fly shifting).  The facts about the reciprocal and the 3-by-2 step come from
   PfDivRecip.v and PfDiv3x2.v. *)
From Coq Require Import ZArith List Bool Lia.
From RV.Model Require Import Base Word DivRecip DivSmall.
From RV.Proofs Require Import BaseFacts PfDivBase PfDiv2x1 PfDiv3x2 PfDivRecip.
Import ListNotations.
Local Open Scope Z_scope.

(* the two facts proved in PfDiv3x2.v, as propositions *)
Definition Div3x2OK : Prop := forall u21 u0 d v,
  2 ^ 127 <= d < B * B -> 0 <= u21 < d -> 0 <= u0 < B -> v = recip2 d ->
  div_3x2_body u21 u0 d v = Val ((u21 * B + u0) / d, (u21 * B + u0) mod d).
Definition Recip2OK : Prop := forall d v,
  2 ^ 127 <= d < B * B -> v = recip1 (hi128 d) -> recip2_body d v = recip2 d.

(* ---------- big-endian evaluation ---------- *)
Fixpoint bev (acc : Z) (ru : list Z) : Z :=
  match ru with [] => acc | x :: t => bev (acc * B + x) t end.

Lemma bev_acc ru : forall a, bev a ru = a * B ^ Z.of_nat (length ru) + bev 0 ru.
Proof.
  induction ru as [|x t IH]; intros a; cbn [bev length].
  - rewrite Z.pow_0_r. lia.
  - rewrite (IH (a * B + x)), (IH (0 * B + x)), Bn_S. ring.
Qed.
Lemma bev_app l1 : forall a l2, bev a (l1 ++ l2) = bev (bev a l1) l2.
Proof. induction l1 as [|x t IH]; intros a l2; cbn [bev app]; auto. Qed.
Lemma bev_rev l : bev 0 (rev l) = eval l.
Proof.
  induction l as [|x t IH]; cbn [rev eval bev]; [reflexivity|].
  rewrite bev_app, IH. cbn [bev]. ring.
Qed.
Lemma eval_rev_bev qs : eval (rev qs) = bev 0 qs.
Proof. rewrite <- (bev_rev (rev qs)), rev_involutive. reflexivity. Qed.
Lemma bev_bound ru : Forall inW ru -> 0 <= bev 0 ru < B ^ Z.of_nat (length ru).
Proof.
  intros H. pose proof (eval_bound (rev ru) (Forall_rev H)) as E.
  rewrite rev_length, eval_rev_bev in E. exact E.
Qed.

(* ---------- generic schoolbook loop ---------- *)
Section Gloop.
  Variable f : Z -> Z -> outcome (Z * Z).
  Fixpoint gloop (ru : list Z) (r : Z) : outcome (list Z * Z) :=
    match ru with
    | [] => Val ([], r)
    | x :: t =>
        do qr <- f r x ;
        do p <- gloop t (snd qr) ;
        Val (fst qr :: fst p, snd p)
    end.
  Variable D : Z.
  Hypothesis HD : 0 < D.
  Hypothesis Hf : forall r x, 0 <= r < D -> inW x ->
    f r x = Val ((r * B + x) / D, (r * B + x) mod D).

  Lemma gloop_spec : forall ru r, Forall inW ru -> 0 <= r < D ->
    exists qs, gloop ru r = Val (qs, bev r ru mod D) /\ length qs = length ru /\
      Forall inW qs /\ bev 0 qs = bev r ru / D.
  Proof.
    induction ru as [|x t IH]; intros r Hru Hr.
    - exists []. cbn [gloop bev length]. rewrite Z.mod_small, Z.div_small by lia. auto.
    - inversion Hru as [|? ? Hx Ht]; subst. cbn [gloop]. rewrite (Hf r x Hr Hx). cbn [obind fst snd].
      pose proof B_pos as HB. unfold inW in Hx.
      set (u := r * B + x).
      assert (Hu : 0 <= u < D * B) by (subst u; nia).
      assert (Hr0 : 0 <= u mod D < D) by (apply Z.mod_pos_bound; lia).
      assert (Hq : 0 <= u / D < B).
      { split; [apply Z.div_pos; lia | apply Z.div_lt_upper_bound; lia]. }
      destruct (IH (u mod D) Ht Hr0) as (qs & E & Hlen & Hin & Hv).
      rewrite E. cbn [obind fst snd].
      cbn [bev]. fold u.
      assert (Hsplit : bev u t = u / D * B ^ Z.of_nat (length t) * D + bev (u mod D) t).
      { rewrite (bev_acc t u), (bev_acc t (u mod D)).
        rewrite (Z.div_mod u D) at 1 by lia. ring. }
      exists (u / D :: qs). repeat split.
      + f_equal. f_equal. rewrite Hsplit.
        rewrite Z.add_comm, Z.mod_add by lia. reflexivity.
      + cbn [length]. lia.
      + constructor; [exact Hq | exact Hin].
      + cbn [bev]. rewrite (bev_acc qs), Hv, Hlen, Hsplit.
        rewrite Z.div_add_l by lia. ring.
  Qed.
End Gloop.

Lemma nx1_norm_loop_gloop d v : forall ru r,
  nx1_norm_loop ru d v r = gloop (fun r x => div_2x1_mg10 (join r x) d v) ru r.
Proof.
  induction ru as [|x t IH]; intros r; cbn [nx1_norm_loop gloop]; [reflexivity|].
  destruct (div_2x1_mg10 (join r x) d v) as [qr| | | |]; cbn [obind]; auto.
  rewrite IH. reflexivity.
Qed.
Lemma nx2_norm_loop_gloop d v : forall ru r,
  nx2_norm_loop ru d v r = gloop (fun r x => div_3x2_mg10 r x d v) ru r.
Proof.
  induction ru as [|x t IH]; intros r; cbn [nx2_norm_loop gloop]; [reflexivity|].
  destruct (div_3x2_mg10 r x d v) as [qr| | | |]; cbn [obind]; auto.
  rewrite IH. reflexivity.
Qed.

(* ---------- on-the-fly shifted digit stream of div_nx1 / div_nx2 ---------- *)
Fixpoint stream (s : Z) (rl : list Z) : list Z :=
  match rl with
  | [] => []
  | [first] => [shl64 first s]
  | upper :: ((lower :: _) as t) => Z.lor (shl64 upper s) (shr64 lower (64 - s)) :: stream s t
  end.

Lemma nx1_loop_stream s d v : forall rl rem,
  nx1_loop rl s d v rem = nx1_norm_loop (stream s rl) d v rem.
Proof.
  induction rl as [|x t IH]; intros rem; [reflexivity|].
  destruct t as [|y t'].
  - cbn [nx1_loop stream nx1_norm_loop].
    destruct (div_2x1_mg10 _ d v) as [qr| | | |]; cbn [obind]; auto.
  - change (nx1_loop (x :: y :: t') s d v rem) with
      (do qr <- div_2x1_mg10 (join rem (Z.lor (shl64 x s) (shr64 y (64 - s)))) d v ;
       do p <- nx1_loop (y :: t') s d v (snd qr) ;
       Val (fst qr :: fst p, snd p)).
    change (stream s (x :: y :: t')) with
      (Z.lor (shl64 x s) (shr64 y (64 - s)) :: stream s (y :: t')).
    cbn [nx1_norm_loop].
    destruct (div_2x1_mg10 _ d v) as [qr| | | |]; cbn [obind]; auto.
    rewrite IH. reflexivity.
Qed.
Lemma nx2_loop_stream s d v : forall rl rem,
  nx2_loop rl s d v rem = nx2_norm_loop (stream s rl) d v rem.
Proof.
  induction rl as [|x t IH]; intros rem; [reflexivity|].
  destruct t as [|y t'].
  - cbn [nx2_loop stream nx2_norm_loop].
    destruct (div_3x2_mg10 _ _ d v) as [qr| | | |]; cbn [obind]; auto.
  - change (nx2_loop (x :: y :: t') s d v rem) with
      (do qr <- div_3x2_mg10 rem (Z.lor (shl64 x s) (shr64 y (64 - s))) d v ;
       do p <- nx2_loop (y :: t') s d v (snd qr) ;
       Val (fst qr :: fst p, snd p)).
    change (stream s (x :: y :: t')) with
      (Z.lor (shl64 x s) (shr64 y (64 - s)) :: stream s (y :: t')).
    cbn [nx2_norm_loop].
    destruct (div_3x2_mg10 _ _ d v) as [qr| | | |]; cbn [obind]; auto.
    rewrite IH. reflexivity.
Qed.

(* ---------- word shifting ---------- *)
Lemma lor_disjoint a b s :
  0 <= s -> 0 <= a -> a mod 2 ^ s = 0 -> 0 <= b < 2 ^ s -> Z.lor a b = a + b.
Proof.
  intros Hs Ha Hm Hb.
  assert (Hl : Z.land a b = 0).
  { apply Z.bits_inj'. intros n Hn. rewrite Z.land_spec, Z.bits_0.
    destruct (Z.lt_ge_cases n s) as [Hlt|Hge].
    - assert (Z.testbit a n = false).
      { rewrite <- (Z.mod_pow2_bits_low a s n) by lia. rewrite Hm. apply Z.bits_0. }
      rewrite H. reflexivity.
    - assert (Z.testbit b n = false).
      { destruct (Z.eq_dec b 0) as [->|Hnz]; [apply Z.bits_0|].
        apply Z.bits_above_log2; [lia|].
        apply Z.lt_le_trans with s; [|lia]. apply Z.log2_lt_pow2; lia. }
      rewrite H. apply andb_false_r. }
  rewrite <- Z.lxor_lor by exact Hl. symmetry. apply Z.add_nocarry_lxor, Hl.
Qed.

Lemma B_split s : 0 <= s <= 64 -> B = 2 ^ (64 - s) * 2 ^ s.
Proof. intros H. rewrite <- Z.pow_add_r by lia. rewrite B_pow. f_equal. lia. Qed.

(* x << s and x >> (64 - s) split x * 2^s at the word boundary *)
Lemma shl_shr_split x s : inW x -> 0 < s < 64 ->
  x * 2 ^ s = shr64 x (64 - s) * B + shl64 x s /\
  0 <= shr64 x (64 - s) < 2 ^ s /\
  0 <= shl64 x s <= B - 2 ^ s /\ shl64 x s mod 2 ^ s = 0.
Proof.
  unfold inW, shl64, shr64. intros Hx Hs.
  pose proof (B_split s ltac:(lia)) as HB.
  assert (H1 : 0 < 2 ^ s) by (apply Z.pow_pos_nonneg; lia).
  assert (H2 : 0 < 2 ^ (64 - s)) by (apply Z.pow_pos_nonneg; lia).
  assert (Hdiv : x * 2 ^ s / B = x / 2 ^ (64 - s)).
  { rewrite HB. apply Z.div_mul_cancel_r; lia. }
  assert (Hmod : (x * 2 ^ s) mod B = (x mod 2 ^ (64 - s)) * 2 ^ s).
  { rewrite HB. apply Z.mul_mod_distr_r; lia. }
  pose proof (Z.mod_pos_bound x (2 ^ (64 - s)) H2) as Hr.
  repeat split.
  - rewrite <- Hdiv. pose proof B_pos. rewrite (Z.div_mod (x * 2 ^ s) B) at 1 by lia. ring.
  - apply Z.div_pos; lia.
  - apply Z.div_lt_upper_bound; [lia|]. rewrite <- HB. lia.
  - rewrite Hmod. nia.
  - rewrite Hmod, HB. nia.
  - rewrite Hmod. apply Z.mod_mul. lia.
Qed.

Lemma stream_length s rl : length (stream s rl) = length rl.
Proof.
  induction rl as [|x [|y t] IH]; [reflexivity|reflexivity|].
  change (stream s (x :: y :: t)) with (Z.lor (shl64 x s) (shr64 y (64 - s)) :: stream s (y :: t)).
  cbn [length] in *. rewrite IH. reflexivity.
Qed.

Lemma stream_spec s : 0 < s < 64 -> forall rl h t, rl = h :: t -> Forall inW rl ->
  Forall inW (stream s rl) /\
  bev (shr64 h (64 - s)) (stream s rl) = bev 0 rl * 2 ^ s.
Proof.
  intros Hs. induction rl as [|x l IH]; intros h t E Hin; [discriminate|].
  injection E as <- <-. inversion Hin as [|? ? Hx Hl]; subst.
  destruct (shl_shr_split x s Hx Hs) as (Sx & Rx & Lx & Mx).
  assert (H1 : 0 < 2 ^ s) by (apply Z.pow_pos_nonneg; lia).
  destruct l as [|y t'].
  - cbn [stream bev]. split.
    + constructor; [|constructor]. unfold inW. lia.
    + lia.
  - change (stream s (x :: y :: t')) with (Z.lor (shl64 x s) (shr64 y (64 - s)) :: stream s (y :: t')).
    inversion Hl as [|? ? Hy _]; subst.
    destruct (shl_shr_split y s Hy Hs) as (Sy & Ry & Ly & My).
    destruct (IH y t' eq_refl Hl) as [IHin IHv].
    rewrite (lor_disjoint (shl64 x s) (shr64 y (64 - s)) s) by lia.
    split.
    + constructor; [unfold inW; lia | exact IHin].
    + change (bev 0 (x :: y :: t')) with (bev (0 * B + x) (y :: t')).
      change (bev (shr64 x (64 - s)) ((shl64 x s + shr64 y (64 - s)) :: stream s (y :: t')))
        with (bev (shr64 x (64 - s) * B + (shl64 x s + shr64 y (64 - s))) (stream s (y :: t'))).
      rewrite (bev_acc (stream s (y :: t'))).
      rewrite (bev_acc (stream s (y :: t'))) in IHv.
      rewrite (bev_acc (y :: t') (0 * B + x)).
      rewrite stream_length in *.
      set (P := B ^ Z.of_nat (length (y :: t'))) in *.
      set (T := bev 0 (stream s (y :: t'))) in *.
      replace ((shr64 x (64 - s) * B + (shl64 x s + shr64 y (64 - s))) * P + T)
        with ((shr64 x (64 - s) * B + shl64 x s) * P + (shr64 y (64 - s) * P + T)) by ring.
      rewrite IHv, <- Sx. ring.
Qed.

(* ---------- leading zeros ---------- *)
Lemma clz64_spec x : 0 < x < B ->
  0 <= clz64 x <= 63 /\ 2 ^ 63 <= x * 2 ^ clz64 x < B.
Proof.
  intros Hx. unfold clz64. destruct (Z.eqb_spec x 0) as [->|_]; [lia|].
  pose proof (Z.log2_spec x ltac:(lia)) as [L1 L2].
  pose proof (Z.log2_nonneg x) as L0.
  assert (L3 : Z.log2 x < 64).
  { apply Z.log2_lt_pow2; [lia|]. rewrite <- B_pow. lia. }
  split; [lia|].
  set (l := Z.log2 x) in *.
  assert (P : 0 < 2 ^ (63 - l)) by (apply Z.pow_pos_nonneg; lia).
  assert (E1 : 2 ^ 63 = 2 ^ l * 2 ^ (63 - l)) by (rewrite <- Z.pow_add_r by lia; f_equal; lia).
  assert (E2 : B = 2 ^ Z.succ l * 2 ^ (63 - l)).
  { rewrite <- Z.pow_add_r by lia. rewrite B_pow. f_equal. lia. }
  rewrite E1, E2. split.
  - apply Z.mul_le_mono_nonneg_r; lia.
  - apply Z.mul_lt_mono_pos_r; lia.
Qed.

Lemma rev_cons_last (l : list Z) x t : rev l = x :: t -> l = rev t ++ [x] /\ last l 0 = x.
Proof.
  intros E. assert (l = rev (x :: t)) by (rewrite <- E, rev_involutive; reflexivity).
  subst l. cbn [rev]. split; [reflexivity|apply last_snoc].
Qed.

Section Small.
  Let HR : RecipOK := RecipOK_holds.
  Let H32 : Div3x2OK := div_3x2_body_spec.
  Let HR2 : Recip2OK := recip2_body_spec.

  Lemma hi128_norm d : 2 ^ 127 <= d < B * B -> 2 ^ 63 <= hi128 d < B.
  Proof.
    intros Hd. rewrite pow127 in Hd. unfold hi128. pose proof B_pos. split.
    - apply Z.div_le_lower_bound; lia.
    - apply Z.div_lt_upper_bound; lia.
  Qed.

  Lemma reciprocal_2_ok d : 2 ^ 127 <= d < B * B -> reciprocal_2_mg10 d = Val (recip2 d).
  Proof.
    intros Hd. unfold reciprocal_2_mg10. destruct (Z.ltb_spec d (2 ^ 127)); [lia|].
    rewrite (reciprocal_mg10_ok HR) by (apply hi128_norm, Hd). cbn [obind].
    rewrite (HR2 d _ Hd eq_refl). reflexivity.
  Qed.

  Lemma div_2x1_ok u d : 2 ^ 63 <= d < B -> 0 <= u -> hi128 u < d ->
    div_2x1_mg10 u d (recip1 d) = Val (u / d, u mod d).
  Proof.
    intros Hd Hu Hh. unfold div_2x1_mg10.
    destruct (Z.ltb_spec d (2 ^ 63)); [lia|].
    destruct (Z.ltb_spec (hi128 u) d); [|lia]. cbn [negb].
    rewrite (reciprocal_mg10_ok HR) by exact Hd. cbn [obind].
    rewrite Z.eqb_refl. cbn [negb]. apply div_2x1_body_spec; auto.
  Qed.

  Lemma div_3x2_ok u21 u0 d : 2 ^ 127 <= d < B * B -> 0 <= u21 < d -> inW u0 ->
    div_3x2_mg10 u21 u0 d (recip2 d) = Val ((u21 * B + u0) / d, (u21 * B + u0) mod d).
  Proof.
    intros Hd Hu Hu0. unfold div_3x2_mg10.
    destruct (Z.ltb_spec d (2 ^ 127)); [lia|].
    destruct (Z.ltb_spec u21 d); [|lia]. cbn [negb].
    rewrite (reciprocal_2_ok d Hd). cbn [obind].
    rewrite Z.eqb_refl. cbn [negb]. apply H32; auto.
  Qed.

  (* ---- normalised loops ---- *)
  Lemma nx1_norm_loop_spec d ru r : 2 ^ 63 <= d < B -> Forall inW ru -> 0 <= r < d ->
    exists qs, nx1_norm_loop ru d (recip1 d) r = Val (qs, bev r ru mod d) /\
      length qs = length ru /\ Forall inW qs /\ bev 0 qs = bev r ru / d.
  Proof.
    intros Hd Hru Hr. rewrite nx1_norm_loop_gloop. pose proof pow63_val.
    apply gloop_spec; try assumption; [lia|].
    intros r0 x Hr0 Hx. unfold inW in Hx. unfold join.
    apply div_2x1_ok; [assumption | nia |].
    fold (join r0 x). rewrite hi128_join; lia.
  Qed.

  Lemma nx2_norm_loop_spec d ru r : 2 ^ 127 <= d < B * B -> Forall inW ru -> 0 <= r < d ->
    exists qs, nx2_norm_loop ru d (recip2 d) r = Val (qs, bev r ru mod d) /\
      length qs = length ru /\ Forall inW qs /\ bev 0 qs = bev r ru / d.
  Proof.
    intros Hd Hru Hr. rewrite nx2_norm_loop_gloop. pose proof pow127_val.
    apply gloop_spec; try assumption; [lia|].
    intros r0 x Hr0 Hx. apply div_3x2_ok; assumption.
  Qed.

  Definition LQ (n : list Z) (d : Z) : list Z := to_limbs (length n) (eval n / d).

  Lemma finish_q qs (n : list Z) v :
    length qs = length (rev n) -> Forall inW qs -> bev 0 qs = v ->
    rev qs = to_limbs (length n) v.
  Proof.
    intros Hl Hin Hv. symmetry. apply to_limbs_unique.
    - rewrite rev_length, Hl, rev_length. reflexivity.
    - apply Forall_rev, Hin.
    - rewrite eval_rev_bev. exact Hv.
  Qed.

  Theorem div_nx1_normalized_spec n d : Forall inW n -> 2 ^ 63 <= d < B ->
    div_nx1_normalized n d = Val (LQ n d, eval n mod d).
  Proof.
    intros Hn Hd. unfold div_nx1_normalized. destruct (Z.ltb_spec d (2 ^ 63)); [lia|].
    rewrite (reciprocal_mg10_ok HR) by exact Hd. cbn [obind].
    destruct (nx1_norm_loop_spec d (rev n) 0 Hd (Forall_rev Hn) ltac:(pose proof pow63_val; lia))
      as (qs & E & Hl & Hin & Hv).
    rewrite E. cbn [obind fst snd]. rewrite bev_rev in *.
    unfold LQ. rewrite (finish_q qs n (eval n / d)); auto.
  Qed.

  Theorem div_nx2_normalized_spec n d : Forall inW n -> 2 ^ 127 <= d < B * B ->
    div_nx2_normalized n d = Val (LQ n d, eval n mod d).
  Proof.
    intros Hn Hd. unfold div_nx2_normalized. destruct (Z.ltb_spec d (2 ^ 127)); [lia|].
    rewrite (reciprocal_2_ok d Hd). cbn [obind].
    destruct (nx2_norm_loop_spec d (rev n) 0 Hd (Forall_rev Hn) ltac:(pose proof pow127_val; lia))
      as (qs & E & Hl & Hin & Hv).
    rewrite E. cbn [obind fst snd]. rewrite bev_rev in *.
    unfold LQ. rewrite (finish_q qs n (eval n / d)); auto.
  Qed.

  (* ---- with on-the-fly normalisation ---- *)
  Lemma shifted_divmod N d s : 0 < d -> 0 <= s ->
    (N * 2 ^ s) / (d * 2 ^ s) = N / d /\ (N * 2 ^ s) mod (d * 2 ^ s) / 2 ^ s = N mod d.
  Proof.
    intros Hd Hs. assert (0 < 2 ^ s) by (apply Z.pow_pos_nonneg; lia). split.
    - apply Z.div_mul_cancel_r; lia.
    - rewrite Z.mul_mod_distr_r by lia. apply Z.div_mul. lia.
  Qed.

  Theorem div_nx1_spec n d : Forall inW n -> 0 < d < B -> n <> [] -> last n 0 <> 0 ->
    div_nx1 n d = Val (LQ n d, eval n mod d).
  Proof.
    intros Hn Hd Hne Hlast. unfold div_nx1.
    destruct (Z.eqb_spec d 0); [lia|].
    destruct (rev n) as [|lst rt] eqn:Erev.
    { exfalso. apply Hne. rewrite <- (rev_involutive n), Erev. reflexivity. }
    destruct (rev_cons_last n lst rt Erev) as [_ Hl]. rewrite Hl in Hlast.
    destruct (Z.eqb_spec lst 0); [lia|].
    destruct (clz64_spec d Hd) as [Hs Hsd]. set (s := clz64 d) in *.
    destruct (Z.eqb_spec s 0) as [Hs0|Hs0].
    { apply div_nx1_normalized_spec; [assumption|]. rewrite Hs0, Z.pow_0_r in Hsd. lia. }
    assert (Hd' : shl64 d s = d * 2 ^ s) by (unfold shl64; apply Z.mod_small; lia).
    rewrite Hd'. rewrite (reciprocal_mg10_ok HR) by lia. cbn [obind].
    rewrite nx1_loop_stream.
    assert (Hrn : Forall inW (lst :: rt)) by (rewrite <- Erev; apply Forall_rev, Hn).
    destruct (stream_spec s ltac:(lia) (lst :: rt) lst rt eq_refl Hrn) as [Sin Sv].
    assert (Hlst : inW lst) by (inversion Hrn; assumption).
    destruct (shl_shr_split lst s Hlst ltac:(lia)) as (_ & Rl & _ & _).
    assert (P63 : 2 ^ s <= 2 ^ 63) by (apply Z.pow_le_mono_r; lia).
    destruct (nx1_norm_loop_spec (d * 2 ^ s) (stream s (lst :: rt)) (shr64 lst (64 - s))
                ltac:(lia) Sin ltac:(lia)) as (qs & E & Hlen & Hin & Hv).
    rewrite E. cbn [obind fst snd]. rewrite Sv in *.
    rewrite <- Erev, bev_rev in *.
    destruct (shifted_divmod (eval n) d s ltac:(lia) ltac:(lia)) as [Q R].
    unfold shr64. rewrite R. unfold LQ.
    rewrite (finish_q qs n (eval n / d)); auto.
    - rewrite Hlen, stream_length. reflexivity.
    - rewrite Hv. exact Q.
  Qed.

  Theorem div_nx2_spec n d : Forall inW n -> B <= d < B * B -> n <> [] -> last n 0 <> 0 ->
    div_nx2 n d = Val (LQ n d, eval n mod d).
  Proof.
    intros Hn Hd Hne Hlast. unfold div_nx2. pose proof B_pos as HB.
    destruct (Z.ltb_spec d B); [lia|].
    destruct (rev n) as [|lst rt] eqn:Erev.
    { exfalso. apply Hne. rewrite <- (rev_involutive n), Erev. reflexivity. }
    destruct (rev_cons_last n lst rt Erev) as [_ Hl]. rewrite Hl in Hlast.
    destruct (Z.eqb_spec lst 0); [lia|].
    assert (Hh : 0 < hi128 d < B).
    { unfold hi128. split.
      - apply Z.div_str_pos. lia.
      - apply Z.div_lt_upper_bound; lia. }
    destruct (clz64_spec (hi128 d) Hh) as [Hs Hsd]. set (s := clz64 (hi128 d)) in *.
    assert (H2s : 0 < 2 ^ s) by (apply Z.pow_pos_nonneg; lia).
    (* d * 2^s is normalised *)
    assert (Hnorm : 2 ^ 127 <= d * 2 ^ s < B * B).
    { rewrite pow127. pose proof (hi_lo_128 d) as Hdd. pose proof (lo128_range d) as Hlo.
      set (h := hi128 d) in *. set (l := lo128 d) in *. split.
      - assert (2 ^ 63 * B <= h * 2 ^ s * B) by (apply Z.mul_le_mono_nonneg_r; lia).
        assert (0 <= l * 2 ^ s) by (apply Z.mul_nonneg_nonneg; lia). nia.
      - assert ((h + 1) * 2 ^ s <= B).
        { (* h * 2^s < B and both multiples of 2^s *)
          pose proof (B_split s ltac:(lia)) as Bs. rewrite Bs in *.
          assert (h < 2 ^ (64 - s)) by (apply (Z.mul_lt_mono_pos_r (2 ^ s)); lia).
          apply Z.mul_le_mono_nonneg_r; lia. }
        assert (d * 2 ^ s < (h + 1) * B * 2 ^ s) by (apply Z.mul_lt_mono_pos_r; lia).
        nia. }
    destruct (Z.eqb_spec s 0) as [Hs0|Hs0].
    { apply div_nx2_normalized_spec; [assumption|]. rewrite Hs0, Z.pow_0_r in Hnorm. lia. }
    assert (Hd' : shl128 d s = d * 2 ^ s).
    { unfold shl128. rewrite BB_eq. apply Z.mod_small. lia. }
    rewrite Hd'. rewrite (reciprocal_2_ok _ Hnorm). cbn [obind].
    rewrite nx2_loop_stream.
    assert (Hrn : Forall inW (lst :: rt)) by (rewrite <- Erev; apply Forall_rev, Hn).
    destruct (stream_spec s ltac:(lia) (lst :: rt) lst rt eq_refl Hrn) as [Sin Sv].
    assert (Hlst : inW lst) by (inversion Hrn; assumption).
    destruct (shl_shr_split lst s Hlst ltac:(lia)) as (_ & Rl & _ & _).
    assert (P63 : 2 ^ s <= 2 ^ 63) by (apply Z.pow_le_mono_r; lia).
    assert (P127 : 2 ^ 63 <= 2 ^ 127) by (apply Z.pow_le_mono_r; lia).
    destruct (nx2_norm_loop_spec (d * 2 ^ s) (stream s (lst :: rt)) (shr64 lst (64 - s))
                Hnorm Sin ltac:(lia)) as (qs & E & Hlen & Hin & Hv).
    rewrite E. cbn [obind fst snd]. rewrite Sv in *.
    rewrite <- Erev, bev_rev in *.
    destruct (shifted_divmod (eval n) d s ltac:(lia) ltac:(lia)) as [Q R].
    unfold shr128. rewrite R. unfold LQ.
    rewrite (finish_q qs n (eval n / d)); auto.
    - rewrite Hlen, stream_length. reflexivity.
    - rewrite Hv. exact Q.
  Qed.
End Small.
