(* Proofs/PfCodecC.v — characterising lemmas for Model/CodecC.v, part 1: the bridge between the
   reference vocabulary of Spec/FmtC.v and the model's byte helpers, and the integrations that
   are limb-array / byte-array conversions (num-bigint, primitive-types, bytemuck, ark-ff). *)
From Coq Require Import ZArith List Bool Lia.
From RV.Model Require Import Base Word.
From RV.Model Require Bytes Conv BaseConv CodecC.
From RV.Spec Require FmtC.
From RV.Proofs Require Import BaseFacts.
From RV.Proofs Require PfBytes PfConv.
Import BaseConv(res, Ok, Err).

(* ---------- vocabulary ---------- *)
Lemma be_value_acc_spec bs : forall acc,
  FmtC.be_value_acc acc bs = acc * 256 ^ lenZ bs + Bytes.le_value (rev bs).
Proof.
  induction bs as [|b t IH]; intros acc.
  - unfold lenZ. cbn. lia.
  - cbn [FmtC.be_value_acc rev]. rewrite IH, PfBytes.le_value_snoc, PfBytes.lenZ_rev, PfBytes.lenZ_cons.
    pose proof (PfBytes.lenZ_nonneg t). rewrite Z.pow_add_r by lia. lia.
Qed.
Lemma be_value_spec bs : FmtC.be_value bs = Bytes.le_value (rev bs).
Proof. unfold FmtC.be_value. rewrite be_value_acc_spec. lia. Qed.
Lemma le_value_spec bs : FmtC.le_value bs = Bytes.le_value bs.
Proof. unfold FmtC.le_value. now rewrite be_value_spec, rev_involutive. Qed.

Lemma le_bytes_seq v n : forall k,
  map (fun i => FmtC.byte_at v (Z.of_nat i)) (seq k n)
  = Bytes.le_digits n (divp2 v (8 * Z.of_nat k)).
Proof.
  induction n as [|n IH]; intros k; [reflexivity|].
  cbn [seq map Bytes.le_digits]. f_equal. rewrite IH. f_equal.
  unfold divp2. rewrite Z.shiftr_shiftr by lia. f_equal. lia.
Qed.
Lemma le_bytes_spec n v : FmtC.le_bytes n v = Bytes.le_digits (Z.to_nat n) v.
Proof.
  unfold FmtC.le_bytes. rewrite le_bytes_seq. replace (8 * Z.of_nat 0) with 0 by reflexivity.
  unfold divp2. now rewrite Z.shiftr_0_r.
Qed.
Lemma be_bytes_spec n v : FmtC.be_bytes n v = rev (Bytes.le_digits (Z.to_nat n) v).
Proof. unfold FmtC.be_bytes. now rewrite le_bytes_spec. Qed.
Lemma put_be_spec n v : CodecC.put_be n v = FmtC.be_bytes (Z.of_nat n) v.
Proof. rewrite be_bytes_spec, Nat2Z.id. reflexivity. Qed.
Lemma SBYTES_nbytes bits : FmtC.SBYTES bits = Bytes.nbytes bits. Proof. reflexivity. Qed.
Lemma SLIMBS_nlimbs bits : FmtC.SLIMBS bits = nlimbs bits. Proof. reflexivity. Qed.

Lemma lenZ_le_digits n x : lenZ (Bytes.le_digits n x) = Z.of_nat n.
Proof. unfold lenZ. now rewrite PfBytes.le_digits_length. Qed.
Lemma lenZ_put_be n x : lenZ (CodecC.put_be n x) = Z.of_nat n.
Proof. unfold CodecC.put_be. now rewrite PfBytes.lenZ_rev, lenZ_le_digits. Qed.
Lemma be_uval_put_be n x : CodecC.be_uval (CodecC.put_be n x) = x mod 256 ^ Z.of_nat n.
Proof.
  unfold CodecC.be_uval, CodecC.put_be. now rewrite rev_involutive, PfBytes.le_value_le_digits.
Qed.
Lemma be_uval_spec bs : CodecC.be_uval bs = FmtC.be_value bs.
Proof. now rewrite be_value_spec. Qed.
Lemma isbyte_put_be n x : Forall Bytes.isbyte (CodecC.put_be n x).
Proof. apply Forall_rev, PfBytes.le_digits_isbyte. Qed.

(* two's complement *)
Lemma cast_signed w u :
  1 <= w -> 0 <= u < 2 ^ w ->
  Conv.cast {| Conv.pw := w; Conv.psigned := true |} u = FmtC.signed w u.
Proof.
  intros Hw Hu. unfold Conv.cast, FmtC.signed. cbn [Conv.pw Conv.psigned andb].
  rewrite modp2_spec by lia. rewrite Z.mod_small by lia.
  destruct (Z.leb_spec (2 ^ (w - 1)) u), (Z.ltb_spec u (2 ^ (w - 1))); lia.
Qed.
Lemma cast_unsigned w u :
  0 <= w -> 0 <= u < 2 ^ w -> Conv.cast {| Conv.pw := w; Conv.psigned := false |} u = u.
Proof.
  intros Hw Hu. unfold Conv.cast. cbn [Conv.pw Conv.psigned andb].
  rewrite modp2_spec by lia. now rewrite Z.mod_small by lia.
Qed.

Lemma be_value_range bs : Forall Bytes.isbyte bs -> 0 <= FmtC.be_value bs < 256 ^ lenZ bs.
Proof.
  intros H. rewrite be_value_spec. pose proof (PfBytes.le_value_bound (rev bs) (Forall_rev H)) as Hb.
  rewrite rev_length in Hb. exact Hb.
Qed.

(* ---------- Uint::from_limbs on an arbitrary limb array ---------- *)
Lemma from_limbs_spec bits l :
  0 <= bits -> length l = nlimbsN bits -> Forall inW l ->
  Conv.from_limbs bits l = if eval l <? 2 ^ bits then Val l else Panic.
Proof.
  intros Hb Hl Hw.
  destruct (Z.ltb_spec (eval l) (2 ^ bits)) as [Hlt|Hge].
  - apply PfConv.from_limbs_canon; [lia|]. now apply PfConv.mk_canon.
  - assert (Hpos : 0 < bits).
    { destruct (Z.eq_dec bits 0) as [->|]; [|lia]. unfold nlimbsN in Hl. cbn in Hl.
      destruct l; [cbn in Hge; lia|discriminate]. }
    unfold Conv.from_limbs.
    pose proof (last_gt_mask bits l Hpos Hl Hw) as Hm.
    destruct (Z.leb_spec (2 ^ bits) (eval l)); [|lia]. apply Z.ltb_lt in Hm.
    assert (Hs : should_mask bits = true).
    { rewrite should_mask_spec by lia. destruct (Z.eqb_spec (topbits bits) 64) as [E|E]; [|reflexivity].
      exfalso. rewrite mask_topbits, E in Hm by lia.
      destruct (canon_len_split bits l Hpos Hl) as (i & x & -> & Hi).
      rewrite last_snoc in Hm. apply Forall_app in Hw. destruct Hw as [_ Hx].
      inversion Hx as [|? ? Hx' _]; subst. unfold inW in Hx'. rewrite B_pow in Hx'. lia. }
    rewrite Hs. destruct (canon_len_split bits l Hpos Hl) as (i & x & -> & Hi).
    rewrite last_snoc in Hm.
    replace (Z.to_nat (nlimbs bits - 1)) with (length i) by lia.
    rewrite nth_error_app2 by lia. rewrite Nat.sub_diag. cbn [nth_error].
    destruct (Z.leb_spec x (mask bits)); [lia|reflexivity].
Qed.

Lemma from_limbs_uint_of bits l :
  0 <= bits -> length l = nlimbsN bits -> Forall inW l -> eval l < 2 ^ bits ->
  l = uint_of bits (eval l).
Proof. intros. apply uint_of_unique; [now apply PfConv.mk_canon|reflexivity]. Qed.

(* ---------- num-bigint ---------- *)
Lemma u64_digits_fuel_spec n : forall v,
  0 <= v < B ^ Z.of_nat n ->
  eval (CodecC.u64_digits_fuel n v) = v /\ Forall inW (CodecC.u64_digits_fuel n v).
Proof.
  induction n as [|n IH]; intros v Hv.
  - cbn in *. split; [lia|constructor].
  - cbn [CodecC.u64_digits_fuel]. destruct (Z.leb_spec v 0).
    + split; [cbn; lia|constructor].
    + rewrite Bn_S in Hv. rewrite modp2_B, divp2_B.
      pose proof B_pos.
      destruct (IH (v / B)) as [He Hw].
      { split; [apply Z.div_pos; lia|]. apply Z.div_lt_upper_bound; lia. }
      split.
      * rewrite eval_cons, He. pose proof (Z.div_mod v B). lia.
      * constructor; [|exact Hw]. unfold inW. apply Z.mod_pos_bound; lia.
Qed.

Lemma to_u64_digits_spec v :
  0 <= v -> eval (CodecC.to_u64_digits v) = v /\ Forall inW (CodecC.to_u64_digits v).
Proof.
  intros Hv. unfold CodecC.to_u64_digits. apply u64_digits_fuel_spec. split; [lia|].
  destruct (Z.eq_dec v 0) as [->|Hnz].
  - apply Bn_pos.
  - rewrite Bn_pow2.
    pose proof (Z.log2_nonneg v).
    assert (0 <= Z.log2 v / 64) by (apply Z.div_pos; lia).
    rewrite Nat2Z.inj_succ, Z2Nat.id by lia.
    apply Z.lt_le_trans with (2 ^ (Z.log2 v + 1)).
    + pose proof (Z.log2_spec v ltac:(lia)). replace (Z.log2 v + 1) with (Z.succ (Z.log2 v)) by lia. lia.
    + apply Z.pow_le_mono_r; [lia|]. pose proof (Z.div_mod (Z.log2 v) 64).
      pose proof (Z.mod_pos_bound (Z.log2 v) 64). lia.
Qed.

Definition big_res (bits v : Z) : res CodecC.uerr (list Z) :=
  if v <? 0 then Err (CodecC.UNegative bits (uint_of bits ((- v) mod 2 ^ bits)))
  else if 2 ^ bits <=? v then Err (CodecC.UTooLarge bits (uint_of bits (v mod 2 ^ bits)))
  else Ok (uint_of bits v).

Lemma try_from_biguint_spec bits v :
  0 <= bits -> 0 <= v -> CodecC.try_from_biguint bits v = Val (big_res bits v).
Proof.
  intros Hb Hv. unfold CodecC.try_from_biguint, big_res.
  destruct (to_u64_digits_spec v Hv) as [He Hw].
  rewrite PfConv.overflowing_from_limbs_slice_spec by assumption. cbn [obind]. rewrite He.
  destruct (Z.ltb_spec v 0); [lia|].
  destruct (Z.leb_spec (2 ^ bits) v); [reflexivity|].
  now rewrite Z.mod_small by lia.
Qed.

Lemma try_from_bigint_spec bits v :
  0 <= bits -> CodecC.try_from_bigint bits v = Val (big_res bits v).
Proof.
  intros Hb. unfold CodecC.try_from_bigint, big_res.
  destruct (to_u64_digits_spec (Z.abs v) (Z.abs_nonneg v)) as [He Hw].
  rewrite PfConv.overflowing_from_limbs_slice_spec by assumption. cbn [obind]. rewrite He.
  destruct (Z.ltb_spec v 0).
  - now rewrite Z.abs_neq by lia.
  - rewrite Z.abs_eq by lia. destruct (Z.leb_spec (2 ^ bits) v); [reflexivity|].
    now rewrite Z.mod_small by lia.
Qed.

Lemma to_biguint_spec bits a : 0 <= bits -> canon bits a -> CodecC.to_biguint bits a = eval a.
Proof.
  intros Hb Hc. unfold CodecC.to_biguint.
  rewrite PfBytes.as_le_bytes_spec by assumption.
  rewrite PfBytes.le_value_le_digits.
  pose proof (canon_range bits a Hb Hc). pose proof (PfBytes.pow_bits_le_bytes bits Hb).
  rewrite PfBytes.nbytesN_Z by lia. apply Z.mod_small. lia.
Qed.

(* ---------- bytemuck ---------- *)
Lemma bm_bytes_of_spec a :
  Forall inW a -> CodecC.bm_bytes_of a = Bytes.le_digits (8 * length a) (eval a).
Proof. apply PfBytes.limb_bytes_spec. Qed.
