(* Proofs/PfGenPow.v — the generated definitions of src/pow.rs (tools_rs2v.py, Gen/Scalar.v) are the
   model functions of Model/Pow.v.  The two `while !exp.is_zero()` loops run on while_fuel with the
   round bound BITS + 1 of the translator's table, which is the model's pow_fuel. *)
From Coq Require Import ZArith List Bool Lia.
From RV.Model Require Import Base Word.
From RV.Model Require Bits Shift Mul UDiv Pow.
From RV.Gen Require Import Prim Scalar.
From RV.Proofs Require Import BaseFacts PfGenScalar PfGenAdd PfGenMul PfGenDiv PfGenBits PfGenShift.
From RV.Proofs Require PfPow PfModelsAgree.
Import ListNotations.

Definition ow_cond (BITS LIMBS : Z) (t_7 : list Z * bool * list Z * bool * list Z) : outcome bool :=
  let '(result, overflow, self, base_overflow, exp) := t_7 in Val ((negb ((g_is_zero BITS LIMBS exp)))).
Definition ow_body (BITS LIMBS : Z) (t_7 : list Z * bool * list Z * bool * list Z)
  : outcome (list Z * bool * list Z * bool * list Z) :=
  let '(result, overflow, self, base_overflow, exp) := t_7 in do t_1 <- g_bit BITS LIMBS exp 0 ; do t_3 <- (if t_1 then (do t_2 <- g_overflowing_mul BITS LIMBS result self ; let '(r, o) := t_2 in
   let result := r in
   let overflow := (orb overflow ((orb o base_overflow))) in
  Val (result, overflow)) else (Val (result, overflow))) ;
  let '(result, overflow) := t_3 in
  do t_4 <- g_overflowing_mul BITS LIMBS self self ; let '(s, o) := t_4 in
   let self := s in
   let base_overflow := (orb base_overflow o) in
  do t_5 <- g_wrapping_shr BITS LIMBS exp 1 ; let exp := t_5 in
  Val (result, overflow, self, base_overflow, exp).

Lemma g_overflowing_pow_unfold bits L a e :
  g_overflowing_pow bits L a e =
  if bits =? 0 then Val (a, false) else
  do t <- while_fuel (S (Z.to_nat bits)) (UDiv.uone bits, false, a, false, e) (ow_cond bits L) (ow_body bits L) ;
  let '(result, overflow, self, base_overflow, exp) := t in Val (result, overflow).
Proof. reflexivity. Qed.

Definition ww_cond (BITS LIMBS : Z) (t_7 : list Z * list Z * list Z) : outcome bool :=
  let '(result, self, exp) := t_7 in Val ((negb ((g_is_zero BITS LIMBS exp)))).
Definition ww_body (BITS LIMBS : Z) (t_7 : list Z * list Z * list Z) : outcome (list Z * list Z * list Z) :=
  let '(result, self, exp) := t_7 in do t_1 <- g_bit BITS LIMBS exp 0 ; do result <- (if t_1 then (do t_2 <- g_wrapping_mul BITS LIMBS result self ; let result := t_2 in
  Val result) else (Val result)) ;
  do t_4 <- g_wrapping_mul BITS LIMBS self self ; let self := t_4 in
  do t_5 <- g_wrapping_shr BITS LIMBS exp 1 ; let exp := t_5 in
  Val (result, self, exp).

Lemma g_wrapping_pow_unfold bits L a e :
  g_wrapping_pow bits L a e =
  if bits =? 0 then Val a else
  do t <- while_fuel (S (Z.to_nat bits)) (UDiv.uone bits, a, e) (ww_cond bits L) (ww_body bits L) ;
  let '(result, self, exp) := t in Val result.
Proof. reflexivity. Qed.

Section Loops.
  Variable bits : Z.
  Hypothesis Hpos : 0 < bits.
  Hypothesis HB : nlimbs bits < B.

  Let H0 : 0 <= bits. Proof. lia. Qed.
  Let HB' : nlimbs bits <= B. Proof. lia. Qed.

  Lemma g_omul r s : canon bits r -> canon bits s ->
    g_overflowing_mul bits (nlimbs bits) r s = Val (Pow.overflowing_mul bits r s).
  Proof.
    intros (Hr & Wr & _) (Hs & Ws & _).
    rewrite PfModelsAgree.agree_pow_overflowing_mul. exact (g_overflowing_mul_eq bits r s H0 HB' Hr Hs Wr Ws).
  Qed.
  Lemma g_wmul r s : canon bits r -> canon bits s ->
    g_wrapping_mul bits (nlimbs bits) r s = Pow.wrapping_mul bits r s.
  Proof.
    intros (Hr & Wr & _) (Hs & Ws & _).
    rewrite PfModelsAgree.agree_pow_wrapping_mul. exact (g_wrapping_mul_eq bits r s H0 HB' Hr Hs Wr Ws).
  Qed.
  Lemma g_shr1 x : canon bits x ->
    g_wrapping_shr bits (nlimbs bits) x 1 = Val (Shift.wrapping_shr bits x 1).
  Proof.
    intros (Hx & _). destruct (g_shift_wrappers_eq bits x 1 H0 HB Hx ltac:(lia)) as (_ & _ & _ & _ & E). exact E.
  Qed.

  Lemma ow_loop_eq : forall fuel r ov s bov x, canon bits r -> canon bits s -> canon bits x ->
    (do t <- while_fuel fuel (r, ov, s, bov, x) (ow_cond bits (nlimbs bits)) (ow_body bits (nlimbs bits)) ;
     let '(result, overflow, self, base_overflow, exp) := t in Val (result, overflow))
    = Pow.opow_loop fuel bits s x r ov bov.
  Proof.
    induction fuel as [|fuel IH]; intros r ov s bov x Cr Cs Cx; [reflexivity|].
    cbn [while_fuel Pow.opow_loop]. unfold ow_cond at 1. cbv beta iota.
    rewrite g_is_zero_eq, <- PfModelsAgree.agree_pow_is_zero. cbn [obind].
    destruct (Pow.is_zero bits x); cbn [negb]; [reflexivity|].
    unfold ow_body at 1. cbv beta iota.
    rewrite (g_bit_eq bits (nlimbs bits) x 0 ltac:(lia)), (PfPow.bit0_spec bits x Hpos Cx). cbn [obind].
    pose proof (PfPow.overflowing_mul_spec bits s s H0 Cs Cs) as Sss.
    rewrite (g_omul s s Cs Cs), (g_shr1 x Cx).
    destruct (PfPow.shr1_spec bits x H0 Cx) as [Cx' _].
    destruct (Z.odd (eval x)).
    - pose proof (PfPow.overflowing_mul_spec bits r s H0 Cr Cs) as Srs.
      rewrite (g_omul r s Cr Cs). cbn [obind].
      destruct (Pow.overflowing_mul bits r s) as [r0 o0]. destruct Srs as (Cr0 & _).
      destruct (Pow.overflowing_mul bits s s) as [s1 o1]. destruct Sss as (Cs1 & _).
      cbv beta iota zeta. cbn [obind]. apply IH; assumption.
    - cbn [obind].
      destruct (Pow.overflowing_mul bits s s) as [s1 o1]. destruct Sss as (Cs1 & _).
      cbv beta iota zeta. cbn [obind]. apply IH; assumption.
  Qed.

  Lemma ww_loop_eq : forall fuel r s x, canon bits r -> canon bits s -> canon bits x ->
    (do t <- while_fuel fuel (r, s, x) (ww_cond bits (nlimbs bits)) (ww_body bits (nlimbs bits)) ;
     let '(result, self, exp) := t in Val result)
    = Pow.wpow_loop fuel bits s x r.
  Proof.
    induction fuel as [|fuel IH]; intros r s x Cr Cs Cx; [reflexivity|].
    cbn [while_fuel Pow.wpow_loop]. unfold ww_cond at 1. cbv beta iota.
    rewrite g_is_zero_eq, <- PfModelsAgree.agree_pow_is_zero. cbn [obind].
    destruct (Pow.is_zero bits x); cbn [negb]; [reflexivity|].
    unfold ww_body at 1. cbv beta iota.
    rewrite (g_bit_eq bits (nlimbs bits) x 0 ltac:(lia)), (PfPow.bit0_spec bits x Hpos Cx). cbn [obind].
    destruct (PfPow.wrapping_mul_spec bits s s H0 Cs Cs) as (s1 & Es & Cs1 & _).
    rewrite (g_wmul s s Cs Cs), (g_shr1 x Cx), Es.
    destruct (PfPow.shr1_spec bits x H0 Cx) as [Cx' _].
    destruct (Z.odd (eval x)).
    - destruct (PfPow.wrapping_mul_spec bits r s H0 Cr Cs) as (r1 & Er & Cr1 & _).
      rewrite (g_wmul r s Cr Cs), Er. cbn [obind]. apply IH; assumption.
    - cbn [obind]. apply IH; assumption.
  Qed.
End Loops.

Theorem g_pow_eq bits a e :
  0 <= bits -> nlimbs bits < B -> canon bits a -> canon bits e ->
  g_overflowing_pow bits (nlimbs bits) a e = Pow.overflowing_pow bits a e /\
  g_checked_pow bits (nlimbs bits) a e = Pow.checked_pow bits a e /\
  g_saturating_pow bits (nlimbs bits) a e = Pow.saturating_pow bits a e /\
  g_wrapping_pow bits (nlimbs bits) a e = Pow.wrapping_pow bits a e /\
  g_pow bits (nlimbs bits) a e = Pow.pow bits a e.
Proof.
  intros Hb HB Ca Ce.
  assert (Eo : g_overflowing_pow bits (nlimbs bits) a e = Pow.overflowing_pow bits a e).
  { rewrite g_overflowing_pow_unfold. unfold Pow.overflowing_pow, Pow.pow_fuel.
    destruct (Z.eqb_spec bits 0) as [?|N]; [reflexivity|].
    rewrite PfModelsAgree.agree_udiv_uone.
    apply ow_loop_eq; try assumption; try lia. apply PfPow.uONE_spec. lia. }
  assert (Ew : g_wrapping_pow bits (nlimbs bits) a e = Pow.wrapping_pow bits a e).
  { rewrite g_wrapping_pow_unfold. unfold Pow.wrapping_pow, Pow.pow_fuel.
    destruct (Z.eqb_spec bits 0) as [?|N]; [reflexivity|].
    rewrite PfModelsAgree.agree_udiv_uone.
    apply ww_loop_eq; try assumption; try lia. apply PfPow.uONE_spec. lia. }
  split; [exact Eo|]. split; [|split; [|split; [exact Ew|]]].
  - unfold g_checked_pow, Pow.checked_pow. rewrite Eo.
    destruct (Pow.overflowing_pow bits a e) as [[x [|]]| | | |]; reflexivity.
  - unfold g_saturating_pow, Pow.saturating_pow. rewrite Eo.
    destruct (Pow.overflowing_pow bits a e) as [[x [|]]| | | |]; reflexivity.
  - unfold g_pow, Pow.pow. rewrite Ew. destruct (Pow.wrapping_pow bits a e); reflexivity.
Qed.
