(* Proofs/PfDiv2x1.v — Möller–Granlund 2010, Algorithm 4 / Theorem 2: div_2x1_mg10 is exact
   when v is the reciprocal of d. *)
From Coq Require Import ZArith List Bool Lia.
From RV.Model Require Import Base Word DivRecip DivSmall.
From RV.Proofs Require Import BaseFacts PfDivBase.
Import ListNotations.
Local Open Scope Z_scope.

Lemma divmod_unique u d q r : 0 <= r < d -> u = q * d + r -> u / d = q /\ u mod d = r.
Proof.
  intros Hr Hu. split.
  - symmetry. apply Z.div_unique with (r := r); lia.
  - symmetry. apply Z.mod_unique with (q := q); lia.
Qed.

Lemma wrap_eq_of x y : 0 <= y < B -> (exists k, x = y + k * B) -> wrap x = y.
Proof.
  intros Hy [k ->]. unfold wrap. rewrite Z.mod_add by (pose proof B_pos; lia).
  apply Z.mod_small; lia.
Qed.

(* the arithmetic core: bounds on the candidate remainder r' = u - (q1+1) d *)
Lemma mg10_thm2_bounds d v k u1 u0 q1 q0 :
  2 ^ 63 <= d < B -> 0 <= v ->
  (B + v) * d = B * B - k -> 1 <= k <= d ->
  0 <= u1 < d -> 0 <= u0 < B -> 0 <= q0 < B ->
  q1 * B + q0 = u1 * (B + v) + u0 ->
  let r' := u1 * B + u0 - (q1 + 1) * d in
  - d <= r' /\ q0 < r' + B /\ (B - d <= q0 -> r' < q0) /\ (q0 < B - d -> r' < B - d).
Proof.
  intros Hd Hv Hk Hkr Hu1 Hu0 Hq0 Hq r'. pose proof pow63 as P.
  assert (E : r' * B = u0 * (B - d) + u1 * k + q0 * d - B * d).
  { subst r'.
    replace ((u1 * B + u0 - (q1 + 1) * d) * B)
      with ((u1 * B + u0) * B - (q1 * B + q0) * d + q0 * d - B * d) by ring.
    rewrite Hq.
    replace ((u1 * (B + v) + u0) * d) with (u1 * ((B + v) * d) + u0 * d) by ring.
    rewrite Hk. ring. }
  assert (X0 : 0 <= u0 * (B - d)) by (apply Z.mul_nonneg_nonneg; lia).
  assert (Y0 : 0 <= u1 * k) by (apply Z.mul_nonneg_nonneg; lia).
  assert (X1 : u0 * (B - d) <= (B - 1) * (B - d)) by (apply Z.mul_le_mono_nonneg_r; lia).
  assert (Y1 : u1 * k <= (d - 1) * d) by (apply Z.mul_le_mono_nonneg; lia).
  assert (Q0 : 0 <= q0 * d) by (apply Z.mul_nonneg_nonneg; lia).
  assert (Q1 : q0 * d <= (B - 1) * d) by (apply Z.mul_le_mono_nonneg_r; lia).
  set (X := u0 * (B - d)) in *. set (Y := u1 * k) in *.
  clearbody X Y r'. clear Hq Hk Hkr Hu1 Hu0 Hv P k u1 u0 v q1.
  repeat split.
  - assert (0 <= (r' + d) * B) by (clear - E X0 Y0 Q0; lia).
    clear - H Hd. nia.
  - assert (0 < (r' + B - q0) * B).
    { replace ((r' + B - q0) * B) with (r' * B + B * B - q0 * B) by ring. rewrite E.
      assert (q0 * (B - d) < B * (B - d)) by (apply Z.mul_lt_mono_pos_r; lia).
      clear - H X0 Y0. lia. }
    clear - H Hd. nia.
  - intros Hc.
    assert ((r' - q0) * B < 0).
    { replace ((r' - q0) * B) with (r' * B - q0 * B) by ring. rewrite E.
      assert ((B - d) * (B - d) <= q0 * (B - d)) by (apply Z.mul_le_mono_nonneg_r; lia).
      clear - H X1 Y1 Hd. lia. }
    clear - H Hd. nia.
  - intros Hc.
    assert ((r' - (B - d)) * B < 0).
    { replace ((r' - (B - d)) * B) with (r' * B - (B - d) * B) by ring. rewrite E.
      assert (q0 * d < (B - d) * d) by (apply Z.mul_lt_mono_pos_r; lia).
      clear - H X1 Y1 Hd. lia. }
    clear - H Hd. nia.
Qed.

Lemma div_2x1_body_spec u d v :
  2 ^ 63 <= d < B -> 0 <= u -> hi128 u < d -> v = recip1 d ->
  div_2x1_body u d v = Val (u / d, u mod d).
Proof.
  intros Hd Hu0' Hu1 ->. pose proof pow63 as P. pose proof B_pos as HB.
  destruct (recip1_spec d Hd) as [Hv [Hlo Hhi]].
  set (v := recip1 d) in *.
  set (k := B * B - (B + v) * d).
  assert (Hk : (B + v) * d = B * B - k) by (subst k; ring).
  assert (Hkr : 1 <= k <= d) by (subst k; lia).
  pose proof (hi_lo_128 u) as Hu. pose proof (lo128_range u) as Hl.
  set (u1 := hi128 u) in *. set (u0 := lo128 u) in *.
  assert (Hu1r : 0 <= u1 < d).
  { split; [|assumption]. subst u1. unfold hi128. apply Z.div_pos; lia. }
  unfold div_2x1_body. fold u1 u0.
  set (q := u + u1 * v).
  assert (Hqv : q = u1 * (B + v) + u0) by (subst q; rewrite Hu at 1; ring).
  assert (Hqr : 0 <= q < B * B).
  { rewrite Hqv. split.
    - assert (0 <= u1 * (B + v)) by (apply Z.mul_nonneg_nonneg; lia). lia.
    - assert (u1 * (B + v) <= (d - 1) * (B + v)) by (apply Z.mul_le_mono_nonneg_r; lia). lia. }
  rewrite BB_eq. destruct (Z.leb_spec (B * B) q) as [Hc|_]; [lia|].
  pose proof (hi_lo_128 q) as Hq. pose proof (lo128_range q) as Hq0.
  pose proof (hi128_range q Hqr) as Hq1.
  set (q1 := hi128 q) in *. set (q0 := lo128 q) in *.
  assert (Hq' : q1 * B + q0 = u1 * (B + v) + u0) by lia.
  destruct (mg10_thm2_bounds d v k u1 u0 q1 q0 Hd (proj1 Hv) Hk Hkr Hu1r Hl Hq0 Hq')
    as (Hb1 & Hb2 & Hb3 & Hb4).
  set (r' := u1 * B + u0 - (q1 + 1) * d) in *.
  assert (Hur : u = (q1 + 1) * d + r') by (subst r'; lia).
  assert (HuB : u < d * B).
  { assert (u1 * B <= (d - 1) * B) by (apply Z.mul_le_mono_nonneg_r; lia). lia. }
  (* the computed r is r' mod B *)
  assert (Hr : wrap (u0 - wrap (wrap (q1 + 1) * d)) = r' mod B).
  { unfold wrap. rewrite Z.mul_mod_idemp_l, Zminus_mod_idemp_r by lia.
    subst r'. replace (u1 * B + u0 - (q1 + 1) * d) with (u0 - (q1 + 1) * d + u1 * B) by ring.
    rewrite Z.mod_add by lia. reflexivity. }
  rewrite Hr. clear Hr.
  assert (Hdec : wrap (wrap (q1 + 1) - 1) = q1).
  { apply wrap_eq_of; [lia|]. unfold wrap.
    exists (- ((q1 + 1) / B)). pose proof (Z.div_mod (q1 + 1) B). lia. }
  destruct (Z.ltb_spec r' 0) as [Hneg|Hpos].
  - (* candidate too large by one *)
    assert (Hm : r' mod B = r' + B).
    { symmetry. apply Z.mod_unique with (q := -1); lia. }
    rewrite Hm. destruct (Z.ltb_spec q0 (r' + B)) as [_|Hc]; [|lia].
    rewrite Hdec.
    assert (Hw : wrap (r' + B + d) = r' + d) by (apply wrap_eq_of; [lia|exists 1; ring]).
    rewrite Hw. destruct (Z.leb_spec d (r' + d)) as [Hc|_]; [lia|].
    destruct (divmod_unique u d q1 (r' + d)) as [-> ->]; [lia|lia|reflexivity].
  - assert (Hrlt : r' < B) by (destruct (Z.le_gt_cases (B - d) q0); [pose proof (Hb3 H)|pose proof (Hb4 H)]; lia).
    rewrite (Z.mod_small r' B) by lia.
    assert (Hq1s : q1 + 1 < B).
    { apply (Z.mul_lt_mono_pos_r d); [lia|]. clear - Hur Hpos HuB. lia. }
    assert (Hw1 : wrap (q1 + 1) = q1 + 1) by (apply wrap_small; lia).
    destruct (Z.ltb_spec q0 r') as [Hgt|Hle].
    + (* spurious decrement, undone by the increment *)
      assert (r' < B - d) by (destruct (Z.le_gt_cases (B - d) q0); [pose proof (Hb3 H)|pose proof (Hb4 H)]; lia).
      rewrite Hdec.
      assert (Hw : wrap (r' + d) = r' + d) by (apply wrap_small; lia).
      rewrite Hw. destruct (Z.leb_spec d (r' + d)) as [_|Hc]; [|lia].
      replace (r' + d - d) with r' by ring. rewrite (wrap_small r') by lia. rewrite Hw1.
      destruct (divmod_unique u d (q1 + 1) r') as [-> ->]; [lia|lia|reflexivity].
    + destruct (Z.leb_spec d r') as [Hge|Hlt].
      * assert (q1 + 2 < B).
        { apply (Z.mul_lt_mono_pos_r d); [lia|]. clear - Hur Hge HuB. lia. }
        rewrite Hw1. rewrite (wrap_small (q1 + 1 + 1)) by lia. rewrite (wrap_small (r' - d)) by lia.
        destruct (divmod_unique u d (q1 + 1 + 1) (r' - d)) as [-> ->]; [lia|lia|reflexivity].
      * rewrite Hw1.
        destruct (divmod_unique u d (q1 + 1) r') as [-> ->]; [lia|lia|reflexivity].
Qed.
Print Assumptions div_2x1_body_spec.
