(* Proofs/PfCodecCNum.v — postgres NUMERIC (base-10000 digits with header) and the text column
   types (hex text, JSON strings): the model's encoder emits the reference encoding, the
   reference decoder inverts the reference encoder, and the model's decoder follows the
   reference decoder on every input. *)
From Coq Require Import ZArith List Bool Lia.
From RV.Model Require Import Base Word.
From RV.Model Require Bytes Conv BaseConv Str Fmt CodecC.
From RV.Spec Require FmtC.
From RV.Run Require RunC09 RunC16C RunC17C.
From RV.Proofs Require Import BaseFacts.
From RV.Proofs Require PfBytes PfConv PfPositional PfBaseConv PfStr PfFmt PfC09.
From RV.Proofs Require Import PfCodecC.
Import BaseConv(res, Ok, Err).

(* ---------- expect ---------- *)
Lemma list_eqb_eq {A} (eqb : A -> A -> bool) :
  (forall x y, eqb x y = true -> x = y) -> forall a b, list_eqb eqb a b = true -> a = b.
Proof.
  intros H. induction a as [|x a IH]; destruct b as [|y b]; cbn; try discriminate; auto.
  intros E. apply andb_true_iff in E. destruct E as [E1 E2]. f_equal; auto.
Qed.
Lemma tok_eqb_eq a b : tok_eqb a b = true -> a = b.
Proof.
  destruct a, b; cbn; try discriminate; intros E; f_equal;
    try (apply (list_eqb_eq Z.eqb); [intros ? ?; apply Z.eqb_eq|exact E]);
    try (now apply Z.eqb_eq); try reflexivity.
  now apply Bool.eqb_prop.
Qed.
Lemma expect_eq o t : expect o t = true -> o = Val t.
Proof.
  unfold expect. destruct o; cbn; try discriminate. intros E. f_equal.
  apply (list_eqb_eq tok_eqb tok_eqb_eq). exact E.
Qed.
Definition expect_refl := PfPositional.expect_refl.

(* ---------- trailing zeros ---------- *)
Lemma drop_zeros_decomp l : exists k, l = repeat 0 k ++ FmtC.drop_zeros l.
Proof.
  induction l as [|x t IH]; [exists O; reflexivity|].
  destruct x as [|p|p]; try (exists O; reflexivity).
  destruct IH as (k & E). exists (S k). cbn [FmtC.drop_zeros repeat app]. now rewrite <- E.
Qed.
Lemma drop_zeros_snoc l b :
  FmtC.drop_zeros (l ++ [b]) =
  match FmtC.drop_zeros l with [] => if b =? 0 then [] else [b] | d => d ++ [b] end.
Proof.
  induction l as [|x t IH].
  - cbn. destruct b; reflexivity.
  - destruct x as [|p|p]; cbn [app FmtC.drop_zeros]; [exact IH|reflexivity|reflexivity].
Qed.
Lemma strip_cons b t :
  FmtC.strip_trailing_zeros (b :: t) =
  match FmtC.strip_trailing_zeros t with
  | [] => if b =? 0 then [] else [b]
  | s => b :: s
  end.
Proof.
  unfold FmtC.strip_trailing_zeros. cbn [rev]. rewrite drop_zeros_snoc.
  destruct (FmtC.drop_zeros (rev t)) as [|d ds] eqn:E.
  - cbn. destruct (b =? 0); reflexivity.
  - rewrite rev_app_distr. cbn [rev app].
    destruct (rev ds ++ [d]) eqn:E2; [destruct (rev ds); discriminate|reflexivity].
Qed.
Lemma strip_decomp l : exists k, l = FmtC.strip_trailing_zeros l ++ repeat 0 k.
Proof.
  destruct (drop_zeros_decomp (rev l)) as (k & E). exists k.
  unfold FmtC.strip_trailing_zeros. set (d := FmtC.drop_zeros (rev l)) in *.
  apply (f_equal (@rev Z)) in E. rewrite rev_involutive, rev_app_distr, PfFmt.rev_repeat in E. exact E.
Qed.

Lemma trim_end_vec_strip l :
  Bytes.trim_end_vec l 0 = FmtC.strip_trailing_zeros l
  /\ Bytes.last_idx l 0 = lenZ (FmtC.strip_trailing_zeros l).
Proof.
  unfold Bytes.trim_end_vec. induction l as [|b t [IH1 IH2]]; [split; reflexivity|].
  cbn [Bytes.last_idx]. rewrite strip_cons, IH2.
  destruct (FmtC.strip_trailing_zeros t) as [|s0 s] eqn:Es.
  - cbn [lenZ length Z.of_nat Z.ltb]. destruct (Z.eqb_spec b 0); split; reflexivity.
  - rewrite IH2 in IH1. rewrite PfBytes.lenZ_cons in *. pose proof (PfBytes.lenZ_nonneg s).
    destruct (Z.ltb_spec 0 (1 + lenZ s)); [|lia]. split; [|rewrite !PfBytes.lenZ_cons; lia].
    replace (Z.to_nat (1 + lenZ s + 1)) with (S (Z.to_nat (1 + lenZ s))) by lia.
    cbn [firstn]. now rewrite IH1.
Qed.

(* ---------- positional facts in base 10000 ---------- *)
Lemma value_le_repeat0 b k : RunC09.value_le b (repeat 0 k) = 0.
Proof. induction k; cbn [repeat RunC09.value_le]; lia. Qed.
Lemma value_be_app_zeros b s k :
  RunC09.value_be b (s ++ repeat 0 k) = RunC09.value_be b s * b ^ Z.of_nat k.
Proof.
  unfold RunC09.value_be. rewrite rev_app_distr, PfFmt.rev_repeat, PfPositional.value_le_app,
    value_le_repeat0, repeat_length. lia.
Qed.
Lemma value_be_digits b v : 2 <= b -> 0 <= v -> RunC09.value_be b (RunC09.digits_be b v) = v.
Proof.
  intros. unfold RunC09.value_be, RunC09.digits_be. rewrite rev_involutive.
  now apply PfPositional.value_digits.
Qed.
Lemma digits_be_range b v : 2 <= b -> Forall (fun d => 0 <= d < b) (RunC09.digits_be b v).
Proof. intros. apply Forall_rev. now apply PfPositional.digits_range. Qed.
Lemma value_be_nonneg b ds : 0 <= b -> Forall (fun d => 0 <= d < b) ds -> 0 <= RunC09.value_be b ds.
Proof.
  intros Hb H. unfold RunC09.value_be. apply PfPositional.value_le_nonneg; [lia|].
  apply Forall_rev. eapply Forall_impl; [|exact H]. cbn beta. intros; lia.
Qed.
Lemma pow_13 z : 0 <= z -> 2 ^ (13 * z) <= 10000 ^ z.
Proof.
  intros Hz. rewrite Z.pow_mul_r by lia. apply Z.pow_le_mono_l. cbn. lia.
Qed.

(* ---------- two-byte fields ---------- *)
Lemma be_bytes_2 x : FmtC.be_bytes 2 x = [FmtC.byte_at x 1; FmtC.byte_at x 0].
Proof. reflexivity. Qed.
Lemma byte_at_range x i : 0 <= i -> 0 <= FmtC.byte_at x i < 256.
Proof.
  intros Hi. unfold FmtC.byte_at. rewrite modp2_spec by lia. apply Z.mod_pos_bound. lia.
Qed.
Lemma bytes_2_value x : 0 <= x < 2 ^ 16 -> FmtC.byte_at x 1 * 256 + FmtC.byte_at x 0 = x.
Proof.
  intros Hx. unfold FmtC.byte_at. rewrite !modp2_spec, !divp2_spec by lia.
  change (2 ^ (8 * 1)) with 256. change (2 ^ (8 * 0)) with 1. change (2 ^ 8) with 256.
  rewrite Z.div_1_r. rewrite (Z.mod_small (x / 256)) by (split; [apply Z.div_pos; lia|apply Z.div_lt_upper_bound; lia]).
  pose proof (Z.div_mod x 256). lia.
Qed.
Lemma signed16_small x : 0 <= x < 2 ^ 15 -> FmtC.signed 16 x = x.
Proof. intros H. unfold FmtC.signed. destruct (Z.ltb_spec x (2 ^ (16 - 1))); [reflexivity|]. cbn in *. lia. Qed.

Lemma i16_list_digits ds :
  Forall (fun d => 0 <= d < 10000) ds -> FmtC.i16_list (flat_map (FmtC.be_bytes 2) ds) = ds.
Proof.
  induction 1 as [|d t Hd Ht IH]; [reflexivity|].
  cbn [flat_map]. rewrite be_bytes_2. cbn [app FmtC.i16_list]. rewrite IH.
  rewrite bytes_2_value by lia. rewrite signed16_small by lia. reflexivity.
Qed.
Lemma lenZ_flat_map_2 ds : lenZ (flat_map (FmtC.be_bytes 2) ds) = 2 * lenZ ds.
Proof.
  induction ds as [|d t IH]; [reflexivity|]. cbn [flat_map]. rewrite be_bytes_2.
  cbn [app]. rewrite !PfBytes.lenZ_cons, IH. lia.
Qed.
Lemma flat_map_bytes ds : Forall Bytes.isbyte (flat_map (FmtC.be_bytes 2) ds).
Proof.
  induction ds as [|d t IH]; [constructor|]. cbn [flat_map]. rewrite be_bytes_2. cbn [app].
  constructor; [apply byte_at_range; lia|]. constructor; [apply byte_at_range; lia|exact IH].
Qed.

(* ---------- NUMERIC: model encoder = reference ---------- *)
Lemma put_digits_spec ds :
  Forall (fun d => 0 <= d < 10000) ds -> CodecC.put_digits ds = Val (flat_map (FmtC.be_bytes 2) ds).
Proof.
  induction 1 as [|d t Hd Ht IH]; [reflexivity|].
  cbn [CodecC.put_digits flat_map]. rewrite IH. cbn [obind].
  destruct (Z.ltb_spec d 10000); [|lia]. now rewrite put_be_spec.
Qed.
Lemma Forall_strip (P : Z -> Prop) l : Forall P l -> Forall P (FmtC.strip_trailing_zeros l).
Proof.
  intros H. destruct (strip_decomp l) as (k & E). rewrite E in H. apply Forall_app in H. tauto.
Qed.

Lemma numeric_to_sql bits a :
  0 <= bits -> canon bits a ->
  CodecC.pg_to_sql bits CodecC.ty_NUMERIC a =
  Val (match FmtC.numeric_ref (eval a) with Some bs => Ok bs | None => Err CodecC.TSInt end).
Proof.
  intros Hb Hc. pose proof (canon_range bits a Hb Hc) as Hv. destruct Hc as (Hl & Hw & _).
  unfold CodecC.pg_to_sql. cbn [Z.eqb CodecC.ty_NUMERIC CodecC.ty_BOOL CodecC.ty_INT2 CodecC.ty_INT4
    CodecC.ty_OID CodecC.ty_INT8 CodecC.ty_FLOAT4 CodecC.ty_FLOAT8 CodecC.ty_MONEY CodecC.ty_BYTEA
    CodecC.ty_BIT CodecC.ty_VARBIT CodecC.ty_CHAR CodecC.ty_TEXT CodecC.ty_VARCHAR CodecC.ty_JSON
    CodecC.ty_JSONB orb].
  rewrite PfBaseConv.to_base_be_spec by (try exact Hw; rewrite B_val; lia). cbn [obind].
  unfold FmtC.numeric_ref. set (ds := RunC09.digits_be 10000 (eval a)).
  destruct (trim_end_vec_strip ds) as [-> _].
  destruct (Z.leb_spec (2 ^ 15) (Z.max (lenZ ds - 1) 0)); [reflexivity|]. cbn [orb].
  destruct (Z.leb_spec (2 ^ 15) (lenZ (FmtC.strip_trailing_zeros ds))); [reflexivity|].
  rewrite put_digits_spec by (apply Forall_strip, digits_be_range; lia). cbn [obind].
  rewrite !put_be_spec. reflexivity.
Qed.

(* ---------- NUMERIC: reference decoder inverts reference encoder ---------- *)
Lemma numeric_ref_denotes bits v bs :
  0 <= bits -> 0 <= v < 2 ^ bits -> FmtC.numeric_ref v = Some bs ->
  Forall Bytes.isbyte bs /\ FmtC.numeric_denotes bits bs = Some v.
Proof.
  intros Hb Hv. unfold FmtC.numeric_ref. set (ds := RunC09.digits_be 10000 v).
  set (body := FmtC.strip_trailing_zeros ds). set (w := Z.max (lenZ ds - 1) 0).
  destruct (Z.leb_spec (2 ^ 15) w) as [|Hw]; [discriminate|].
  destruct (Z.leb_spec (2 ^ 15) (lenZ body)) as [|Hlb]; [discriminate|]. cbn [orb].
  intros E. injection E as <-.
  pose proof (PfBytes.lenZ_nonneg body) as Hlb0.
  assert (Hw0 : 0 <= w) by (unfold w; lia).
  assert (Hds : Forall (fun d => 0 <= d < 10000) ds) by (apply digits_be_range; lia).
  assert (Hbody : Forall (fun d => 0 <= d < 10000) body) by now apply Forall_strip.
  split.
  { rewrite ?be_bytes_2. cbn [app].
    repeat (constructor; [apply byte_at_range; lia|]). apply flat_map_bytes. }
  unfold FmtC.numeric_denotes. rewrite ?be_bytes_2. cbn [app].
  rewrite !PfBytes.lenZ_cons. pose proof (PfBytes.lenZ_nonneg (flat_map (FmtC.be_bytes 2) body)).
  destruct (Z.ltb_spec (1 + (1 + (1 + (1 + (1 + (1 + (1 + (1 + lenZ (flat_map (FmtC.be_bytes 2) body))))))))) 8); [lia|].
  cbn [firstn skipn FmtC.i16_list].
  rewrite !bytes_2_value by lia. rewrite !signed16_small by lia.
  rewrite lenZ_flat_map_2, i16_list_digits by exact Hbody.
  destruct (Z.ltb_spec (lenZ body) 0); [lia|]. destruct (Z.ltb_spec w 0); [lia|].
  cbn [Z.eqb negb orb].
  destruct (strip_decomp ds) as (k & Ek). fold body in Ek.
  assert (Hlen : lenZ ds = lenZ body + Z.of_nat k).
  { rewrite Ek at 1. rewrite PfBytes.lenZ_app. unfold lenZ at 2. now rewrite repeat_length. }
  destruct (Z.ltb_spec (w + 1) (lenZ body)); [unfold w in *; lia|].
  rewrite Z.eqb_refl. cbn [negb orb].
  assert (Hok : forallb (fun d => (0 <=? d) && (d <? 10000)) body = true).
  { apply forallb_forall. intros d Hd. rewrite Forall_forall in Hbody. specialize (Hbody d Hd).
    apply andb_true_iff. split; [apply Z.leb_le|apply Z.ltb_lt]; lia. }
  rewrite Hok.
  assert (Hval : v = RunC09.value_be 10000 body * 10000 ^ Z.of_nat k).
  { rewrite <- value_be_app_zeros, <- Ek. unfold ds. symmetry. apply value_be_digits; lia. }
  pose proof (value_be_nonneg 10000 body ltac:(lia) Hbody) as Hdv.
  destruct (Z.eqb_spec (RunC09.value_be 10000 body) 0) as [E0|E0].
  { rewrite E0 in Hval. f_equal. lia. }
  (* a non-zero value: ds is not empty, so weight + 1 = number of digits *)
  assert (Hne : 0 < lenZ ds).
  { destruct ds eqn:Ed; [|rewrite PfBytes.lenZ_cons; pose proof (PfBytes.lenZ_nonneg l); lia].
    exfalso. apply E0. unfold body. reflexivity. }
  assert (Ez : w + 1 - lenZ body = Z.of_nat k) by (unfold w; lia).
  rewrite Ez.
  pose proof (pow_13 (Z.of_nat k) ltac:(lia)) as H13.
  assert (0 < 10000 ^ Z.of_nat k) by (apply Z.pow_pos_nonneg; lia).
  destruct (Z.ltb_spec bits (13 * Z.of_nat k)) as [Hbig|_].
  { exfalso. assert (2 ^ bits <= 2 ^ (13 * Z.of_nat k)) by (apply Z.pow_le_mono_r; lia). nia. }
  now rewrite <- Hval.
Qed.

(* ---------- NUMERIC: model decoder follows the reference decoder ---------- *)
Lemma list_ind2 {A} (P : list A -> Prop) :
  P [] -> (forall x, P [x]) -> (forall x y t, P t -> P (x :: y :: t)) -> forall l, P l.
Proof.
  intros H0 H1 H2. fix IH 1. intros [|x [|y t]]; [exact H0|apply H1|apply H2, IH].
Qed.

Lemma i16_pair b0 b1 : Bytes.isbyte b0 -> Bytes.isbyte b1 ->
  Conv.cast CodecC.p_i16 (CodecC.be_uval [b0; b1]) = FmtC.signed 16 (b0 * 256 + b1).
Proof.
  unfold Bytes.isbyte. intros H0 H1. unfold CodecC.be_uval. cbn [rev app Bytes.le_value].
  replace (b1 + 256 * (b0 + 256 * 0)) with (b0 * 256 + b1) by ring.
  apply (cast_signed 16); cbn; lia.
Qed.

Lemma numeric_scan_spec raw : Forall Bytes.isbyte raw ->
  let ds := FmtC.i16_list raw in
  if forallb (fun d => (0 <=? d) && (d <? 10000)) ds
  then CodecC.numeric_scan raw = (ds, false)
  else exists p, CodecC.numeric_scan raw = (p, true) /\ Forall (fun d => 0 <= d < 10000) p.
Proof.
  induction raw as [|x|b0 b1 t IH] using list_ind2; intros Hby; cbn zeta.
  - reflexivity.
  - reflexivity.
  - inversion Hby as [|? ? H0 Hby1]; subst. inversion Hby1 as [|? ? H1 Hby2]; subst.
    specialize (IH Hby2). cbn zeta in IH.
    cbn [FmtC.i16_list forallb CodecC.numeric_scan]. rewrite i16_pair by assumption.
    set (d := FmtC.signed 16 (b0 * 256 + b1)).
    destruct ((0 <=? d) && (d <? 10000)) eqn:Ed; cbn [andb].
    + destruct (forallb _ (FmtC.i16_list t)).
      * now rewrite IH.
      * destruct IH as (p & -> & Hp). exists (d :: p). split; [reflexivity|].
        constructor; [|exact Hp]. apply andb_true_iff in Ed. destruct Ed as [E1 E2].
        apply Z.leb_le in E1. apply Z.ltb_lt in E2. lia.
    + exists []. split; [reflexivity|constructor].
Qed.

Lemma slice_to_app pre t n : n = lenZ pre -> Bytes.slice_to (pre ++ t) n = Val pre.
Proof.
  intros ->. unfold Bytes.slice_to. rewrite PfBytes.lenZ_app.
  pose proof (PfBytes.lenZ_nonneg pre). pose proof (PfBytes.lenZ_nonneg t).
  destruct (Z.leb_spec 0 (lenZ pre)); [|lia]. destruct (Z.leb_spec (lenZ pre) (lenZ pre + lenZ t)); [|lia].
  cbn [andb]. unfold lenZ. rewrite Nat2Z.id, firstn_app, Nat.sub_diag, firstn_all. cbn [firstn].
  now rewrite app_nil_r.
Qed.
Lemma slice_from_app pre t n : n = lenZ pre -> Bytes.slice_from (pre ++ t) n = Val t.
Proof.
  intros ->. unfold Bytes.slice_from. rewrite PfBytes.lenZ_app.
  pose proof (PfBytes.lenZ_nonneg pre). pose proof (PfBytes.lenZ_nonneg t).
  destruct (Z.leb_spec 0 (lenZ pre)); [|lia]. destruct (Z.leb_spec (lenZ pre) (lenZ pre + lenZ t)); [|lia].
  cbn [andb]. unfold lenZ. rewrite Nat2Z.id, skipn_app, Nat.sub_diag, skipn_all. reflexivity.
Qed.

Lemma is_err_fserr e : RunC17C.is_err (Val (RunC16C.fserr_toks e)) = true.
Proof. destruct e as [| | | |[]| | | |]; reflexivity. Qed.

Lemma numeric_from_sql bits raw :
  0 <= bits -> Forall Bytes.isbyte raw ->
  exists r, CodecC.pg_from_sql bits CodecC.ty_NUMERIC raw = Val r
    /\ RunC17C.spec_value bits (FmtC.numeric_denotes bits raw) (Val (RunC16C.fsres_toks r)) = true.
Proof.
  intros Hb Hby. unfold CodecC.pg_from_sql.
  cbn [Z.eqb CodecC.ty_NUMERIC CodecC.ty_BOOL CodecC.ty_INT2 CodecC.ty_INT4
    CodecC.ty_OID CodecC.ty_INT8 CodecC.ty_FLOAT4 CodecC.ty_FLOAT8 CodecC.ty_MONEY CodecC.ty_BYTEA
    CodecC.ty_BIT CodecC.ty_VARBIT CodecC.ty_CHAR CodecC.ty_TEXT CodecC.ty_VARCHAR CodecC.ty_JSON
    CodecC.ty_JSONB orb].
  unfold FmtC.numeric_denotes.
  destruct (Z.ltb_spec (lenZ raw) 8) as [Hshort|Hlong].
  { eexists. split; [reflexivity|]. reflexivity. }
  destruct raw as [|b0 [|b1 [|b2 [|b3 [|b4 [|b5 [|b6 [|b7 body]]]]]]]];
    try (unfold lenZ in Hlong; cbn in Hlong; lia).
  repeat match goal with H : Forall _ (_ :: _) |- _ => inversion H; clear H; subst end.
  pose proof (slice_to_app [b0; b1] (b2 :: b3 :: b4 :: b5 :: b6 :: b7 :: body) 2 eq_refl) as Hs; cbn [app] in Hs; rewrite Hs; clear Hs; cbn [obind].
  pose proof (slice_from_app [b0; b1] (b2 :: b3 :: b4 :: b5 :: b6 :: b7 :: body) 2 eq_refl) as Hs; cbn [app] in Hs; rewrite Hs; clear Hs; cbn [obind].
  pose proof (slice_to_app [b2; b3] (b4 :: b5 :: b6 :: b7 :: body) 2 eq_refl) as Hs; cbn [app] in Hs; rewrite Hs; clear Hs; cbn [obind].
  pose proof (slice_from_app [b0; b1; b2; b3] (b4 :: b5 :: b6 :: b7 :: body) 4 eq_refl) as Hs; cbn [app] in Hs; rewrite Hs; clear Hs; cbn [obind].
  pose proof (slice_to_app [b4; b5] (b6 :: b7 :: body) 2 eq_refl) as Hs; cbn [app] in Hs; rewrite Hs; clear Hs; cbn [obind].
  pose proof (slice_from_app [b0; b1; b2; b3; b4; b5] (b6 :: b7 :: body) 6 eq_refl) as Hs; cbn [app] in Hs; rewrite Hs; clear Hs; cbn [obind].
  pose proof (slice_to_app [b6; b7] body 2 eq_refl) as Hs; cbn [app] in Hs; rewrite Hs; clear Hs; cbn [obind].
  pose proof (slice_from_app [b0; b1; b2; b3; b4; b5; b6; b7] body 8 eq_refl) as Hs; cbn [app] in Hs; rewrite Hs; clear Hs; cbn [obind].
  cbn [obind firstn skipn FmtC.i16_list].
  rewrite !i16_pair by assumption.
  set (nd := FmtC.signed 16 (b0 * 256 + b1)). set (w := FmtC.signed 16 (b2 * 256 + b3)).
  set (sg := FmtC.signed 16 (b4 * 256 + b5)). set (dsc := FmtC.signed 16 (b6 * 256 + b7)).
  replace (nd * 2) with (2 * nd) by lia.
  destruct ((nd <? 0) || (w <? 0) || negb (sg =? 0) || negb (dsc =? 0) || (w + 1 <? nd)
            || negb (lenZ body =? 2 * nd)) eqn:Ehdr.
  { eexists. split; [reflexivity|]. reflexivity. }
  repeat (apply orb_false_iff in Ehdr; destruct Ehdr as [Ehdr ?]).
  assert (Hnd : 0 <= nd) by (apply Z.ltb_ge; assumption).
  assert (Hz : 0 <= w + 1 - nd) by (assert (nd <= w + 1) by (apply Z.ltb_ge; assumption); lia).
  pose proof (numeric_scan_spec body ltac:(assumption)) as Hscan. cbn zeta in Hscan.
  set (ds := FmtC.i16_list body) in *.
  destruct (forallb (fun d => (0 <=? d) && (d <? 10000)) ds) eqn:Eok.
  - rewrite Hscan.
    assert (Hds : Forall (fun d => 0 <= d < 10000) ds).
    { apply Forall_forall. intros d Hd. rewrite forallb_forall in Eok. specialize (Eok d Hd).
      apply andb_true_iff in Eok. destruct Eok as [E1 E2]. apply Z.leb_le in E1. apply Z.ltb_lt in E2. lia. }
    rewrite PfC09.from_base_be_exact.
    2: exact Hb. 2: rewrite B_val; lia.
    2: { apply Forall_app. split; [exact Hds|]. apply Forall_forall. intros d Hd.
         apply repeat_spec in Hd. subst. lia. }
    cbn [obind]. rewrite value_be_app_zeros, Z2Nat.id by lia.
    set (z := w + 1 - nd) in *. set (dv := RunC09.value_be 10000 ds).
    pose proof (value_be_nonneg 10000 ds ltac:(lia) Hds) as Hdv. fold dv in Hdv.
    assert (Hpz : 0 < 10000 ^ z) by (apply Z.pow_pos_nonneg; lia).
    assert (H2b : 0 < 2 ^ bits) by (apply Z.pow_pos_nonneg; lia).
    destruct (Z.eqb_spec dv 0) as [E0|E0].
    + rewrite E0, Z.mul_0_l. destruct (Z.leb_spec (2 ^ bits) 0); [lia|].
      eexists. split; [reflexivity|]. cbn [RunC17C.spec_value RunC16C.fsres_toks].
      destruct (Z.ltb_spec 0 (2 ^ bits)); [|lia]. apply expect_refl.
    + destruct (Z.ltb_spec bits (13 * z)) as [Hbig|Hsmall].
      * pose proof (pow_13 z Hz).
        assert (2 ^ bits <= 2 ^ (13 * z)) by (apply Z.pow_le_mono_r; lia).
        destruct (Z.leb_spec (2 ^ bits) (dv * 10000 ^ z)); [|nia].
        eexists. split; [reflexivity|]. reflexivity.
      * destruct (Z.leb_spec (2 ^ bits) (dv * 10000 ^ z)).
        -- eexists. split; [reflexivity|]. cbn [RunC17C.spec_value].
           destruct (Z.ltb_spec (dv * 10000 ^ z) (2 ^ bits)); [lia|]. reflexivity.
        -- eexists. split; [reflexivity|]. cbn [RunC17C.spec_value RunC16C.fsres_toks].
           destruct (Z.ltb_spec (dv * 10000 ^ z) (2 ^ bits)); [|lia]. apply expect_refl.
  - destruct Hscan as (p & -> & Hp).
    destruct (PfBaseConv.from_base_be_spec bits 10000 (p ++ repeat 0 (Z.to_nat (w + 1 - nd))) Hb)
      as (r & -> & _).
    { unfold inW. rewrite B_val. lia. }
    { apply Forall_app. split.
      - eapply Forall_impl; [|exact Hp]. cbn beta. unfold inW. rewrite B_val. intros; lia.
      - apply Forall_forall. intros d Hd. apply repeat_spec in Hd. subst. unfold inW. rewrite B_val. lia. }
    cbn [obind]. destruct r; eexists; (split; [reflexivity|]); reflexivity.
Qed.
