(* Proofs/PfC06.v — every C06 call: the model's answer meets the executable specification. *)
From Coq Require Import ZArith List Bool Lia.
From RV.Model Require Import Base Word Bits.
From RV.Proofs Require Import BaseFacts PfBits.
From RV.Run Require Import RunC06.
Import ListNotations.
Local Open Scope Z_scope.

Lemma list_eqb_refl {A} (eqb : A -> A -> bool) (l : list A) :
  (forall x, eqb x x = true) -> list_eqb eqb l l = true.
Proof. intros H. induction l as [|x l IH]; cbn; [reflexivity | now rewrite H, IH]. Qed.
Lemma tok_eqb_refl t : tok_eqb t t = true.
Proof.
  destruct t; cbn; auto using Z.eqb_refl, eqb_reflx;
    apply list_eqb_refl; apply Z.eqb_refl.
Qed.
Lemma expect_refl t : expect (Val t) t = true.
Proof. unfold expect. cbn. apply list_eqb_refl, tok_eqb_refl. Qed.

(* the six shapes of one bit operator *)
Lemma bit_op_spec (F : Z -> Z -> Z) (fb : bool -> bool -> bool) bits sh a b :
  (forall x y i, Z.testbit (F x y) i = fb (Z.testbit x i) (Z.testbit y i)) ->
  (forall x y, 0 <= x -> 0 <= y -> 0 <= F x y) -> fb false false = false ->
  (forall x y, F x y = F y x) ->
  0 <= bits -> canon bits a -> canon bits b ->
  exists r, Bits.bit_op F sh a b = Val r /\ canon bits r /\ eval r = F (eval a) (eval b).
Proof.
  intros HF Hnn Hff Hcomm Hb Ha Hc.
  pose proof (canon_range bits a Hb Ha). pose proof (canon_range bits b Hb Hc).
  destruct Ha as (La & Wa & _). destruct Hc as (Lb & Wb & _).
  pose proof (F_bound F fb HF Hnn Hff (eval a) (eval b) bits ltac:(lia) ltac:(lia) Hb) as Bd.
  unfold Bits.bit_op. destruct (sh =? 2).
  - destruct (op_assign_spec F fb HF Hnn Hff b a ltac:(congruence) Wb Wa) as (r & E & Lr & Wr & Er).
    exists r. rewrite Hcomm in Er. split; [exact E|]. split; [|exact Er].
    split; [congruence|]. split; [exact Wr|]. rewrite Er. lia.
  - destruct (op_assign_spec F fb HF Hnn Hff a b ltac:(congruence) Wa Wb) as (r & E & Lr & Wr & Er).
    exists r. split; [exact E|]. split; [|exact Er].
    split; [congruence|]. split; [exact Wr|]. rewrite Er. lia.
Qed.

Ltac close_uint C E := rewrite (uint_of_unique _ _ _ C E); apply expect_refl.

Theorem C06_all c : wf c -> spec c (run c) = true.
Proof.
  destruct c as [bits sh a|bits sh a b|bits sh a b|bits sh a b|bits a i|bits a i v|bits a i|bits a i
                |bits a|bits a|bits a|bits a|bits a|bits a|bits a|bits a|bits a|bits a|bits a
                |bits a|bits a];
    cbn [wf spec run].
  - (* not *)
    intros (Hb & Ha). destruct (unot_spec bits a Hb Ha) as [C E]. unfold U. close_uint C E.
  - (* and *)
    intros (Hb & Ha & Hc).
    destruct (bit_op_spec Z.land andb bits sh a b Z.land_spec
                (fun x y Hx Hy => proj2 (Z.land_nonneg x y) (or_introl Hx)) eq_refl Z.land_comm Hb Ha Hc)
      as (r & -> & C & E). cbn [vl obind]. unfold U. close_uint C E.
  - (* or *)
    intros (Hb & Ha & Hc).
    destruct (bit_op_spec Z.lor orb bits sh a b Z.lor_spec
                (fun x y Hx Hy => proj2 (Z.lor_nonneg x y) (conj Hx Hy)) eq_refl Z.lor_comm Hb Ha Hc)
      as (r & -> & C & E). cbn [vl obind]. unfold U. close_uint C E.
  - (* xor *)
    intros (Hb & Ha & Hc).
    destruct (bit_op_spec Z.lxor xorb bits sh a b Z.lxor_spec
                (fun x y Hx Hy => proj2 (Z.lxor_nonneg x y) (conj (fun _ => Hy) (fun _ => Hx))) eq_refl Z.lxor_comm Hb Ha Hc)
      as (r & -> & C & E). cbn [vl obind]. unfold U. close_uint C E.
  - (* bit *)
    intros (Hb & Ha & Hi). unfold usize in Hi. rewrite bit_spec by (auto; lia). apply expect_refl.
  - (* set_bit *)
    intros (Hb & Ha & Hi). unfold usize in Hi.
    destruct (set_bit_spec bits a i v Hb Ha ltac:(lia)) as (r & -> & C & E). cbn [vl obind]. unfold U. close_uint C E.
  - (* byte *)
    intros (Hb & Ha & Hi). unfold usize in Hi. rewrite byte_spec by (auto; lia).
    unfold spec_byte, Bits.BYTES. rewrite modp2_spec, divp2_spec by lia.
    destruct (i <? (bits + 7) / 8); [apply expect_refl | reflexivity].
  - (* checked_byte *)
    intros (Hb & Ha & Hi). unfold usize in Hi. rewrite checked_byte_spec by (auto; lia).
    unfold spec_byte, Bits.BYTES. rewrite modp2_spec, divp2_spec by lia. cbn [obind].
    destruct (i <? (bits + 7) / 8); apply expect_refl.
  - (* reverse_bits *)
    intros (Hb & Ha). destruct (reverse_bits_spec bits a Hb Ha) as [C E]. unfold U. close_uint C E.
  - intros (Hb & Ha). rewrite leading_zeros_spec by auto. apply expect_refl.
  - intros (Hb & Ha). rewrite leading_ones_spec by auto. apply expect_refl.
  - intros (Hb & Ha). rewrite trailing_zeros_spec by auto. apply expect_refl.
  - intros (Hb & Ha). rewrite trailing_ones_spec by auto. apply expect_refl.
  - intros (Hb & Ha). rewrite count_ones_spec by apply Ha. apply expect_refl.
  - intros (Hb & Ha). rewrite count_zeros_spec by auto. apply expect_refl.
  - intros (Hb & Ha). rewrite bit_len_spec by auto. apply expect_refl.
  - intros (Hb & Ha). rewrite byte_len_spec by auto. apply expect_refl.
  - (* most_significant_bits *)
    intros (Hb & Ha). rewrite (msb_spec bits a Hb Ha). cbv zeta. cbn [obind fst snd].
    rewrite divp2_spec by lia. apply expect_refl.
  - intros (Hb & Ha). rewrite is_power_of_two_spec by apply Ha. apply expect_refl.
  - (* checked_next_power_of_two *)
    intros (Hb & Ha). rewrite cnpot_spec by auto. cbn [obind].
    destruct (spec_npot bits (eval a)); apply expect_refl.
  - (* next_power_of_two *)
    intros (Hb & Ha). rewrite npot_spec by auto.
    destruct (spec_npot bits (eval a)); [apply expect_refl | reflexivity].
Qed.
