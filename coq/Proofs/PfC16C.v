(* Proofs/PfC16C.v — C16, group C: every encoder call of RunC16C emits the reference
   representation (fails exactly when the value does not fit), and every round trip
   decode(encode a) returns a. *)
From Coq Require Import ZArith List Bool Lia.
From RV.Model Require Import Base Word.
From RV.Model Require Bytes Conv BaseConv Str Fmt Float CodecC.
From RV.Spec Require FmtC.
From RV.Run Require RunC09 RunC18 RunC16C RunC17C.
From RV.Proofs Require Import BaseFacts.
From RV.Proofs Require PfBytes PfConv PfPositional PfBaseConv PfStr PfFmt PfC09 PfFloat PfFloatUint
  PfFloatTo.
From RV.Proofs Require Import PfCodecC PfCodecCBits PfCodecCNum PfCodecCText PfC17C.
Import BaseConv(res, Ok, Err).
Import RunC16C.

Local Notation T := RunC16C.fsres_toks.

Lemma Some_inj {A} (a b : A) : Some a = Some b -> a = b.
Proof. congruence. Qed.

(* ---------- byte-level facts about the reference encodings ---------- *)
Lemma be_bytes_isbyte n v : Forall Bytes.isbyte (FmtC.be_bytes n v).
Proof. rewrite be_bytes_spec. apply Forall_rev, PfBytes.le_digits_isbyte. Qed.
Lemma be_bytes_len n v : 0 <= n -> lenZ (FmtC.be_bytes n v) = n.
Proof.
  intros Hn. rewrite be_bytes_spec, PfBytes.lenZ_rev. unfold lenZ.
  rewrite PfBytes.le_digits_length. lia.
Qed.
Lemma be_value_be_bytes n v : 0 <= n -> 0 <= v < 256 ^ n -> FmtC.be_value (FmtC.be_bytes n v) = v.
Proof.
  intros Hn Hv. rewrite be_value_spec, be_bytes_spec, rev_involutive, PfBytes.le_value_le_digits.
  rewrite Z2Nat.id by lia. now apply Z.mod_small.
Qed.
Lemma signed_small w v : 1 <= w -> 0 <= v < 2 ^ (w - 1) -> FmtC.signed w v = v.
Proof. intros Hw Hv. unfold FmtC.signed. destruct (Z.ltb_spec v (2 ^ (w - 1))); lia. Qed.

(* the specification accepts exactly one answer for an input that denotes v < 2^bits *)
Lemma spec_value_inv bits v (r : res CodecC.fserr (list Z)) :
  0 <= v < 2 ^ bits -> RunC17C.spec_value bits (Some v) (Val (T r)) = true -> r = Ok (uint_of bits v).
Proof.
  intros Hv. unfold RunC17C.spec_value. destruct (Z.ltb_spec v (2 ^ bits)); [|lia].
  intros E. apply expect_eq in E. inversion E as [E'].
  destruct r as [l|e]; cbn [RunC16C.fsres_toks] in E'.
  - inversion E'. reflexivity.
  - destruct e as [| | | |[]| | | |]; cbn in E'; discriminate.
Qed.

(* ---------- (B) the reference decoder inverts the reference encoder ---------- *)
Lemma pow2_le_bytes bits : 0 <= bits -> 2 ^ bits <= 256 ^ FmtC.SBYTES bits.
Proof. intros. change (FmtC.SBYTES bits) with (Bytes.nbytes bits). now apply PfBytes.pow_bits_le_bytes. Qed.
Lemma SBYTES_nonneg bits : 0 <= bits -> 0 <= FmtC.SBYTES bits.
Proof. intros. unfold FmtC.SBYTES. Z.div_mod_to_equations. lia. Qed.

Lemma int_ref_inv bits w (sgn : bool) v r :
  0 <= bits -> (w = 16 \/ w = 32 \/ w = 64) -> 0 <= v < 2 ^ bits ->
  v < (if sgn then 2 ^ (w - 1) else 2 ^ w) ->
  RunC17C.spec_value bits (FmtC.int_denotes w sgn (FmtC.be_bytes (w / 8) v)) (Val (T r)) = true ->
  r = Ok (uint_of bits v).
Proof.
  intros Hb Hw Hv Hfit. unfold FmtC.int_denotes.
  assert (Hn : 0 <= w / 8) by (apply Z.div_pos; lia).
  assert (E : 256 ^ (w / 8) = 2 ^ w) by (destruct Hw as [->|[->| ->]]; reflexivity).
  assert (E2 : 2 ^ w = 2 * 2 ^ (w - 1)).
  { replace w with (Z.succ (w - 1)) at 1 by lia. rewrite Z.pow_succ_r; lia. }
  assert (Hv2 : 0 <= v < 256 ^ (w / 8)) by (rewrite E; destruct sgn; lia).
  rewrite be_bytes_len, Z.eqb_refl, be_value_be_bytes by assumption.
  assert (Es : (if sgn then FmtC.signed w v else v) = v).
  { destruct sgn; [apply signed_small; lia|reflexivity]. }
  rewrite Es. destruct (Z.ltb_spec v 0); [lia|]. now apply spec_value_inv.
Qed.

Lemma shiftl_pad_bound bits v : 0 < bits -> 0 <= v < 2 ^ bits ->
  let pad := 8 * FmtC.SBYTES bits - bits in
  0 <= pad < 8 /\ 0 <= Z.shiftl v pad < 256 ^ FmtC.SBYTES bits.
Proof.
  intros Hb Hv pad. pose proof (PfBytes.nbytes_bounds bits ltac:(lia)) as Hnb.
  change (Bytes.nbytes bits) with (FmtC.SBYTES bits) in Hnb.
  assert (Hp : 0 <= pad < 8) by (unfold pad; lia). split; [exact Hp|].
  rewrite Z.shiftl_mul_pow2 by lia.
  assert (E : 256 ^ FmtC.SBYTES bits = 2 ^ bits * 2 ^ pad).
  { change 256 with (2 ^ 8). rewrite <- Z.pow_mul_r, <- Z.pow_add_r by lia. f_equal. unfold pad. lia. }
  rewrite E. assert (0 < 2 ^ pad) by (apply Z.pow_pos_nonneg; lia). nia.
Qed.

Lemma ref_encode_inv bits ty v bs :
  0 <= bits -> 0 <= v < 2 ^ bits -> FmtC.pg_ref_encode bits ty v = Some bs ->
  Forall Bytes.isbyte bs /\
  forall r, RunC17C.spec_pg bits ty bs (Val (T r)) = true -> r = Ok (uint_of bits v).
Proof.
  intros Hb Hv. unfold FmtC.pg_ref_encode, RunC17C.spec_pg.
  pose proof (SBYTES_nonneg bits Hb) as Hsb.
  destruct (Z.eqb_spec ty FmtC.BOOL) as [->|N0].
  { destruct (Z.leb_spec v 1); [|discriminate]. intros E. apply Some_inj in E. subst bs.
    split; [constructor; [unfold Bytes.isbyte; lia|constructor]|]. intros r.
    assert (Hc : v = 0 \/ v = 1) by lia. destruct Hc as [->| ->]; now apply spec_value_inv. }
  destruct (Z.eqb_spec ty FmtC.INT2) as [->|N1].
  { destruct (Z.ltb_spec v (2 ^ 15)); [|discriminate]. intros E. apply Some_inj in E. subst bs.
    split; [apply be_bytes_isbyte|]. intros r. apply (int_ref_inv bits 16 true); auto; lia. }
  destruct (Z.eqb_spec ty FmtC.INT4) as [->|N2].
  { destruct (Z.ltb_spec v (2 ^ 31)); [|discriminate]. intros E. apply Some_inj in E. subst bs.
    split; [apply be_bytes_isbyte|]. intros r. apply (int_ref_inv bits 32 true); auto; lia. }
  destruct (Z.eqb_spec ty FmtC.OID) as [->|N3].
  { destruct (Z.ltb_spec v (2 ^ 32)); [|discriminate]. intros E. apply Some_inj in E. subst bs.
    split; [apply be_bytes_isbyte|]. intros r. apply (int_ref_inv bits 32 false); auto; lia. }
  destruct (Z.eqb_spec ty FmtC.INT8) as [->|N4].
  { destruct (Z.ltb_spec v (2 ^ 63)); [|discriminate]. intros E. apply Some_inj in E. subst bs.
    split; [apply be_bytes_isbyte|]. intros r. apply (int_ref_inv bits 64 true); auto; lia. }
  destruct (Z.eqb_spec ty FmtC.FLOAT4) as [->|N5]; [intros E; cbn in E; discriminate|].
  destruct (Z.eqb_spec ty FmtC.FLOAT8) as [->|N6]; [intros E; cbn in E; discriminate|].
  destruct (Z.eqb_spec ty FmtC.MONEY) as [->|N7].
  { destruct (Z.ltb_spec (100 * v) (2 ^ 63)); [|discriminate]. intros E. apply Some_inj in E. subst bs.
    split; [apply be_bytes_isbyte|]. intros r.
    unfold FmtC.money_denotes. rewrite be_bytes_len, Z.eqb_refl by lia.
    rewrite be_value_be_bytes by (change (256 ^ 8) with (2 ^ 64); lia).
    rewrite signed_small by lia. destruct (Z.leb_spec 0 (100 * v)); [|lia].
    replace (100 * v / 100) with v by (rewrite Z.mul_comm, Z.div_mul; lia).
    now apply spec_value_inv. }
  destruct (Z.eqb_spec ty FmtC.BYTEA) as [->|N8].
  { intros E. apply Some_inj in E. subst bs. split; [apply be_bytes_isbyte|]. intros r.
    unfold FmtC.bytea_denotes. rewrite be_bytes_len by lia.
    destruct (Z.leb_spec (FmtC.SBYTES bits) (FmtC.SBYTES bits)); [|lia].
    rewrite be_value_be_bytes by (pose proof (pow2_le_bytes bits Hb); lia).
    now apply spec_value_inv. }
  destruct ((ty =? FmtC.BIT) || (ty =? FmtC.VARBIT)) eqn:Ebit.
  {     destruct (Z.eqb_spec bits 0) as [->|Hnz].
    - destruct (ty =? FmtC.BIT); [discriminate|]. intros E. apply Some_inj in E. subst bs.
      split; [apply be_bytes_isbyte|]. intros r. assert (v = 0) by (cbn in Hv; lia). subst v.
      change (FmtC.bit_denotes 0 (FmtC.be_bytes 4 0)) with (Some 0). now apply spec_value_inv.
    - destruct (Z.leb_spec (2 ^ 31) bits); [discriminate|]. intros E. apply Some_inj in E. subst bs.
      destruct (shiftl_pad_bound bits v ltac:(lia) Hv) as [Hp Hs]. cbn zeta in Hp, Hs.
      split; [apply Forall_app; split; apply be_bytes_isbyte|]. intros r.
      unfold FmtC.bit_denotes. rewrite PfBytes.lenZ_app, !be_bytes_len by lia.
      destruct (Z.ltb_spec (4 + FmtC.SBYTES bits) 4); [lia|].
      assert (E4 : length (FmtC.be_bytes 4 bits) = 4%nat).
      { pose proof (be_bytes_len 4 bits ltac:(lia)) as H4. unfold lenZ in H4. lia. }
      rewrite firstn_app, skipn_app, E4, Nat.sub_diag, firstn_O, skipn_O, app_nil_r.
      rewrite firstn_all2, skipn_all2 by lia. cbn [app].
      rewrite be_value_be_bytes by (change (256 ^ 4) with (2 ^ 32); lia).
      rewrite signed_small by lia.
      destruct (Z.ltb_spec bits 0); [lia|]. rewrite be_bytes_len by lia.
      assert (Enb : (bits + 7) / 8 = FmtC.SBYTES bits) by reflexivity. rewrite Enb, Z.eqb_refl. cbn [negb].
      destruct (Z.leb_spec (FmtC.SBYTES bits) (FmtC.SBYTES bits)); [|lia]. cbn [negb].
      rewrite be_value_be_bytes by lia. rewrite Z.shiftr_shiftl_l, Z.sub_diag, Z.shiftl_0_r by lia.
      now apply spec_value_inv. }
  destruct (FmtC.is_text ty) eqn:Etext.
  {     intros E. apply Some_inj in E. subst bs. pose proof (ref_hex_ascii v ltac:(lia)) as Ha.
    split; [now apply ascii_bytes|]. intros r. unfold RunC17C.spec_utf8. rewrite utf8_ascii by exact Ha.
    now apply fsres_text_inv. }
  destruct (Z.eqb_spec ty FmtC.JSON) as [->|N14].
  { intros E. apply Some_inj in E. subst bs. pose proof (ref_hex_ascii v ltac:(lia)) as Ha.
    assert (Hj : Forall ascii (FmtC.ref_json v)).
    { unfold FmtC.ref_json. apply Forall_app. split; [constructor; [unfold ascii; lia|constructor]|].
      apply Forall_app. split; [exact Ha|constructor; [unfold ascii; lia|constructor]]. }
    split; [now apply ascii_bytes|]. intros r.
    unfold RunC17C.spec_utf8. rewrite utf8_ascii by exact Hj. unfold FmtC.ref_json.
    rewrite unquote_json. now apply fsres_text_inv. }
  destruct (Z.eqb_spec ty FmtC.JSONB) as [->|N15].
  { intros E. apply Some_inj in E. subst bs. pose proof (ref_hex_ascii v ltac:(lia)) as Ha.
    assert (Hj : Forall ascii (FmtC.ref_json v)).
    { unfold FmtC.ref_json. apply Forall_app. split; [constructor; [unfold ascii; lia|constructor]|].
      apply Forall_app. split; [exact Ha|constructor; [unfold ascii; lia|constructor]]. }
    split; [constructor; [unfold Bytes.isbyte; lia|now apply ascii_bytes]|]. intros r.
    unfold RunC17C.spec_utf8. rewrite utf8_ascii by exact Hj. unfold FmtC.ref_json.
    rewrite unquote_json. now apply fsres_text_inv. }
  destruct (Z.eqb_spec ty FmtC.NUMERIC) as [->|N16]; [|discriminate].
  intros E. destruct (numeric_ref_denotes bits v bs Hb Hv E) as [Hby Hd].
  split; [exact Hby|]. intros r.
 
  rewrite Hd. now apply spec_value_inv.
Qed.

(* ---------- (A) the model's encoder emits the reference encoding ---------- *)
Lemma fenc_nonneg prec emax x : 1 <= prec -> 1 <= emax -> 0 <= x -> 0 <= RunC18.fenc prec emax x.
Proof.
  intros Hp He Hx. unfold RunC18.fenc. destruct (Z.eqb_spec x 0); [lia|].
  pose proof (Z.log2_nonneg x) as Hk. set (k := Z.log2 x) in *.
  assert (Hpp : 0 < 2 ^ (prec - 1)) by (apply Z.pow_pos_nonneg; lia).
  destruct (Z.leb_spec emax k).
  - unfold RunC18.finf. nia.
  - pose proof (Z.log2_spec x ltac:(lia)) as [Hlo _]. fold k in Hlo.
    assert (2 ^ (prec - 1) <=
            (if k <? prec - 1 then Z.shiftl x (prec - 1 - k) else Z.shiftr x (k - (prec - 1)))).
    { destruct (Z.ltb_spec k (prec - 1)).
      - rewrite Z.shiftl_mul_pow2 by lia.
        replace (2 ^ (prec - 1)) with (2 ^ k * 2 ^ (prec - 1 - k))
          by (rewrite <- Z.pow_add_r by lia; f_equal; lia).
        apply Z.mul_le_mono_nonneg_r; [apply Z.pow_nonneg; lia|lia].
      - rewrite Z.shiftr_div_pow2 by lia.
        assert (0 < 2 ^ (k - (prec - 1))) by (apply Z.pow_pos_nonneg; lia).
        apply Z.div_le_lower_bound; [lia|].
        rewrite <- Z.pow_add_r by lia. replace (k - (prec - 1) + (prec - 1)) with k by lia. lia. }
    nia.
Qed.
Lemma lower_nonneg prec v : 0 <= v -> 0 <= RunC18.lower prec v.
Proof.
  intros Hv. unfold RunC18.lower. destruct (v <? 2 ^ prec); [lia|].
  apply Z.shiftl_nonneg, Z.shiftr_nonneg. lia.
Qed.
Lemma upper_nonneg prec v : 0 <= v -> 0 <= RunC18.upper prec v.
Proof.
  intros Hv. unfold RunC18.upper. pose proof (lower_nonneg prec v Hv).
  destruct (RunC18.lower prec v =? v); [lia|].
  assert (0 <= 2 ^ (Z.log2 v - (prec - 1))) by (apply Z.pow_nonneg; lia). lia.
Qed.
Lemma spec_to_range prec emax v r : 1 <= prec -> 1 <= emax -> 0 <= v ->
  RunC18.spec_to prec emax v r = true -> 0 <= r <= RunC18.finf prec emax.
Proof.
  intros Hp He Hv. unfold RunC18.spec_to.
  assert (0 <= RunC18.finf prec emax).
  { unfold RunC18.finf. assert (0 < 2 ^ (prec - 1)) by (apply Z.pow_pos_nonneg; lia). nia. }
  destruct (RunC18.fthr prec emax <=? v).
  - intros E. apply Z.eqb_eq in E. lia.
  - intros E. apply andb_true_iff in E. destruct E as [E1 E2]. apply Z.ltb_lt in E1.
    apply orb_true_iff in E2. destruct E2 as [E2|E2]; apply Z.eqb_eq in E2; subst r;
      (split; [apply fenc_nonneg; auto using lower_nonneg, upper_nonneg|lia]).
Qed.

Lemma float_to_sql prec emax (n : nat) a :
  1 < prec < 64 -> 65 <= emax -> RunC18.finf prec emax < 256 ^ Z.of_nat n -> Forall inW a ->
  exists bs,
    (do f <- Float.to_float prec emax a ;
     Val (Ok (CodecC.put_be n (Float.encode prec emax f)) : res CodecC.tserr (list Z))) = Val (Ok bs)
    /\ lenZ bs = Z.of_nat n /\ Forall Bytes.isbyte bs
    /\ RunC18.spec_to prec emax (eval a) (FmtC.be_value bs) = true.
Proof.
  intros Hp He Hn Hw.
  pose proof (PfFloatTo.run_to_fenc prec emax Hp He a Hw) as R.
  pose proof (eval_bound a Hw) as Hv.
  pose proof (PfFloatTo.spec_to_Fv prec emax Hp He (eval a) ltac:(lia)) as S.
  unfold RunC18.run_to in R.
  destruct (Float.to_float prec emax a) as [f| | | |]; cbn [obind] in *; try discriminate.
  injection R as R. rewrite <- R in S.
  pose proof (spec_to_range prec emax (eval a) _ ltac:(lia) ltac:(lia) ltac:(lia) S) as Hr.
  eexists. split; [reflexivity|]. split; [apply lenZ_put_be|]. split; [apply isbyte_put_be|].
  rewrite <- be_uval_spec, be_uval_put_be, Z.mod_small by lia. exact S.
Qed.

Lemma b2z_bool v : 0 <= v <= 1 -> b2z (negb (v =? 0)) = v.
Proof. intros H. assert (C : v = 0 \/ v = 1) by lia. destruct C as [->| ->]; reflexivity. Qed.

Lemma to_int_spec bits p a :
  0 <= bits -> canon bits a -> 1 <= Conv.pw p <= 64 ->
  CodecC.to_int bits p a =
  Val (if eval a <=? Conv.prim_max p then Ok (eval a) else Err CodecC.TSFromUint).
Proof.
  intros Hb Hc Hp. unfold CodecC.to_int. rewrite PfConv.try_to_prim_spec by (auto; lia).
  cbn [obind]. destruct (eval a <=? Conv.prim_max p); reflexivity.
Qed.

(* non-float column types: Ok (reference bytes) when the value fits, an error otherwise *)
Lemma pg_to_sql_enc bits ty a :
  0 <= bits -> canon bits a -> FmtC.is_float ty = false ->
  exists e, CodecC.pg_to_sql bits ty a =
    Val (match FmtC.pg_ref_encode bits ty (eval a) with Some bs => Ok bs | None => Err e end).
Proof.
  intros Hb Hc Hfl. pose proof (canon_range bits a Hb Hc) as Hv.
  destruct (Z.eq_dec ty 16) as [->|N16].
  { exists CodecC.TSInt. rewrite numeric_to_sql by assumption. reflexivity. }
  unfold FmtC.is_float in Hfl. apply orb_false_iff in Hfl. destruct Hfl as [F4 F8].
  unfold CodecC.pg_to_sql, FmtC.pg_ref_encode, FmtC.is_text.
  unfold CodecC.ty_BOOL, CodecC.ty_INT2, CodecC.ty_INT4, CodecC.ty_OID, CodecC.ty_INT8,
    CodecC.ty_FLOAT4, CodecC.ty_FLOAT8, CodecC.ty_MONEY, CodecC.ty_BYTEA, CodecC.ty_BIT,
    CodecC.ty_VARBIT, CodecC.ty_CHAR, CodecC.ty_TEXT, CodecC.ty_VARCHAR, CodecC.ty_JSON,
    CodecC.ty_JSONB, CodecC.ty_NUMERIC,
    FmtC.BOOL, FmtC.INT2, FmtC.INT4, FmtC.OID, FmtC.INT8, FmtC.FLOAT4, FmtC.FLOAT8, FmtC.MONEY,
    FmtC.BYTEA, FmtC.BIT, FmtC.VARBIT, FmtC.CHAR, FmtC.TEXT, FmtC.VARCHAR, FmtC.JSON, FmtC.JSONB,
    FmtC.NUMERIC in *.
  destruct (Z.eqb_spec ty 0) as [->|N0].
  { exists CodecC.TSFromUint. rewrite PfConv.try_to_bool_spec by assumption. cbn [obind].
    destruct (Z.leb_spec (eval a) 1); [|reflexivity]. now rewrite b2z_bool by lia. }
  destruct (Z.eqb_spec ty 1) as [->|N1].
  { exists CodecC.TSFromUint. unfold CodecC.rbind. rewrite to_int_spec by (auto; cbn; lia). cbn [obind].
    change (Conv.prim_max CodecC.p_i16) with (2 ^ 15 - 1).
    destruct (Z.leb_spec (eval a) (2 ^ 15 - 1)), (Z.ltb_spec (eval a) (2 ^ 15)); try lia;
      [now rewrite put_be_spec|reflexivity]. }
  destruct (Z.eqb_spec ty 2) as [->|N2].
  { exists CodecC.TSFromUint. unfold CodecC.rbind. rewrite to_int_spec by (auto; cbn; lia). cbn [obind].
    change (Conv.prim_max CodecC.p_i32) with (2 ^ 31 - 1).
    destruct (Z.leb_spec (eval a) (2 ^ 31 - 1)), (Z.ltb_spec (eval a) (2 ^ 31)); try lia;
      [now rewrite put_be_spec|reflexivity]. }
  destruct (Z.eqb_spec ty 3) as [->|N3].
  { exists CodecC.TSFromUint. unfold CodecC.rbind. rewrite to_int_spec by (auto; cbn; lia). cbn [obind].
    change (Conv.prim_max CodecC.p_u32) with (2 ^ 32 - 1).
    destruct (Z.leb_spec (eval a) (2 ^ 32 - 1)), (Z.ltb_spec (eval a) (2 ^ 32)); try lia;
      [now rewrite put_be_spec|reflexivity]. }
  destruct (Z.eqb_spec ty 4) as [->|N4].
  { exists CodecC.TSFromUint. unfold CodecC.rbind. rewrite to_int_spec by (auto; cbn; lia). cbn [obind].
    change (Conv.prim_max CodecC.p_i64) with (2 ^ 63 - 1).
    destruct (Z.leb_spec (eval a) (2 ^ 63 - 1)), (Z.ltb_spec (eval a) (2 ^ 63)); try lia;
      [now rewrite put_be_spec|reflexivity]. }
  rewrite F4, F8.
  destruct (Z.eqb_spec ty 7) as [->|N7].
  { unfold CodecC.rbind. rewrite to_int_spec by (auto; cbn; lia). cbn [obind].
    change (Conv.prim_max CodecC.p_i64) with (2 ^ 63 - 1).
    destruct (Z.leb_spec (eval a) (2 ^ 63 - 1)).
    - exists CodecC.TSOverflow. destruct (Z.ltb_spec (eval a * 100) (- 2 ^ 63)); [lia|]. cbn [orb].
      destruct (Z.leb_spec (2 ^ 63) (eval a * 100)), (Z.ltb_spec (100 * eval a) (2 ^ 63)); try lia;
        [reflexivity|]. rewrite put_be_spec. now rewrite (Z.mul_comm (eval a) 100).
    - exists CodecC.TSFromUint. destruct (Z.ltb_spec (100 * eval a) (2 ^ 63)); [lia|reflexivity]. }
  destruct (Z.eqb_spec ty 8) as [->|N8].
  { exists CodecC.TSInt. rewrite PfBytes.to_be_bytes_vec_spec by assumption.
    now rewrite be_bytes_spec. }
  destruct ((ty =? 9) || (ty =? 10)) eqn:Ebit.
  { destruct (Z.eqb_spec bits 0) as [Hz|Hnz].
    - exists CodecC.TSWrongType. destruct (ty =? 9); [reflexivity|]. now rewrite put_be_spec.
    - exists CodecC.TSInt.
      pose proof (PfBytes.nbytes_bounds bits Hb) as Hnb.
      assert (Er : (do r <- CodecC.rem_up bits 8 ; Bytes.usub 8 r) = Val (8 * Bytes.nbytes bits - bits)).
      { unfold CodecC.rem_up. cbn [Z.eqb]. unfold Bytes.nbytes in *.
        destruct (Z.ltb_spec 0 (bits mod 8)); cbn [obind]; unfold Bytes.usub.
        - destruct (Z.ltb_spec 8 (bits mod 8)); [Z.div_mod_to_equations; lia|]. f_equal.
          Z.div_mod_to_equations; lia.
        - cbn [Z.ltb Z.compare Pos.compare Pos.compare_cont]. f_equal. Z.div_mod_to_equations; lia. }
      destruct (CodecC.rem_up bits 8) as [r0| | | |] eqn:Eru; cbn [obind] in Er; try discriminate.
      cbn [obind]. rewrite Er. cbn [obind].
      destruct (Z.leb_spec (2 ^ 31) bits); [reflexivity|].
      destruct (bit_body_spec bits a ltac:(lia) Hc) as (b0 & rest & Erev & body & Ebody & Hbody).
      cbn zeta in Ebody, Hbody. rewrite Erev.
      destruct (CodecC.shl8 b0 (8 * Bytes.nbytes bits - bits)) as [sh| | | |]; cbn [obind] in *;
        try discriminate.
      rewrite Ebody. cbn [obind]. rewrite put_be_spec, Hbody. reflexivity. }
  destruct ((ty =? 11) || (ty =? 12) || (ty =? 13)) eqn:Etext.
  { exists CodecC.TSInt. rewrite fmt_hex_alt by assumption. reflexivity. }
  destruct ((ty =? 14) || (ty =? 15)) eqn:Ejson.
  { exists CodecC.TSInt. rewrite fmt_hex_alt by assumption. cbn [obind].
    destruct (Z.eqb_spec ty 14) as [->|N14]; [reflexivity|].
    destruct (Z.eqb_spec ty 15) as [->|N15]; [reflexivity|]. cbn in Ejson. discriminate. }
  apply orb_false_iff in Ejson. destruct Ejson as [-> ->].
  destruct (Z.eqb_spec ty 16); [contradiction|]. exists CodecC.TSWrongType. reflexivity.
Qed.

Lemma pg_to_sql_float bits ty a :
  0 <= bits -> canon bits a -> FmtC.is_float ty = true ->
  exists bs, CodecC.pg_to_sql bits ty a = Val (Ok bs)
    /\ Forall Bytes.isbyte bs /\ FmtC.pg_float_ok ty (eval a) bs = true.
Proof.
  intros Hb (Hl & Hw & _) Hfl. unfold FmtC.is_float in Hfl. apply orb_true_iff in Hfl.
  unfold FmtC.pg_float_ok.
  destruct Hfl as [E|E]; apply Z.eqb_eq in E; subst ty.
  - destruct (float_to_sql 24 128 4 a ltac:(lia) ltac:(lia) ltac:(cbn; lia) Hw) as (bs & E & Hlen & Hby & S).
    exists bs. split; [exact E|]. split; [exact Hby|]. cbn [Z.eqb FmtC.FLOAT4 Pos.eqb].
    rewrite Hlen, S. reflexivity.
  - destruct (float_to_sql 53 1024 8 a ltac:(lia) ltac:(lia) ltac:(cbn; lia) Hw) as (bs & E & Hlen & Hby & S).
    exists bs. split; [exact E|]. split; [exact Hby|]. cbn [Z.eqb FmtC.FLOAT8 FmtC.FLOAT4 Pos.eqb].
    rewrite Hlen, S. reflexivity.
Qed.

(* ---------- the remaining integrations ---------- *)
Lemma canon_parts bits a : canon bits a -> length a = nlimbsN bits /\ Forall inW a /\ eval a < 2 ^ bits.
Proof. intros H. exact H. Qed.

Lemma limbsb_parts bits l : limbsb bits l = true -> length l = nlimbsN bits /\ Forall inW l.
Proof.
  unfold limbsb. intros H. apply andb_true_iff in H. destruct H as [Hl Hw].
  apply Nat.eqb_eq in Hl. rewrite forallb_forall in Hw. split; [exact Hl|].
  apply Forall_forall. intros x Hx. apply inWb_iff, Hw, Hx.
Qed.

Lemma ark_from_ok bits l :
  0 <= bits -> length l = nlimbsN bits -> Forall inW l ->
  spec_from_limbs bits (eval l) (do r <- CodecC.ark_from bits l ; Val [TL r]) = true.
Proof.
  intros Hb Hl Hw. unfold CodecC.ark_from, spec_from_limbs. rewrite from_limbs_spec by assumption.
  destruct (Z.ltb_spec (eval l) (2 ^ bits)); cbn [obind]; [|reflexivity].
  unfold U. rewrite <- from_limbs_uint_of by assumption. apply expect_refl.
Qed.

Lemma ark_rt_ok bits a : 0 <= bits -> canon bits a ->
  expect (do r <- CodecC.ark_from bits (CodecC.ark_to a) ; Val [TL r]) [TL a] = true.
Proof.
  intros Hb Hc. unfold CodecC.ark_from, CodecC.ark_to. rewrite PfConv.from_limbs_canon by assumption.
  apply expect_refl.
Qed.

Lemma fp_into_ok bits x :
  0 <= bits -> 0 <= x < B ^ nlimbs bits ->
  spec_from_limbs bits x (do r <- CodecC.ark_fp_into bits x ; Val [TL r]) = true.
Proof.
  intros Hb Hx. unfold CodecC.ark_fp_into, CodecC.fp_into_repr.
  set (l := to_limbs (nlimbsN bits) x).
  assert (Hl : length l = nlimbsN bits) by apply to_limbs_length.
  assert (Hw : Forall inW l) by apply to_limbs_inW.
  assert (He : eval l = x).
  { unfold l. rewrite eval_to_limbs, nlimbsN_Z by lia. now apply Z.mod_small. }
  rewrite <- He at 1. now apply ark_from_ok.
Qed.

Lemma pod_parts bits : pod_width bits = true -> 0 <= bits /\ bits mod 64 = 0.
Proof.
  unfold pod_width. intros H. repeat (apply andb_true_iff in H; destruct H as [H ?]).
  apply Z.eqb_eq in H. match goal with Hx : (64 <=? bits) = true |- _ => apply Z.leb_le in Hx end. lia.
Qed.

Lemma field_limbs bits fld l :
  0 <= bits -> nlimbs bits = flimbs fld -> length l = nlimbsN bits -> Forall inW l ->
  0 <= eval l < B ^ nlimbs bits.
Proof.
  intros Hb _ Hl Hw. pose proof (eval_bound l Hw) as He. rewrite Hl, nlimbsN_Z in He by lia. exact He.
Qed.

Theorem C16C_all c : wf c -> spec c (run c) = true.
Proof.
  unfold wf.
  destruct c as [bits kind a|bits kind a|bits a|bits a|bits a|bits a|bits|bits a|bits a|bits a
                 |bits ty|bits ty a|bits ty a
                 |bits kind a|bits kind l|bits kind a|bits fld kind a|bits fld kind l|bits fld kind a
                 |bits kind a|bits kind l|bits kind a|bits fld kind a|bits fld kind l|bits fld kind a];
    cbn [wfb spec run]; intros H.
  - (* bigint_to *)
    repeat (apply andb_true_iff in H; destruct H as [H ?]). apply Z.leb_le in H.
    match goal with Hc : canonb _ _ = true |- _ => apply canonb_iff in Hc; rename Hc into Hc' end.
    unfold CodecC.to_bigint. rewrite to_biguint_spec by assumption.
    destruct (kind <? 2); apply expect_refl.
  - (* bigint_rt *)
    repeat (apply andb_true_iff in H; destruct H as [H ?]). apply Z.leb_le in H.
    match goal with Hc : canonb _ _ = true |- _ => apply canonb_iff in Hc; rename Hc into Hc' end.
    pose proof (canon_range bits a H Hc') as Hv.
    unfold CodecC.to_bigint. cbn [snd]. rewrite to_biguint_spec by assumption.
    unfold run_bigint_from.
    assert (E : (if kind <? 2 then CodecC.try_from_biguint bits (eval a)
                 else CodecC.try_from_bigint bits (eval a)) = Val (big_res bits (eval a))).
    { destruct (kind <? 2); [apply try_from_biguint_spec|apply try_from_bigint_spec]; lia. }
    destruct (kind <? 2); rewrite E; cbn [obind]; unfold big_res;
      (destruct (Z.ltb_spec (eval a) 0); [lia|]); (destruct (Z.leb_spec (2 ^ bits) (eval a)); [lia|]);
      cbn [ures_toks]; rewrite canon_uint_of by assumption; apply expect_refl.
  - (* pt_to *)
    apply andb_true_iff in H. destruct H as [_ Hc]. apply canonb_iff in Hc.
    unfold CodecC.pt_to, U. rewrite canon_uint_of by assumption. apply expect_refl.
  - (* pt_rt *)
    apply andb_true_iff in H. destruct H as [Hw Hc]. apply canonb_iff in Hc. apply inb_cases in Hw.
    assert (Hb : 0 <= bits) by (cbn in Hw; destruct Hw as [<-|[<-|[<-|[]]]]; lia).
    unfold CodecC.pt_from, CodecC.pt_to. rewrite PfConv.from_limbs_canon by assumption. apply expect_refl.
  - (* pth_to *)
    apply andb_true_iff in H. destruct H as [Hw Hc]. apply canonb_iff in Hc. apply inb_cases in Hw.
    assert (Hb : 0 <= bits) by (cbn in Hw; destruct Hw as [<-|[<-|[<-|[<-|[]]]]]; lia).
    unfold CodecC.pth_to. rewrite PfBytes.to_be_bytes_spec, Z.eqb_refl by assumption. cbn [obind].
    rewrite be_bytes_spec. apply expect_refl.
  - (* pth_rt *)
    apply andb_true_iff in H. destruct H as [Hw Hc]. apply canonb_iff in Hc. apply inb_cases in Hw.
    assert (Hb : 0 <= bits) by (cbn in Hw; destruct Hw as [<-|[<-|[<-|[<-|[]]]]]; lia).
    destruct (PfBytes.roundtrip_arrays bits a Hb Hc) as [_ R].
    unfold CodecC.pth_to, CodecC.pth_from.
    destruct (Bytes.to_be_bytes bits (Bytes.nbytes bits) a) as [e| | | |]; cbn [obind] in *; try discriminate.
    rewrite R. apply expect_refl.
  - (* bm_zeroed *)
    apply Z.leb_le in H. unfold CodecC.bm_zeroed, U. rewrite PfFloatUint.uint_of_0 by lia. apply expect_refl.
  - (* bm_bytes_of *)
    apply andb_true_iff in H. destruct H as [Hw Hc]. apply canonb_iff in Hc.
    destruct (pod_parts bits Hw) as [Hb Hm]. destruct Hc as (Hl & Hwa & _).
    rewrite bm_bytes_of_spec by assumption. rewrite le_bytes_spec.
    change (FmtC.SLIMBS bits) with (nlimbs bits).
    replace (Z.to_nat (8 * nlimbs bits)) with (8 * length a)%nat
      by (rewrite Hl; unfold nlimbsN; pose proof (nlimbs_nonneg bits Hb); lia).
    apply expect_refl.
  - (* bm_cast_to *)
    apply andb_true_iff in H. destruct H as [_ Hc]. apply canonb_iff in Hc.
    unfold CodecC.bm_cast, U. rewrite canon_uint_of by assumption. apply expect_refl.
  - (* bm_rt *)
    apply andb_true_iff in H. destruct H as [Hw Hc]. apply canonb_iff in Hc.
    destruct (pod_parts bits Hw) as [Hb Hm]. destruct Hc as (Hl & Hwa & Hlt).
    unfold CodecC.bm_read. rewrite bm_bytes_of_spec by assumption.
    assert (Hlen : lenZ (Bytes.le_digits (8 * length a) (eval a)) = 8 * nlimbs bits).
    { rewrite lenZ_le_digits, Hl. rewrite Nat2Z.inj_mul, nlimbsN_Z by lia. reflexivity. }
    rewrite Hlen, Z.eqb_refl.
    rewrite PfBytes.le_fast_loop_spec;
      [|lia|apply PfBytes.le_digits_isbyte|rewrite Hlen, nlimbsN_Z by lia; lia].
    cbn [Z.mul Z.to_nat skipn]. rewrite PfBytes.le_value_le_digits.
    pose proof (eval_bound a Hwa) as He.
    rewrite Z.mod_small by (rewrite <- PfBytes.B_p256; lia).
    rewrite <- Hl, to_limbs_eval by assumption. apply expect_refl.
  - (* pg_accepts *)
    unfold CodecC.pg_accepts. apply expect_refl.
  - (* pg_to_sql *)
    repeat (apply andb_true_iff in H; destruct H as [H ?]). apply Z.leb_le in H.
    match goal with Hc : canonb _ _ = true |- _ => apply canonb_iff in Hc; rename Hc into Hc' end.
    destruct (FmtC.is_float ty) eqn:Efl.
    + destruct (pg_to_sql_float bits ty a H Hc' Efl) as (bs & E & _ & S). rewrite E. cbn [obind]. exact S.
    + destruct (pg_to_sql_enc bits ty a H Hc' Efl) as (e & E). rewrite E. cbn [obind].
      destruct (FmtC.pg_ref_encode bits ty (eval a)); [apply expect_refl|reflexivity].
  - (* pg_rt *)
    repeat (apply andb_true_iff in H; destruct H as [H ?]). apply Z.leb_le in H.
    match goal with Hc : canonb _ _ = true |- _ => apply canonb_iff in Hc; rename Hc into Hc' end.
    pose proof (canon_range bits a H Hc') as Hv.
    destruct (FmtC.is_float ty) eqn:Efl.
    + destruct (pg_to_sql_float bits ty a H Hc' Efl) as (bs & E & Hby & _). rewrite E. cbn [obind].
      destruct (pg_from_sql_ok bits ty bs H Hby) as (r & E2 & _). rewrite E2. reflexivity.
    + destruct (pg_to_sql_enc bits ty a H Hc' Efl) as (e & E). rewrite E. cbn [obind].
      destruct (FmtC.pg_ref_encode bits ty (eval a)) as [bs|] eqn:Eref; [|reflexivity].
      destruct (ref_encode_inv bits ty (eval a) bs H Hv Eref) as [Hby Hinv].
      destruct (pg_from_sql_ok bits ty bs H Hby) as (r & E2 & S). rewrite E2. cbn [obind].
      rewrite (Hinv r S). cbn [fsres_toks]. rewrite canon_uint_of by assumption. apply expect_refl.
  - (* ark03_to *)
    apply andb_true_iff in H. destruct H as [_ Hc]. apply canonb_iff in Hc.
    unfold CodecC.ark_to, U. rewrite canon_uint_of by assumption. apply expect_refl.
  - (* ark03_from *)
    apply andb_true_iff in H. destruct H as [Hw Hl]. apply inb_cases in Hw.
    assert (Hb : 0 <= bits) by (cbn in Hw; repeat (destruct Hw as [<-|Hw]; [lia|]); destruct Hw).
    destruct (limbsb_parts bits l Hl). now apply ark_from_ok.
  - (* ark03_rt *)
    apply andb_true_iff in H. destruct H as [Hw Hc]. apply canonb_iff in Hc. apply inb_cases in Hw.
    assert (Hb : 0 <= bits) by (cbn in Hw; repeat (destruct Hw as [<-|Hw]; [lia|]); destruct Hw).
    now apply ark_rt_ok.
  - (* ark03_fp_try_from *)
    apply andb_true_iff in H. destruct H as [_ Hc]. apply canonb_iff in Hc.
    unfold CodecC.ark_fp_try_from, CodecC.fp_from_repr, CodecC.ark_to.
    destruct (eval a <? fmodulus fld); apply expect_refl.
  - (* ark03_fp_into *)
    repeat (apply andb_true_iff in H; destruct H as [H ?]).
    match goal with Hx : (eval l <? _) = true |- _ => rename Hx into Hlt end.
    match goal with Hx : limbsb _ _ = true |- _ => destruct (limbsb_parts _ _ Hx) as [Hl Hw] end.
    assert (Hb : 0 <= bits).
    { unfold ark03_field in H. repeat (apply orb_true_iff in H; destruct H as [H|H]);
        apply andb_true_iff in H; destruct H as [H _]; apply Z.eqb_eq in H; lia. }
    unfold CodecC.fp_from_repr. rewrite Hlt. apply fp_into_ok; [exact Hb|].
    pose proof (eval_bound l Hw) as He. rewrite Hl, nlimbsN_Z in He by lia. exact He.
  - (* ark03_fp_rt *)
    apply andb_true_iff in H. destruct H as [Hf Hc]. apply canonb_iff in Hc.
    assert (Hb : 0 <= bits).
    { unfold ark03_field in Hf. repeat (apply orb_true_iff in Hf; destruct Hf as [Hf|Hf]);
        apply andb_true_iff in Hf; destruct Hf as [Hf _]; apply Z.eqb_eq in Hf; lia. }
    unfold CodecC.ark_fp_try_from, CodecC.fp_from_repr, CodecC.ark_to.
    destruct (eval a <? fmodulus fld); [|apply expect_refl].
    unfold CodecC.ark_fp_into, CodecC.fp_into_repr. fold (uint_of bits (eval a)).
    rewrite canon_uint_of by assumption. unfold CodecC.ark_from.
    rewrite PfConv.from_limbs_canon by assumption. apply expect_refl.
  - (* ark04_to *)
    apply andb_true_iff in H. destruct H as [_ Hc]. apply canonb_iff in Hc.
    unfold CodecC.ark_to, U. rewrite canon_uint_of by assumption. apply expect_refl.
  - (* ark04_from *)
    apply andb_true_iff in H. destruct H as [Hb Hl]. apply Z.leb_le in Hb.
    destruct (limbsb_parts bits l Hl). now apply ark_from_ok.
  - (* ark04_rt *)
    apply andb_true_iff in H. destruct H as [Hb Hc]. apply Z.leb_le in Hb. apply canonb_iff in Hc.
    now apply ark_rt_ok.
  - (* ark04_fp_try_from *)
    unfold CodecC.ark_fp_try_from, CodecC.fp_from_repr, CodecC.ark_to.
    destruct (eval a <? fmodulus fld); apply expect_refl.
  - (* ark04_fp_into *)
    repeat (apply andb_true_iff in H; destruct H as [H ?]). apply Z.leb_le in H.
    match goal with Hx : (eval l <? _) = true |- _ => rename Hx into Hlt end.
    match goal with Hx : limbsb _ _ = true |- _ => destruct (limbsb_parts _ _ Hx) as [Hl Hw] end.
    unfold CodecC.fp_from_repr. rewrite Hlt. apply fp_into_ok; [exact H|].
    pose proof (eval_bound l Hw) as He. rewrite Hl, nlimbsN_Z in He by lia. exact He.
  - (* ark04_fp_rt *)
    repeat (apply andb_true_iff in H; destruct H as [H ?]). apply Z.leb_le in H.
    match goal with Hc : canonb _ _ = true |- _ => apply canonb_iff in Hc; rename Hc into Hc' end.
    unfold CodecC.ark_fp_try_from, CodecC.fp_from_repr, CodecC.ark_to.
    destruct (eval a <? fmodulus fld); [|apply expect_refl].
    unfold CodecC.ark_fp_into, CodecC.fp_into_repr. fold (uint_of bits (eval a)).
    rewrite canon_uint_of by assumption. unfold CodecC.ark_from.
    rewrite PfConv.from_limbs_canon by assumption. apply expect_refl.
Qed.
