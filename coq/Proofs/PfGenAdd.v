(* Proofs/PfGenAdd.v — the translated inherent methods of src/add.rs (and Uint::masked of
   src/lib.rs) equal the model functions of Model/Add.v on every well-formed Uint<BITS, LIMBS>
   (LIMBS = nlimbs BITS, limb lists of that length).  Generated side: Gen/Scalar.v. *)
From Coq Require Import Lia ZifyBool.
From RV.Model Require Import Base Word Add.
From RV.Gen Require Import Prim Scalar.
From RV.Proofs Require Import BaseFacts PfGenScalar.

Lemma idx_app_mid pre x post : idx (pre ++ x :: post) (Z.of_nat (length pre)) = Val x.
Proof.
  unfold idx. rewrite Nat2Z.id. rewrite nth_error_app2 by lia. rewrite Nat.sub_diag. reflexivity.
Qed.

Lemma upd_app_mid pre x post v : upd (pre ++ x :: post) (Z.of_nat (length pre)) v = pre ++ v :: post.
Proof.
  unfold upd. rewrite Nat2Z.id.
  rewrite firstn_app, firstn_all, Nat.sub_diag. cbn [firstn]. rewrite app_nil_r.
  replace (S (length pre)) with (length (pre ++ [x])) by (rewrite app_length; cbn; lia).
  replace (pre ++ x :: post) with ((pre ++ [x]) ++ post) by (rewrite <- app_assoc; reflexivity).
  rewrite skipn_app, skipn_all, Nat.sub_diag. reflexivity.
Qed.

(* the indexed loop of the source = the structural loop of the model (parametric in the step) *)
Section ZipLoop.
  Variable step : Z -> Z -> bool -> Z * bool.
  Fixpoint zip_loop (a b : list Z) (c : bool) : list Z * bool :=
    match a, b with
    | x :: a', y :: b' => let '(r, c1) := step x y c in let '(rs, c2) := zip_loop a' b' c1 in (r :: rs, c2)
    | _, _ => ([], c)
    end.
  Definition body (rhs : list Z) (i : Z) (st : list Z * bool) : outcome (list Z * bool) :=
    let '(self, carry) := st in
    do t_2 <- idx self i ; do t_3 <- idx rhs i ;
    let '(t_1, carry) := step t_2 t_3 carry in
    do _ <- idx self i ; let self := upd self i t_1 in Val (self, carry).

  Lemma for_loop_zip a : forall b pre preb c,
    length a = length b -> length pre = length preb ->
    for_loop (length a) (Z.of_nat (length pre)) (pre ++ a, c) (body (preb ++ b))
    = Val (pre ++ fst (zip_loop a b c), snd (zip_loop a b c)).
  Proof.
    induction a as [|x a IH]; intros b pre preb c Hl Hp.
    - destruct b; [|discriminate]. cbn [length for_loop zip_loop fst snd]. reflexivity.
    - destruct b as [|y b]; [discriminate|]. cbn [length for_loop zip_loop].
      unfold body at 1. rewrite idx_app_mid. cbn [obind]. rewrite Hp, idx_app_mid. cbn [obind].
      destruct (step x y c) as [r c1] eqn:Es. cbv beta iota. rewrite <- Hp, upd_app_mid. cbn [obind].
      replace (pre ++ r :: a) with ((pre ++ [r]) ++ a) by (rewrite <- app_assoc; reflexivity).
      replace (preb ++ y :: b) with ((preb ++ [y]) ++ b) by (rewrite <- app_assoc; reflexivity).
      replace (Z.of_nat (length pre) + 1) with (Z.of_nat (length (pre ++ [r])))
        by (rewrite app_length; cbn [length]; lia).
      rewrite IH by (rewrite ?app_length; cbn [length] in *; lia).
      destruct (zip_loop a b c1) as [rs c2]. cbn [fst snd]. rewrite <- app_assoc. reflexivity.
  Qed.

  Lemma zip_loop_length a : forall b c, length a = length b -> length (fst (zip_loop a b c)) = length a.
  Proof.
    induction a as [|x a IH]; intros b c Hl.
    - destruct b; reflexivity.
    - destruct b as [|y b]; [discriminate|]. cbn [zip_loop].
      destruct (step x y c) as [r c1]. specialize (IH b c1 ltac:(cbn in Hl; lia)).
      destruct (zip_loop a b c1). cbn [fst length] in *. lia.
  Qed.
End ZipLoop.

Lemma zip_add a : forall b c, zip_loop carrying_add a b c = add_loop a b c.
Proof. induction a as [|x a IH]; intros [|y b] c; cbn [zip_loop add_loop]; try reflexivity; try (destruct (carrying_add x y c); rewrite IH; reflexivity). Qed.
Lemma zip_sub a : forall b c, zip_loop borrowing_sub a b c = sub_loop a b c.
Proof. induction a as [|x a IH]; intros [|y b] c; cbn [zip_loop sub_loop]; try reflexivity; try (destruct (borrowing_sub x y c); rewrite IH; reflexivity). Qed.

Lemma idx_last l : l <> [] -> idx l (Z.of_nat (length l) - 1) = Val (last l 0).
Proof.
  intros H. destruct (list_snoc_inv l H) as (i & x & ->).
  rewrite last_snoc, app_length. cbn [length].
  replace (Z.of_nat (length i + 1) - 1) with (Z.of_nat (length i)) by lia. apply idx_app_mid.
Qed.

Lemma nlimbs_len bits (l : list Z) : 0 <= bits -> length l = nlimbsN bits -> Z.of_nat (length l) = nlimbs bits.
Proof. intros H0 Hl. rewrite Hl. apply nlimbsN_Z. assumption. Qed.

(* ---------------- Uint::masked ---------------- *)
Lemma g_masked_eq bits l :
  0 <= bits -> nlimbs bits <= B -> length l = nlimbsN bits ->
  g_masked bits (nlimbs bits) l = Val (masked bits l).
Proof.
  intros H0 HB Hl. unfold g_masked, masked, should_mask.
  pose proof (nlimbs_len bits l H0 Hl) as HL.
  destruct (Z.ltb_spec 0 bits) as [Hpos|Hz].
  - pose proof (nlimbs_pos bits Hpos) as Hn.
    assert (E : (0 <? nlimbs bits) = true) by lia. rewrite E. cbn [andb].
    rewrite g_mask_eq by assumption. cbn [obind].
    destruct (mask bits =? B - 1) eqn:Em; cbn [negb obind]; [reflexivity|].
    rewrite chk64_ok by lia. cbn [obind].
    assert (Hne : l <> []) by (intros ->; cbn in HL; lia).
    rewrite <- HL, idx_last by assumption. cbn [obind].
    destruct (list_snoc_inv l Hne) as (i & x & ->).
    rewrite last_snoc, map_last_snoc. rewrite app_length. cbn [length].
    replace (Z.of_nat (length i + 1) - 1) with (Z.of_nat (length i)) by lia.
    rewrite upd_app_mid. reflexivity.
  - assert (bits = 0) as -> by lia. cbn. reflexivity.
Qed.

(* ---------------- overflowing_add / overflowing_sub ---------------- *)
Lemma g_overflowing_add_eq bits a b :
  0 <= bits -> nlimbs bits <= B -> length a = nlimbsN bits -> length b = nlimbsN bits ->
  g_overflowing_add bits (nlimbs bits) a b = Val (overflowing_add bits a b).
Proof.
  intros H0 HB Ha Hb. unfold g_overflowing_add, overflowing_add.
  destruct (bits =? 0) eqn:E0; [reflexivity|].
  assert (Hpos : 0 < bits) by lia. pose proof (nlimbs_pos bits Hpos) as Hn.
  pose proof (nlimbs_len bits a H0 Ha) as HL.
  unfold for_range. rewrite Z.sub_0_r, <- HL, Nat2Z.id.
  match goal with |- context [for_loop ?n ?i ?st ?f] =>
    change (for_loop n i st f) with (for_loop n i st (body carrying_add b)) end.
  pose proof (for_loop_zip carrying_add a b [] [] false ltac:(lia) eq_refl) as Hloop.
  cbn [app length Z.of_nat] in Hloop. rewrite Hloop. cbn [obind]. rewrite zip_add.
  pose proof (zip_loop_length carrying_add a b false ltac:(lia)) as Hlen. rewrite zip_add in Hlen.
  destruct (add_loop a b false) as [r carry]. cbn [fst snd] in *.
  rewrite chk64_ok by lia. cbn [obind].
  assert (Hne : r <> []) by (intros ->; cbn in Hlen; lia).
  replace (Z.of_nat (length a) - 1) with (Z.of_nat (length r) - 1) by lia.
  rewrite idx_last by assumption. cbn [obind].
  rewrite g_mask_eq by assumption. cbn [obind].
  rewrite HL, g_masked_eq by (try assumption; lia). reflexivity.
Qed.

Lemma g_overflowing_sub_eq bits a b :
  0 <= bits -> nlimbs bits <= B -> length a = nlimbsN bits -> length b = nlimbsN bits ->
  g_overflowing_sub bits (nlimbs bits) a b = Val (overflowing_sub bits a b).
Proof.
  intros H0 HB Ha Hb. unfold g_overflowing_sub, overflowing_sub.
  destruct (bits =? 0) eqn:E0; [reflexivity|].
  assert (Hpos : 0 < bits) by lia. pose proof (nlimbs_pos bits Hpos) as Hn.
  pose proof (nlimbs_len bits a H0 Ha) as HL.
  unfold for_range. rewrite Z.sub_0_r, <- HL, Nat2Z.id.
  match goal with |- context [for_loop ?n ?i ?st ?f] =>
    change (for_loop n i st f) with (for_loop n i st (body borrowing_sub b)) end.
  pose proof (for_loop_zip borrowing_sub a b [] [] false ltac:(lia) eq_refl) as Hloop.
  cbn [app length Z.of_nat] in Hloop. rewrite Hloop. cbn [obind]. rewrite zip_sub.
  pose proof (zip_loop_length borrowing_sub a b false ltac:(lia)) as Hlen. rewrite zip_sub in Hlen.
  destruct (sub_loop a b false) as [r carry]. cbn [fst snd] in *.
  rewrite chk64_ok by lia. cbn [obind].
  assert (Hne : r <> []) by (intros ->; cbn in Hlen; lia).
  replace (Z.of_nat (length a) - 1) with (Z.of_nat (length r) - 1) by lia.
  rewrite idx_last by assumption. cbn [obind].
  rewrite g_mask_eq by assumption. cbn [obind].
  rewrite HL, g_masked_eq by (try assumption; lia). reflexivity.
Qed.

Lemma uZERO_length bits : length (uZERO bits) = nlimbsN bits.
Proof. unfold uZERO, zero_limbs. apply repeat_length. Qed.

Lemma g_overflowing_neg_eq bits a :
  0 <= bits -> nlimbs bits <= B -> length a = nlimbsN bits ->
  g_overflowing_neg bits (nlimbs bits) a = Val (overflowing_neg bits a).
Proof.
  intros. unfold g_overflowing_neg, overflowing_neg.
  rewrite g_overflowing_sub_eq by (try assumption; apply uZERO_length). reflexivity.
Qed.

(* ---------------- the thin wrappers ---------------- *)
Section Wrappers.
  Variables (bits : Z) (a b : list Z).
  Hypothesis (H0 : 0 <= bits) (HB : nlimbs bits <= B).
  Hypothesis (Ha : length a = nlimbsN bits) (Hb : length b = nlimbsN bits).

  Lemma g_checked_add_eq : g_checked_add bits (nlimbs bits) a b = Val (checked_add bits a b).
  Proof. unfold g_checked_add, checked_add, checked_of. rewrite g_overflowing_add_eq by assumption. cbn [obind].
         destruct (overflowing_add bits a b) as [v [|]]; reflexivity. Qed.
  Lemma g_checked_sub_eq : g_checked_sub bits (nlimbs bits) a b = Val (checked_sub bits a b).
  Proof. unfold g_checked_sub, checked_sub, checked_of. rewrite g_overflowing_sub_eq by assumption. cbn [obind].
         destruct (overflowing_sub bits a b) as [v [|]]; reflexivity. Qed.
  Lemma g_checked_neg_eq : g_checked_neg bits (nlimbs bits) a = Val (checked_neg bits a).
  Proof. unfold g_checked_neg, checked_neg, checked_of. rewrite g_overflowing_neg_eq by assumption. cbn [obind].
         destruct (overflowing_neg bits a) as [v [|]]; reflexivity. Qed.
  Lemma g_saturating_add_eq : g_saturating_add bits (nlimbs bits) a b = Val (saturating_add bits a b).
  Proof. unfold g_saturating_add, saturating_add. rewrite g_overflowing_add_eq by assumption. cbn [obind].
         destruct (overflowing_add bits a b) as [v [|]]; reflexivity. Qed.
  Lemma g_saturating_sub_eq : g_saturating_sub bits (nlimbs bits) a b = Val (saturating_sub bits a b).
  Proof. unfold g_saturating_sub, saturating_sub. rewrite g_overflowing_sub_eq by assumption. cbn [obind].
         destruct (overflowing_sub bits a b) as [v [|]]; reflexivity. Qed.
  Lemma g_wrapping_add_eq : g_wrapping_add bits (nlimbs bits) a b = Val (wrapping_add bits a b).
  Proof. unfold g_wrapping_add, wrapping_add. rewrite g_overflowing_add_eq by assumption. reflexivity. Qed.
  Lemma g_wrapping_sub_eq : g_wrapping_sub bits (nlimbs bits) a b = Val (wrapping_sub bits a b).
  Proof. unfold g_wrapping_sub, wrapping_sub. rewrite g_overflowing_sub_eq by assumption. reflexivity. Qed.
  Lemma g_wrapping_neg_eq : g_wrapping_neg bits (nlimbs bits) a = Val (wrapping_neg bits a).
  Proof. unfold g_wrapping_neg, wrapping_neg. rewrite g_overflowing_neg_eq by assumption. reflexivity. Qed.
End Wrappers.

(* abs_diff: `self < other` is core's PartialOrd::lt over partial_cmp = Some(cmp), cmp = algorithms::cmp *)
Lemma g_abs_diff_eq bits a b :
  0 <= bits -> nlimbs bits <= B -> length a = nlimbsN bits -> length b = nlimbsN bits ->
  g_abs_diff bits (nlimbs bits) a b = Val (abs_diff bits a b).
Proof.
  intros H0 HB Ha Hb. unfold g_abs_diff, abs_diff, g_cmp, ult.
  destruct (limbs_cmp a b); cbn [obind]; rewrite g_wrapping_sub_eq by assumption; reflexivity.
Qed.
