(* Proofs/BaseFacts.v — facts about words, eval, to_limbs, nlimbs, mask, masked. *)
From Coq Require Import ZArith List Bool Lia.
From RV.Model Require Import Base.
Import ListNotations.
Local Open Scope Z_scope.

Lemma B_val : B = 18446744073709551616. Proof. reflexivity. Qed.
Lemma B_pos : 0 < B. Proof. rewrite B_val; lia. Qed.
Lemma B_pow : B = 2 ^ 64. Proof. reflexivity. Qed.
Global Opaque B.

Lemma inWb_iff x : inWb x = true <-> inW x.
Proof. unfold inWb, inW. rewrite andb_true_iff, Z.leb_le, Z.ltb_lt. tauto. Qed.

Lemma Bn_pos n : 0 < B ^ Z.of_nat n.
Proof. apply Z.pow_pos_nonneg; [apply B_pos | lia]. Qed.

Lemma Bn_S n : B ^ Z.of_nat (S n) = B * B ^ Z.of_nat n.
Proof. rewrite Nat2Z.inj_succ, Z.pow_succ_r by lia. reflexivity. Qed.

Lemma Bn_pow2 n : B ^ Z.of_nat n = 2 ^ (64 * Z.of_nat n).
Proof. rewrite B_pow, <- Z.pow_mul_r by lia. reflexivity. Qed.

Lemma div_mod_lin x q b : 0 <= x < b -> (x + b * q) mod b = x /\ (x + b * q) / b = q.
Proof.
  intros H. split.
  - symmetry. apply Z.mod_unique with (q := q); lia.
  - symmetry. apply Z.div_unique with (r := x); lia.
Qed.

(* ---------- eval ---------- *)
Lemma eval_nil : eval [] = 0. Proof. reflexivity. Qed.
Lemma eval_cons x t : eval (x :: t) = x + B * eval t. Proof. reflexivity. Qed.

Lemma eval_app a b : eval (a ++ b) = eval a + B ^ Z.of_nat (length a) * eval b.
Proof.
  induction a as [|x a IH]; cbn [app length eval].
  - rewrite Z.pow_0_r. lia.
  - rewrite IH, Bn_S. ring.
Qed.

Lemma eval_bound l : Forall inW l -> 0 <= eval l < B ^ Z.of_nat (length l).
Proof.
  induction 1 as [|x l Hx Hl IH]; cbn [eval length].
  - rewrite Z.pow_0_r. lia.
  - rewrite Bn_S. unfold inW in Hx. pose proof B_pos. nia.
Qed.

Lemma eval_repeat0 n : eval (repeat 0 n) = 0.
Proof. induction n as [|n IH]; cbn [repeat eval]; [reflexivity | rewrite IH; lia]. Qed.

Lemma Forall_inW_repeat0 n : Forall inW (repeat 0 n).
Proof.
  induction n; cbn [repeat]; constructor; auto. unfold inW. pose proof B_pos. lia.
Qed.

Lemma eval_repeat_max n : eval (repeat (B - 1) n) = B ^ Z.of_nat n - 1.
Proof.
  induction n as [|n IH]; cbn [repeat eval]; [reflexivity|].
  rewrite IH, Bn_S. ring.
Qed.

(* ---------- to_limbs ---------- *)
Lemma modp2_spec v k : 0 <= k -> modp2 v k = v mod 2 ^ k.
Proof. intros. unfold modp2. apply Z.land_ones; lia. Qed.
Lemma divp2_spec v k : 0 <= k -> divp2 v k = v / 2 ^ k.
Proof. intros. unfold divp2. apply Z.shiftr_div_pow2; lia. Qed.
Lemma modp2_B v : modp2 v 64 = v mod B.
Proof. rewrite modp2_spec, B_pow by lia. reflexivity. Qed.
Lemma divp2_B v : divp2 v 64 = v / B.
Proof. rewrite divp2_spec, B_pow by lia. reflexivity. Qed.
Lemma to_limbs_S n v : to_limbs (S n) v = (v mod B) :: to_limbs n (v / B).
Proof. cbn [to_limbs]. now rewrite modp2_B, divp2_B. Qed.

Lemma to_limbs_length n v : length (to_limbs n v) = n.
Proof. revert v; induction n as [|n IH]; intros v; cbn [to_limbs length]; [reflexivity | now rewrite IH]. Qed.

Lemma to_limbs_inW n v : Forall inW (to_limbs n v).
Proof.
  revert v; induction n as [|n IH]; intros v; [constructor|]. rewrite to_limbs_S. constructor; auto.
  unfold inW. apply Z.mod_pos_bound, B_pos.
Qed.

Lemma eval_to_limbs n v : eval (to_limbs n v) = v mod B ^ Z.of_nat n.
Proof.
  revert v; induction n as [|n IH]; intros v.
  - cbn [to_limbs eval]. rewrite Z.pow_0_r, Z.mod_1_r. reflexivity.
  - rewrite to_limbs_S. cbn [eval]. rewrite IH, Bn_S. pose proof B_pos. pose proof (Bn_pos n).
    rewrite Z.rem_mul_r by lia. reflexivity.
Qed.

Lemma to_limbs_eval l : Forall inW l -> to_limbs (length l) (eval l) = l.
Proof.
  induction 1 as [|x l Hx Hl IH]; [reflexivity|]. cbn [length]. rewrite to_limbs_S. cbn [eval].
  unfold inW in Hx. pose proof B_pos.
  destruct (div_mod_lin x (eval l) B ltac:(lia)) as [-> ->].
  now rewrite IH.
Qed.

Lemma eval_inj a b :
  length a = length b -> Forall inW a -> Forall inW b -> eval a = eval b -> a = b.
Proof.
  intros Hl Ha Hb He. rewrite <- (to_limbs_eval a Ha), <- (to_limbs_eval b Hb), Hl, He. reflexivity.
Qed.

(* the characterisation used everywhere: a word list of the right length IS to_limbs of its value *)
Lemma to_limbs_unique n l v :
  length l = n -> Forall inW l -> eval l = v -> to_limbs n v = l.
Proof. intros <- Hl <-. apply to_limbs_eval, Hl. Qed.

(* ---------- nlimbs / mask ---------- *)
Lemma nlimbs_nonneg bits : 0 <= bits -> 0 <= nlimbs bits.
Proof. intros. unfold nlimbs. apply Z.div_pos; lia. Qed.

Lemma nlimbsN_Z bits : 0 <= bits -> Z.of_nat (nlimbsN bits) = nlimbs bits.
Proof. intros. unfold nlimbsN. rewrite Z2Nat.id; [reflexivity | now apply nlimbs_nonneg]. Qed.

Lemma nlimbs_0 : nlimbs 0 = 0. Proof. reflexivity. Qed.

Lemma nlimbs_bounds bits : 0 < bits -> 64 * (nlimbs bits - 1) < bits <= 64 * nlimbs bits.
Proof.
  intros. unfold nlimbs.
  pose proof (Z.div_mod (bits + 63) 64 ltac:(lia)).
  pose proof (Z.mod_pos_bound (bits + 63) 64 ltac:(lia)). lia.
Qed.

Lemma nlimbs_pos bits : 0 < bits -> 1 <= nlimbs bits.
Proof. intros H. pose proof (nlimbs_bounds bits H). lia. Qed.

(* k = number of bits held by the top limb, 1..64 *)
Definition topbits (bits : Z) : Z := bits - 64 * (nlimbs bits - 1).

Lemma topbits_range bits : 0 < bits -> 1 <= topbits bits <= 64.
Proof. intros H. unfold topbits. pose proof (nlimbs_bounds bits H). lia. Qed.

Lemma mask_topbits bits : 0 < bits -> mask bits = 2 ^ topbits bits - 1.
Proof.
  intros H. unfold mask. destruct (Z.eqb_spec bits 0) as [?|_]; [lia|].
  pose proof (topbits_range bits H) as Ht. unfold topbits in *.
  pose proof (nlimbs_bounds bits H).
  destruct (Z.eqb_spec (bits mod 64) 0) as [E|E].
  - assert (bits = 64 * nlimbs bits).
    { unfold nlimbs in *. pose proof (Z.div_mod bits 64 ltac:(lia)).
      pose proof (Z.div_mod (bits + 63) 64 ltac:(lia)).
      pose proof (Z.mod_pos_bound (bits + 63) 64 ltac:(lia)).
      assert ((bits + 63) / 64 = bits / 64) by
        (symmetry; apply Z.div_unique with (r := 63); lia). lia. }
    replace (bits - 64 * (nlimbs bits - 1)) with 64 by lia. rewrite B_pow. reflexivity.
  - assert (bits - 64 * (nlimbs bits - 1) = bits mod 64) as ->; [|reflexivity].
    unfold nlimbs in *. pose proof (Z.div_mod bits 64 ltac:(lia)).
    pose proof (Z.mod_pos_bound bits 64 ltac:(lia)).
    assert ((bits + 63) / 64 = bits / 64 + 1) by
      (symmetry; apply Z.div_unique with (r := bits mod 64 - 1); lia). lia.
Qed.

Lemma mask_range bits : 0 <= bits -> 0 <= mask bits < B.
Proof.
  intros H. destruct (Z.eq_dec bits 0) as [->|N].
  - cbn. pose proof B_pos. lia.
  - rewrite mask_topbits by lia. pose proof (topbits_range bits ltac:(lia)).
    assert (2 ^ topbits bits <= 2 ^ 64) by (apply Z.pow_le_mono_r; lia).
    assert (0 < 2 ^ topbits bits) by (apply Z.pow_pos_nonneg; lia).
    rewrite B_pow. lia.
Qed.

Lemma pow_bits_split bits :
  0 < bits -> 2 ^ bits = B ^ (nlimbs bits - 1) * 2 ^ topbits bits.
Proof.
  intros H. pose proof (topbits_range bits H). pose proof (nlimbs_pos bits H).
  rewrite B_pow, <- Z.pow_mul_r, <- Z.pow_add_r by lia. f_equal. unfold topbits. lia.
Qed.

Lemma should_mask_spec bits :
  0 < bits -> should_mask bits = negb (topbits bits =? 64).
Proof.
  intros H. unfold should_mask. destruct (Z.ltb_spec 0 bits); [|lia]. cbn [andb].
  rewrite mask_topbits by lia. pose proof (topbits_range bits H).
  f_equal. destruct (Z.eqb_spec (topbits bits) 64) as [E|E].
  - rewrite E, B_pow. apply Z.eqb_refl.
  - apply Z.eqb_neq. rewrite B_pow.
    assert (2 ^ topbits bits < 2 ^ 64) by (apply Z.pow_lt_mono_r; lia). lia.
Qed.

(* ---------- lists with a last element ---------- *)
Lemma list_snoc_inv {A} (l : list A) : l <> [] -> exists i x, l = i ++ [x].
Proof.
  intros H. destruct l as [|a l]; [congruence|].
  exists (removelast (a :: l)), (last (a :: l) a). apply app_removelast_last. discriminate.
Qed.
Lemma map_last_snoc f i x : map_last f (i ++ [x]) = i ++ [f x].
Proof.
  induction i as [|y i IH]; cbn [app map_last]; [reflexivity|].
  rewrite IH. destruct (i ++ [x]) eqn:E; [destruct i; discriminate | reflexivity].
Qed.
Lemma last_snoc {A} (i : list A) x d : last (i ++ [x]) d = x.
Proof. apply last_last. Qed.

Lemma land_ones_mod x k : 0 <= k -> Z.land x (2 ^ k - 1) = x mod 2 ^ k.
Proof. intros. replace (2 ^ k - 1) with (Z.ones k) by (rewrite Z.ones_equiv; lia). apply Z.land_ones; lia. Qed.

(* decomposition of a limb list of a positive width *)
Lemma canon_len_split bits (l : list Z) :
  0 < bits -> length l = nlimbsN bits ->
  exists i x, l = i ++ [x] /\ Z.of_nat (length i) = nlimbs bits - 1.
Proof.
  intros H Hl. pose proof (nlimbs_pos bits H).
  assert (Hn : Z.of_nat (length l) = nlimbs bits) by (rewrite Hl; apply nlimbsN_Z; lia).
  destruct (list_snoc_inv l) as (i & x & ->).
  { intros ->. cbn in Hn. lia. }
  exists i, x. split; [reflexivity|]. rewrite app_length in Hn. cbn in Hn. lia.
Qed.

(* value and canonicity of masked, and the "top limb exceeds MASK" test *)
Lemma masked_spec bits l :
  0 < bits -> length l = nlimbsN bits -> Forall inW l ->
  canon bits (masked bits l) /\ eval (masked bits l) = eval l mod 2 ^ bits.
Proof.
  intros H Hl Hw.
  destruct (canon_len_split bits l H Hl) as (i & x & -> & Hi).
  apply Forall_app in Hw. destruct Hw as [Hwi Hwx]. inversion Hwx as [|? ? Hx _]; subst.
  pose proof (topbits_range bits H) as Ht.
  pose proof (eval_bound i Hwi) as Hbi. rewrite Hi in Hbi.
  pose proof (pow_bits_split bits H) as Hp.
  assert (HBp : 0 < B ^ (nlimbs bits - 1)).
  { apply Z.pow_pos_nonneg; [apply B_pos|]. pose proof (nlimbs_pos bits H). lia. }
  assert (H2p : 0 < 2 ^ topbits bits) by (apply Z.pow_pos_nonneg; lia).
  set (k := topbits bits) in *.
  assert (Hval : (eval (i ++ [x])) mod 2 ^ bits = eval i + B ^ (nlimbs bits - 1) * (x mod 2 ^ k)).
  { rewrite eval_app, Hi. cbn [eval]. rewrite Hp.
    pose proof (Z.div_mod x (2 ^ k) ltac:(lia)) as Hdm.
    pose proof (Z.mod_pos_bound x (2 ^ k) H2p) as Hmb.
    symmetry. apply Z.mod_unique with (q := x / 2 ^ k); [left; nia | nia]. }
  unfold masked. rewrite should_mask_spec by lia. fold k.
  destruct (Z.eqb_spec k 64) as [E|E]; cbn [negb].
  - (* aligned: nothing to do *)
    assert (x mod 2 ^ k = x).
    { rewrite E, <- B_pow. apply Z.mod_small. exact Hx. }
    split.
    + unfold canon. split; [exact Hl|]. split; [apply Forall_app; auto|].
      assert (eval (i ++ [x]) = eval (i ++ [x]) mod 2 ^ bits) as ->.
      { rewrite Hval. rewrite eval_app, Hi. cbn [eval]. lia. }
      apply Z.mod_pos_bound. lia.
    + rewrite Hval. rewrite eval_app, Hi. cbn [eval]. lia.
  - rewrite map_last_snoc, mask_topbits by lia. fold k. rewrite land_ones_mod by lia.
    pose proof (Z.mod_pos_bound x (2 ^ k) H2p) as Hm.
    assert (Hev : eval (i ++ [x mod 2 ^ k]) = eval i + B ^ (nlimbs bits - 1) * (x mod 2 ^ k)).
    { rewrite eval_app, Hi. cbn [eval]. lia. }
    split.
    + unfold canon. split; [rewrite !app_length in *; exact Hl|]. split.
      * apply Forall_app; split; [exact Hwi|]. constructor; [|constructor].
        unfold inW in *. assert (2 ^ k <= 2 ^ 64) by (apply Z.pow_le_mono_r; lia).
        rewrite B_pow. lia.
      * rewrite Hev, <- Hval. apply Z.mod_pos_bound. lia.
    + rewrite Hev, Hval. reflexivity.
Qed.

Lemma last_gt_mask bits l :
  0 < bits -> length l = nlimbsN bits -> Forall inW l ->
  (mask bits <? last l 0) = (2 ^ bits <=? eval l).
Proof.
  intros H Hl Hw.
  destruct (canon_len_split bits l H Hl) as (i & x & -> & Hi).
  apply Forall_app in Hw. destruct Hw as [Hwi Hwx]. inversion Hwx as [|? ? Hx _]; subst.
  pose proof (topbits_range bits H) as Ht.
  pose proof (eval_bound i Hwi) as Hbi. rewrite Hi in Hbi.
  pose proof (pow_bits_split bits H) as Hp.
  assert (HBp : 0 < B ^ (nlimbs bits - 1)).
  { apply Z.pow_pos_nonneg; [apply B_pos|]. pose proof (nlimbs_pos bits H). lia. }
  assert (H2p : 0 < 2 ^ topbits bits) by (apply Z.pow_pos_nonneg; lia).
  rewrite last_snoc, mask_topbits, eval_app, Hi, Hp by lia. cbn [eval].
  unfold inW in Hx.
  destruct (Z.ltb_spec (2 ^ topbits bits - 1) x); destruct (Z.leb_spec (B ^ (nlimbs bits - 1) * 2 ^ topbits bits) (eval i + B ^ (nlimbs bits - 1) * (x + B * 0))); try reflexivity; nia.
Qed.

Lemma canon_uint_of bits l : canon bits l -> uint_of bits (eval l) = l.
Proof. intros (Hl & Hw & _). unfold uint_of. rewrite <- Hl. apply to_limbs_eval, Hw. Qed.

Lemma uint_of_unique bits l v :
  canon bits l -> eval l = v -> l = uint_of bits v.
Proof. intros Hc <-. symmetry. now apply canon_uint_of. Qed.

Lemma canon_range bits l : 0 <= bits -> canon bits l -> 0 <= eval l < 2 ^ bits.
Proof. intros Hb (Hl & Hw & Hlt). pose proof (eval_bound l Hw). lia. Qed.

Lemma canonb_iff bits l : canonb bits l = true <-> canon bits l.
Proof.
  unfold canonb, canon. rewrite !andb_true_iff, Nat.eqb_eq, Z.ltb_lt, forallb_forall, Forall_forall.
  split.
  - intros [[H1 Hf] H2]. split; [exact H1|]. split; [|exact H2]. intros y Hy. apply inWb_iff, Hf, Hy.
  - intros (H1 & Hf & H2). split; [split; [exact H1|]|exact H2]. intros y Hy. apply inWb_iff, Hf, Hy.
Qed.

Lemma canon_zero_width l : canon 0 l -> l = [].
Proof. intros (Hl & _). cbn in Hl. destruct l; [reflexivity | discriminate]. Qed.

Lemma canon_uZERO bits : 0 <= bits -> canon bits (uZERO bits) /\ eval (uZERO bits) = 0.
Proof.
  intros H. unfold uZERO, zero_limbs, canon. rewrite repeat_length, eval_repeat0.
  repeat split; auto using Forall_inW_repeat0. apply Z.pow_pos_nonneg; lia.
Qed.

Lemma canon_uMAX bits : 0 <= bits -> canon bits (uMAX bits) /\ eval (uMAX bits) = 2 ^ bits - 1.
Proof.
  intros H. unfold uMAX. destruct (Z.eq_dec bits 0) as [->|N].
  - cbn. unfold canon. cbn. repeat split; auto.
  - assert (Hr : Forall inW (repeat (B - 1) (nlimbsN bits))).
    { apply Forall_forall. intros x Hx. apply repeat_spec in Hx. subst. unfold inW.
      pose proof B_pos. lia. }
    destruct (masked_spec bits (repeat (B - 1) (nlimbsN bits)) ltac:(lia) (repeat_length _ _) Hr)
      as [Hc He].
    split; [exact Hc|]. rewrite He, eval_repeat_max, nlimbsN_Z by lia.
    pose proof (nlimbs_bounds bits ltac:(lia)).
    (* B^n - 1 mod 2^bits = 2^bits - 1 since 2^bits | B^n *)
    assert (Hd : B ^ nlimbs bits = 2 ^ bits * 2 ^ (64 * nlimbs bits - bits)).
    { rewrite B_pow, <- Z.pow_mul_r, <- Z.pow_add_r by lia. f_equal. lia. }
    assert (0 < 2 ^ bits) by (apply Z.pow_pos_nonneg; lia).
    assert (0 < 2 ^ (64 * nlimbs bits - bits)) by (apply Z.pow_pos_nonneg; lia).
    rewrite Hd.
    replace (2 ^ bits * 2 ^ (64 * nlimbs bits - bits) - 1)
      with ((2 ^ bits - 1) + (2 ^ (64 * nlimbs bits - bits) - 1) * 2 ^ bits) by ring.
    rewrite Z.mod_add by lia. apply Z.mod_small. lia.
Qed.
