(* Proofs/PfGenCtor.v — the translated constructors and associated consts of src/lib.rs / src/from.rs:
   from_limbs, from_limbs_unmasked, const_from_u64 and the initialisers of ZERO, MAX, ONE equal the
   model's from_limbs / masked / uZERO / uMAX / uone.  (The other translated functions use uZERO,
   uMAX and uone as primitives for Self::ZERO / MAX / ONE; these lemmas justify that.) *)
From Coq Require Import Lia ZifyBool.
From RV.Model Require Import Base Word.
From RV.Model Require Conv UDiv Mul.
From RV.Gen Require Import Prim Scalar.
From RV.Proofs Require Import BaseFacts PfGenScalar PfGenAdd.

Lemma g_from_limbs_eq bits l :
  0 <= bits -> nlimbs bits <= B ->
  g_from_limbs bits (nlimbs bits) l = Conv.from_limbs bits l.
Proof.
  intros H0 HB. unfold g_from_limbs, Conv.from_limbs, should_mask.
  destruct (Z.ltb_spec 0 bits) as [Hpos|Hz]; cbn [andb obind]; [|reflexivity].
  pose proof (nlimbs_pos bits Hpos) as Hn.
  rewrite g_mask_eq by assumption. cbn [obind].
  destruct (mask bits =? B - 1); cbn [negb obind]; [reflexivity|].
  rewrite chk64_ok by lia. cbn [obind]. unfold idx.
  destruct (nth_error l (Z.to_nat (nlimbs bits - 1))) as [x|]; cbn [obind]; [|reflexivity].
  destruct (x <=? mask bits); reflexivity.
Qed.

Lemma g_from_limbs_unmasked_eq bits l :
  0 <= bits -> nlimbs bits <= B -> length l = nlimbsN bits ->
  g_from_limbs_unmasked bits (nlimbs bits) l = Val (masked bits l).
Proof. intros. unfold g_from_limbs_unmasked. rewrite g_masked_eq by assumption. reflexivity. Qed.

Lemma nth_error_repeat {A} (x : A) n k : (k < n)%nat -> nth_error (repeat x n) k = Some x.
Proof. revert k; induction n as [|n IH]; intros [|k] H; cbn; try lia; [reflexivity|apply IH; lia]. Qed.

Lemma mask_nonneg bits : 0 <= bits -> 0 <= mask bits.
Proof. intros H. pose proof (mask_range bits H). lia. Qed.

Lemma g_ZERO_eq bits : 0 <= bits -> nlimbs bits <= B -> g_ZERO bits (nlimbs bits) = Val (uZERO bits).
Proof.
  intros H0 HB. unfold g_ZERO. rewrite g_from_limbs_eq by assumption. cbn [obind].
  unfold Conv.from_limbs, uZERO, zero_limbs, nlimbsN.
  destruct (should_mask bits) eqn:Es; [|reflexivity].
  assert (Hpos : 0 < bits) by (unfold should_mask in Es; lia).
  pose proof (nlimbs_pos bits Hpos).
  rewrite nth_error_repeat by lia.
  pose proof (mask_nonneg bits H0). destruct (Z.leb_spec 0 (mask bits)); [reflexivity|lia].
Qed.

Lemma g_MAX_eq bits : 0 <= bits -> nlimbs bits <= B -> g_MAX bits (nlimbs bits) = Val (uMAX bits).
Proof.
  intros H0 HB. unfold g_MAX.
  rewrite g_from_limbs_unmasked_eq by (try assumption; apply repeat_length). reflexivity.
Qed.

Lemma mask_ge1 bits : 0 < bits -> 1 <= mask bits.
Proof.
  intros H. rewrite mask_topbits by assumption. pose proof (topbits_range bits H).
  assert (2 ^ 1 <= 2 ^ topbits bits) by (apply Z.pow_le_mono_r; lia). lia.
Qed.

Lemma g_ONE_eq bits : 0 <= bits -> nlimbs bits <= B -> g_ONE bits (nlimbs bits) = Val (UDiv.uone bits).
Proof.
  intros H0 HB. unfold g_ONE, g_const_from_u64, UDiv.uone.
  destruct (Z.eqb_spec bits 0) as [->|Hnz]; [reflexivity|].
  assert (Hpos : 0 < bits) by lia. pose proof (nlimbs_pos bits Hpos) as Hn.
  assert (Hc : (do t_2 <- (if bits <? 64 then do t_1 <- chksh 64 bits; Val (shl64 1 t_1 <=? 1) else Val false); Val t_2) = Val false).
  { destruct (Z.ltb_spec bits 64); [|reflexivity].
    rewrite chksh_ok by lia. cbn [obind]. unfold shl64. rewrite Z.mul_1_l.
    assert (2 <= 2 ^ bits < B).
    { rewrite B_pow. split; [change 2 with (2 ^ 1) at 1; apply Z.pow_le_mono_r; lia | apply Z.pow_lt_mono_r; lia]. }
    rewrite Z.mod_small by lia. destruct (Z.leb_spec (2 ^ bits) 1); [lia|reflexivity]. }
  rewrite Hc. cbn [obind].
  unfold uZERO, zero_limbs, nlimbsN.
  destruct (Z.to_nat (nlimbs bits)) as [|n] eqn:En; [lia|].
  cbn [repeat]. unfold idx, upd. cbn [Z.to_nat nth_error obind firstn skipn app].
  rewrite g_from_limbs_eq by assumption. cbn [obind].
  unfold Conv.from_limbs. destruct (should_mask bits); [|reflexivity].
  replace (Z.to_nat (nlimbs bits - 1)) with n by lia.
  pose proof (mask_ge1 bits Hpos).
  destruct n as [|n]; cbn [nth_error].
  - destruct (Z.leb_spec 1 (mask bits)); [reflexivity|lia].
  - rewrite nth_error_repeat by lia. destruct (Z.leb_spec 0 (mask bits)); [reflexivity|lia].
Qed.

(* const_from_u64 for every word x (g_ONE_eq above is the instance x = 1 against UDiv.uone) *)
Lemma g_const_from_u64_eq bits x : 0 <= bits -> nlimbs bits <= B -> 0 <= x < B ->
  g_const_from_u64 bits (nlimbs bits) x = Mul.const_from_u64 bits x.
Proof.
  intros H0 HB Hx. unfold g_const_from_u64, Mul.const_from_u64.
  destruct (Z.eqb_spec bits 0) as [->|Hnz]; [reflexivity|]. cbn [orb].
  assert (Hpos : 0 < bits) by lia. pose proof (nlimbs_pos bits Hpos) as Hn.
  assert (Hc : (do t_2 <- (if bits <? 64 then do t_1 <- chksh 64 bits; Val (shl64 1 t_1 <=? x) else Val false); Val t_2)
               = Val ((bits <? 64) && (2 ^ bits <=? x))).
  { destruct (Z.ltb_spec bits 64); [|reflexivity].
    rewrite chksh_ok by lia. cbn [obind andb]. unfold shl64. rewrite Z.mul_1_l.
    assert (0 < 2 ^ bits < B) by (rewrite B_pow; split; [apply Z.pow_pos_nonneg; lia | apply Z.pow_lt_mono_r; lia]).
    rewrite Z.mod_small by lia. reflexivity. }
  rewrite Hc. cbn [obind].
  destruct ((bits <? 64) && (2 ^ bits <=? x)); [reflexivity|].
  unfold zero_limbs, nlimbsN.
  destruct (Z.to_nat (nlimbs bits)) as [|n] eqn:En; [lia|].
  cbn [repeat]. unfold idx, upd. cbn [Z.to_nat nth_error obind firstn skipn app].
  rewrite g_from_limbs_eq by assumption. destruct (Conv.from_limbs bits (x :: repeat 0 n)); reflexivity.
Qed.

(* ---------------- src/lib.rs: the from_limbs_slice family ---------------- *)
Lemma set_nth_upd : forall (l : list Z) i v, (i < length l)%nat ->
  Conv.set_nth l i v = Val (upd l (Z.of_nat i) v).
Proof.
  induction l as [|x t IH]; intros i v Hi; [cbn in Hi; lia|].
  destruct i as [|i]; cbn [Conv.set_nth].
  - reflexivity.
  - rewrite IH by (cbn in Hi; lia). cbn [obind]. f_equal.
    unfold upd. rewrite !Nat2Z.id. reflexivity.
Qed.
Lemma skipn_repeat0 k n : skipn k (repeat 0 n) = repeat 0 (n - k).
Proof.
  revert n; induction k as [|k IH]; intros n; [now rewrite Nat.sub_0_r|].
  destruct n as [|n]; [reflexivity|]. cbn [repeat skipn]. apply IH.
Qed.

Theorem g_from_limbs_slice_family bits slice :
  0 <= bits -> nlimbs bits < B ->
  g_overflowing_from_limbs_slice bits (nlimbs bits) slice = Conv.overflowing_from_limbs_slice bits slice /\
  g_from_limbs_slice bits (nlimbs bits) slice = Conv.from_limbs_slice bits slice /\
  g_checked_from_limbs_slice bits (nlimbs bits) slice = Conv.checked_from_limbs_slice bits slice /\
  g_wrapping_from_limbs_slice bits (nlimbs bits) slice = Conv.wrapping_from_limbs_slice bits slice.
Proof.
  intros H0 HB. pose proof (nlimbs_nonneg bits H0) as HL.
  assert (HB' : nlimbs bits <= B) by lia.
  assert (HN : Z.of_nat (nlimbsN bits) = nlimbs bits) by (unfold nlimbsN; lia).
  assert (Eo : g_overflowing_from_limbs_slice bits (nlimbs bits) slice = Conv.overflowing_from_limbs_slice bits slice).
  { unfold g_overflowing_from_limbs_slice, Conv.overflowing_from_limbs_slice. cbv zeta.
    change (Z.to_nat (nlimbs bits)) with (nlimbsN bits).
    destruct (Z.ltb_spec (lenZ slice) (nlimbs bits)) as [Hlt|Hge], (Nat.ltb_spec (length slice) (nlimbsN bits)) as [Hlt'|Hge'];
      unfold lenZ in *; try lia.
    - unfold subslice, lenZ. rewrite repeat_length.
      replace ((0 <=? 0) && (0 <=? Z.of_nat (length slice)) && (Z.of_nat (length slice) <=? Z.of_nat (nlimbsN bits))) with true by lia.
      cbn [obind Z.to_nat skipn]. rewrite Z.sub_0_r, Nat2Z.id, firstn_length, repeat_length, Nat.min_l by lia.
      rewrite Z.eqb_refl. cbn [negb].
      unfold splice. cbn [Z.to_nat firstn app Nat.add]. rewrite skipn_repeat0.
      rewrite g_from_limbs_eq by assumption.
      destruct (Conv.from_limbs bits (slice ++ repeat 0 (nlimbsN bits - length slice))); reflexivity.
    - unfold subslice, lenZ.
      replace ((0 <=? 0) && (0 <=? nlimbs bits) && (nlimbs bits <=? Z.of_nat (length slice))) with true by lia.
      replace ((0 <=? nlimbs bits) && (nlimbs bits <=? Z.of_nat (length slice)) && (Z.of_nat (length slice) <=? Z.of_nat (length slice))) with true by lia.
      cbn [obind Z.to_nat skipn]. rewrite Z.sub_0_r. change (Z.to_nat (nlimbs bits)) with (nlimbsN bits).
      replace (Z.to_nat (Z.of_nat (length slice) - nlimbs bits)) with (length (skipn (nlimbsN bits) slice)) by (rewrite skipn_length; lia).
      rewrite firstn_all, repeat_length, firstn_length, Nat.min_l by lia.
      rewrite Z.eqb_refl. cbn [negb].
      destruct (Z.ltb_spec 0 (nlimbs bits)) as [Hp|Hp], (Nat.ltb_spec 0 (nlimbsN bits)) as [Hp'|Hp']; try lia.
      + rewrite !chk64_ok by lia. cbn [obind]. rewrite g_mask_eq by assumption. cbn [obind].
        unfold idx, Conv.get_nth. replace (Z.to_nat (nlimbs bits - 1)) with (nlimbsN bits - 1)%nat by lia.
        destruct (nth_error (firstn (nlimbsN bits) slice) (nlimbsN bits - 1)) as [top|] eqn:Et; cbn [obind]; [|reflexivity].
        rewrite (set_nth_upd _ (nlimbsN bits - 1)) by (rewrite firstn_length; lia). cbn [obind].
        replace (Z.of_nat (nlimbsN bits - 1)) with (nlimbs bits - 1) by lia.
        rewrite g_from_limbs_eq by assumption.
        destruct (Conv.from_limbs bits _); reflexivity.
      + cbn [obind]. rewrite g_from_limbs_eq by assumption.
        destruct (Conv.from_limbs bits _); reflexivity. }
  split; [exact Eo|]. split; [|split].
  - unfold g_from_limbs_slice, Conv.from_limbs_slice. rewrite Eo.
    destruct (Conv.overflowing_from_limbs_slice bits slice) as [[v [|]]| | | |]; reflexivity.
  - unfold g_checked_from_limbs_slice, Conv.checked_from_limbs_slice. rewrite Eo.
    destruct (Conv.overflowing_from_limbs_slice bits slice) as [[v [|]]| | | |]; reflexivity.
  - unfold g_wrapping_from_limbs_slice, Conv.wrapping_from_limbs_slice. rewrite Eo.
    destruct (Conv.overflowing_from_limbs_slice bits slice) as [[v o]| | | |]; reflexivity.
Qed.

Lemma g_saturating_from_limbs_slice_eq bits slice :
  0 <= bits -> nlimbs bits < B ->
  g_saturating_from_limbs_slice bits (nlimbs bits) slice = Conv.saturating_from_limbs_slice bits slice.
Proof.
  intros H0 HB. destruct (g_from_limbs_slice_family bits slice H0 HB) as (Eo & _).
  unfold g_saturating_from_limbs_slice, Conv.saturating_from_limbs_slice. rewrite Eo.
  destruct (Conv.overflowing_from_limbs_slice bits slice) as [[v [|]]| | | |]; reflexivity.
Qed.
