(* Proofs/PfModular.v — characterising lemmas for Model/Modular.v (one per model function:
   value and canonicity), under the explicit hypothesis DivKernelOK (the statement of C14's
   top-level theorem about algorithms::div). *)
From Coq Require Import ZArith List Bool Lia Zpow_facts.
From RV.Model Require Import Base Word Limbs Add Shift Div Modular.
From RV.Proofs Require Import BaseFacts PfAdd PfLimbs PfShift PfC01.
Import ListNotations.
Local Open Scope Z_scope.

(* The contract of ruint::algorithms::div assumed here (to be discharged by C14). *)
Definition DivKernelOK : Prop := forall n d, Forall inW n -> Forall inW d -> eval d <> 0 ->
  exists q r, div_kernel n d = Val (q, r) /\ length q = length n /\ length r = length d /\
    Forall inW q /\ Forall inW r /\ eval q = eval n / eval d /\ eval r = eval n mod eval d.

(* ---------- comparisons, is_zero, ONE ---------- *)
Lemma list_eqb_zeros a :
  Forall inW a -> list_eqb Z.eqb a (repeat 0 (length a)) = (eval a =? 0).
Proof.
  induction a as [|x t IH]; intros Hw; [reflexivity|].
  inversion Hw as [|? ? Hx Ht]; subst. cbn [length repeat list_eqb eval].
  rewrite (IH Ht). pose proof (eval_bound t Ht) as Hb. pose proof B_pos. unfold inW in Hx.
  destruct (Z.eqb_spec x 0); destruct (Z.eqb_spec (eval t) 0); destruct (Z.eqb_spec (x + B * eval t) 0);
    cbn [andb]; try reflexivity; nia.
Qed.

Lemma is_zero_spec bits a : canon bits a -> is_zero bits a = (eval a =? 0).
Proof.
  intros (Hl & Hw & _). unfold is_zero, uZERO, zero_limbs. rewrite <- Hl. now apply list_eqb_zeros.
Qed.

Lemma uge_spec bits a b : canon bits a -> canon bits b -> uge a b = (eval b <=? eval a).
Proof.
  intros (Hla & Hwa & _) (Hlb & Hwb & _). unfold uge.
  rewrite limbs_cmp_spec by (auto; congruence). rewrite Z.leb_antisym. unfold Z.ltb.
  destruct (eval a ?= eval b); reflexivity.
Qed.
Lemma ule_spec bits a b : canon bits a -> canon bits b -> ule a b = (eval a <=? eval b).
Proof.
  intros (Hla & Hwa & _) (Hlb & Hwb & _). unfold ule.
  rewrite limbs_cmp_spec by (auto; congruence). unfold Z.leb.
  destruct (eval a ?= eval b); reflexivity.
Qed.
Lemma ugt_spec bits a b : canon bits a -> canon bits b -> ugt a b = (eval b <? eval a).
Proof.
  intros (Hla & Hwa & _) (Hlb & Hwb & _). unfold ugt.
  rewrite limbs_cmp_spec by (auto; congruence). rewrite Z.ltb_antisym. unfold Z.leb.
  destruct (eval a ?= eval b); reflexivity.
Qed.

Lemma canon_uONE bits : 0 < bits -> canon bits (uONE bits) /\ eval (uONE bits) = 1.
Proof.
  intros H. unfold uONE. destruct (Z.eqb_spec bits 0); [lia|].
  unfold uZERO, zero_limbs, canon.
  pose proof (nlimbs_pos bits H) as Hp.
  assert (E : nlimbsN bits = S (Z.to_nat (nlimbs bits - 1))) by (unfold nlimbsN; lia).
  rewrite E. cbn [repeat length eval]. rewrite repeat_length, eval_repeat0.
  repeat split; try lia.
  - constructor; [unfold inW; pose proof B_pos; rewrite B_val; lia | apply Forall_inW_repeat0].
  - assert (2 ^ 1 <= 2 ^ bits) by (apply Z.pow_le_mono_r; lia). lia.
Qed.

Lemma zeros_canonish n : Forall inW (repeat 0 n) /\ eval (repeat 0 n) = 0.
Proof. split; [apply Forall_inW_repeat0 | apply eval_repeat0]. Qed.

(* nlimbs(2*BITS) <= 2*nlimbs(BITS), and 2^(2*BITS) <= B^nlimbs(2*BITS) *)
Lemma nlimbs_double bits : 0 <= bits -> nlimbs (2 * bits) <= 2 * nlimbs bits.
Proof. intros H. unfold nlimbs. Z.div_mod_to_equations. lia. Qed.
Lemma pow_bits_le_limbs bits : 0 <= bits -> 2 ^ bits <= B ^ nlimbs bits.
Proof.
  intros H. rewrite B_pow, <- Z.pow_mul_r by (try apply nlimbs_nonneg; lia).
  apply Z.pow_le_mono_r; [lia|]. unfold nlimbs. Z.div_mod_to_equations. lia.
Qed.

Section WithDiv.
  Hypothesis HD : DivKernelOK.

  (* the remainder slot of algorithms::div, when the divisor slot is a Uint: the canonical
     Uint of (n mod m) *)
  Lemma div_kernel_rem bits n m :
    0 <= bits -> Forall inW n -> canon bits m -> eval m <> 0 ->
    exists q, div_kernel n m = Val (q, uint_of bits (eval n mod eval m)) /\
              length q = length n /\ Forall inW q /\ eval q = eval n / eval m.
  Proof.
    intros Hb Hn Hm Hnz. pose proof (canon_range bits m Hb Hm) as Hmr.
    destruct Hm as (Hlm & Hwm & Hltm).
    destruct (HD n m Hn Hwm Hnz) as (q & r & E & Hlq & Hlr & Hwq & Hwr & Eq & Er).
    exists q. split; [|auto]. rewrite E. do 2 f_equal.
    apply uint_of_unique; [|exact Er].
    split; [congruence|]. split; [exact Hwr|]. rewrite Er.
    pose proof (Z.mod_pos_bound (eval n) (eval m)). lia.
  Qed.

  Lemma wrapping_rem_eq bits a m :
    0 <= bits -> canon bits a -> canon bits m -> eval m <> 0 ->
    wrapping_rem a m = Val (uint_of bits (eval a mod eval m)).
  Proof.
    intros Hb (_ & Ha & _) Hm Hnz. unfold wrapping_rem, div_rem.
    destruct (div_kernel_rem bits a m Hb Ha Hm Hnz) as (q & E & _). rewrite E. reflexivity.
  Qed.

  Lemma wrapping_div_eq bits a m :
    0 <= bits -> canon bits a -> canon bits m -> eval m <> 0 ->
    wrapping_div a m = Val (uint_of bits (eval a / eval m)).
  Proof.
    intros Hb Hca Hm Hnz. pose proof (canon_range bits a Hb Hca) as Har.
    pose proof (canon_range bits m Hb Hm) as Hmr.
    destruct Hca as (Hla & Ha & Hlta). unfold wrapping_div, div_rem.
    destruct (div_kernel_rem bits a m Hb Ha Hm Hnz) as (q & E & Hlq & Hwq & Eq). rewrite E.
    cbn [obind fst]. do 2 f_equal. apply uint_of_unique; [|exact Eq].
    split; [congruence|]. split; [exact Hwq|]. rewrite Eq.
    assert (eval a / eval m <= eval a) by (apply Z.div_le_upper_bound; nia). lia.
  Qed.

  (* the value a Uint denotes after reduction, with the crate's m = 0 convention *)
  Definition zmod (v m : Z) : Z := if m =? 0 then 0 else v mod m.

  Lemma zmod_range v m : 0 <= m -> 0 <= zmod v m /\ (m <> 0 -> zmod v m < m).
  Proof.
    intros H. unfold zmod. destruct (Z.eqb_spec m 0); [lia|].
    pose proof (Z.mod_pos_bound v m). lia.
  Qed.

  Lemma canon_uint_of_small bits v : 0 <= bits -> 0 <= v < 2 ^ bits ->
    canon bits (uint_of bits v) /\ eval (uint_of bits v) = v.
  Proof.
    intros Hb Hv. unfold uint_of, canon.
    rewrite to_limbs_length, eval_to_limbs, nlimbsN_Z by lia.
    pose proof (pow_bits_le_limbs bits Hb).
    rewrite Z.mod_small by lia. repeat split; try lia. apply to_limbs_inW.
  Qed.

  Lemma reduce_mod_eq bits a m :
    0 <= bits -> canon bits a -> canon bits m ->
    reduce_mod bits a m = Val (uint_of bits (zmod (eval a) (eval m))).
  Proof.
    intros Hb Ha Hm. unfold reduce_mod, zmod. rewrite (is_zero_spec bits m Hm).
    pose proof (canon_range bits a Hb Ha) as Har. pose proof (canon_range bits m Hb Hm) as Hmr.
    destruct (Z.eqb_spec (eval m) 0) as [E0|N0].
    - f_equal. destruct (canon_uZERO bits Hb) as [Hz Hz0]. apply uint_of_unique; auto.
    - rewrite (uge_spec bits a m Ha Hm).
      destruct (Z.leb_spec (eval m) (eval a)).
      + now apply wrapping_rem_eq.
      + f_equal. rewrite Z.mod_small by lia. symmetry. now apply canon_uint_of.
  Qed.

  Lemma add_mod_eq bits a b m :
    0 <= bits -> canon bits a -> canon bits b -> canon bits m ->
    add_mod bits a b m = Val (uint_of bits (zmod (eval a + eval b) (eval m))).
  Proof.
    intros Hb Ha Hbb Hm. unfold add_mod.
    rewrite !reduce_mod_eq by auto. cbn [obind].
    pose proof (canon_range bits m Hb Hm) as Hmr.
    set (x := zmod (eval a) (eval m)). set (y := zmod (eval b) (eval m)).
    destruct (zmod_range (eval a) (eval m) ltac:(lia)) as [Hx0 Hx1].
    destruct (zmod_range (eval b) (eval m) ltac:(lia)) as [Hy0 Hy1].
    fold x in Hx0, Hx1. fold y in Hy0, Hy1.
    assert (Hxr : 0 <= x < 2 ^ bits).
    { unfold x, zmod in *. destruct (Z.eqb_spec (eval m) 0); lia. }
    assert (Hyr : 0 <= y < 2 ^ bits).
    { unfold y, zmod in *. destruct (Z.eqb_spec (eval m) 0); lia. }
    destruct (canon_uint_of_small bits x Hb Hxr) as [Hcx Hex].
    destruct (canon_uint_of_small bits y Hb Hyr) as [Hcy Hey].
    rewrite add_eq by auto. rewrite Hex, Hey.
    assert (Hsr : 0 <= (x + y) mod 2 ^ bits < 2 ^ bits) by (apply Z.mod_pos_bound; lia).
    destruct (canon_uint_of_small bits _ Hb Hsr) as [Hcs Hes].
    rewrite (uge_spec bits _ m Hcs Hm), Hes.
    (* the integer fact *)
    assert (Hsum : zmod (eval a + eval b) (eval m) =
                   if (2 ^ bits <=? x + y) || (eval m <=? (x + y) mod 2 ^ bits)
                   then ((x + y) mod 2 ^ bits - eval m) mod 2 ^ bits
                   else (x + y) mod 2 ^ bits).
    { unfold x, y, zmod in *. destruct (Z.eqb_spec (eval m) 0) as [E0|N0].
      - rewrite E0, Z.add_0_l, Z.mod_0_l by lia. replace (0 - 0) with 0 by reflexivity.
        rewrite Z.mod_0_l by lia. destruct (_ || _); reflexivity.
      - specialize (Hx1 N0). specialize (Hy1 N0).
        rewrite Z.add_mod by lia.
        set (x' := eval a mod eval m) in *. set (y' := eval b mod eval m) in *.
        destruct (Z.leb_spec (2 ^ bits) (x' + y')) as [Hov|Hno]; cbn [orb].
        + (* overflowed BITS: x'+y' - 2^bits + 2^bits - m *)
          assert (E1 : (x' + y') mod 2 ^ bits = x' + y' - 2 ^ bits).
          { symmetry. apply Z.mod_unique with 1; lia. }
          rewrite E1.
          assert (E2 : (x' + y' - 2 ^ bits - eval m) mod 2 ^ bits = x' + y' - eval m).
          { symmetry. apply Z.mod_unique with (-1); lia. }
          rewrite E2. symmetry. apply Z.mod_unique with 1; lia.
        + rewrite (Z.mod_small (x' + y') (2 ^ bits)) by lia.
          destruct (Z.leb_spec (eval m) (x' + y')).
          * rewrite (Z.mod_small (x' + y' - eval m)) by lia.
            symmetry. apply Z.mod_unique with 1; lia.
          * apply Z.mod_small; lia. }
    rewrite Hsum.
    destruct ((2 ^ bits <=? x + y) || (eval m <=? (x + y) mod 2 ^ bits)).
    - f_equal. unfold wrapping_sub. rewrite sub_eq by auto. cbn [fst]. rewrite Hes. reflexivity.
    - reflexivity.
  Qed.

  Lemma mul_mod_eq bits a b m :
    0 <= bits -> canon bits a -> canon bits b -> canon bits m ->
    mul_mod bits a b m = Val (uint_of bits (zmod (eval a * eval b) (eval m))).
  Proof.
    intros Hb Ha Hbb Hm. unfold mul_mod, zmod. rewrite (is_zero_spec bits m Hm).
    pose proof (canon_range bits a Hb Ha) as Har. pose proof (canon_range bits b Hb Hbb) as Hbr.
    destruct (Z.eqb_spec (eval m) 0) as [E0|N0].
    - f_equal. destruct (canon_uZERO bits Hb) as [Hz Hz0]. apply uint_of_unique; auto.
    - pose proof (nlimbs_double bits Hb) as Hd.
      destruct (Z.ltb_spec (2 * nlimbs bits) (nlimbs (2 * bits))); [lia|].
      set (n := Z.to_nat (nlimbs (2 * bits))).
      destruct Ha as (Hla & Hwa & _). destruct Hbb as (Hlb & Hwb & _).
      pose proof (addmul_spec (repeat 0 n) a b (Forall_inW_repeat0 n) Hwa Hwb) as S.
      destruct (addmul (repeat 0 n) a b) as [l' f].
      rewrite repeat_length, eval_repeat0 in S. cbn zeta in S.
      destruct S as (Hll & Hwl & Hel & Hf).
      assert (Hn : Z.of_nat n = nlimbs (2 * bits)).
      { unfold n. rewrite Z2Nat.id; [reflexivity|]. apply nlimbs_nonneg. lia. }
      rewrite Hn in *.
      pose proof (pow_bits_le_limbs (2 * bits) ltac:(lia)) as Hpw.
      assert (Hprod : 0 <= eval a * eval b < 2 ^ (2 * bits)).
      { replace (2 * bits) with (bits + bits) by lia. rewrite Z.pow_add_r by lia. nia. }
      rewrite Z.add_0_l in *.
      destruct (Z.leb_spec (B ^ nlimbs (2 * bits)) (eval a * eval b)); [lia|]. subst f.
      rewrite Z.mod_small in Hel by lia.
      destruct (div_kernel_rem bits l' m Hb Hwl Hm N0) as (q & E & _).
      rewrite E. cbn [obind snd]. rewrite Hel. reflexivity.
  Qed.

  (* ---------- pow_mod ---------- *)
  Lemma low_bit_spec bits e : 0 < bits -> canon bits e -> Z.land (nth 0 e 0) 1 = eval e mod 2.
  Proof.
    intros Hb (Hl & Hw & _). pose proof (nlimbs_pos bits Hb).
    destruct e as [|x t]; [unfold nlimbsN in Hl; cbn [length] in Hl; lia|].
    cbn [nth eval]. pose proof (land_ones_mod x 1 ltac:(lia)) as L.
    change (2 ^ 1 - 1) with 1 in L. change (2 ^ 1) with 2 in L. rewrite L.
    rewrite B_val. replace (18446744073709551616 * eval t) with ((9223372036854775808 * eval t) * 2) by ring.
    now rewrite Z.mod_add by lia.
  Qed.

  Lemma pow_step_arith R Bs E M : 0 < M -> 0 < E ->
    ((if E mod 2 =? 1 then (R * Bs) mod M else R) * ((Bs * Bs) mod M) ^ (E / 2)) mod M
    = (R * Bs ^ E) mod M.
  Proof.
    intros HM HE. pose proof (Z.div_mod E 2 ltac:(lia)) as D.
    pose proof (Z.mod_pos_bound E 2 ltac:(lia)) as Hr.
    assert (Hq : 0 <= E / 2) by (apply Z.div_pos; lia).
    rewrite Z.mul_mod, <- (Zpower_mod (Bs * Bs)) by lia.
    rewrite <- (Z.mul_mod _ ((Bs * Bs) ^ (E / 2))) by lia.
    assert (P2 : (Bs * Bs) ^ (E / 2) = Bs ^ (2 * (E / 2))).
    { rewrite Z.pow_mul_r by lia. f_equal. change 2 with (1 + 1) at 1. rewrite Z.pow_add_r, Z.pow_1_r; lia. }
    rewrite P2.
    assert (HE' : Bs ^ E = Bs ^ (2 * (E / 2)) * Bs ^ (E mod 2)).
    { rewrite <- Z.pow_add_r by lia. f_equal. lia. }
    rewrite HE'.
    destruct (Z.eqb_spec (E mod 2) 1) as [Odd|Even].
    - rewrite Z.mul_mod_idemp_l by lia.
      rewrite Odd, Z.pow_1_r. f_equal. ring.
    - assert (E0 : E mod 2 = 0) by lia. rewrite E0, Z.pow_0_r. f_equal. ring.
  Qed.

  Lemma pow_loop_S f bits result base e m :
    pow_loop (S f) bits result base e m =
    if ugt e (uZERO bits) then
      do result' <- (if Z.land (nth 0 e 0) 1 =? 1 then mul_mod bits result base m else Val result) ;
      do base' <- mul_mod bits base base m ;
      pow_loop f bits result' base' (shr_prim bits e 1) m
    else Val result.
  Proof. reflexivity. Qed.

  Lemma pow_loop_eq bits m : 0 < bits -> canon bits m -> 2 <= eval m ->
    forall f result base e,
      canon bits result -> canon bits base -> canon bits e ->
      eval result < eval m -> eval e < 2 ^ Z.of_nat f ->
      pow_loop (S f) bits result base e m =
      Val (uint_of bits ((eval result * eval base ^ eval e) mod eval m)).
  Proof.
    intros Hb Hm HM. assert (Hb0 : 0 <= bits) by lia.
    destruct (canon_uZERO bits Hb0) as [Hz Hz0].
    pose proof (canon_range bits m Hb0 Hm) as Hmr.
    induction f as [|f IH]; intros result base e Hr Hbs He Hlt Hfu;
      pose proof (canon_range bits result Hb0 Hr) as Hrr;
      pose proof (canon_range bits e Hb0 He) as Her;
      rewrite pow_loop_S, (ugt_spec bits e _ He Hz), Hz0.
    - (* no fuel left beyond this test: e = 0 *)
      change (2 ^ Z.of_nat 0) with 1 in Hfu. assert (E0 : eval e = 0) by lia.
      destruct (Z.ltb_spec 0 (eval e)); [lia|].
      rewrite E0, Z.pow_0_r, Z.mul_1_r, Z.mod_small by lia. f_equal. symmetry. now apply canon_uint_of.
    - destruct (Z.ltb_spec 0 (eval e)) as [Hpos|Hnp].
      + rewrite (low_bit_spec bits e Hb He).
        (* result' *)
        assert (Hres : (if eval e mod 2 =? 1 then mul_mod bits result base m else Val result)
                       = Val (uint_of bits (if eval e mod 2 =? 1
                                            then (eval result * eval base) mod eval m
                                            else eval result))).
        { destruct (eval e mod 2 =? 1).
          - rewrite mul_mod_eq by auto. unfold zmod. destruct (Z.eqb_spec (eval m) 0); [lia|reflexivity].
          - f_equal. symmetry. now apply canon_uint_of. }
        rewrite Hres. cbn [obind]. rewrite mul_mod_eq by auto. cbn [obind].
        unfold zmod. destruct (Z.eqb_spec (eval m) 0); [lia|].
        set (R' := if eval e mod 2 =? 1 then (eval result * eval base) mod eval m else eval result).
        set (B' := (eval base * eval base) mod eval m).
        assert (HR' : 0 <= R' < eval m).
        { unfold R'. destruct (eval e mod 2 =? 1); [apply Z.mod_pos_bound|]; lia. }
        assert (HB' : 0 <= B' < eval m) by (apply Z.mod_pos_bound; lia).
        destruct (canon_uint_of_small bits R' Hb0 ltac:(lia)) as [HcR HeR].
        destruct (canon_uint_of_small bits B' Hb0 ltac:(lia)) as [HcB HeB].
        destruct (wrapping_shr_spec bits e 1 Hb0 He ltac:(lia)) as [Hce Hee].
        change (2 ^ 1) with 2 in Hee. unfold shr_prim.
        rewrite IH; auto; try lia.
        * rewrite HeR, HeB, Hee. unfold R', B'. now rewrite pow_step_arith by lia.
        * rewrite Hee. rewrite Nat2Z.inj_succ, Z.pow_succ_r in Hfu by lia.
          apply Z.div_lt_upper_bound; lia.
      + assert (E0 : eval e = 0) by lia.
        rewrite E0, Z.pow_0_r, Z.mul_1_r, Z.mod_small by lia. f_equal. symmetry. now apply canon_uint_of.
  Qed.

  Lemma pow_mod_eq bits a e m :
    0 <= bits -> canon bits a -> canon bits e -> canon bits m ->
    pow_mod bits a e m = Val (uint_of bits (zmod (eval a ^ eval e) (eval m))).
  Proof.
    intros Hb Ha He Hm. unfold pow_mod.
    destruct (canon_uZERO bits Hb) as [Hz Hz0].
    pose proof (canon_range bits m Hb Hm) as Hmr. pose proof (canon_range bits e Hb He) as Her.
    destruct (Z.eqb_spec bits 0) as [B0|BN]; cbn [orb].
    - subst bits. change (2 ^ 0) with 1 in Hmr. unfold zmod.
      destruct (Z.eqb_spec (eval m) 0); [|lia]. f_equal; try (apply uint_of_unique; auto).
    - assert (Hbp : 0 < bits) by lia. destruct (canon_uONE bits Hbp) as [Ho Ho1].
      rewrite (ule_spec bits m _ Hm Ho), Ho1.
      destruct (Z.leb_spec (eval m) 1) as [Hle|Hgt].
      + f_equal. apply uint_of_unique; auto. rewrite Hz0. unfold zmod.
        destruct (Z.eqb_spec (eval m) 0); [reflexivity|].
        assert (E1 : eval m = 1) by lia. rewrite E1. now rewrite Z.mod_1_r.
      + rewrite (pow_loop_eq bits m Hbp Hm ltac:(lia)); auto; try lia.
        * rewrite Ho1, Z.mul_1_l. unfold zmod. destruct (Z.eqb_spec (eval m) 0); [lia|reflexivity].
        * rewrite Z2Nat.id by lia. lia.
  Qed.
End WithDiv.

(* ---------- the specification's square-and-multiply equals Z.pow mod ---------- *)
