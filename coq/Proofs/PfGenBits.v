(* Proofs/PfGenBits.v — translated bit, set_bit, not, count_ones, count_zeros (src/bits.rs) and
   is_power_of_two (src/special.rs) equal the functions of Model/Bits.v. *)
From Coq Require Import Lia ZifyBool.
From RV.Model Require Import Base Word Bits.
From RV.Gen Require Import Prim Scalar.
From RV.Proofs Require Import BaseFacts PfGenScalar PfGenAdd.

Lemma idx_index (a : list Z) i : 0 <= i -> idx a i = index a i.
Proof.
  intros H. unfold idx, index, lenZ.
  destruct (Z.ltb_spec i 0); [lia|]. cbn [orb].
  destruct (Z.leb_spec (Z.of_nat (length a)) i) as [Hge|Hlt]; [|reflexivity].
  rewrite (proj2 (nth_error_None a (Z.to_nat i))) by lia. reflexivity.
Qed.

Lemma chksh64_mod i : 0 <= i -> chksh 64 (i mod 64) = Val (i mod 64).
Proof. intros H. apply chksh_ok. pose proof (Z.mod_pos_bound i 64). lia. Qed.

Lemma g_bit_eq bits limbs a i : 0 <= i -> g_bit bits limbs a i = bit bits a i.
Proof.
  intros H. unfold g_bit, bit. destruct (bits <=? i); [reflexivity|]. cbv beta iota.
  rewrite idx_index by (apply Z.div_pos; lia).
  destruct (index a (i / 64)) as [x| | | |]; cbn [obind]; try reflexivity.
  rewrite chksh64_mod by assumption. reflexivity.
Qed.

(* read-modify-write of one limb = Bits.update *)
Lemma upd_nat_spec f : forall (a : list Z) n,
  upd_nat n f a = match nth_error a n with
                  | Some x => Val (firstn n a ++ f x :: skipn (S n) a)
                  | None => Panic end.
Proof.
  induction a as [|y a IH]; intros [|n]; cbn [upd_nat nth_error firstn skipn app]; try reflexivity.
  rewrite IH. destruct (nth_error a n); reflexivity.
Qed.

Lemma rmw_update (a : list Z) i (f : Z -> Z) : 0 <= i ->
  (do x <- idx a i ; do _ <- idx a i ; Val (upd a i (f x))) = update a i f.
Proof.
  intros H. unfold update, lenZ. destruct (Z.ltb_spec i 0); [lia|]. cbn [orb].
  rewrite upd_nat_spec. unfold idx, upd.
  destruct (Z.leb_spec (Z.of_nat (length a)) i) as [Hge|Hlt].
  - rewrite (proj2 (nth_error_None a (Z.to_nat i))) by lia. reflexivity.
  - destruct (nth_error a (Z.to_nat i)) as [x|]; reflexivity.
Qed.

Lemma g_set_bit_eq bits limbs a i v : 0 <= i -> g_set_bit bits limbs a i v = set_bit bits a i v.
Proof.
  intros H. unfold g_set_bit, set_bit. destruct (bits <=? i); [reflexivity|]. cbv beta iota.
  assert (Hq : 0 <= i / 64) by (apply Z.div_pos; lia).
  destruct v.
  - rewrite <- (rmw_update a (i / 64) (fun x => Z.lor x (shl64 1 (i mod 64)))) by assumption.
    destruct (idx a (i / 64)) as [x| | | |]; cbn [obind]; try reflexivity.
    rewrite chksh64_mod by assumption. reflexivity.
  - rewrite <- (rmw_update a (i / 64) (fun x => Z.land x (not64 (shl64 1 (i mod 64))))) by assumption.
    destruct (idx a (i / 64)) as [x| | | |]; cbn [obind]; try reflexivity.
    rewrite chksh64_mod by assumption. reflexivity.
Qed.

(* the per-limb map loop of `not` *)
Definition nbody (i : Z) (self : list Z) : outcome (list Z) :=
  do t_2 <- idx self i ; let t_1 := B - 1 - t_2 in do _ <- idx self i ; let self := upd self i t_1 in Val self.

Lemma for_loop_map a : forall pre,
  for_loop (length a) (Z.of_nat (length pre)) (pre ++ a) nbody = Val (pre ++ map not64 a).
Proof.
  induction a as [|x a IH]; intros pre; cbn [length for_loop map].
  - reflexivity.
  - unfold nbody at 1. rewrite idx_app_mid. cbn [obind]. cbv zeta. rewrite upd_app_mid. cbn [obind].
    replace (pre ++ (B - 1 - x) :: a) with ((pre ++ [B - 1 - x]) ++ a) by (rewrite <- app_assoc; reflexivity).
    replace (Z.of_nat (length pre) + 1) with (Z.of_nat (length (pre ++ [B - 1 - x])))
      by (rewrite app_length; cbn [length]; lia).
    rewrite IH. rewrite <- app_assoc. reflexivity.
Qed.

Lemma g_not_eq bits a :
  0 <= bits -> nlimbs bits <= B -> length a = nlimbsN bits ->
  g_not bits (nlimbs bits) a = Val (unot bits a).
Proof.
  intros H0 HB Ha. unfold g_not, unot. destruct (bits =? 0); [reflexivity|].
  pose proof (nlimbs_len bits a H0 Ha) as HL.
  unfold for_range. rewrite Z.sub_0_r, <- HL, Nat2Z.id.
  match goal with |- context [for_loop ?n ?i ?st ?f] =>
    change (for_loop n i st f) with (for_loop n i st nbody) end.
  pose proof (for_loop_map a []) as Hloop. cbn [app length Z.of_nat] in Hloop. rewrite Hloop. cbn [obind].
  rewrite HL, g_masked_eq by (try assumption; rewrite map_length; assumption). reflexivity.
Qed.

(* count_ones *)
Lemma popcnt_fuel_bound n : forall x, 0 <= popcnt_fuel n x <= Z.of_nat n.
Proof.
  induction n as [|n IH]; intros x; cbn [popcnt_fuel]; [lia|].
  pose proof (IH (x / 2)). pose proof (Z.mod_pos_bound x 2). lia.
Qed.
Lemma popcnt64_bound x : 0 <= popcnt64 x <= 64.
Proof. unfold popcnt64. pose proof (popcnt_fuel_bound 64 x). lia. Qed.

Definition cbody (self : list Z) (i : Z) (total : Z) : outcome Z :=
  do t_1 <- idx self i ; do t_2 <- chk64 (total + popcnt64 t_1) ; let total := t_2 in Val total.

Lemma for_loop_count a : forall pre total,
  0 <= total -> total + 64 * Z.of_nat (length a) < B ->
  for_loop (length a) (Z.of_nat (length pre)) total (cbody (pre ++ a))
  = Val (fold_left (fun t x => t + popcnt64 x) a total).
Proof.
  induction a as [|x a IH]; intros pre total Ht Hb; cbn [length for_loop fold_left].
  - reflexivity.
  - unfold cbody at 1. rewrite idx_app_mid. cbn [obind].
    pose proof (popcnt64_bound x). cbn [length] in Hb.
    rewrite chk64_ok by lia. cbn [obind].
    replace (pre ++ x :: a) with ((pre ++ [x]) ++ a) by (rewrite <- app_assoc; reflexivity).
    replace (Z.of_nat (length pre) + 1) with (Z.of_nat (length (pre ++ [x])))
      by (rewrite app_length; cbn [length]; lia).
    apply IH; lia.
Qed.

Lemma g_count_ones_eq bits a :
  0 <= bits -> 64 * nlimbs bits < B -> length a = nlimbsN bits ->
  g_count_ones bits (nlimbs bits) a = Val (count_ones a).
Proof.
  intros H0 HB Ha. unfold g_count_ones, count_ones.
  pose proof (nlimbs_len bits a H0 Ha) as HL.
  unfold for_range. rewrite Z.sub_0_r, <- HL, Nat2Z.id.
  match goal with |- context [for_loop ?n ?i ?st ?f] =>
    change (for_loop n i st f) with (for_loop n i st (cbody a)) end.
  pose proof (for_loop_count a [] 0 ltac:(lia) ltac:(lia)) as Hloop.
  cbn [app length Z.of_nat] in Hloop. rewrite Hloop. reflexivity.
Qed.

Lemma count_ones_bound a : 0 <= count_ones a <= 64 * Z.of_nat (length a).
Proof.
  unfold count_ones.
  assert (G : forall l t, t <= fold_left (fun t x => t + popcnt64 x) l t <= t + 64 * Z.of_nat (length l)).
  { induction l as [|x l IH]; intros t; cbn [fold_left length]; [lia|].
    pose proof (popcnt64_bound x). pose proof (IH (t + popcnt64 x)). lia. }
  pose proof (G a 0). lia.
Qed.

Lemma g_count_zeros_eq bits a :
  0 <= bits -> bits < B -> 64 * nlimbs bits < B -> length a = nlimbsN bits ->
  g_count_zeros bits (nlimbs bits) a = count_zeros bits a.
Proof.
  intros H0 H1 HB Ha. unfold g_count_zeros, count_zeros, usub.
  rewrite g_count_ones_eq by assumption. cbn [obind]. pose proof (count_ones_bound a).
  unfold chk64.
  destruct (Z.ltb_spec bits (count_ones a)).
  - assert (E : (0 <=? bits - count_ones a) = false) by lia. rewrite E. reflexivity.
  - assert (E : (0 <=? bits - count_ones a) && (bits - count_ones a <? B) = true) by lia. rewrite E. reflexivity.
Qed.

Lemma g_is_power_of_two_eq bits a :
  0 <= bits -> 64 * nlimbs bits < B -> length a = nlimbsN bits ->
  g_is_power_of_two bits (nlimbs bits) a = Val (is_power_of_two a).
Proof. intros. unfold g_is_power_of_two, is_power_of_two. rewrite g_count_ones_eq by assumption. reflexivity. Qed.
