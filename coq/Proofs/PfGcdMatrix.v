(* Proofs/PfGcdMatrix.v — LehmerMatrix::from_u64 (complete extended Euclid on words),
   from_u64_prefix (cofactor invariants of the Euclid sequence on 64-bit prefixes, SWAR packing,
   Jebelean's exit tests), from_u128_prefix and from: discharge of PfGcd.LehmerStepOK. *)
From Coq Require Import ZArith Znumtheory List Bool Lia.
From RV.Model Require Import Base Word Limbs GcdMatrix.
From RV.Model Require Add Conv Shift Div.
From RV.Proofs Require Import BaseFacts PfLimbs PfAdd PfC01 PfConv PfShift PfGcdUint PfGcd.
From RV.Run Require Import RunC12.
Import ListNotations.
Local Open Scope Z_scope.

(* ---------- checked word arithmetic ---------- *)
Lemma cadd_ok x y : x + y < B -> cadd x y = Val (x + y).
Proof. intros. unfold cadd. destruct (Z.ltb_spec (x + y) B); [reflexivity | lia]. Qed.
Lemma csub_ok x y : y <= x -> csub x y = Val (x - y).
Proof. intros. unfold csub. destruct (Z.ltb_spec x y); [lia | reflexivity]. Qed.
Lemma cmul_ok x y : x * y < B -> cmul x y = Val (x * y).
Proof. intros. unfold cmul. destruct (Z.ltb_spec (x * y) B); [reflexivity | lia]. Qed.
Lemma cdiv_ok x y : y <> 0 -> cdiv x y = Val (x / y).
Proof. intros. unfold cdiv. destruct (Z.eqb_spec y 0); [contradiction | reflexivity]. Qed.

(* q = r / s; r' = r - q * s; k' = k + q * l *)
Lemma euclid_half_ok r s k l :
  0 < s -> 0 <= r < B -> 0 <= k -> 0 <= l -> k + (r / s) * l < B ->
  euclid_half r s k l = Val (r mod s, k + (r / s) * l).
Proof.
  intros Hs Hr Hk Hl Hb. unfold euclid_half.
  pose proof (Z.div_mod r s ltac:(lia)) as Hdm. pose proof (Z.mod_pos_bound r s Hs) as Hm.
  assert (Hq : 0 <= r / s) by (apply Z.div_pos; lia).
  rewrite cdiv_ok by lia. cbn [obind].
  rewrite cmul_ok by nia. cbn [obind]. rewrite csub_ok by nia. cbn [obind].
  rewrite cmul_ok by nia. cbn [obind]. rewrite cadd_ok by lia. cbn [obind].
  do 2 f_equal. lia.
Qed.
Lemma euclid_half2_ok r s k l k2 l2 :
  0 < s -> 0 <= r < B -> 0 <= k -> 0 <= l -> 0 <= k2 -> 0 <= l2 ->
  k + (r / s) * l < B -> k2 + (r / s) * l2 < B ->
  euclid_half2 r s k l k2 l2 = Val (r mod s, k + (r / s) * l, k2 + (r / s) * l2).
Proof.
  intros Hs Hr Hk Hl Hk2 Hl2 Hb Hb2. unfold euclid_half2.
  pose proof (Z.div_mod r s ltac:(lia)) as Hdm. pose proof (Z.mod_pos_bound r s Hs) as Hm.
  assert (Hq : 0 <= r / s) by (apply Z.div_pos; lia).
  rewrite cdiv_ok by lia. cbn [obind].
  rewrite cmul_ok by nia. cbn [obind]. rewrite csub_ok by nia. cbn [obind].
  rewrite cmul_ok by nia. cbn [obind]. rewrite cadd_ok by lia. cbn [obind].
  rewrite cmul_ok by nia. cbn [obind]. rewrite cadd_ok by lia. cbn [obind].
  do 3 f_equal. lia.
Qed.

(* ---------- from_u64 ---------- *)
Definition le_all (m : mat) (R : Z) : Prop :=
  0 <= m0 m <= R /\ 0 <= m1 m <= R /\ 0 <= m2 m <= R /\ 0 <= m3 m <= R.

Lemma inv_rel a b c d R0 R1 x y :
  x = a * R0 - b * R1 -> y = d * R1 - c * R0 -> a * d - b * c = 1 ->
  R0 = d * x + b * y /\ R1 = c * x + a * y.
Proof.
  intros -> -> D. split.
  - transitivity ((a * d - b * c) * R0); [rewrite D; ring | ring].
  - transitivity ((a * d - b * c) * R1); [rewrite D; ring | ring].
Qed.
Lemma step_rel a b c d R0 R1 x y q :
  x = a * R0 - b * R1 -> y = d * R1 - c * R0 -> a * d - b * c = 1 ->
  x - q * y = (a + q * c) * R0 - (b + q * d) * R1 /\ (a + q * c) * d - (b + q * d) * c = 1.
Proof. intros -> -> D. split; [ring | rewrite <- D; ring]. Qed.
Lemma step_rel' a b c d R0 R1 x y q :
  x = a * R0 - b * R1 -> y = d * R1 - c * R0 -> a * d - b * c = 1 ->
  y - q * x = (d + q * b) * R1 - (c + q * a) * R0 /\ a * (d + q * b) - b * (c + q * a) = 1.
Proof. intros -> -> D. split; [ring | rewrite <- D; ring]. Qed.
Lemma le_of_sum R u x v y : R = u * x + v * y -> 0 <= u -> 0 <= x -> 0 <= v -> 1 <= y -> v <= R.
Proof. intros -> Hu Hx Hv Hy. nia. Qed.
Lemma le_of_sum' R u x v y : R = u * x + v * y -> 0 <= v -> 0 <= y -> 0 <= u -> 1 <= x -> u <= R.
Proof. intros -> Hu Hx Hv Hy. nia. Qed.

Lemma nn_add_mul a q c : 0 <= a -> 0 <= q -> 0 <= c -> 0 <= a + q * c.
Proof. intros. nia. Qed.
Lemma le_add_mul a q c : 0 <= a -> 1 <= q -> 0 <= c -> c <= a + q * c.
Proof. intros. nia. Qed.
Lemma half_lt r0 r1 q r0' P : r0 = r1 * q + r0' -> 1 <= q -> 0 <= r0' < r1 -> r0 < 2 * P -> r0' < P.
Proof. intros. nia. Qed.

Lemma from_u64_loop_spec R0 R1 : 0 < R1 <= R0 -> R0 < B -> forall fuel r0 r1 q00 q01 q10 q11,
  0 < r1 <= r0 -> r0 <= R0 -> r0 < 2 ^ Z.of_nat fuel ->
  0 <= q00 -> 0 <= q01 -> 0 <= q10 -> 0 <= q11 ->
  r0 = q00 * R0 - q01 * R1 -> r1 = q11 * R1 - q10 * R0 ->
  q00 * q11 - q01 * q10 = 1 -> Z.gcd r0 r1 = Z.gcd R0 R1 ->
  exists m, from_u64_loop fuel r0 r1 q00 q01 q10 q11 = Val m /\ le_all m R0 /\ unimod m /\
            zmap m R0 R1 = (Z.gcd R0 R1, 0).
Proof.
  intros HR HB. induction fuel as [|fuel IH]; intros r0 r1 q00 q01 q10 q11 Hr HrR Hf P00 P01 P10 P11 E0 E1 Det G.
  - cbn in Hf. lia.
  - cbn [from_u64_loop].
    set (q := r0 / r1). set (r0' := r0 mod r1).
    pose proof (Z.div_mod r0 r1 ltac:(lia)) as Hdm. pose proof (Z.mod_pos_bound r0 r1 ltac:(lia)) as Hm.
    fold q r0' in Hdm, Hm.
    assert (Hq : 1 <= q) by (apply Z.div_le_lower_bound; lia).
    assert (Hr0' : r0' = r0 - q * r1) by lia.
    set (q00' := q00 + q * q10). set (q01' := q01 + q * q11).
    destruct (step_rel _ _ _ _ _ _ _ _ q E0 E1 Det) as [E0' Det']. rewrite <- Hr0' in E0'.
    fold q00' q01' in E0', Det'.
    destruct (inv_rel _ _ _ _ _ _ _ _ E0' E1 Det') as [I0' I1'].
    assert (P00' : 0 <= q00') by (apply nn_add_mul; lia). assert (P01' : 0 <= q01') by (apply nn_add_mul; lia).
    assert (B01 : q01' <= R0) by (eapply (le_of_sum R0 q11 r0' q01' r1); eauto; lia).
    assert (B00 : q00' <= R1) by (eapply (le_of_sum R1 q10 r0' q00' r1); eauto; lia).
    assert (G' : Z.gcd r0' r1 = Z.gcd R0 R1).
    { subst r0'. rewrite Z.gcd_mod by lia. rewrite Z.gcd_comm. exact G. }
    rewrite (euclid_half2_ok r0 r1 q00 q10 q01 q11) by (fold q q00' q01'; lia). fold q r0' q00' q01'.
    cbn [obind].
    destruct (Z.eqb_spec r0' 0) as [Z0|NZ0].
    + assert (M0 : q10 <= q00') by (apply le_add_mul; lia). assert (M1 : q11 <= q01') by (apply le_add_mul; lia).
      eexists; split; [reflexivity|]. unfold le_all, unimod, zmap. cbn [m0 m1 m2 m3 m4]. split; [|split].
      * lia.
      * clear - Det' M0 M1. split; [lia | lia].
      * rewrite <- G', Z0, Z.gcd_0_l, Z.abs_eq by lia. f_equal; lia.
    + set (q' := r1 / r0'). set (r1' := r1 mod r0').
      pose proof (Z.div_mod r1 r0' ltac:(lia)) as Hdm'. pose proof (Z.mod_pos_bound r1 r0' ltac:(lia)) as Hm'.
      fold q' r1' in Hdm', Hm'.
      assert (Hq' : 1 <= q') by (apply Z.div_le_lower_bound; lia).
      assert (Hr1' : r1' = r1 - q' * r0') by lia.
      set (q10' := q10 + q' * q00'). set (q11' := q11 + q' * q01').
      destruct (step_rel' _ _ _ _ _ _ _ _ q' E0' E1 Det') as [E1' Det'']. rewrite <- Hr1' in E1'.
      fold q10' q11' in E1', Det''.
      destruct (inv_rel _ _ _ _ _ _ _ _ E0' E1' Det'') as [I0'' I1''].
      assert (P10' : 0 <= q10') by (apply nn_add_mul; lia). assert (P11' : 0 <= q11') by (apply nn_add_mul; lia).
      assert (B11 : q11' <= R0) by (eapply (le_of_sum' R0 q11' r0' q01' r1'); eauto; lia).
      assert (B10 : q10' <= R1) by (eapply (le_of_sum' R1 q10' r0' q00' r1'); eauto; lia).
      assert (G'' : Z.gcd r0' r1' = Z.gcd R0 R1).
      { subst r1'. rewrite (Z.gcd_comm r0'), Z.gcd_mod by lia. exact G'. }
      rewrite (euclid_half2_ok r1 r0' q10 q00' q11 q01') by (fold q' q10' q11'; lia).
      fold q' r1' q10' q11'. cbn [obind].
      destruct (Z.eqb_spec r1' 0) as [Z1|NZ1].
      * assert (M0 : q00' <= q10') by (apply le_add_mul; lia). assert (M1 : q01' <= q11') by (apply le_add_mul; lia).
        eexists; split; [reflexivity|]. unfold le_all, unimod, zmap. cbn [m0 m1 m2 m3 m4]. split; [|split].
        -- lia.
        -- split; [exact Det'' | lia].
        -- rewrite <- G'', Z1, Z.gcd_0_r, Z.abs_eq by lia. f_equal; lia.
      * apply IH; try assumption; try lia.
        rewrite Nat2Z.inj_succ, Z.pow_succ_r in Hf by lia.
        eapply (half_lt r0 r1 q r0'); eauto; lia.
Qed.

Theorem from_u64_spec R0 R1 :
  0 < R1 <= R0 -> R0 < B ->
  exists m, from_u64 R0 R1 = Val m /\ le_all m R0 /\ unimod m /\ zmap m R0 R1 = (Z.gcd R0 R1, 0).
Proof.
  intros HR HB. unfold from_u64.
  destruct (Z.ltb_spec R0 R1); [lia|]. destruct (Z.eqb_spec R1 0); [lia|].
  apply from_u64_loop_spec; try lia.
  rewrite B_val in HB. change (2 ^ Z.of_nat 70) with 1180591620717411303424. lia.
Qed.
Lemma from_u64_zero R0 : 0 <= R0 -> from_u64 R0 0 = Val IDENTITY.
Proof.
  intros. unfold from_u64. destruct (Z.ltb_spec R0 0); [lia | reflexivity].
Qed.

(* ---------- a valid pair of rows is a good step (pure integer facts) ---------- *)
Definition sg (e : bool) : Z := if e then 1 else -1.
Lemma sg_sq e : sg e * sg e = 1. Proof. destruct e; reflexivity. Qed.
Lemma sg_negb e : sg (negb e) = - sg e. Proof. destruct e; reflexivity. Qed.

Lemma gcd_unimod A Bv C D p q r s p' q' r' s' :
  C = p * A + q * Bv -> D = r * A + s * Bv -> A = p' * C + q' * D -> Bv = r' * C + s' * D ->
  Z.gcd C D = Z.gcd A Bv.
Proof.
  intros EC ED EA EB.
  apply Z.divide_antisym_nonneg; try apply Z.gcd_nonneg.
  - apply Z.gcd_greatest.
    + rewrite EA. apply Z.divide_add_r; apply Z.divide_mul_r;
        [apply Z.gcd_divide_l | apply Z.gcd_divide_r].
    + rewrite EB. apply Z.divide_add_r; apply Z.divide_mul_r;
        [apply Z.gcd_divide_l | apply Z.gcd_divide_r].
  - apply Z.gcd_greatest.
    + rewrite EC. apply Z.divide_add_r; apply Z.divide_mul_r;
        [apply Z.gcd_divide_l | apply Z.gcd_divide_r].
    + rewrite ED. apply Z.divide_add_r; apply Z.divide_mul_r;
        [apply Z.gcd_divide_l | apply Z.gcd_divide_r].
Qed.

(* the pair (C, D) a matrix with rows (u, v), (u', v') of determinant sg sgn produces *)
Lemma zmap_inverse sgn u v u' v' A Bv :
  u * v' - u' * v = sg sgn ->
  let '(C, D) := zmap (Mat u v u' v' sgn) A Bv in
  A = v' * C + v * D /\ Bv = u' * C + u * D.
Proof.
  intros Det. unfold zmap. cbn [m0 m1 m2 m3 m4]. destruct sgn; cbn [sg] in Det; split.
  - transitivity ((u * v' - u' * v) * A); [rewrite Det; ring | ring].
  - transitivity ((u * v' - u' * v) * Bv); [rewrite Det; ring | ring].
  - transitivity (- (u * v' - u' * v) * A); [rewrite Det; ring | ring].
  - transitivity (- (u * v' - u' * v) * Bv); [rewrite Det; ring | ring].
Qed.

Lemma good_arith A Bv C D u v u' v' :
  A = v' * C + v * D -> Bv = u' * C + u * D ->
  0 <= u -> 1 <= v -> 1 <= u' -> 1 <= v' -> 0 <= D -> D < C ->
  C <= A /\ D < Bv /\ 2 * (C * D) <= A * Bv.
Proof.
  intros EA EB Hu Hv Hu' Hv' HD HC.
  assert (A1 : C + D <= A) by nia.
  assert (B1 : C <= Bv) by nia.
  split; [lia|]. split; [lia|]. nia.
Qed.

Lemma good_of_rows sgn u v u' v' A Bv :
  u * v' - u' * v = sg sgn -> 0 <= u -> 1 <= v -> 1 <= u' -> 1 <= v' ->
  0 <= snd (zmap (Mat u v u' v' sgn) A Bv) < fst (zmap (Mat u v u' v' sgn) A Bv) ->
  good_step (Mat u v u' v' sgn) A Bv.
Proof.
  intros Det Hu Hv Hu' Hv' Hord. unfold good_step.
  pose proof (zmap_inverse sgn u v u' v' A Bv Det) as Hinv.
  destruct (zmap (Mat u v u' v' sgn) A Bv) as [C D] eqn:EZ. cbn [fst snd] in Hord.
  destruct Hinv as [EA EB].
  destruct (good_arith A Bv C D u v u' v' EA EB Hu Hv Hu' Hv' ltac:(lia) ltac:(lia)) as (G1 & G2 & G3).
  split; [lia|]. split; [exact G1|]. split; [exact G2|]. split; [exact G3|].
  unfold zmap in EZ. cbn [m0 m1 m2 m3 m4] in EZ.
  destruct sgn; inversion EZ; subst C D.
  - eapply (gcd_unimod A Bv _ _ u (- v) (- u') v' v' v u' u); try ring.
    + rewrite EA at 1. ring. + rewrite EB at 1. ring.
  - eapply (gcd_unimod A Bv _ _ (- u) v u' (- v') v' v u' u); try ring.
    + rewrite EA at 1. ring. + rewrite EB at 1. ring.
Qed.

(* rows (u, v), (u', v') with prefix values al = sg*(u*A0 - v*A1), be = -sg*(u'*A0 - v'*A1):
   Jebelean's two tests make the step valid for every continuation of the prefixes *)
Lemma ext_bounds k x y al be p r s t :
  0 <= k -> 0 <= x < 2 ^ k -> 0 <= y < 2 ^ k ->
  0 <= p -> 0 <= r -> 0 <= s -> 0 <= t -> 1 <= t + p ->
  r <= be -> t + p <= al - be ->
  (* D = be*2^k + p*y - r*x,  C = al*2^k + s*x - t*y *)
  0 <= be * 2 ^ k + p * y - r * x /\
  be * 2 ^ k + p * y - r * x < al * 2 ^ k + s * x - t * y.
Proof.
  intros Hk Hx Hy Hp Hr Hs Ht Hpos T1 T2.
  pose proof (pow2_pos' k Hk) as HP. set (P := 2 ^ k) in *.
  assert (E1 : r * x <= r * (P - 1)) by (apply Z.mul_le_mono_nonneg_l; lia).
  assert (E2 : r * P <= be * P) by (apply Z.mul_le_mono_nonneg_r; lia).
  assert (E3 : 0 <= p * y) by (apply Z.mul_nonneg_nonneg; lia).
  split; [lia|].
  assert (E4 : (t + p) * y <= (t + p) * (P - 1)) by (apply Z.mul_le_mono_nonneg_l; lia).
  assert (E5 : (t + p) * P <= (al - be) * P) by (apply Z.mul_le_mono_nonneg_r; lia).
  assert (E6 : 0 <= (s + r) * x) by (apply Z.mul_nonneg_nonneg; lia).
  lia.
Qed.

Lemma rows_valid sgn u v u' v' al be A0 A1 :
  al = sg sgn * (u * A0 - v * A1) -> be = - sg sgn * (u' * A0 - v' * A1) ->
  u * v' - u' * v = sg sgn -> 0 <= u -> 1 <= v -> 1 <= u' -> 1 <= v' ->
  (if sgn then u' else v') <= be -> (if sgn then v + v' else u + u') <= al - be ->
  forall k x y, 0 <= k -> 0 <= x < 2 ^ k -> 0 <= y < 2 ^ k ->
    good_step (Mat u v u' v' sgn) (A0 * 2 ^ k + x) (A1 * 2 ^ k + y).
Proof.
  intros Eal Ebe Det Hu Hv Hu' Hv' T1 T2 k x y Hk Hx Hy.
  apply good_of_rows; auto. unfold zmap.
  destruct sgn; cbn [sg m0 m1 m2 m3 m4 fst snd] in *.
  - destruct (ext_bounds k x y al be v' u' u v Hk Hx Hy) as [D0 DC]; lia.
  - destruct (ext_bounds k y x al be u' v' v u Hk Hy Hx) as [D0 DC]; lia.
Qed.

(* ---------- from_u64_prefix: the invariant of the Euclid sequence on the prefixes ---------- *)
Definition W32 : Z := 2 ^ 32.
Lemma W32_val : W32 = 4294967296. Proof. reflexivity. Qed.
Lemma W32_sq : W32 * W32 = B. Proof. rewrite B_val. reflexivity. Qed.
Lemma LIMIT_W32 : LIMIT = W32. Proof. reflexivity. Qed.
Lemma W32_pow : W32 = 2 ^ 32. Proof. reflexivity. Qed.
Lemma W32_pos : 0 < W32. Proof. reflexivity. Qed.
#[global] Opaque W32.

Record cof := Cof { cu0 : Z; cv0 : Z; cu1 : Z; cv1 : Z; cu2 : Z; cv2 : Z; cu3 : Z; cv3 : Z }.
Definition shift (c : cof) (q : Z) : cof :=
  Cof (cu1 c) (cv1 c) (cu2 c) (cv2 c) (cu3 c) (cv3 c) (cu2 c + q * cu3 c) (cv2 c + q * cv3 c).

(* e = the row of a2 has sign +.  ga is the (dropped) remainder belonging to row 0. *)
Record pinv (A0 A1 : Z) (e : bool) (ga a1 a2 a3 : Z) (c : cof) : Prop := {
  pi_nn : 0 <= cu0 c /\ 0 <= cv0 c /\ 0 <= cu1 c;
  pi_rem : 0 <= a3 < a2 /\ a2 + a3 <= a1 /\ a1 + a2 <= ga /\ ga <= A0 /\ W32 <= a2;
  pi_l0 : ga = sg e * (cu0 c * A0 - cv0 c * A1);
  pi_l1 : a1 = - sg e * (cu1 c * A0 - cv1 c * A1);
  pi_l2 : a2 = sg e * (cu2 c * A0 - cv2 c * A1);
  pi_l3 : a3 = - sg e * (cu3 c * A0 - cv3 c * A1);
  pi_d01 : cu0 c * cv1 c - cu1 c * cv0 c = sg e;
  pi_d12 : cu1 c * cv2 c - cu2 c * cv1 c = - sg e;
  pi_d23 : cu2 c * cv3 c - cu3 c * cv2 c = sg e;
  pi_g : cu0 c + cu1 c <= cu2 c /\ cv0 c + cv1 c <= cv2 c /\
         cu1 c + cu2 c <= cu3 c /\ cv1 c + cv2 c <= cv3 c;
  pi_pos : 1 <= cv1 c /\ 1 <= cv2 c /\ 1 <= cv3 c /\ 1 <= cu2 c /\ 1 <= cu3 c;
  pi_first : (e = true /\ cu0 c = 1 /\ cv0 c = 0 /\ cu1 c = 0 /\ cv1 c = 1) \/
             (1 <= cv0 c /\ 1 <= cu1 c /\ cu0 c <= cu1 c /\ cv0 c <= cv1 c)
}.

Lemma ident_rows s u2 v2 u3 v3 A0 A1 a2 a3 :
  s * s = 1 -> a2 = s * (u2 * A0 - v2 * A1) -> a3 = - s * (u3 * A0 - v3 * A1) ->
  u2 * v3 - u3 * v2 = s ->
  a2 * v3 + a3 * v2 = A0 /\ a2 * u3 + a3 * u2 = A1.
Proof.
  intros Hs -> -> D. split.
  - transitivity (s * (u2 * v3 - u3 * v2) * A0); [ring | rewrite D, Hs; ring].
  - transitivity (s * (u2 * v3 - u3 * v2) * A1); [ring | rewrite D, Hs; ring].
Qed.
Lemma small_of_ident a2 x a3 y T :
  a2 * x + a3 * y = T -> W32 <= a2 -> 0 <= a3 -> 0 <= y -> 0 <= x -> T < W32 * W32 -> x < W32.
Proof. intros E H2 H3 Hy Hx HT. rewrite W32_val in *. nia. Qed.

Lemma cof_small A0 A1 e ga a1 a2 a3 c :
  A0 < B -> 0 <= A1 <= A0 -> pinv A0 A1 e ga a1 a2 a3 c ->
  0 <= cu0 c < W32 /\ 0 <= cv0 c < W32 /\ 0 <= cu1 c < W32 /\ 0 <= cv1 c < W32 /\
  0 <= cu2 c < W32 /\ 0 <= cv2 c < W32 /\ 0 <= cu3 c < W32 /\ 0 <= cv3 c < W32.
Proof.
  intros HB HA P. destruct P as [Pnn Prem L0 L1 L2 L3 D01 D12 D23 Pg Ppos Pfirst].
  destruct (ident_rows (sg e) _ _ _ _ A0 A1 a2 a3 (sg_sq e) L2 L3 D23) as [I0 I1].
  assert (V3 : cv3 c < W32).
  { apply (small_of_ident a2 (cv3 c) a3 (cv2 c) A0); try lia. rewrite W32_sq. lia. }
  assert (U3 : cu3 c < W32).
  { apply (small_of_ident a2 (cu3 c) a3 (cu2 c) A1); try lia. rewrite W32_sq. lia. }
  lia.
Qed.

Lemma mul_ge_self q x : 1 <= q -> 0 <= x -> x <= q * x.
Proof. intros. nia. Qed.
Lemma divmod_sum a d q r : a = d * q + r -> 1 <= q -> 0 <= d -> d + r <= a.
Proof. intros. nia. Qed.

Lemma pinv_step A0 A1 e ga a1 a2 a3 c :
  pinv A0 A1 e ga a1 a2 a3 c -> W32 <= a3 ->
  pinv A0 A1 (negb e) a1 a2 a3 (a2 mod a3) (shift c (a2 / a3)).
Proof.
  intros P H3. destruct P as [Pnn Prem L0 L1 L2 L3 D01 D12 D23 Pg Ppos Pfirst].
  assert (HW : 0 < W32) by (rewrite W32_val; lia).
  pose proof (Z.div_mod a2 a3 ltac:(lia)) as Hdm. pose proof (Z.mod_pos_bound a2 a3 ltac:(lia)) as Hm.
  set (q := a2 / a3) in *. set (r := a2 mod a3) in *.
  assert (Hq : 1 <= q) by (apply Z.div_le_lower_bound; lia).
  assert (Hqr : a3 + r <= a2) by (eapply divmod_sum; eauto; lia).
  constructor; unfold shift; cbn [cu0 cv0 cu1 cv1 cu2 cv2 cu3 cv3]; rewrite ?sg_negb.
  - lia.
  - lia.
  - rewrite L1. ring.
  - rewrite L2. ring.
  - rewrite L3. ring.
  - replace r with (a2 - q * a3) by lia. rewrite L2, L3. ring.
  - rewrite <- D12. ring.
  - rewrite <- D23. ring.
  - rewrite <- D23. ring.
  - assert (cu3 c <= q * cu3 c) by (apply mul_ge_self; lia).
    assert (cv3 c <= q * cv3 c) by (apply mul_ge_self; lia). lia.
  - assert (cu3 c <= q * cu3 c) by (apply mul_ge_self; lia).
    assert (cv3 c <= q * cv3 c) by (apply mul_ge_self; lia). lia.
  - right. lia.
Qed.

(* ---------- the SWAR-packed state ---------- *)
Definition packed (s : pstate) (c : cof) : Prop :=
  pk0 s = cu0 c * W32 + cv0 c /\ pk1 s = cu1 c * W32 + cv1 c /\
  pk2 s = cu2 c * W32 + cv2 c /\ pk3 s = cu3 c * W32 + cv3 c.

Lemma khi_packed u v : 0 <= v < W32 -> khi (u * W32 + v) = u.
Proof.
  intros Hv. unfold khi. rewrite <- W32_pow. pose proof W32_pos.
  rewrite Z.div_add_l by lia. rewrite Z.div_small by lia. lia.
Qed.
Lemma klo_packed u v : 0 <= v < W32 -> klo (u * W32 + v) = v.
Proof.
  intros Hv. unfold klo, LIMIT. rewrite <- W32_pow. pose proof W32_pos.
  rewrite Z.add_comm, Z.mod_add by lia. apply Z.mod_small. lia.
Qed.
Lemma packed_lt u v : 0 <= u < W32 -> 0 <= v < W32 -> 0 <= u * W32 + v < B.
Proof. intros Hu Hv. rewrite <- W32_sq. pose proof W32_pos. nia. Qed.

Lemma prefix_half_ok A0 A1 e ga s c :
  A0 < B -> 0 <= A1 <= A0 ->
  pinv A0 A1 e ga (pa1 s) (pa2 s) (pa3 s) c -> packed s c -> W32 <= pa3 s ->
  exists s', prefix_half s = Val s' /\
    pa1 s' = pa2 s /\ pa2 s' = pa3 s /\ pa3 s' = pa2 s mod pa3 s /\
    packed s' (shift c (pa2 s / pa3 s)) /\
    pinv A0 A1 (negb e) (pa1 s) (pa1 s') (pa2 s') (pa3 s') (shift c (pa2 s / pa3 s)).
Proof.
  intros HB HA P (K0 & K1 & K2 & K3) H3.
  pose proof (pinv_step _ _ _ _ _ _ _ _ P H3) as P'.
  pose proof (cof_small _ _ _ _ _ _ _ _ HB HA P) as Sm.
  pose proof (cof_small _ _ _ _ _ _ _ _ HB HA P') as Sm'.
  unfold shift in Sm'. cbn [cu0 cv0 cu1 cv1 cu2 cv2 cu3 cv3] in Sm'.
  pose proof W32_pos as HW. pose proof (pi_rem _ _ _ _ _ _ _ _ P) as Prem.
  unfold prefix_half.
  destruct (Z.ltb_spec (pa3 s) (pa2 s)) as [_|]; [|lia]. cbn [negb].
  destruct (Z.ltb_spec 0 (pa3 s)) as [_|]; [|lia]. cbn [negb].
  set (q := pa2 s / pa3 s) in *.
  assert (Hq : 0 <= q) by (apply Z.div_pos; lia).
  rewrite euclid_half_ok; try lia.
  - cbn [obind]. eexists; split; [reflexivity|]. cbn [pa1 pa2 pa3 pk0 pk1 pk2 pk3].
    split; [reflexivity|]. split; [reflexivity|]. split; [reflexivity|]. split; [|exact P'].
    unfold packed, shift. cbn [pk0 pk1 pk2 pk3 cu0 cv0 cu1 cv1 cu2 cv2 cu3 cv3].
    split; [exact K1|]. split; [exact K2|]. split; [exact K3|]. fold q. rewrite K2, K3. ring.
  - fold q. rewrite K2, K3.
    replace (cu2 c * W32 + cv2 c + q * (cu3 c * W32 + cv3 c))
      with ((cu2 c + q * cu3 c) * W32 + (cv2 c + q * cv3 c)) by ring.
    pose proof (packed_lt (cu2 c + q * cu3 c) (cv2 c + q * cv3 c)). lia.
Qed.

Lemma half_halves a d P : 0 < d <= a -> a < 2 * P -> a mod d < P.
Proof.
  intros Hd Ha. pose proof (Z.div_mod a d ltac:(lia)). pose proof (Z.mod_pos_bound a d ltac:(lia)).
  assert (1 <= a / d) by (apply Z.div_le_lower_bound; lia). nia.
Qed.

Lemma prefix_loop_ok A0 A1 : A0 < B -> 0 <= A1 <= A0 -> forall fuel s ga c,
  pinv A0 A1 true ga (pa1 s) (pa2 s) (pa3 s) c -> packed s c ->
  pa2 s < W32 * 2 ^ Z.of_nat fuel ->
  exists s' e' ga' c', prefix_loop fuel s true = Val (s', e') /\
    pinv A0 A1 e' ga' (pa1 s') (pa2 s') (pa3 s') c' /\ packed s' c' /\ pa3 s' < W32.
Proof.
  intros HB HA. pose proof W32_pos as HW.
  induction fuel as [|fuel IH]; intros s ga c P K Hf; pose proof (pi_rem _ _ _ _ _ _ _ _ P) as Prem.
  - cbn [prefix_loop]. rewrite LIMIT_W32. destruct (Z.leb_spec W32 (pa3 s)) as [H3|H3].
    + cbn in Hf. lia.
    + exists s, true, ga, c. auto.
  - cbn [prefix_loop]. rewrite LIMIT_W32. destruct (Z.leb_spec W32 (pa3 s)) as [H3|H3].
    + destruct (prefix_half_ok A0 A1 true ga s c HB HA P K H3) as (s1 & -> & E11 & E12 & E13 & K1 & P1).
      cbn [obind negb] in *. pose proof (pi_rem _ _ _ _ _ _ _ _ P1) as Prem1.
      destruct (Z.ltb_spec (pa3 s1) W32) as [L|L].
      * exists s1, false, (pa1 s), (shift c (pa2 s / pa3 s)). auto.
      * destruct (prefix_half_ok A0 A1 false (pa1 s) s1 _ HB HA P1 K1 L) as (s2 & -> & E21 & E22 & E23 & K2 & P2).
        cbn [obind negb] in *.
        apply (IH s2 (pa1 s1) _ P2 K2).
        rewrite E22, E13. rewrite Nat2Z.inj_succ, Z.pow_succ_r in Hf by lia.
        apply half_halves; lia.
    + exists s, true, ga, c. auto.
Qed.

(* ---------- the selection by Jebelean's conditions ---------- *)
Definition ext_good (m : mat) (A0 A1 : Z) : Prop :=
  forall k x y, 0 <= k -> 0 <= x < 2 ^ k -> 0 <= y < 2 ^ k ->
    good_step m (A0 * 2 ^ k + x) (A1 * 2 ^ k + y).
Definition small32 (m : mat) : Prop :=
  0 <= m0 m < W32 /\ 0 <= m1 m < W32 /\ 0 <= m2 m < W32 /\ 0 <= m3 m < W32.
Lemma unimod_rows sgn u v u' v' :
  u * v' - u' * v = sg sgn -> u <= u' -> v <= v' -> unimod (Mat u v u' v' sgn).
Proof.
  intros D H1 H2. unfold unimod. cbn [m0 m1 m2 m3 m4]. split; [|lia].
  destruct sgn; cbn [sg] in D; lia.
Qed.
Lemma small32_id : small32 IDENTITY.
Proof. unfold small32. cbn. rewrite W32_val. lia. Qed.
Lemma two_W32 : W32 + W32 <= B.
Proof. rewrite W32_val, B_val. lia. Qed.

Lemma prefix_select_ok A0 A1 e ga s c :
  A0 < B -> 0 <= A1 <= A0 ->
  pinv A0 A1 e ga (pa1 s) (pa2 s) (pa3 s) c -> packed s c -> pa3 s < W32 ->
  exists m, prefix_select s e = Val m /\ small32 m /\
            (m = IDENTITY \/ (m <> IDENTITY /\ unimod m /\ ext_good m A0 A1)).
Proof.
  intros HB HA P (K0 & K1 & K2 & K3) H3.
  pose proof (cof_small _ _ _ _ _ _ _ _ HB HA P) as (S0 & S0' & S1 & S1' & S2 & S2' & S3 & S3').
  destruct P as [Pnn Prem L0 L1 L2 L3 D01 D12 D23 Pg Ppos Pfirst].
  pose proof two_W32 as H2W.
  unfold prefix_select. rewrite K0, K1, K2, K3. rewrite !khi_packed, !klo_packed by lia.
  rewrite LIMIT_W32. cbv zeta.
  destruct (Z.ltb_spec (pa2 s) W32) as [|_]; [lia|].
  destruct (Z.ltb_spec (pa3 s) W32) as [_|]; [|lia]. cbn [negb].
  destruct e.
  - (* a2 on an even row *)
    destruct (Z.ltb_spec (pa2 s) (cv2 c)) as [|_]; [lia|].
    rewrite csub_ok by lia. cbn [obind]. rewrite cadd_ok by lia. cbn [obind].
    destruct (Z.leb_spec (cu2 c + cu1 c) (pa1 s - pa2 s)) as [T1|T1].
    + assert (Hmid : ext_good (Mat (cu1 c) (cv1 c) (cu2 c) (cv2 c) false) A0 A1).
      { intros k x y Hk Hx Hy.
        apply (rows_valid false _ _ _ _ (pa1 s) (pa2 s) A0 A1); [exact L1 | exact L2 | exact D12 | lia..]. }
      destruct (Z.leb_spec (cu3 c) (pa3 s)) as [T2|T2].
      * rewrite csub_ok by lia. cbn [obind]. rewrite cadd_ok by lia. cbn [obind].
        destruct (Z.leb_spec (cv3 c + cv2 c) (pa2 s - pa3 s)) as [T3|T3].
        -- eexists; split; [reflexivity|]. split; [unfold small32; cbn; lia|]. right.
           split; [intro E; inversion E; lia|].
           split; [apply unimod_rows; [exact D23 | lia | lia]|].
           intros k x y Hk Hx Hy.
           apply (rows_valid true _ _ _ _ (pa2 s) (pa3 s) A0 A1); [exact L2 | exact L3 | exact D23 | lia..].
        -- eexists; split; [reflexivity|]. split; [unfold small32; cbn; lia|]. right.
           split; [intro E; inversion E; lia|]. split; [apply unimod_rows; [exact D12 | lia | lia] | exact Hmid].
      * cbn [obind]. eexists; split; [reflexivity|]. split; [unfold small32; cbn; lia|]. right.
        split; [intro E; inversion E; lia|]. split; [apply unimod_rows; [exact D12 | lia | lia] | exact Hmid].
    + eexists; split; [reflexivity|]. split; [unfold small32; cbn; lia|].
      destruct Pfirst as [(_ & E0 & E0' & E1 & E1')|(F0 & F1 & F2 & F3)].
      * left. rewrite E0, E0', E1, E1'. reflexivity.
      * right. split; [intro E; inversion E; lia|].
        split; [apply unimod_rows; [exact D01 | lia | lia]|].
        intros k x y Hk Hx Hy.
        apply (rows_valid true _ _ _ _ ga (pa1 s) A0 A1); [exact L0 | exact L1 | exact D01 | lia..].
  - (* a2 on an odd row *)
    destruct (Z.ltb_spec (pa2 s) (cu2 c)) as [|_]; [lia|].
    rewrite csub_ok by lia. cbn [obind]. rewrite cadd_ok by lia. cbn [obind].
    destruct (Z.leb_spec (cv2 c + cv1 c) (pa1 s - pa2 s)) as [T1|T1].
    + assert (Hmid : ext_good (Mat (cu1 c) (cv1 c) (cu2 c) (cv2 c) true) A0 A1).
      { intros k x y Hk Hx Hy.
        apply (rows_valid true _ _ _ _ (pa1 s) (pa2 s) A0 A1); [exact L1 | exact L2 | exact D12 | lia..]. }
      destruct (Z.leb_spec (cv3 c) (pa3 s)) as [T2|T2].
      * rewrite csub_ok by lia. cbn [obind]. rewrite cadd_ok by lia. cbn [obind].
        destruct (Z.leb_spec (cu3 c + cu2 c) (pa2 s - pa3 s)) as [T3|T3].
        -- eexists; split; [reflexivity|]. split; [unfold small32; cbn; lia|]. right.
           split; [intro E; inversion E; lia|].
           split; [apply unimod_rows; [exact D23 | lia | lia]|].
           intros k x y Hk Hx Hy.
           apply (rows_valid false _ _ _ _ (pa2 s) (pa3 s) A0 A1); [exact L2 | exact L3 | exact D23 | lia..].
        -- eexists; split; [reflexivity|]. split; [unfold small32; cbn; lia|]. right.
           split; [intro E; inversion E; lia|]. split; [apply unimod_rows; [exact D12 | lia | lia] | exact Hmid].
      * cbn [obind]. eexists; split; [reflexivity|]. split; [unfold small32; cbn; lia|]. right.
        split; [intro E; inversion E; lia|]. split; [apply unimod_rows; [exact D12 | lia | lia] | exact Hmid].
    + eexists; split; [reflexivity|]. split; [unfold small32; cbn; lia|].
      destruct Pfirst as [(Ee & _)|(F0 & F1 & F2 & F3)]; [discriminate|].
      right. split; [intro E; inversion E; lia|].
      split; [apply unimod_rows; [exact D01 | lia | lia]|].
      intros k x y Hk Hx Hy.
      apply (rows_valid false _ _ _ _ ga (pa1 s) A0 A1); [exact L0 | exact L1 | exact D01 | lia..].
Qed.

(* ---------- from_u64_prefix ---------- *)
Lemma div_lt_W32 a d : 0 <= a < B -> W32 <= d -> 0 <= a / d < W32.
Proof.
  intros Ha Hd. pose proof W32_pos. split; [apply Z.div_pos; lia|].
  apply Z.div_lt_upper_bound; [lia|]. rewrite <- W32_sq in Ha. nia.
Qed.

Theorem from_u64_prefix_spec A0 A1 :
  2 ^ 63 <= A0 < B -> 0 <= A1 <= A0 ->
  exists m, from_u64_prefix A0 A1 = Val m /\ small32 m /\
            (m = IDENTITY \/ (m <> IDENTITY /\ unimod m /\ ext_good m A0 A1)).
Proof.
  intros HA0 HA1. pose proof W32_pos as HW. pose proof two_W32 as H2W.
  unfold from_u64_prefix.
  destruct (Z.ltb_spec A0 (2 ^ 63)); [lia|]. destruct (Z.ltb_spec A0 A1); [lia|].
  rewrite LIMIT_W32, <- W32_pow.
  destruct (Z.ltb_spec A1 W32) as [Lim1|Lim1].
  { exists IDENTITY. split; [reflexivity|]. split; [apply small32_id | now left]. }
  pose proof (div_lt_W32 A0 A1 ltac:(lia) Lim1) as Hq1.
  pose proof (Z.div_mod A0 A1 ltac:(lia)) as Hdm1. pose proof (Z.mod_pos_bound A0 A1 ltac:(lia)) as Hm1.
  set (q1 := A0 / A1) in *. set (a2 := A0 mod A1) in *.
  assert (Hq1' : 1 <= q1) by (apply Z.div_le_lower_bound; lia).
  rewrite (euclid_half_ok A0 A1 W32 1) by (fold q1; lia). fold q1 a2. cbn [obind].
  replace (W32 + q1 * 1) with (1 * W32 + q1) by ring.
  destruct (Z.ltb_spec a2 W32) as [Lim2|Lim2].
  - (* early exit *)
    rewrite khi_packed, klo_packed by lia.
    destruct (Z.leb_spec q1 a2) as [T1|T1].
    + rewrite csub_ok by lia. cbn [obind].
      destruct (Z.leb_spec 1 (A1 - a2)) as [T2|T2].
      * eexists; split; [reflexivity|]. split; [unfold small32; cbn; lia|]. right.
        split; [intro E; inversion E|].
        split; [apply unimod_rows; cbn [sg]; lia|].
        intros k x y Hk Hx Hy.
        apply (rows_valid false 0 1 1 q1 A1 a2 A0 A1); cbn [sg]; try lia.
      * exists IDENTITY. split; [reflexivity|]. split; [apply small32_id | now left].
    + cbn [obind]. exists IDENTITY. split; [reflexivity|]. split; [apply small32_id | now left].
  - (* at least two steps *)
    pose proof (div_lt_W32 A1 a2 ltac:(lia) Lim2) as Hq2.
    pose proof (Z.div_mod A1 a2 ltac:(lia)) as Hdm2. pose proof (Z.mod_pos_bound A1 a2 ltac:(lia)) as Hm2.
    set (q2 := A1 / a2) in *. set (a3 := A1 mod a2) in *.
    assert (Hq2' : 1 <= q2) by (apply Z.div_le_lower_bound; lia).
    assert (Hq12 : 1 <= q1 * q2) by nia.
    assert (Hq12' : q1 <= q1 * q2) by nia.
    set (c0 := Cof 1 0 0 1 1 q1 q2 (1 + q1 * q2)).
    assert (P0 : pinv A0 A1 true A0 A1 a2 a3 c0).
    { constructor; unfold c0; cbn [cu0 cv0 cu1 cv1 cu2 cv2 cu3 cv3 sg].
      - lia.
      - assert (a2 + a3 <= A1) by (eapply divmod_sum; eauto; lia).
        assert (A1 + a2 <= A0) by (eapply divmod_sum; eauto; lia). lia.
      - ring.
      - ring.
      - lia.
      - replace a3 with (A1 - q2 * a2) by lia. replace a2 with (A0 - q1 * A1) by lia. ring.
      - ring.
      - ring.
      - ring.
      - lia.
      - lia.
      - left. auto. }
    pose proof (cof_small _ _ _ _ _ _ _ _ (proj2 HA0) HA1 P0) as Sm0.
    unfold c0 in Sm0. cbn [cu0 cv0 cu1 cv1 cu2 cv2 cu3 cv3] in Sm0.
    rewrite (euclid_half_ok A1 a2 1 (1 * W32 + q1)); try lia.
    + fold q2 a3. cbn [obind].
      set (s0 := PS A1 a2 a3 W32 1 (1 * W32 + q1) (1 + q2 * (1 * W32 + q1))).
      assert (K0 : packed s0 c0).
      { unfold packed, s0, c0. cbn [pk0 pk1 pk2 pk3 cu0 cv0 cu1 cv1 cu2 cv2 cu3 cv3].
        repeat split; ring. }
      destruct (prefix_loop_ok A0 A1 (proj2 HA0) HA1 64 s0 A0 c0 P0 K0) as (s' & e' & ga' & c' & -> & P' & K' & L').
      { unfold s0. cbn [pa2]. change (Z.of_nat 64) with 64. rewrite <- B_pow. nia. }
      cbn [obind fst snd].
      apply (prefix_select_ok A0 A1 e' ga' s' c'); auto; lia.
    + fold q2. replace (1 + q2 * (1 * W32 + q1)) with (q2 * W32 + (1 + q1 * q2)) by ring.
      pose proof (packed_lt q2 (1 + q1 * q2)). lia.
Qed.

(* ---------- from_u128_prefix ---------- *)
Lemma ext_good_base m A0 A1 : ext_good m A0 A1 -> good_step m A0 A1.
Proof.
  intros H. specialize (H 0 0 0 ltac:(lia) ltac:(cbn; lia) ltac:(cbn; lia)).
  now rewrite Z.pow_0_r, !Z.mul_1_r, !Z.add_0_r in H.
Qed.

(* a matrix valid for the prefixes (A / 2^t, Bv / 2^t) is valid for (A, Bv) and its continuations *)
Lemma ext_good_lift m A Bv t :
  0 <= t -> 0 <= A -> 0 <= Bv -> ext_good m (A / 2 ^ t) (Bv / 2 ^ t) -> ext_good m A Bv.
Proof.
  intros Ht HA HB H k x y Hk Hx Hy.
  pose proof (pow2_pos' t Ht) as Pt. pose proof (pow2_pos' k Hk) as Pk.
  pose proof (Z.div_mod A (2 ^ t) ltac:(lia)) as DA. pose proof (Z.mod_pos_bound A (2 ^ t) Pt) as MA.
  pose proof (Z.div_mod Bv (2 ^ t) ltac:(lia)) as DB. pose proof (Z.mod_pos_bound Bv (2 ^ t) Pt) as MB.
  specialize (H (t + k) (A mod 2 ^ t * 2 ^ k + x) (Bv mod 2 ^ t * 2 ^ k + y) ltac:(lia)).
  rewrite Z.pow_add_r in H by lia.
  replace (A / 2 ^ t * (2 ^ t * 2 ^ k) + (A mod 2 ^ t * 2 ^ k + x)) with (A * 2 ^ k + x) in H
    by (rewrite DA at 1; ring).
  replace (Bv / 2 ^ t * (2 ^ t * 2 ^ k) + (Bv mod 2 ^ t * 2 ^ k + y)) with (Bv * 2 ^ k + y) in H
    by (rewrite DB at 1; ring).
  apply H; nia.
Qed.

Lemma zmap_scale m c A Bv :
  zmap m (c * A) (c * Bv) = (c * fst (zmap m A Bv), c * snd (zmap m A Bv)).
Proof. unfold zmap. destruct (m4 m); cbn [fst snd]; f_equal; ring. Qed.

Lemma good_step_unscale m c A Bv :
  0 < c -> 0 <= A -> 0 <= Bv -> good_step m (c * A) (c * Bv) -> good_step m A Bv.
Proof.
  intros Hc HA HB. unfold good_step. rewrite zmap_scale.
  destruct (zmap m A Bv) as [C D]. cbn [fst snd]. intros (G1 & G2 & G3 & G4 & G5).
  assert (D0 : 0 <= D) by nia. assert (DC : D <= C) by nia.
  assert (CA : C <= A) by nia. assert (DB : D < Bv) by nia.
  split; [lia|]. split; [exact CA|]. split; [exact DB|]. split.
  - assert (c * c * (2 * (C * D)) <= c * c * (A * Bv)) by nia.
    apply Z.mul_le_mono_pos_l with (p := c * c); nia.
  - rewrite !Z.gcd_mul_mono_l_nonneg in G5 by lia. nia.
Qed.

Lemma clz128_norm r0 :
  0 < r0 < BB -> let s := clz128 r0 in 0 <= s < 128 /\ 2 ^ 127 <= r0 * 2 ^ s < BB.
Proof.
  intros Hr. unfold clz128. destruct (Z.eqb_spec r0 0); [lia|]. cbv zeta.
  pose proof (Z.log2_spec r0 ltac:(lia)) as [L1 L2]. pose proof (Z.log2_nonneg r0) as L0.
  assert (Hl : Z.log2 r0 < 128).
  { apply Z.log2_lt_pow2; [lia|]. change (2 ^ 128) with BB. lia. }
  split; [lia|].
  set (l := Z.log2 r0) in *. set (t := 127 - l).
  assert (E1 : 2 ^ 127 = 2 ^ l * 2 ^ t) by (rewrite <- Z.pow_add_r by lia; f_equal; lia).
  assert (E2 : BB = 2 ^ Z.succ l * 2 ^ t).
  { change BB with (2 ^ 128). rewrite <- Z.pow_add_r by lia. f_equal. lia. }
  pose proof (pow2_pos' t ltac:(lia)) as Pt. rewrite E1, E2.
  split; [apply Z.mul_le_mono_nonneg_r; lia | apply Z.mul_lt_mono_pos_r; lia].
Qed.

Theorem from_u128_prefix_spec r0 r1 :
  0 < r0 < BB -> 0 <= r1 <= r0 ->
  exists m, from_u128_prefix r0 r1 = Val m /\ small32 m /\
    (m = IDENTITY \/ (m <> IDENTITY /\ unimod m /\ good_step m r0 r1 /\
                      (2 ^ 63 <= r0 -> ext_good m r0 r1))).
Proof.
  intros H0 H1. unfold from_u128_prefix.
  destruct (Z.ltb_spec r0 r1); [lia|].
  destruct (clz128_norm r0 H0) as [Hs Hn]. set (s := clz128 r0) in *.
  destruct (Z.leb_spec 128 s); [lia|].
  pose proof (pow2_pos' s ltac:(lia)) as Ps.
  unfold wrap128. rewrite (Z.mod_small (r0 * 2 ^ s)) by lia.
  rewrite (Z.mod_small (r1 * 2 ^ s)) by nia.
  assert (HBB : BB = B * B) by (rewrite B_val; reflexivity).
  pose proof B_pos as HBp.
  assert (Q0 : 2 ^ 63 <= r0 * 2 ^ s / B < B).
  { split; [apply Z.div_le_lower_bound; [lia|]; rewrite B_val in *; change (2 ^ 127) with (2 ^ 63 * 2 ^ 64) in Hn; change (2 ^ 63) with 9223372036854775808 in *; change (2^64) with 18446744073709551616 in *; lia |
            apply Z.div_lt_upper_bound; [lia | rewrite <- HBB; lia]]. }
  assert (Q1 : 0 <= r1 * 2 ^ s / B <= r0 * 2 ^ s / B).
  { split; [apply Z.div_pos; nia | apply Z.div_le_mono; nia]. }
  rewrite (Z.mod_small (r0 * 2 ^ s / B)) by lia. rewrite (Z.mod_small (r1 * 2 ^ s / B)) by lia.
  destruct (from_u64_prefix_spec _ _ Q0 Q1) as (m & -> & Sm & [Hid|(Hn' & Hu & Hg)]).
  { exists m. split; [reflexivity|]. split; [exact Sm | now left]. }
  exists m. split; [reflexivity|]. split; [exact Sm|]. right. split; [exact Hn'|]. split; [exact Hu|].
  destruct (Z_le_gt_dec s 64) as [Hle|Hgt].
  - (* r0 >= 2^63: the words are r / 2^(64-s) *)
    assert (E : forall r, 0 <= r -> r * 2 ^ s / B = r / 2 ^ (64 - s)).
    { intros r Hr. rewrite B_pow. replace 64 with ((64 - s) + s) at 1 by lia.
      rewrite Z.pow_add_r by lia. rewrite Z.div_mul_cancel_r by lia. reflexivity. }
    rewrite !E in Hg by lia.
    assert (Hext : ext_good m r0 r1) by (apply (ext_good_lift m r0 r1 (64 - s)); auto; lia).
    split; [apply ext_good_base; exact Hext | intros _; exact Hext].
  - (* r0 < 2^63: the words are r * 2^(s-64) *)
    assert (E : forall r, r * 2 ^ s / B = 2 ^ (s - 64) * r).
    { intros r. rewrite B_pow. replace s with ((s - 64) + 64) at 1 by lia.
      rewrite Z.pow_add_r by lia. rewrite Z.mul_assoc, Z.div_mul by lia. ring. }
    rewrite !E in Hg. split.
    + apply (good_step_unscale m (2 ^ (s - 64))); try lia; try (apply pow2_pos'; lia).
      apply ext_good_base. exact Hg.
    + intros Hbig. exfalso.
      assert (2 ^ 63 * 2 ^ s <= r0 * 2 ^ s) by nia.
      assert (2 ^ 65 <= 2 ^ s) by (apply Z.pow_le_mono_r; lia).
      change BB with (2 ^ 63 * 2 ^ 65) in Hn. nia.
Qed.

(* ---------- LehmerMatrix::from ---------- *)
Lemma small32_words m : small32 m -> wordsP m.
Proof.
  unfold small32, wordsP, inW. rewrite <- W32_sq. pose proof W32_pos. intros. nia.
Qed.
Lemma small32_fits bits m : 64 <= bits -> small32 m -> fitsP bits m.
Proof.
  intros Hb Sm. unfold small32, fitsP in *.
  assert (W32 < 2 ^ bits).
  { rewrite W32_pow. apply Z.pow_lt_mono_r; lia. }
  lia.
Qed.

Lemma blen_bounds v : 0 < v -> 2 ^ (blen v - 1) <= v < 2 ^ blen v.
Proof.
  intros Hv. unfold blen. destruct (Z.eqb_spec v 0); [lia|].
  pose proof (Z.log2_spec v Hv) as [L1 L2]. replace (Z.log2 v + 1 - 1) with (Z.log2 v) by lia.
  replace (Z.log2 v + 1) with (Z.succ (Z.log2 v)) by lia. lia.
Qed.

Theorem LehmerStepOK_holds : LehmerStepOK.
Proof.
  intros bits a b H Ha Hb Hle.
  destruct (Z.eq_dec bits 0) as [->|N].
  { apply canon_zero_width in Ha, Hb. subst. exists IDENTITY. split; [reflexivity|].
    split; [|now left]. unfold wordsP, inW. cbn. rewrite B_val. lia. }
  assert (Hpos : 0 < bits) by lia.
  pose proof (canon_range bits a H Ha) as Ra. pose proof (canon_range bits b H Hb) as Rb.
  unfold from. rewrite (ult_spec bits) by auto.
  destruct (Z.ltb_spec (eval a) (eval b)); [lia|].
  rewrite bit_len_spec by auto. cbn [obind].
  set (A := eval a) in *. set (Bv := eval b) in *.
  destruct (Z.leb_spec (blen A) 64) as [S64|S64].
  - (* one word *)
    assert (HA64 : A < B).
    { pose proof (blen_gt A 64 ltac:(lia) ltac:(lia)) as G. rewrite <- B_pow in G.
      destruct (Z.ltb_spec 64 (blen A)); [lia|]. destruct (Z.leb_spec B A); [discriminate | lia]. }
    rewrite to_u64_spec by (auto; fold A; lia). cbn [obind].
    rewrite to_u64_spec by (auto; fold Bv; lia). cbn [obind]. fold A Bv.
    destruct (Z.eq_dec Bv 0) as [Z0|NZ0].
    + rewrite Z0, from_u64_zero by lia. exists IDENTITY. split; [reflexivity|].
      split; [|now left]. unfold wordsP, inW. cbn. rewrite B_val. lia.
    + destruct (from_u64_spec A Bv ltac:(lia) HA64) as (m & -> & (L0 & L1 & L2 & L3) & Um & Zm).
      exists m. split; [reflexivity|]. split; [unfold wordsP, inW; lia|].
      destruct (mat_eqb m IDENTITY) eqn:Eid; [left; now apply mat_eqb_spec|]. right.
      split; [intro E; apply mat_eqb_spec in E; congruence|].
      split; [unfold fitsP; lia|]. split; [exact Um|].
      unfold good_step. rewrite Zm.
      assert (G0 : 0 <= Z.gcd A Bv) by apply Z.gcd_nonneg.
      assert (G1 : Z.gcd A Bv <= A).
      { apply Z.divide_pos_le; [lia | apply Z.gcd_divide_l]. }
      split; [lia|]. split; [exact G1|]. split; [lia|]. split; [nia|].
      rewrite Z.gcd_0_r, Z.abs_eq by lia. reflexivity.
  - assert (HApos : 0 < A).
    { unfold blen in S64. destruct (Z.eqb_spec A 0); lia. }
    pose proof (blen_bounds A HApos) as [BL1 BL2].
    assert (Hbits : 64 < bits).
    { destruct (Z_lt_le_dec 64 bits); [assumption|]. exfalso.
      assert (2 ^ bits <= 2 ^ 64) by (apply Z.pow_le_mono_r; lia).
      assert (2 ^ 64 <= 2 ^ (blen A - 1)) by (apply Z.pow_le_mono_r; lia). lia. }
    destruct (Z.leb_spec (blen A) 128) as [S128|S128].
    + (* two words *)
      assert (HA128 : A < BB).
      { change BB with (2 ^ 128). assert (2 ^ blen A <= 2 ^ 128) by (apply Z.pow_le_mono_r; lia). lia. }
      rewrite to_u128_spec by (auto; fold A; lia). cbn [obind].
      rewrite to_u128_spec by (auto; fold Bv; lia). cbn [obind]. fold A Bv.
      destruct (from_u128_prefix_spec A Bv ltac:(lia) ltac:(lia)) as (m & -> & Sm & [Hid|(Hn & Hu & Hg & _)]).
      * exists m. split; [reflexivity|]. split; [now apply small32_words | now left].
      * exists m. split; [reflexivity|]. split; [now apply small32_words|]. right.
        split; [exact Hn|]. split; [apply small32_fits; auto; lia|]. split; [exact Hu | exact Hg].
    + (* more than two words: shift the top 128 bits down *)
      set (sh := blen A - 128).
      destruct (wrapping_shr_spec bits a sh H Ha ltac:(lia)) as [Ca' Ea'].
      destruct (wrapping_shr_spec bits b sh H Hb ltac:(lia)) as [Cb' Eb'].
      fold A in Ea'. fold Bv in Eb'.
      pose proof (pow2_pos' sh ltac:(lia)) as Psh.
      assert (HA' : 2 ^ 127 <= A / 2 ^ sh < BB).
      { assert (E1 : 2 ^ (blen A - 1) = 2 ^ 127 * 2 ^ sh) by (rewrite <- Z.pow_add_r by lia; f_equal; lia).
        assert (E2 : 2 ^ blen A = BB * 2 ^ sh).
        { change BB with (2 ^ 128). rewrite <- Z.pow_add_r by lia. f_equal. lia. }
        split; [apply Z.div_le_lower_bound; lia | apply Z.div_lt_upper_bound; lia]. }
      assert (HB' : 0 <= Bv / 2 ^ sh <= A / 2 ^ sh).
      { split; [apply Z.div_pos; lia | apply Z.div_le_mono; lia]. }
      rewrite to_u128_spec by (auto; rewrite Ea'; lia). cbn [obind].
      rewrite to_u128_spec by (auto; rewrite Eb'; lia). cbn [obind]. rewrite Ea', Eb'.
      destruct (from_u128_prefix_spec (A / 2 ^ sh) (Bv / 2 ^ sh)) as (m & -> & Sm & [Hid|(Hn & Hu & _ & Hg)]).
      * change (2 ^ 127) with 170141183460469231731687303715884105728 in HA'. lia.
      * lia.
      * exists m. split; [reflexivity|]. split; [now apply small32_words | now left].
      * exists m. split; [reflexivity|]. split; [now apply small32_words|]. right.
        split; [exact Hn|]. split; [apply small32_fits; auto; lia|]. split; [exact Hu|].
        apply ext_good_base. apply (ext_good_lift m A Bv sh); try lia.
        apply Hg. assert (2 ^ 63 <= 2 ^ 127) by (apply Z.pow_le_mono_r; lia). lia.
Qed.
