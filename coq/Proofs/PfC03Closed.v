(* Proofs/PfC03Closed.v — C03 without hypotheses: the kernel contract assumed by PfC03 is the
   theorem PfDiv.div_kernel_spec (C14). *)
From Coq Require Import ZArith List.
From RV.Model Require Import Base Div.
From RV.Proofs Require Import PfDiv PfUDiv PfC03.
From RV.Run Require Import RunC03.

Lemma DivKernelOK_holds : DivKernelOK.
Proof. unfold DivKernelOK. intros n d Hn Hd Hz. exact (div_kernel_spec n d Hn Hd Hz). Qed.

Theorem C03_all c : wf c -> spec c (run c) = true.
Proof. exact (C03_all_modulo_kernel DivKernelOK_holds c). Qed.
