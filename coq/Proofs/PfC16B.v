(* Proofs/PfC16B.v — C16, group B: every encoder call of RunC16B meets its specification. *)
From Coq Require Import ZArith List Bool Lia.
From RV.Model Require Import Base Word Bytes.
From RV.Model Require Bits Conv CodecB.
From RV.Spec Require Import FmtB.
From RV.Proofs Require Import BaseFacts PfBytes PfCodecB.
From RV.Proofs Require PfConv PfC01.
From RV.Run Require Import RunC16B.
Import ListNotations.
Local Open Scope Z_scope.

Lemma try_prim_spec bits w a : 0 <= bits -> canon bits a -> (w = 64 \/ w = 128) ->
  try_prim bits w a = Val (if eval a <? 2 ^ w then Some (eval a) else None).
Proof.
  intros Hb Hc Hw. unfold try_prim, prim_of_w.
  assert (Hp : exists p, (if w =? 64 then CodecB.U64 else CodecB.U128) = p /\ Conv.pw p = w /\ Conv.psigned p = false).
  { destruct Hw as [-> | ->]; cbn; eexists; repeat split. }
  destruct Hp as (p & -> & Hpw & Hs).
  rewrite PfConv.try_to_prim_spec by (try assumption; rewrite Hpw; destruct Hw; subst; lia).
  cbn [obind]. unfold Conv.prim_max. rewrite Hs, Hpw.
  destruct (Z.leb_spec (eval a) (2 ^ w - 1)); destruct (Z.ltb_spec (eval a) (2 ^ w)); try lia; reflexivity.
Qed.

Lemma to_prim_w bits w a : 0 <= bits -> canon bits a -> (w = 64 \/ w = 128) -> bits = w ->
  CodecB.to_prim bits (prim_of_w w) a = Val (eval a).
Proof.
  intros Hb Hc Hw E. pose proof (canon_val bits a Hb Hc) as Hv. unfold prim_of_w.
  destruct Hw as [-> | ->]; cbn [Z.eqb Pos.eqb]; apply to_prim_small; try assumption; cbn; try lia; subst bits; lia.
Qed.

Lemma vs_ok (applicable : bool) (e : list Z) (theirs : option (list Z)) :
  theirs = (if applicable then Some e else None) ->
  spec_vs applicable e (Val (vs_toks e theirs)) = true.
Proof. intros ->. unfold spec_vs, vs_toks. destruct applicable; apply PfC01.expect_refl. Qed.

Theorem C16B_all c : wf c -> spec c (run c) = true.
Proof.
  destruct c as [bits a|bits a|bits a|bits a|bits a|bits a|bits a|bits w a|bits a|bits a|bits a|bits w a
                |bits shape a|bits shape a|bits w a|bits a|bits a|bits a|bits w a|bits a|bits a|bits a];
    cbn [wf spec run].
  - (* scale_encode *)
    intros (Hb & Hc). rewrite scale_encode_spec by assumption. cbn [obind]. apply PfC01.expect_refl.
  - (* scale_size_hint *)
    intros (Hb & Hc). unfold bounds, CodecB.scale_size_hint. rewrite lenZ_scale_uint by assumption.
    pose proof (nbytes_lt32 bits Hb). pose proof (compact_len_u32_le4 (nbytes bits) ltac:(lia)).
    apply Z.leb_le. lia.
  - (* scale_max_encoded_len *)
    intros (Hb & Hc). unfold bounds, CodecB.scale_max_encoded_len. rewrite lenZ_scale_uint by assumption.
    pose proof (nbytes_lt32 bits Hb) as Hn.
    rewrite Z.mod_small by (change (2 ^ 32) with 4294967296; change (2 ^ 30) with 1073741824 in Hn; lia).
    apply Z.leb_refl.
  - (* scale_roundtrip *)
    intros (Hb & Hc). pose proof (canon_val bits a ltac:(lia) Hc) as Hv.
    rewrite scale_encode_spec by assumption. cbn [obind].
    rewrite <- (app_nil_r (scale_uint bits (eval a))) at 1.
    rewrite scale_decode_canonical by (assumption || constructor). cbn [obind dec_toks].
    rewrite canon_uint_of by assumption. rewrite lenZ_nil, Z.sub_0_r. apply PfC01.expect_refl.
  - (* scale_compact_encode *)
    intros (Hb & Hc). unfold compact_or_panic. destruct (Z.leb_spec COMPACT_MAX_BITS bits).
    + rewrite compact_encode_panics by assumption. reflexivity.
    + rewrite compact_encode_spec by (assumption || lia). cbn [obind]. apply PfC01.expect_refl.
  - (* scale_compact_size_hint *)
    intros (Hb & Hc). rewrite compact_size_hint_spec by assumption. cbn [obind].
    destruct (COMPACT_MAX_BITS <=? bits); [reflexivity|]. unfold bounds. apply Z.leb_refl.
  - (* scale_compact_roundtrip *)
    intros (Hb & Hc). unfold compact_or_panic. destruct (Z.leb_spec COMPACT_MAX_BITS bits) as [Hp|Hp].
    + rewrite compact_encode_panics by assumption. reflexivity.
    + pose proof (canon_val bits a ltac:(lia) Hc) as Hv.
      rewrite compact_encode_spec by (assumption || lia). cbn [obind]. unfold COMPACT_MAX_BITS in Hp.
      rewrite <- (app_nil_r (compact (eval a))) at 1.
      rewrite compact_decode_canonical by (assumption || lia || constructor). cbn [obind dec_toks].
      rewrite canon_uint_of by assumption. rewrite lenZ_nil, Z.sub_0_r. apply PfC01.expect_refl.
  - (* scale_compact_prim *)
    intros (Hb & Hc & Hw). unfold compact_or_panic. destruct (Z.leb_spec COMPACT_MAX_BITS bits) as [Hp|Hp].
    + rewrite compact_encode_panics by assumption. reflexivity.
    + rewrite compact_encode_spec by (assumption || lia). cbn [obind].
      rewrite try_prim_spec by assumption. cbn [obind]. apply vs_ok.
      destruct (eval a <? 2 ^ w); reflexivity.
  - (* ssz_encode *)
    intros (Hb & Hc). rewrite ssz_encode_spec by assumption. apply PfC01.expect_refl.
  - (* ssz_len *)
    intros (Hb & Hc). rewrite lenZ_fixed_le by assumption. unfold CodecB.ssz_len. apply PfC01.expect_refl.
  - (* ssz_roundtrip *)
    intros (Hb & Hc). pose proof (canon_val bits a Hb Hc) as Hv.
    rewrite ssz_encode_spec by assumption. cbv zeta.
    rewrite ssz_decode_spec by (assumption || rewrite fixed_le_digits by assumption; apply le_digits_isbyte).
    rewrite lenZ_fixed_le, Z.eqb_refl by assumption. rewrite fixed_le_digits by assumption.
    pose proof (pow_bits_le_bytes bits Hb).
    rewrite le_value_digits_small by (rewrite nbytesN_Z by lia; lia).
    destruct (Z.ltb_spec (eval a) (2 ^ bits)); [|lia]. cbn [obind whole_toks].
    rewrite canon_uint_of by assumption. rewrite ?lenZ_le_digits, ?nbytesN_Z by lia. apply PfC01.expect_refl.
  - (* ssz_prim *)
    intros (Hb & Hc & Hw). rewrite ssz_encode_spec by assumption. cbv zeta.
    destruct (Z.eqb_spec bits w) as [E|E].
    + rewrite to_prim_w by assumption. cbn [obind]. apply vs_ok. now rewrite E.
    + now apply vs_ok.
  - (* borsh_ser *)
    intros (Hb & Hc & _). rewrite borsh_ser_spec by assumption. apply PfC01.expect_refl.
  - (* borsh_roundtrip *)
    intros (Hb & Hc & _). pose proof (canon_val bits a Hb Hc) as Hv.
    rewrite borsh_ser_spec by assumption. cbv zeta.
    rewrite borsh_de_spec by (assumption || rewrite fixed_le_digits by assumption; apply le_digits_isbyte).
    rewrite lenZ_fixed_le by assumption. rewrite Z.ltb_irrefl. cbv zeta.
    rewrite fixed_le_digits by assumption.
    rewrite firstn_all2, skipn_all2 by (rewrite le_digits_length; lia).
    pose proof (pow_bits_le_bytes bits Hb).
    rewrite le_value_digits_small by (rewrite nbytesN_Z by lia; lia).
    destruct (Z.ltb_spec (eval a) (2 ^ bits)); [|lia]. cbn [obind dec_toks].
    rewrite canon_uint_of by assumption. rewrite lenZ_nil, Z.sub_0_r, ?lenZ_le_digits, ?nbytesN_Z by lia.
    apply PfC01.expect_refl.
  - (* borsh_prim *)
    intros (Hb & Hc & Hw). rewrite borsh_ser_spec by assumption. cbv zeta.
    destruct (Z.eqb_spec bits w) as [E|E].
    + rewrite to_prim_w by assumption. cbn [obind]. apply vs_ok. now rewrite E.
    + now apply vs_ok.
  - (* der_encode *)
    intros (Hb & Hc). rewrite der_encode_spec by assumption. cbn [obind]. apply PfC01.expect_refl.
  - (* der_value_len *)
    intros (Hb & Hc). rewrite der_value_len_spec by assumption. cbn [obind].
    rewrite der_encoded_len_spec by assumption. cbn [obind]. apply PfC01.expect_refl.
  - (* der_roundtrip *)
    intros (Hb & Hc). pose proof (canon_val bits a ltac:(lia) Hc) as Hv.
    rewrite der_encode_spec by assumption. cbn [obind].
    rewrite der_decode_canonical by assumption. cbn [obind whole_toks].
    rewrite canon_uint_of by assumption. apply PfC01.expect_refl.
  - (* der_prim *)
    intros (Hb & Hc & Hw). rewrite der_encode_spec by assumption. cbn [obind].
    rewrite try_prim_spec by (assumption || lia). cbn [obind]. apply vs_ok.
    destruct (eval a <? 2 ^ w); reflexivity.
  - (* der_to_int *)
    intros (Hb & Hc). rewrite der_to_int_spec by (assumption || lia). cbn [obind]. apply PfC01.expect_refl.
  - (* der_to_uint *)
    intros (Hb & Hc). rewrite der_to_uint_spec by (assumption || lia). cbn [obind]. apply PfC01.expect_refl.
  - (* der_to_any *)
    intros (Hb & Hc). rewrite der_to_any_spec by (assumption || lia). cbn [obind]. apply PfC01.expect_refl.
Qed.
