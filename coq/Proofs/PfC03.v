(* Proofs/PfC03.v — every C03 call: the model's answer meets the executable specification,
   relative to the contract of the limb kernel algorithms::div (DivKernelOK, DivKernelZero). *)
From Coq Require Import ZArith List Bool Lia.
From RV.Model Require Import Base Word Limbs Add Div UDiv.
From RV.Proofs Require Import BaseFacts PfAdd PfLimbs PfC01 PfUDiv.
From RV.Run Require Import RunC03.
Import ListNotations.
Local Open Scope Z_scope.

(* Full statement (to be obtained by discharging the two hypotheses when the C14 proof lands;
   DivKernelZero is already PfUDiv.DivKernelZero_holds):
     Theorem C03_all c : wf c -> spec c (run c) = true.                                    *)

Section WithKernel.
  Hypothesis HK : DivKernelOK.
  Hypothesis HZ : DivKernelZero.

  Lemma quot_range n d : 0 <= n -> 0 < d -> 0 <= n / d <= n.
  Proof. intros. split; [apply Z.div_pos; lia|]. apply Z.div_le_upper_bound; nia. Qed.

  (* the operands of a well-formed call with a non-zero divisor *)
  Lemma nz_facts bits a b :
    0 <= bits -> canon bits a -> canon bits b -> eval b <> 0 ->
    0 < bits /\ 0 <= eval a < 2 ^ bits /\ 0 < eval b < 2 ^ bits.
  Proof.
    intros Hb Ha Hc Hd. pose proof (canon_range bits a Hb Ha). pose proof (canon_range bits b Hb Hc).
    split; [|lia]. destruct (Z.eq_dec bits 0) as [->|]; [cbn in *; lia | lia].
  Qed.

  Lemma div_ceil_eq bits a b :
    0 <= bits -> canon bits a -> canon bits b -> eval b <> 0 ->
    UDiv.div_ceil bits a b = Val (uint_of bits (ceil_div (eval a) (eval b))).
  Proof.
    intros Hb Ha Hc Hd. destruct (nz_facts bits a b Hb Ha Hc Hd) as (Hpos & Hn & Hdd).
    unfold UDiv.div_ceil. rewrite (div_rem_eq HK bits a b Hb Ha Hc Hd). cbn [obind].
    pose proof (Z.mod_pos_bound (eval a) (eval b) ltac:(lia)) as Hm.
    destruct (uint_of_ok bits (eval a mod eval b) Hb ltac:(lia)) as [Hcr Her].
    rewrite (is_zero_spec bits _ Hb Hcr), Her. unfold ceil_div.
    destruct (Z.eqb_spec (eval a mod eval b) 0) as [E|E].
    - rewrite ceil_exact by lia. reflexivity.
    - rewrite ceil_inexact by lia.
      pose proof (quot_succ_small (eval a) (eval b) (2 ^ bits) Hn ltac:(lia) E) as Hq.
      pose proof (quot_range (eval a) (eval b) ltac:(lia) ltac:(lia)) as Hqr.
      destruct (uint_of_ok bits (eval a / eval b) Hb ltac:(lia)) as [Hcq Heq].
      destruct (uone_spec bits Hpos) as [Hc1 He1].
      unfold Add.wrapping_add. rewrite add_eq by auto. cbn [fst]. rewrite Heq, He1.
      rewrite Z.mod_small by lia. reflexivity.
  Qed.

  Lemma checked_nmo_eq bits a b :
    0 <= bits -> canon bits a -> canon bits b -> eval b <> 0 ->
    UDiv.checked_next_multiple_of bits a b =
    Val (if 2 ^ bits <=? next_mult (eval a) (eval b) then None
         else Some (uint_of bits (next_mult (eval a) (eval b)))).
  Proof.
    intros Hb Ha Hc Hd. destruct (nz_facts bits a b Hb Ha Hc Hd) as (Hpos & Hn & Hdd).
    unfold UDiv.checked_next_multiple_of.
    rewrite (is_zero_spec bits b Hb Hc). destruct (Z.eqb_spec (eval b) 0); [contradiction|].
    rewrite (div_rem_eq HK bits a b Hb Ha Hc Hd). cbn [obind].
    pose proof (Z.mod_pos_bound (eval a) (eval b) ltac:(lia)) as Hm.
    pose proof (Z.div_mod (eval a) (eval b) ltac:(lia)) as Hdm.
    destruct (uint_of_ok bits (eval a mod eval b) Hb ltac:(lia)) as [Hcr Her].
    rewrite (is_zero_spec bits _ Hb Hcr), Her. unfold next_mult, ceil_div.
    destruct (Z.eqb_spec (eval a mod eval b) 0) as [E|E].
    - rewrite ceil_exact by lia.
      replace (eval b * (eval a / eval b)) with (eval a) by lia.
      destruct (Z.leb_spec (2 ^ bits) (eval a)); [lia|].
      now rewrite (canon_uint_of bits a Ha).
    - rewrite ceil_inexact by lia.
      pose proof (quot_succ_small (eval a) (eval b) (2 ^ bits) Hn ltac:(lia) E) as Hq.
      pose proof (quot_range (eval a) (eval b) ltac:(lia) ltac:(lia)) as Hqr.
      destruct (uint_of_ok bits (eval a / eval b) Hb ltac:(lia)) as [Hcq Heq].
      destruct (uone_spec bits Hpos) as [Hc1 He1].
      unfold Add.checked_add. rewrite add_eq by auto. rewrite Heq, He1.
      destruct (Z.leb_spec (2 ^ bits) (eval a / eval b + 1)); [lia|]. cbn [checked_of].
      rewrite Z.mod_small by lia.
      destruct (uint_of_ok bits (eval a / eval b + 1) Hb Hq) as [Hcq1 Heq1].
      rewrite (checked_mul_eq bits _ b Hb Hcq1 Hc), Heq1.
      rewrite (Z.mul_comm (eval a / eval b + 1) (eval b)). reflexivity.
  Qed.

  Lemma checked_nmo_zero bits a b :
    0 <= bits -> canon bits b -> eval b = 0 -> UDiv.checked_next_multiple_of bits a b = Val None.
  Proof.
    intros Hb Hc E. unfold UDiv.checked_next_multiple_of.
    rewrite (is_zero_spec bits b Hb Hc), E. reflexivity.
  Qed.

  Theorem C03_all_partial c : wf c -> spec c (run c) = true.
  Proof.
    destruct c as [bits a b|bits a b|bits a b|bits a b|bits a b|bits a b|bits sh a b|bits sh a b
                  |bits a b|bits a b];
      cbn [wf wfb args spec run]; intros (Hb & Ha & Hc);
      destruct (Z.eqb_spec (eval b) 0) as [E|E]; cbn [orb].
    - (* div_rem, d = 0 *) now rewrite (div_rem_zero HZ bits a b Hc E).
    - rewrite (div_rem_eq HK bits a b Hb Ha Hc E). cbn [obind fst snd]. apply expect_refl.
    - (* wrapping_div *) unfold UDiv.wrapping_div. now rewrite (div_rem_zero HZ bits a b Hc E).
    - unfold UDiv.wrapping_div. rewrite (div_rem_eq HK bits a b Hb Ha Hc E). cbn [obind fst]. apply expect_refl.
    - (* wrapping_rem *) unfold UDiv.wrapping_rem. now rewrite (div_rem_zero HZ bits a b Hc E).
    - unfold UDiv.wrapping_rem. rewrite (div_rem_eq HK bits a b Hb Ha Hc E). cbn [obind snd]. apply expect_refl.
    - (* checked_div *) unfold UDiv.checked_div. rewrite (is_zero_spec bits b Hb Hc), E. reflexivity.
    - unfold UDiv.checked_div, op_div_, UDiv.wrapping_div. rewrite (is_zero_spec bits b Hb Hc).
      destruct (Z.eqb_spec (eval b) 0); [contradiction|].
      rewrite (div_rem_eq HK bits a b Hb Ha Hc E). cbn [obind fst opt_toks]. apply expect_refl.
    - (* checked_rem *) unfold UDiv.checked_rem. rewrite (is_zero_spec bits b Hb Hc), E. reflexivity.
    - unfold UDiv.checked_rem, op_rem_, UDiv.wrapping_rem. rewrite (is_zero_spec bits b Hb Hc).
      destruct (Z.eqb_spec (eval b) 0); [contradiction|].
      rewrite (div_rem_eq HK bits a b Hb Ha Hc E). cbn [obind snd opt_toks]. apply expect_refl.
    - (* div_ceil *) unfold UDiv.div_ceil. now rewrite (div_rem_zero HZ bits a b Hc E).
    - rewrite (div_ceil_eq bits a b Hb Ha Hc E). cbn [obind]. apply expect_refl.
    - (* op_div *) unfold op_div_, UDiv.wrapping_div. now rewrite (div_rem_zero HZ bits a b Hc E).
    - unfold op_div_, UDiv.wrapping_div. rewrite (div_rem_eq HK bits a b Hb Ha Hc E). cbn [obind fst]. apply expect_refl.
    - (* op_rem *) unfold op_rem_, UDiv.wrapping_rem. now rewrite (div_rem_zero HZ bits a b Hc E).
    - unfold op_rem_, UDiv.wrapping_rem. rewrite (div_rem_eq HK bits a b Hb Ha Hc E). cbn [obind snd]. apply expect_refl.
    - (* checked_next_multiple_of *) rewrite (checked_nmo_zero bits a b Hb Hc E). reflexivity.
    - rewrite (checked_nmo_eq bits a b Hb Ha Hc E). cbn [obind].
      destruct (2 ^ bits <=? next_mult (eval a) (eval b)); cbn [opt_toks]; apply expect_refl.
    - (* next_multiple_of *) unfold UDiv.next_multiple_of. rewrite (checked_nmo_zero bits a b Hb Hc E). reflexivity.
    - unfold UDiv.next_multiple_of. rewrite (checked_nmo_eq bits a b Hb Ha Hc E). cbn [obind].
      destruct (2 ^ bits <=? next_mult (eval a) (eval b)); [reflexivity | apply expect_refl].
  Qed.
End WithKernel.

(* with the zero-divisor half discharged: only the Euclidean contract of the kernel remains *)
Theorem C03_all_modulo_kernel : DivKernelOK -> forall c, wf c -> spec c (run c) = true.
Proof. intros HK. exact (C03_all_partial HK DivKernelZero_holds). Qed.
