(* Proofs/PfGenDivTop.v — the generated definition of the top-level dispatch algorithms::div
   (src/algorithms/div/mod.rs; tools_rs2v.py, Gen/Scalar.v) is Model/Div.v's div_kernel.
   `let divisor = &mut divisor[..=i]` etc. are sub-slice views: Prim.subslice takes the window, and every
   return writes the windows back (Prim.splice), innermost first. *)
From Coq Require Import ZArith List Bool Lia Arith.
From RV.Model Require Import Base Word.
From RV.Model Require Limbs DivRecip DivSmall DivKnuth Div.
From RV.Gen Require Import Prim Scalar.
From RV.Proofs Require Import BaseFacts PfGenScalar PfGenAdd PfGenLimbs PfGenKnuth.
From RV.Proofs Require PfDiv PfDivSmall PfDivKnuth.
Import ListNotations.

Lemma irpos_eq l : iter_rposition (fun x => negb (x =? 0)) l = option_map Z.of_nat (Div.rposition_nz l).
Proof.
  induction l as [|x t IH]; cbn [iter_rposition Div.rposition_nz option_map]; [reflexivity|].
  rewrite IH. destruct (Div.rposition_nz t) as [i|]; cbn [option_map].
  - f_equal. lia.
  - destruct (x =? 0); reflexivity.
Qed.

Lemma subslice_prefix (t r : list Z) : subslice (t ++ r) 0 (Z.of_nat (length t)) = Val t.
Proof.
  unfold subslice, lenZ. rewrite app_length.
  replace ((0 <=? 0) && (0 <=? Z.of_nat (length t)) && (Z.of_nat (length t) <=? Z.of_nat (length t + length r))) with true by lia.
  cbn [Z.to_nat skipn]. rewrite Z.sub_0_r, Nat2Z.id, firstn_app, firstn_all, Nat.sub_diag. cbn [firstn]. now rewrite app_nil_r.
Qed.

Lemma splice0 (l w : list Z) : Prim.splice l 0 w = w ++ skipn (length w) l.
Proof. unfold Prim.splice. cbn [Z.to_nat firstn app Nat.add]. reflexivity. Qed.

Lemma splice0_app (t r w : list Z) : length w = length t -> Prim.splice (t ++ r) 0 w = w ++ r.
Proof. intros H. rewrite splice0, H, skipn_app, skipn_all, Nat.sub_diag. reflexivity. Qed.

Lemma nth_error_last' (t : list Z) : t <> [] -> nth_error t (Z.to_nat (lenZ t - 1)) = Some (last t 0).
Proof. apply PfGenLimbs.nth_error_last. Qed.

Lemma subslice_firstn (l : list Z) k : (k <= length l)%nat -> subslice l 0 (Z.of_nat k) = Val (firstn k l).
Proof.
  intros H. unfold subslice, lenZ.
  replace ((0 <=? 0) && (0 <=? Z.of_nat k) && (Z.of_nat k <=? Z.of_nat (length l))) with true by lia.
  cbn [Z.to_nat skipn]. rewrite Z.sub_0_r, Nat2Z.id. reflexivity.
Qed.
Lemma subslice_skipn (l : list Z) k : (k <= length l)%nat -> subslice l (Z.of_nat k) (lenZ l) = Val (skipn k l).
Proof.
  intros H. unfold subslice, lenZ.
  replace ((0 <=? Z.of_nat k) && (Z.of_nat k <=? Z.of_nat (length l)) && (Z.of_nat (length l) <=? Z.of_nat (length l))) with true by lia.
  rewrite Nat2Z.id. replace (Z.to_nat (Z.of_nat (length l) - Z.of_nat k)) with (length (skipn k l)) by (rewrite skipn_length; lia).
  rewrite firstn_all. reflexivity.
Qed.
Lemma splice_mid (l w : list Z) k : (k + length w = length l)%nat -> Prim.splice l (Z.of_nat k) w = firstn k l ++ w.
Proof.
  intros H. unfold Prim.splice. rewrite Nat2Z.id, skipn_all2 by lia. now rewrite app_nil_r.
Qed.

Theorem g_div_eq n d :
  Forall inW n -> Forall inW d -> lenZ n + 1 < B -> lenZ d + 1 < B ->
  g_div n d = Div.div_kernel n d.
Proof.
  intros Wn Wd Bn Bd. unfold g_div, Div.div_kernel. rewrite !irpos_eq.
  destruct (Div.rposition_nz d) as [i|] eqn:Ed; cbn [option_map obind]; [|reflexivity].
  destruct (PfDiv.rpos_some d i Ed) as (dt & dz & Hd & Ldt & Hdl).
  assert (Ndt : dt <> []) by (intros ->; discriminate).
  assert (Hi : Z.of_nat i + 1 = Z.of_nat (length dt)) by lia.
  assert (Ldle : (length dt <= length d)%nat) by (rewrite Hd, app_length; lia).
  rewrite chk64_ok by (unfold lenZ in *; lia). cbn [obind]. cbv zeta.
  rewrite Hi. rewrite Hd at 1. rewrite subslice_prefix. cbn [obind].
  replace (firstn (S i) d) with dt by (rewrite Hd, <- Ldt, firstn_app, firstn_all, Nat.sub_diag; cbn [firstn]; now rewrite app_nil_r).
  replace (skipn (S i) d) with (repeat 0 dz) by (rewrite Hd, <- Ldt, skipn_app, skipn_all, Nat.sub_diag; reflexivity).
  assert (Wdt : Forall inW dt) by (rewrite Hd in Wd; apply Forall_app in Wd; tauto).
  replace (lenZ dt =? 0) with false by (unfold lenZ; lia). cbn [negb].
  rewrite (nth_error_last' dt Ndt).
  replace (last dt 0 =? 0) with false by (symmetry; apply Z.eqb_neq; exact Hdl). cbn [negb].
  destruct (Div.rposition_nz n) as [k|] eqn:En; cbn [option_map].
  2:{ rewrite Hd, splice0_app by (apply repeat_length). reflexivity. }
  destruct (PfDiv.rpos_some n k En) as (nt & nz & Hn & Lnt & Hnl).
  assert (Nnt : nt <> []) by (intros ->; discriminate).
  assert (Hk : Z.of_nat k + 1 = Z.of_nat (length nt)) by lia.
  assert (Lnle : (length nt <= length n)%nat) by (rewrite Hn, app_length; lia).
  rewrite chk64_ok by (unfold lenZ in *; lia). cbn [obind].
  rewrite Hk. rewrite Hn at 1. rewrite subslice_prefix. cbn [obind].
  replace (firstn (S k) n) with nt by (rewrite Hn, <- Lnt, firstn_app, firstn_all, Nat.sub_diag; cbn [firstn]; now rewrite app_nil_r).
  replace (skipn (S k) n) with (repeat 0 nz) by (rewrite Hn, <- Lnt, skipn_app, skipn_all, Nat.sub_diag; reflexivity).
  assert (Wnt : Forall inW nt) by (rewrite Hn in Wn; apply Forall_app in Wn; tauto).
  replace (lenZ nt =? 0) with false by (unfold lenZ; lia). cbn [negb].
  rewrite (nth_error_last' nt Nnt). cbn [obind].
  replace (last nt 0 =? 0) with false by (symmetry; apply Z.eqb_neq; exact Hnl). cbn [negb].
  destruct (Z.ltb_spec (lenZ nt) (lenZ dt)) as [Hlt|Hlt], (Nat.ltb_spec (length nt) (length dt)) as [Hlt'|Hlt'];
    unfold lenZ in Hlt; try lia.
  - (* the numerator is shorter than the divisor: it is the remainder *)
    change (lenZ nt) with (Z.of_nat (length nt)). rewrite (subslice_firstn dt (length nt)) by lia. cbn [obind].
    rewrite (subslice_skipn dt (length nt)) by lia. cbn [obind].
    unfold lenZ. rewrite firstn_length, Nat.min_l by lia. rewrite Z.eqb_refl. cbn [negb].
    rewrite skipn_length.
    rewrite Hn at 1. rewrite splice0_app by (apply repeat_length).
    rewrite (splice_mid dt _ (length nt)) by (rewrite repeat_length; lia).
    rewrite (splice0 (firstn (length nt) dt ++ repeat 0 (length dt - length nt)) nt).
    rewrite skipn_app, firstn_length, Nat.min_l, Nat.sub_diag by lia.
    rewrite skipn_all2 by (rewrite firstn_length; lia). cbn [skipn app].
    rewrite Hd at 1. rewrite splice0_app by (rewrite app_length, repeat_length; lia).
    rewrite <- app_assoc. reflexivity.
  - replace (lenZ dt <=? lenZ nt) with true by (unfold lenZ; lia). cbn [negb].
    destruct (Z.leb_spec (lenZ dt) 2) as [H2|H2], (Nat.leb_spec (length dt) 2) as [H2'|H2']; unfold lenZ in H2; try lia.
    + destruct (Z.eqb_spec (lenZ dt) 1) as [H1|H1], (Nat.eqb_spec (length dt) 1) as [H1'|H1']; unfold lenZ in H1; try lia.
      * (* one divisor limb *)
        destruct dt as [|d0 [|? ?]]; try discriminate. cbn [last] in Hdl. cbn [nth].
        assert (Wd0 : inW d0) by (inversion Wdt; assumption).
        change (idx [d0] 0) with (Val d0 : outcome Z). cbn [obind].
        destruct (Z.eqb_spec (lenZ nt) 1) as [Hn1|Hn1], (Nat.eqb_spec (length nt) 1) as [Hn1'|Hn1']; unfold lenZ in Hn1; try lia.
        -- destruct nt as [|n0 [|? ?]]; try discriminate. cbn [nth].
           change (idx [n0] 0) with (Val n0 : outcome Z). cbn [obind].
           unfold chkdiv. replace (d0 =? 0) with false by (symmetry; apply Z.eqb_neq; exact Hdl). cbn [obind].
           change (upd [n0] 0 (n0 / d0)) with [n0 / d0]. change (upd [d0] 0 (n0 mod d0)) with [n0 mod d0].
           rewrite Hn at 1. rewrite Hd at 1. rewrite !splice0_app by reflexivity. reflexivity.
        -- assert (Hln : lenZ nt < B) by (unfold lenZ in *; lia).
           assert (Hd0 : 0 < d0 < B) by (unfold inW in Wd0; lia).
           rewrite (g_div_nx1_eq nt d0 Wnt Wd0 Hln).
           rewrite (PfDivSmall.div_nx1_spec nt d0 Wnt Hd0 Nnt Hnl). cbn [omap obind fst snd].
           change (upd [d0] 0 (eval nt mod d0)) with [eval nt mod d0].
           rewrite Hn at 1. rewrite Hd at 1.
           rewrite !splice0_app by (try reflexivity; unfold PfDivSmall.LQ; apply to_limbs_length). reflexivity.
      * (* two divisor limbs *)
        destruct dt as [|d0 [|d1 [|? ?]]]; try (cbn [length] in *; lia). cbn [last] in Hdl. cbn [nth].
        assert (Wd0 : inW d0) by (inversion Wdt; assumption).
        assert (Wd1 : inW d1) by (inversion Wdt as [|? ? ? W']; inversion W'; assumption).
        change (idx [d0; d1] 1) with (Val d1 : outcome Z). change (idx [d0; d1] 0) with (Val d0 : outcome Z). cbn [obind].
        rewrite (g_dw_join_eq d1 d0 Wd1 Wd0).
        assert (Hj : B <= DivRecip.join d1 d0 < B * B).
        { pose proof B_pos. unfold inW in Wd0, Wd1. assert (1 <= d1) by lia. unfold DivRecip.join. split; nia. }
        assert (Hj' : 0 <= DivRecip.join d1 d0 < BB) by (change BB with (2 ^ 128); rewrite B_val in Hj; lia).
        assert (Hln : lenZ nt < B) by (unfold lenZ in *; lia).
        rewrite (g_div_nx2_eq nt (DivRecip.join d1 d0) Wnt Hj' Hln).
        rewrite (PfDivSmall.div_nx2_spec nt _ Wnt Hj Nnt Hnl). cbn [omap obind fst snd].
        change (idx [d0; d1] 0) with (Val d0 : outcome Z). cbn [obind].
        set (r := eval nt mod DivRecip.join d1 d0).
        assert (Hr : 0 <= r < BB).
        { unfold r. pose proof (Z.mod_pos_bound (eval nt) (DivRecip.join d1 d0) ltac:(pose proof B_pos; lia)).
          change BB with (2 ^ 128). rewrite B_val in Hj. lia. }
        change (upd [d0; d1] 0 (g_dw_low r)) with [g_dw_low r; d1].
        change (idx [g_dw_low r; d1] 1) with (Val d1 : outcome Z). cbn [obind].
        change (upd [g_dw_low r; d1] 1 (g_dw_high r)) with [g_dw_low r; g_dw_high r].
        rewrite g_dw_low_eq, (g_dw_high_eq r Hr).
        rewrite Hn at 1. rewrite Hd at 1.
        rewrite !splice0_app by (try reflexivity; unfold PfDivSmall.LQ; apply to_limbs_length). reflexivity.
    + (* Knuth *)
      assert (Hln : lenZ nt + 1 < B) by (unfold lenZ in *; lia).
      assert (H3 : (3 <= length dt)%nat) by lia.
      rewrite (g_div_nxm_eq nt dt Wnt Wdt Hln).
      rewrite (PfDivKnuth.div_nxm_spec nt dt Wnt Wdt H3 Hlt' Hdl). cbn [obind fst snd].
      rewrite Hn at 1. rewrite Hd at 1.
      rewrite !splice0_app by (apply to_limbs_length). reflexivity.
Qed.
