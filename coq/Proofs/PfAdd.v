(* Proofs/PfAdd.v — add.rs: carry chains and the Uint-level add/sub/neg theorems. *)
From Coq Require Import ZArith List Bool Lia.
From RV.Model Require Import Base Word Add.
From RV.Proofs Require Import BaseFacts.
Import ListNotations.
Local Open Scope Z_scope.

(* ---------- word level ---------- *)
Lemma carrying_add_spec x y c :
  inW x -> inW y ->
  let '(r, c') := carrying_add x y c in
  inW r /\ r + B * b2z c' = x + y + b2z c.
Proof.
  unfold inW, carrying_add, ov_add. rewrite B_val. intros Hx Hy.
  destruct c; cbn [b2z];
  match goal with |- context [?a <=? ?b] => destruct (Z.leb_spec a b) end;
  match goal with |- context [?a <=? ?b] => destruct (Z.leb_spec a b) end;
  cbn [orb b2z]; Z.div_mod_to_equations; lia.
Qed.

Lemma borrowing_sub_spec x y c :
  inW x -> inW y ->
  let '(r, c') := borrowing_sub x y c in
  inW r /\ r - B * b2z c' = x - y - b2z c.
Proof.
  unfold inW, borrowing_sub, ov_sub. rewrite B_val. intros Hx Hy.
  destruct c; cbn [b2z];
  match goal with |- context [?a <? ?b] => destruct (Z.ltb_spec a b) end;
  match goal with |- context [?a <? ?b] => destruct (Z.ltb_spec a b) end;
  cbn [orb b2z]; Z.div_mod_to_equations; lia.
Qed.

(* ---------- carry chains ---------- *)
Lemma add_loop_spec a : forall b c,
  length a = length b -> Forall inW a -> Forall inW b ->
  let '(r, c') := add_loop a b c in
  length r = length a /\ Forall inW r /\
  eval r + B ^ Z.of_nat (length a) * b2z c' = eval a + eval b + b2z c.
Proof.
  induction a as [|x a IH]; intros [|y b] c Hl Ha Hb; cbn [length] in Hl; try discriminate.
  - cbn [add_loop length eval]. rewrite Z.pow_0_r. repeat split; auto; lia.
  - inversion Ha as [|? ? Hx Ha']; inversion Hb as [|? ? Hy Hb']; subst.
    cbn [add_loop]. pose proof (carrying_add_spec x y c Hx Hy) as Hw.
    destruct (carrying_add x y c) as [r c1]. destruct Hw as [Hr Hc].
    specialize (IH b c1 ltac:(lia) Ha' Hb').
    destruct (add_loop a b c1) as [rs c2]. destruct IH as (IHl & IHw & IHe).
    cbn [length eval]. rewrite Bn_S. repeat split; [lia | constructor; auto | nia].
Qed.

Lemma sub_loop_spec a : forall b c,
  length a = length b -> Forall inW a -> Forall inW b ->
  let '(r, c') := sub_loop a b c in
  length r = length a /\ Forall inW r /\
  eval r - B ^ Z.of_nat (length a) * b2z c' = eval a - eval b - b2z c.
Proof.
  induction a as [|x a IH]; intros [|y b] c Hl Ha Hb; cbn [length] in Hl; try discriminate.
  - cbn [sub_loop length eval]. rewrite Z.pow_0_r. repeat split; auto; lia.
  - inversion Ha as [|? ? Hx Ha']; inversion Hb as [|? ? Hy Hb']; subst.
    cbn [sub_loop]. pose proof (borrowing_sub_spec x y c Hx Hy) as Hw.
    destruct (borrowing_sub x y c) as [r c1]. destruct Hw as [Hr Hc].
    specialize (IH b c1 ltac:(lia) Ha' Hb').
    destruct (sub_loop a b c1) as [rs c2]. destruct IH as (IHl & IHw & IHe).
    cbn [length eval]. rewrite Bn_S. repeat split; [lia | constructor; auto | nia].
Qed.

(* ---------- Uint level ---------- *)
Lemma Bn_multiple bits :
  0 < bits -> exists k, 0 < k /\ B ^ nlimbs bits = 2 ^ bits * k.
Proof.
  intros H. pose proof (nlimbs_bounds bits H).
  exists (2 ^ (64 * nlimbs bits - bits)). split; [apply Z.pow_pos_nonneg; lia|].
  rewrite B_pow, <- Z.pow_mul_r, <- Z.pow_add_r by lia. f_equal. lia.
Qed.

Theorem overflowing_add_spec bits a b :
  0 <= bits -> canon bits a -> canon bits b ->
  let '(r, f) := overflowing_add bits a b in
  canon bits r /\ eval r = (eval a + eval b) mod 2 ^ bits /\
  f = (2 ^ bits <=? eval a + eval b).
Proof.
  intros Hb Ha Hc. unfold overflowing_add.
  destruct (Z.eqb_spec bits 0) as [->|N].
  - apply canon_zero_width in Ha, Hc. subst. cbn. unfold canon. cbn. repeat split; auto.
  - assert (Hpos : 0 < bits) by lia.
    destruct Ha as (Hla & Hwa & Hra), Hc as (Hlb & Hwb & Hrb).
    pose proof (eval_bound a Hwa) as Hea. pose proof (eval_bound b Hwb) as Heb.
    pose proof (add_loop_spec a b false ltac:(congruence) Hwa Hwb) as Hs.
    destruct (add_loop a b false) as [r c]. destruct Hs as (Hlr & Hwr & Her).
    cbn [b2z] in Her. rewrite Z.add_0_r in Her.
    assert (Hlen : length r = nlimbsN bits) by congruence.
    destruct (masked_spec bits r Hpos Hlen Hwr) as [Hcan Hev].
    rewrite (last_gt_mask bits r Hpos Hlen Hwr).
    pose proof (eval_bound r Hwr) as Hrb'. rewrite Hlr, Hla, nlimbsN_Z in * by lia.
    destruct (Bn_multiple bits Hpos) as (k & Hk & HBk).
    assert (H2 : 0 < 2 ^ bits) by (apply Z.pow_pos_nonneg; lia).
    split; [exact Hcan|]. split.
    + rewrite Hev. rewrite <- Her.
      destruct c; cbn [b2z]; rewrite ?Z.mul_0_r, ?Z.add_0_r, ?Z.mul_1_r; [|reflexivity].
      rewrite HBk, (Z.mul_comm (2 ^ bits)), Z.mod_add by lia. reflexivity.
    + destruct c; cbn [b2z orb] in *.
      * symmetry. apply Z.leb_le. nia.
      * f_equal. lia.
Qed.

Theorem overflowing_sub_spec bits a b :
  0 <= bits -> canon bits a -> canon bits b ->
  let '(r, f) := overflowing_sub bits a b in
  canon bits r /\ eval r = (eval a - eval b) mod 2 ^ bits /\
  f = (eval a <? eval b).
Proof.
  intros Hb Ha Hc. unfold overflowing_sub.
  destruct (Z.eqb_spec bits 0) as [->|N].
  - apply canon_zero_width in Ha, Hc. subst. cbn. unfold canon. cbn. repeat split; auto.
  - assert (Hpos : 0 < bits) by lia.
    destruct Ha as (Hla & Hwa & Hra), Hc as (Hlb & Hwb & Hrb).
    pose proof (eval_bound a Hwa) as Hea. pose proof (eval_bound b Hwb) as Heb.
    pose proof (sub_loop_spec a b false ltac:(congruence) Hwa Hwb) as Hs.
    destruct (sub_loop a b false) as [r c]. destruct Hs as (Hlr & Hwr & Her).
    cbn [b2z] in Her. rewrite Z.sub_0_r in Her.
    assert (Hlen : length r = nlimbsN bits) by congruence.
    destruct (masked_spec bits r Hpos Hlen Hwr) as [Hcan Hev].
    rewrite (last_gt_mask bits r Hpos Hlen Hwr).
    pose proof (eval_bound r Hwr) as Hrb'. rewrite Hlr, Hla, nlimbsN_Z in * by lia.
    destruct (Bn_multiple bits Hpos) as (k & Hk & HBk).
    assert (H2 : 0 < 2 ^ bits) by (apply Z.pow_pos_nonneg; lia).
    split; [exact Hcan|]. split.
    + rewrite Hev. rewrite <- Her.
      destruct c; cbn [b2z]; rewrite ?Z.mul_0_r, ?Z.sub_0_r, ?Z.mul_1_r; [|reflexivity].
      rewrite HBk. replace (eval r - 2 ^ bits * k) with (eval r + (- k) * 2 ^ bits) by ring.
      rewrite Z.mod_add by lia. reflexivity.
    + destruct c; cbn [b2z orb] in *.
      * symmetry. apply Z.ltb_lt. nia.
      * (* no borrow: a >= b, and the difference is below 2^bits *)
        destruct (Z.ltb_spec (eval a) (eval b)); [nia|].
        apply Z.leb_gt. lia.
Qed.
