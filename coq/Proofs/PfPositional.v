(* Proofs/PfPositional.v — facts about the specification functions of RunC09:
   digits_le / digits_be / value_le / value_be (positional notation). *)
From Coq Require Import ZArith List Bool Lia.
From RV.Model Require Import Base.
From RV.Proofs Require Import BaseFacts.
From RV.Run Require Import RunC09.
Import ListNotations.
Local Open Scope Z_scope.

Definition digit_ok (b d : Z) : Prop := 0 <= d < b.

Lemma div_lt_half b v n :
  2 <= b -> 0 <= v < 2 ^ Z.of_nat (S n) -> 0 <= v / b < 2 ^ Z.of_nat n.
Proof.
  intros Hb Hv. rewrite Nat2Z.inj_succ, Z.pow_succ_r in Hv by lia.
  assert (0 < 2 ^ Z.of_nat n) by (apply Z.pow_pos_nonneg; lia).
  split; [apply Z.div_pos; lia|].
  apply Z.div_lt_upper_bound; [lia|]. nia.
Qed.

(* fuel independence *)
Lemma digits_le_fuel_enough b : 2 <= b ->
  forall n v, 0 <= v < 2 ^ Z.of_nat n ->
  forall m, v < 2 ^ Z.of_nat m -> digits_le_fuel n b v = digits_le_fuel m b v.
Proof.
  intros Hb. induction n as [|n IH]; intros v Hv m Hm.
  - cbn in Hv. assert (v = 0) by lia. subst. destruct m; reflexivity.
  - destruct m as [|m].
    + cbn in Hm. assert (v = 0) by lia. subst. reflexivity.
    + cbn [digits_le_fuel]. destruct (Z.leb_spec v 0); [reflexivity|].
      f_equal. pose proof (div_lt_half b v n Hb Hv). pose proof (div_lt_half b v m Hb ltac:(lia)).
      apply IH; lia.
Qed.

Lemma log2_fuel v : 0 <= v -> v < 2 ^ Z.of_nat (S (Z.to_nat (Z.log2 v))).
Proof.
  intros Hv. destruct (Z.eq_dec v 0) as [->|N]; [cbn; lia|].
  pose proof (Z.log2_spec v ltac:(lia)) as [_ H]. pose proof (Z.log2_nonneg v).
  rewrite Nat2Z.inj_succ, Z2Nat.id by lia. exact H.
Qed.

Lemma digits_le_0 b v : v <= 0 -> digits_le b v = [].
Proof. intros H. unfold digits_le. cbn [digits_le_fuel]. destruct (Z.leb_spec v 0); [reflexivity|lia]. Qed.

Lemma digits_le_step b v : 2 <= b -> 0 < v ->
  digits_le b v = v mod b :: digits_le b (v / b).
Proof.
  intros Hb Hv. unfold digits_le at 1. cbn [digits_le_fuel].
  destruct (Z.leb_spec v 0); [lia|]. f_equal.
  pose proof (log2_fuel v ltac:(lia)) as Hf.
  pose proof (div_lt_half b v _ Hb (conj (Z.lt_le_incl _ _ Hv) Hf)) as Hd.
  unfold digits_le. apply digits_le_fuel_enough; [lia|lia|].
  apply log2_fuel. lia.
Qed.

(* induction principle following the digit recursion *)
Lemma digits_ind b (P : Z -> Prop) : 2 <= b ->
  (forall v, v <= 0 -> P v) ->
  (forall v, 0 < v -> P (v / b) -> P v) ->
  forall v, P v.
Proof.
  intros Hb H0 HS v.
  assert (A : forall n : nat, forall v, v < Z.of_nat n -> P v).
  { induction n as [|n IH]; intros w Hw; [apply H0; lia|].
    destruct (Z.le_gt_cases w 0) as [L|G]; [auto|].
    apply HS; [lia|]. apply IH.
    assert (w / b < w) by (apply Z.div_lt; lia). lia. }
  destruct (Z.le_gt_cases v 0) as [L|G]; [auto|].
  apply (A (Z.to_nat (v + 1))). lia.
Qed.

Lemma value_digits b v : 2 <= b -> 0 <= v -> value_le b (digits_le b v) = v.
Proof.
  intros Hb. revert v. apply (digits_ind b (fun v => 0 <= v -> value_le b (digits_le b v) = v) Hb).
  - intros v H H'. rewrite digits_le_0 by lia. cbn. lia.
  - intros v Hv IH _. rewrite digits_le_step by lia. cbn [value_le].
    rewrite IH by (apply Z.div_pos; lia). pose proof (Z.div_mod v b ltac:(lia)). lia.
Qed.

Lemma digits_range b v : 2 <= b -> Forall (digit_ok b) (digits_le b v).
Proof.
  intros Hb. revert v. apply (digits_ind b (fun v => Forall (digit_ok b) (digits_le b v)) Hb).
  - intros v H. rewrite digits_le_0 by lia. constructor.
  - intros v Hv IH. rewrite digits_le_step by lia. constructor; [|exact IH].
    apply Z.mod_pos_bound. lia.
Qed.

Lemma digits_nil_iff b v : 2 <= b -> (digits_le b v = [] <-> v <= 0).
Proof.
  intros Hb. split.
  - intros H. destruct (Z.le_gt_cases v 0); [auto|]. rewrite digits_le_step in H by lia. discriminate.
  - apply digits_le_0.
Qed.

(* no leading zero: the most significant digit is not 0 *)
Lemma digits_last_nonzero b v : 2 <= b -> 0 < v -> last (digits_le b v) 0 <> 0.
Proof.
  intros Hb. revert v.
  apply (digits_ind b (fun v => 0 < v -> last (digits_le b v) 0 <> 0) Hb); [intros; lia|].
  intros v Hv IH _. rewrite digits_le_step by lia.
  destruct (Z.le_gt_cases (v / b) 0) as [L|G].
  - rewrite (digits_le_0 b (v / b)) by lia. cbn [last].
    assert (v / b = 0) by (pose proof (Z.div_pos v b); lia).
    pose proof (Z.div_mod v b ltac:(lia)). lia.
  - specialize (IH G). destruct (digits_le b (v / b)) eqn:E; [rewrite digits_nil_iff in E; lia|].
    exact IH.
Qed.

Lemma value_le_nonneg b ds : 0 <= b -> Forall (fun d => 0 <= d) ds -> 0 <= value_le b ds.
Proof. intros Hb H. induction H; cbn [value_le]; nia. Qed.

Lemma value_le_app b l r :
  value_le b (l ++ r) = value_le b l + b ^ Z.of_nat (length l) * value_le b r.
Proof.
  induction l as [|x l IH]; cbn [app value_le length].
  - change (Z.of_nat 0) with 0. rewrite Z.pow_0_r. lia.
  - rewrite IH, Nat2Z.inj_succ, Z.pow_succ_r by lia. ring.
Qed.

Lemma last_default {A} (l : list A) d1 d2 : l <> [] -> last l d1 = last l d2.
Proof.
  induction l as [|x l IH]; [congruence|]. intros _. destruct l; [reflexivity|].
  cbn [last] in *. apply IH. discriminate.
Qed.

(* uniqueness of positional notation *)
Lemma value_le_pos b ds : 2 <= b -> Forall (digit_ok b) ds -> ds <> [] -> last ds 0 <> 0 ->
  0 < value_le b ds.
Proof.
  intros Hb H. induction H as [|d t Hd Ht IH]; [congruence|]. intros _ Hl.
  cbn [value_le]. unfold digit_ok in Hd. destruct t as [|d' t'].
  - cbn in Hl. cbn. lia.
  - assert (0 < value_le b (d' :: t')) by (apply IH; [discriminate | exact Hl]). nia.
Qed.

Lemma digits_unique b ds : 2 <= b -> Forall (digit_ok b) ds -> last ds 1 <> 0 ->
  digits_le b (value_le b ds) = ds.
Proof.
  intros Hb H. induction H as [|d t Hd Ht IH]; intros Hl.
  - cbn [value_le]. apply digits_le_0. lia.
  - unfold digit_ok in Hd. cbn [value_le].
    assert (Hq : (d + b * value_le b t) mod b = d /\ (d + b * value_le b t) / b = value_le b t)
      by (apply div_mod_lin; lia).
    destruct Hq as [Hm Hdv].
    assert (Hnn : 0 <= value_le b t).
    { apply value_le_nonneg; [lia|]. eapply Forall_impl; [|exact Ht]. unfold digit_ok. intros; lia. }
    destruct t as [|d' t'].
    + cbn in Hl. cbn [value_le]. rewrite Z.mul_0_r, Z.add_0_r.
      rewrite digits_le_step by lia. rewrite Z.mod_small, Z.div_small by lia.
      now rewrite digits_le_0 by lia.
    + assert (0 < value_le b (d' :: t')).
      { apply value_le_pos; auto; [discriminate|].
        rewrite (last_default (d' :: t') 0 1) by discriminate. exact Hl. }
      rewrite digits_le_step by lia. rewrite Hm, Hdv. f_equal. apply IH. exact Hl.
Qed.

Lemma digits_length_le b : 2 <= b -> forall n v, v < 2 ^ Z.of_nat n ->
  (length (digits_le b v) <= n)%nat.
Proof.
  intros Hb. induction n as [|n IH]; intros v Hv.
  - cbn in Hv. rewrite digits_le_0 by lia. cbn. lia.
  - destruct (Z.le_gt_cases v 0) as [L|G]; [rewrite digits_le_0 by lia; cbn; lia|].
    rewrite digits_le_step by lia. cbn [length].
    pose proof (div_lt_half b v n Hb ltac:(lia)). specialize (IH (v / b) ltac:(lia)). lia.
Qed.

(* big-endian value: Horner *)
Lemma value_be_cons b d t : value_be b (d :: t) = d * b ^ Z.of_nat (length t) + value_be b t.
Proof. unfold value_be. cbn [rev]. rewrite value_le_app, rev_length. cbn [value_le]. ring. Qed.
Lemma value_be_nil b : value_be b [] = 0. Proof. reflexivity. Qed.

Lemma split_bad_all b ds : Forall (fun d => d < b) ds -> split_bad b ds = (ds, None).
Proof.
  induction 1 as [|d t Hd Ht IH]; cbn [split_bad]; [reflexivity|].
  destruct (Z.leb_spec b d); [lia|]. now rewrite IH.
Qed.

Lemma list_eqb_refl {A} (eqb : A -> A -> bool) (l : list A) :
  (forall x, eqb x x = true) -> list_eqb eqb l l = true.
Proof. intros H. induction l as [|x l IH]; cbn; [reflexivity | now rewrite H, IH]. Qed.
Lemma tok_eqb_refl t : tok_eqb t t = true.
Proof.
  destruct t; cbn; auto using Z.eqb_refl, eqb_reflx;
    apply list_eqb_refl; apply Z.eqb_refl.
Qed.
Lemma expect_refl t : expect (Val t) t = true.
Proof. unfold expect. cbn. apply list_eqb_refl, tok_eqb_refl. Qed.
