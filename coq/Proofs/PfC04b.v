(* Proofs/PfC04b.v — property C04 part (b): on canonical values ==, Hash, cmp, <, <=, >, >=, min,
   max, clamp, is_zero are functions of the denoted integer. *)
From Coq Require Import ZArith List Bool Lia.
From RV.Model Require Import Base Word Cmp.
From RV.Model Require Add.
From RV.Proofs Require Import BaseFacts.
From RV.Proofs Require PfC01.
From RV.Run Require Import RunC04b.
Local Open Scope Z_scope.

(* ---------- boolean list equality is equality ---------- *)
Lemma list_eqb_Z_eq (a b : list Z) : list_eqb Z.eqb a b = true <-> a = b.
Proof.
  revert b. induction a as [|x a IH]; intros [|y b]; cbn [list_eqb]; split; intros H;
    try reflexivity; try discriminate.
  - apply andb_true_iff in H. destruct H as [Hx Hr]. apply Z.eqb_eq in Hx. apply IH in Hr. congruence.
  - injection H as -> ->. rewrite Z.eqb_refl. cbn. now apply IH.
Qed.

(* ---------- equality follows the value (injectivity of eval on canonical lists) ---------- *)
Theorem eq_iff_value bits a b : canon bits a -> canon bits b -> (a = b <-> eval a = eval b).
Proof.
  intros (Hla & Hwa & _) (Hlb & Hwb & _). split; [now intros ->|].
  intros He. apply eval_inj; auto. congruence.
Qed.

Lemma ueq_spec bits a b : canon bits a -> canon bits b -> ueq a b = (eval a =? eval b).
Proof.
  intros Ha Hb. unfold ueq. destruct (Z.eqb_spec (eval a) (eval b)) as [E|N].
  - apply list_eqb_Z_eq. now apply (eq_iff_value bits).
  - destruct (list_eqb Z.eqb a b) eqn:L; [|reflexivity].
    apply list_eqb_Z_eq in L. subst. contradiction.
Qed.

(* Hash is a function of the limb list, hence of the value *)
Theorem hash_value bits a b : canon bits a -> canon bits b -> eval a = eval b -> uhash a = uhash b.
Proof. intros Ha Hb He. apply (eq_iff_value bits) in He; auto. now subst. Qed.
(* the derive hashes exactly the limb array *)
Lemma hash_is_array_hash a : uhash a = hash_limb_array a.
Proof. reflexivity. Qed.

Lemma is_zero_spec bits a : 0 <= bits -> canon bits a -> is_zero bits a = (eval a =? 0).
Proof.
  intros Hb Ha. unfold is_zero. destruct (canon_uZERO bits Hb) as [Hz Hz0].
  rewrite (ueq_spec bits) by auto. now rewrite Hz0.
Qed.

(* ---------- ordering follows the value ---------- *)
Theorem cmp_spec bits a b : canon bits a -> canon bits b -> ucmp a b = Z.compare (eval a) (eval b).
Proof.
  intros (Hla & Hwa & _) (Hlb & Hwb & _). unfold ucmp. apply PfC01.limbs_cmp_spec; auto. congruence.
Qed.

Section Ord.
  Variables (bits : Z) (a b : list Z).
  Hypotheses (Ha : canon bits a) (Hb : canon bits b).

  Lemma ult_spec : ult a b = (eval a <? eval b).
  Proof. unfold ult, partial_cmp. rewrite (cmp_spec bits) by auto. unfold Z.ltb. now destruct (eval a ?= eval b). Qed.
  Lemma ule_spec : ule a b = (eval a <=? eval b).
  Proof. unfold ule, partial_cmp. rewrite (cmp_spec bits) by auto. unfold Z.leb. now destruct (eval a ?= eval b). Qed.
  Lemma ugt_spec : ugt a b = (eval b <? eval a).
  Proof.
    unfold ugt, partial_cmp, Z.ltb. rewrite (cmp_spec bits) by auto. rewrite (Z.compare_antisym (eval a) (eval b)).
    now destruct (eval a ?= eval b).
  Qed.
  Lemma uge_spec : uge a b = (eval b <=? eval a).
  Proof.
    unfold uge, partial_cmp, Z.leb. rewrite (cmp_spec bits) by auto. rewrite (Z.compare_antisym (eval a) (eval b)).
    now destruct (eval a ?= eval b).
  Qed.
  Lemma ord_code_spec : ord_code (ucmp a b) = cmp_code (eval a) (eval b).
  Proof.
    rewrite (cmp_spec bits) by auto. unfold cmp_code.
    destruct (Z.compare_spec (eval a) (eval b)); destruct (Z.ltb_spec (eval a) (eval b));
      destruct (Z.eqb_spec (eval a) (eval b)); try lia; reflexivity.
  Qed.
  Lemma umin_spec : canon bits (umin a b) /\ eval (umin a b) = Z.min (eval a) (eval b).
  Proof.
    unfold umin. rewrite (cmp_spec bits) by auto.
    destruct (Z.compare_spec (eval a) (eval b)); split; auto; lia.
  Qed.
  Lemma umax_spec : canon bits (umax a b) /\ eval (umax a b) = Z.max (eval a) (eval b).
  Proof.
    unfold umax. rewrite (cmp_spec bits) by auto.
    destruct (Z.compare_spec (eval a) (eval b)); split; auto; lia.
  Qed.
End Ord.

Lemma uclamp_spec bits a lo hi : canon bits a -> canon bits lo -> canon bits hi ->
  uclamp a lo hi =
  if eval lo <=? eval hi then
    Val (if eval a <? eval lo then lo else if eval hi <? eval a then hi else a)
  else Panic.
Proof.
  intros Ha Hl Hh. unfold uclamp.
  now rewrite (ule_spec bits lo hi), (ult_spec bits a lo), (ugt_spec bits a hi) by auto.
Qed.

(* ---------- the property ---------- *)
Lemma tok_eqb_refl t : tok_eqb t t = true. Proof. exact (PfC01.tok_eqb_refl t). Qed.
Lemma expect_U bits l v : canon bits l -> eval l = v -> tok_eqb (TL l) (U bits v) = true.
Proof. intros Hc He. unfold U. rewrite <- (uint_of_unique bits l v Hc He). apply tok_eqb_refl. Qed.

Theorem C04b_all c : wf c -> spec c (run c) = true.
Proof.
  destruct c as [bits a b|bits a lo hi]; cbn [wf spec run].
  - intros (Hb & Ha & Hc).
    rewrite (ord_code_spec bits a b Ha Hc). unfold oord_code, partial_cmp.
    rewrite (ord_code_spec bits a b Ha Hc).
    unfold une. rewrite (ueq_spec bits a b Ha Hc), (ult_spec bits a b Ha Hc), (ule_spec bits a b Ha Hc),
      (ugt_spec bits a b Ha Hc), (uge_spec bits a b Ha Hc), (is_zero_spec bits a Hb Ha).
    destruct (umin_spec bits a b Ha Hc) as [Cmin Emin]. destruct (umax_spec bits a b Ha Hc) as [Cmax Emax].
    rewrite !eqb_reflx, !Z.eqb_refl, (expect_U bits _ _ Cmin Emin), (expect_U bits _ _ Cmax Emax).
    cbn [andb].
    destruct (Z.eqb_spec (eval a) (eval b)) as [E|N]; [|reflexivity].
    rewrite (hash_value bits a b Ha Hc E). now rewrite Z.eqb_refl.
  - intros (Hb & Ha & Hl & Hh). rewrite (uclamp_spec bits) by auto.
    destruct (Z.leb_spec (eval lo) (eval hi)) as [L|L]; [|reflexivity].
    cbn [obind]. unfold expect. cbn [result_eqb list_eqb]. rewrite andb_true_r.
    destruct (Z.ltb_spec (eval a) (eval lo)); [apply expect_U; auto; lia|].
    destruct (Z.ltb_spec (eval hi) (eval a)); apply expect_U; auto; lia.
Qed.
