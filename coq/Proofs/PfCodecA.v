(* Proofs/PfCodecA.v — characterising lemmas for Model/CodecA.v against Spec/FmtA.v:
   encoders emit the reference encodings; length() is the byte count; the decoders' framing
   (Header::decode, rlp::Rlp::data / decode_value, bincode) accepts exactly / at most what the
   grammar generates; every index, slice and subtraction of the glue is in range. *)
From Coq Require Import ZArith List Bool Lia.
From RV.Model Require Import Base Word Bytes BaseConv CodecA.
From RV.Model Require Bits Conv Fmt Str.
From RV.Spec Require Import FmtA.
From RV.Proofs Require Import BaseFacts PfBytes.
From RV.Proofs Require PfC08 PfBits PfConv PfPositional PfStr PfFmt.
From RV.Run Require RunC06 RunC08 RunC09.
Import ListNotations.
Local Open Scope Z_scope.

(* ---------- Spec/FmtA vocabulary = proof vocabulary ---------- *)
Lemma be_fixed_digits n v : be_fixed n v = rev (le_digits (Z.to_nat n) v).
Proof. apply PfC08.be_bytes_digits. Qed.
Lemma be_min_digits v : be_min v = rev (le_digits (Z.to_nat (bytelen v)) v).
Proof. unfold be_min. rewrite PfC08.ndigits_bytelen. apply PfC08.be_bytes_digits. Qed.
Lemma be_val_value bs : be_val bs = le_value (rev bs).
Proof. apply PfC08.be_val_value. Qed.
Lemma le64_digits v : le64 v = le_digits 8 v.
Proof. unfold le64. now rewrite PfC08.le_bytes_digits. Qed.
Lemma SBYTES_nbytes bits : 0 <= bits -> SBYTES bits = nbytes bits.
Proof. apply PfC08.SBYTES_nbytes. Qed.

Lemma lenZ_firstn {A} n (l : list A) : 0 <= n <= lenZ l -> lenZ (firstn (Z.to_nat n) l) = n.
Proof. intros H. unfold lenZ in *. rewrite firstn_length. lia. Qed.
Lemma lenZ_skipn {A} n (l : list A) : 0 <= n <= lenZ l -> lenZ (skipn (Z.to_nat n) l) = lenZ l - n.
Proof. intros H. unfold lenZ in *. rewrite skipn_length. lia. Qed.
Lemma lenZ_le_digits n v : lenZ (le_digits n v) = Z.of_nat n.
Proof. unfold lenZ. now rewrite le_digits_length. Qed.

Lemma lenZ_be_min v : 0 <= v -> lenZ (be_min v) = bytelen v.
Proof.
  intros H. rewrite be_min_digits, lenZ_rev, lenZ_le_digits, Z2Nat.id; [reflexivity|].
  now apply bytelen_nonneg.
Qed.
Lemma be_min_isbyte v : Forall isbyte (be_min v).
Proof. rewrite be_min_digits. apply Forall_rev, le_digits_isbyte. Qed.
Lemma be_fixed_isbyte n v : Forall isbyte (be_fixed n v).
Proof. rewrite be_fixed_digits. apply Forall_rev, le_digits_isbyte. Qed.
Lemma be_val_be_min v : 0 <= v -> be_val (be_min v) = v.
Proof.
  intros H. rewrite be_val_value, be_min_digits, rev_involutive, le_value_le_digits.
  rewrite Z2Nat.id by now apply bytelen_nonneg. apply Z.mod_small. split; [lia|now apply bytelen_bound].
Qed.

(* the digits above the significant ones are zero *)
Lemma le_digits_split n k v :
  (k <= n)%nat -> 0 <= v < 256 ^ Z.of_nat k ->
  le_digits n v = le_digits k v ++ repeat 0 (n - k).
Proof.
  intros Hk Hv. replace n with (k + (n - k))%nat at 1 by lia.
  rewrite le_digits_app. f_equal. rewrite Z.div_small by lia. apply le_digits_0.
Qed.

(* top digit of the minimal form is non-zero *)
Lemma le_digits_top_nonzero v : 0 < v ->
  exists i x, le_digits (Z.to_nat (bytelen v)) v = i ++ [x] /\ x <> 0 /\ isbyte x.
Proof.
  intros Hv. destruct (bytelen_spec v Hv) as (H1 & Hlo & Hhi).
  set (k := bytelen v) in *.
  replace (Z.to_nat k) with (Z.to_nat (k - 1) + 1)%nat by lia.
  rewrite le_digits_app. exists (le_digits (Z.to_nat (k - 1)) v), ((v / 256 ^ (k - 1)) mod 256).
  rewrite Z2Nat.id by lia. split; [now rewrite le_digits_S|].
  assert (0 < 256 ^ (k - 1)) by (apply Z.pow_pos_nonneg; lia).
  assert (E : 256 ^ k = 256 * 256 ^ (k - 1)).
  { replace k with (Z.succ (k - 1)) at 1 by lia. rewrite Z.pow_succ_r by lia. reflexivity. }
  assert (1 <= v / 256 ^ (k - 1) < 256).
  { split; [apply Z.div_le_lower_bound; lia|apply Z.div_lt_upper_bound; lia]. }
  rewrite Z.mod_small by lia. unfold isbyte. lia.
Qed.

Lemma be_min_0 : be_min 0 = [].
Proof. reflexivity. Qed.
Lemma be_min_head v : 0 < v -> exists x t, be_min v = x :: t /\ x <> 0 /\ isbyte x.
Proof.
  intros Hv. destruct (le_digits_top_nonzero v Hv) as (i & x & E & Hx & Hb).
  rewrite be_min_digits, E, rev_app_distr. cbn. eauto.
Qed.

(* a byte string without leading zero is the minimal form of its value *)
Lemma be_min_be_val p : Forall isbyte p ->
  (match p with b :: _ => b <> 0 | [] => True end) -> be_min (be_val p) = p.
Proof.
  intros Hp Hlead. rewrite be_val_value, be_min_digits.
  assert (Hr : Forall isbyte (rev p)) by now apply Forall_rev.
  pose proof (le_value_bound (rev p) Hr) as Hb. rewrite rev_length in Hb.
  assert (Hk : bytelen (le_value (rev p)) = lenZ p).
  { destruct p as [|b t]; [reflexivity|].
    apply bytelen_unique; [rewrite lenZ_cons; pose proof (lenZ_nonneg t); lia|].
    split; [|unfold lenZ; lia].
    cbn [rev]. rewrite le_value_app. cbn [le_value]. rewrite rev_length.
    inversion Hp as [|? ? Hbb Ht]; subst. apply Forall_rev in Ht.
    pose proof (le_value_bound (rev t) Ht). unfold isbyte in Hbb.
    rewrite lenZ_cons. replace (1 + lenZ t - 1) with (Z.of_nat (length t)) by (unfold lenZ; lia).
    pose proof (p256_pos (length t)). nia. }
  rewrite Hk. unfold lenZ. rewrite Nat2Z.id. rewrite <- (rev_length p).
  rewrite le_digits_le_value by exact Hr. apply rev_involutive.
Qed.

Lemma be_fixed_be_val p : Forall isbyte p -> be_fixed (lenZ p) (be_val p) = p.
Proof.
  intros Hp. rewrite be_fixed_digits, be_val_value. unfold lenZ. rewrite Nat2Z.id, <- (rev_length p).
  rewrite le_digits_le_value by now apply Forall_rev. apply rev_involutive.
Qed.

Lemma be_val_bound p : Forall isbyte p -> 0 <= be_val p < 256 ^ lenZ p.
Proof.
  intros Hp. rewrite be_val_value. pose proof (le_value_bound (rev p) (Forall_rev Hp)) as H.
  now rewrite rev_length in H.
Qed.

(* ---------- uint_of ---------- *)
Lemma canon_uint_of_small bits v : 0 <= bits -> 0 <= v < 2 ^ bits ->
  canon bits (uint_of bits v) /\ eval (uint_of bits v) = v.
Proof.
  intros Hb Hv. unfold uint_of.
  assert (E : eval (to_limbs (nlimbsN bits) v) = v).
  { rewrite eval_to_limbs. apply Z.mod_small. rewrite Bn_pow2, nlimbsN_Z by lia.
    assert (2 ^ bits <= 2 ^ (64 * nlimbs bits)); [|lia].
    apply Z.pow_le_mono_r; [lia|]. unfold nlimbs. Z.div_mod_to_equations. lia. }
  split; [|exact E]. repeat split; [apply to_limbs_length|apply to_limbs_inW|lia].
Qed.

(* ---------- bit length and byte length ---------- *)
Lemma bitlen_bytelen v : 0 <= v -> (RunC06.bitlen v + 7) / 8 = bytelen v.
Proof.
  intros Hv. unfold RunC06.bitlen, bytelen. destruct (Z.eqb_spec v 0); [reflexivity|].
  pose proof (Z.log2_nonneg v). Z.div_mod_to_equations. lia.
Qed.
Lemma bitlen_small v : 0 <= v -> (RunC06.bitlen v <= 7 <-> v < 128).
Proof.
  intros Hv. unfold RunC06.bitlen. destruct (Z.eqb_spec v 0) as [->|N]; [lia|].
  split; intros H.
  - assert (Z.log2 v < 7) by lia. apply Z.log2_lt_pow2 in H0; lia.
  - assert (Z.log2 v < 7); [|lia]. apply Z.log2_lt_pow2; lia.
Qed.
Lemma bitlen_zero v : 0 <= v -> (RunC06.bitlen v = 0 <-> v = 0).
Proof.
  intros Hv. unfold RunC06.bitlen. destruct (Z.eqb_spec v 0) as [->|N]; [tauto|].
  pose proof (Z.log2_nonneg v). lia.
Qed.
Lemma bytelen_small v : 0 < v < 256 -> bytelen v = 1.
Proof. intros H. apply bytelen_unique; cbn; lia. Qed.
Lemma bytelen_fits bits v : 0 <= bits -> 0 <= v < 2 ^ bits -> bytelen v <= nbytes bits.
Proof.
  intros Hb Hv. apply bytelen_le; [now apply nbytes_nonneg|].
  pose proof (pow_bits_le_bytes bits Hb). lia.
Qed.

(* ---------- RLP: shape of the reference encoding ---------- *)
Lemma rlp_string_eq p :
  rlp_string p = if (lenZ p =? 1) && (hd 0 p <? 128) then p else rlp_prefix 128 (lenZ p) ++ p.
Proof.
  destruct p as [|b [|c t]]; [reflexivity| |].
  - cbn [rlp_string hd]. change (lenZ [b]) with 1. cbn [Z.eqb andb Pos.eqb].
    destruct (b <? 128); reflexivity.
  - cbn [rlp_string]. rewrite !lenZ_cons. pose proof (lenZ_nonneg t).
    destruct (Z.eqb_spec (1 + (1 + lenZ t)) 1); [lia|reflexivity].
Qed.

Lemma rlp_uint_0 : rlp_uint 0 = [128].
Proof. reflexivity. Qed.
Lemma be_min_small v : 0 < v < 256 -> be_min v = [v].
Proof.
  intros H. rewrite be_min_digits, bytelen_small by lia. change (Z.to_nat 1) with 1%nat.
  rewrite le_digits_S. cbn [le_digits rev app]. now rewrite Z.mod_small by lia.
Qed.
Lemma rlp_uint_small v : 0 < v < 128 -> rlp_uint v = [v].
Proof.
  intros H. unfold rlp_uint. rewrite be_min_small by lia. cbn [rlp_string].
  destruct (Z.ltb_spec v 128); [reflexivity|lia].
Qed.
Lemma rlp_uint_big v : 128 <= v -> rlp_uint v = rlp_prefix 128 (bytelen v) ++ be_min v.
Proof.
  intros H. unfold rlp_uint. rewrite rlp_string_eq, lenZ_be_min by lia.
  destruct (Z.eqb_spec (bytelen v) 1) as [E|E]; [|reflexivity].
  assert (Hv : v < 256) by (pose proof (bytelen_bound v ltac:(lia)) as Hb; rewrite E in Hb; cbn in Hb; lia).
  rewrite be_min_small by lia. cbn [hd andb]. destruct (Z.ltb_spec v 128); [lia|reflexivity].
Qed.

Lemma lenZ_rlp_prefix off n : 0 <= n ->
  lenZ (rlp_prefix off n) = if n <? 56 then 1 else 1 + bytelen n.
Proof.
  intros Hn. unfold rlp_prefix. destruct (n <? 56); [reflexivity|].
  rewrite lenZ_cons, lenZ_be_min by lia. reflexivity.
Qed.

(* length_of_length = length of the prefix *)
Lemma length_of_length_spec n : 0 <= n -> length_of_length n = lenZ (rlp_prefix 128 n).
Proof.
  intros Hn. rewrite lenZ_rlp_prefix by lia. unfold length_of_length.
  destruct (Z.ltb_spec n 56); [reflexivity|].
  unfold clz64, bytelen. destruct (Z.eqb_spec n 0); [lia|].
  pose proof (Z.log2_nonneg n). Z.div_mod_to_equations. lia.
Qed.

Lemma lenZ_rlp_uint v : 0 <= v ->
  lenZ (rlp_uint v) = if v <? 128 then 1 else lenZ (rlp_prefix 128 (bytelen v)) + bytelen v.
Proof.
  intros Hv. destruct (Z.ltb_spec v 128).
  - destruct (Z.eq_dec v 0) as [->|]; [reflexivity|]. now rewrite rlp_uint_small by lia.
  - rewrite rlp_uint_big, lenZ_app, lenZ_be_min by lia. reflexivity.
Qed.

(* ---------- rlp.rs: trim_leading_zeros ---------- *)
Lemma rev_repeat0 n : rev (repeat 0 n) = repeat 0 n.
Proof.
  induction n as [|n IH]; [reflexivity|]. cbn [repeat rev]. rewrite IH.
  clear IH. induction n as [|n IH]; [reflexivity|]. cbn [repeat app]. now rewrite IH.
Qed.
Lemma lenZ_repeat {A} (x : A) n : lenZ (repeat x n) = Z.of_nat n.
Proof. unfold lenZ. now rewrite repeat_length. Qed.

Definition nz (b : Z) : bool := negb (b =? 0).
Lemma position_from_zeros k q n0 :
  Bits.position_from nz (repeat 0 k ++ q) n0 = Bits.position_from nz q (n0 + Z.of_nat k).
Proof.
  revert n0. induction k as [|k IH]; intros n0; [cbn [repeat app]; f_equal; lia|].
  cbn [repeat app Bits.position_from]. change (nz 0) with false. cbn iota. rewrite IH. f_equal. lia.
Qed.

(* big-endian bytes with m leading zero bytes: trimming returns the significant part *)
Lemma trim_leading_zeros_zeros m q :
  (match q with b :: _ => b <> 0 | [] => True end) ->
  trim_leading_zeros (repeat 0 m ++ q) = Val q.
Proof.
  intros Hq. unfold trim_leading_zeros, Bits.position. fold nz. rewrite position_from_zeros.
  assert (E : slice_from (repeat 0 m ++ q) (Z.of_nat m) = Val q).
  { unfold slice_from. rewrite lenZ_app, lenZ_repeat. pose proof (lenZ_nonneg q).
    destruct (Z.leb_spec 0 (Z.of_nat m)); [|lia].
    destruct (Z.leb_spec (Z.of_nat m) (Z.of_nat m + lenZ q)); [|lia]. cbn [andb].
    rewrite Nat2Z.id, skipn_app, repeat_length, Nat.sub_diag, skipn_all2 by (rewrite repeat_length; lia).
    reflexivity. }
  destruct q as [|b t].
  - cbn [Bits.position_from]. rewrite app_nil_r in *. rewrite lenZ_repeat. exact E.
  - cbn [Bits.position_from]. unfold nz at 1. destruct (Z.eqb_spec b 0); [contradiction|]. cbn [negb].
    exact E.
Qed.

Lemma be_full_split n v : 0 <= v < 256 ^ Z.of_nat n ->
  rev (le_digits n v) = repeat 0 (n - Z.to_nat (bytelen v)) ++ be_min v
  /\ (Z.to_nat (bytelen v) <= n)%nat.
Proof.
  intros Hv. assert (Hk : bytelen v <= Z.of_nat n) by (apply bytelen_le; lia).
  pose proof (bytelen_nonneg v ltac:(lia)) as Hk0. split; [|lia].
  rewrite (le_digits_split n (Z.to_nat (bytelen v)) v); [|lia|].
  - rewrite rev_app_distr, rev_repeat0, be_min_digits. reflexivity.
  - rewrite Z2Nat.id by lia. split; [lia|]. apply bytelen_bound; lia.
Qed.

Lemma be_min_lead v : 0 <= v -> match be_min v with b :: _ => b <> 0 | [] => True end.
Proof.
  intros Hv. destruct (Z.eq_dec v 0) as [->|N]; [exact I|].
  destruct (be_min_head v ltac:(lia)) as (x & t & E & Hx & _). now rewrite E.
Qed.

Lemma rlp_encode_spec bits a : 0 <= bits -> canon bits a ->
  CodecA.rlp_encode bits a = Val (rlp_uint (eval a)).
Proof.
  intros Hb Hc. unfold CodecA.rlp_encode. rewrite to_be_bytes_vec_spec by assumption.
  destruct (be_full_split (nbytesN bits) (eval a) (canon_lt_bytes bits a Hb Hc)) as (E & _).
  rewrite E, trim_leading_zeros_zeros.
  - reflexivity.
  - apply be_min_lead. pose proof (canon_range bits a Hb Hc). lia.
Qed.

Lemma bits_rlp_encode_spec bits a : 0 <= bits -> canon bits a ->
  CodecA.bits_rlp_encode bits a = rlp_string (be_fixed (SBYTES bits) (eval a)).
Proof.
  intros Hb Hc. unfold CodecA.bits_rlp_encode, tp_rlp_bytes.
  now rewrite to_be_bytes_vec_spec, be_fixed_digits, SBYTES_nbytes by assumption.
Qed.

(* ---------- alloy_rlp.rs / fastrlp_0{3,4}.rs: length() and encode ---------- *)
Lemma arlp_length_spec bits a : 0 <= bits -> canon bits a ->
  arlp_length bits a = Val (lenZ (rlp_uint (eval a))).
Proof.
  intros Hb Hc. pose proof (canon_range bits a Hb Hc) as Hv.
  unfold arlp_length. rewrite PfBits.bit_len_spec by assumption. cbn [obind].
  rewrite lenZ_rlp_uint by lia. pose proof (bitlen_small (eval a) ltac:(lia)) as Hs.
  destruct (Z.leb_spec (RunC06.bitlen (eval a)) 7); destruct (Z.ltb_spec (eval a) 128); try lia.
  - reflexivity.
  - rewrite bitlen_bytelen by lia. rewrite length_of_length_spec by (apply bytelen_nonneg; lia).
    f_equal. lia.
Qed.

Lemma arlp_max_len_spec bits : 0 <= bits ->
  lenZ (rlp_uint (2 ^ bits - 1)) <= arlp_max_len bits.
Proof.
  intros Hb. assert (Hp : 0 < 2 ^ bits) by (apply Z.pow_pos_nonneg; lia).
  unfold arlp_max_len. pose proof (nbytes_nonneg bits Hb) as Hn.
  rewrite length_of_length_spec by lia. rewrite lenZ_rlp_uint by lia.
  pose proof (lenZ_nonneg (rlp_prefix 128 (nbytes bits))).
  assert (1 <= lenZ (rlp_prefix 128 (nbytes bits))).
  { rewrite lenZ_rlp_prefix by lia. destruct (nbytes bits <? 56); [lia|].
    pose proof (bytelen_nonneg (nbytes bits) Hn). lia. }
  destruct (Z.ltb_spec (2 ^ bits - 1) 128); [lia|].
  assert (E : bytelen (2 ^ bits - 1) = nbytes bits).
  { assert (8 <= bits).
    { destruct (Z.lt_ge_cases bits 8); [|lia].
      assert (2 ^ bits <= 2 ^ 7) by (apply Z.pow_le_mono_r; lia). lia. }
    pose proof (nbytes_bounds bits Hb). apply bytelen_unique; [lia|].
    rewrite !p256_pow2 by lia. split.
    - assert (2 ^ (8 * (nbytes bits - 1)) < 2 ^ bits) by (apply Z.pow_lt_mono_r; lia). lia.
    - assert (2 ^ bits <= 2 ^ (8 * nbytes bits)) by (apply Z.pow_le_mono_r; lia). lia. }
  rewrite E. lia.
Qed.

Lemma lor_limbs l0 l1 : 0 <= l0 < B -> 0 <= l1 < B ->
  Z.lor l0 ((l1 * 2 ^ 64) mod BB) = l0 + B * l1.
Proof.
  intros H0 H1. rewrite <- B_pow. rewrite Z.mod_small.
  - replace (l1 * B) with (B * l1) by lia. now apply PfConv.lor_low_high.
  - change BB with (2 ^ 128). rewrite B_val in *. lia.
Qed.

Lemma idx_0 x t : idx (x :: t) 0 = Val x.
Proof. reflexivity. Qed.
Lemma idx_1 x y t : idx (x :: y :: t) 1 = Val y.
Proof. reflexivity. Qed.

Lemma nlimbs_len bits a : 0 <= bits -> canon bits a -> lenZ a = nlimbs bits.
Proof. intros Hb (Hl & _). unfold lenZ. rewrite Hl. now apply nlimbsN_Z. Qed.

(* the low limb of a small value is the value *)
Lemma low_limb_small x t : Forall inW (x :: t) -> eval (x :: t) < B -> x = eval (x :: t).
Proof.
  intros Hw Hlt. inversion Hw as [|? ? Hx Ht]; subst. pose proof (eval_bound t Ht) as Hb.
  rewrite eval_cons in *. unfold inW in Hx. pose proof B_pos.
  assert (eval t = 0) by nia. lia.
Qed.

Lemma arlp_encode_spec bits a : 0 <= bits -> canon bits a ->
  arlp_encode bits a = Val (rlp_uint (eval a)).
Proof.
  intros Hb Hc. pose proof (canon_range bits a Hb Hc) as Hv.
  pose proof (nlimbs_len bits a Hb Hc) as HL. destruct Hc as (Hlen & Hw & Hlt).
  unfold arlp_encode.
  destruct (Z.eqb_spec (nlimbs bits) 0) as [E0|N0].
  { destruct a; [reflexivity|]. rewrite lenZ_cons in HL. pose proof (lenZ_nonneg a). lia. }
  destruct (Z.eqb_spec (nlimbs bits) 1) as [E1|N1].
  { destruct a as [|x [|y t]]; rewrite ?lenZ_cons, ?lenZ_nil in HL;
      try (pose proof (lenZ_nonneg t)); try lia.
    rewrite idx_0. cbn [obind eval]. unfold tp_rlp_prim. f_equal. f_equal. lia. }
  destruct (Z.eqb_spec (nlimbs bits) 2) as [E2|N2].
  { destruct a as [|x [|y [|z t]]]; rewrite ?lenZ_cons, ?lenZ_nil in HL;
      try (pose proof (lenZ_nonneg t)); try lia.
    rewrite idx_0, idx_1. cbn [obind eval]. unfold tp_rlp_prim.
    inversion Hw as [|? ? Hx Hw']; subst. inversion Hw' as [|? ? Hy _]; subst.
    rewrite lor_limbs by assumption. f_equal. f_equal. lia. }
  assert (Hcn : canon bits a) by (repeat split; assumption).
  rewrite PfBits.bit_len_spec by assumption. cbn [obind].
  pose proof (bitlen_zero (eval a) ltac:(lia)) as Hz.
  pose proof (bitlen_small (eval a) ltac:(lia)) as Hs.
  destruct (Z.eqb_spec (RunC06.bitlen (eval a)) 0) as [Ez|Nz].
  { apply Hz in Ez. now rewrite Ez. }
  assert (Hpos : 0 < eval a) by (destruct (Z.eq_dec (eval a) 0) as [E|E]; [apply Hz in E; lia|lia]).
  destruct (Z.leb_spec (RunC06.bitlen (eval a)) 7) as [H7|H7].
  { assert (eval a < 128) by (apply Hs; exact H7).
    destruct a as [|x t]; [cbn in Hpos; lia|]. rewrite idx_0. cbn [obind].
    assert (Ex : x = eval (x :: t)) by (apply low_limb_small; [assumption|rewrite B_val; lia]).
    rewrite rlp_uint_small by lia. rewrite <- Ex. rewrite Z.mod_small by lia. reflexivity. }
  assert (H128 : 128 <= eval a) by (destruct (Z.lt_ge_cases (eval a) 128) as [G|G]; [apply Hs in G; lia|lia]).
  rewrite bitlen_bytelen by lia.
  rewrite as_le_slice_spec by assumption.
  destruct (be_full_split (nbytesN bits) (eval a) (canon_lt_bytes bits a Hb Hcn)) as (E & Hk).
  pose proof (bytelen_nonneg (eval a) ltac:(lia)) as Hk0.
  pose proof (bytelen_fits bits (eval a) Hb Hv) as Hkn.
  unfold usub. destruct (Z.ltb_spec (nbytes bits) (bytelen (eval a))); [lia|]. cbn [obind].
  rewrite E.
  assert (Esl : slice_from (repeat 0 (nbytesN bits - Z.to_nat (bytelen (eval a))) ++ be_min (eval a))
                  (nbytes bits - bytelen (eval a)) = Val (be_min (eval a))).
  { unfold slice_from. rewrite lenZ_app, lenZ_repeat, lenZ_be_min by lia.
    rewrite Nat2Z.inj_sub by lia. rewrite nbytesN_Z, Z2Nat.id by lia.
    destruct (Z.leb_spec 0 (nbytes bits - bytelen (eval a))); [|lia].
    destruct (Z.leb_spec (nbytes bits - bytelen (eval a))
                (nbytes bits - bytelen (eval a) + bytelen (eval a))); [|lia]. cbn [andb].
    replace (Z.to_nat (nbytes bits - bytelen (eval a)))
      with (nbytesN bits - Z.to_nat (bytelen (eval a)))%nat by (unfold nbytesN; lia).
    rewrite skipn_app, repeat_length, Nat.sub_diag, skipn_all2 by (rewrite repeat_length; lia).
    reflexivity. }
  rewrite Esl. cbn [obind].
  destruct (Z.ltb_spec MAX_BITS (RunC06.bitlen (eval a))) as [Hbig|Hsm]; [reflexivity|].
  rewrite lenZ_be_min by lia.
  assert (Hk55 : bytelen (eval a) <= 55).
  { rewrite <- bitlen_bytelen by lia. unfold MAX_BITS in Hsm. Z.div_mod_to_equations. lia. }
  assert (Hk1 : 1 <= bytelen (eval a)) by (pose proof (bytelen_spec (eval a) Hpos); lia).
  rewrite Z.mod_small by lia. unfold uadd8.
  destruct (Z.ltb_spec (128 + bytelen (eval a)) 256); [|lia]. cbn [obind].
  rewrite rlp_uint_big by lia. unfold rlp_prefix.
  destruct (Z.ltb_spec (bytelen (eval a)) 56); [|lia]. reflexivity.
Qed.

(* ---------- Header::decode (alloy-rlp, fastrlp) against the grammar ---------- *)
Lemma hdr_finish_ok l n buf l' n' buf' :
  hdr_finish l n buf = Ok (l', n', buf') -> l' = l /\ n' = n /\ buf' = buf /\ n <= lenZ buf.
Proof.
  unfold hdr_finish. destruct (Z.ltb_spec (lenZ buf) n); [discriminate|].
  intros E. inversion E; subst. repeat split; lia.
Qed.

Lemma firstn_1_cons {A} (c : A) t : firstn (Z.to_nat 1) (c :: t) = [c].
Proof. reflexivity. Qed.

Lemma Forall_isbyte_hd b t : Forall isbyte (b :: t) -> 0 <= b < 256 /\ Forall isbyte t.
Proof. intros H. inversion H; subst. split; assumption. Qed.

(* soundness: an accepted string header is the canonical prefix of its payload *)
Lemma header_decode_string inp n buf :
  Forall isbyte inp -> header_decode inp = Ok (false, n, buf) ->
  0 <= n <= lenZ buf /\ inp = rlp_string (firstn (Z.to_nat n) buf) ++ skipn (Z.to_nat n) buf.
Proof.
  intros Hin. destruct inp as [|b t]; [discriminate|].
  destruct (Forall_isbyte_hd b t Hin) as (Hb & Ht). cbn [header_decode].
  destruct (Z.ltb_spec b 128) as [H1|H1].
  { intros E. apply hdr_finish_ok in E. destruct E as (_ & -> & -> & Hle). split; [lia|].
    change (Z.to_nat 1) with 1%nat. cbn [firstn skipn rlp_string].
    destruct (Z.ltb_spec b 128); [reflexivity|lia]. }
  destruct (Z.ltb_spec b 184) as [H2|H2].
  { destruct (Z.eqb_spec (b - 128) 1) as [E1|N1].
    - destruct t as [|c t']; [discriminate|].
      destruct (Z.ltb_spec c 128) as [Hc|Hc]; [discriminate|].
      intros E. apply hdr_finish_ok in E. destruct E as (_ & -> & -> & Hle). split; [lia|].
      rewrite E1. change (Z.to_nat 1) with 1%nat. cbn [firstn skipn rlp_string].
      destruct (Z.ltb_spec c 128); [lia|]. unfold rlp_prefix.
      change (1 <? 56) with true. cbn [app]. f_equal. lia.
    - intros E. apply hdr_finish_ok in E. destruct E as (_ & -> & -> & Hle). split; [lia|].
      rewrite rlp_string_eq, lenZ_firstn by lia.
      destruct (Z.eqb_spec (b - 128) 1); [lia|]. cbn [andb]. unfold rlp_prefix.
      destruct (Z.ltb_spec (b - 128) 56); [|lia]. cbn [app]. rewrite firstn_skipn. f_equal. lia. }
  destruct (Z.ltb_spec b 192) as [H3|H3]; cbn [orb].
  { destruct (Z.leb_spec 248 b); [lia|].
    destruct (Z.ltb_spec (lenZ t) (b - 183)) as [Hs|Hs]; [discriminate|].
    set (ll := b - 183) in *.
    assert (Hlen : lenZ (firstn (Z.to_nat ll) t) = ll) by (apply lenZ_firstn; lia).
    assert (Hby : Forall isbyte (firstn (Z.to_nat ll) t)) by now apply Forall_firstn'.
    destruct (firstn (Z.to_nat ll) t) as [|x len'] eqn:Elen.
    { rewrite lenZ_nil in Hlen. lia. }
    assert (Hx : x <> 0 -> header_decode (b :: t) = header_decode (b :: t)) by reflexivity.
    destruct (Z.eq_dec x 0) as [->|Nx]; [discriminate|].
    assert (Em : match x with 0 => Err ELeadingZero | _ =>
                   if u64_from_be_bytes (x :: len') <? 56 then Err ENonCanonicalSize
                   else hdr_finish false (u64_from_be_bytes (x :: len')) (skipn (Z.to_nat ll) t) end
                 = if u64_from_be_bytes (x :: len') <? 56 then Err ENonCanonicalSize
                   else hdr_finish false (u64_from_be_bytes (x :: len')) (skipn (Z.to_nat ll) t)).
    { destruct x; [contradiction|reflexivity|reflexivity]. }
    rewrite Em. clear Em Hx.
    destruct (Z.ltb_spec (u64_from_be_bytes (x :: len')) 56) as [|H56]; [discriminate|].
    intros E. apply hdr_finish_ok in E. destruct E as (_ & -> & -> & Hle).
    set (n := u64_from_be_bytes (x :: len')) in *.
    assert (Hn : n = be_val (x :: len')) by (unfold n, u64_from_be_bytes; now rewrite be_val_value).
    split; [lia|]. rewrite rlp_string_eq, lenZ_firstn by lia.
    destruct (Z.eqb_spec n 1); [lia|]. cbn [andb]. unfold rlp_prefix.
    destruct (Z.ltb_spec n 56); [lia|].
    assert (Emin : be_min n = x :: len') by (rewrite Hn; apply be_min_be_val; assumption).
    rewrite PfC08.ndigits_bytelen, <- (lenZ_be_min n) by lia. rewrite Emin, Hlen.
    rewrite <- app_assoc, firstn_skipn. rewrite <- Elen. rewrite <- app_comm_cons, firstn_skipn.
    f_equal. unfold ll. lia. }
  destruct (Z.leb_spec 248 b) as [H4|H4].
  { destruct (Z.ltb_spec (lenZ t) (b - 247)); [discriminate|].
    destruct (firstn (Z.to_nat (b - 247)) t) as [|x len']; [|destruct x].
    all: try discriminate.
    all: destruct (_ <? 56); try discriminate.
    all: unfold hdr_finish; destruct (_ <? _); discriminate. }
  unfold hdr_finish. destruct (_ <? _); discriminate.
Qed.

(* the header of a list never yields a string and vice versa: Ok with list = true *)
Lemma header_decode_range inp l n buf :
  Forall isbyte inp -> header_decode inp = Ok (l, n, buf) -> 0 <= n <= lenZ buf.
Proof.
  intros Hin. destruct inp as [|b t]; [discriminate|].
  destruct (Forall_isbyte_hd b t Hin) as (Hb & Ht). cbn [header_decode].
  assert (Fin : forall l0 n0 buf0, 0 <= n0 ->
            hdr_finish l0 n0 buf0 = Ok (l, n, buf) -> 0 <= n <= lenZ buf).
  { intros l0 n0 buf0 H0 E. apply hdr_finish_ok in E. destruct E as (_ & -> & -> & ?). lia. }
  destruct (Z.ltb_spec b 128). { apply Fin; lia. }
  destruct (Z.ltb_spec b 184).
  { destruct (b - 128 =? 1).
    - destruct t as [|c t']; [discriminate|]. destruct (c <? 128); [discriminate|]. apply Fin; lia.
    - apply Fin; lia. }
  destruct ((b <? 192) || (248 <=? b)) eqn:Eb.
  { match goal with |- context [lenZ t <? ?ll] => destruct (lenZ t <? ll); [discriminate|] end.
    match goal with |- context [firstn ?k t] => destruct (firstn k t) as [|x len']; [|destruct x] end.
    all: try discriminate.
    all: match goal with |- context [?n <? 56] => destruct (Z.ltb_spec n 56); [discriminate|] end.
    all: apply Fin; lia. }
  apply orb_false_iff in Eb. destruct Eb as [E1 E2]. apply Z.ltb_ge in E1. apply Fin; lia.
Qed.

(* completeness: the canonical encoding of any string (shorter than 2^64) is accepted *)
Lemma header_decode_complete q rest :
  Forall isbyte q -> lenZ q < 2 ^ 64 ->
  header_decode (rlp_string q ++ rest) = Ok (false, lenZ q, q ++ rest).
Proof.
  intros Hq Hlen. pose proof (lenZ_nonneg q) as H0. pose proof (lenZ_nonneg rest) as Hr.
  rewrite rlp_string_eq.
  destruct (Z.eqb_spec (lenZ q) 1) as [E1|N1]; cbn [andb].
  { destruct q as [|b [|c t]]; rewrite ?lenZ_cons, ?lenZ_nil in E1;
      try (pose proof (lenZ_nonneg t)); try lia.
    destruct (Forall_isbyte_hd b [] Hq) as (Hb & _). cbn [hd].
    destruct (Z.ltb_spec b 128) as [Hs|Hs].
    - cbn [app header_decode]. destruct (Z.ltb_spec b 128); [|lia].
      unfold hdr_finish. rewrite lenZ_cons. destruct (Z.ltb_spec (1 + lenZ rest) 1); [lia|reflexivity].
    - unfold rlp_prefix. change (lenZ [b]) with 1. change (1 <? 56) with true.
      cbn [app header_decode]. change (128 + 1 <? 128) with false. change (128 + 1 <? 184) with true.
      change (128 + 1 - 128 =? 1) with true. cbn iota.
      destruct (Z.ltb_spec b 128); [lia|]. unfold hdr_finish. change (128 + 1 - 128) with 1.
      rewrite lenZ_cons. destruct (Z.ltb_spec (1 + lenZ rest) 1); [lia|reflexivity]. }
  unfold rlp_prefix. destruct (Z.ltb_spec (lenZ q) 56) as [Hs|Hl].
  { cbn [app header_decode].
    destruct (Z.ltb_spec (128 + lenZ q) 128); [lia|]. destruct (Z.ltb_spec (128 + lenZ q) 184); [|lia].
    replace (128 + lenZ q - 128) with (lenZ q) by lia.
    destruct (Z.eqb_spec (lenZ q) 1); [lia|]. unfold hdr_finish. rewrite lenZ_app.
    destruct (Z.ltb_spec (lenZ q + lenZ rest) (lenZ q)); [lia|reflexivity]. }
  set (n := lenZ q) in *. set (ll := RunC08.ndigits n).
  assert (Hll : ll = bytelen n) by apply PfC08.ndigits_bytelen.
  assert (Hll1 : 1 <= ll <= 8).
  { rewrite Hll. destruct (bytelen_spec n ltac:(lia)) as (? & ? & ?). split; [lia|].
    apply bytelen_le; [lia|]. change (256 ^ 8) with (2 ^ 64). lia. }
  destruct (be_min_head n ltac:(lia)) as (x & len' & Emin & Hx & Hxb).
  assert (Hml : lenZ (be_min n) = ll) by (rewrite Hll; apply lenZ_be_min; lia).
  cbn [app header_decode].
  destruct (Z.ltb_spec (128 + 55 + ll) 128); [lia|]. destruct (Z.ltb_spec (128 + 55 + ll) 184); [lia|].
  destruct (Z.ltb_spec (128 + 55 + ll) 192); [|lia]. cbn [orb].
  destruct (Z.leb_spec 248 (128 + 55 + ll)); [lia|].
  replace (128 + 55 + ll - 183) with ll by lia.
  rewrite <- app_assoc. rewrite !lenZ_app, Hml.
  destruct (Z.ltb_spec (ll + (n + lenZ rest)) ll); [lia|].
  assert (Ef : firstn (Z.to_nat ll) (be_min n ++ q ++ rest) = be_min n).
  { rewrite firstn_app. replace (Z.to_nat ll - length (be_min n))%nat with 0%nat
      by (unfold lenZ in Hml; lia). cbn [firstn]. rewrite app_nil_r. apply firstn_all2.
    unfold lenZ in Hml. lia. }
  assert (Es : skipn (Z.to_nat ll) (be_min n ++ q ++ rest) = q ++ rest).
  { rewrite skipn_app. replace (Z.to_nat ll - length (be_min n))%nat with 0%nat
      by (unfold lenZ in Hml; lia). cbn [skipn]. rewrite skipn_all2 by (unfold lenZ in Hml; lia).
    reflexivity. }
  rewrite Ef, Es, Emin.
  assert (Eu : u64_from_be_bytes (x :: len') = n).
  { unfold u64_from_be_bytes. rewrite <- be_val_value, <- Emin. apply be_val_be_min. lia. }
  rewrite Eu. destruct x; [contradiction| |].
  all: destruct (Z.ltb_spec n 56); [lia|].
  all: unfold hdr_finish; rewrite lenZ_app; fold n.
  all: repeat match goal with |- context [if ?a <? ?b then _ else _] =>
              destruct (Z.ltb_spec a b); try lia end.
  all: reflexivity.
Qed.

(* ---------- the tail shared by the three strict decoders ---------- *)
Definition lead0 (p : list Z) : bool := match p with b :: _ => b =? 0 | [] => false end.

Lemma arlp_finish_spec bits p : 0 <= bits -> Forall isbyte p ->
  arlp_finish bits p =
    Val (if lead0 p then Err ELeadingZero
         else if (lenZ p <=? nbytes bits) && (be_val p <? 2 ^ bits)
              then Ok (uint_of bits (be_val p)) else Err EOverflow).
Proof.
  intros Hb Hp. unfold arlp_finish.
  assert (E : (match p with [] => Val false | _ :: _ => do b0 <- idx p 0; Val (b0 =? 0) end)
              = Val (lead0 p)) by (destruct p; reflexivity).
  rewrite E. cbn [obind]. destruct (lead0 p); [reflexivity|].
  rewrite try_from_be_slice_spec by assumption. cbn [obind]. rewrite <- be_val_value.
  destruct ((lenZ p <=? nbytes bits) && (be_val p <? 2 ^ bits)); reflexivity.
Qed.

Lemma lead0_false_iff p : lead0 p = false <-> match p with b :: _ => b <> 0 | [] => True end.
Proof.
  destruct p as [|b t]; cbn [lead0]; [tauto|]. destruct (Z.eqb_spec b 0); split; intros; congruence.
Qed.

(* ---------- alloy-rlp / fastrlp decode ---------- *)
Lemma rlp_string_suffix p : exists h, rlp_string p = h ++ p.
Proof.
  rewrite rlp_string_eq. destruct ((lenZ p =? 1) && (hd 0 p <? 128)); [now exists []|eauto].
Qed.

Lemma firstn_app_exact {A} (a b : list A) : firstn (length a) (a ++ b) = a.
Proof. rewrite firstn_app, Nat.sub_diag, firstn_all. cbn [firstn]. apply app_nil_r. Qed.
Lemma skipn_app_exact {A} (a b : list A) : skipn (length a) (a ++ b) = b.
Proof. rewrite skipn_app, Nat.sub_diag, skipn_all. reflexivity. Qed.
Lemma firstn_lenZ_app {A} (a b : list A) : firstn (Z.to_nat (lenZ a)) (a ++ b) = a.
Proof. unfold lenZ. rewrite Nat2Z.id. apply firstn_app_exact. Qed.
Lemma skipn_lenZ_app {A} (a b : list A) : skipn (Z.to_nat (lenZ a)) (a ++ b) = b.
Proof. unfold lenZ. rewrite Nat2Z.id. apply skipn_app_exact. Qed.

Theorem alloy_rlp_decode_sound bits inp : 0 <= bits -> Forall isbyte inp ->
  exists r, alloy_rlp_decode bits inp = Val r /\
    match r with
    | Ok (l, m) => canon bits l /\ 0 <= m <= lenZ inp
                   /\ firstn (Z.to_nat m) inp = rlp_uint (eval l)
    | Err _ => True
    end.
Proof.
  intros Hb Hin. unfold alloy_rlp_decode.
  destruct (header_decode inp) as [[[l n] buf]|e] eqn:E; [|eexists; split; [reflexivity|exact I]].
  destruct l; [eexists; split; [reflexivity|exact I]|].
  destruct (header_decode_string inp n buf Hin E) as (Hn & Einp).
  set (p := firstn (Z.to_nat n) buf) in *. set (rest := skipn (Z.to_nat n) buf) in *.
  destruct (rlp_string_suffix p) as (h & Eh).
  assert (Hp : Forall isbyte p).
  { rewrite Einp, Eh in Hin. apply Forall_app in Hin. destruct Hin as [Hin _].
    apply Forall_app in Hin. tauto. }
  rewrite arlp_finish_spec by assumption. cbn [obind].
  destruct (lead0 p) eqn:El; [eexists; split; [reflexivity|exact I]|].
  destruct ((lenZ p <=? nbytes bits) && (be_val p <? 2 ^ bits)) eqn:Ef;
    [|eexists; split; [reflexivity|exact I]].
  apply andb_true_iff in Ef. destruct Ef as [Hl Hv]. apply Z.ltb_lt in Hv.
  pose proof (be_val_bound p Hp) as Hpv.
  destruct (canon_uint_of_small bits (be_val p) Hb ltac:(lia)) as (Hc & Ee).
  eexists; split; [reflexivity|]. cbn iota. split; [exact Hc|].
  rewrite Ee. unfold rlp_uint. rewrite be_min_be_val by (try apply lead0_false_iff; assumption).
  assert (Elen : lenZ inp = lenZ (rlp_string p) + lenZ rest) by (rewrite Einp at 1; apply lenZ_app).
  pose proof (lenZ_nonneg (rlp_string p)). pose proof (lenZ_nonneg rest).
  replace (lenZ inp - lenZ rest) with (lenZ (rlp_string p)) by lia.
  split; [lia|]. rewrite Einp. apply firstn_lenZ_app.
Qed.

Theorem alloy_rlp_decode_complete bits v rest : 0 <= bits -> 0 <= v < 2 ^ bits ->
  bytelen v < 2 ^ 64 ->
  alloy_rlp_decode bits (rlp_uint v ++ rest)
  = Val (Ok (uint_of bits v, lenZ (rlp_uint v))).
Proof.
  intros Hb Hv Hlen. unfold alloy_rlp_decode, rlp_uint.
  rewrite header_decode_complete by (try apply be_min_isbyte; rewrite lenZ_be_min; lia).
  rewrite firstn_lenZ_app, skipn_lenZ_app.
  rewrite arlp_finish_spec by (try apply be_min_isbyte; lia). cbn [obind].
  assert (El : lead0 (be_min v) = false) by (apply lead0_false_iff, be_min_lead; lia).
  rewrite El, lenZ_be_min, be_val_be_min by lia.
  pose proof (bytelen_fits bits v Hb Hv).
  destruct (Z.leb_spec (bytelen v) (nbytes bits)); [|lia].
  destruct (Z.ltb_spec v (2 ^ bits)); [|lia]. cbn [andb]. rewrite lenZ_app.
  do 3 f_equal. lia.
Qed.

Lemma fastrlp_decode_eq bits inp : Forall isbyte inp ->
  fastrlp_decode bits inp = alloy_rlp_decode bits inp.
Proof.
  intros Hin. unfold fastrlp_decode, alloy_rlp_decode.
  destruct (header_decode inp) as [[[l n] buf]|e] eqn:E; [|reflexivity].
  destruct l; [reflexivity|].
  pose proof (header_decode_range inp false n buf Hin E) as Hn.
  unfold slice_to, slice_from.
  destruct (Z.leb_spec 0 n); [|lia]. destruct (Z.leb_spec n (lenZ buf)); [|lia]. reflexivity.
Qed.

(* ---------- the spec-side readers ---------- *)
Lemma prefixb_iff p l : prefixb p l = true <-> exists r, l = p ++ r.
Proof.
  revert l. induction p as [|x p IH]; intros l; cbn [prefixb].
  - split; [intros _; now exists l|reflexivity].
  - destruct l as [|y l].
    + split; [discriminate|]. intros (r & E). discriminate.
    + rewrite andb_true_iff, IH, Z.eqb_eq. split.
      * intros (-> & r & ->). now exists r.
      * intros (r & E). inversion E; subst. eauto.
Qed.

Lemma rlp_str_item_inv inp p c : Forall isbyte inp -> rlp_str_item inp = Some (p, c) ->
  Forall isbyte p /\ exists b t, inp = b :: t /\ b < 192.
Proof.
  intros Hin. destruct inp as [|b t]; [discriminate|].
  destruct (Forall_isbyte_hd b t Hin) as (Hb & Ht). cbn [rlp_str_item].
  destruct (Z.ltb_spec b 128).
  { intros E; inversion E; subst. split; [repeat constructor; unfold isbyte; lia|]. exists b, t. split; [reflexivity|lia]. }
  destruct (Z.ltb_spec b 184).
  { destruct (b - 128 <=? lenZ t); [|discriminate]. intros E; inversion E; subst.
    split; [now apply Forall_firstn'|]. exists b, t. split; [reflexivity|lia]. }
  destruct (Z.ltb_spec b 192); [|discriminate].
  destruct (b - 183 <=? lenZ t); [|discriminate].
  destruct (_ <=? _); [|discriminate]. intros E; inversion E; subst.
  split; [now apply Forall_firstn', Forall_skipn'|]. exists b, t. split; [reflexivity|lia].
Qed.

Lemma rlp_uint_head_bound v b t : 0 <= v -> rlp_uint v = b :: t -> b < 192 -> bytelen v < 2 ^ 64.
Proof.
  intros Hv E Hb. destruct (Z.lt_ge_cases v 128) as [Hs|Hs].
  { destruct (Z.eq_dec v 0) as [->|]; [rewrite bytelen_0; lia|]. rewrite bytelen_small by lia. lia. }
  rewrite rlp_uint_big in E by lia. unfold rlp_prefix in E.
  pose proof (bytelen_nonneg v Hv) as Hk.
  destruct (Z.ltb_spec (bytelen v) 56) as [|H56]; [lia|].
  cbn [app] in E. assert (Eb : 128 + 55 + RunC08.ndigits (bytelen v) = b) by congruence.
  rewrite PfC08.ndigits_bytelen in Eb.
  pose proof (bytelen_bound (bytelen v) Hk) as Hbd.
  assert (bytelen (bytelen v) <= 8) by lia.
  assert (256 ^ bytelen (bytelen v) <= 256 ^ 8) by (apply Z.pow_le_mono_r; lia).
  change (256 ^ 8) with (2 ^ 64) in *. lia.
Qed.

Lemma rlp_uint_nonempty v : exists b t, rlp_uint v = b :: t.
Proof.
  unfold rlp_uint. rewrite rlp_string_eq.
  destruct ((lenZ (be_min v) =? 1) && (hd 0 (be_min v) <? 128)) eqn:E.
  - apply andb_true_iff in E. destruct E as [E _]. apply Z.eqb_eq in E.
    destruct (be_min v) as [|x t]; [discriminate|eauto].
  - unfold rlp_prefix. destruct (_ <? 56); cbn [app]; eauto.
Qed.

(* the input starts with the reference encoding of v *)
Lemma rlp_uint_prefix_inv inp v m : Forall isbyte inp -> rlp_uint_prefix inp = Some (v, m) ->
  exists rest, inp = rlp_uint v ++ rest /\ 0 <= v /\ bytelen v < 2 ^ 64 /\ m = lenZ (rlp_uint v).
Proof.
  intros Hin. unfold rlp_uint_prefix.
  destruct (rlp_str_item inp) as [[p c]|] eqn:Ei; [|discriminate].
  destruct (prefixb (rlp_uint (be_val p)) inp) eqn:Ep; [|discriminate].
  intros Hv. inversion Hv; subst. clear Hv. apply prefixb_iff in Ep. destruct Ep as (rest & E).
  destruct (rlp_str_item_inv inp p c Hin Ei) as (Hp & b & t & Eb & Hb).
  pose proof (be_val_bound p Hp) as Hpv.
  exists rest. split; [exact E|]. split; [lia|]. split; [|reflexivity].
  destruct (rlp_uint_nonempty (be_val p)) as (b' & t' & Eu).
  apply (rlp_uint_head_bound (be_val p) b' t'); [lia|exact Eu|].
  rewrite Eu, Eb in E. cbn [app] in E. inversion E; subst. exact Hb.
Qed.

(* ---------- rlp 0.5: Rlp::data ---------- *)
Lemma sub_slice {E} (l : list Z) a b :
  0 <= a <= b -> b <= lenZ l ->
  (do s <- slice_to l b; do s <- slice_from s a; Val (@Ok E _ s))
  = Val (Ok (firstn (Z.to_nat (b - a)) (skipn (Z.to_nat a) l))).
Proof.
  intros Ha Hb. unfold slice_to. destruct (Z.leb_spec 0 b); [|lia]. destruct (Z.leb_spec b (lenZ l)); [|lia].
  cbn [andb obind]. unfold slice_from. rewrite lenZ_firstn by lia.
  destruct (Z.leb_spec 0 a); [|lia]. destruct (Z.leb_spec a b); [|lia]. cbn [andb obind].
  rewrite skipn_firstn_comm. do 3 f_equal. lia.
Qed.

Lemma slices_val (l : list Z) a b :
  0 <= a <= b -> b <= lenZ l ->
  (do s <- slice_to l b; slice_from s a) = Val (firstn (Z.to_nat (b - a)) (skipn (Z.to_nat a) l)).
Proof.
  intros Ha Hb. unfold slice_to. destruct (Z.leb_spec 0 b); [|lia]. destruct (Z.leb_spec b (lenZ l)); [|lia].
  cbn [andb obind]. unfold slice_from. rewrite lenZ_firstn by lia.
  destruct (Z.leb_spec 0 a); [|lia]. destruct (Z.leb_spec a b); [|lia]. cbn [andb obind].
  rewrite skipn_firstn_comm. do 2 f_equal. lia.
Qed.

Lemma rlp_decode_usize_spec s : Forall isbyte s -> 1 <= lenZ s <= 8 ->
  rlp_decode_usize s = Val (if hd 0 s =? 0 then Err RlpInvalidIndirection else Ok (be_val s)).
Proof.
  intros Hs Hl. unfold rlp_decode_usize. destruct (Z.leb_spec (lenZ s) 8); [|lia].
  destruct s as [|x t]; [rewrite lenZ_nil in Hl; lia|]. rewrite idx_0. cbn [obind hd].
  destruct (x =? 0); [reflexivity|]. unfold u64_from_be_bytes. now rewrite be_val_value.
Qed.

Lemma nth_error_1 {A} (b x : A) t : nth_error (b :: x :: t) 1 = Some x.
Proof. reflexivity. Qed.

Definition calc_fn (t : list Z) (ll : Z) : res rlpderr (Z * Z) :=
  match t with
  | [] => Err RlpIsTooShort
  | x :: _ =>
      if x =? 0 then Err RlpDataLenWithZeroPrefix
      else if lenZ t <? ll then Err RlpIsTooShort
      else let vl := be_val (firstn (Z.to_nat ll) t) in
           if vl <=? 55 then Err RlpInvalidIndirection else Ok (1 + ll, vl)
  end.

Lemma rlp_calc_eq b t ll : Forall isbyte (b :: t) -> 1 <= ll <= 8 ->
  rlp_calc_payload_info (b :: t) ll = Val (calc_fn t ll).
Proof.
  intros Hin Hll. destruct (Forall_isbyte_hd b t Hin) as (Hb & Ht).
  unfold rlp_calc_payload_info, calc_fn.
  destruct t as [|x t']; [reflexivity|]. rewrite nth_error_1.
  assert (Hgo : x <> 0 ->
     (if lenZ (b :: x :: t') <? 1 + ll then Val (Err RlpIsTooShort)
      else do s <- slice_to (b :: x :: t') (1 + ll); do s0 <- slice_from s 1;
           do r <- rlp_decode_usize s0;
           match r with
           | Ok value_len => if value_len <=? 55 then Val (Err RlpInvalidIndirection)
                             else Val (Ok (1 + ll, value_len))
           | Err e => Val (Err e)
           end) =
     Val (if lenZ (x :: t') <? ll then Err RlpIsTooShort
          else let vl := be_val (firstn (Z.to_nat ll) (x :: t')) in
               if vl <=? 55 then Err RlpInvalidIndirection else Ok (1 + ll, vl))).
  { intros Hx. rewrite (lenZ_cons b).
    destruct (Z.ltb_spec (1 + lenZ (x :: t')) (1 + ll)); destruct (Z.ltb_spec (lenZ (x :: t')) ll);
      try lia; [reflexivity|].
    pose proof (slices_val (b :: x :: t') 1 (1 + ll) ltac:(lia) ltac:(rewrite (lenZ_cons b); lia)) as Es.
    change (Z.to_nat 1) with 1%nat in Es. cbn [skipn] in Es. replace (1 + ll - 1) with ll in Es by lia.
    set (lb := firstn (Z.to_nat ll) (x :: t')) in *.
    assert (Elb : lenZ lb = ll) by (apply lenZ_firstn; lia).
    assert (Hlb : Forall isbyte lb) by now apply Forall_firstn'.
    destruct (slice_to (b :: x :: t') (1 + ll)) as [s| | | |]; cbn [obind] in Es; try discriminate.
    cbn [obind]. rewrite Es. cbn [obind].
    rewrite rlp_decode_usize_spec by (try assumption; lia). cbn [obind].
    assert (Eh : hd 0 lb = x).
    { unfold lb. destruct (Z.to_nat ll) eqn:En; [lia|reflexivity]. }
    rewrite Eh. destruct (Z.eqb_spec x 0); [contradiction|]. cbv zeta.
    destruct (Z.leb_spec (be_val lb) 55); reflexivity. }
  destruct x as [|px|px]; [reflexivity| |]; (rewrite Hgo by lia); reflexivity.
Qed.

Lemma rlp_calc_spec b t ll : Forall isbyte (b :: t) -> 1 <= ll <= 8 ->
  exists r, rlp_calc_payload_info (b :: t) ll = Val r /\
    match r with
    | Ok (h, vl) => h = 1 + ll /\ ll <= lenZ t /\ vl = be_val (firstn (Z.to_nat ll) t) /\ 56 <= vl
                    /\ hd 0 t <> 0
    | Err _ => True
    end.
Proof.
  intros Hin Hll. rewrite rlp_calc_eq by assumption. eexists; split; [reflexivity|].
  unfold calc_fn. destruct t as [|x t']; [exact I|]. destruct (Z.eqb_spec x 0); [exact I|].
  destruct (Z.ltb_spec (lenZ (x :: t')) ll); [exact I|]. cbv zeta.
  destruct (Z.leb_spec (be_val (firstn (Z.to_nat ll) (x :: t'))) 55); [exact I|].
  cbn [hd]. repeat split; try lia; assumption.
Qed.

Lemma skipn_S_cons {A} n (b : A) t : 0 <= n -> skipn (Z.to_nat (1 + n)) (b :: t) = skipn (Z.to_nat n) t.
Proof. intros H. replace (Z.to_nat (1 + n)) with (S (Z.to_nat n)) by lia. reflexivity. Qed.

(* Rlp::data never panics; on a non-list item its payload is the grammar's *)
Theorem rlp_data_sound inp : Forall isbyte inp ->
  exists r, rlp_data inp = Val r /\
    match r with
    | Ok p => Forall isbyte p /\
              (forall b t, inp = b :: t -> b < 192 -> exists c, rlp_str_item inp = Some (p, c))
    | Err _ => True
    end.
Proof.
  intros Hin. unfold rlp_data. destruct inp as [|l t]; [eexists; split; [reflexivity|exact I]|].
  destruct (Forall_isbyte_hd l t Hin) as (Hl & Ht). pose proof (lenZ_nonneg t) as Ht0.
  (* common tail once the payload info is known *)
  assert (Tail : forall h vl, 0 <= h -> 0 <= vl ->
    forall P : list Z -> Prop,
    (h + vl <= lenZ (l :: t) -> P (firstn (Z.to_nat vl) (skipn (Z.to_nat h) (l :: t)))) ->
    exists r,
      (if h + vl <=? lenZ (l :: t)
       then do s <- slice_to (l :: t) (h + vl); do s0 <- slice_from s h; Val (Ok s0)
       else Val (Err RlpIsTooShort)) = Val r /\
      match r with Ok p => Forall isbyte p /\ P p | Err _ => True end).
  { intros h vl Hh Hvl P HP. destruct (Z.leb_spec (h + vl) (lenZ (l :: t))); [|eexists; split; [reflexivity|exact I]].
    rewrite (sub_slice (l :: t) h (h + vl)) by lia. replace (h + vl - h) with vl by lia.
    eexists; split; [reflexivity|]. cbn iota. split; [now apply Forall_firstn', Forall_skipn'|now apply HP]. }
  cbn [rlp_payload_from].
  destruct (Z.leb_spec l 127) as [H1|H1].
  { cbn [obind]. apply (Tail 0 1); try lia. intros _ b t' E Hb. inversion E; subst.
    cbn [rlp_str_item]. destruct (Z.ltb_spec b 128); [|lia]. eauto. }
  destruct (Z.leb_spec l 183) as [H2|H2].
  { cbn [obind]. apply (Tail 1 (l - 128)); try lia. intros Hle b t' E Hb. inversion E; subst.
    cbn [rlp_str_item]. destruct (Z.ltb_spec b 128); [lia|]. destruct (Z.ltb_spec b 184); [|lia].
    rewrite lenZ_cons in Hle. destruct (Z.leb_spec (b - 128) (lenZ t')); [|lia].
    change (Z.to_nat 1) with 1%nat. cbn [skipn]. eauto. }
  destruct (Z.leb_spec l 191) as [H3|H3].
  { destruct (rlp_calc_spec l t (l - 183) Hin ltac:(lia)) as (r & Er & Hr). rewrite Er. cbn [obind].
    destruct r as [[h vl]|e]; [|eexists; split; [reflexivity|exact I]].
    destruct Hr as (-> & Hll & -> & H56 & _).
    apply Tail; try lia. intros Hle b t' E Hb. inversion E; subst.
    cbn [rlp_str_item]. destruct (Z.ltb_spec b 128); [lia|]. destruct (Z.ltb_spec b 184); [lia|].
    destruct (Z.ltb_spec b 192); [|lia]. destruct (Z.leb_spec (b - 183) (lenZ t')); [|lia].
    rewrite lenZ_cons in Hle.
    destruct (Z.leb_spec (be_val (firstn (Z.to_nat (b - 183)) t')) (lenZ t' - (b - 183))); [|lia].
    rewrite skipn_S_cons by lia. eauto. }
  destruct (Z.leb_spec l 247) as [H4|H4].
  { cbn [obind]. apply (Tail 1 (l - 192)); try lia. intros _ b t' E Hb. inversion E; subst. lia. }
  destruct (rlp_calc_spec l t (l - 247) Hin ltac:(lia)) as (r & Er & Hr). rewrite Er. cbn [obind].
  destruct r as [[h vl]|e]; [|eexists; split; [reflexivity|exact I]].
  destruct Hr as (-> & Hll & -> & H56 & _).
  apply Tail; try lia. intros _ b t' E Hb. inversion E; subst. lia.
Qed.

Theorem rlp_data_complete q rest : Forall isbyte q -> Forall isbyte rest -> lenZ q < 2 ^ 64 ->
  rlp_data (rlp_string q ++ rest) = Val (Ok q).
Proof.
  intros Hq Hrest Hlen. pose proof (lenZ_nonneg q) as H0. pose proof (lenZ_nonneg rest) as Hr.
  rewrite rlp_string_eq. unfold rlp_data.
  destruct (Z.eqb_spec (lenZ q) 1) as [E1|N1]; cbn [andb].
  { destruct q as [|b [|c t]]; rewrite ?lenZ_cons, ?lenZ_nil in E1;
      try (pose proof (lenZ_nonneg t)); try lia.
    destruct (Forall_isbyte_hd b [] Hq) as (Hb & _). cbn [hd].
    destruct (Z.ltb_spec b 128) as [Hs|Hs].
    - cbn [app rlp_payload_from]. destruct (Z.leb_spec b 127); [|lia]. cbn [obind].
      rewrite lenZ_cons. destruct (Z.leb_spec (0 + 1) (1 + lenZ rest)); [|lia].
      now rewrite (sub_slice (b :: rest) 0 (0 + 1)) by (rewrite ?lenZ_cons; lia).
    - unfold rlp_prefix. change (lenZ [b]) with 1. change (1 <? 56) with true.
      cbn [app rlp_payload_from]. change (128 + 1 <=? 127) with false. change (128 + 1 <=? 183) with true.
      cbn [obind]. rewrite !lenZ_cons. destruct (Z.leb_spec (1 + (128 + 1 - 128)) (1 + (1 + lenZ rest))); [|lia].
      now rewrite (sub_slice ((128 + 1) :: b :: rest) 1 (1 + (128 + 1 - 128))) by (rewrite ?lenZ_cons; lia). }
  unfold rlp_prefix. destruct (Z.ltb_spec (lenZ q) 56) as [Hs|Hl].
  { cbn [app rlp_payload_from].
    destruct (Z.leb_spec (128 + lenZ q) 127); [lia|]. destruct (Z.leb_spec (128 + lenZ q) 183); [|lia].
    cbn [obind]. replace (128 + lenZ q - 128) with (lenZ q) by lia. rewrite lenZ_cons, lenZ_app.
    destruct (Z.leb_spec (1 + lenZ q) (1 + (lenZ q + lenZ rest))); [|lia].
    rewrite sub_slice by (rewrite ?lenZ_cons, ?lenZ_app; lia).
    replace (1 + lenZ q - 1) with (lenZ q) by lia. change (Z.to_nat 1) with 1%nat. cbn [skipn].
    now rewrite firstn_lenZ_app. }
  set (n := lenZ q) in *. set (ll := RunC08.ndigits n).
  assert (Hll : ll = bytelen n) by apply PfC08.ndigits_bytelen.
  assert (Hll1 : 1 <= ll <= 8).
  { rewrite Hll. destruct (bytelen_spec n ltac:(lia)) as (? & ? & ?). split; [lia|].
    apply bytelen_le; [lia|]. change (256 ^ 8) with (2 ^ 64). lia. }
  destruct (be_min_head n ltac:(lia)) as (x & len' & Emin & Hx & Hxb).
  assert (Hml : lenZ (be_min n) = ll) by (rewrite Hll; apply lenZ_be_min; lia).
  cbn [app]. rewrite <- app_assoc.
  assert (Hall : Forall isbyte ((128 + 55 + ll) :: be_min n ++ q ++ rest)).
  { constructor; [unfold isbyte; lia|]. repeat (apply Forall_app; split); try assumption.
    apply be_min_isbyte. }
  cbn [rlp_payload_from].
  destruct (Z.leb_spec (128 + 55 + ll) 127); [lia|]. destruct (Z.leb_spec (128 + 55 + ll) 183); [lia|].
  destruct (Z.leb_spec (128 + 55 + ll) 191); [|lia].
  replace (128 + 55 + ll - 183) with ll by lia. rewrite rlp_calc_eq by assumption.
  unfold calc_fn. rewrite Emin at 1. rewrite <- app_comm_cons. destruct (Z.eqb_spec x 0); [contradiction|].
  rewrite !lenZ_app, Hml. fold n.
  destruct (Z.ltb_spec (ll + (n + lenZ rest)) ll); [lia|]. cbv zeta.
  assert (Ebv : be_val (firstn (Z.to_nat ll) (be_min n ++ q ++ rest)) = n).
  { rewrite <- Hml. rewrite firstn_lenZ_app, be_val_be_min by lia. reflexivity. }
  rewrite !Ebv.
  destruct (Z.leb_spec n 55); [lia|]. cbn [obind].
  rewrite lenZ_cons, !lenZ_app, Hml. fold n.
  destruct (Z.leb_spec (1 + ll + n) (1 + (ll + (n + lenZ rest)))); [|lia].
  rewrite sub_slice by (rewrite ?lenZ_cons, ?lenZ_app, ?Hml; fold n; lia).
  replace (1 + ll + n - (1 + ll)) with n by lia. rewrite skipn_S_cons by lia.
  rewrite <- Hml, skipn_lenZ_app. unfold n. now rewrite firstn_lenZ_app.
Qed.

(* ---------- rlp.rs: impl Decodable for Uint ---------- *)
Theorem rlp_decode_sound bits inp : 0 <= bits -> Forall isbyte inp ->
  exists r, CodecA.rlp_decode bits inp = Val r /\
    match r with
    | Ok l => canon bits l /\ exists p c, rlp_str_item inp = Some (p, c) /\ be_val p = eval l
    | Err _ => True
    end.
Proof.
  intros Hb Hin. unfold CodecA.rlp_decode.
  destruct (rlp_is_list inp) eqn:El; [eexists; split; [reflexivity|exact I]|].
  destruct (rlp_data_sound inp Hin) as (r & Er & Hr). rewrite Er. cbn [obind].
  destruct r as [p|e]; [|eexists; split; [reflexivity|exact I]].
  destruct Hr as (Hp & Hitem). rewrite try_from_be_slice_spec by assumption. cbn [obind].
  rewrite <- be_val_value.
  destruct ((lenZ p <=? nbytes bits) && (be_val p <? 2 ^ bits)) eqn:Ef;
    [|eexists; split; [reflexivity|exact I]].
  apply andb_true_iff in Ef. destruct Ef as [_ Hv]. apply Z.ltb_lt in Hv.
  pose proof (be_val_bound p Hp) as Hpv.
  destruct (canon_uint_of_small bits (be_val p) Hb ltac:(lia)) as (Hc & Ee).
  eexists; split; [reflexivity|]. cbn iota. split; [exact Hc|].
  destruct inp as [|b t]; [cbn in Er; discriminate|].
  cbn [rlp_is_list] in El. apply Z.leb_gt in El.
  destruct (Hitem b t eq_refl El) as (c & Ec). exists p, c. now rewrite Ee.
Qed.

(* the reference encoding of a usize-sized value is headed by a string byte *)
Lemma rlp_uint_not_list v rest : 0 <= v -> bytelen v < 2 ^ 64 -> rlp_is_list (rlp_uint v ++ rest) = false.
Proof.
  intros Hv Hk. destruct (Z.lt_ge_cases v 128) as [Hs|Hs].
  { destruct (Z.eq_dec v 0) as [->|]; [reflexivity|]. rewrite rlp_uint_small by lia.
    cbn [app rlp_is_list]. apply Z.leb_gt. lia. }
  rewrite rlp_uint_big by lia. unfold rlp_prefix. pose proof (bytelen_nonneg v Hv) as Hk0.
  destruct (Z.ltb_spec (bytelen v) 56); cbn [app rlp_is_list]; apply Z.leb_gt; [lia|].
  rewrite PfC08.ndigits_bytelen.
  assert (bytelen (bytelen v) <= 8) by (apply bytelen_le; [lia|]; change (256 ^ 8) with (2 ^ 64); lia).
  lia.
Qed.

Theorem rlp_decode_complete bits v rest : 0 <= bits -> 0 <= v < 2 ^ bits ->
  bytelen v < 2 ^ 64 -> Forall isbyte rest ->
  CodecA.rlp_decode bits (rlp_uint v ++ rest) = Val (Ok (uint_of bits v)).
Proof.
  intros Hb Hv Hlen Hrest. unfold CodecA.rlp_decode. rewrite rlp_uint_not_list by lia. unfold rlp_uint.
  rewrite rlp_data_complete by (try apply be_min_isbyte; try assumption; rewrite lenZ_be_min; lia).
  cbn [obind]. rewrite try_from_be_slice_spec by (try apply be_min_isbyte; lia). cbn [obind].
  rewrite <- be_val_value, lenZ_be_min, be_val_be_min by lia.
  pose proof (bytelen_fits bits v Hb Hv).
  destruct (Z.leb_spec (bytelen v) (nbytes bits)); [|lia].
  destruct (Z.ltb_spec v (2 ^ bits)); [|lia]. reflexivity.
Qed.

(* ---------- rlp 0.5: BasicDecoder::decode_value ---------- *)
Definition dv_fn (inp : list Z) : rlpderr + list Z :=
  match inp with
  | [] => inl RlpIsTooShort
  | l :: t =>
      if l <=? 127 then inr [l]
      else if l <=? 183 then
        let n := l - 128 in
        if lenZ t <? n then inl RlpInconsistentLengthAndData
        else let d := firstn (Z.to_nat n) t in
             if (l =? 129) && (hd 0 d <? 128) then inl RlpInvalidIndirection else inr d
      else if l <=? 191 then
        let ll := l - 183 in
        if lenZ t <? ll then inl RlpInconsistentLengthAndData
        else let lb := firstn (Z.to_nat ll) t in
             if hd 0 lb =? 0 then inl RlpInvalidIndirection
             else let len := be_val lb in
                  if B <=? 1 + ll + len then inl RlpInvalidLength
                  else if lenZ t <? ll + len then inl RlpInconsistentLengthAndData
                  else inr (firstn (Z.to_nat len) (skipn (Z.to_nat ll) t))
      else inl RlpExpectedToBeData
  end.

Lemma rlp_decode_value_eq {A} inp (f : list Z -> outcome (res rlpderr A)) :
  Forall isbyte inp ->
  rlp_decode_value inp f = match dv_fn inp with inl e => Val (Err e) | inr d => f d end.
Proof.
  intros Hin. destruct inp as [|l t]; [reflexivity|].
  destruct (Forall_isbyte_hd l t Hin) as (Hl & Ht). pose proof (lenZ_nonneg t) as Ht0.
  cbn [rlp_decode_value dv_fn].
  destruct (Z.leb_spec l 127); [reflexivity|].
  destruct (Z.leb_spec l 183) as [H2|H2].
  { cbv zeta. rewrite lenZ_cons. replace (1 + l - 128) with (1 + (l - 128)) by lia.
    destruct (Z.ltb_spec (1 + lenZ t) (1 + (l - 128))); destruct (Z.ltb_spec (lenZ t) (l - 128)); try lia;
      [reflexivity|].
    pose proof (slices_val (l :: t) 1 (1 + (l - 128)) ltac:(lia) ltac:(rewrite lenZ_cons; lia)) as Es.
    change (Z.to_nat 1) with 1%nat in Es. cbn [skipn] in Es.
    replace (1 + (l - 128) - 1) with (l - 128) in Es by lia.
    destruct (slice_to (l :: t) (1 + (l - 128))) as [s| | | |]; cbn [obind] in Es; try discriminate.
    cbn [obind]. rewrite Es. cbn [obind].
    destruct (Z.eqb_spec l 129) as [->|N]; [|reflexivity]. cbn [andb].
    change (129 - 128) with 1 in *. change (Z.to_nat 1) with 1%nat.
    destruct t as [|c t']; [rewrite lenZ_nil in *; lia|]. cbn [firstn hd]. rewrite idx_0. cbn [obind].
    destruct (c <? 128); reflexivity. }
  destruct (Z.leb_spec l 191) as [H3|H3]; [|reflexivity].
  cbv zeta. rewrite lenZ_cons. set (ll := l - 183).
  destruct (Z.ltb_spec (1 + lenZ t) (1 + ll)); destruct (Z.ltb_spec (lenZ t) ll); try lia; [reflexivity|].
  pose proof (slices_val (l :: t) 1 (1 + ll) ltac:(unfold ll; lia) ltac:(rewrite lenZ_cons; lia)) as Es.
  change (Z.to_nat 1) with 1%nat in Es. cbn [skipn] in Es. replace (1 + ll - 1) with ll in Es by lia.
  destruct (slice_to (l :: t) (1 + ll)) as [s| | | |]; cbn [obind] in Es; try discriminate.
  cbn [obind]. rewrite Es. cbn [obind].
  set (lb := firstn (Z.to_nat ll) t) in *.
  assert (Elb : lenZ lb = ll) by (apply lenZ_firstn; unfold ll; lia).
  assert (Hlb : Forall isbyte lb) by now apply Forall_firstn'.
  rewrite rlp_decode_usize_spec by (try assumption; unfold ll in *; lia). cbn [obind].
  destruct (hd 0 lb =? 0); [reflexivity|].
  pose proof (be_val_bound lb Hlb) as Hbv.
  destruct (Z.leb_spec B (1 + ll + be_val lb)); [reflexivity|].
  destruct (Z.ltb_spec (1 + lenZ t) (1 + ll + be_val lb)); destruct (Z.ltb_spec (lenZ t) (ll + be_val lb));
    try lia; [reflexivity|].
  pose proof (slices_val (l :: t) (1 + ll) (1 + ll + be_val lb) ltac:(unfold ll in *; lia)
                ltac:(rewrite lenZ_cons; lia)) as Es2.
  rewrite skipn_S_cons in Es2 by (unfold ll; lia).
  replace (1 + ll + be_val lb - (1 + ll)) with (be_val lb) in Es2 by lia.
  destruct (slice_to (l :: t) (1 + ll + be_val lb)) as [s2| | | |]; cbn [obind] in Es2; try discriminate.
  cbn [obind]. rewrite Es2. reflexivity.
Qed.

Lemma dv_fn_sound inp d : dv_fn inp = inr d -> exists c, rlp_str_item inp = Some (d, c).
Proof.
  destruct inp as [|l t]; [discriminate|]. cbn [dv_fn rlp_str_item].
  destruct (Z.leb_spec l 127). { intros E; inversion E; subst. destruct (Z.ltb_spec l 128); [eauto|lia]. }
  destruct (Z.ltb_spec l 128); [lia|].
  destruct (Z.leb_spec l 183).
  { cbv zeta. destruct (Z.ltb_spec l 184); [|lia].
    destruct (Z.ltb_spec (lenZ t) (l - 128)); [discriminate|].
    destruct ((l =? 129) && _); [discriminate|]. intros E; inversion E; subst.
    destruct (Z.leb_spec (l - 128) (lenZ t)); [eauto|lia]. }
  destruct (Z.ltb_spec l 184); [lia|].
  destruct (Z.leb_spec l 191); [|discriminate]. destruct (Z.ltb_spec l 192); [|lia]. cbv zeta.
  destruct (Z.ltb_spec (lenZ t) (l - 183)); [discriminate|].
  destruct (_ =? 0); [discriminate|]. destruct (B <=? _); [discriminate|].
  destruct (Z.ltb_spec (lenZ t) (l - 183 + be_val (firstn (Z.to_nat (l - 183)) t))); [discriminate|].
  intros E; inversion E; subst. destruct (Z.leb_spec (l - 183) (lenZ t)); [|lia].
  destruct (Z.leb_spec (be_val (firstn (Z.to_nat (l - 183)) t)) (lenZ t - (l - 183))); [eauto|lia].
Qed.

Lemma dv_fn_complete q rest : Forall isbyte q -> lenZ q < 2 ^ 64 - 9 ->
  dv_fn (rlp_string q ++ rest) = inr q.
Proof.
  intros Hq Hlen. pose proof (lenZ_nonneg q) as H0. pose proof (lenZ_nonneg rest) as Hr.
  rewrite rlp_string_eq.
  destruct (Z.eqb_spec (lenZ q) 1) as [E1|N1]; cbn [andb].
  { destruct q as [|b [|c t]]; rewrite ?lenZ_cons, ?lenZ_nil in E1;
      try (pose proof (lenZ_nonneg t)); try lia.
    destruct (Forall_isbyte_hd b [] Hq) as (Hb & _). cbn [hd].
    destruct (Z.ltb_spec b 128) as [Hs|Hs].
    - cbn [app dv_fn]. destruct (Z.leb_spec b 127); [reflexivity|lia].
    - unfold rlp_prefix. change (lenZ [b]) with 1. change (1 <? 56) with true.
      cbn [app dv_fn]. change (128 + 1 <=? 127) with false. change (128 + 1 <=? 183) with true.
      cbv zeta. change (128 + 1 - 128) with 1. rewrite lenZ_cons.
      destruct (Z.ltb_spec (1 + lenZ rest) 1); [lia|]. change (Z.to_nat 1) with 1%nat. cbn [firstn hd].
      change (128 + 1 =? 129) with true. destruct (Z.ltb_spec b 128); [lia|]. reflexivity. }
  unfold rlp_prefix. destruct (Z.ltb_spec (lenZ q) 56) as [Hs|Hl].
  { cbn [app dv_fn].
    destruct (Z.leb_spec (128 + lenZ q) 127); [lia|]. destruct (Z.leb_spec (128 + lenZ q) 183); [|lia].
    cbv zeta. replace (128 + lenZ q - 128) with (lenZ q) by lia. rewrite lenZ_app.
    destruct (Z.ltb_spec (lenZ q + lenZ rest) (lenZ q)); [lia|].
    destruct (Z.eqb_spec (128 + lenZ q) 129); [lia|]. cbn [andb]. now rewrite firstn_lenZ_app. }
  set (n := lenZ q) in *. set (ll := RunC08.ndigits n).
  assert (Hll : ll = bytelen n) by apply PfC08.ndigits_bytelen.
  assert (Hll1 : 1 <= ll <= 8).
  { rewrite Hll. destruct (bytelen_spec n ltac:(lia)) as (? & ? & ?). split; [lia|].
    apply bytelen_le; [lia|]. change (256 ^ 8) with (2 ^ 64). lia. }
  destruct (be_min_head n ltac:(lia)) as (x & len' & Emin & Hx & Hxb).
  assert (Hml : lenZ (be_min n) = ll) by (rewrite Hll; apply lenZ_be_min; lia).
  cbn [app]. rewrite <- app_assoc. cbn [dv_fn].
  destruct (Z.leb_spec (128 + 55 + ll) 127); [lia|]. destruct (Z.leb_spec (128 + 55 + ll) 183); [lia|].
  destruct (Z.leb_spec (128 + 55 + ll) 191); [|lia]. cbv zeta.
  replace (128 + 55 + ll - 183) with ll by lia. rewrite !lenZ_app, Hml. fold n.
  destruct (Z.ltb_spec (ll + (n + lenZ rest)) ll); [lia|].
  assert (Ef : firstn (Z.to_nat ll) (be_min n ++ q ++ rest) = be_min n)
    by (rewrite <- Hml; apply firstn_lenZ_app).
  assert (Es : skipn (Z.to_nat ll) (be_min n ++ q ++ rest) = q ++ rest)
    by (rewrite <- Hml; apply skipn_lenZ_app).
  rewrite Ef, Es, be_val_be_min by lia. rewrite Emin. cbn [hd]. destruct (Z.eqb_spec x 0); [contradiction|].
  rewrite B_pow. destruct (Z.leb_spec (2 ^ 64) (1 + ll + n)); [lia|].
  destruct (Z.ltb_spec (ll + (n + lenZ rest)) (ll + n)); [lia|]. unfold n. now rewrite firstn_lenZ_app.
Qed.

(* ---------- rlp.rs: impl Decodable for Bits ---------- *)
Theorem bits_rlp_decode_spec bits inp : 0 <= bits -> Forall isbyte inp ->
  CodecA.bits_rlp_decode bits inp =
    Val (match dv_fn inp with
         | inl e => Err e
         | inr d => if lenZ d <? nbytes bits then Err RlpIsTooShort
                    else if nbytes bits <? lenZ d then Err RlpIsTooBig
                    else if be_val d <? 2 ^ bits then Ok (uint_of bits (be_val d)) else Err RlpIsTooBig
         end).
Proof.
  intros Hb Hin. unfold CodecA.bits_rlp_decode. rewrite rlp_decode_value_eq by assumption.
  destruct (dv_fn inp) as [e|d] eqn:Ed; [reflexivity|].
  destruct (Z.ltb_spec (lenZ d) (nbytes bits)); [reflexivity|].
  destruct (Z.ltb_spec (nbytes bits) (lenZ d)); [reflexivity|].
  destruct (dv_fn_sound inp d Ed) as (c & Ec).
  destruct (rlp_str_item_inv inp d c Hin Ec) as (Hd & _).
  rewrite try_from_be_slice_spec by assumption. cbn [obind]. rewrite <- be_val_value.
  destruct (Z.leb_spec (lenZ d) (nbytes bits)); [|lia]. cbn [andb].
  destruct (be_val d <? 2 ^ bits); reflexivity.
Qed.

(* ---------- serde.rs: binary (bincode) ---------- *)
Lemma lenZ_be_fixed n v : 0 <= n -> lenZ (be_fixed n v) = n.
Proof. intros H. rewrite be_fixed_digits, lenZ_rev, lenZ_le_digits. lia. Qed.
Lemma be_val_be_fixed n v : 0 <= n -> 0 <= v < 256 ^ n -> be_val (be_fixed n v) = v.
Proof.
  intros Hn Hv. rewrite be_val_value, be_fixed_digits, rev_involutive, le_value_le_digits, Z2Nat.id by lia.
  now apply Z.mod_small.
Qed.

Lemma bincode_ser_spec bits a : 0 <= bits -> canon bits a ->
  CodecA.bincode_ser bits a = bincode_uint bits (eval a).
Proof.
  intros Hb Hc. unfold CodecA.bincode_ser, serialize_binary, bincode_uint.
  now rewrite to_be_bytes_vec_spec, be_fixed_digits, SBYTES_nbytes by assumption.
Qed.
Lemma lenZ_bincode_uint bits v : 0 <= bits -> lenZ (bincode_uint bits v) = 8 + SBYTES bits.
Proof.
  intros Hb. unfold bincode_uint, bincode_bytes. rewrite lenZ_app, le64_digits, lenZ_le_digits.
  rewrite lenZ_be_fixed; [reflexivity|]. rewrite SBYTES_nbytes by lia. now apply nbytes_nonneg.
Qed.

Lemma bincode_read_app n p rest : 0 <= n < 2 ^ 64 -> lenZ p = n ->
  bincode_read_bytes (le64 n ++ p ++ rest) = Some p.
Proof.
  intros Hn Hp. unfold bincode_read_bytes. rewrite le64_digits.
  pose proof (lenZ_nonneg rest).
  rewrite !lenZ_app, lenZ_le_digits. change (Z.of_nat 8) with 8.
  destruct (Z.ltb_spec (8 + (lenZ p + lenZ rest)) 8); [lia|].
  assert (Ef : firstn 8 (le_digits 8 n ++ p ++ rest) = le_digits 8 n).
  { rewrite <- (le_digits_length 8 n) at 1. apply firstn_app_exact. }
  assert (Es : skipn 8 (le_digits 8 n ++ p ++ rest) = p ++ rest).
  { rewrite <- (le_digits_length 8 n) at 1. apply skipn_app_exact. }
  rewrite Ef, Es. unfold u64_from_le_bytes.
  rewrite le_value_le_digits. change (256 ^ Z.of_nat 8) with (2 ^ 64). rewrite Z.mod_small by lia.
  rewrite lenZ_app. destruct (Z.ltb_spec (lenZ p + lenZ rest) n); [lia|].
  rewrite <- Hp. now rewrite firstn_lenZ_app.
Qed.

Lemma bincode_read_inv inp p : Forall isbyte inp -> bincode_read_bytes inp = Some p ->
  exists rest, inp = le64 (lenZ p) ++ p ++ rest /\ Forall isbyte p.
Proof.
  intros Hin. unfold bincode_read_bytes.
  destruct (Z.ltb_spec (lenZ inp) 8); [discriminate|].
  set (n := u64_from_le_bytes (firstn 8 inp)). set (rest := skipn 8 inp).
  destruct (Z.ltb_spec (lenZ rest) n); [discriminate|]. intros E. inversion E; subst p. clear E.
  assert (H8 : Forall isbyte (firstn 8 inp)) by now apply Forall_firstn'.
  assert (Hn0 : 0 <= n) by (pose proof (le_value_bound _ H8); unfold n, u64_from_le_bytes; lia).
  exists (skipn (Z.to_nat n) rest). rewrite lenZ_firstn by lia. split.
  - rewrite firstn_skipn. unfold rest. rewrite <- (firstn_skipn 8 inp) at 1. f_equal.
    rewrite le64_digits. unfold n, u64_from_le_bytes.
    replace 8%nat with (length (firstn 8 inp)) at 2.
    + now rewrite le_digits_le_value.
    + rewrite firstn_length. unfold lenZ in *. lia.
  - now apply Forall_firstn', Forall_skipn'.
Qed.

Lemma visit_bytes_spec bits p : 0 <= bits -> Forall isbyte p ->
  visit_bytes bits p =
    Val (if (lenZ p =? nbytes bits) && (be_val p <? 2 ^ bits)
         then Some (uint_of bits (be_val p)) else None).
Proof.
  intros Hb Hp. unfold visit_bytes. destruct (Z.eqb_spec (lenZ p) (nbytes bits)) as [E|N]; cbn [negb andb].
  - rewrite try_from_be_slice_spec by assumption. rewrite <- be_val_value.
    destruct (Z.leb_spec (lenZ p) (nbytes bits)); [|lia]. reflexivity.
  - reflexivity.
Qed.

Theorem bincode_de_sound bits inp : 0 <= bits -> Forall isbyte inp ->
  exists o, CodecA.bincode_de bits inp = Val o /\
    match o with
    | Some l => canon bits l /\ prefixb (bincode_uint bits (eval l)) inp = true
    | None => True
    end.
Proof.
  intros Hb Hin. unfold CodecA.bincode_de.
  destruct (bincode_read_bytes inp) as [p|] eqn:E; [|eexists; split; [reflexivity|exact I]].
  destruct (bincode_read_inv inp p Hin E) as (rest & Einp & Hp).
  rewrite visit_bytes_spec by assumption.
  destruct ((lenZ p =? nbytes bits) && (be_val p <? 2 ^ bits)) eqn:Ef;
    [|eexists; split; [reflexivity|exact I]].
  apply andb_true_iff in Ef. destruct Ef as [El Hv]. apply Z.eqb_eq in El. apply Z.ltb_lt in Hv.
  pose proof (be_val_bound p Hp) as Hpv.
  destruct (canon_uint_of_small bits (be_val p) Hb ltac:(lia)) as (Hc & Ee).
  eexists; split; [reflexivity|]. cbn iota. split; [exact Hc|].
  apply prefixb_iff. exists rest. rewrite Ee. unfold bincode_uint, bincode_bytes.
  rewrite SBYTES_nbytes, <- El, be_fixed_be_val by assumption. rewrite <- app_assoc. exact Einp.
Qed.

Theorem bincode_de_complete bits v rest : 0 <= bits < 2 ^ 64 -> 0 <= v < 2 ^ bits ->
  CodecA.bincode_de bits (bincode_uint bits v ++ rest) = Val (Some (uint_of bits v)).
Proof.
  intros Hb Hv. unfold CodecA.bincode_de, bincode_uint, bincode_bytes.
  pose proof (nbytes_nonneg bits ltac:(lia)) as Hn.
  assert (Hn64 : nbytes bits < 2 ^ 64) by (unfold nbytes; Z.div_mod_to_equations; lia).
  rewrite SBYTES_nbytes by lia. rewrite <- app_assoc, lenZ_be_fixed by lia.
  rewrite bincode_read_app by (try apply lenZ_be_fixed; lia).
  rewrite visit_bytes_spec by (try apply be_fixed_isbyte; lia).
  pose proof (pow_bits_le_bytes bits ltac:(lia)).
  rewrite lenZ_be_fixed, be_val_be_fixed by lia. rewrite Z.eqb_refl.
  destruct (Z.ltb_spec v (2 ^ bits)); [reflexivity|lia].
Qed.

(* ---------- serde.rs: human readable (JSON) ---------- *)
Lemma list_eqb_eq (a b : list Z) : list_eqb Z.eqb a b = true <-> a = b.
Proof.
  revert b. induction a as [|x a IH]; intros [|y b]; cbn [list_eqb]; try (split; congruence).
  rewrite andb_true_iff, Z.eqb_eq, IH. split; [intros [-> ->]; reflexivity|intros E; inversion E; auto].
Qed.

(* what an answer of from_str_radix that meets RunC09's spec says about the denoted number *)
Lemma spec_parse_number bits radix body r : 2 <= radix <= 64 ->
  RunC09.spec_parse bits radix body (Val (RunC09.pres_toks r)) = true ->
  match r with
  | Ok l => exists v, number_of radix body = Some v /\ v < 2 ^ bits /\ l = uint_of bits v
  | Err _ => number_of radix body = None \/ exists v, number_of radix body = Some v /\ 2 ^ bits <= v
  end.
Proof.
  intros Hr. unfold RunC09.spec_parse, number_of.
  destruct (Z.ltb_spec 64 radix); [lia|]. destruct (Z.ltb_spec radix 2); [lia|].
  destruct (RunC09.split_text radix body) as [pre bad].
  destruct r as [l|e].
  - cbn [RunC09.pres_toks]. intros HH. apply andb_true_iff in HH. destruct HH as [HH Hl].
    apply andb_true_iff in HH. destruct HH as [Hbad Hov].
    destruct bad; [discriminate|]. apply list_eqb_eq in Hl.
    apply negb_true_iff, Z.leb_gt in Hov. eauto.
  - destruct e as [c|rr|[|b|d b]]; cbn [RunC09.pres_toks RunC09.perr_toks RunC09.bcerr_toks]; intros HH.
    + destruct bad as [[c'|d']|]; try discriminate. now left.
    + discriminate.
    + apply Z.leb_le in HH. destruct bad; [now left|right; eauto].
    + discriminate.
    + destruct bad as [[c'|d']|]; try discriminate. now left.
Qed.

Lemma spec_from_str_number bits cs r :
  RunC09.spec_from_str bits cs (Val (RunC09.pres_toks r)) = true ->
  match r with
  | Ok l => exists v, lenient_number cs = Some v /\ v < 2 ^ bits /\ l = uint_of bits v
  | Err _ => lenient_number cs = None \/ exists v, lenient_number cs = Some v /\ 2 ^ bits <= v
  end.
Proof.
  rewrite PfStr.spec_from_str_cases. unfold lenient_number.
  destruct cs as [|c1 [|c2 rest]]; try (apply spec_parse_number; lia).
  destruct (c1 =? 48); [|apply spec_parse_number; lia].
  unfold PfStr.sniffed.
  destruct ((c2 =? 120) || (c2 =? 88)); [apply spec_parse_number; lia|].
  destruct ((c2 =? 111) || (c2 =? 79)); [apply spec_parse_number; lia|].
  destruct ((c2 =? 98) || (c2 =? 66)); apply spec_parse_number; lia.
Qed.

Lemma lenient_zero_str : lenient_number ZERO_STR = Some 0.
Proof. reflexivity. Qed.

Lemma lenient_number_nonneg cs v : lenient_number cs = Some v -> 0 <= v.
Proof.
  intros En. unfold lenient_number, number_of in En.
  assert (G : forall radix body, 0 <= radix ->
            match RunC09.split_text radix body with
            | (ds, None) => Some (RunC09.value_be radix ds) | (_, Some _) => None end = Some v -> 0 <= v).
  { intros radix body Hr. destruct (RunC09.split_text radix body) as [ds [x|]] eqn:Es; [discriminate|].
    intros E; inversion E; subst. unfold RunC09.value_be.
    apply PfPositional.value_le_nonneg; [lia|]. apply Forall_rev.
    clear - Es. revert ds Es. induction body as [|c t IH]; intros ds Es; cbn [RunC09.split_text] in Es.
    - inversion Es; constructor.
    - destruct (RunC09.char_item radix c) as [d| |] eqn:Ec; try discriminate.
      + destruct (radix <=? d); [discriminate|].
        destruct (RunC09.split_text radix t) as [p b]. inversion Es; subst. constructor; [|now apply IH].
        clear - Ec. unfold RunC09.char_item in Ec.
        assert (Hi : forall l c0 i0 d0, 0 <= i0 -> RunC09.index_of c0 l i0 = Some d0 -> 0 <= d0).
        { induction l as [|y l IHl]; intros c0 i0 d0 Hi0; cbn [RunC09.index_of]; [discriminate|].
          destruct (c0 =? y); [intros E; inversion E; lia|apply IHl; lia]. }
        destruct (radix <=? 36).
        * destruct (c =? 95); [discriminate|].
          destruct (RunC09.index_of _ _ 0) eqn:Ei; [|discriminate]. inversion Ec; subst.
          eapply Hi; [|exact Ei]; lia.
        * destruct ((c =? 61) || (c =? 13) || (c =? 10)); [discriminate|].
          destruct ((c =? 43) || (c =? 45)); [inversion Ec; lia|].
          destruct ((c =? 47) || (c =? 44) || (c =? 95)); [inversion Ec; lia|].
          destruct (RunC09.index_of _ _ 0) eqn:Ei; [|discriminate]. inversion Ec; subst.
          eapply Hi; [|exact Ei]; lia.
      + now apply IH. }
  destruct cs as [|c1 [|c2 rest]];
    [exact (G 10 [] ltac:(lia) En)|exact (G 10 [c1] ltac:(lia) En)|].
  destruct (c1 =? 48); [|exact (G 10 (c1 :: c2 :: rest) ltac:(lia) En)].
  destruct ((c2 =? 120) || (c2 =? 88)); [exact (G 16 rest ltac:(lia) En)|].
  destruct ((c2 =? 111) || (c2 =? 79)); [exact (G 8 rest ltac:(lia) En)|].
  destruct ((c2 =? 98) || (c2 =? 66));
    [exact (G 2 rest ltac:(lia) En)|exact (G 10 (c1 :: c2 :: rest) ltac:(lia) En)].
Qed.

(* HrVisitor::visit_str *)
Theorem visit_str_spec bits cs : 0 <= bits ->
  exists o, visit_str bits cs = Val o /\
    match o with
    | Some l => canon bits l /\ lenient_number cs = Some (eval l)
    | None => (bits = 0 /\ cs <> ZERO_STR) \/ lenient_number cs = None
              \/ exists v, lenient_number cs = Some v /\ 2 ^ bits <= v
    end.
Proof.
  intros Hb. unfold visit_str.
  destruct (list_eqb Z.eqb cs ZERO_STR) eqn:Ez.
  { apply list_eqb_eq in Ez. subst cs. eexists; split; [reflexivity|]. cbn iota.
    destruct (canon_uZERO bits Hb) as (Hc & E0). split; [exact Hc|]. now rewrite E0. }
  assert (Hne : cs <> ZERO_STR) by (intros ->; rewrite (proj2 (list_eqb_eq _ _) eq_refl) in Ez; discriminate).
  destruct (Z.eqb_spec bits 0) as [->|Nb]; [eexists; split; [reflexivity|]; now left|].
  destruct (PfStr.from_str_spec bits cs Hb) as (r & Er & Sr). rewrite Er. cbn [obind].
  apply spec_from_str_number in Sr. destruct r as [l|e].
  - destruct Sr as (v & En & Hv & ->). eexists; split; [reflexivity|]. cbn iota.
    pose proof (lenient_number_nonneg cs v En).
    destruct (canon_uint_of_small bits v Hb ltac:(lia)) as (Hc & Ee). now rewrite Ee.
  - eexists; split; [reflexivity|]. cbn iota. right. exact Sr.
Qed.

(* HrVisitor::visit_u64 / visit_u128 *)
Lemma visit_u64_spec bits n : 0 <= bits -> 0 <= n < 2 ^ 64 ->
  visit_u64 bits n = Val (if n <? 2 ^ bits then Some (uint_of bits n) else None).
Proof.
  intros Hb Hn. unfold visit_u64. rewrite PfConv.try_from_u64_spec by (rewrite ?B_pow; lia).
  cbn [obind]. unfold PfConv.res_of. destruct (n <? 2 ^ bits); reflexivity.
Qed.
Lemma visit_u128_spec bits n : 0 <= bits -> 0 <= n < 2 ^ 128 ->
  visit_u128 bits n = Val (if n <? 2 ^ bits then Some (uint_of bits n) else None).
Proof.
  intros Hb Hn. unfold visit_u128. rewrite PfConv.try_from_u128_spec by lia.
  cbn [obind]. unfold PfConv.res_of. destruct (n <? 2 ^ bits); reflexivity.
Qed.

(* ---------- JSON text of a string without escapes ---------- *)
Definition plain (c : Z) : Prop := 32 <= c < 128 /\ c <> 34 /\ c <> 92.

Lemma json_str_body_plain cs rest : Forall plain cs ->
  forall fuel acc, (length cs < fuel)%nat ->
  json_str_body fuel (cs ++ 34 :: rest) acc = Some (rev acc ++ cs, rest).
Proof.
  induction 1 as [|c cs (Hc & H34 & H92) Hcs IH]; intros fuel acc Hf.
  - destruct fuel; [inversion Hf|]. cbn [app json_str_body]. rewrite Z.eqb_refl. now rewrite app_nil_r.
  - destruct fuel; [inversion Hf|]. cbn [app json_str_body].
    destruct (Z.eqb_spec c 34); [contradiction|]. destruct (Z.eqb_spec c 92); [contradiction|].
    destruct (Z.ltb_spec c 32); [lia|]. rewrite IH by (cbn [length] in Hf; lia).
    cbn [rev]. now rewrite <- app_assoc.
Qed.

Lemma utf8_decode_ascii cs : Forall (fun c => 0 <= c < 128) cs -> Str.utf8_decode cs = Some cs.
Proof.
  induction 1 as [|c cs Hc Hcs IH]; [reflexivity|]. cbn [Str.utf8_decode].
  destruct (Z.ltb_spec c 128); [|lia]. now rewrite IH.
Qed.

Lemma json_read_string cs : Forall plain cs -> json_read (json_string cs) = JStr cs.
Proof.
  intros Hp. unfold json_string, json_read. cbn [app skip_ws]. change (is_ws 34) with false. cbn iota.
  rewrite Z.eqb_refl. change (cs ++ [34]) with (cs ++ 34 :: []).
  rewrite json_str_body_plain by (try assumption; rewrite app_length; cbn [length]; lia).
  cbn [rev app]. rewrite utf8_decode_ascii.
  - reflexivity.
  - eapply Forall_impl; [|exact Hp]. unfold plain. intros; lia.
Qed.

Lemma hexchar_plain d : 0 <= d < 16 -> plain (hexchar d).
Proof. intros H. unfold plain, hexchar. destruct (Z.ltb_spec d 10); lia. Qed.

Lemma char_item_hexchar d : 0 <= d < 16 -> RunC09.char_item 16 (hexchar d) = RunC09.SDigit d.
Proof.
  intros H.
  assert (D : d = 0 \/ d = 1 \/ d = 2 \/ d = 3 \/ d = 4 \/ d = 5 \/ d = 6 \/ d = 7 \/ d = 8 \/ d = 9
              \/ d = 10 \/ d = 11 \/ d = 12 \/ d = 13 \/ d = 14 \/ d = 15) by lia.
  repeat (destruct D as [->|D]; [reflexivity|]). subst; reflexivity.
Qed.

Lemma split_text_hex ds : Forall (fun d => 0 <= d < 16) ds ->
  RunC09.split_text 16 (map hexchar ds) = (ds, None).
Proof.
  induction 1 as [|d ds Hd Hds IH]; [reflexivity|]. cbn [map RunC09.split_text].
  rewrite char_item_hexchar by assumption. destruct (Z.leb_spec 16 d); [lia|]. now rewrite IH.
Qed.

Lemma hex_digits_range v : Forall (fun d => 0 <= d < 16) (RunC09.digits_be 16 v).
Proof. unfold RunC09.digits_be. apply Forall_rev. apply (PfPositional.digits_range 16 v). lia. Qed.

Lemma quantity_plain v : Forall plain (quantity v).
Proof.
  unfold quantity. apply Forall_app. split.
  - repeat constructor; unfold plain; lia.
  - destruct (v =? 0); [repeat constructor; unfold plain; lia|].
    apply Forall_map. eapply Forall_impl; [|apply hex_digits_range]. apply hexchar_plain.
Qed.

Lemma lenient_quantity v : 0 <= v -> lenient_number (quantity v) = Some v.
Proof.
  intros Hv. unfold quantity. cbn [app]. unfold lenient_number.
  change (48 =? 48) with true. change ((120 =? 120) || (120 =? 88)) with true. cbn iota.
  destruct (Z.eqb_spec v 0) as [->|N]; [reflexivity|].
  unfold number_of. rewrite split_text_hex by apply hex_digits_range.
  unfold RunC09.value_be, RunC09.digits_be. rewrite rev_involutive.
  now rewrite PfPositional.value_digits by lia.
Qed.

(* ---------- serde.rs: Serialize (human readable) ---------- *)
Lemma serde_json_ser_spec bits a : 0 <= bits -> canon bits a ->
  CodecA.serde_json_ser bits a = Val (json_quantity (eval a)).
Proof.
  intros Hb Hc. unfold CodecA.serde_json_ser, serialize_human_minimal, json_quantity.
  destruct Hc as (Hl & Hw & Hlt). rewrite PfFmt.is_zero_spec by assumption.
  destruct (Z.eqb_spec (eval a) 0) as [E|N].
  - cbn [obind]. rewrite E. reflexivity.
  - rewrite PfFmt.fmt_spec by (try lia; repeat split; assumption). cbn [obind].
    unfold RunC09.ref_fmt, RunC09.ref_digit_string, Fmt.std_pad_integral, spec_alt_x, quantity.
    cbn [Fmt.f_plus Fmt.f_alt Fmt.f_width].
    destruct (Z.eqb_spec (eval a) 0); [contradiction|]. reflexivity.
Qed.

Theorem serde_json_roundtrip bits a : 0 <= bits -> canon bits a ->
  CodecA.serde_json_de bits (json_quantity (eval a)) = Val (Some a).
Proof.
  intros Hb Hc. pose proof (canon_range bits a Hb Hc) as Hv.
  unfold CodecA.serde_json_de, json_quantity. rewrite json_read_string by apply quantity_plain.
  destruct (visit_str_spec bits (quantity (eval a)) Hb) as (o & Eo & Ho). rewrite Eo.
  rewrite lenient_quantity in Ho by lia. destruct o as [l|].
  - destruct Ho as (Hcl & El). inversion El as [Ev]. do 2 f_equal.
    rewrite <- (canon_uint_of bits l Hcl), <- (canon_uint_of bits a Hc). now rewrite <- Ev.
  - exfalso. destruct Ho as [(-> & Hne)|[Hn|(v & E & Hge)]].
    + apply Hne. replace (eval a) with 0 by (cbn in Hv; lia). reflexivity.
    + discriminate.
    + inversion E; subst. lia.
Qed.

(* ---------- serde.rs: Bits (fixed-width hex) ---------- *)
Lemma byte_02x_spec b : 0 <= b < 256 -> byte_02x b = [hexchar (b / 16); hexchar (b mod 16)].
Proof.
  intros Hb.
  assert (T : forallb (fun n => list_eqb Z.eqb (byte_02x (Z.of_nat n))
                                  [hexchar (Z.of_nat n / 16); hexchar (Z.of_nat n mod 16)])
                      (seq 0 256) = true) by (vm_compute; reflexivity).
  rewrite forallb_forall in T. specialize (T (Z.to_nat b)).
  rewrite Z2Nat.id in T by lia. apply list_eqb_eq, T, in_seq. lia.
Qed.

Definition nibbles (b : Z) : list Z := [b / 16; b mod 16].

Lemma hex_data_eq p : hex_data p = [48; 120] ++ map hexchar (flat_map nibbles p).
Proof.
  unfold hex_data. f_equal. induction p as [|b p IH]; [reflexivity|].
  cbn [flat_map nibbles map app]. now rewrite IH.
Qed.

Lemma serialize_human_full_spec bits a : 0 <= bits -> canon bits a ->
  serialize_human_full bits a =
    if bits =? 0 then quantity 0 else hex_data (be_fixed (SBYTES bits) (eval a)).
Proof.
  intros Hb Hc. unfold serialize_human_full. destruct (bits =? 0); [reflexivity|].
  rewrite as_le_bytes_spec by assumption. rewrite be_fixed_digits, SBYTES_nbytes by assumption.
  unfold hex_data. f_equal. fold (nbytesN bits).
  assert (Hy : Forall isbyte (rev (le_digits (nbytesN bits) (eval a)))) by apply Forall_rev, le_digits_isbyte.
  induction Hy as [|b t Hbb Ht IH]; [reflexivity|]. cbn [flat_map]. rewrite byte_02x_spec by exact Hbb.
  now rewrite IH.
Qed.

Lemma be_val_cons b t : be_val (b :: t) = b * 256 ^ lenZ t + be_val t.
Proof.
  rewrite !be_val_value. cbn [rev]. rewrite le_value_snoc, lenZ_rev. lia.
Qed.

Lemma value_be_nibbles p : Forall isbyte p ->
  RunC09.value_be 16 (flat_map nibbles p) = be_val p
  /\ lenZ (flat_map nibbles p) = 2 * lenZ p.
Proof.
  induction 1 as [|b t Hb Ht (IHv & IHl)]; [split; reflexivity|].
  cbn [flat_map nibbles app]. rewrite !PfPositional.value_be_cons. cbn [length].
  rewrite be_val_cons, IHv. fold (lenZ (flat_map nibbles t)). rewrite !lenZ_cons.
  replace (Z.of_nat (S (length (flat_map nibbles t)))) with (1 + lenZ (flat_map nibbles t))
    by (unfold lenZ; lia).
  rewrite IHl. pose proof (lenZ_nonneg t) as H0. split; [|lia].
  replace (1 + 2 * lenZ t) with (Z.succ (2 * lenZ t)) by lia. rewrite Z.pow_succ_r by lia.
  rewrite p256_pow2 by lia. replace 16 with (2 ^ 4) by reflexivity.
  rewrite <- !Z.pow_mul_r by lia. replace (4 * (2 * lenZ t)) with (8 * lenZ t) by lia.
  unfold isbyte in Hb. Z.div_mod_to_equations. nia.
Qed.

Lemma nibbles_range p : Forall isbyte p -> Forall (fun d => 0 <= d < 16) (flat_map nibbles p).
Proof.
  induction 1 as [|b t Hb Ht IH]; [constructor|]. cbn [flat_map nibbles app]. unfold isbyte in Hb.
  repeat constructor; try exact IH; Z.div_mod_to_equations; lia.
Qed.

Lemma hex_data_plain p : Forall isbyte p -> Forall plain (hex_data p).
Proof.
  intros Hp. rewrite hex_data_eq. apply Forall_app. split; [repeat constructor; unfold plain; lia|].
  apply Forall_map. eapply Forall_impl; [|apply nibbles_range, Hp]. apply hexchar_plain.
Qed.

Lemma lenient_hex_data p : Forall isbyte p -> lenient_number (hex_data p) = Some (be_val p).
Proof.
  intros Hp. rewrite hex_data_eq. cbn [app]. unfold lenient_number.
  change (48 =? 48) with true. change ((120 =? 120) || (120 =? 88)) with true. cbn iota.
  unfold number_of. rewrite split_text_hex by now apply nibbles_range.
  now rewrite (proj1 (value_be_nibbles p Hp)).
Qed.

Theorem bits_serde_json_roundtrip bits a : 0 <= bits -> canon bits a ->
  CodecA.serde_json_de bits (CodecA.bits_serde_json_ser bits a) = Val (Some a).
Proof.
  intros Hb Hc. pose proof (canon_range bits a Hb Hc) as Hv.
  unfold CodecA.bits_serde_json_ser. rewrite serialize_human_full_spec by assumption.
  destruct (Z.eqb_spec bits 0) as [->|Nb].
  { replace a with (@nil Z) by (symmetry; now apply canon_zero_width). reflexivity. }
  set (p := be_fixed (SBYTES bits) (eval a)).
  assert (Hp : Forall isbyte p) by apply be_fixed_isbyte.
  assert (Ev : be_val p = eval a).
  { unfold p. rewrite SBYTES_nbytes by lia. pose proof (nbytes_nonneg bits Hb).
    pose proof (pow_bits_le_bytes bits Hb). apply be_val_be_fixed; lia. }
  unfold CodecA.serde_json_de. rewrite json_read_string by now apply hex_data_plain.
  destruct (visit_str_spec bits (hex_data p) Hb) as (o & Eo & Ho). rewrite Eo.
  rewrite lenient_hex_data in Ho by assumption. destruct o as [l|].
  - destruct Ho as (Hcl & El). inversion El as [E]. do 2 f_equal.
    rewrite <- (canon_uint_of bits l Hcl), <- (canon_uint_of bits a Hc). congruence.
  - exfalso. destruct Ho as [(E0 & _)|[Hn|(v & E & Hge)]]; [lia|discriminate|].
    inversion E; subst. lia.
Qed.

(* ---------- rlp.rs: Bits round trip ---------- *)
Theorem bits_rlp_roundtrip bits a : 0 <= bits < 2 ^ 64 -> canon bits a ->
  CodecA.bits_rlp_decode bits (CodecA.bits_rlp_encode bits a) = Val (Ok a).
Proof.
  intros Hb Hc. pose proof (canon_range bits a ltac:(lia) Hc) as Hv.
  rewrite bits_rlp_encode_spec by (try assumption; lia).
  rewrite SBYTES_nbytes by lia. pose proof (nbytes_nonneg bits ltac:(lia)) as Hn.
  set (p := be_fixed (nbytes bits) (eval a)).
  assert (Hp : Forall isbyte p) by apply be_fixed_isbyte.
  assert (Hl : lenZ p = nbytes bits) by (apply lenZ_be_fixed; lia).
  assert (Hin : Forall isbyte (rlp_string p)).
  { destruct (rlp_string_suffix p) as (h & Eh). rewrite rlp_string_eq in *.
    destruct ((lenZ p =? 1) && (hd 0 p <? 128)); [assumption|].
    apply Forall_app. split; [|assumption]. unfold rlp_prefix.
    destruct (Z.ltb_spec (lenZ p) 56).
    - repeat constructor; unfold isbyte; pose proof (lenZ_nonneg p); lia.
    - constructor; [|apply be_min_isbyte]. rewrite PfC08.ndigits_bytelen.
      assert (bytelen (lenZ p) <= 8).
      { apply bytelen_le; [lia|]. change (256 ^ 8) with (2 ^ 64). rewrite Hl.
        unfold nbytes. Z.div_mod_to_equations. lia. }
      pose proof (bytelen_nonneg (lenZ p) ltac:(lia)). unfold isbyte. lia. }
  rewrite bits_rlp_decode_spec by (try assumption; lia).
  rewrite <- (app_nil_r (rlp_string p)).
  rewrite dv_fn_complete by (try assumption; rewrite Hl; unfold nbytes; Z.div_mod_to_equations; lia).
  rewrite Hl. destruct (Z.ltb_spec (nbytes bits) (nbytes bits)); [lia|].
  pose proof (pow_bits_le_bytes bits ltac:(lia)).
  unfold p. rewrite be_val_be_fixed by lia. destruct (Z.ltb_spec (eval a) (2 ^ bits)); [|lia].
  now rewrite canon_uint_of.
Qed.
