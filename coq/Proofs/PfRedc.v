(* Proofs/PfRedc.v — mul_redc.rs: word primitives, carry chains, the row invariants of
   mul_redc (CIOS) and square_redc, the final conditional subtraction, and the contracts. *)
From Coq Require Import ZArith List Bool Lia.
From RV.Model Require Import Base Word Add Redc.
From RV.Proofs Require Import BaseFacts PfAdd.
From RV.Proofs Require PfC01.
Import ListNotations.
Local Open Scope Z_scope.

(* ---------- truncations ---------- *)
Lemma BB_val : BB = B * B.
Proof. unfold BB. rewrite B_pow. reflexivity. Qed.

Lemma w128_spec x : w128 x = x mod BB.
Proof. unfold w128, BB. apply modp2_spec. lia. Qed.
Lemma w64_spec x : w64 x = x mod B.
Proof. unfold w64. apply modp2_B. Qed.
Lemma hi64_spec x : hi64 x = (x / B) mod B.
Proof. unfold hi64. rewrite modp2_B, divp2_B. reflexivity. Qed.

Lemma w128_small x : 0 <= x < B * B -> w128 x = x.
Proof. intros H. rewrite w128_spec, BB_val. apply Z.mod_small. exact H. Qed.

Lemma w64_inW x : inW (w64 x).
Proof. rewrite w64_spec. unfold inW. apply Z.mod_pos_bound, B_pos. Qed.

Lemma split128 x :
  0 <= x < B * B -> inW (w64 x) /\ inW (hi64 x) /\ w64 x + B * hi64 x = x.
Proof.
  intros H. pose proof B_pos as HB. rewrite w64_spec, hi64_spec.
  assert (Hq : 0 <= x / B < B).
  { split; [apply Z.div_pos; lia | apply Z.div_lt_upper_bound; lia]. }
  rewrite (Z.mod_small (x / B)) by exact Hq.
  pose proof (Z.mod_pos_bound x B HB). pose proof (Z.div_mod x B ltac:(lia)).
  unfold inW. repeat split; lia.
Qed.

Lemma mod_sub1 x m : 0 < m -> m <= x < 2 * m -> x mod m = x - m.
Proof. intros Hm H. symmetry. apply Z.mod_unique with (q := 1); lia. Qed.

(* ---------- carrying_mul_add, carrying_double_mul_add ---------- *)
Lemma cma_spec l r a c :
  inW l -> inW r -> inW a -> inW c ->
  let '(v, c') := carrying_mul_add l r a c in
  inW v /\ inW c' /\ v + B * c' = l * r + a + c.
Proof.
  unfold inW. intros Hl Hr Ha Hc. pose proof B_pos as HB. unfold carrying_mul_add.
  assert (Hp : 0 <= l * r <= (B - 1) * (B - 1)) by nia.
  rewrite (w128_small (l * r)) by nia.
  rewrite (w128_small (l * r + a)) by nia.
  rewrite (w128_small (l * r + a + c)) by nia.
  apply split128. nia.
Qed.

Lemma cdma_spec l r a clo chi :
  inW l -> inW r -> inW a -> inW clo ->
  let '(v, clo', chi') := carrying_double_mul_add l r a clo chi in
  inW v /\ inW clo' /\ v + B * clo' + B * B * b2z chi' = 2 * (l * r) + a + clo + B * b2z chi.
Proof.
  unfold inW. intros Hl Hr Ha Hc. assert (HB : 4 <= B) by (rewrite B_val; lia).
  unfold carrying_double_mul_add.
  assert (Hp : 0 <= l * r <= (B - 1) * (B - 1)) by nia.
  assert (Hchi : 0 <= b2z chi <= 1) by (destruct chi; cbn; lia).
  rewrite (w128_small (l * r)) by nia.
  rewrite (w128_small (b2z chi * B)) by nia.
  rewrite (w128_small (a + clo)) by nia.
  rewrite (w128_small (a + clo + b2z chi * B)) by nia.
  rewrite !w128_spec, BB_val.
  set (p := l * r) in *. set (cs := a + clo + b2z chi * B).
  assert (Hcs : 0 <= cs <= 3 * B - 2) by (unfold cs; nia).
  destruct (Z.leb_spec (B * B) (p + p)) as [H1 | H1].
  - (* the doubling overflowed: the second addition cannot *)
    rewrite (mod_sub1 (p + p)) by nia.
    destruct (Z.leb_spec (B * B) (p + p - B * B + cs)) as [H2 | H2]; [nia|].
    rewrite (Z.mod_small (p + p - B * B + cs)) by nia.
    cbn [orb b2z].
    destruct (split128 (p + p - B * B + cs) ltac:(nia)) as (Hv & Hh & He).
    unfold inW in *; unfold cs in *; repeat split; lia.
  - rewrite (Z.mod_small (p + p)) by nia.
    destruct (Z.leb_spec (B * B) (p + p + cs)) as [H2 | H2]; cbn [orb b2z].
    + rewrite (mod_sub1 (p + p + cs)) by nia.
      destruct (split128 (p + p + cs - B * B) ltac:(nia)) as (Hv & Hh & He).
      unfold inW in *; unfold cs in *; repeat split; lia.
    + rewrite (Z.mod_small (p + p + cs)) by nia.
      destruct (split128 (p + p + cs) ltac:(nia)) as (Hv & Hh & He).
      unfold inW in *; unfold cs in *; repeat split; lia.
Qed.

(* the reduction factor clears the low limb: (m0 * (v * inv mod B) + v) mod B = 0 *)
Lemma redc_factor v m0 inv :
  (inv * m0) mod B = B - 1 -> (m0 * ((v * inv) mod B) + v) mod B = 0.
Proof.
  intros H. pose proof B_pos as HB.
  rewrite <- (Z.add_mod_idemp_l (m0 * ((v * inv) mod B))) by lia.
  rewrite Z.mul_mod_idemp_r by lia. rewrite Z.add_mod_idemp_l by lia.
  replace (m0 * (v * inv) + v) with (v * (inv * m0) + v) by ring.
  rewrite <- (Z.add_mod_idemp_l (v * (inv * m0))) by lia.
  rewrite <- Z.mul_mod_idemp_r by lia. rewrite H. rewrite Z.add_mod_idemp_l by lia.
  replace (v * (B - 1) + v) with (v * B) by ring. apply Z.mod_mul. lia.
Qed.

(* ---------- list helpers ---------- *)
Lemma split_at {A} (i : nat) (l : list A) :
  (i < length l)%nat -> exists p x q, l = p ++ x :: q /\ length p = i.
Proof.
  revert l. induction i as [|i IH]; intros [|y l] H; cbn [length] in H; try lia.
  - exists [], y, l. split; reflexivity.
  - destruct (IH l ltac:(lia)) as (p & x & q & -> & Hp).
    exists (y :: p), x, q. split; [reflexivity | cbn [length]; lia].
Qed.

Lemma firstn_skipn_app {A} (p q : list A) :
  firstn (length p) (p ++ q) = p /\ skipn (length p) (p ++ q) = q.
Proof.
  induction p as [|x p [IH1 IH2]]; cbn [length firstn skipn app]; [split; reflexivity|].
  rewrite IH1, IH2. split; reflexivity.
Qed.

(* the top limb brackets the value *)
Lemma eval_top_bound l n :
  length l = S n -> Forall inW l ->
  B ^ Z.of_nat n * last l 0 <= eval l < B ^ Z.of_nat n * (last l 0 + 1).
Proof.
  intros Hl Hw. destruct (list_snoc_inv l) as (i & x & ->); [intros ->; discriminate|].
  rewrite app_length in Hl. cbn [length] in Hl.
  apply Forall_app in Hw. destruct Hw as [Hwi _].
  assert (Hn : length i = n) by lia.
  pose proof (eval_bound i Hwi) as Hb. rewrite Hn in Hb.
  rewrite last_snoc, eval_app, Hn. cbn [eval]. nia.
Qed.

(* ---------- the final conditional subtraction ---------- *)
Lemma reduce1_carry_spec res md carry :
  length res = length md -> Forall inW res -> Forall inW md ->
  eval res + B ^ Z.of_nat (length md) * b2z carry < 2 * eval md ->
  let r := reduce1_carry res md carry in
  length r = length md /\ Forall inW r /\ 0 <= eval r < eval md /\
  exists e, 0 <= e <= 1 /\
    eval r = eval res + B ^ Z.of_nat (length md) * b2z carry - e * eval md.
Proof.
  intros Hl Hr Hm Hacc. unfold reduce1_carry, sub.
  pose proof (sub_loop_spec res md false Hl Hr Hm) as Hs.
  destruct (sub_loop res md false) as [red borrow]. destruct Hs as (Hsl & Hsw & Hse).
  cbn [b2z] in Hse. rewrite Hl in *.
  pose proof (eval_bound red Hsw) as Hbr. rewrite Hsl in Hbr.
  pose proof (eval_bound res Hr) as Hbres. rewrite Hl in Hbres.
  pose proof (eval_bound md Hm) as Hbm.
  destruct carry; cbn [orb b2z] in *.
  - (* carry set: the subtraction must borrow *)
    destruct borrow; cbn [b2z] in Hse.
    + repeat split; auto; try lia. exists 1. lia.
    + exfalso. lia.
  - destruct borrow; cbn [negb b2z] in *.
    + repeat split; auto; try lia. exists 0. lia.
    + repeat split; auto; try lia. exists 1. lia.
Qed.

(* =====================================================================================
   mul_redc
   ===================================================================================== *)
(* inner loop, i > 0: two interleaved carry chains *)
Lemma mr_inner_false a : forall md res b inv m c1 c2,
  length md = length a -> length res = length a ->
  Forall inW a -> Forall inW md -> Forall inW res ->
  inW b -> inW m -> inW c1 -> inW c2 ->
  exists l x y,
    mr_inner false a md res b inv m c1 c2 = Val (l, x, y) /\
    length l = length a /\ Forall inW l /\ inW x /\ inW y /\
    eval l + B ^ Z.of_nat (length a) * (x + y)
      = eval a * b + eval res + eval md * m + c1 + c2.
Proof.
  induction a as [|ai a IH]; intros [|mi md] [|ri res] b inv m c1 c2 Hlm Hlr Ha Hm Hr Hb Hmm Hc1 Hc2;
    cbn [length] in Hlm, Hlr; try discriminate.
  - exists [], c1, c2. cbn [mr_inner length eval]. rewrite Z.pow_0_r.
    unfold inW in *. repeat split; auto; lia.
  - inversion Ha as [|? ? Hai Ha']; inversion Hm as [|? ? Hmi Hm'];
      inversion Hr as [|? ? Hri Hr']; subst.
    cbn [mr_inner].
    pose proof (cma_spec ai b ri c1 Hai Hb Hri Hc1) as H1.
    destruct (carrying_mul_add ai b ri c1) as [v c1']. destruct H1 as (Hv & Hc1' & E1).
    pose proof (cma_spec mi m v c2 Hmi Hmm Hv Hc2) as H2.
    destruct (carrying_mul_add mi m v c2) as [v2 c2']. destruct H2 as (Hv2 & Hc2' & E2).
    destruct (IH md res b inv m c1' c2' ltac:(lia) ltac:(lia) Ha' Hm' Hr' Hb Hmm Hc1' Hc2')
      as (l & x & y & -> & Hl & Hwl & Hx & Hy & E).
    exists (v2 :: l), x, y. cbn [obind length eval]. rewrite Bn_S.
    split; [reflexivity|]. split; [lia|]. split; [constructor; auto|].
    split; [exact Hx|]. split; [exact Hy|]. nia.
Qed.

(* inner loop, whole row (i = 0 computes the reduction factor and yields value 0) *)
Lemma mr_inner_true a0 a m0 md r0 res b inv :
  length md = length a -> length res = length a ->
  Forall inW (a0 :: a) -> Forall inW (m0 :: md) -> Forall inW (r0 :: res) -> inW b ->
  (inv * m0) mod B = B - 1 ->
  exists l x y mm,
    mr_inner true (a0 :: a) (m0 :: md) (r0 :: res) b inv 0 0 0 = Val (l, x, y) /\
    length l = length a /\ Forall inW l /\ inW x /\ inW y /\ inW mm /\
    B * (eval l + B ^ Z.of_nat (length a) * (x + y))
      = eval (a0 :: a) * b + eval (r0 :: res) + eval (m0 :: md) * mm.
Proof.
  intros Hlm Hlr Ha Hm Hr Hb Hinv.
  inversion Ha as [|? ? Hai Ha']; inversion Hm as [|? ? Hmi Hm'];
    inversion Hr as [|? ? Hri Hr']; subst.
  assert (H0 : inW 0) by (unfold inW; pose proof B_pos; lia).
  cbn [mr_inner].
  pose proof (cma_spec a0 b r0 0 Hai Hb Hri H0) as H1.
  destruct (carrying_mul_add a0 b r0 0) as [v c1'] eqn:E1c. destruct H1 as (Hv & Hc1' & E1).
  pose proof (w64_inW (v * inv)) as Hmm.
  pose proof (cma_spec m0 (w64 (v * inv)) v 0 Hmi Hmm Hv H0) as H2.
  destruct (carrying_mul_add m0 (w64 (v * inv)) v 0) as [v2 c2'] eqn:E2c.
  destruct H2 as (Hv2 & Hc2' & E2).
  assert (Hz : v2 = 0).
  { pose proof (redc_factor v m0 inv Hinv) as Hf.
    pose proof B_pos. unfold inW in Hv2, Hc2'.
    assert (Hmod : (v2 + B * c2') mod B = 0) by (rewrite E2, Z.add_0_r, w64_spec; exact Hf).
    destruct (div_mod_lin v2 c2' B Hv2) as [Hm1 _]. rewrite Hm1 in Hmod. exact Hmod. }
  subst v2. rewrite Z.eqb_refl.
  destruct (mr_inner_false a md res b inv (w64 (v * inv)) c1' c2' Hlm Hlr Ha' Hm' Hr' Hb Hmm Hc1' Hc2')
    as (l & x & y & -> & Hl & Hwl & Hx & Hy & E).
  exists l, x, y, (w64 (v * inv)). cbn [eval] in *.
  split; [reflexivity|]. repeat (split; [assumption|]). nia.
Qed.

(* acc * P = A * bd + K * M with A < M, bd < P, K < P forces acc < 2 M *)
Lemma acc_lt_2M acc P A bd K M :
  0 < P -> 0 <= A < M -> 0 <= bd < P -> 0 <= K < P ->
  acc * P = A * bd + K * M -> acc < 2 * M.
Proof.
  intros HP HA Hbd HK E.
  assert (A * bd < M * P) by nia. assert (K * M < P * M) by nia.
  apply Z.mul_lt_mono_pos_r with (p := P); [exact HP|]. lia.
Qed.

(* the row invariant: after i rows, with bd = the value of the first i limbs of b *)
Definition mr_inv (N : nat) (A M bd : Z) (i : nat) (st : list Z * bool) : Prop :=
  length (fst st) = N /\ Forall inW (fst st) /\
  exists K, 0 <= K < B ^ Z.of_nat i /\
    (eval (fst st) + B ^ Z.of_nat N * b2z (snd st)) * B ^ Z.of_nat i = A * bd + K * M.

Section MulRedc.
  Variables (a md : list Z) (inv : Z) (n : nat).
  Hypothesis Hla : length a = S n.
  Hypothesis Hlm : length md = S n.
  Hypothesis Hwa : Forall inW a.
  Hypothesis Hwm : Forall inW md.
  Hypothesis Hinv : (inv * hd 0 md) mod B = B - 1.
  Hypothesis Hlt : eval a < eval md.

  Lemma mr_row_spec st b i bd :
    mr_inv (S n) (eval a) (eval md) bd i st -> 0 <= bd < B ^ Z.of_nat i -> inW b ->
    exists st', mr_row a md inv (last md 0) st b = Val st' /\
      mr_inv (S n) (eval a) (eval md) (bd + B ^ Z.of_nat i * b) (S i) st'.
  Proof.
    destruct st as [res carry]. intros (Hlr & Hwr & K & HK & Hacc) Hbd Hb.
    cbn [fst snd] in *.
    pose proof (Bn_pos i) as HP. pose proof (Bn_pos n) as HW. pose proof B_pos as HB.
    pose proof (eval_bound a Hwa) as Hba. pose proof (eval_bound md Hwm) as Hbm.
    pose proof (eval_bound res Hwr) as Hbr. rewrite Hlr in Hbr. rewrite Hlm in Hbm.
    assert (Hacc2 : eval res + B ^ Z.of_nat (S n) * b2z carry < 2 * eval md).
    { eapply acc_lt_2M with (P := B ^ Z.of_nat i) (K := K); eauto. lia. }
    destruct a as [|a0 a']; [discriminate|]. destruct md as [|m0 md']; [discriminate|].
    destruct res as [|r0 res']; [discriminate|].
    cbn [length] in Hla, Hlm, Hlr. cbn [hd] in Hinv.
    destruct (mr_inner_true a0 a' m0 md' r0 res' b inv ltac:(lia) ltac:(lia) Hwa Hwm Hwr Hb Hinv)
      as (l & x & y & mm & Hrun & Hl & Hwl & Hx & Hy & Hmm & E).
    unfold mr_row. rewrite Hrun. cbn [obind].
    pose proof (carrying_add_spec x y carry Hx Hy) as Hca.
    destruct (carrying_add x y carry) as [v nc]. destruct Hca as (Hv & Eca).
    assert (Hl' : length a' = n) by lia. rewrite Hl' in *.
    (* the new accumulator *)
    assert (Hres' : length (l ++ [v]) = S n) by (rewrite app_length; cbn [length]; lia).
    assert (Hwres' : Forall inW (l ++ [v])) by (apply Forall_app; split; auto).
    assert (Eev : eval (l ++ [v]) = eval l + B ^ Z.of_nat n * v).
    { rewrite eval_app, Hl. cbn [eval]. ring. }
    rewrite Bn_S in *.
    assert (Estep : B * (eval (l ++ [v]) + B * B ^ Z.of_nat n * b2z nc)
                    = (eval (r0 :: res') + B * B ^ Z.of_nat n * b2z carry)
                      + eval (a0 :: a') * b + eval (m0 :: md') * mm).
    { rewrite Eev. nia. }
    assert (Hinv' : forall c', b2z c' = b2z nc ->
              mr_inv (S n) (eval (a0 :: a')) (eval (m0 :: md')) (bd + B ^ Z.of_nat i * b) (S i)
                     (l ++ [v], c')).
    { intros c' Hc'. split; [exact Hres'|]. split; [exact Hwres'|].
      exists (K + B ^ Z.of_nat i * mm). cbn [fst snd]. rewrite !Bn_S, Hc'.
      unfold inW in Hmm. split; [nia|].
      replace ((eval (l ++ [v]) + B * B ^ Z.of_nat n * b2z nc) * (B * B ^ Z.of_nat i))
        with (B * (eval (l ++ [v]) + B * B ^ Z.of_nat n * b2z nc) * B ^ Z.of_nat i) by ring.
      rewrite Estep. nia. }
    destruct (Z.leb_spec REDC_THRESHOLD (last (m0 :: md') 0)) as [Hth | Hth].
    - eexists. split; [reflexivity|]. apply Hinv'. reflexivity.
    - (* below the threshold 2 M < B^N: neither the old nor the new carry can be set *)
      pose proof (eval_top_bound (m0 :: md') n ltac:(cbn [length]; lia) Hwm) as Htop.
      assert (H2M : 2 * eval (m0 :: md') < B * B ^ Z.of_nat n).
      { unfold REDC_THRESHOLD in Hth. rewrite B_val in *. nia. }
      assert (Hcarry : carry = false) by (destruct carry; [cbn [b2z] in Hacc2; nia | reflexivity]).
      assert (Hnew : eval (l ++ [v]) + B * B ^ Z.of_nat n * b2z nc < 2 * eval (m0 :: md')).
      { destruct (Hinv' nc eq_refl) as (_ & _ & K' & HK' & Hacc').
        cbn [fst snd] in Hacc'. rewrite Bn_S in Hacc'.
        eapply acc_lt_2M with (P := B ^ Z.of_nat (S i)) (K := K') (bd := bd + B ^ Z.of_nat i * b);
          try eassumption; try apply Bn_pos; rewrite ?Bn_S; unfold inW in Hb; nia. }
      pose proof (eval_bound (l ++ [v]) Hwres') as Hbl.
      assert (Hnc : nc = false) by (destruct nc; [cbn [b2z] in Hnew; nia | reflexivity]).
      subst nc carry. eexists. split; [reflexivity|]. apply Hinv'. reflexivity.
  Qed.
End MulRedc.

Lemma mr_rows_spec a md inv n :
  length a = S n -> length md = S n -> Forall inW a -> Forall inW md ->
  (inv * hd 0 md) mod B = B - 1 -> eval a < eval md ->
  forall bs st i bd,
    mr_inv (S n) (eval a) (eval md) bd i st -> 0 <= bd < B ^ Z.of_nat i -> Forall inW bs ->
    exists st', mr_rows a md inv (last md 0) bs st = Val st' /\
      mr_inv (S n) (eval a) (eval md) (bd + B ^ Z.of_nat i * eval bs) (i + length bs) st'.
Proof.
  intros Hla Hlm Hwa Hwm Hinv Hlt.
  induction bs as [|b bs IH]; intros st i bd Hst Hbd Hwb.
  - exists st. cbn [mr_rows eval length]. rewrite Z.mul_0_r, Z.add_0_r, Nat.add_0_r. auto.
  - inversion Hwb as [|? ? Hb Hwb']; subst.
    destruct (mr_row_spec a md inv n Hla Hlm Hwa Hwm Hinv Hlt st b i bd Hst Hbd Hb)
      as (st1 & Hrun & Hst1).
    cbn [mr_rows]. rewrite Hrun. cbn [obind].
    pose proof (Bn_pos i) as HP. pose proof B_pos as HB. unfold inW in Hb.
    destruct (IH st1 (S i) (bd + B ^ Z.of_nat i * b) Hst1 ltac:(rewrite Bn_S; nia) Hwb')
      as (st' & Hrun' & Hst').
    exists st'. split; [exact Hrun'|].
    cbn [length eval]. rewrite Nat.add_succ_r.
    replace (bd + B ^ Z.of_nat i * (b + B * eval bs))
      with (bd + B ^ Z.of_nat i * b + B ^ Z.of_nat (S i) * eval bs) by (rewrite Bn_S; ring).
    exact Hst'.
Qed.

Lemma is_less_spec a b :
  length a = length b -> Forall inW a -> Forall inW b -> is_less a b = (eval a <? eval b).
Proof.
  intros Hl Ha Hb. unfold is_less. rewrite PfC01.limbs_cmp_spec by auto.
  unfold Z.ltb. destruct (eval a ?= eval b); reflexivity.
Qed.

(* congruence from the exact final equation *)
Lemma redc_congr r acc R ab K e M :
  acc * R = ab + K * M -> r = acc - e * M -> (r * R) mod M = ab mod M.
Proof.
  intros E ->. replace ((acc - e * M) * R) with (ab + (K - e * R) * M) by lia.
  apply Z_mod_plus_full.
Qed.

Theorem mul_redc_spec a b md inv :
  length a = length md -> length b = length md ->
  Forall inW a -> Forall inW b -> Forall inW md ->
  (inv * hd 0 md) mod B = B - 1 -> eval a < eval md -> eval b < eval md ->
  exists r, mul_redc a b md inv = Val r /\
    length r = length md /\ Forall inW r /\ 0 <= eval r < eval md /\
    (eval r * B ^ Z.of_nat (length md)) mod eval md = (eval a * eval b) mod eval md.
Proof.
  intros Hla Hlb Hwa Hwb Hwm Hinv Hlta Hltb.
  destruct md as [|m0 md'].
  { exfalso. cbn [hd] in Hinv. rewrite Z.mul_0_r, Z.mod_0_l in Hinv; rewrite B_val in *; lia. }
  cbn [mul_redc]. cbn [hd] in Hinv. rewrite w64_spec, Hinv, Z.eqb_refl. cbn [negb].
  set (md := m0 :: md') in *. set (n := length md').
  assert (Hlm : length md = S n) by reflexivity.
  assert (Hhd : hd 0 md = m0) by reflexivity.
  rewrite !is_less_spec by auto.
  destruct (Z.ltb_spec (eval a) (eval md)); [|lia].
  destruct (Z.ltb_spec (eval b) (eval md)); [|lia]. cbn [negb].
  rewrite <- Hhd in Hinv.
  pose proof (eval_bound a Hwa) as Hba. pose proof (eval_bound b Hwb) as Hbb.
  assert (Hinit : mr_inv (S n) (eval a) (eval md) 0 0 (repeat 0 (length md), false)).
  { split; [cbn [fst]; rewrite repeat_length; lia|]. split; [apply Forall_inW_repeat0|].
    exists 0. cbn [fst snd b2z]. rewrite eval_repeat0, Z.pow_0_r. lia. }
  destruct (mr_rows_spec a md inv n ltac:(lia) Hlm Hwa Hwm Hinv Hlta b _ 0%nat 0 Hinit
              ltac:(rewrite Z.pow_0_r; lia) Hwb) as ([res carry] & Hrun & Hfin).
  rewrite Hrun. cbn [obind fst snd].
  destruct Hfin as (Hlr & Hwr & K & HK & Hacc). cbn [fst snd] in *.
  rewrite Z.pow_0_r, Z.add_0_l, Z.mul_1_l, Nat.add_0_l, Hlb, Hlm in *.
  assert (Hacc2 : eval res + B ^ Z.of_nat (S n) * b2z carry < 2 * eval md).
  { eapply acc_lt_2M with (P := B ^ Z.of_nat (S n)) (K := K) (bd := eval b);
      try eassumption; try apply Bn_pos; lia. }
  rewrite <- Hlm in Hacc2.
  pose proof (reduce1_carry_spec res md carry ltac:(lia) Hwr Hwm Hacc2) as Hred.
  cbv zeta in Hred. destruct Hred as (Hrl & Hrw & Hrr & e & He & Ee).
  eexists. split; [reflexivity|]. split; [lia|]. split; [exact Hrw|]. split; [exact Hrr|].
  rewrite Hlm in *. eapply redc_congr; [exact Hacc | exact Ee].
Qed.

(* =====================================================================================
   square_redc
   ===================================================================================== *)
Lemma sq_cross_spec ai a : forall res clo chi,
  length res = length a -> inW ai -> Forall inW a -> Forall inW res -> inW clo ->
  let '(l, x, y) := sq_cross ai a res clo chi in
  length l = length a /\ Forall inW l /\ inW x /\
  eval l + B ^ Z.of_nat (length a) * (x + B * b2z y)
    = eval res + 2 * ai * eval a + clo + B * b2z chi.
Proof.
  induction a as [|aj a IH]; intros [|rj res] clo chi Hl Hai Ha Hr Hclo;
    cbn [length] in Hl; try discriminate.
  - cbn [sq_cross length eval]. rewrite Z.pow_0_r. repeat (split; [auto|]). lia.
  - inversion Ha as [|? ? Haj Ha']; inversion Hr as [|? ? Hrj Hr']; subst.
    cbn [sq_cross].
    pose proof (cdma_spec ai aj rj clo chi Hai Haj Hrj Hclo) as H1.
    destruct (carrying_double_mul_add ai aj rj clo chi) as [[v clo'] chi'].
    destruct H1 as (Hv & Hclo' & E1).
    specialize (IH res clo' chi' ltac:(lia) Hai Ha' Hr' Hclo').
    destruct (sq_cross ai a res clo' chi') as [[l x] y]. destruct IH as (Hl' & Hwl & Hx & E).
    cbn [length eval]. rewrite Bn_S.
    split; [lia|]. split; [constructor; auto|]. split; [exact Hx|]. nia.
Qed.

Lemma sq_reduce_spec md : forall res m carry,
  length res = length md -> Forall inW md -> Forall inW res -> inW m -> inW carry ->
  let '(l, cf) := sq_reduce md res m carry in
  length l = length md /\ Forall inW l /\ inW cf /\
  eval l + B ^ Z.of_nat (length md) * cf = eval md * m + eval res + carry.
Proof.
  induction md as [|mj md IH]; intros [|rj res] m carry Hl Hm Hr Hmm Hc;
    cbn [length] in Hl; try discriminate.
  - cbn [sq_reduce length eval]. rewrite Z.pow_0_r. repeat (split; [auto|]). lia.
  - inversion Hm as [|? ? Hmj Hm']; inversion Hr as [|? ? Hrj Hr']; subst.
    cbn [sq_reduce].
    pose proof (cma_spec mj m rj carry Hmj Hmm Hrj Hc) as H1.
    destruct (carrying_mul_add mj m rj carry) as [v c']. destruct H1 as (Hv & Hc' & E1).
    specialize (IH res m c' ltac:(lia) Hm' Hr' Hmm Hc').
    destruct (sq_reduce md res m c') as [l cf]. destruct IH as (Hl' & Hwl & Hcf & E).
    cbn [length eval]. rewrite Bn_S.
    split; [lia|]. split; [constructor; auto|]. split; [exact Hcf|]. nia.
Qed.

(* acc * P = L (2A - L) + K M, L < P, L <= A < M, K < P forces acc < 3 M *)
Lemma acc_lt_3M acc P A L K M :
  0 < P -> 0 <= L < P -> L <= A -> A < M -> 0 <= K < P ->
  acc * P = L * (2 * A - L) + K * M -> acc < 3 * M.
Proof.
  intros HP HL HLA HA HK E.
  assert (L * (2 * A - L) <= P * (2 * M)) by nia. assert (K * M < P * M) by nia.
  apply Z.mul_lt_mono_pos_r with (p := P); [exact HP|]. nia.
Qed.

Lemma sq_step_arith acc acc' L P ai H' A M K m Bv :
  A = L + P * (ai + Bv * H') ->
  acc * P = L * (2 * A - L) + K * M ->
  Bv * acc' = acc + P * ai * (ai + 2 * Bv * H') + M * m ->
  acc' * (Bv * P) = (L + P * ai) * (2 * A - (L + P * ai)) + (K + P * m) * M.
Proof.
  intros -> H1 H2.
  transitivity ((Bv * acc') * P); [ring|]. rewrite H2.
  transitivity (acc * P + (P * ai * (ai + 2 * Bv * H') + M * m) * P); [ring|]. rewrite H1. ring.
Qed.

(* the row invariant: after i rows, with L = the value of the first i limbs of a *)
Definition sq_inv (N : nat) (A M : Z) (i : nat) (L : Z) (st : list Z * Z) : Prop :=
  length (fst st) = N /\ Forall inW (fst st) /\ 0 <= snd st /\
  exists K, 0 <= K < B ^ Z.of_nat i /\
    (eval (fst st) + B ^ Z.of_nat N * snd st) * B ^ Z.of_nat i = L * (2 * A - L) + K * M.

Lemma sq_row_spec alo ai ahi md inv n st :
  length (alo ++ ai :: ahi) = S n -> length md = S n ->
  Forall inW (alo ++ ai :: ahi) -> Forall inW md ->
  (inv * hd 0 md) mod B = B - 1 -> eval (alo ++ ai :: ahi) < eval md ->
  sq_inv (S n) (eval (alo ++ ai :: ahi)) (eval md) (length alo) (eval alo) st ->
  exists st', sq_row (length alo) (alo ++ ai :: ahi) md inv (last md 0) st = Val st' /\
    sq_inv (S n) (eval (alo ++ ai :: ahi)) (eval md) (S (length alo)) (eval (alo ++ [ai])) st'.
Proof.
  intros Hla Hlm Hwa Hwm Hinv Hlt. destruct st as [res co].
  intros (Hlr & Hwr & Hco & K & HK & Hacc). cbn [fst snd] in *.
  pose proof B_pos as HB. assert (H0 : inW 0) by (unfold inW; lia).
  (* ---- shapes ---- *)
  pose proof Hwa as Hwa'. apply Forall_app in Hwa'. destruct Hwa' as [Hwalo Hwahi'].
  inversion Hwahi' as [|? ? Hai Hwahi]; subst.
  rewrite app_length in Hla. cbn [length] in Hla.
  destruct (split_at (length alo) res ltac:(lia)) as (pre & ri & post & -> & Hpre).
  apply Forall_app in Hwr. destruct Hwr as [Hwpre Hwr'].
  inversion Hwr' as [|? ? Hri Hwpost]; subst.
  rewrite app_length in Hlr. cbn [length] in Hlr.
  assert (Hlpost : length post = length ahi) by lia.
  destruct md as [|m0 mdrest]; [discriminate|]. cbn [length] in Hlm. cbn [hd] in Hinv.
  inversion Hwm as [|? ? Hm0 Hwmdrest]; subst.
  pose proof (eval_top_bound (m0 :: mdrest) n ltac:(cbn [length]; lia) Hwm) as Htop.
  assert (Emd : eval (m0 :: mdrest) = m0 + B * eval mdrest) by reflexivity.
  assert (Ea : eval (alo ++ ai :: ahi) = eval alo + B ^ Z.of_nat (length alo) * (ai + B * eval ahi))
    by (rewrite eval_app; reflexivity).
  assert (EL' : eval (alo ++ [ai]) = eval alo + B ^ Z.of_nat (length alo) * ai)
    by (rewrite eval_app; cbn [eval]; ring).
  assert (Eres : eval (pre ++ ri :: post) = eval pre + B ^ Z.of_nat (length alo) * (ri + B * eval post))
    by (rewrite eval_app, Hpre; reflexivity).
  pose proof (eval_bound alo Hwalo) as HbL. pose proof (eval_bound ahi Hwahi) as HbH.
  pose proof (eval_bound (alo ++ [ai]) ltac:(apply Forall_app; split; auto)) as HbL'.
  rewrite app_length in HbL'. cbn [length] in HbL'. rewrite Nat.add_1_r, Bn_S in HbL'.
  pose proof (eval_bound (m0 :: mdrest) Hwm) as HbM. cbn [length] in HbM. rewrite Hlm, Bn_S in HbM.
  pose proof (eval_bound (pre ++ ri :: post) ltac:(apply Forall_app; split; auto)) as Hbres.
  rewrite app_length in Hbres. cbn [length] in Hbres.
  replace (length pre + S (length post))%nat with (S n) in Hbres by lia. rewrite Bn_S in Hbres.
  assert (HWPQ : B ^ Z.of_nat n = B ^ Z.of_nat (length alo) * B ^ Z.of_nat (length ahi)).
  { rewrite <- Z.pow_add_r by lia. f_equal. lia. }
  rewrite Bn_S in Hacc.
  set (A := eval (alo ++ ai :: ahi)) in *. set (M := eval (m0 :: mdrest)) in *.
  set (L := eval alo) in *. set (H' := eval ahi) in *.
  set (P := B ^ Z.of_nat (length alo)) in *. set (Q := B ^ Z.of_nat (length ahi)) in *.
  set (W := B ^ Z.of_nat n) in *.
  assert (HP : 0 < P) by apply Bn_pos. assert (HQ : 0 < Q) by apply Bn_pos.
  assert (HW : 0 < W) by apply Bn_pos.
  set (acc := eval (pre ++ ri :: post) + B * W * co) in *.
  assert (HLA : L <= A) by (clear - Ea HP HB Hai HbH; unfold inW in Hai; nia).
  assert (Hacc3 : acc < 3 * M) by (eapply acc_lt_3M with (P := P) (L := L) (K := K); eauto; lia).
  (* ---- run the row ---- *)
  unfold sq_row.
  destruct (firstn_skipn_app alo (ai :: ahi)) as [_ Hsa]. rewrite Hsa.
  destruct (firstn_skipn_app pre (ri :: post)) as [Hfr Hsr]. rewrite Hpre in Hfr, Hsr.
  rewrite Hsr, Hfr.
  pose proof (cma_spec ai ai ri 0 Hai Hai Hri H0) as H1.
  destruct (carrying_mul_add ai ai ri 0) as [v clo0]. destruct H1 as (Hv & Hclo0 & E1).
  pose proof (sq_cross_spec ai ahi post clo0 false Hlpost Hai Hwahi Hwpost Hclo0) as H2.
  destruct (sq_cross ai ahi post clo0 false) as [[post' clo] chi].
  destruct H2 as (Hlp' & Hwp' & Hclo & E2). fold Q in E2. fold H' in E2. cbn [b2z] in E2.
  assert (Hwres1 : Forall inW (pre ++ v :: post')) by (apply Forall_app; split; auto).
  assert (Hlres1 : length (pre ++ v :: post') = S n) by (rewrite app_length; cbn [length]; lia).
  assert (Eres1 : eval (pre ++ v :: post') = eval pre + P * (v + B * eval post'))
    by (rewrite eval_app, Hpre; reflexivity).
  destruct (pre ++ v :: post') as [|r0 rest]; [discriminate|].
  inversion Hwres1 as [|? ? Hr0 Hwrest]; subst. cbn [length] in Hlres1.
  change (eval (r0 :: rest)) with (r0 + B * eval rest) in Eres1.
  set (m := w64 (r0 * inv)). pose proof (w64_inW (r0 * inv)) as Hm. fold m in Hm.
  pose proof (cma_spec m m0 r0 0 Hm Hm0 Hr0 H0) as H4.
  destruct (carrying_mul_add m m0 r0 0) as [value carry0]. destruct H4 as (Hval & Hcarry0 & E4).
  assert (Hz : value = 0).
  { pose proof (redc_factor r0 m0 inv Hinv) as Hf. unfold inW in Hval, Hcarry0.
    assert (Hmod : (value + B * carry0) mod B = 0).
    { rewrite E4, Z.add_0_r. unfold m. rewrite w64_spec, (Z.mul_comm ((r0 * inv) mod B)). exact Hf. }
    destruct (div_mod_lin value carry0 B Hval) as [Hm1 _]. rewrite Hm1 in Hmod. exact Hmod. }
  subst value. rewrite Z.eqb_refl. cbn [negb].
  pose proof (sq_reduce_spec mdrest rest m carry0 ltac:(lia) Hwmdrest Hwrest Hm Hcarry0) as H5.
  destruct (sq_reduce mdrest rest m carry0) as [l cf]. destruct H5 as (Hll & Hwl & Hcf & E5).
  assert (Hlmr : length mdrest = n) by lia.
  rewrite Hlmr in E5. fold W in E5.
  (* ---- the accumulator after the row, as an integer ---- *)
  set (wide := co + clo + B * b2z chi + cf).
  assert (Ephase1 : (r0 + B * eval rest) + B * W * (co + clo + B * b2z chi)
                    = acc + P * ai * (ai + 2 * B * H')).
  { unfold acc. rewrite Eres, Eres1, HWPQ.
    pose proof (f_equal (fun t => P * B * t) E2) as E2b. cbv beta in E2b.
    pose proof (f_equal (fun t => P * t) E1) as E1b. cbv beta in E1b.
    (* the old carry_outer is not part of phase 1 *)
    assert (Hgoal : eval pre + P * (v + B * eval post') + B * (P * Q) * (clo + B * b2z chi)
                    = eval pre + P * (ri + B * eval post) + P * ai * (ai + 2 * B * H')) by lia.
    lia. }
  assert (Estep : B * (eval l + W * wide) = acc + P * ai * (ai + 2 * B * H') + M * m).
  { rewrite <- Ephase1. unfold wide.
    pose proof (f_equal (fun t => B * t) E5) as E5b. cbv beta in E5b.
    pose proof (f_equal (fun t => t * m) Emd) as Emdm. cbv beta in Emdm. fold M in Emdm.
    unfold acc in *. lia. }
  assert (Enew : (eval l + W * wide) * (B * P)
                 = eval (alo ++ [ai]) * (2 * A - eval (alo ++ [ai])) + (K + P * m) * M).
  { rewrite EL'. apply sq_step_arith with (acc := acc) (H' := H'); auto. }
  assert (HK' : 0 <= K + P * m < B * P) by (clear - HK HP HB Hm; unfold inW in Hm; nia).
  assert (HL'A : eval (alo ++ [ai]) <= A) by (rewrite EL'; clear - Ea HP HB Hai HbH; unfold inW in Hai; nia).
  assert (Hnew3 : eval l + W * wide < 3 * M).
  { eapply acc_lt_3M with (P := B * P) (L := eval (alo ++ [ai])) (K := K + P * m); eauto; lia. }
  pose proof (eval_bound l Hwl) as Hbl. rewrite Hll, Hlmr in Hbl. fold W in Hbl.
  assert (Hclose : forall x co', inW x -> 0 <= co' -> x + B * co' = wide ->
            sq_inv (S n) A M (S (length alo)) (eval (alo ++ [ai])) (l ++ [x], co')).
  { intros x co' Hx Hco' Ex. split; [cbn [fst]; rewrite app_length; cbn [length]; lia|].
    split; [cbn [fst]; apply Forall_app; split; auto|]. split; [exact Hco'|].
    exists (K + P * m). cbn [fst snd]. rewrite !Bn_S. fold P. fold W. split; [exact HK'|].
    rewrite <- Enew. rewrite eval_app, Hll, Hlmr. fold W. cbn [eval]. rewrite <- Ex. ring. }
  assert (Hwide0 : 0 <= wide).
  { unfold wide, inW in *. destruct chi; cbn [b2z]; lia. }
  destruct (Z.leb_spec SQUARE_THRESHOLD (last (m0 :: mdrest) 0)) as [Hth | Hth].
  - (* carry_outer kept: wide = co + clo + 2^64 chi + carry fits u128, new carry_outer <= 2 *)
    assert (Hco2 : co <= 2) by (unfold acc in Hacc3; clear - Hacc3 Hbres HbM HW HB Hco; nia).
    assert (Hwide : 0 <= wide < B * B).
    { unfold wide, inW in *. destruct chi; cbn [b2z]; rewrite B_val in *; lia. }
    assert (Hchi1 : 0 <= b2z chi * B <= B) by (destruct chi; cbn [b2z]; lia).
    unfold inW in Hclo, Hcf.
    rewrite (w128_small (co + clo)) by (rewrite B_val in *; lia).
    rewrite (w128_small (b2z chi * B)) by (rewrite B_val in *; lia).
    rewrite (w128_small (co + clo + b2z chi * B)) by (rewrite B_val in *; lia).
    rewrite (w128_small (co + clo + b2z chi * B + cf)) by (rewrite B_val in *; lia).
    replace (co + clo + b2z chi * B + cf) with wide by (unfold wide; ring).
    destruct (split128 wide Hwide) as (Hlo & Hhi & Esp).
    assert (Hhi2 : hi64 wide <= 2) by (unfold inW in Hlo, Hhi; clear - Hnew3 Hbl HbM HW HB Esp Hlo Hhi; nia).
    destruct (Z.ltb_spec 2 (hi64 wide)); [lia|].
    eexists. split; [reflexivity|]. apply Hclose; auto. unfold inW in Hhi; lia.
  - (* below the threshold 3 M < B^N: carry_hi, carry_outer and the last carry are all zero *)
    unfold SQUARE_THRESHOLD in Hth.
    assert (HMW : M < W * 4611686018427387903) by (clear - Htop Hth HW; nia).
    assert (H3M : 3 * M < W * B) by (rewrite B_val; lia).
    assert (Hco0 : co = 0) by (unfold acc in Hacc3; clear - Hacc3 Hbres H3M HW HB Hco; nia).
    assert (Hchi : chi = false).
    { destruct chi; [exfalso|reflexivity]. cbn [b2z] in Ephase1.
      assert (Hfac : P * (ai + 2 * B * H') <= 2 * A)
        by (clear - Ea HP HB Hai HbH HbL; unfold inW in Hai; nia).
      assert (Hadd : P * ai * (ai + 2 * B * H') <= (B - 1) * (2 * M)).
      { replace (P * ai * (ai + 2 * B * H')) with (ai * (P * (ai + 2 * B * H'))) by ring.
        assert (0 <= P * (ai + 2 * B * H')) by (clear - HP HB Hai HbH; unfold inW in Hai; nia).
        clear - Hfac Hlt Hai H HB. unfold inW in Hai. nia. }
      assert (Hbig : (2 * B + 1) * M < W * (B * B)) by (rewrite B_val; lia).
      unfold inW in Hr0, Hclo. pose proof (eval_bound rest Hwrest) as Hbrest.
      assert (Hle : B * W * (co + clo + B * 1) <= (2 * B + 1) * M).
      { assert (0 <= B * eval rest) by (clear - Hbrest HB; nia).
        clear - Hadd Hacc3 Ephase1 Hr0 H. lia. }
      clear - Hle Hbig Hco Hclo HW HB. nia. }
    subst chi co. cbn [negb Z.eqb]. unfold ov_add.
    assert (Ewide : wide = clo + cf) by (unfold wide; cbn [b2z]; ring).
    assert (Hwlt : clo + cf < B) by (rewrite <- Ewide; clear - Hnew3 Hbl H3M HW HB Hwide0; nia).
    destruct (Z.leb_spec B (clo + cf)); [lia|].
    unfold inW in Hclo, Hcf. rewrite Z.mod_small by lia.
    eexists. split; [reflexivity|]. apply Hclose; [unfold inW; lia | lia | lia].
Qed.

Lemma sq_rows_spec a md inv n :
  length a = S n -> length md = S n -> Forall inW a -> Forall inW md ->
  (inv * hd 0 md) mod B = B - 1 -> eval a < eval md ->
  forall k alo ahi st,
    a = alo ++ ahi -> length ahi = k ->
    sq_inv (S n) (eval a) (eval md) (length alo) (eval alo) st ->
    exists st', sq_rows k (length alo) a md inv (last md 0) st = Val st' /\
      sq_inv (S n) (eval a) (eval md) (length a) (eval a) st'.
Proof.
  intros Hla Hlm Hwa Hwm Hinv Hlt.
  induction k as [|k IH]; intros alo ahi st Ea Hk Hst.
  - destruct ahi; [|discriminate]. rewrite app_nil_r in Ea. subst alo.
    exists st. split; [reflexivity | exact Hst].
  - destruct ahi as [|ai ahi]; [discriminate|]. cbn [length] in Hk.
    subst a.
    destruct (sq_row_spec alo ai ahi md inv n st Hla Hlm Hwa Hwm Hinv Hlt Hst) as (st1 & Hrun & Hst1).
    cbn [sq_rows]. rewrite Hrun. cbn [obind].
    assert (Eassoc : alo ++ ai :: ahi = (alo ++ [ai]) ++ ahi) by (rewrite <- app_assoc; reflexivity).
    assert (Hlen1 : S (length alo) = length (alo ++ [ai]))
      by (rewrite app_length; cbn [length]; lia).
    rewrite Hlen1 in *.
    specialize (IH (alo ++ [ai]) ahi st1 Eassoc ltac:(lia) Hst1). exact IH.
Qed.

Theorem square_redc_spec a md inv :
  length a = length md -> Forall inW a -> Forall inW md ->
  (inv * hd 0 md) mod B = B - 1 -> eval a < eval md ->
  exists r, square_redc a md inv = Val r /\
    length r = length md /\ Forall inW r /\ 0 <= eval r < eval md /\
    (eval r * B ^ Z.of_nat (length md)) mod eval md = (eval a * eval a) mod eval md.
Proof.
  intros Hla Hwa Hwm Hinv Hlta.
  destruct md as [|m0 md'].
  { exfalso. cbn [hd] in Hinv. rewrite Z.mul_0_r, Z.mod_0_l in Hinv; rewrite B_val in *; lia. }
  cbn [square_redc]. cbn [hd] in Hinv. rewrite w64_spec, Hinv, Z.eqb_refl. cbn [negb].
  set (md := m0 :: md') in *. set (n := length md').
  assert (Hlm : length md = S n) by reflexivity.
  assert (Hhd : hd 0 md = m0) by reflexivity.
  rewrite is_less_spec by auto.
  destruct (Z.ltb_spec (eval a) (eval md)); [|lia]. cbn [negb].
  rewrite <- Hhd in Hinv.
  pose proof (eval_bound a Hwa) as Hba. pose proof (eval_bound md Hwm) as Hbm.
  pose proof (Bn_pos (S n)) as HBN. pose proof B_pos as HB.
  assert (Hinit : sq_inv (S n) (eval a) (eval md) (length (@nil Z)) (eval []) (repeat 0 (length md), 0)).
  { split; [cbn [fst]; rewrite repeat_length; lia|]. split; [apply Forall_inW_repeat0|].
    split; [cbn [snd]; lia|].
    exists 0. cbn [fst snd length eval]. rewrite eval_repeat0, Z.pow_0_r. lia. }
  destruct (sq_rows_spec a md inv n ltac:(lia) Hlm Hwa Hwm Hinv Hlta (length md) [] a _ eq_refl
              ltac:(lia) Hinit) as ([res co] & Hrun & Hfin).
  cbn [length] in Hrun. rewrite Hrun. cbn [obind].
  destruct Hfin as (Hlr & Hwr & Hco & K & HK & Hacc). cbn [fst snd] in *.
  rewrite Hla, Hlm in *.
  replace (eval a * (2 * eval a - eval a)) with (eval a * eval a) in Hacc by ring.
  pose proof (eval_bound res Hwr) as Hbr. rewrite Hlr in Hbr.
  assert (Hacc2 : eval res + B ^ Z.of_nat (S n) * co < 2 * eval md).
  { apply Z.mul_lt_mono_pos_r with (p := B ^ Z.of_nat (S n)); [exact HBN|]. rewrite Hacc.
    assert (eval a * eval a < eval md * B ^ Z.of_nat (S n)) by nia.
    assert (K * eval md < B ^ Z.of_nat (S n) * eval md) by nia. lia. }
  assert (Hco1 : co <= 1) by nia.
  destruct (Z.ltb_spec 1 co); [lia|].
  assert (Eco : b2z (0 <? co) = co) by (destruct (Z.ltb_spec 0 co); cbn [b2z]; lia).
  pose proof (reduce1_carry_spec res md (0 <? co) ltac:(lia) Hwr Hwm
                ltac:(rewrite Eco, Hlm; exact Hacc2)) as Hred.
  cbv zeta in Hred. destruct Hred as (Hrl & Hrw & Hrr & e & He & Ee).
  rewrite Eco, Hlm in Ee.
  eexists. split; [reflexivity|]. split; [lia|]. split; [exact Hrw|]. split; [exact Hrr|].
  eapply redc_congr; [exact Hacc | exact Ee].
Qed.

(* the congruence determines the result: r = a b R^-1 mod M for every inverse R^-1 of R mod M *)
Lemma redc_value r R Rinv ab M :
  0 <= r < M -> (r * R) mod M = ab mod M -> (R * Rinv) mod M = 1 mod M ->
  r = (ab * Rinv) mod M.
Proof.
  intros Hr Hc Hi. assert (HM : M <> 0) by lia.
  rewrite <- (Z.mul_mod_idemp_l ab) by exact HM. rewrite <- Hc.
  rewrite Z.mul_mod_idemp_l by exact HM.
  replace (r * R * Rinv) with (r * (R * Rinv)) by ring.
  rewrite <- Z.mul_mod_idemp_r by exact HM. rewrite Hi.
  rewrite Z.mul_mod_idemp_r by exact HM. rewrite Z.mul_1_r. symmetry. apply Z.mod_small. exact Hr.
Qed.
