(* Proofs/PfGenModular.v — the generated definitions of src/modular.rs (reduce_mod, add_mod and the
   Uint-level mul_redc / square_redc) are the model functions of Model/Modular.v and Model/Redc.v. *)
From Coq Require Import ZArith List Bool Lia.
From RV.Model Require Import Base Word.
From RV.Model Require Add UDiv Conv Redc Modular.
From RV.Gen Require Import Prim Scalar.
From RV.Proofs Require Import BaseFacts PfGenScalar PfGenAdd PfGenDiv PfGenCtor PfGenRedc.
From RV.Proofs Require PfAdd PfRedc PfModular PfC10 PfC10Closed PfModelsAgree.
Import ListNotations.

Lemma g_reduce_mod_eq bits a m :
  g_reduce_mod bits (nlimbs bits) a m = Modular.reduce_mod bits a m.
Proof.
  unfold g_reduce_mod, Modular.reduce_mod, Modular.uge, g_cmp.
  rewrite g_is_zero_eq, <- PfModelsAgree.agree_modular_is_zero.
  destruct (Modular.is_zero bits m); [reflexivity|].
  destruct (Add.limbs_cmp a m); cbn [obind];
    rewrite ?g_wrapping_rem_eq, <- ?PfModelsAgree.agree_modular_wrapping_rem;
    try reflexivity; destruct (Modular.wrapping_rem a m); reflexivity.
Qed.

Lemma g_add_mod_eq bits a b m :
  0 <= bits -> nlimbs bits <= B -> canon bits a -> canon bits b -> canon bits m ->
  g_add_mod bits (nlimbs bits) a b m = Modular.add_mod bits a b m.
Proof.
  intros H0 HB Ca Cb Cm. unfold g_add_mod, Modular.add_mod. rewrite !g_reduce_mod_eq.
  destruct (PfC10Closed.reduce_mod_value_closed bits a m H0 Ca Cm) as (ra & Ea & Cra & _).
  destruct (PfC10Closed.reduce_mod_value_closed bits b m H0 Cb Cm) as (rb & Eb & Crb & _).
  pose proof Cra as (La & _). pose proof Crb as (Lb & _).
  rewrite Ea, Eb. cbn [obind].
  rewrite (g_overflowing_add_eq bits ra rb H0 HB La Lb). cbn [obind].
  pose proof (PfAdd.overflowing_add_spec bits ra rb H0 Cra Crb) as Hlen.
  destruct (Add.overflowing_add bits ra rb) as [res ov] eqn:Eo.
  unfold Modular.uge, g_cmp.
  destruct (ov || match Add.limbs_cmp res m with Lt => false | _ => true end); cbn [obind]; [|reflexivity].
  assert (Lr : length res = nlimbsN bits) by (destruct Hlen as ((L & _) & _); exact L).
  destruct Cm as (Lm & _).
  rewrite (g_wrapping_sub_eq bits res m H0 HB Lr Lm). reflexivity.
Qed.

Section Redc.
  Variables (bits : Z) (md : list Z) (inv : Z).
  Hypothesis Hpos : 0 < bits.
  Hypothesis HB : nlimbs bits < B.
  Hypothesis Lm : length md = nlimbsN bits.
  Hypothesis Wm : Forall inW md.

  Let H0 : 0 <= bits. Proof. lia. Qed.
  Let HB' : nlimbs bits <= B. Proof. lia. Qed.

  Lemma tail_eq r :
    length r = nlimbsN bits ->
    (do t_2 <- g_from_limbs bits (nlimbs bits) r ;
     if negb (match g_cmp bits (nlimbs bits) t_2 md with Lt => true | _ => false end) then DebugPanic else Val t_2)
    = Redc.from_limbs_checked bits md r.
  Proof.
    intros Lr. rewrite (PfModelsAgree.agree_redc_from_limbs_checked bits md r Lr).
    rewrite (g_from_limbs_eq bits r H0 HB'). reflexivity.
  Qed.

  Lemma g_u_mul_redc_eq a b :
    length a = nlimbsN bits -> length b = nlimbsN bits -> Forall inW a -> Forall inW b ->
    g_u_mul_redc bits (nlimbs bits) a b md inv = Redc.uint_mul_redc bits a b md inv.
  Proof.
    intros La Lb Wa Wb. unfold g_u_mul_redc, Redc.uint_mul_redc.
    destruct (Z.eqb_spec bits 0) as [?|_]; [lia|].
    destruct (PfModelsAgree.nlimbsN_pos bits Hpos) as (n & Hn).
    rewrite (g_mul_redc_eq (lenZ a) a b md inv) by
      (unfold lenZ; rewrite ?La, ?Lm, ?Hn; try reflexivity; try lia; rewrite <- Hn, nlimbsN_Z by lia; lia).
    destruct (Redc.mul_redc a b md inv) as [r| | | |] eqn:E; try reflexivity. cbn [obind].
    apply tail_eq.
    unfold Redc.mul_redc in E. destruct md as [|m0 md'] eqn:Emd; [discriminate|].
    destruct (Redc.w64 (inv * m0) =? B - 1) eqn:G1; cbn [negb] in E; [|discriminate].
    destruct (Redc.is_less a (m0 :: md')) eqn:G2; cbn [negb] in E; [|discriminate].
    destruct (Redc.is_less b (m0 :: md')) eqn:G3; cbn [negb] in E; [|discriminate].
    rewrite PfRedc.is_less_spec in G2, G3 by (auto; congruence).
    rewrite PfRedc.w64_spec in G1.
    apply Z.eqb_eq in G1. apply Z.ltb_lt in G2, G3.
    assert (P1 : length a = length (m0 :: md')) by congruence.
    assert (P2 : length b = length (m0 :: md')) by congruence.
    destruct (PfRedc.mul_redc_spec a b (m0 :: md') inv P1 P2 Wa Wb Wm G1 G2 G3) as (r' & E' & Lr' & _).
    unfold Redc.mul_redc in E'. rewrite PfRedc.w64_spec in E'.
    replace ((inv * m0) mod B =? B - 1) with true in E' by lia.
    rewrite !PfRedc.is_less_spec in E' by (auto; congruence).
    apply Z.ltb_lt in G2, G3. rewrite G2, G3 in E'. cbn [negb] in E'. rewrite E in E'. injection E' as <-. congruence.
  Qed.

  Lemma g_u_square_redc_eq a :
    length a = nlimbsN bits -> Forall inW a ->
    g_u_square_redc bits (nlimbs bits) a md inv = Redc.uint_square_redc bits a md inv.
  Proof.
    intros La Wa. unfold g_u_square_redc, Redc.uint_square_redc.
    destruct (Z.eqb_spec bits 0) as [?|_]; [lia|].
    destruct (PfModelsAgree.nlimbsN_pos bits Hpos) as (n & Hn).
    rewrite (g_square_redc_eq (lenZ a) a md inv) by
      (unfold lenZ; rewrite ?La, ?Lm, ?Hn; try reflexivity; try lia; rewrite <- Hn, nlimbsN_Z by lia; lia).
    destruct (Redc.square_redc a md inv) as [r| | | |] eqn:E; try reflexivity. cbn [obind].
    apply tail_eq.
    destruct md as [|m0 md'] eqn:Emd; [discriminate|].
    assert (G : (inv * m0) mod B = B - 1 /\ eval a < eval (m0 :: md')).
    { unfold Redc.square_redc in E.
      destruct (Redc.w64 (inv * m0) =? B - 1) eqn:G1; cbn [negb] in E; [|discriminate].
      destruct (Redc.is_less a (m0 :: md')) eqn:G2; cbn [negb] in E; [|discriminate].
      rewrite PfRedc.is_less_spec in G2 by (auto; congruence).
      rewrite PfRedc.w64_spec in G1. lia. }
    destruct G as [G1 G2].
    assert (P1 : length a = length (m0 :: md')) by congruence.
    destruct (PfRedc.square_redc_spec a (m0 :: md') inv P1 Wa Wm G1 G2) as (r' & E' & Lr' & _).
    rewrite E in E'. injection E' as <-. congruence.
  Qed.
End Redc.
