(* Proofs/PfGenModular.v — the generated definitions of src/modular.rs (reduce_mod, add_mod and the
   Uint-level mul_redc / square_redc) are the model functions of Model/Modular.v and Model/Redc.v. *)
From Coq Require Import ZArith List Bool Lia.
From RV.Model Require Import Base Word.
From RV.Model Require Add UDiv Conv Redc Modular.
From RV.Gen Require Import Prim Scalar.
From RV.Proofs Require Import BaseFacts PfGenScalar PfGenAdd PfGenDiv PfGenCtor PfGenRedc.
From RV.Proofs Require PfAdd PfRedc PfModular PfC10 PfC10Closed PfModelsAgree.
Import ListNotations.

Lemma g_reduce_mod_eq bits a m :
  g_reduce_mod bits (nlimbs bits) a m = Modular.reduce_mod bits a m.
Proof.
  unfold g_reduce_mod, Modular.reduce_mod, Modular.uge, g_cmp.
  rewrite g_is_zero_eq, <- PfModelsAgree.agree_modular_is_zero.
  destruct (Modular.is_zero bits m); [reflexivity|].
  destruct (Add.limbs_cmp a m); cbn [obind];
    rewrite ?g_wrapping_rem_eq, <- ?PfModelsAgree.agree_modular_wrapping_rem;
    try reflexivity; destruct (Modular.wrapping_rem a m); reflexivity.
Qed.

Lemma g_add_mod_eq bits a b m :
  0 <= bits -> nlimbs bits <= B -> canon bits a -> canon bits b -> canon bits m ->
  g_add_mod bits (nlimbs bits) a b m = Modular.add_mod bits a b m.
Proof.
  intros H0 HB Ca Cb Cm. unfold g_add_mod, Modular.add_mod. rewrite !g_reduce_mod_eq.
  destruct (PfC10Closed.reduce_mod_value_closed bits a m H0 Ca Cm) as (ra & Ea & Cra & _).
  destruct (PfC10Closed.reduce_mod_value_closed bits b m H0 Cb Cm) as (rb & Eb & Crb & _).
  pose proof Cra as (La & _). pose proof Crb as (Lb & _).
  rewrite Ea, Eb. cbn [obind].
  rewrite (g_overflowing_add_eq bits ra rb H0 HB La Lb). cbn [obind].
  pose proof (PfAdd.overflowing_add_spec bits ra rb H0 Cra Crb) as Hlen.
  destruct (Add.overflowing_add bits ra rb) as [res ov] eqn:Eo.
  unfold Modular.uge, g_cmp.
  destruct (ov || match Add.limbs_cmp res m with Lt => false | _ => true end); cbn [obind]; [|reflexivity].
  assert (Lr : length res = nlimbsN bits) by (destruct Hlen as ((L & _) & _); exact L).
  destruct Cm as (Lm & _).
  rewrite (g_wrapping_sub_eq bits res m H0 HB Lr Lm). reflexivity.
Qed.

Section Redc.
  Variables (bits : Z) (md : list Z) (inv : Z).
  Hypothesis Hpos : 0 < bits.
  Hypothesis HB : nlimbs bits < B.
  Hypothesis Lm : length md = nlimbsN bits.
  Hypothesis Wm : Forall inW md.

  Let H0 : 0 <= bits. Proof. lia. Qed.
  Let HB' : nlimbs bits <= B. Proof. lia. Qed.

  Lemma tail_eq r :
    length r = nlimbsN bits ->
    (do t_2 <- g_from_limbs bits (nlimbs bits) r ;
     if negb (match g_cmp bits (nlimbs bits) t_2 md with Lt => true | _ => false end) then DebugPanic else Val t_2)
    = Redc.from_limbs_checked bits md r.
  Proof.
    intros Lr. rewrite (PfModelsAgree.agree_redc_from_limbs_checked bits md r Lr).
    rewrite (g_from_limbs_eq bits r H0 HB'). reflexivity.
  Qed.

  Lemma g_u_mul_redc_eq a b :
    length a = nlimbsN bits -> length b = nlimbsN bits -> Forall inW a -> Forall inW b ->
    g_u_mul_redc bits (nlimbs bits) a b md inv = Redc.uint_mul_redc bits a b md inv.
  Proof.
    intros La Lb Wa Wb. unfold g_u_mul_redc, Redc.uint_mul_redc.
    destruct (Z.eqb_spec bits 0) as [?|_]; [lia|].
    destruct (PfModelsAgree.nlimbsN_pos bits Hpos) as (n & Hn).
    rewrite (g_mul_redc_eq (lenZ a) a b md inv) by
      (unfold lenZ; rewrite ?La, ?Lm, ?Hn; try reflexivity; try lia; rewrite <- Hn, nlimbsN_Z by lia; lia).
    destruct (Redc.mul_redc a b md inv) as [r| | | |] eqn:E; try reflexivity. cbn [obind].
    apply tail_eq.
    unfold Redc.mul_redc in E. destruct md as [|m0 md'] eqn:Emd; [discriminate|].
    destruct (Redc.w64 (inv * m0) =? B - 1) eqn:G1; cbn [negb] in E; [|discriminate].
    destruct (Redc.is_less a (m0 :: md')) eqn:G2; cbn [negb] in E; [|discriminate].
    destruct (Redc.is_less b (m0 :: md')) eqn:G3; cbn [negb] in E; [|discriminate].
    rewrite PfRedc.is_less_spec in G2, G3 by (auto; congruence).
    rewrite PfRedc.w64_spec in G1.
    apply Z.eqb_eq in G1. apply Z.ltb_lt in G2, G3.
    assert (P1 : length a = length (m0 :: md')) by congruence.
    assert (P2 : length b = length (m0 :: md')) by congruence.
    destruct (PfRedc.mul_redc_spec a b (m0 :: md') inv P1 P2 Wa Wb Wm G1 G2 G3) as (r' & E' & Lr' & _).
    unfold Redc.mul_redc in E'. rewrite PfRedc.w64_spec in E'.
    replace ((inv * m0) mod B =? B - 1) with true in E' by lia.
    rewrite !PfRedc.is_less_spec in E' by (auto; congruence).
    apply Z.ltb_lt in G2, G3. rewrite G2, G3 in E'. cbn [negb] in E'. rewrite E in E'. injection E' as <-. congruence.
  Qed.

  Lemma g_u_square_redc_eq a :
    length a = nlimbsN bits -> Forall inW a ->
    g_u_square_redc bits (nlimbs bits) a md inv = Redc.uint_square_redc bits a md inv.
  Proof.
    intros La Wa. unfold g_u_square_redc, Redc.uint_square_redc.
    destruct (Z.eqb_spec bits 0) as [?|_]; [lia|].
    destruct (PfModelsAgree.nlimbsN_pos bits Hpos) as (n & Hn).
    rewrite (g_square_redc_eq (lenZ a) a md inv) by
      (unfold lenZ; rewrite ?La, ?Lm, ?Hn; try reflexivity; try lia; rewrite <- Hn, nlimbsN_Z by lia; lia).
    destruct (Redc.square_redc a md inv) as [r| | | |] eqn:E; try reflexivity. cbn [obind].
    apply tail_eq.
    destruct md as [|m0 md'] eqn:Emd; [discriminate|].
    assert (G : (inv * m0) mod B = B - 1 /\ eval a < eval (m0 :: md')).
    { unfold Redc.square_redc in E.
      destruct (Redc.w64 (inv * m0) =? B - 1) eqn:G1; cbn [negb] in E; [|discriminate].
      destruct (Redc.is_less a (m0 :: md')) eqn:G2; cbn [negb] in E; [|discriminate].
      rewrite PfRedc.is_less_spec in G2 by (auto; congruence).
      rewrite PfRedc.w64_spec in G1. lia. }
    destruct G as [G1 G2].
    assert (P1 : length a = length (m0 :: md')) by congruence.
    destruct (PfRedc.square_redc_spec a (m0 :: md') inv P1 Wa Wm G1 G2) as (r' & E' & Lr' & _).
    rewrite E in E'. injection E' as <-. congruence.
  Qed.
End Redc.

(* ---------------- mul_mod (the product buffer `[[0u64; 2]; LIMBS]` viewed as `&mut [u64]` of
   nlimbs(2*BITS) words through from_raw_parts_mut) and pow_mod ---------------- *)
From RV.Proofs Require Import PfGenShift.
From RV.Model Require Shift.

Lemma g_mul_mod_eq bits a b m :
  0 <= bits -> 2 * bits + 63 < B ->
  g_mul_mod bits (nlimbs bits) a b m = Modular.mul_mod bits a b m.
Proof.
  intros H0 HB. pose proof (nlimbs_nonneg bits H0) as HL.
  pose proof (nlimbs_nonneg (2 * bits) ltac:(lia)) as HL2.
  assert (HLB : 2 * nlimbs bits < B) by (unfold nlimbs; Z.div_mod_to_equations; lia).
  unfold g_mul_mod, Modular.mul_mod.
  rewrite g_is_zero_eq, <- PfModelsAgree.agree_modular_is_zero.
  destruct (Modular.is_zero bits m); [reflexivity|]. cbv zeta.
  rewrite chk64_ok by lia. cbn [obind]. rewrite g_nlimbs_eq by lia. cbn [obind].
  rewrite chk64_ok by lia. cbn [obind].
  rewrite (Z.ltb_antisym (nlimbs (2 * bits)) (2 * nlimbs bits)).
  destruct (Z.leb_spec (nlimbs (2 * bits)) (2 * nlimbs bits)) as [Hle|Hgt]; cbn [negb]; [|reflexivity].
  unfold lenZ. rewrite repeat_length, Z2Nat.id by lia.
  destruct (Z.leb_spec (nlimbs (2 * bits)) (2 * nlimbs bits)); [|lia]. cbn [obind].
  replace (firstn (Z.to_nat (nlimbs (2 * bits))) (repeat 0 (Z.to_nat (2 * nlimbs bits))))
    with (repeat 0 (Z.to_nat (nlimbs (2 * bits)))).
  2:{ replace (Z.to_nat (2 * nlimbs bits)) with (Z.to_nat (nlimbs (2 * bits)) + (Z.to_nat (2 * nlimbs bits) - Z.to_nat (nlimbs (2 * bits))))%nat by lia.
      rewrite repeat_app, firstn_app, repeat_length, Nat.sub_diag, firstn_O, app_nil_r.
      rewrite firstn_all2 by (rewrite repeat_length; lia). reflexivity. }
  destruct (Limbs.addmul (repeat 0 (Z.to_nat (nlimbs (2 * bits)))) a b) as [product overflow].
  destruct overflow; cbn [negb]; [reflexivity|].
  destruct (Div.div_kernel product m) as [[q r]| | | |]; reflexivity.
Qed.

Lemma pm_loop_eq bits m cond body :
  0 < bits -> nlimbs bits < B -> 2 * bits + 63 < B ->
  (forall r s x, cond (r, s, x) = Val (Modular.ugt x (uZERO bits))) ->
  (forall r s x, length x = nlimbsN bits -> body (r, s, x) =
     do r' <- (if Z.land (nth 0 x 0) 1 =? 1 then Modular.mul_mod bits r s m else Val r) ;
     do s' <- Modular.mul_mod bits s s m ;
     Val (r', s', Shift.shr_prim bits x 1)) ->
  forall fuel r s x, length x = nlimbsN bits ->
  (do t <- while_fuel fuel (r, s, x) cond body ; let '(r', _, _) := t in Val r')
  = Modular.pow_loop fuel bits r s x m.
Proof.
  intros Hpos HB HB2 Hc Hb. induction fuel as [|fuel IH]; intros r s x Lx; [reflexivity|].
  cbn [while_fuel Modular.pow_loop]. rewrite Hc. cbn [obind].
  destruct (Modular.ugt x (uZERO bits)); [|reflexivity].
  rewrite (Hb r s x Lx).
  destruct (if Z.land (nth 0 x 0) 1 =? 1 then Modular.mul_mod bits r s m else Val r) as [r'| | | |]; try reflexivity.
  cbn [obind]. destruct (Modular.mul_mod bits s s m) as [s'| | | |]; try reflexivity. cbn [obind].
  apply IH. unfold Shift.shr_prim. apply wrapping_shr_length; [lia | exact Lx | lia].
Qed.

Theorem g_pow_mod_eq bits a e m :
  0 <= bits -> nlimbs bits < B -> 2 * bits + 63 < B -> length e = nlimbsN bits ->
  g_pow_mod bits (nlimbs bits) a e m = Modular.pow_mod bits a e m.
Proof.
  intros H0 HB HB2 Le. unfold g_pow_mod, Modular.pow_mod, g_cmp.
  rewrite PfModelsAgree.agree_udiv_uone, <- PfModelsAgree.agree_modular_uONE.
  change (match Add.limbs_cmp m (Modular.uONE bits) with Gt => false | _ => true end) with (Modular.ule m (Modular.uONE bits)).
  destruct (Z.eqb_spec bits 0) as [E0|N0]; cbn [orb]; [reflexivity|].
  destruct (Modular.ule m (Modular.uONE bits)); [reflexivity|]. cbv zeta.
  match goal with |- context [while_fuel _ _ ?c ?bd] => pose proof (pm_loop_eq bits m c bd ltac:(lia) HB HB2) as HW end.
  apply HW; [| |exact Le].
  - intros r s x. reflexivity.
  - intros r s x Lx. cbv beta iota.
    destruct (PfModelsAgree.nlimbsN_pos bits ltac:(lia)) as (n & Hn).
    destruct x as [|x0 xt]; [rewrite Hn in Lx; discriminate|].
    change (idx (x0 :: xt) 0) with (Val x0 : outcome Z). cbn [obind nth].
    rewrite !g_mul_mod_eq by lia.
    destruct (Z.land x0 1 =? 1).
    + destruct (Modular.mul_mod bits r s m) as [r'| | | |]; try reflexivity. cbn [obind].
      destruct (Modular.mul_mod bits s s m) as [s'| | | |]; try reflexivity. cbn [obind].
      destruct (g_shift_wrappers_eq bits (x0 :: xt) 1 H0 HB Lx ltac:(lia)) as (_ & _ & _ & _ & Es). rewrite Es. reflexivity.
    + cbn [obind].
      destruct (Modular.mul_mod bits s s m) as [s'| | | |]; try reflexivity. cbn [obind].
      destruct (g_shift_wrappers_eq bits (x0 :: xt) 1 H0 HB Lx ltac:(lia)) as (_ & _ & _ & _ & Es). rewrite Es. reflexivity.
Qed.
