(* Proofs/PfModelsAgree.v — the local copies of model functions agree with the canonical models.

   The Model/*.v files were written in parallel; where one topic needed a function owned by
   another topic it defined a faithful local copy.  Every such pair is related here:
     agree_<topic>_<fn> : <well-formedness> -> Copy.f args = Owner.f args
   (or the outcome- / result-type-wrapped equivalent).  Part 1: pairs that are equal by
   unfolding.  Part 2: pairs that need an induction or arithmetic.  Part 3: the specification
   functions of Model/Opaque.v against the models that landed later (through the
   characterising lemmas of the owners' Pf files). *)
From Coq Require Import ZArith List Bool Lia.
From RV.Model Require Import Base Word.
From RV.Model Require Limbs Add Mul UDiv Shift Bits Conv Bytes BaseConv Fmt Float Redc Modular
  GcdMatrix Gcd Div DivRecip DivKnuth Cmp Facade Gen History Opaque Macro CodecA CodecB CodecC
  Pow Log Root.
From RV.Proofs Require Import BaseFacts.
From RV.Proofs Require PfConv PfBits PfMul PfDiv PfGcd PfGcdMatrix PfC12Closed PfC10 PfC10Closed PfRedc PfC11 PfPow PfRoot PfC13Closed.
From RV.Run Require RunC10 RunC13.

Local Open Scope Z_scope.

(* ====================================================================================== *)
(* PART 1 — equal by unfolding                                                            *)
(* ====================================================================================== *)

(* ---------- is_zero (owner: UDiv.is_zero; cmp.rs) ---------- *)
Lemma agree_cmp_is_zero bits a : Cmp.is_zero bits a = UDiv.is_zero bits a.
Proof. reflexivity. Qed.
Lemma agree_modular_is_zero bits a : Modular.is_zero bits a = UDiv.is_zero bits a.
Proof. reflexivity. Qed.
Lemma agree_gcdmatrix_is_zero bits a : GcdMatrix.is_zero bits a = UDiv.is_zero bits a.
Proof. reflexivity. Qed.
Lemma agree_facade_is_zero bits a : Facade.is_zero bits a = UDiv.is_zero bits a.
Proof. reflexivity. Qed.
Lemma agree_shift_ne_zero bits a : Shift.ne_zero bits a = negb (UDiv.is_zero bits a).
Proof. reflexivity. Qed.
(* the inline `uint.is_zero()` of CodecB.der_int_bytes / der_uint_bytes *)
Lemma agree_codecb_is_zero bits a :
  CodecB.der_uint_bytes bits a =
  if UDiv.is_zero bits a then Val [0] else Bytes.to_be_bytes_trimmed_vec bits a.
Proof. reflexivity. Qed.

(* ---------- derived PartialEq ---------- *)
Lemma agree_facade_limbs_eq a b : Facade.limbs_eq a b = Cmp.ueq a b.
Proof. reflexivity. Qed.

(* ---------- comparisons (owner: Add.limbs_cmp / Add.ult; Cmp.v for the std defaults) ---------- *)
Lemma agree_cmp_ult a b : Cmp.ult a b = Add.ult a b.
Proof. unfold Cmp.ult, Cmp.partial_cmp, Cmp.ucmp, Add.ult. destruct (Add.limbs_cmp a b); reflexivity. Qed.
Lemma agree_facade_ult a b : Facade.ult a b = Add.ult a b.
Proof. reflexivity. Qed.
Lemma agree_redc_is_less a b : Redc.is_less a b = Add.ult a b.
Proof. reflexivity. Qed.
Lemma agree_modular_uge a b : Modular.uge a b = Cmp.uge a b.
Proof. unfold Modular.uge, Cmp.uge, Cmp.partial_cmp, Cmp.ucmp. destruct (Add.limbs_cmp a b); reflexivity. Qed.
Lemma agree_modular_ule a b : Modular.ule a b = Cmp.ule a b.
Proof. unfold Modular.ule, Cmp.ule, Cmp.partial_cmp, Cmp.ucmp. destruct (Add.limbs_cmp a b); reflexivity. Qed.
Lemma agree_modular_ugt a b : Modular.ugt a b = Cmp.ugt a b.
Proof. unfold Modular.ugt, Cmp.ugt, Cmp.partial_cmp, Cmp.ucmp. destruct (Add.limbs_cmp a b); reflexivity. Qed.
Lemma agree_facade_ugt a b : Facade.ugt a b = Cmp.ugt a b.
Proof. unfold Facade.ugt, Cmp.ugt, Cmp.partial_cmp, Cmp.ucmp. destruct (Add.limbs_cmp a b); reflexivity. Qed.
Lemma agree_gcdmatrix_uge a b : GcdMatrix.uge a b = Cmp.uge a b.
Proof.
  unfold GcdMatrix.uge, Add.ult, Cmp.uge, Cmp.partial_cmp, Cmp.ucmp.
  destruct (Add.limbs_cmp a b); reflexivity.
Qed.

(* ---------- div_rem / wrapping_div / wrapping_rem (owner: UDiv; div.rs) ---------- *)
Lemma agree_modular_div_rem a b : Modular.div_rem a b = UDiv.div_rem a b.
Proof. reflexivity. Qed.
Lemma agree_modular_wrapping_rem a b : Modular.wrapping_rem a b = UDiv.wrapping_rem a b.
Proof. reflexivity. Qed.
Lemma agree_modular_wrapping_div a b : Modular.wrapping_div a b = UDiv.wrapping_div a b.
Proof. reflexivity. Qed.
Lemma agree_gcdmatrix_udiv_rem a b : GcdMatrix.udiv_rem a b = UDiv.div_rem a b.
Proof. reflexivity. Qed.
Lemma agree_gcdmatrix_udiv a b : GcdMatrix.udiv a b = UDiv.wrapping_div a b.
Proof. reflexivity. Qed.
Lemma agree_gcdmatrix_urem a b : GcdMatrix.urem a b = UDiv.wrapping_rem a b.
Proof. reflexivity. Qed.

(* ---------- overflowing_mul / checked_mul / wrapping_mul (owner: Mul; mul.rs) ---------- *)
Lemma agree_udiv_overflowing_mul bits a b : UDiv.overflowing_mul bits a b = Mul.overflowing_mul bits a b.
Proof.
  unfold UDiv.overflowing_mul, Mul.overflowing_mul, Mul.apply_mask.
  destruct (Limbs.addmul (uZERO bits) a b); reflexivity.
Qed.
Lemma agree_udiv_checked_mul bits a b : UDiv.checked_mul bits a b = Mul.checked_mul bits a b.
Proof. unfold UDiv.checked_mul, Mul.checked_mul. rewrite agree_udiv_overflowing_mul. reflexivity. Qed.
Lemma agree_gcdmatrix_uovmul bits a b : GcdMatrix.uovmul bits a b = Mul.overflowing_mul bits a b.
Proof.
  unfold GcdMatrix.uovmul, Mul.overflowing_mul, Mul.apply_mask.
  destruct (Limbs.addmul (uZERO bits) a b); reflexivity.
Qed.
Lemma agree_gcdmatrix_uchecked_mul bits a b : GcdMatrix.uchecked_mul bits a b = Mul.checked_mul bits a b.
Proof. unfold GcdMatrix.uchecked_mul, Mul.checked_mul. rewrite agree_gcdmatrix_uovmul. reflexivity. Qed.
Lemma agree_gcdmatrix_umul bits a b : GcdMatrix.umul bits a b = Mul.wrapping_mul bits a b.
Proof. reflexivity. Qed.
Lemma agree_gen_apply_mask bits l : Gen.apply_mask bits l = Mul.apply_mask bits l.
Proof. reflexivity. Qed.

(* ---------- add / sub wrappers ---------- *)
Lemma agree_gcdmatrix_usub bits a b : GcdMatrix.usub bits a b = Add.wrapping_sub bits a b.
Proof. reflexivity. Qed.
Lemma agree_gcdmatrix_uadd bits a b : GcdMatrix.uadd bits a b = Add.wrapping_add bits a b.
Proof. reflexivity. Qed.
Lemma agree_shift_checked_of p : Shift.checked_of p = Add.checked_of p.
Proof. reflexivity. Qed.
Lemma agree_redc_sub a b : Redc.sub a b = Add.sub_loop a b false.
Proof. reflexivity. Qed.

(* ---------- Uint::ONE as a plain limb list: all five copies are the same function ---------- *)
Lemma agree_modular_uONE bits : Modular.uONE bits = Bits.uONE bits.
Proof. reflexivity. Qed.
Lemma agree_gcdmatrix_uONE bits : GcdMatrix.uONE bits = Bits.uONE bits.
Proof. reflexivity. Qed.
Lemma agree_udiv_uone bits : UDiv.uone bits = Bits.uONE bits.
Proof. reflexivity. Qed.

(* ---------- checked primitive arithmetic / small helpers ---------- *)
Lemma agree_bytes_usub x y : Bytes.usub x y = Bits.usub x y.
Proof. reflexivity. Qed.
Lemma agree_gcdmatrix_csub x y : GcdMatrix.csub x y = Bits.usub x y.
Proof. reflexivity. Qed.
Lemma agree_gcdmatrix_cadd x y : GcdMatrix.cadd x y = Bytes.uadd64 x y.
Proof. reflexivity. Qed.
Lemma agree_shift_nz x : Shift.nz x = Bits.nonzero x.
Proof. reflexivity. Qed.
Lemma agree_history_isbyteb b : History.isbyteb b = Bytes.isbyteb b.
Proof. reflexivity. Qed.
Lemma agree_bits_BYTES bits : Bits.BYTES bits = Bytes.nbytes bits.
Proof. reflexivity. Qed.
Lemma agree_float_rposition_nz l : Float.rposition_nz l = Div.rposition_nz l.
Proof. reflexivity. Qed.
Lemma agree_gen_le_val bs : Gen.le_val bs = Bytes.le_value bs.
Proof. reflexivity. Qed.
Lemma agree_divrecip_lo128 x : DivRecip.lo128 x = Word.lo x.
Proof. reflexivity. Qed.

(* ---------- the `uint!` macro recomputes nlimbs and MASK inline (ruint-macro) ---------- *)
Lemma agree_macro_pad_limbs bits limbs :
  Macro.pad_limbs bits limbs =
  let limbs := rev (Macro.pop_zeros (nlimbsN bits) (rev limbs)) in
  let limbs := limbs ++ repeat 0 (nlimbsN bits - length limbs) in
  if (nlimbsN bits <? length limbs)%nat || (mask bits <? last limbs 0) then None else Some limbs.
Proof. reflexivity. Qed.

(* ---------- third-party stand-ins that are the owners' functions ---------- *)
Lemma agree_codecc_fp_into_repr bits x : CodecC.fp_into_repr (nlimbsN bits) x = uint_of bits x.
Proof. reflexivity. Qed.

(* ====================================================================================== *)
(* PART 2 — agreement that needs an argument                                              *)
(* ====================================================================================== *)

Lemma should_mask_pos bits : should_mask bits = true -> 0 < bits.
Proof.
  unfold should_mask. intros H. apply andb_true_iff in H. destruct H as [H _].
  now apply Z.ltb_lt in H.
Qed.
Lemma nlimbsN_pos bits : 0 < bits -> exists n, nlimbsN bits = S n.
Proof.
  intros H. pose proof (nlimbs_pos bits H). unfold nlimbsN.
  destruct (Z.to_nat (nlimbs bits)) eqn:E; [lia | eauto].
Qed.
Lemma nlimbsN_pred bits : Z.to_nat (nlimbs bits - 1) = (nlimbsN bits - 1)%nat.
Proof. unfold nlimbsN. lia. Qed.

(* ---------- u64/u128 truncations of Redc.v and DivRecip.v (owner: Base / Word) ---------- *)
Lemma agree_redc_w64 x : Redc.w64 x = wrap x.
Proof. apply modp2_B. Qed.
Lemma agree_redc_w128 x : Redc.w128 x = wrap128 x.
Proof. unfold Redc.w128, wrap128. change BB with (2 ^ 128). apply modp2_spec. lia. Qed.
Lemma agree_redc_hi64 x : Redc.hi64 x = Word.hi x.
Proof. unfold Redc.hi64, Word.hi. rewrite modp2_B, divp2_B. reflexivity. Qed.
Lemma agree_divrecip_hi128 x : 0 <= x < B * B -> DivRecip.hi128 x = Word.hi x.
Proof.
  intros H. unfold DivRecip.hi128, Word.hi. pose proof B_pos.
  symmetry. apply Z.mod_small. split; [apply Z.div_pos; lia | apply Z.div_lt_upper_bound; lia].
Qed.

(* ---------- from_limbs_unmasked / MAX / ZERO of Gen.v (owner: Base.masked, uMAX, uZERO) ---------- *)
Lemma agree_gen_from_limbs_unmasked bits l : Gen.from_limbs_unmasked bits l = masked bits l.
Proof.
  unfold Gen.from_limbs_unmasked, masked. destruct (should_mask bits) eqn:E.
  - apply should_mask_pos in E. pose proof (nlimbs_pos bits E).
    destruct (Z.ltb_spec 0 (nlimbs bits)); [reflexivity | lia].
  - rewrite andb_false_r. reflexivity.
Qed.
Lemma agree_gen_cMAX bits : Gen.cMAX bits = uMAX bits.
Proof. apply agree_gen_from_limbs_unmasked. Qed.

Lemma from_limbs_zero bits : 0 <= bits -> Conv.from_limbs bits (zero_limbs (nlimbsN bits)) = Val (uZERO bits).
Proof.
  intros H. unfold Conv.from_limbs. destruct (should_mask bits) eqn:E; [|reflexivity].
  apply should_mask_pos in E. destruct (nlimbsN_pos bits E) as (n & Hn).
  rewrite nlimbsN_pred, Hn. unfold zero_limbs.
  replace (S n - 1)%nat with n by lia.
  assert (Hnth : nth_error (repeat 0 (S n)) n = Some 0).
  { rewrite nth_error_nth' with (d := 0) by (rewrite repeat_length; lia).
    f_equal. apply nth_repeat. }
  rewrite Hnth. pose proof (mask_range bits H).
  destruct (Z.leb_spec 0 (mask bits)); [|lia]. unfold uZERO, zero_limbs. rewrite Hn. reflexivity.
Qed.
Lemma agree_gen_cZERO bits : 0 <= bits -> Gen.cZERO bits = Val (uZERO bits).
Proof. apply from_limbs_zero. Qed.

(* ---------- from_limbs (owner: Conv.from_limbs; lib.rs) ---------- *)
Lemma agree_bytes_from_limbs bits l : Bytes.from_limbs bits l = Conv.from_limbs bits l.
Proof.
  unfold Bytes.from_limbs, Conv.from_limbs. destruct (should_mask bits) eqn:E; [|reflexivity].
  apply should_mask_pos in E. pose proof (nlimbs_pos bits E). unfold Bytes.idx.
  destruct (Z.ltb_spec (nlimbs bits - 1) 0); [lia|].
  destruct (nth_error l (Z.to_nat (nlimbs bits - 1))); reflexivity.
Qed.

Lemma nth_error_last (l : list Z) : l <> [] -> nth_error l (length l - 1) = Some (last l 0).
Proof.
  intros H. destruct (list_snoc_inv l H) as (i & x & ->).
  rewrite last_snoc, app_length. cbn [length].
  replace (length i + 1 - 1)%nat with (length i) by lia.
  rewrite nth_error_app2 by lia. rewrite Nat.sub_diag. reflexivity.
Qed.

Lemma agree_float_from_limbs bits l :
  length l = nlimbsN bits -> Float.from_limbs bits l = Conv.from_limbs bits l.
Proof.
  intros Hl. unfold Float.from_limbs, Conv.from_limbs.
  destruct (should_mask bits) eqn:E; [|reflexivity]. cbn [andb].
  apply should_mask_pos in E. destruct (nlimbsN_pos bits E) as (n & Hn).
  rewrite nlimbsN_pred, <- Hl, nth_error_last by (intros ->; cbn in Hl; lia).
  destruct (Z.ltb_spec (mask bits) (last l 0)), (Z.leb_spec (last l 0) (mask bits)); (reflexivity || lia).
Qed.

(* Redc.from_limbs_checked = from_limbs, then the debug assertion `result < modulus` *)
Lemma agree_redc_from_limbs_checked bits md r :
  length r = nlimbsN bits ->
  Redc.from_limbs_checked bits md r =
  (do r' <- Conv.from_limbs bits r ; if negb (Add.ult r' md) then DebugPanic else Val r').
Proof.
  intros Hl. rewrite <- agree_float_from_limbs by exact Hl.
  unfold Redc.from_limbs_checked, Float.from_limbs.
  destruct (should_mask bits && (mask bits <? last r 0)); reflexivity.
Qed.

(* ---------- const_from_u64 / ONE (owner: Mul.const_from_u64, Mul.uONE; from.rs) ---------- *)
Lemma agree_gen_const_from_u64 bits x : Gen.const_from_u64 bits x = Mul.const_from_u64 bits x.
Proof.
  unfold Gen.const_from_u64, Mul.const_from_u64. rewrite agree_gen_cMAX.
  destruct ((bits =? 0) || ((bits <? 64) && (2 ^ bits <=? x))); [reflexivity|].
  destruct (zero_limbs (nlimbsN bits)); reflexivity.
Qed.
Lemma agree_gen_cONE bits : Gen.cONE bits = Mul.uONE bits.
Proof. apply agree_gen_const_from_u64. Qed.

Lemma agree_baseconv_uONE bits : BaseConv.uONE bits = Bits.uONE bits.
Proof.
  unfold BaseConv.uONE, Bits.uONE, uZERO, zero_limbs.
  destruct (Z.eqb_spec bits 0) as [->|Hne]; [reflexivity|].
  destruct (nlimbsN bits); reflexivity.
Qed.

Lemma uONE_canon bits : 0 < bits -> canon bits (Bits.uONE bits) /\ eval (Bits.uONE bits) = 1.
Proof.
  intros H. unfold Bits.uONE. destruct (Z.eqb_spec bits 0) as [E0|E0]; [lia|].
  destruct (nlimbsN_pos bits H) as (n & Hn). unfold uZERO, zero_limbs. rewrite Hn. cbn [repeat].
  assert (He : eval (1 :: repeat 0 n) = 1) by (rewrite eval_cons, eval_repeat0; lia).
  split; [|exact He]. unfold canon. rewrite He. repeat split.
  - cbn [length]. rewrite repeat_length. congruence.
  - constructor; [unfold inW; pose proof B_pos; rewrite B_val; lia | apply Forall_inW_repeat0].
  - assert (2 ^ 1 <= 2 ^ bits) by (apply Z.pow_le_mono_r; lia). lia.
Qed.

(* the plain-list ONE of Bits / Modular / GcdMatrix / UDiv / BaseConv is the value of the
   canonical (outcome-typed) Mul.uONE *)
Lemma agree_bits_uONE bits : 0 <= bits -> Mul.uONE bits = Val (Bits.uONE bits).
Proof.
  intros H. unfold Mul.uONE, Mul.const_from_u64.
  destruct (Z.eqb_spec bits 0) as [->|Hne]; [reflexivity|]. cbn [orb].
  assert (Hb : 0 < bits) by lia.
  assert (H2 : 2 ^ 1 <= 2 ^ bits) by (apply Z.pow_le_mono_r; lia).
  destruct (Z.leb_spec (2 ^ bits) 1); [lia|]. rewrite andb_false_r.
  pose proof (uONE_canon bits Hb) as [Hc _]. revert Hc.
  unfold Bits.uONE. destruct (Z.eqb_spec bits 0) as [E0|E0]; [lia|]. unfold uZERO.
  destruct (zero_limbs (nlimbsN bits)) eqn:E.
  - destruct (nlimbsN_pos bits Hb) as (n & Hn). rewrite Hn in E. discriminate.
  - intros Hc. apply PfConv.from_limbs_canon; assumption.
Qed.

(* ---------- slice indexing helpers ---------- *)
Lemma agree_bits_index (l : list Z) i : Bits.index l i = Bytes.idx l i.
Proof.
  unfold Bits.index, Bytes.idx. destruct (Z.ltb_spec i 0); [reflexivity|]. cbn [orb].
  destruct (Z.leb_spec (lenZ l) i) as [Hi|Hi]; [|reflexivity].
  assert (Hn : nth_error l (Z.to_nat i) = None) by (apply nth_error_None; unfold lenZ in Hi; lia).
  rewrite Hn. reflexivity.
Qed.
Lemma agree_conv_get_nth l i : 0 <= i -> Conv.get_nth l (Z.to_nat i) = Bytes.idx l i.
Proof. intros H. unfold Conv.get_nth, Bytes.idx. destruct (Z.ltb_spec i 0); [lia | reflexivity]. Qed.
Lemma agree_conv_set_nth l : forall i v, (i < length l)%nat ->
  Conv.set_nth l i v = Val (Bytes.set_nth i v l).
Proof.
  induction l as [|x l IH]; intros i v Hi; cbn [length] in Hi; [lia|].
  destruct i as [|i]; cbn [Conv.set_nth Bytes.set_nth]; [reflexivity|].
  rewrite IH by lia. reflexivity.
Qed.
Lemma agree_conv_set_nth_upd l i v : 0 <= i ->
  Conv.set_nth l (Z.to_nat i) v = Bytes.upd l i v.
Proof.
  intros H. unfold Bytes.upd. destruct (Z.leb_spec 0 i); [|lia]. cbn [andb].
  destruct (Z.ltb_spec i (lenZ l)) as [Hi|Hi]; unfold lenZ in Hi.
  - apply agree_conv_set_nth. lia.
  - assert (Hge : (length l <= Z.to_nat i)%nat) by lia. clear - Hge. revert Hge.
    generalize (Z.to_nat i) as n. induction l as [|x l IH]; intros n Hn; [destruct n; reflexivity|].
    cbn [length] in Hn. destruct n as [|n]; [lia|]. cbn [Conv.set_nth]. rewrite IH by lia. reflexivity.
Qed.

(* ---------- all-zero tests ---------- *)
Lemma list_eqb_repeat0 a : forall n, length a = n -> list_eqb Z.eqb a (repeat 0 n) = forallb (Z.eqb 0) a.
Proof.
  induction a as [|x a IH]; intros n Hn; cbn [length] in Hn; subst n; [reflexivity|].
  cbn [repeat list_eqb forallb]. rewrite IH by reflexivity. rewrite (Z.eqb_sym x 0). reflexivity.
Qed.
Lemma agree_fmt_is_zero bits a : length a = nlimbsN bits -> Fmt.is_zero a = UDiv.is_zero bits a.
Proof. intros H. unfold Fmt.is_zero, UDiv.is_zero, uZERO, zero_limbs. symmetry. apply list_eqb_repeat0, H. Qed.
Lemma all_zero_forallb a : Float.all_zero a = forallb (Z.eqb 0) a.
Proof. unfold Float.all_zero. induction a as [|x a IH]; cbn [forallb]; [reflexivity|]. rewrite IH, (Z.eqb_sym x 0). reflexivity. Qed.
Lemma agree_float_all_zero bits a : length a = nlimbsN bits -> Float.all_zero a = UDiv.is_zero bits a.
Proof. intros H. rewrite all_zero_forallb. apply (agree_fmt_is_zero bits a H). Qed.
Lemma agree_shift_any_nz l : Shift.any_nz l = negb (Float.all_zero l).
Proof.
  unfold Shift.any_nz, Float.all_zero, Shift.nz.
  induction l as [|x l IH]; cbn [existsb forallb]; [reflexivity|].
  rewrite IH, negb_andb. reflexivity.
Qed.

(* ---------- leading_zeros / bit_len (owner: Bits; copy in Conv.v) ---------- *)
Lemma agree_conv_lz_loop bits rl : forall n, Conv.lz_loop bits rl n = Bits.lz_loop bits rl n.
Proof.
  induction rl as [|x t IH]; intros n; cbn [Conv.lz_loop Bits.lz_loop]; [reflexivity|].
  unfold Bits.nonzero, Bits.usub. destruct (x =? 0); cbn [negb]; [apply IH | reflexivity].
Qed.
Lemma agree_conv_leading_zeros bits l : Conv.leading_zeros bits l = Bits.leading_zeros bits l.
Proof. apply agree_conv_lz_loop. Qed.
Lemma agree_conv_bit_len bits l : Conv.bit_len bits l = Bits.bit_len bits l.
Proof.
  unfold Conv.bit_len, Bits.bit_len. rewrite agree_conv_leading_zeros. reflexivity.
Qed.

(* ---------- bit (owner: Bits.bit; copies in Conv.v and Shift.v) ---------- *)
Lemma shl64_one b : 0 <= b < 64 -> shl64 1 b = 2 ^ b.
Proof.
  intros H. unfold shl64. rewrite Z.mul_1_l, B_pow. apply Z.mod_small.
  split; [apply Z.pow_nonneg; lia | apply Z.pow_lt_mono_r; lia].
Qed.
Lemma land_pow2_nonzero x b : 0 <= b -> Bits.nonzero (Z.land x (2 ^ b)) = Z.testbit x b.
Proof.
  intros Hb. unfold Bits.nonzero.
  destruct (Z.testbit x b) eqn:E.
  - destruct (Z.eqb_spec (Z.land x (2 ^ b)) 0) as [H0|H0]; [|reflexivity].
    assert (Ht : Z.testbit (Z.land x (2 ^ b)) b = true)
      by (rewrite Z.land_spec, E, Z.pow2_bits_true by lia; reflexivity).
    rewrite H0, Z.bits_0 in Ht. discriminate.
  - assert (H0 : Z.land x (2 ^ b) = 0).
    { apply Z.bits_inj'. intros n Hn. rewrite Z.land_spec, Z.bits_0.
      destruct (Z.eq_dec n b) as [->|Hne]; [rewrite E; reflexivity|].
      rewrite Z.pow2_bits_false by lia. apply andb_false_r. }
    rewrite H0. reflexivity.
Qed.
Lemma agree_conv_bit bits l i : 0 <= i -> Conv.bit bits l i = Bits.bit bits l i.
Proof.
  intros Hi. unfold Conv.bit, Bits.bit. destruct (bits <=? i); [reflexivity|].
  assert (Hq : 0 <= i / 64) by (apply Z.div_pos; lia).
  assert (Hr : 0 <= i mod 64 < 64) by (apply Z.mod_pos_bound; lia).
  rewrite agree_conv_get_nth, agree_bits_index by exact Hq.
  destruct (Bytes.idx l (i / 64)) as [x| | | |]; cbn [obind]; try reflexivity.
  rewrite shl64_one, land_pow2_nonzero by lia. reflexivity.
Qed.
Lemma agree_shift_bit bits a i :
  0 <= bits -> length a = nlimbsN bits -> 0 <= i ->
  Bits.bit bits a i = Val (Shift.bit bits a i).
Proof.
  intros Hb Hl Hi. unfold Bits.bit, Shift.bit. destruct (Z.leb_spec bits i) as [Hge|Hlt]; [reflexivity|].
  assert (Hq : 0 <= i / 64 < nlimbs bits).
  { split; [apply Z.div_pos; lia|]. apply Z.div_lt_upper_bound; [lia|].
    pose proof (nlimbs_bounds bits ltac:(lia)). lia. }
  rewrite PfBits.index_nth.
  - reflexivity.
  - unfold lenZ. rewrite Hl, nlimbsN_Z by exact Hb. exact Hq.
Qed.

(* ---------- TryFrom<u64> (owner: Conv.try_from_u64; copy in Float.v) ---------- *)
(* the two result enums, related constructor by constructor *)
Definition float_res_of (r : Conv.to_res) : Float.to_uint_result :=
  match r with
  | Conv.ROk n => Float.TOk n
  | Conv.RTooLarge b n => Float.ValueTooLarge b n
  | Conv.RNegative b n => Float.ValueNegative b n
  end.

Lemma agree_float_try_from_u64 bits v :
  0 <= bits -> Float.try_from_u64 bits v = omap float_res_of (Conv.try_from_u64 bits v).
Proof.
  intros Hb.
  assert (Htail :
    match nlimbsN bits with
    | O => Panic
    | S n => do r <- Float.from_limbs bits (v :: zero_limbs n) ; Val (Float.TOk r)
    end =
    omap float_res_of
      (do limbs <- Conv.set_nth (zero_limbs (nlimbsN bits)) 0 v ;
       do n <- Conv.from_limbs bits limbs ; Val (Conv.ROk n))).
  { destruct (nlimbsN bits) as [|n] eqn:Hn; [reflexivity|].
    unfold zero_limbs at 2. cbn [repeat Conv.set_nth obind]. fold (zero_limbs n).
    rewrite agree_float_from_limbs
      by (cbn [length]; unfold zero_limbs; rewrite repeat_length; congruence).
    destruct (Conv.from_limbs bits (v :: zero_limbs n)); reflexivity. }
  unfold Float.try_from_u64, Conv.try_from_u64.
  destruct (nlimbs bits <=? 1) eqn:HL; [|exact Htail].
  destruct (mask bits <? v).
  - pose proof (nlimbs_nonneg bits Hb) as Hnn. apply Z.leb_le in HL.
    destruct (Z.eqb_spec (nlimbs bits) 1) as [E1|E1].
    + assert (Hn : nlimbsN bits = 1%nat) by (unfold nlimbsN; rewrite E1; reflexivity).
      rewrite Hn. cbn [zero_limbs repeat Conv.set_nth obind].
      rewrite agree_float_from_limbs by (rewrite Hn; reflexivity).
      destruct (Conv.from_limbs bits [Z.land v (mask bits)]); reflexivity.
    + assert (Hn : nlimbsN bits = 0%nat) by (unfold nlimbsN; lia).
      rewrite Hn. cbn [zero_limbs repeat obind].
      rewrite agree_float_from_limbs by (rewrite Hn; reflexivity).
      destruct (Conv.from_limbs bits []); reflexivity.
  - destruct (nlimbs bits =? 0); [reflexivity | exact Htail].
Qed.

(* Uint::from(x) reached through the i32 literal fallback (Mul.from_i32) and through u64
   (GcdMatrix.uint_from_u64) is the same conversion on the common domain *)
Lemma agree_mul_from_i32 bits v :
  0 <= v < 2 ^ 31 -> Mul.from_i32 bits v = GcdMatrix.uint_from_u64 bits v.
Proof.
  intros Hv. unfold Mul.from_i32, GcdMatrix.uint_from_u64, Conv.try_from_prim, Mul.prim_i32.
  cbn [Conv.psigned Conv.pw]. destruct (Z.ltb_spec v 0); [lia|].
  unfold Conv.try_from_unsigned. cbn [Z.eqb].
  rewrite modp2_spec by lia.
  assert (H32 : 2 ^ 31 < 2 ^ 32) by (apply Z.pow_lt_mono_r; lia).
  assert (H64 : 2 ^ 32 < B) by (rewrite B_pow; apply Z.pow_lt_mono_r; lia).
  rewrite (Z.mod_small v (2 ^ 32)) by lia. rewrite Z.mod_small by lia. reflexivity.
Qed.

(* ---------- rposition / most_significant_bits (owner: Bits; copies in Float.v, Div.v) ---------- *)
Lemma agree_bits_rposition l :
  Bits.rposition Bits.nonzero l = option_map Z.of_nat (Div.rposition_nz l).
Proof.
  induction l as [|x t IH]; cbn [Bits.rposition Div.rposition_nz]; [reflexivity|].
  rewrite IH. destruct (Div.rposition_nz t) as [i|]; cbn [option_map].
  - f_equal. lia.
  - unfold Bits.nonzero. destruct (x =? 0); reflexivity.
Qed.
Lemma rposition_nz_lt l : forall i, Div.rposition_nz l = Some i -> (i < length l)%nat.
Proof.
  induction l as [|x t IH]; intros i; cbn [Div.rposition_nz length]; [discriminate|].
  destruct (Div.rposition_nz t) as [j|].
  - intros [= <-]. specialize (IH j eq_refl). lia.
  - destruct (x =? 0); [discriminate|]. intros [= <-]. lia.
Qed.
Lemma clz64_le x : clz64 x <= 64.
Proof.
  unfold clz64. destruct (x =? 0); [lia|]. pose proof (Z.log2_nonneg x). lia.
Qed.
Lemma index_nth_error (l : list Z) (i : nat) x :
  nth_error l i = Some x -> Bits.index l (Z.of_nat i) = Val x.
Proof.
  intros H. unfold Bits.index.
  assert (Hi : (i < length l)%nat) by (apply nth_error_Some; congruence).
  destruct (Z.ltb_spec (Z.of_nat i) 0); [lia|].
  destruct (Z.leb_spec (lenZ l) (Z.of_nat i)) as [Hge|_]; [unfold lenZ in Hge; lia|].
  cbn [orb]. rewrite Nat2Z.id, H. reflexivity.
Qed.
Lemma agree_float_most_significant_bits a :
  Float.most_significant_bits a = Bits.most_significant_bits a.
Proof.
  unfold Float.most_significant_bits, Bits.most_significant_bits.
  rewrite agree_bits_rposition, agree_float_rposition_nz.
  destruct (Div.rposition_nz a) as [i|] eqn:E; cbn [option_map]; [|reflexivity].
  destruct i as [|j]; [reflexivity|].
  destruct (Z.eqb_spec (Z.of_nat (S j)) 0); [lia|].
  pose proof (rposition_nz_lt a _ E) as Hlt.
  destruct (nth_error a (S j)) as [hi|] eqn:Ehi; [|apply nth_error_None in Ehi; lia].
  destruct (nth_error a j) as [lo|] eqn:Elo; [|apply nth_error_None in Elo; lia].
  rewrite (index_nth_error a (S j) hi Ehi). cbn [obind].
  replace (Z.of_nat (S j) - 1) with (Z.of_nat j) by lia.
  rewrite (index_nth_error a j lo Elo). cbn [obind].
  unfold Bits.usub. pose proof (clz64_le hi).
  destruct (Z.ltb_spec (Z.of_nat (S j) * 64) (clz64 hi)); [lia|]. reflexivity.
Qed.

(* ---------- the little-endian byte view (owner: Bytes; copy in Bits.v) ---------- *)
Lemma agree_bits_le_bytes_fuel n : forall x, Bits.le_bytes_fuel n x = Bytes.le_digits n x.
Proof.
  induction n as [|n IH]; intros x; cbn [Bits.le_bytes_fuel Bytes.le_digits]; [reflexivity|].
  rewrite modp2_spec, divp2_spec by lia. change (2 ^ 8) with 256. rewrite IH. reflexivity.
Qed.
Lemma agree_bits_le_bytes64 x : Bits.le_bytes64 x = Bytes.u64_to_le_bytes x.
Proof. apply agree_bits_le_bytes_fuel. Qed.
Lemma agree_bits_as_le_slice bits a : Bits.as_le_slice bits a = Bytes.as_le_slice bits a.
Proof.
  unfold Bits.as_le_slice, Bytes.as_le_slice, Bytes.limb_bytes, Bytes.nbytesN.
  f_equal. induction a as [|x a IH]; cbn [flat_map]; [reflexivity|].
  rewrite IH, agree_bits_le_bytes64. reflexivity.
Qed.
Lemma agree_bits_byte bits a i : Bits.byte bits a i = Bytes.idx (Bytes.as_le_slice bits a) i.
Proof. unfold Bits.byte. rewrite agree_bits_index, agree_bits_as_le_slice. reflexivity. Qed.

(* ---------- limb-wise or ---------- *)
Lemma agree_facade_map2_lor a : forall b, Facade.map2 Z.lor a b = Shift.bitor a b.
Proof.
  induction a as [|x a IH]; intros [|y b]; cbn [Facade.map2 Shift.bitor]; try reflexivity.
  rewrite IH. reflexivity.
Qed.

(* ---------- shifts (owner: Shift; copies in Float.v and Bits.v) ---------- *)
Lemma agree_float_shl_loop l : forall b c, Float.shl_loop l b c = Shift.shl_loop l b c.
Proof.
  induction l as [|x t IH]; intros b c; cbn [Float.shl_loop Shift.shl_loop]; [reflexivity|].
  rewrite IH. reflexivity.
Qed.
Lemma agree_bits_shl_loop s ls : forall c, Bits.shl_loop s ls c = fst (Shift.shl_loop ls s c).
Proof.
  induction ls as [|x t IH]; intros c; cbn [Bits.shl_loop Shift.shl_loop]; [reflexivity|].
  replace (64 - s - 1) with (63 - s) by lia. rewrite IH.
  destruct (Shift.shl_loop t s (shr64 (shr64 x (63 - s)) 1)). reflexivity.
Qed.
Lemma agree_bits_shr_loop s ms : forall c, Bits.shr_loop s ms c = fst (Shift.shr_loop ms s c).
Proof.
  induction ms as [|x t IH]; intros c; cbn [Bits.shr_loop Shift.shr_loop]; [reflexivity|].
  replace (64 - s - 1) with (63 - s) by lia. rewrite IH.
  destruct (Shift.shr_loop t s (shl64 (shl64 x (63 - s)) 1)). reflexivity.
Qed.

Lemma agree_float_overflowing_shl bits a rhs :
  0 <= bits -> 0 <= rhs -> length a = nlimbsN bits ->
  Float.overflowing_shl bits a rhs = Shift.overflowing_shl bits a rhs.
Proof.
  intros Hb Hr Hl. unfold Float.overflowing_shl, Shift.overflowing_shl.
  assert (Hq : 0 <= rhs / 64) by (apply Z.div_pos; lia).
  pose proof (nlimbsN_Z bits Hb) as HN.
  destruct (Nat.leb_spec (nlimbsN bits) (Z.to_nat (rhs / 64))) as [Hle|Hgt];
    destruct (Z.leb_spec (nlimbs bits) (rhs / 64)) as [Hle'|Hgt']; try lia.
  - unfold Shift.ne_zero. rewrite (agree_float_all_zero bits a Hl). reflexivity.
  - replace (Z.to_nat (nlimbs bits - rhs / 64)) with (nlimbsN bits - Z.to_nat (rhs / 64))%nat by lia.
    rewrite agree_float_shl_loop.
    destruct (Shift.shl_loop (firstn (nlimbsN bits - Z.to_nat (rhs / 64)) a) (rhs mod 64) 0) as [hi carry].
    rewrite agree_shift_any_nz. reflexivity.
Qed.

Lemma agree_bits_shl_local bits a rhs :
  0 <= bits -> length a = nlimbsN bits ->
  Bits.shl_local bits a rhs = Shift.wrapping_shl bits a rhs.
Proof.
  intros Hb Hl. unfold Bits.shl_local, Shift.wrapping_shl, Shift.overflowing_shl.
  assert (HL : lenZ a = nlimbs bits) by (unfold lenZ; rewrite Hl; apply nlimbsN_Z, Hb).
  rewrite HL. destruct (nlimbs bits <=? rhs / 64); [reflexivity|].
  rewrite agree_bits_shl_loop.
  destruct (Shift.shl_loop (firstn (Z.to_nat (nlimbs bits - rhs / 64)) a) (rhs mod 64) 0) as [hi carry].
  reflexivity.
Qed.

Lemma agree_bits_shr_local bits a rhs :
  0 <= bits -> length a = nlimbsN bits ->
  Bits.shr_local bits a rhs = Shift.wrapping_shr bits a rhs.
Proof.
  intros Hb Hl. unfold Bits.shr_local, Shift.wrapping_shr, Shift.overflowing_shr.
  assert (HL : lenZ a = nlimbs bits) by (unfold lenZ; rewrite Hl; apply nlimbsN_Z, Hb).
  rewrite HL. destruct (nlimbs bits <=? rhs / 64); [reflexivity|].
  rewrite agree_bits_shr_loop.
  destruct (Shift.shr_loop (rev (skipn (Z.to_nat (rhs / 64)) a)) (rhs mod 64) 0) as [lo carry].
  reflexivity.
Qed.

(* consequences for the users of the local copies *)
Lemma agree_bits_reverse_bits bits a :
  0 <= bits -> length a = nlimbsN bits ->
  Bits.reverse_bits bits a =
  let r := map bitrev64 (rev a) in
  if negb (bits mod 64 =? 0) then Shift.wrapping_shr bits r (64 - bits mod 64) else r.
Proof.
  intros Hb Hl. unfold Bits.reverse_bits. cbv zeta.
  rewrite agree_bits_shr_local by (rewrite ?map_length, ?rev_length; assumption). reflexivity.
Qed.
Lemma agree_bits_checked_next_power_of_two bits a :
  0 <= bits ->
  Bits.checked_next_power_of_two bits a =
  if Bits.is_power_of_two a then Val (Some a)
  else do exp <- Bits.bit_len bits a ;
       if bits <=? exp then Val None
       else do one <- Mul.uONE bits ; Val (Some (Shift.wrapping_shl bits one exp)).
Proof.
  intros Hb. unfold Bits.checked_next_power_of_two.
  destruct (Bits.is_power_of_two a); [reflexivity|].
  destruct (Bits.bit_len bits a) as [e| | | |]; cbn [obind]; try reflexivity.
  destruct (bits <=? e); [reflexivity|].
  rewrite agree_bits_uONE by exact Hb. cbn [obind].
  rewrite agree_bits_shl_local; [reflexivity | exact Hb |].
  destruct (Z.eq_dec bits 0) as [->|Hne]; [reflexivity|].
  apply (uONE_canon bits ltac:(lia)).
Qed.

(* ---------- more slice helpers: DivKnuth.get / set, Bits.update, Bits.op_assign ---------- *)
Lemma agree_divknuth_get l i : DivKnuth.get l i = Conv.get_nth l i.
Proof. reflexivity. Qed.
Lemma agree_divknuth_set l : forall i v, DivKnuth.set l i v = Conv.set_nth l i v.
Proof.
  unfold DivKnuth.set. induction l as [|x l IH]; intros i v.
  - destruct i; reflexivity.
  - destruct i as [|i]; [reflexivity|]. cbn [Conv.set_nth length]. rewrite <- IH.
    change (Nat.ltb (S i) (S (length l))) with (Nat.ltb i (length l)).
    destruct (Nat.ltb i (length l)); reflexivity.
Qed.
Lemma upd_nat_set l : forall n f x, nth_error l n = Some x ->
  Bits.upd_nat n f l = Val (Bytes.set_nth n (f x) l).
Proof.
  induction l as [|y l IH]; intros n f x H; [destruct n; discriminate|].
  destruct n as [|n]; cbn [nth_error] in H.
  - injection H as ->. reflexivity.
  - cbn [Bits.upd_nat Bytes.set_nth]. rewrite (IH n f x H). reflexivity.
Qed.
Lemma agree_bits_update l i f :
  Bits.update l i f = (do x <- Bytes.idx l i ; Bytes.upd l i (f x)).
Proof.
  unfold Bits.update, Bytes.idx, Bytes.upd.
  destruct (Z.ltb_spec i 0) as [Hn|Hn]; [reflexivity|]. cbn [orb].
  destruct (Z.leb_spec 0 i); [|lia]. cbn [andb].
  destruct (Z.leb_spec (lenZ l) i) as [Hi|Hi]; unfold lenZ in Hi.
  - assert (E : nth_error l (Z.to_nat i) = None) by (apply nth_error_None; lia).
    rewrite E. reflexivity.
  - destruct (nth_error l (Z.to_nat i)) as [x|] eqn:E; [|apply nth_error_None in E; lia].
    cbn [obind]. destruct (Z.ltb_spec i (lenZ l)) as [_|Hge]; [|unfold lenZ in Hge; lia].
    apply upd_nat_set, E.
Qed.
Lemma agree_bits_op_assign f a : forall b, length a = length b ->
  Bits.op_assign f a b = Val (Facade.map2 f a b).
Proof.
  induction a as [|x a IH]; intros [|y b] H; cbn [length] in H; try discriminate; [reflexivity|].
  cbn [Bits.op_assign Facade.map2]. rewrite IH by lia. reflexivity.
Qed.

(* ---------- codec glue: inline copies of MASK and of the byte-order helpers ---------- *)
Lemma agree_codecb_top_and bits8 x : 0 < bits8 -> CodecB.top_and bits8 x = Z.land x (mask bits8).
Proof.
  intros H. unfold CodecB.top_and, mask. destruct (Z.eqb_spec bits8 0); [lia|].
  destruct (bits8 mod 64 =? 0); [reflexivity|].
  pose proof (Z.mod_pos_bound bits8 64 ltac:(lia)).
  rewrite Z.mod_small; [reflexivity|]. rewrite B_pow.
  split; [apply Z.pow_nonneg; lia | apply Z.pow_lt_mono_r; lia].
Qed.
Lemma agree_codecc_be_uval bs : CodecC.be_uval bs = Bytes.u64_from_be_bytes bs.
Proof. reflexivity. Qed.
Lemma agree_codecc_put_be x : CodecC.put_be 8 x = Bytes.u64_to_be_bytes x.
Proof. reflexivity. Qed.
Lemma agree_codecc_hex_alt : CodecC.hex_alt = CodecA.spec_alt_x.
Proof. reflexivity. Qed.

(* ====================================================================================== *)
(* PART 3 — the local copies of Model/Pow.v, Log.v, Root.v (C13)                          *)
(* ====================================================================================== *)

(* ---------- cmp.rs ---------- *)
Lemma agree_pow_is_zero bits a : Pow.is_zero bits a = UDiv.is_zero bits a.
Proof. reflexivity. Qed.
Lemma agree_pow_ueq a b : Pow.ueq a b = Cmp.ueq a b.
Proof. reflexivity. Qed.
Lemma agree_pow_ule a b : Pow.ule a b = Cmp.ule a b.
Proof. unfold Pow.ule, Cmp.ule, Cmp.partial_cmp, Cmp.ucmp. destruct (Add.limbs_cmp a b); reflexivity. Qed.
Lemma agree_root_umin a b : Root.umin a b = Cmp.umin a b.
Proof. unfold Root.umin, Pow.ule, Cmp.umin, Cmp.ucmp. destruct (Add.limbs_cmp a b); reflexivity. Qed.

(* ---------- mul.rs ---------- *)
Lemma agree_pow_overflowing_mul bits a b : Pow.overflowing_mul bits a b = Mul.overflowing_mul bits a b.
Proof.
  unfold Pow.overflowing_mul, Mul.overflowing_mul, Mul.apply_mask.
  destruct (Limbs.addmul (uZERO bits) a b); reflexivity.
Qed.
Lemma agree_pow_checked_mul bits a b : Pow.checked_mul bits a b = Mul.checked_mul bits a b.
Proof.
  unfold Pow.checked_mul, Mul.checked_mul, Add.checked_of. rewrite agree_pow_overflowing_mul.
  destruct (Mul.overflowing_mul bits a b) as [v [|]]; reflexivity.
Qed.
Lemma agree_pow_wrapping_mul bits a b : Pow.wrapping_mul bits a b = Mul.wrapping_mul bits a b.
Proof. reflexivity. Qed.

(* ---------- div.rs ---------- *)
Lemma agree_pow_div_rem a b : Pow.div_rem a b = UDiv.div_rem a b.
Proof. reflexivity. Qed.
Lemma agree_pow_wrapping_div a b : Pow.wrapping_div a b = UDiv.wrapping_div a b.
Proof. reflexivity. Qed.

(* ---------- from.rs conversions used by log.rs / root.rs ---------- *)
Lemma agree_log_i32 : Log.i32 = Mul.prim_i32.
Proof. reflexivity. Qed.
Lemma agree_log_usize : Log.usize = GcdMatrix.u64p.
Proof. reflexivity. Qed.
(* Self::from(2) through the i32 literal fallback: the same definition as in Mul.v *)
Lemma agree_log_from_i32 bits v : Log.from_i32 bits v = Mul.from_i32 bits v.
Proof. reflexivity. Qed.
(* Self::from(x : usize) = Self::from(x : u64) *)
Lemma agree_log_from_usize bits v :
  0 <= v < B -> Log.from_usize bits v = GcdMatrix.uint_from_u64 bits v.
Proof.
  intros Hv. unfold Log.from_usize, GcdMatrix.uint_from_u64, Conv.try_from_prim, Log.usize.
  cbn [Conv.psigned Conv.pw]. unfold Conv.try_from_unsigned. cbn [Z.eqb].
  rewrite Z.mod_small by exact Hv. reflexivity.
Qed.
(* result.to::<usize>() = try_into::<u64>().unwrap() *)
Lemma agree_log_to_usize bits a : Log.to_usize bits a = GcdMatrix.to_u64 bits a.
Proof. reflexivity. Qed.
Lemma agree_log_expect_opt (o : outcome (option (list Z))) : Log.expect_opt o = Facade.unwrap_opt o.
Proof. reflexivity. Qed.

(* ====================================================================================== *)
(* PART 4 — the two specification stand-ins left in Model/History.v (opaque_ops = [WrPow;  *)
(* Root]) against the C13 models Pow.v / Root.v.  Differs by design (integer-level         *)
(* specification vs limb-level code); on canonical operands the opcode computes exactly    *)
(* what the real model computes.                                                          *)
(* ====================================================================================== *)

Lemma wr_lift bits r v : canon bits r -> eval r = v -> History.wr r = History.lift bits (Opaque.zw v).
Proof.
  intros Hc He. unfold History.wr, History.lift, Opaque.zw. cbn [obind fst snd option_map].
  rewrite <- (uint_of_unique bits r v Hc He). reflexivity.
Qed.

Lemma agree_opaque_iroot_loop x d : 0 <= x -> 0 <= d -> forall k r, 0 <= r ->
  Opaque.iroot_loop k x d r = RunC13.iroot_loop k d x r.
Proof.
  intros Hx Hd. induction k as [|k IH]; intros r Hr; cbn [Opaque.iroot_loop RunC13.iroot_loop]; [reflexivity|].
  assert (Hc : 0 <= r + 2 ^ Z.of_nat k) by (pose proof (Z.pow_nonneg 2 (Z.of_nat k)); lia).
  rewrite PfPow.pow_le_spec by lia.
  apply IH. destruct (_ <=? x); lia.
Qed.
Lemma agree_opaque_iroot x d : 0 <= x -> 0 <= d -> Opaque.iroot x d = RunC13.iroot d x.
Proof. intros Hx Hd. apply agree_opaque_iroot_loop; lia. Qed.

(* Root: for every initial guess that meets the checked predicate of C13 (RunC13.root_guess_ok;
   the guess comes from libm and is an input of Model/Root.v) *)
Lemma agree_opaque_root bits a b c imm est :
  0 <= bits -> canon bits a -> 0 <= History.imm1 imm < B ->
  RunC13.root_guess_ok bits (eval a) (History.imm1 imm) est = true ->
  History.sem History.Root bits a b c imm =
  (do r <- Root.root bits a (History.imm1 imm) (RunC13.est_of est) ; History.wr r).
Proof.
  intros Hb Ca Hd Hg. cbn [History.sem]. set (d := History.imm1 imm) in *.
  pose proof (PfRoot.root_spec PfC13Closed.DivKernelOK_holds bits a d est Hb Ca Hd Hg) as H.
  unfold Opaque.z_root. destruct (Z.eqb_spec d 0) as [E0|E0].
  - subst d. rewrite E0 in *. cbn [Z.leb Z.compare] in H. rewrite H. reflexivity.
  - destruct (Z.leb_spec d 0); [lia|]. destruct H as (y & -> & Cy & Fy). cbn [obind].
    symmetry. apply wr_lift; [exact Cy|].
    pose proof (canon_range bits a Hb Ca) as Ra.
    apply (PfRoot.floor_root_unique (eval a) d); [lia | exact Fy |].
    destruct (Z.eqb_spec (eval a) 0) as [Ea|Ea].
    + rewrite Ea. unfold PfRoot.floor_root. rewrite Z.pow_0_l, Z.pow_1_l by lia. lia.
    + destruct (Z.leb_spec bits d).
      * unfold PfRoot.floor_root. rewrite Z.pow_1_l by lia. change (1 + 1) with 2.
        assert (2 ^ bits <= 2 ^ d) by (apply Z.pow_le_mono_r; lia). lia.
      * rewrite agree_opaque_iroot by lia. apply PfRoot.iroot_spec; lia.
Qed.
