(* Proofs/PfC07.v — every C07 call: the model's answer meets the executable specification. *)
From Coq Require Import ZArith List Bool Lia.
From RV.Model Require Import Base Word Conv.
From RV.Proofs Require Import BaseFacts PfConv.
From RV.Run Require Import RunC07.
Import ListNotations.
Local Open Scope Z_scope.

Lemma list_eqb_refl {A} (eqb : A -> A -> bool) (l : list A) :
  (forall x, eqb x x = true) -> list_eqb eqb l l = true.
Proof. intros H. induction l as [|x l IH]; cbn; [reflexivity | now rewrite H, IH]. Qed.
Lemma tok_eqb_refl t : tok_eqb t t = true.
Proof.
  destruct t; cbn; auto using Z.eqb_refl, eqb_reflx;
    apply list_eqb_refl; apply Z.eqb_refl.
Qed.
Lemma expect_refl t : expect (Val t) t = true.
Proof. unfold expect. cbn. apply list_eqb_refl, tok_eqb_refl. Qed.

Lemma uZERO_eq bits : 0 <= bits -> uZERO bits = uint_of bits 0.
Proof. intros H. destruct (canon_uZERO bits H). now apply uint_of_unique. Qed.
Lemma uMAX_eq bits : 0 <= bits -> uMAX bits = uint_of bits (2 ^ bits - 1).
Proof. intros H. destruct (canon_uMAX bits H). now apply uint_of_unique. Qed.

(* ---------- the 13 primitive types ---------- *)
Lemma prim_of_code_facts ty p :
  prim_of_code ty = Some p ->
  pw p = ty_width ty /\ psigned p = ty_signed ty /\ 1 <= pw p /\ (pw p <= 64 \/ pw p = 128).
Proof.
  unfold prim_of_code.
  destruct ty as [|q|q]; try discriminate;
    [|do 4 (try destruct q as [q|q|]); try discriminate];
    intros [= <-]; cbn; repeat split; lia.
Qed.

Lemma prim_max_ty ty p :
  pw p = ty_width ty -> psigned p = ty_signed ty -> prim_max p = ty_max ty.
Proof. intros E1 E2. unfold prim_max, ty_max. now rewrite E1, E2. Qed.
Lemma twos_cast ty p v :
  pw p = ty_width ty -> psigned p = ty_signed ty -> twos ty v = cast p v.
Proof. intros E1 E2. unfold twos, cast. now rewrite E1, E2. Qed.

(* ---------- primitive -> Uint ---------- *)
Definition pf_expected (bits ty x : Z) : to_res :=
  if x <? 0 then RNegative bits (uint_of bits (wrapped_from bits ty x))
  else if x <? M bits then ROk (uint_of bits x)
  else RTooLarge bits (uint_of bits (wrapped_from bits ty x)).

Lemma pf_res bits ty x p :
  0 <= bits -> prim_of_code ty = Some p -> prim_min p <= x <= prim_max p ->
  Conv.try_from_prim bits p x = Val (pf_expected bits ty x).
Proof.
  intros H Hp Hx. destruct (prim_of_code_facts ty p Hp) as (Ew & Es & Hw & Hww).
  rewrite try_from_prim_spec by auto. f_equal. unfold pf_expected, wrapped_from, res_of, M.
  rewrite <- Ew.
  destruct (Z.ltb_spec x 0); cbn [andb].
  - do 2 f_equal. destruct (Z.ltb_spec (pw p) bits).
    + rewrite modp2_spec by lia.
      pose proof (Z.mod_pos_bound x (2 ^ pw p) (pow2_pos (pw p) ltac:(lia))).
      assert (2 ^ pw p <= 2 ^ bits) by (apply pow2_le; lia).
      apply Z.mod_small. lia.
    + rewrite modp2_spec by lia. apply mod_mod_pow2. lia.
  - rewrite modp2_spec by lia. reflexivity.
Qed.

Lemma spec_from_ok bits v : 0 <= v < 2 ^ bits -> spec_from bits v (Val [U bits v]) = true.
Proof.
  intros Hv. unfold spec_from, M.
  destruct (Z.leb_spec 0 v); destruct (Z.ltb_spec v (2 ^ bits)); try lia. apply expect_refl.
Qed.
Lemma spec_from_panic bits v : ~ (0 <= v < 2 ^ bits) -> spec_from bits v Panic = true.
Proof.
  intros Hv. unfold spec_from, M.
  destruct (Z.leb_spec 0 v); destruct (Z.ltb_spec v (2 ^ bits)); try lia; reflexivity.
Qed.

Lemma pf_cases bits ty x :
  0 <= bits -> prim_ok ty x ->
  spec (pf_try_from bits ty x) (run (pf_try_from bits ty x)) = true /\
  spec (pf_uint_try_from bits ty x) (run (pf_uint_try_from bits ty x)) = true /\
  spec (pf_from bits ty x) (run (pf_from bits ty x)) = true /\
  spec (pf_wrapping_from bits ty x) (run (pf_wrapping_from bits ty x)) = true /\
  spec (pf_saturating_from bits ty x) (run (pf_saturating_from bits ty x)) = true.
Proof.
  intros H (p & Hp & Hx). cbn [spec run]. unfold with_prim. rewrite Hp.
  rewrite (pf_res bits ty x p H Hp Hx).
  unfold pf_expected, spec_try_from, spec_saturating_from, M.
  cbn [omap obind from_of wrapping_from_of saturating_from_of].
  pose proof (pow2_pos bits H) as Hpp.
  destruct (Z.ltb_spec x 0) as [Hneg|Hnn]; [|destruct (Z.ltb_spec x (2 ^ bits)) as [Hfit|Hbig]];
    cbn [omap obind to_res_toks].
  - repeat split; try apply expect_refl.
    + apply spec_from_panic. lia.
    + rewrite uZERO_eq by lia. apply expect_refl.
  - repeat split; try apply expect_refl.
    + apply spec_from_ok. lia.
    + unfold wrapped_from. destruct (Z.ltb_spec x 0); [lia|]. cbn [andb].
      rewrite modp2_spec, Z.mod_small by lia. apply expect_refl.
  - repeat split; try apply expect_refl.
    + apply spec_from_panic. lia.
    + rewrite uMAX_eq by lia. apply expect_refl.
Qed.

(* ---------- limb slices and Uint -> Uint ---------- *)
Lemma slice_cases bits s :
  0 <= bits -> Forall inW s ->
  (forall b : Z, spec (uu_uint_try_from bits b s) (run (uu_uint_try_from bits b s)) = true) /\
  (forall b : Z, spec (uu_from bits b s) (run (uu_from bits b s)) = true) /\
  (forall b : Z, spec (uu_wrapping_from bits b s) (run (uu_wrapping_from bits b s)) = true) /\
  (forall b : Z, spec (uu_saturating_from bits b s) (run (uu_saturating_from bits b s)) = true) /\
  (forall b : Z, spec (uu_from_uint bits b s) (run (uu_from_uint bits b s)) = true) /\
  (forall b : Z, spec (uu_checked_from_uint bits b s) (run (uu_checked_from_uint bits b s)) = true) /\
  (forall b : Z, spec (uu_uint_try_to b bits s) (run (uu_uint_try_to b bits s)) = true) /\
  (forall b : Z, spec (uu_to b bits s) (run (uu_to b bits s)) = true) /\
  (forall b : Z, spec (uu_wrapping_to b bits s) (run (uu_wrapping_to b bits s)) = true) /\
  (forall b : Z, spec (uu_saturating_to b bits s) (run (uu_saturating_to b bits s)) = true) /\
  spec (from_limbs_slice bits s) (run (from_limbs_slice bits s)) = true /\
  spec (checked_from_limbs_slice bits s) (run (checked_from_limbs_slice bits s)) = true /\
  spec (wrapping_from_limbs_slice bits s) (run (wrapping_from_limbs_slice bits s)) = true /\
  spec (overflowing_from_limbs_slice bits s) (run (overflowing_from_limbs_slice bits s)) = true /\
  spec (saturating_from_limbs_slice bits s) (run (saturating_from_limbs_slice bits s)) = true.
Proof.
  intros H Hs. cbn [spec run].
  unfold Conv.uint_try_from_uint, Conv.uint_try_to_uint, Conv.from_uint, Conv.checked_from_uint,
    Conv.from_limbs_slice, Conv.checked_from_limbs_slice, Conv.wrapping_from_limbs_slice,
    Conv.saturating_from_limbs_slice.
  rewrite (overflowing_from_limbs_slice_spec bits s H Hs).
  unfold spec_uu_try_from, spec_uu_try_to, spec_saturating_from, M.
  rewrite !modp2_spec by lia.
  pose proof (eval_bound s Hs) as Hb. pose proof (pow2_pos bits H) as Hpp.
  cbn [omap obind fst snd from_of wrapping_from_of saturating_from_of to_of wrapping_to_of
       saturating_to_of].
  destruct (Z.ltb_spec (eval s) 0); [lia|].
  destruct (Z.leb_spec (2 ^ bits) (eval s)) as [Hov|Hfit];
    destruct (Z.ltb_spec (eval s) (2 ^ bits)); try lia;
    cbn [omap obind fst snd from_of wrapping_from_of saturating_from_of to_of wrapping_to_of
         saturating_to_of to_res_toks from_res_toks opt_toks].
  - rewrite !uMAX_eq by lia.
    repeat split; intros; try apply expect_refl; apply spec_from_panic; lia.
  - rewrite !Z.mod_small by lia.
    repeat split; intros; try apply expect_refl; apply spec_from_ok; lia.
Qed.

(* ---------- Uint -> primitive ---------- *)
Definition pt_expected (bits ty v : Z) : from_res tok :=
  if v <=? ty_max ty then FOk (ptok ty v)
  else FOverflow bits (ptok ty (twos ty v)) (ptok ty (ty_max ty)).

Lemma pt_res bits ty a :
  0 <= bits -> ty_ok ty -> canon bits a ->
  try_to_toks bits ty a = Val (pt_expected bits ty (eval a)).
Proof.
  intros H (p & Hp) Hc. destruct (prim_of_code_facts ty p Hp) as (Ew & Es & Hw & Hww).
  unfold try_to_toks, pt_expected. rewrite Hp.
  rewrite <- (prim_max_ty ty p Ew Es), (twos_cast ty p _ Ew Es).
  destruct (Z.eqb_spec ty 0) as [->|N].
  - injection Hp as <-. rewrite try_to_bool_spec by auto. cbn [obind].
    change (prim_max {| pw := 1; psigned := false |}) with 1.
    destruct (Z.leb_spec (eval a) 1); [reflexivity|].
    unfold ptok, cast. cbn [Z.eqb pw psigned andb]. rewrite modp2_spec by lia.
    change (2 ^ 1) with 2. rewrite Zmod_odd. destruct (Z.odd (eval a)); reflexivity.
  - rewrite try_to_prim_spec by auto. cbn [obind]. unfold ptok.
    destruct (Z.eqb_spec ty 0); [lia|].
    destruct (eval a <=? prim_max p); reflexivity.
Qed.

Lemma spec_to_ok ty v : v <= ty_max ty -> spec_to ty v (Val [ptok ty v]) = true.
Proof. intros Hv. unfold spec_to. destruct (Z.leb_spec v (ty_max ty)); [apply expect_refl | lia]. Qed.
Lemma spec_to_panic ty v : ty_max ty < v -> spec_to ty v Panic = true.
Proof. intros Hv. unfold spec_to. destruct (Z.leb_spec v (ty_max ty)); [lia | reflexivity]. Qed.

Lemma pt_cases bits ty a :
  0 <= bits -> ty_ok ty -> canon bits a ->
  (forall sh, spec (pt_try_from bits ty sh a) (run (pt_try_from bits ty sh a)) = true) /\
  spec (pt_uint_try_to bits ty a) (run (pt_uint_try_to bits ty a)) = true /\
  spec (pt_to bits ty a) (run (pt_to bits ty a)) = true /\
  spec (pt_wrapping_to bits ty a) (run (pt_wrapping_to bits ty a)) = true /\
  spec (pt_saturating_to bits ty a) (run (pt_saturating_to bits ty a)) = true.
Proof.
  intros H Hty Hc. cbn [spec run]. rewrite (pt_res bits ty a H Hty Hc).
  destruct Hty as (p & Hp). destruct (prim_of_code_facts ty p Hp) as (Ew & Es & Hw & Hww).
  pose proof (canon_range bits a H Hc) as Hr.
  unfold pt_expected, spec_try_to.
  destruct (Z.leb_spec (eval a) (ty_max ty)) as [Hfit|Hbig];
    cbn [omap obind to_of wrapping_to_of saturating_to_of from_res_toks id_tok].
  - repeat split; intros; try apply expect_refl.
    + now apply spec_to_ok.
    + rewrite (twos_cast ty p _ Ew Es), cast_small
        by (try rewrite (prim_max_ty ty p Ew Es); lia). apply expect_refl.
    + rewrite Z.min_l by lia. apply expect_refl.
  - repeat split; intros; try apply expect_refl.
    + now apply spec_to_panic.
    + rewrite Z.min_r by lia. apply expect_refl.
Qed.

(* ---------- the theorem ---------- *)
Lemma canon_inW bits a : canon bits a -> Forall inW a.
Proof. intros (_ & Hw & _). exact Hw. Qed.

Theorem C07_all c : wf c -> spec c (run c) = true.
Proof.
  destruct c; cbn [wf].
  - intros (H & Hx). now apply (pf_cases bits ty x H Hx).
  - intros (H & Hx). now apply (pf_cases bits ty x H Hx).
  - intros (H & Hx). now apply (pf_cases bits ty x H Hx).
  - intros (H & Hx). now apply (pf_cases bits ty x H Hx).
  - intros (H & Hx). now apply (pf_cases bits ty x H Hx).
  - intros (H & _ & Hc). now apply (slice_cases bits a H (canon_inW _ _ Hc)).
  - intros (H & _ & Hc). now apply (slice_cases bits a H (canon_inW _ _ Hc)).
  - intros (H & _ & Hc). now apply (slice_cases bits a H (canon_inW _ _ Hc)).
  - intros (H & _ & Hc). now apply (slice_cases bits a H (canon_inW _ _ Hc)).
  - intros (H & _ & Hc). now apply (slice_cases bits a H (canon_inW _ _ Hc)).
  - intros (H & _ & Hc). now apply (slice_cases bits a H (canon_inW _ _ Hc)).
  - intros (H & Hty & Hc). now apply (pt_cases bits ty a H Hty Hc).
  - intros (H & Hty & Hc). now apply (pt_cases bits ty a H Hty Hc).
  - intros (H & Hty & Hc). now apply (pt_cases bits ty a H Hty Hc).
  - intros (H & Hty & Hc). now apply (pt_cases bits ty a H Hty Hc).
  - intros (H & Hty & Hc). now apply (pt_cases bits ty a H Hty Hc).
  - intros (_ & H & Hc). now apply (slice_cases dbits a H (canon_inW _ _ Hc)).
  - intros (_ & H & Hc). now apply (slice_cases dbits a H (canon_inW _ _ Hc)).
  - intros (_ & H & Hc). now apply (slice_cases dbits a H (canon_inW _ _ Hc)).
  - intros (_ & H & Hc). now apply (slice_cases dbits a H (canon_inW _ _ Hc)).
  - intros (H & Hs). now apply (slice_cases bits s H Hs).
  - intros (H & Hs). now apply (slice_cases bits s H Hs).
  - intros (H & Hs). now apply (slice_cases bits s H Hs).
  - intros (H & Hs). now apply (slice_cases bits s H Hs).
  - intros (H & Hs). now apply (slice_cases bits s H Hs).
Qed.

(* Prop-level corollary: a negative source wraps to x mod 2^BITS whenever BITS <= source width *)
Lemma try_from_negative_wraps bits p x :
  0 <= bits <= pw p -> (pw p <= 64 \/ pw p = 128) -> psigned p = true -> 1 <= pw p ->
  prim_min p <= x < 0 ->
  Conv.try_from_prim bits p x = Val (RNegative bits (uint_of bits (x mod 2 ^ bits))).
Proof.
  intros Hb Hww Hs Hw Hx.
  rewrite try_from_prim_spec; auto; try lia.
  - destruct (Z.ltb_spec x 0); [|lia]. rewrite mod_mod_pow2 by lia. reflexivity.
  - unfold prim_max. rewrite Hs. pose proof (pow2_pos (pw p - 1) ltac:(lia)). lia.
Qed.
