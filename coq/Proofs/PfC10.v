(* Proofs/PfC10.v — every C10 call: the model's answer meets the executable specification,
   under the explicit hypothesis DivKernelOK (contract of algorithms::div, property C14). *)
From Coq Require Import ZArith List Bool Lia Zpow_facts.
From RV.Model Require Import Base Word Modular.
From RV.Model Require Gcd.
From RV.Proofs Require Import BaseFacts PfC01 PfModular.
From RV.Proofs Require PfGcdUint PfGcdInv.
From RV.Run Require Import RunC10.
Import ListNotations.
Local Open Scope Z_scope.

(* ---------- the specification's square-and-multiply equals Z.pow mod ---------- *)
Lemma powmod_pos_spec a p m : 0 < m -> powmod_pos a p m = a ^ Zpos p mod m.
Proof.
  intros Hm. induction p as [p IH|p IH|]; cbn [powmod_pos].
  - rewrite IH. rewrite <- Z.mul_mod by lia.
    rewrite Z.mul_mod_idemp_l by lia. f_equal.
    rewrite Pos2Z.inj_xI. rewrite Z.pow_add_r, Z.pow_1_r by lia.
    replace (2 * Z.pos p) with (Z.pos p + Z.pos p) by lia. rewrite Z.pow_add_r by lia. ring.
  - rewrite IH. rewrite <- Z.mul_mod by lia. f_equal.
    rewrite Pos2Z.inj_xO. replace (2 * Z.pos p) with (Z.pos p + Z.pos p) by lia.
    now rewrite Z.pow_add_r by lia.
  - now rewrite Z.pow_1_r.
Qed.

Lemma powmod_spec a e m : 0 <= e -> 0 < m -> powmod a e m = a ^ e mod m.
Proof.
  intros He Hm. destruct e as [|p|p]; cbn [powmod]; [now rewrite Z.pow_0_r | now apply powmod_pos_spec | lia].
Qed.

Lemma zmod_same v m : RunC10.zmod v m = PfModular.zmod v m.
Proof. reflexivity. Qed.

(* FULL STATEMENT (target): Theorem C10_all c : wf c -> spec c (run c) = true.
   Proved here with the contract of the division kernel as an explicit hypothesis, for the
   four entry points of modular.rs that do not go through the Lehmer machinery. *)
Definition is_inv (c : call) : Prop := match c with inv_mod _ _ _ => True | _ => False end.

Theorem C10_arith_partial : DivKernelOK -> forall c, ~ is_inv c -> wf c -> spec c (run c) = true.
Proof.
  intros HD c. destruct c as [bits a m|bits a b m|bits a b m|bits a e m|bits a m]; cbn [wf spec run is_inv].
  - intros _ (H & Ha & Hm). rewrite (reduce_mod_eq HD) by auto. cbn [uint_res omap obind].
    apply expect_refl.
  - intros _ (H & Ha & Hb & Hm). rewrite (add_mod_eq HD) by auto. cbn [uint_res omap obind].
    apply expect_refl.
  - intros _ (H & Ha & Hb & Hm). rewrite (mul_mod_eq HD) by auto. cbn [uint_res omap obind].
    apply expect_refl.
  - intros _ (H & Ha & He & Hm). rewrite (pow_mod_eq HD) by auto. cbn [uint_res omap obind].
    pose proof (canon_range bits m H Hm). pose proof (canon_range bits e H He).
    unfold PfModular.zmod, U. destruct (Z.eqb_spec (eval m) 0); [apply expect_refl|].
    rewrite powmod_spec by lia. apply expect_refl.
  - tauto.
Qed.

(* inv_mod: Uint::inv_mod is algorithms::inv_mod, modelled and proved by the gcd topic (C12):
   PfGcdInv.inv_mod_spec, under the same division-kernel contract. *)
Lemma DivKernelOK_same : DivKernelOK -> PfGcdUint.DivKernelOK.
Proof. intros H. exact H. Qed.

Definition inv_post (bits A M : Z) (o : outcome (option (list Z))) : Prop :=
  match o with
  | Val (Some x) => canon bits x /\ 2 <= M /\ Z.gcd A M = 1 /\ eval x < M /\ (A * eval x) mod M = 1
  | Val None => M < 2 \/ Z.gcd A M <> 1
  | _ => False
  end.

Lemma inv_mod_post : DivKernelOK -> forall bits a m,
  0 <= bits -> canon bits a -> canon bits m ->
  inv_post bits (eval a) (eval m) (Gcd.inv_mod bits a m).
Proof.
  intros HD bits a m Hb Ha Hm.
  destruct (PfGcdInv.inv_mod_spec (DivKernelOK_same HD) bits a m Hb Ha Hm) as (o & -> & Ho).
  destruct (Z.leb_spec 2 (eval m)) as [H2|H2]; cbn [andb] in Ho.
  - destruct (Z.eqb_spec (Z.gcd (eval a) (eval m)) 1) as [G|G].
    + destruct Ho as (x & -> & Hc & Hlt & Hinv). cbn [inv_post]. auto.
    + subst o. cbn [inv_post]. now right.
  - subst o. cbn [inv_post]. left. lia.
Qed.

Lemma spec_inv_of_post bits a m o :
  inv_post bits a m o -> spec_inv bits a m (opt_res o) = true.
Proof.
  unfold spec_inv, opt_res, invertible. destruct o as [[x|]| | | |]; cbn [inv_post omap obind]; try tauto.
  - intros (Hc & Hm & Hg & Hlt & Hinv).
    apply canonb_iff in Hc. rewrite Hc.
    destruct (Z.leb_spec 2 m); [|lia]. destruct (Z.eqb_spec (Z.gcd a m) 1); [|lia].
    destruct (Z.ltb_spec (eval x) m); [|lia]. destruct (Z.eqb_spec ((a * eval x) mod m) 1); [|lia].
    reflexivity.
  - intros [Hm|Hg].
    + destruct (Z.leb_spec 2 m); [lia|]. reflexivity.
    + destruct (Z.eqb_spec (Z.gcd a m) 1); [contradiction|]. now rewrite andb_false_r.
Qed.

(* All five entry points, modulo the contract of algorithms::div (discharged in PfC10Closed). *)
Theorem C10_all_modulo_kernel : DivKernelOK -> forall c, wf c -> spec c (run c) = true.
Proof.
  intros HD c Hwf. destruct c as [bits a m|bits a b m|bits a b m|bits a e m|bits a m].
  1-4: (apply (C10_arith_partial HD); [cbn [is_inv]; tauto | exact Hwf]).
  cbn [wf] in Hwf. destruct Hwf as (H & Ha & Hm). cbn [spec run].
  apply spec_inv_of_post. now apply inv_mod_post.
Qed.

(* ---------- Prop-level restatements: canonical result, value in [0, m) ---------- *)
Definition returns (bits : Z) (o : outcome (list Z)) (v : Z) : Prop :=
  exists r, o = Val r /\ canon bits r /\ eval r = v.

Lemma returns_uint_of bits v m :
  0 <= bits -> 0 <= m < 2 ^ bits -> returns bits (Val (uint_of bits (PfModular.zmod v m))) (PfModular.zmod v m).
Proof.
  intros Hb Hm. exists (uint_of bits (PfModular.zmod v m)). split; [reflexivity|].
  apply canon_uint_of_small; [exact Hb|].
  destruct (zmod_range v m ltac:(lia)) as [H0 H1]. unfold PfModular.zmod in *.
  destruct (Z.eqb_spec m 0); lia.
Qed.

Theorem reduce_mod_value : DivKernelOK -> forall bits a m,
  0 <= bits -> canon bits a -> canon bits m ->
  returns bits (Modular.reduce_mod bits a m) (if eval m =? 0 then 0 else eval a mod eval m).
Proof.
  intros HD bits a m Hb Ha Hm. rewrite (reduce_mod_eq HD) by auto.
  apply returns_uint_of; [exact Hb | now apply canon_range].
Qed.
Theorem add_mod_value : DivKernelOK -> forall bits a b m,
  0 <= bits -> canon bits a -> canon bits b -> canon bits m ->
  returns bits (Modular.add_mod bits a b m) (if eval m =? 0 then 0 else (eval a + eval b) mod eval m).
Proof.
  intros HD bits a b m Hb Ha Hbb Hm. rewrite (add_mod_eq HD) by auto.
  apply returns_uint_of; [exact Hb | now apply canon_range].
Qed.
Theorem mul_mod_value : DivKernelOK -> forall bits a b m,
  0 <= bits -> canon bits a -> canon bits b -> canon bits m ->
  returns bits (Modular.mul_mod bits a b m) (if eval m =? 0 then 0 else (eval a * eval b) mod eval m).
Proof.
  intros HD bits a b m Hb Ha Hbb Hm. rewrite (mul_mod_eq HD) by auto.
  apply returns_uint_of; [exact Hb | now apply canon_range].
Qed.
Theorem pow_mod_value : DivKernelOK -> forall bits a e m,
  0 <= bits -> canon bits a -> canon bits e -> canon bits m ->
  returns bits (Modular.pow_mod bits a e m) (if eval m =? 0 then 0 else eval a ^ eval e mod eval m).
Proof.
  intros HD bits a e m Hb Ha He Hm. rewrite (pow_mod_eq HD) by auto.
  apply returns_uint_of; [exact Hb | now apply canon_range].
Qed.
