(* Proofs/PfC18.v — every C18 call: the model's answer meets the executable specification. *)
From Coq Require Import ZArith List Bool Lia.
From Coq.Floats Require Import SpecFloat.
From RV.Model Require Import Base Word Add Float.
From RV.Proofs Require Import BaseFacts PfSpecFloat PfFloatUint PfFloat PfFloatTo.
From RV.Run Require Import RunC18.
Import ListNotations.
Local Open Scope Z_scope.

Lemma list_eqb_refl {A} (eqb : A -> A -> bool) (l : list A) :
  (forall x, eqb x x = true) -> list_eqb eqb l l = true.
Proof. intros H. induction l as [|x l IH]; cbn; [reflexivity | now rewrite H, IH]. Qed.
Lemma tok_eqb_refl t : tok_eqb t t = true.
Proof.
  destruct t; cbn; auto using Z.eqb_refl, eqb_reflx;
    apply list_eqb_refl; apply Z.eqb_refl.
Qed.
Lemma expect_refl t : expect (Val t) t = true.
Proof. unfold expect. cbn. apply list_eqb_refl, tok_eqb_refl. Qed.

(* ---------- float -> Uint ---------- *)
Section FromFloat.
  Variables prec emax bits x : Z.
  Variable r : outcome to_uint_result.
  Hypothesis Hb : 0 <= bits.
  Hypothesis Hp : 1 <= prec.
  Hypothesis Hr : r = Val (res_of_class bits (classify prec emax x)).

  Lemma try_ok : expect (do e <- r ; Val (res_toks e)) (spec_try prec emax bits x) = true.
  Proof. rewrite Hr. cbn [obind]. rewrite spec_try_class. apply expect_refl. Qed.

  Lemma from_ok : spec_from prec emax bits x (do n <- uint_from r ; Val [TL n]) = true.
  Proof.
    rewrite Hr. unfold spec_from, uint_from. cbn [obind].
    destruct (classify prec emax x); cbn [res_of_class obind]; try reflexivity.
    destruct (n <? 2 ^ bits); cbn [obind]; [apply expect_refl|reflexivity].
  Qed.

  Lemma sat_ok : expect (do n <- saturating_from bits r ; Val [TL n]) (spec_sat prec emax bits x) = true.
  Proof.
    rewrite Hr. unfold spec_sat, saturating_from. cbn [obind].
    assert (HZ : uZERO bits = uint_of bits 0) by (symmetry; apply uint_of_0; exact Hb).
    assert (HM : uMAX bits = uint_of bits (2 ^ bits - 1)).
    { destruct (canon_uMAX bits Hb) as [Hc He]. apply uint_of_unique; auto. }
    destruct (classify prec emax x); cbn [res_of_class]; rewrite ?HZ, ?HM; try apply expect_refl.
    destruct (n <? 2 ^ bits); rewrite ?HM; apply expect_refl.
  Qed.

  Lemma wrap_ok : expect (do n <- wrapping_from bits r ; Val [TL n]) (spec_wrap prec emax bits x) = true.
  Proof.
    rewrite Hr. unfold spec_wrap, wrapping_from. cbn [obind].
    assert (HZ : uZERO bits = uint_of bits 0) by (symmetry; apply uint_of_0; exact Hb).
    assert (H2 : 0 < 2 ^ bits) by (apply Z.pow_pos_nonneg; lia).
    destruct (classify prec emax x) eqn:Ec; cbn [res_of_class]; rewrite ?HZ; try apply expect_refl.
    destruct (Z.ltb_spec n (2 ^ bits)); [|apply expect_refl].
    (* Ok n: n is its own residue; n >= 0 because it is a rounded magnitude *)
    assert (Hn : 0 <= n).
    { unfold classify in Ec.
      destruct (fexpo prec emax x =? 2 * emax - 1).
      - destruct (ffrac prec x =? 0); [destruct (fsign prec emax x)|]; discriminate.
      - destruct (fsign prec emax x && (0 <? fmant prec emax x)) eqn:Es; [discriminate|].
        inversion Ec; subst. apply rhu_nonneg.
        unfold fmant, ffrac.
        pose proof (Z.pow_pos_nonneg 2 (prec - 1) ltac:(lia) ltac:(lia)) as HP.
        pose proof (Z.mod_pos_bound x (2 ^ (prec - 1)) HP).
        destruct (fexpo prec emax x =? 0); lia. }
    rewrite modp2_spec, Z.mod_small by lia. apply expect_refl.
  Qed.
End FromFloat.

(* ---------- Uint -> float ---------- *)
Section ToFloatCalls.
  Variables prec emax : Z.
  Hypothesis Hprec : 1 < prec < 64.
  Hypothesis Hemax : 65 <= emax.

  Lemma to_ok bits a : 0 <= bits -> canon bits a ->
    match (do r <- run_to prec emax a ; Val [TZ r]) with
    | Val [TZ r] => spec_to prec emax (eval a) r
    | _ => false
    end = true.
  Proof.
    intros Hb (Hl & Hw & Hlt). rewrite (run_to_fenc prec emax Hprec Hemax a Hw). cbn [obind].
    apply spec_to_Fv; auto. pose proof (eval_bound a Hw). lia.
  Qed.

  Lemma pair_ok bits a b : 0 <= bits -> canon bits a -> canon bits b ->
    spec_pair prec emax a b
      (do r <- run_to prec emax a ; do s <- run_to prec emax b ; Val [TZ r; TZ s]) = true.
  Proof.
    intros Hb (Hla & Hwa & Hlta) (Hlb & Hwb & Hltb).
    rewrite (run_to_fenc prec emax Hprec Hemax a Hwa), (run_to_fenc prec emax Hprec Hemax b Hwb).
    cbn [obind]. unfold spec_pair.
    pose proof (eval_bound a Hwa) as Ha. pose proof (eval_bound b Hwb) as Hbb.
    rewrite !(spec_to_Fv prec emax Hprec Hemax) by lia. cbn [andb].
    apply andb_true_iff. split.
    - destruct (Z.leb_spec (eval a) (eval b)); [|reflexivity].
      apply (fle_Fv prec emax Hprec Hemax). lia.
    - destruct (Z.leb_spec (eval b) (eval a)); [|reflexivity].
      apply (fle_Fv prec emax Hprec Hemax). lia.
  Qed.
End ToFloatCalls.

Theorem C18_all c : wf c -> spec c (run c) = true.
Proof.
  destruct c as [bits x|bits x|bits x|bits x|bits x|bits x|bits x|bits x
                 |bits shape a|bits shape a|bits a b|bits a b]; cbn [wf spec run].
  - intros [Hb Hx]. apply try_ok. apply uint_try_from_f64_spec; lia.
  - intros [Hb Hx]. apply try_ok. apply uint_try_from_f32_spec; lia.
  - intros [Hb Hx]. apply from_ok. apply uint_try_from_f64_spec; lia.
  - intros [Hb Hx]. apply from_ok. apply uint_try_from_f32_spec; lia.
  - intros [Hb Hx]. apply sat_ok; [exact Hb|]. apply uint_try_from_f64_spec; lia.
  - intros [Hb Hx]. apply sat_ok; [exact Hb|]. apply uint_try_from_f32_spec; lia.
  - intros [Hb Hx]. apply wrap_ok; [exact Hb|lia|]. apply uint_try_from_f64_spec; lia.
  - intros [Hb Hx]. apply wrap_ok; [exact Hb|lia|]. apply uint_try_from_f32_spec; lia.
  - intros [Hb Ha]. apply (to_ok 53 1024 ltac:(lia) ltac:(lia) bits a Hb Ha).
  - intros [Hb Ha]. apply (to_ok 24 128 ltac:(lia) ltac:(lia) bits a Hb Ha).
  - intros (Hb & Ha & Hc). apply (pair_ok 53 1024 ltac:(lia) ltac:(lia) bits a b Hb Ha Hc).
  - intros (Hb & Ha & Hc). apply (pair_ok 24 128 ltac:(lia) ltac:(lia) bits a b Hb Ha Hc).
Qed.
