(* Proofs/PfFmt.v — src/fmt.rs: the chunks of base MAX = radix^WIDTH, the first printed plainly
   and the others zero-padded to WIDTH, concatenate to the positional digits of the value in
   `radix`; the DisplayBuffer (capacity BITS bytes) never overflows. *)
From Coq Require Import ZArith List Bool Lia.
From RV.Model Require Import Base Word Limbs BaseConv Fmt.
From RV.Proofs Require Import BaseFacts PfPositional PfBaseConv.
From RV.Run Require Import RunC09.
Import ListNotations.
Local Open Scope Z_scope.

(* ---------- std: printing of a primitive integer ---------- *)
Definition dstr (r : Z) (up : bool) (n : Z) : list Z :=
  if n =? 0 then [48] else map (digit_char up) (digits_be r n).

Lemma digits_be_step r n : 2 <= r -> 0 < n ->
  digits_be r n = digits_be r (n / r) ++ [n mod r].
Proof. intros Hr Hn. unfold digits_be. rewrite (digits_le_step r n) by lia. reflexivity. Qed.

Lemma std_loop_spec r up : 2 <= r ->
  forall fuel n acc, 0 < n < 2 ^ Z.of_nat fuel ->
  std_u64_digits_loop fuel r up n acc = map (digit_char up) (digits_be r n) ++ acc.
Proof.
  intros Hr. induction fuel as [|f IH]; intros n acc Hn.
  - cbn in Hn. lia.
  - cbn [std_u64_digits_loop]. rewrite (digits_be_step r n) by lia.
    rewrite map_app, <- app_assoc. cbn [map app].
    pose proof (div_lt_half r n f Hr ltac:(lia)) as Hh.
    destruct (Z.eqb_spec (n / r) 0) as [E|E].
    + rewrite E. unfold digits_be. rewrite digits_le_0 by lia. reflexivity.
    + rewrite IH by lia. reflexivity.
Qed.

Lemma std_loop_dstr r up fuel n : 2 <= r -> 0 <= n < 2 ^ Z.of_nat (S fuel) ->
  std_u64_digits_loop (S fuel) r up n [] = dstr r up n.
Proof.
  intros Hr Hn. unfold dstr. destruct (Z.eqb_spec n 0) as [->|N].
  - cbn [std_u64_digits_loop]. rewrite Z.mod_0_l, Z.div_0_l by lia. cbn. destruct up; reflexivity.
  - rewrite std_loop_spec by lia. apply app_nil_r.
Qed.

(* the inner `{:0width$x}` *)
Lemma chunk_pad w prefix buf :
  std_pad_integral (chunk_spec w) prefix buf = repeat 48 (Z.to_nat (w - lenZ buf)) ++ buf.
Proof.
  unfold std_pad_integral, chunk_spec. cbn [f_plus f_alt f_zero f_width].
  destruct (Z.leb_spec w (lenZ buf)) as [L|L].
  - replace (Z.to_nat (w - lenZ buf)) with 0%nat by lia. reflexivity.
  - reflexivity.
Qed.

(* ---------- fixed-width digits ---------- *)
Fixpoint fixed_le (W : nat) (r c : Z) : list Z :=
  match W with
  | O => []
  | S W' => c mod r :: fixed_le W' r (c / r)
  end.

Lemma pow_S r (W : nat) : r ^ Z.of_nat (S W) = r * r ^ Z.of_nat W.
Proof. rewrite Nat2Z.inj_succ, Z.pow_succ_r by lia. reflexivity. Qed.

Lemma div_pow_bound r W c : 2 <= r -> 0 <= c < r ^ Z.of_nat (S W) -> 0 <= c / r < r ^ Z.of_nat W.
Proof.
  intros Hr Hc. rewrite pow_S in Hc. split; [apply Z.div_pos; lia|].
  apply Z.div_lt_upper_bound; lia.
Qed.

Lemma digits_le_shift r : 2 <= r -> forall W q c, 0 < q -> 0 <= c < r ^ Z.of_nat W ->
  digits_le r (q * r ^ Z.of_nat W + c) = fixed_le W r c ++ digits_le r q.
Proof.
  intros Hr. induction W as [|W IH]; intros q c Hq Hc.
  - change (Z.of_nat 0) with 0 in *. rewrite Z.pow_0_r in *. assert (c = 0) as -> by lia.
    cbn [fixed_le app]. f_equal. lia.
  - pose proof (div_pow_bound r W c Hr Hc) as Hd. rewrite pow_S in *.
    assert (0 < r ^ Z.of_nat W) by (apply Z.pow_pos_nonneg; lia).
    assert (Hdm : (c + r * (q * r ^ Z.of_nat W)) mod r = c mod r /\
                  (c + r * (q * r ^ Z.of_nat W)) / r = q * r ^ Z.of_nat W + c / r).
    { pose proof (Z.div_mod c r ltac:(lia)). pose proof (Z.mod_pos_bound c r ltac:(lia)).
      split.
      - symmetry. apply Z.mod_unique with (q := q * r ^ Z.of_nat W + c / r); lia.
      - symmetry. apply Z.div_unique with (r := c mod r); lia. }
    replace (q * (r * r ^ Z.of_nat W) + c) with (c + r * (q * r ^ Z.of_nat W)) by ring.
    rewrite digits_le_step by nia. destruct Hdm as [-> ->].
    cbn [fixed_le app]. f_equal. apply IH; lia.
Qed.

Lemma fixed_le_digits r : 2 <= r -> forall W c, 0 <= c < r ^ Z.of_nat W ->
  (length (digits_le r c) <= W)%nat /\
  fixed_le W r c = digits_le r c ++ repeat 0 (W - length (digits_le r c)).
Proof.
  intros Hr. induction W as [|W IH]; intros c Hc.
  - change (Z.of_nat 0) with 0 in *. rewrite Z.pow_0_r in *. assert (c = 0) as -> by lia.
    rewrite digits_le_0 by lia. cbn. split; [lia|reflexivity].
  - pose proof (div_pow_bound r W c Hr Hc) as Hd. destruct (IH (c / r) Hd) as [IL IE].
    cbn [fixed_le]. destruct (Z.eq_dec c 0) as [->|N].
    + rewrite digits_le_0 by lia. rewrite Z.div_0_l in IE by lia.
      rewrite digits_le_0 in IE by lia. cbn [length app] in *. rewrite Nat.sub_0_r in *.
      rewrite Z.mod_0_l, Z.div_0_l by lia. rewrite IE. split; [lia|reflexivity].
    + rewrite (digits_le_step r c) by lia. cbn [length app]. split; [lia|].
      rewrite IE. reflexivity.
Qed.

Lemma map_repeat {A C} (f : A -> C) x n : map f (repeat x n) = repeat (f x) n.
Proof. induction n; cbn; congruence. Qed.
Lemma rev_repeat {A} (x : A) n : rev (repeat x n) = repeat x n.
Proof. induction n as [|n IH]; [reflexivity|]. cbn [repeat rev]. rewrite IH. symmetry. apply repeat_cons. Qed.

Lemma dc0 up : digit_char up 0 = 48. Proof. destruct up; reflexivity. Qed.

(* the padded chunk is the fixed-width digit string *)
Lemma padded_chunk r up (W : nat) prefix c : 2 <= r -> (1 <= W)%nat -> 0 <= c < r ^ Z.of_nat W ->
  std_pad_integral (chunk_spec (Z.of_nat W)) prefix (dstr r up c) =
  map (digit_char up) (rev (fixed_le W r c)).
Proof.
  intros Hr HW Hc. rewrite chunk_pad. destruct (fixed_le_digits r Hr W c Hc) as [FL FE].
  rewrite FE, rev_app_distr, rev_repeat, map_app, map_repeat, dc0.
  unfold dstr. destruct (Z.eqb_spec c 0) as [->|N].
  - rewrite digits_le_0 by lia. cbn [length rev map]. rewrite Nat.sub_0_r, app_nil_r.
    change (lenZ [48]) with 1. replace (Z.to_nat (Z.of_nat W - 1)) with (W - 1)%nat by lia.
    destruct W as [|W]; [lia|]. cbn [Nat.sub]. rewrite Nat.sub_0_r. cbn [repeat].
    symmetry. apply repeat_cons.
  - fold (digits_be r c). unfold lenZ. rewrite map_length. unfold digits_be at 1. rewrite rev_length.
    f_equal. f_equal. lia.
Qed.

(* ---------- the chunk loop ---------- *)
Definition cstr (b : fbase) (w c : Z) : list Z :=
  std_pad_integral (chunk_spec w) (b_prefix b) (std_u64_digits (b_radix b) (b_upper b) c).

Fixpoint render (b : fbase) (first : bool) (chunks : list Z) : list Z :=
  match chunks with
  | [] => []
  | c :: t => cstr b (if first then 0 else b_width b) c ++ render b false t
  end.

Lemma write_chunks_spec bits b : forall chunks first buf,
  lenZ (buf ++ render b first chunks) <= bits ->
  write_chunks bits b first chunks buf = Val (buf ++ render b first chunks).
Proof.
  induction chunks as [|c t IH]; intros first buf H.
  - cbn [write_chunks render]. now rewrite app_nil_r.
  - cbn [write_chunks render] in *. fold (cstr b (if first then 0 else b_width b) c) in *.
    set (s := cstr b (if first then 0 else b_width b) c) in *.
    rewrite app_assoc in H.
    assert (lenZ (buf ++ s) <= bits).
    { unfold lenZ in *. rewrite app_length in H. lia. }
    destruct (Z.ltb_spec bits (lenZ (buf ++ s))); [lia|].
    rewrite IH by exact H. now rewrite <- app_assoc.
Qed.

Lemma render_snoc b : forall l first c, l <> [] ->
  render b first (l ++ [c]) = render b first l ++ cstr b (b_width b) c.
Proof.
  induction l as [|x l IH]; intros first c H; [congruence|].
  destruct l as [|y l].
  - cbn [app render]. now rewrite !app_nil_r.
  - change ((x :: y :: l) ++ [c]) with (x :: ((y :: l) ++ [c])). cbn [render].
    rewrite (IH false c) by discriminate. cbn [render]. now rewrite !app_assoc.
Qed.

(* a formatting base: MAX = radix ^ WIDTH fits a u64 *)
Definition good_base (b : fbase) : Prop :=
  2 <= b_radix b /\ 1 <= b_width b /\ b_max b = b_radix b ^ b_width b /\ b_max b <= 2 ^ 64.

Lemma base_of_good t : good_base (base_of t).
Proof.
  unfold good_base, base_of.
  destruct ((t =? 0) || (t =? 1)); [|destruct (t =? 2); [|destruct (t =? 3); [|destruct (t =? 4)]]];
    cbn [b_radix b_width b_max]; repeat split; try lia; reflexivity.
Qed.

Lemma cstr_first b c : good_base b -> 0 <= c < b_max b ->
  cstr b 0 c = dstr (b_radix b) (b_upper b) c.
Proof.
  intros (Hr & HW & HM & H64) Hc. unfold cstr, std_u64_digits.
  rewrite (std_loop_dstr (b_radix b) (b_upper b) 63 c Hr) by (change (Z.of_nat 64) with 64; lia).
  rewrite chunk_pad. replace (Z.to_nat (0 - lenZ _)) with 0%nat; [reflexivity|].
  unfold lenZ. lia.
Qed.

Lemma cstr_padded b c : good_base b -> 0 <= c < b_max b ->
  cstr b (b_width b) c =
  map (digit_char (b_upper b)) (rev (fixed_le (Z.to_nat (b_width b)) (b_radix b) c)).
Proof.
  intros (Hr & HW & HM & H64) Hc. unfold cstr, std_u64_digits.
  rewrite (std_loop_dstr (b_radix b) (b_upper b) 63 c Hr) by (change (Z.of_nat 64) with 64; lia).
  rewrite <- (Z2Nat.id (b_width b)) at 1 by lia.
  apply padded_chunk; [exact Hr|lia|]. rewrite Z2Nat.id by lia. lia.
Qed.

Theorem render_digits b : good_base b -> forall v, 0 < v ->
  render b true (digits_be (b_max b) v) =
  map (digit_char (b_upper b)) (digits_be (b_radix b) v).
Proof.
  intros G. pose proof G as (Hr & HW & HM & H64).
  assert (HM2 : 2 <= b_max b).
  { rewrite HM. assert (b_radix b ^ 1 <= b_radix b ^ b_width b) by (apply Z.pow_le_mono_r; lia).
    rewrite Z.pow_1_r in *. lia. }
  apply (digits_ind (b_max b)
           (fun v => 0 < v -> render b true (digits_be (b_max b) v) =
                              map (digit_char (b_upper b)) (digits_be (b_radix b) v)) HM2);
    [intros; lia|].
  intros v Hv IH _.
  rewrite (digits_be_step (b_max b) v) by lia.
  pose proof (Z.mod_pos_bound v (b_max b) ltac:(lia)) as Hc.
  pose proof (Z.div_mod v (b_max b) ltac:(lia)) as Hdm.
  destruct (Z.le_gt_cases (v / b_max b) 0) as [L|L].
  - assert (v / b_max b = 0) by (pose proof (Z.div_pos v (b_max b)); lia).
    unfold digits_be at 1. rewrite digits_le_0 by lia. cbn [rev app render].
    rewrite app_nil_r, cstr_first by auto. unfold dstr.
    assert (v mod b_max b = v) as -> by lia.
    destruct (Z.eqb_spec v 0); [lia|reflexivity].
  - rewrite render_snoc.
    2:{ unfold digits_be. intros E. apply (f_equal (@rev Z)) in E. rewrite rev_involutive in E.
        cbn in E. apply digits_nil_iff in E; lia. }
    rewrite (IH L), cstr_padded by auto. rewrite <- map_app. f_equal.
    symmetry. unfold digits_be. rewrite <- rev_app_distr. f_equal.
    assert (HMW : b_radix b ^ Z.of_nat (Z.to_nat (b_width b)) = b_max b)
      by (rewrite Z2Nat.id by lia; now rewrite HM).
    rewrite <- (digits_le_shift (b_radix b) Hr (Z.to_nat (b_width b)) (v / b_max b) (v mod b_max b))
      by (rewrite ?HMW; lia).
    f_equal. rewrite HMW. lia.
Qed.

(* ---------- is_zero ---------- *)
Lemma is_zero_spec l : Forall inW l -> is_zero l = (eval l =? 0).
Proof.
  induction 1 as [|x t Hx Ht IH]; [reflexivity|].
  cbn [is_zero forallb eval]. fold (is_zero t). rewrite IH.
  pose proof (eval_bound t Ht) as [H0 _]. unfold inW in Hx. pose proof B_pos.
  destruct (Z.eqb_spec 0 x); destruct (Z.eqb_spec (eval t) 0);
    destruct (Z.eqb_spec (x + B * eval t) 0); cbn [andb]; try reflexivity; nia.
Qed.

(* ---------- the reference tables agree ---------- *)
Lemma base_of_ref t : 0 <= t <= 5 ->
  b_radix (base_of t) = ref_radix t /\ b_prefix (base_of t) = ref_prefix t /\
  b_upper (base_of t) = (t =? 3).
Proof.
  intros H. assert (t = 0 \/ t = 1 \/ t = 2 \/ t = 3 \/ t = 4 \/ t = 5) as C by lia.
  destruct C as [->|[->|[->|[->|[->| ->]]]]]; repeat split; reflexivity.
Qed.

Theorem fmt_spec bits t s a : 0 <= bits -> canon bits a -> 0 <= t <= 5 ->
  Fmt.fmt bits t s a = Val (ref_fmt t s (eval a)).
Proof.
  intros Hbits Hc Ht. destruct (base_of_ref t Ht) as (Er & Ep & Eu).
  pose proof (base_of_good t) as G. pose proof G as (Hr & HW & HM & H64).
  pose proof (canon_range bits a Hbits Hc) as Hv. destruct Hc as (Hlen & Hw & _).
  unfold Fmt.fmt, ref_fmt, ref_digit_string. rewrite is_zero_spec by exact Hw.
  destruct (Nat.eqb_spec (length a) 0) as [L0|L0]; cbn [orb].
  - destruct a; [|discriminate]. cbn [eval]. cbn [Z.eqb]. now rewrite Ep.
  - destruct (Z.eqb_spec (eval a) 0) as [E0|E0]; [now rewrite Ep|].
    assert (HM2 : 2 <= b_max (base_of t) < B).
    { split.
      - rewrite HM. assert (b_radix (base_of t) ^ 1 <= b_radix (base_of t) ^ b_width (base_of t))
          by (apply Z.pow_le_mono_r; lia). rewrite Z.pow_1_r in *. lia.
      - rewrite B_pow. unfold base_of.
        destruct ((t =? 0) || (t =? 1)); [|destruct (t =? 2); [|destruct (t =? 3); [|destruct (t =? 4)]]];
          cbn [b_max]; lia. }
    rewrite to_base_be_spec by auto. cbn [obind].
    pose proof (render_digits (base_of t) G (eval a) ltac:(lia)) as R.
    rewrite write_chunks_spec.
    + cbn [obind app]. rewrite R, Ep, Er, Eu. reflexivity.
    + cbn [app]. rewrite R. unfold lenZ. rewrite map_length. unfold digits_be. rewrite rev_length.
      pose proof (digits_length_le (b_radix (base_of t)) Hr (Z.to_nat bits) (eval a)
                    ltac:(rewrite Z2Nat.id by lia; lia)). lia.
Qed.

Theorem fmt_ref_spec t v : 0 <= t <= 5 -> 0 <= v < 2 ^ 128 ->
  std_u64_digits_loop 128 (b_radix (base_of t)) (b_upper (base_of t)) v [] = ref_digit_string t v.
Proof.
  intros Ht Hv. destruct (base_of_ref t Ht) as (Er & Ep & Eu).
  pose proof (base_of_good t) as (Hr & _).
  rewrite (std_loop_dstr _ _ 127 v Hr) by (change (Z.of_nat 128) with 128; lia).
  unfold dstr, ref_digit_string. now rewrite Er, Eu.
Qed.
