(* Proofs/PfDivKnuthList.v — list plumbing of the Knuth loops: get / set / slice / splice on
   `pre ++ window ++ post`, and localisation of one loop iteration to offset 0. *)
From Coq Require Import ZArith List Bool Lia Arith.
From RV.Model Require Import Base Word Limbs DivRecip DivSmall DivKnuth.
From RV.Proofs Require Import BaseFacts PfDivBase.
Import ListNotations.
Local Open Scope Z_scope.

Lemma get_app_r a b i : get (a ++ b) (length a + i) = get b i.
Proof.
  unfold get. rewrite nth_error_app2 by lia.
  replace (length a + i - length a)%nat with i by lia. reflexivity.
Qed.
Lemma get_at a x b : get (a ++ x :: b) (length a) = Val x.
Proof. rewrite <- (Nat.add_0_r (length a)), get_app_r. reflexivity. Qed.
Lemma get_at1 a x y b : get (a ++ x :: y :: b) (S (length a)) = Val y.
Proof. replace (S (length a)) with (length a + 1)%nat by lia. rewrite get_app_r. reflexivity. Qed.
Lemma get_at2 a x y z b : get (a ++ x :: y :: z :: b) (S (S (length a))) = Val z.
Proof. replace (S (S (length a))) with (length a + 2)%nat by lia. rewrite get_app_r. reflexivity. Qed.

Lemma get_or0_app_r a b i : get_or0 (a ++ b) (length a + i) = get_or0 b i.
Proof.
  unfold get_or0. rewrite app_nth2 by lia.
  replace (length a + i - length a)%nat with i by lia. reflexivity.
Qed.
Lemma get_or0_end a : get_or0 a (length a) = 0.
Proof. unfold get_or0. apply nth_overflow. lia. Qed.
Lemma get_or0_at a x b : get_or0 (a ++ x :: b) (length a) = x.
Proof. rewrite <- (Nat.add_0_r (length a)), get_or0_app_r. reflexivity. Qed.

Lemma slice_app_r a b j k : slice (a ++ b) (length a + j) k = slice b j k.
Proof.
  unfold slice. rewrite app_length.
  replace (Nat.leb (length a + j + k) (length a + length b)) with (Nat.leb (j + k) (length b)).
  2:{ destruct (Nat.leb_spec (j + k) (length b)), (Nat.leb_spec (length a + j + k) (length a + length b));
      auto; lia. }
  rewrite skipn_app, skipn_all2 by lia.
  replace (length a + j - length a)%nat with j by lia. reflexivity.
Qed.
Lemma slice_prefix a b k : k = length a -> slice (a ++ b) 0 k = Val a.
Proof.
  intros ->. unfold slice. rewrite app_length.
  destruct (Nat.leb_spec (0 + length a) (length a + length b)); [|lia].
  cbn [skipn]. rewrite firstn_app, firstn_all, Nat.sub_diag. cbn [firstn]. rewrite app_nil_r. reflexivity.
Qed.
Lemma slice_all a k : k = length a -> slice a 0 k = Val a.
Proof. intros E. rewrite <- (app_nil_r a) at 1. apply slice_prefix, E. Qed.

Lemma splice_app_r a b j w : splice (a ++ b) (length a + j) w = a ++ splice b j w.
Proof.
  unfold splice. rewrite firstn_app, firstn_all2 by lia.
  replace (length a + j - length a)%nat with j by lia.
  rewrite skipn_app, skipn_all2 by lia.
  replace (length a + j + length w - length a)%nat with (j + length w)%nat by lia.
  rewrite <- app_assoc. reflexivity.
Qed.
Lemma splice_prefix a b w : length w = length a -> splice (a ++ b) 0 w = w ++ b.
Proof.
  intros E. unfold splice. cbn [firstn app Nat.add]. rewrite E, skipn_app, skipn_all, Nat.sub_diag.
  reflexivity.
Qed.

Lemma set_app_r a b i x : set (a ++ b) (length a + i) x = omap (app a) (set b i x).
Proof.
  unfold set. rewrite app_length.
  replace (Nat.ltb (length a + i) (length a + length b)) with (Nat.ltb i (length b)).
  2:{ destruct (Nat.ltb_spec i (length b)), (Nat.ltb_spec (length a + i) (length a + length b)); auto; lia. }
  destruct (Nat.ltb i (length b)); [|reflexivity]. cbn [omap obind]. f_equal.
  rewrite firstn_app, firstn_all2 by lia.
  replace (length a + i - length a)%nat with i by lia.
  replace (S (length a + i)) with (length a + S i)%nat by lia.
  rewrite skipn_app, skipn_all2 by lia.
  replace (length a + S i - length a)%nat with (S i) by lia.
  rewrite <- app_assoc. reflexivity.
Qed.
Lemma set_at a x b y : set (a ++ x :: b) (length a) y = Val (a ++ y :: b).
Proof.
  rewrite <- (Nat.add_0_r (length a)), set_app_r. reflexivity.
Qed.
Lemma set_at1 a x0 x b y : set (a ++ x0 :: x :: b) (S (length a)) y = Val (a ++ x0 :: y :: b).
Proof.
  replace (S (length a)) with (length a + 1)%nat by lia. rewrite set_app_r. reflexivity.
Qed.

(* a list of length >= 2 / >= 3 seen from its top *)
Lemma list_top2 (l : list Z) k : length l = S (S k) ->
  exists lo a b, l = lo ++ [a; b] /\ length lo = k.
Proof.
  intros H. destruct (list_snoc_inv l) as (i & b & ->); [destruct l; discriminate|].
  rewrite app_length in H. cbn in H.
  destruct (list_snoc_inv i) as (lo & a & ->); [destruct i; cbn in H; [lia|discriminate]|].
  rewrite app_length in H. cbn in H.
  exists lo, a, b. rewrite <- app_assoc. split; [reflexivity|lia].
Qed.
Lemma list_top3 (l : list Z) k : length l = S (S (S k)) ->
  exists lo a b c, l = lo ++ [a; b; c] /\ length lo = k.
Proof.
  intros H. destruct (list_top2 l (S k) H) as (i & b & c & -> & Hi).
  destruct (list_snoc_inv i) as (lo & a & ->); [destruct i; discriminate|].
  rewrite app_length in Hi. cbn in Hi.
  exists lo, a, b, c. rewrite <- app_assoc. split; [reflexivity|lia].
Qed.

Lemma Forall_app_inv {A} (P : A -> Prop) a b : Forall P (a ++ b) -> Forall P a /\ Forall P b.
Proof. apply Forall_app. Qed.

(* ---------- localisation: iteration j on pre ++ rest = iteration 0 on rest ---------- *)
Lemma obind_omap {A C E} (o : outcome A) (g : A -> C) (k : C -> outcome E) :
  obind (omap g o) k = obind o (fun a => k (g a)).
Proof. destruct o; reflexivity. Qed.

Lemma slice_app_r0 a b k : slice (a ++ b) (length a) k = slice b 0 k.
Proof. rewrite <- (Nat.add_0_r (length a)). apply slice_app_r. Qed.
Lemma splice_app_r0 a b w : splice (a ++ b) (length a) w = a ++ splice b 0 w.
Proof. rewrite <- (Nat.add_0_r (length a)). apply splice_app_r. Qed.
Lemma ltb_app_r {A} (a b : list A) n :
  Nat.ltb (length a + n) (length (a ++ b)) = Nat.ltb n (length b).
Proof.
  rewrite app_length.
  destruct (Nat.ltb_spec n (length b)), (Nat.ltb_spec (length a + n) (length a + length b)); auto; lia.
Qed.

Ltac loc_norm :=
  rewrite ?slice_app_r0, ?splice_app_r0, ?set_app_r, ?get_app_r, ?get_or0_app_r, ?ltb_app_r,
          ?obind_omap.
Ltac head_of t :=
  lazymatch t with
  | obind ?o _ => head_of o
  | _ => t
  end.
Ltac loc_step :=
  loc_norm;
  lazymatch goal with
  | |- ?L = omap _ _ =>
      let h := head_of L in
      lazymatch h with
      | (if ?c then _ else _) => destruct c
      | (let '(a, b) := ?p in _) => destruct p
      | Val _ => fail
      | Panic => fail
      | DebugPanic => fail
      | _ => destruct h as [?| | | |]
      end; cbn [obind omap fst snd]; auto
  end.

Lemma nxm_norm_step_local pre rest divisor n d v : (2 <= n)%nat ->
  nxm_norm_step (pre ++ rest) divisor n (length pre) d v =
  omap (app pre) (nxm_norm_step rest divisor n 0 d v).
Proof.
  intros Hn. unfold nxm_norm_step.
  replace (length pre + n - 1)%nat with (length pre + (n - 1))%nat by lia.
  replace (length pre + n - 2)%nat with (length pre + (n - 2))%nat by lia.
  cbn [Nat.add].
  repeat loc_step; loc_norm; try reflexivity.
Qed.

Lemma nxm_step_local pre rest divisor n d v shift qh : (3 <= n)%nat ->
  nxm_step (pre ++ rest) divisor n (length pre) d v shift qh =
  omap (fun p => (pre ++ fst p, snd p)) (nxm_step rest divisor n 0 d v shift qh).
Proof.
  intros Hn. unfold nxm_step.
  replace (length pre + n - 1)%nat with (length pre + (n - 1))%nat by lia.
  replace (length pre + n - 2)%nat with (length pre + (n - 2))%nat by lia.
  replace (length pre + n - 3)%nat with (length pre + (n - 3))%nat by lia.
  cbn [Nat.add].
  repeat loc_step; loc_norm; try reflexivity.
Qed.
